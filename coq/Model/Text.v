(* Text.v - byte-level model of the natural-language text path (property C06).

   Go sources modelled (tree with the fix: commits of C06 applied; the definitions of the pinned
   tree are kept as ..._pinned):
     natural_language_values.go  stringBytes, unescape, NaturalLanguageValues.MarshalJSON,
                                 LangRefValue.MarshalJSON, LangRefValue.UnmarshalJSON,
                                 NaturalLanguageValues.UnmarshalJSON (array case: see nlv_unmarshal_json),
                                 Content.UnmarshalText, the gob forms kv / []kv
     encoding_json.go            JSONWriteComma, JSONWriteProp, JSONWriteNaturalLanguageProp
     decoding_json.go            JSONGetNaturalLanguageField
     object.go / actor.go        GetAPSource, Source.MarshalJSON, the text members of Object/Actor.MarshalJSON
     unicode/utf8                DecodeRune (validity and size of the first rune), Valid
     fastjson v1.6.4 parser.go   skipWS, parseValue/parseObject/parseArray, parseRawString, parseRawKey,
                                 parseRawNumber, unescapeStringBestEffort, Object.Get / Visit, GetStringBytes
   Definitions only. *)
From AP.Model Require Import Prelude Nlv.

(* ------------------------------------------------------------------ bytes used below *)
Definition bQ : byte := x22.   (* double quote *)
Definition bBS : byte := x5c.  (* \ *)
Definition bSL : byte := x2f.  (* / *)
Definition bLB : byte := x7b.  (* { *)
Definition bRB : byte := x7d.  (* } *)
Definition bLK : byte := x5b.  (* [ *)
Definition bRK : byte := x5d.  (* ] *)
Definition bCO : byte := x3a.  (* : *)
Definition bCM : byte := x2c.  (* , *)
Definition b_u : byte := x75.
Definition b_0 : byte := x30.

Definition bn (b : byte) : N := Byte.to_N b.
Definition in_rng (b : byte) (lo hi : N) : bool := (lo <=? bn b)%N && (bn b <=? hi)%N.

(* ------------------------------------------------------------------ unicode/utf8 *)
(* number of continuation bytes announced by a first byte >= 0x80; 0 = not a valid first byte *)
Definition utf8_n (b : byte) : nat :=
  if in_rng b 194 223 then 1            (* C2..DF *)
  else if in_rng b 224 239 then 2       (* E0..EF *)
  else if in_rng b 240 244 then 3       (* F0..F4 *)
  else 0.
(* accepted range of the second byte (Go's acceptRanges) *)
Definition utf8_lo (b : byte) : N :=
  if Byte.eqb b xe0 then 160 else if Byte.eqb b xf0 then 144 else 128.
Definition utf8_hi (b : byte) : N :=
  if Byte.eqb b xed then 159 else if Byte.eqb b xf4 then 143 else 191.
Definition is_cont (b : byte) : bool := in_rng b 128 191.

(* utf8.Valid *)
Fixpoint utf8_valid (s : bytes) : bool :=
  match s with
  | [] => true
  | b :: r =>
      if (bn b <? 128)%N then utf8_valid r
      else match utf8_n b with
           | 1 => match r with
                  | c1 :: r1 => in_rng c1 (utf8_lo b) (utf8_hi b) && utf8_valid r1
                  | _ => false
                  end
           | 2 => match r with
                  | c1 :: c2 :: r2 => in_rng c1 (utf8_lo b) (utf8_hi b) && is_cont c2 && utf8_valid r2
                  | _ => false
                  end
           | 3 => match r with
                  | c1 :: c2 :: c3 :: r3 =>
                      in_rng c1 (utf8_lo b) (utf8_hi b) && is_cont c2 && is_cont c3 && utf8_valid r3
                  | _ => false
                  end
           | _ => false
           end
  end.
Definition valid_utf8 (s : bytes) : Prop := utf8_valid s = true.

(* string(rune(x)) for a scalar value x (callers pass no surrogates); U+FFFD otherwise *)
Definition bt (n : N) : byte := byte_of_N_total n.
Definition utf8_enc (x : N) : bytes :=
  if (x <? 128)%N then [bt x]
  else if (x <? 2048)%N then [bt (192 + x / 64); bt (128 + x mod 64)]
  else if (x <? 65536)%N then
    if (55296 <=? x)%N && (x <? 57344)%N then [xef; xbf; xbd]
    else [bt (224 + x / 4096); bt (128 + (x / 64) mod 64); bt (128 + x mod 64)]
  else if (x <? 1114112)%N then
    [bt (240 + x / 262144); bt (128 + (x / 4096) mod 64); bt (128 + (x / 64) mod 64); bt (128 + x mod 64)]
  else [xef; xbf; xbd].

(* ------------------------------------------------------------------ stringBytes *)
(* safeSet: every ASCII byte except controls, quote and backslash; htmlSafeSet also excludes < > & *)
Definition safe_ascii (b : byte) : bool :=
  (32 <=? bn b)%N && (bn b <? 128)%N && negb (Byte.eqb b bQ) && negb (Byte.eqb b bBS).
Definition html_safe_ascii (b : byte) : bool :=
  safe_ascii b && negb (Byte.eqb b x3c) && negb (Byte.eqb b x3e) && negb (Byte.eqb b x26).

Definition hexdig (n : N) : byte :=
  if (n <? 10)%N then bt (48 + n) else bt (87 + n).   (* "0123456789abcdef"[n] *)

(* the escape written for one ASCII byte *)
Definition esc_ascii (html : bool) (b : byte) : bytes :=
  if html_safe_ascii b || (negb html && safe_ascii b) then [b]
  else bBS ::
       (if Byte.eqb b bBS || Byte.eqb b bQ then [b]
        else if Byte.eqb b x0a then [x6e]
        else if Byte.eqb b x0d then [x72]
        else if Byte.eqb b x09 then [x74]
        else [b_u; b_0; b_0; hexdig (bn b / 16); hexdig (bn b mod 16)]).

Definition esc_fffd : bytes := [bBS; b_u; x66; x66; x66; x64].            (* backslash ufffd *)
Definition esc_202 (c2 : byte) : bytes := [bBS; b_u; x32; x30; x32; hexdig (bn c2 mod 16)].  (* backslash u2028 / u2029 *)
Definition is_ls (b c1 c2 : byte) : bool :=
  Byte.eqb b xe2 && Byte.eqb c1 x80 && (Byte.eqb c2 xa8 || Byte.eqb c2 xa9).

(* the body written between the quotes; one step per iteration of the Go loop (utf8.DecodeRune at i) *)
Fixpoint sbody (html : bool) (s : bytes) : bytes :=
  match s with
  | [] => []
  | b :: r =>
      if (bn b <? 128)%N then esc_ascii html b ++ sbody html r
      else match utf8_n b with
           | 1 => match r with
                  | c1 :: r1 =>
                      if in_rng c1 (utf8_lo b) (utf8_hi b) then b :: c1 :: sbody html r1
                      else esc_fffd ++ sbody html r
                  | _ => esc_fffd ++ sbody html r
                  end
           | 2 => match r with
                  | c1 :: c2 :: r2 =>
                      if in_rng c1 (utf8_lo b) (utf8_hi b) && is_cont c2 then
                        (if is_ls b c1 c2 then esc_202 c2 else [b; c1; c2]) ++ sbody html r2
                      else esc_fffd ++ sbody html r
                  | _ => esc_fffd ++ sbody html r
                  end
           | 3 => match r with
                  | c1 :: c2 :: c3 :: r3 =>
                      if in_rng c1 (utf8_lo b) (utf8_hi b) && is_cont c2 && is_cont c3 then
                        b :: c1 :: c2 :: c3 :: sbody html r3
                      else esc_fffd ++ sbody html r
                  | _ => esc_fffd ++ sbody html r
                  end
           | _ => esc_fffd ++ sbody html r
           end
  end.

Definition string_bytes_h (html : bool) (s : bytes) : bytes := bQ :: sbody html s ++ [bQ].
(* every caller on the text path passes escapeHTML = false *)
Definition string_bytes (s : bytes) : bytes := string_bytes_h false s.

(* ------------------------------------------------------------------ unescape *)
(* bytes.ReplaceAll(s, [a;b], [c]) : non-overlapping, left to right *)
Fixpoint repl2 (a b c : byte) (s : bytes) : bytes :=
  match s with
  | [] => []
  | x :: s' =>
      match s' with
      | [] => [x]
      | y :: r => if Byte.eqb x a && Byte.eqb y b then c :: repl2 a b c r else x :: repl2 a b c s'
      end
  end.

(* the eight sequential ReplaceAll of natural_language_values.go:unescape, in order *)
Definition unescape (s : bytes) : bytes :=
  let s := repl2 bBS x61 x07 s in   (* \a *)
  let s := repl2 bBS x66 x0c s in   (* \f *)
  let s := repl2 bBS x6e x0a s in   (* \n *)
  let s := repl2 bBS x72 x0d s in   (* \r *)
  let s := repl2 bBS x74 x09 s in   (* \t *)
  let s := repl2 bBS x76 x0b s in   (* \v *)
  let s := repl2 bBS bQ bQ s in     (* backslash quote *)
  repl2 bBS bBS bBS s.              (* \\ *)

(* ------------------------------------------------------------------ fastjson: strings *)
Definition hexv (b : byte) : option N :=
  if in_rng b 48 57 then Some (bn b - 48)%N
  else if in_rng b 97 102 then Some (bn b - 87)%N
  else if in_rng b 65 70 then Some (bn b - 55)%N
  else None.
(* strconv.ParseUint(xs, 16, 16) on exactly four bytes *)
Definition hex4 (a b c d : byte) : option N :=
  match hexv a, hexv b, hexv c, hexv d with
  | Some x, Some y, Some z, Some w => Some (((x * 16 + y) * 16 + z) * 16 + w)%N
  | _, _, _, _ => None
  end.
Definition is_surrogate (x : N) : bool := (55296 <=? x)%N && (x <? 57344)%N.
(* utf16.DecodeRune *)
Definition utf16_decode (r1 r2 : N) : N :=
  if (55296 <=? r1)%N && (r1 <? 56320)%N && (56320 <=? r2)%N && (r2 <? 57344)%N
  then ((r1 - 55296) * 1024 + (r2 - 56320) + 65536)%N else 65533%N.

(* unescapeStringBestEffort.  Invalid and truncated escapes are kept verbatim, a lone surrogate is kept
   as written, a backslash that ends the input is dropped (the Go loop exits with nothing appended). *)
Fixpoint fj_unescape (s : bytes) : bytes :=
  match s with
  | [] => []
  | c :: r =>
      if negb (Byte.eqb c bBS) then c :: fj_unescape r
      else
        match r with
        | [] => []
        | ch :: r1 =>
            if Byte.eqb ch bQ then bQ :: fj_unescape r1
            else if Byte.eqb ch bBS then bBS :: fj_unescape r1
            else if Byte.eqb ch bSL then bSL :: fj_unescape r1
            else if Byte.eqb ch x62 then x08 :: fj_unescape r1
            else if Byte.eqb ch x66 then x0c :: fj_unescape r1
            else if Byte.eqb ch x6e then x0a :: fj_unescape r1
            else if Byte.eqb ch x72 then x0d :: fj_unescape r1
            else if Byte.eqb ch x74 then x09 :: fj_unescape r1
            else if Byte.eqb ch b_u then
              match r1 with
              | h1 :: h2 :: h3 :: h4 :: r2 =>
                  match hex4 h1 h2 h3 h4 with
                  | None => bBS :: b_u :: fj_unescape r1
                  | Some x =>
                      if negb (is_surrogate x) then utf8_enc x ++ fj_unescape r2
                      else
                        match r2 with
                        | e1 :: e2 :: g1 :: g2 :: g3 :: g4 :: r3 =>
                            if Byte.eqb e1 bBS && Byte.eqb e2 b_u then
                              match hex4 g1 g2 g3 g4 with
                              | Some x1 => utf8_enc (utf16_decode x x1) ++ fj_unescape r3
                              | None => bBS :: b_u :: h1 :: h2 :: h3 :: h4 :: fj_unescape r2
                              end
                            else bBS :: b_u :: h1 :: h2 :: h3 :: h4 :: fj_unescape r2
                        | _ => bBS :: b_u :: h1 :: h2 :: h3 :: h4 :: fj_unescape r2
                        end
                  end
              | _ => bBS :: b_u :: fj_unescape r1
              end
            else bBS :: ch :: fj_unescape r1
        end
  end.

(* parseRawString: the text up to the closing quote and the tail after it.  fastjson finds each quote with
   IndexByte and counts the backslashes before it (odd = escaped); that is the same as this left-to-right
   scan in which a backslash protects the next byte (a maximal run of backslashes always starts at an
   unprotected position, also after fastjson restarts its count behind an escaped quote).  Compared with the
   real parser on every run (Cases_C06_raw). *)
Fixpoint fj_raw_string (s : bytes) : option (bytes * bytes) :=
  match s with
  | [] => None
  | c :: r =>
      if Byte.eqb c bQ then Some ([], r)
      else if Byte.eqb c bBS then
        match r with
        | [] => None
        | d :: r1 => match fj_raw_string r1 with
                     | Some (a, t) => Some (c :: d :: a, t)
                     | None => None
                     end
        end
      else match fj_raw_string r with
           | Some (a, t) => Some (c :: a, t)
           | None => None
           end
  end.

(* ------------------------------------------------------------------ fastjson: values *)
Inductive fjv :=
| FObj (kvs : list (bytes * fjv))     (* keys as written (raw) *)
| FArr (l : list fjv)
| FStr (raw : bytes)                  (* typeRawString: unescaped on first use *)
| FNum (tok : bytes)
| FTrue | FFalse | FNull.

Definition is_ws (b : byte) : bool :=
  Byte.eqb b x20 || Byte.eqb b x0a || Byte.eqb b x09 || Byte.eqb b x0d.
Fixpoint skipws (s : bytes) : bytes :=
  match s with
  | b :: r => if is_ws b then skipws r else s
  | [] => []
  end.

Definition is_numch (b : byte) : bool :=
  in_rng b 48 57 || Byte.eqb b x2e || Byte.eqb b x2d || Byte.eqb b x65 || Byte.eqb b x45 || Byte.eqb b x2b.
Definition infnan3 (s : bytes) : bool :=
  match s with
  | a :: b :: c :: _ => fold_eqb [a; b; c] (B "inf") || fold_eqb [a; b; c] (B "nan")
  | _ => false
  end.
(* parseRawNumber: i = number of bytes scanned so far, first = the first byte of the input *)
Fixpoint raw_number (i : nat) (sign1 : bool) (s : bytes) : option (bytes * bytes) :=
  match s with
  | [] => Some ([], [])
  | c :: r =>
      if is_numch c then
        match raw_number (S i) sign1 r with
        | Some (a, t) => Some (c :: a, t)
        | None => None
        end
      else if Nat.eqb i 0 || (Nat.eqb i 1 && sign1) then
        if infnan3 s then Some (firstn 3 s, skipn 3 s) else None
      else Some ([], s)
  end.
Definition fj_raw_number (s : bytes) : option (bytes * bytes) :=
  let sign1 := match s with c :: _ => Byte.eqb c x2d || Byte.eqb c x2b | [] => false end in
  raw_number 0 sign1 s.

(* the member loop of parseObject, entered behind '{' when the object is not empty, and behind every ','.
   [pv] parses one value (parseValue at the next depth).  fuel bounds the number of members. *)
Fixpoint obj_loop (fuel : nat) (pv : bytes -> outcome (fjv * bytes)) (s : bytes) (acc : list (bytes * fjv))
  : outcome (fjv * bytes) :=
  match fuel with
  | 0 => OutOfFuel
  | S f =>
      match skipws s with
      | c :: r =>
          if negb (Byte.eqb c bQ) then Err
          else match fj_raw_string r with        (* parseRawKey: same result as parseRawString *)
               | None => Err
               | Some (k, s1) =>
                   match skipws s1 with
                   | c1 :: s2 =>
                       if negb (Byte.eqb c1 bCO) then Err
                       else match pv (skipws s2) with
                            | Ok (v, s3) =>
                                match skipws s3 with
                                | c2 :: s4 =>
                                    if Byte.eqb c2 bCM then obj_loop f pv s4 ((k, v) :: acc)
                                    else if Byte.eqb c2 bRB then Ok (FObj (rev ((k, v) :: acc)), s4)
                                    else Err
                                | [] => Err
                                end
                            | Err => Err
                            | Panic p => Panic p
                            | OutOfFuel => OutOfFuel
                            end
                   | [] => Err
                   end
               end
      | [] => Err
      end
  end.

Fixpoint arr_loop (fuel : nat) (pv : bytes -> outcome (fjv * bytes)) (s : bytes) (acc : list fjv)
  : outcome (fjv * bytes) :=
  match fuel with
  | 0 => OutOfFuel
  | S f =>
      match pv (skipws s) with
      | Ok (v, s1) =>
          match skipws s1 with
          | c :: s2 =>
              if Byte.eqb c bCM then arr_loop f pv s2 (v :: acc)
              else if Byte.eqb c bRK then Ok (FArr (rev (v :: acc)), s2)
              else Err
          | [] => Err
          end
      | Err => Err
      | Panic p => Panic p
      | OutOfFuel => OutOfFuel
      end
  end.

Definition has_prefix (p s : bytes) : option bytes :=
  if bytes_eqb (firstn (length p) s) p then Some (skipn (length p) s) else None.

(* parseValue.  [budget] = MaxDepth - depth: the Go code fails when depth+1 > 300. *)
Fixpoint fj_value (budget : nat) (s : bytes) : outcome (fjv * bytes) :=
  match budget with
  | 0 => Err
  | S bd =>
      match s with
      | [] => Err
      | c :: r =>
          if Byte.eqb c bLB then
            match skipws r with
            | [] => Err
            | c1 :: r1 => if Byte.eqb c1 bRB then Ok (FObj [], r1)
                          else obj_loop (S (length r)) (fj_value bd) (skipws r) []
            end
          else if Byte.eqb c bLK then
            match skipws r with
            | [] => Err
            | c1 :: r1 => if Byte.eqb c1 bRK then Ok (FArr [], r1)
                          else arr_loop (S (length r)) (fj_value bd) (skipws r) []
            end
          else if Byte.eqb c bQ then
            match fj_raw_string r with
            | Some (raw, t) => Ok (FStr raw, t)
            | None => Err
            end
          else if Byte.eqb c x74 then
            match has_prefix (B "true") s with Some t => Ok (FTrue, t) | None => Err end
          else if Byte.eqb c x66 then
            match has_prefix (B "false") s with Some t => Ok (FFalse, t) | None => Err end
          else if Byte.eqb c x6e then
            match has_prefix (B "null") s with
            | Some t => Ok (FNull, t)
            | None => if fold_eqb (firstn 3 s) (B "nan") && Nat.leb 3 (length s)
                      then Ok (FNum (firstn 3 s), skipn 3 s) else Err
            end
          else match fj_raw_number s with
               | Some (tok, t) => Ok (FNum tok, t)
               | None => Err
               end
      end
  end.

(* Parser.ParseBytes *)
Definition fj_parse (s : bytes) : outcome fjv :=
  match fj_value 300 (skipws s) with
  | Ok (v, t) => match skipws t with [] => Ok v | _ => Err end
  | Err => Err
  | Panic p => Panic p
  | OutOfFuel => OutOfFuel
  end.

Definition has_bs (s : bytes) : bool := existsb (Byte.eqb bBS) s.

Fixpoint find_key (f : bytes -> bytes) (kvs : list (bytes * fjv)) (key : bytes) : option fjv :=
  match kvs with
  | [] => None
  | (k, v) :: r => if bytes_eqb (f k) key then Some v else find_key f r key
  end.

(* Object.Get.  [ku] = the object's keysUnescaped flag when Get is called: the first Get on a fresh object
   compares the raw keys and only on a miss unescapes them all (from then on ku = true). *)
Definition fj_get (ku : bool) (v : fjv) (key : bytes) : option fjv :=
  match v with
  | FObj kvs =>
      if negb ku && negb (has_bs key) then
        match find_key (fun k => k) kvs key with
        | Some x => Some x
        | None => find_key fj_unescape kvs key
        end
      else find_key fj_unescape kvs key
  | _ => None
  end.
(* the flag after a Get *)
Definition fj_get_ku (ku : bool) (v : fjv) (key : bytes) : bool :=
  match v with
  | FObj kvs =>
      if negb ku && negb (has_bs key) then
        match find_key (fun k => k) kvs key with Some _ => false | None => true end
      else true
  | _ => ku
  end.

(* Value.GetStringBytes: nil for everything that is not a string *)
Definition fj_string_bytes (v : fjv) : bytes :=
  match v with FStr raw => fj_unescape raw | _ => [] end.

(* ------------------------------------------------------------------ writers *)
Definition NilRef : bytes := B "-".

(* LangRefValue.MarshalJSON; None = (nil, nil) *)
Definition lrv_marshal (e : lrv) : option bytes :=
  let '(ref, v) := e in
  if negb (bytes_eqb ref NilRef) && negb (Nat.eqb (length ref) 0) then
    match v with
    | [] => None
    | _ => Some (string_bytes ref ++ bCO :: string_bytes v)
    end
  else Some (string_bytes v).

(* tagAsRead (natural_language_values.go): the language tag as a reader of the written JSON gets it back -
   one U+FFFD per byte that does not start a well-formed UTF-8 sequence, which is what stringBytes writes;
   one step per utf8.DecodeRune, as in [sbody] *)
Definition fffd : bytes := [xef; xbf; xbd].
Fixpoint tag_as_read (s : bytes) : bytes :=
  match s with
  | [] => []
  | b :: r =>
      if (bn b <? 128)%N then b :: tag_as_read r
      else match utf8_n b with
           | 1 => match r with
                  | c1 :: r1 =>
                      if in_rng c1 (utf8_lo b) (utf8_hi b) then b :: c1 :: tag_as_read r1
                      else fffd ++ tag_as_read r
                  | _ => fffd ++ tag_as_read r
                  end
           | 2 => match r with
                  | c1 :: c2 :: r2 =>
                      if in_rng c1 (utf8_lo b) (utf8_hi b) && is_cont c2 then b :: c1 :: c2 :: tag_as_read r2
                      else fffd ++ tag_as_read r
                  | _ => fffd ++ tag_as_read r
                  end
           | 3 => match r with
                  | c1 :: c2 :: c3 :: r3 =>
                      if in_rng c1 (utf8_lo b) (utf8_hi b) && is_cont c2 && is_cont c3 then
                        b :: c1 :: c2 :: c3 :: tag_as_read r3
                      else fffd ++ tag_as_read r
                  | _ => fffd ++ tag_as_read r
                  end
           | _ => fffd ++ tag_as_read r
           end
  end.

(* the loop of the map branch of NaturalLanguageValues.MarshalJSON: (buffer, empty, keys written so far).
   [dedup] (fix 05721dc and its follow-up): of several values whose tags READ BACK alike (tagAsRead) the first is kept -
   a JSON object holds one value per member name; entries with an empty tag or an empty text are skipped before the
   key is registered *)
Definition nlv_map_step (key_for_nil dedup : bool) (st : bytes * bool * list bytes) (e : lrv) : bytes * bool * list bytes :=
  let '(b, empty, keys) := st in
  let '(ref, v) := e in
  if Nat.eqb (length ref) 0 || Nat.eqb (length v) 0 then (b, empty, keys)
  else if dedup && existsb (bytes_eqb (tag_as_read ref)) keys then (b, empty, keys)
  else
    let keys := if dedup then keys ++ [tag_as_read ref] else keys in
    let b := if empty then b else b ++ [bCM] in
    let b := if key_for_nil && bytes_eqb ref NilRef then b ++ string_bytes ref ++ [bCO] else b in
    match lrv_marshal e with
    | Some w => match w with [] => (b, empty, keys) | _ => (b ++ w, false, keys) end
    | None => (b, empty, keys)
    end.

(* NaturalLanguageValues.MarshalJSON; None = (nil, nil).
   [pre_unescape]: the pinned tree ran unescape() over a single value before escaping it;
   [key_for_nil]: the pinned tree left out the key of the default language inside a map (repaired in the
   repository by the commit with subject 'fix: a language map wrote entries without a language tag as bare
   strings', made for C01/C05; the C06 fixes are the other four);
   [dedup]: see nlv_map_step. *)
Definition nlv_marshal_gen (pre_unescape key_for_nil dedup : bool) (l : nl) : option bytes :=
  match l with
  | [] => None
  | _ =>
      let map_form :=
        let '(b, empty, _) := fold_left (nlv_map_step key_for_nil dedup) l ([bLB], true, []) in
        if empty then None else Some (b ++ [bRB]) in
      match l with
      | [(_, v)] =>
          match v with
          | [] => map_form
          | _ => Some (string_bytes (if pre_unescape then unescape v else v))
          end
      | _ => map_form
      end
  end.
Definition nlv_marshal : nl -> option bytes := nlv_marshal_gen false true true.
Definition nlv_marshal_pinned : nl -> option bytes := nlv_marshal_gen true false false.
(* the tree before fix 05721dc: every entry written, a repeated tag repeats the member name *)
Definition nlv_marshal_nodedup : nl -> option bytes := nlv_marshal_gen false true false.

(* JSONWriteComma *)
Definition json_write_comma (b : bytes) : bytes :=
  if Nat.ltb 1 (length b) && negb (Byte.eqb (last b x00) bCM) then b ++ [bCM] else b.

(* JSONWriteProp: (buffer, notEmpty) *)
Definition json_write_prop (b name val : bytes) : bytes * bool :=
  match val with
  | [] => (b, false)
  | _ =>
      let b := json_write_comma b in
      match name with
      | [] => (removelast b, false)
      | _ => (b ++ bQ :: name ++ [bQ; bCO] ++ val, true)
      end
  end.

(* JSONWriteNaturalLanguageProp *)
Definition json_write_nl_prop_gen (m : nl -> option bytes) (b name : bytes) (l : nl) : bytes * bool :=
  let name := if Nat.ltb 1 (length l) then name ++ B "Map" else name in
  match m l with
  | Some v => match v with [] => (b, false) | _ => json_write_prop b name v end
  | None => (b, false)
  end.
Definition json_write_nl_prop := json_write_nl_prop_gen nlv_marshal.

(* Source.MarshalJSON for a Source that has only Content (MediaType empty) *)
Definition source_marshal_gen (m : nl -> option bytes) (l : nl) : option bytes :=
  match l with
  | [] => None
  | _ => let '(b, ne) := json_write_nl_prop_gen m [bLB] (B "content") l in
         if ne then Some (b ++ [bRB]) else None
  end.

(* ------------------------------------------------------------------ the five text-bearing positions *)
Inductive pos := PName | PSummary | PContent | PPreferredUsername | PSourceContent.
Definition all_pos := [PName; PSummary; PContent; PPreferredUsername; PSourceContent].
Definition pos_term (p : pos) : bytes :=
  match p with
  | PName => B "name" | PSummary => B "summary" | PContent => B "content"
  | PPreferredUsername => B "preferredUsername" | PSourceContent => B "content"
  end.

(* Actor.MarshalJSON of an actor whose only properties are its type [ty] (a plain vocabulary name) and the
   text [l] at position [p]; the guards are those of JSONWriteObjectValue / Actor.MarshalJSON
   (len > 0 for name, summary, content and source; != nil for preferredUsername, where nil = []). *)
Definition doc_encode_gen (m : nl -> option bytes) (ty : bytes) (p : pos) (l : nl) : bytes :=
  let '(b, _) := json_write_prop [bLB] (B "type") (bQ :: ty ++ [bQ]) in
  let '(b, _) :=
    match p with
    | PSourceContent =>
        match source_marshal_gen m l with
        | Some v => json_write_prop b (B "source") v
        | None => (b, false)
        end
    | _ => match l with [] => (b, false) | _ => json_write_nl_prop_gen m b (pos_term p) l end
    end in
  b ++ [bRB].
Definition doc_encode := doc_encode_gen nlv_marshal.
Definition doc_encode_pinned := doc_encode_gen nlv_marshal_pinned.

(* ------------------------------------------------------------------ readers *)
(* entries of a language map: Object.Visit unescapes the keys; an entry of the default language
   without text is left out *)
Definition nl_of_kvs (kvs : list (bytes * fjv)) : nl :=
  filter (fun e : lrv => negb (bytes_eqb (fst e) NilRef) || negb (Nat.eqb (length (snd e)) 0))
         (map (fun kv : bytes * fjv => (fj_unescape (fst kv), fj_string_bytes (snd kv))) kvs).

(* JSONGetNaturalLanguageField; None = nil.  val == nil is modelled by the caller. *)
Definition get_nl_field (ku : bool) (val : fjv) (prop : bytes) : option nl :=
  let v := match fj_get ku val prop with
           | Some v => Some v
           | None => fj_get (fj_get_ku ku val prop) val (prop ++ B "Map")
           end in
  match v with
  | None => None
  | Some (FObj kvs) => Some (nl_of_kvs kvs)
  | Some (FStr raw) => Some [(NilRef, fj_unescape raw)]
  | Some _ => Some []
  end.

(* GetAPSource(val).Content: the getter applied to the "source" member (an absent member is the nil value,
   for which the getter returns an empty list); only a non-empty result is stored *)
Definition get_source_content (ku : bool) (val : fjv) : nl :=
  match fj_get ku val (B "source") with
  | None => []
  | Some src => match get_nl_field false src (B "content") with Some l => l | None => [] end
  end.

Definition get_text (ku : bool) (val : fjv) (p : pos) : nl :=
  match p with
  | PSourceContent => get_source_content ku val
  | _ => match get_nl_field ku val (pos_term p) with Some l => l | None => [] end
  end.

Definition doc_decode (ku : bool) (p : pos) (d : bytes) : outcome nl :=
  omap (fun v => get_text ku v p) (fj_parse d).

(* encode with Actor.MarshalJSON, decode with UnmarshalJSON, read the position back *)
Definition text_after_json_roundtrip (ku : bool) (ty : bytes) (p : pos) (l : nl) : outcome nl :=
  doc_decode ku p (doc_encode ty p l).

(* ------------------------------------------------------------------ the pinned readers *)
(* Content.UnmarshalText *)
Definition content_unmarshal_text (d : bytes) : bytes :=
  match d with
  | [] => []
  | _ => if Nat.ltb 2 (length d) then
           (if Byte.eqb (hd x00 d) bQ && Byte.eqb (last d x00) bQ then removelast (tl d) else [])
         else d
  end.

(* LangRefValue.UnmarshalJSON on a zero receiver: (Ref, Value).  For an object every member overwrites
   the receiver, so the last one stays. *)
Definition lrv_unmarshal_json (d : bytes) : lrv :=
  match fj_parse d with
  | Ok (FObj kvs) =>
      fold_left (fun (_ : lrv) (kv : bytes * fjv) => (fj_unescape (fst kv), unescape (fj_string_bytes (snd kv))))
                kvs ([], [])
  | Ok (FStr raw) => (NilRef, unescape (fj_unescape raw))
  | Ok _ => ([], [])
  | _ => (NilRef, unescape d)
  end.

(* NaturalLanguageValues.UnmarshalJSON appended to an empty receiver.  The array case re-marshals every
   element with Value.String(); that printer is not modelled: None *)
Definition nlv_unmarshal_json (d : bytes) : option nl :=
  match fj_parse d with
  | Ok (FObj kvs) =>
      Some (filter (fun e : lrv => negb (Nat.eqb (length (snd e)) 0))
                   (map (fun kv : bytes * fjv => (fj_unescape (fst kv), unescape (fj_string_bytes (snd kv)))) kvs))
  | Ok (FStr raw) => match fj_unescape raw with [] => Some [] | t => Some [(NilRef, unescape t)] end
  | Ok (FArr _) => None
  | Ok _ => Some []
  | _ => Some [(NilRef, unescape d)]
  end.

(* JSONGetNaturalLanguageField of the pinned tree: no "<prop>Map" lookup, Content.UnmarshalText on the
   entries of a map, LangRefValue.UnmarshalJSON on the text of a string *)
Definition get_nl_field_pinned (ku : bool) (val : fjv) (prop : bytes) : option nl :=
  match fj_get ku val prop with
  | None => None
  | Some (FObj kvs) =>
      Some (filter (fun e : lrv => negb (bytes_eqb (fst e) NilRef) || negb (Nat.eqb (length (snd e)) 0))
                   (map (fun kv : bytes * fjv => (fj_unescape (fst kv), content_unmarshal_text (fj_string_bytes (snd kv)))) kvs))
  | Some (FStr raw) => Some [lrv_unmarshal_json (fj_unescape raw)]
  | Some _ => Some []
  end.

(* GetAPSource of the pinned tree: val.Get("source","content").GetStringBytes() through
   NaturalLanguageValues.UnmarshalJSON when not empty *)
Definition get_source_content_pinned (ku : bool) (val : fjv) : option nl :=
  match fj_get ku val (B "source") with
  | None => Some []
  | Some src =>
      match fj_get false src (B "content") with
      | Some (FStr raw) => match fj_unescape raw with [] => Some [] | t => nlv_unmarshal_json t end
      | _ => Some []
      end
  end.

Definition get_text_pinned (ku : bool) (val : fjv) (p : pos) : option nl :=
  match p with
  | PSourceContent => get_source_content_pinned ku val
  | _ => match get_nl_field_pinned ku val (pos_term p) with Some l => Some l | None => Some [] end
  end.

Definition text_after_json_roundtrip_pinned (ku : bool) (ty : bytes) (p : pos) (l : nl) : outcome (option nl) :=
  omap (fun v => get_text_pinned ku v p) (fj_parse (doc_encode_pinned ty p l)).

(* ------------------------------------------------------------------ gob *)
(* NaturalLanguageValues.GobEncode / GobDecode: the value travels as []kv{K,V}; encoding/gob is modelled as
   the identity on that Go value (trusted, compared with the real package on every run); an empty list is
   not written at all and the decoder then leaves the field as it is. *)
Definition gob_encode_nl (l : nl) : option (list (bytes * bytes)) :=
  match l with [] => None | _ => Some l end.
Definition gob_decode_nl (w : option (list (bytes * bytes))) : nl :=
  match w with None => [] | Some kvs => kvs end.
Definition text_after_gob_roundtrip (p : pos) (l : nl) : nl := gob_decode_nl (gob_encode_nl l).

(* ------------------------------------------------------------------ domain of the property *)
(* what a single value looks like after a JSON round trip: the text under the default language *)
Definition single_norm (t : bytes) : nl := [(NilRef, t)].
Definition ok_entry (e : lrv) : Prop :=
  valid_utf8 (fst e) /\ fst e <> [] /\ valid_utf8 (snd e) /\ snd e <> [].
Definition ok_entryb (e : lrv) : bool :=
  utf8_valid (fst e) && negb (Nat.eqb (length (fst e)) 0) && utf8_valid (snd e) && negb (Nat.eqb (length (snd e)) 0).

(* classes of texts that the pinned tree did not bring back (kept for the record of the defects):
   a backslash followed by one of a f n r t v, a quote or a backslash, and a text that the second parse accepted *)
Definition kf_unescape_seq (t : bytes) : bool := negb (bytes_eqb (unescape t) t).
Definition kf_reparses (t : bytes) : bool :=
  match skipws t with
  | [] => false
  | c :: _ => Byte.eqb c bLB || Byte.eqb c bLK || Byte.eqb c bQ || is_numch c
              || Byte.eqb c x74 || Byte.eqb c x66 || Byte.eqb c x6e
              || Byte.eqb c x69 || Byte.eqb c x49 || Byte.eqb c x4e
  end.

(* ------------------------------------------------------------------ document trees (specification side) *)
(* JSON texts made of strings and objects only, printed the way the writers above print them
   (every string and every key through stringBytes, members separated by one comma, no white space);
   used to state what the parser does with everything the text writers can produce *)
Inductive jt := JS (t : bytes) | JO (ms : list (bytes * jt)).

Definition pm (pr : jt -> bytes) : bool -> list (bytes * jt) -> bytes :=
  fix go (first : bool) (ms : list (bytes * jt)) : bytes :=
    match ms with
    | [] => []
    | kv :: r => (if first then [] else [bCM]) ++ string_bytes (fst kv) ++ bCO :: pr (snd kv) ++ go false r
    end.

Fixpoint jprint (j : jt) : bytes :=
  match j with
  | JS t => string_bytes t
  | JO ms => bLB :: pm jprint true ms ++ [bRB]
  end.

Fixpoint fj_of (j : jt) : fjv :=
  match j with
  | JS t => FStr (sbody false t)
  | JO ms => FObj (map (fun kv : bytes * jt => (sbody false (fst kv), fj_of (snd kv))) ms)
  end.

Fixpoint jdepth (j : jt) : nat :=
  match j with
  | JS _ => 1
  | JO ms => S (fold_right (fun (kv : bytes * jt) m => Nat.max (jdepth (snd kv)) m) 0 ms)
  end.

(* the tree of the document written for one text position *)
Definition text_tree (l : nl) : jt :=
  match l with
  | [(_, t)] => JS t
  | _ => JO (map (fun e : lrv => (fst e, JS (snd e))) l)
  end.
Definition text_key (p : pos) (l : nl) : bytes :=
  if Nat.ltb 1 (length l) then pos_term p ++ B "Map" else pos_term p.
Definition doc_tree (ty : bytes) (p : pos) (l : nl) : jt :=
  match p with
  | PSourceContent => JO [(B "type", JS ty); (B "source", JO [(text_key p l, text_tree l)])]
  | _ => JO [(B "type", JS ty); (text_key p l, text_tree l)]
  end.

(* a type name that needs no escaping *)
Definition plain_name (s : bytes) : Prop := forallb safe_ascii s = true.

(* ------------------------------------------------------------------ comparison with the real parser *)
(* the harness renders a real fastjson value with keys and strings unescaped (Object.Visit, GetStringBytes);
   [fj_norm] brings the model's value into the same form *)
Fixpoint fj_norm (v : fjv) : fjv :=
  match v with
  | FObj kvs => FObj (map (fun kv : bytes * fjv => (fj_unescape (fst kv), fj_norm (snd kv))) kvs)
  | FArr l => FArr (map fj_norm l)
  | FStr raw => FStr (fj_unescape raw)
  | x => x
  end.

Fixpoint fjv_eqb (a b : fjv) : bool :=
  match a, b with
  | FObj x, FObj y =>
      (fix go (x y : list (bytes * fjv)) : bool :=
         match x, y with
         | [], [] => true
         | kv :: x', kv' :: y' => bytes_eqb (fst kv) (fst kv') && fjv_eqb (snd kv) (snd kv') && go x' y'
         | _, _ => false
         end) x y
  | FArr x, FArr y =>
      (fix go (x y : list fjv) : bool :=
         match x, y with
         | [], [] => true
         | v :: x', v' :: y' => fjv_eqb v v' && go x' y'
         | _, _ => false
         end) x y
  | FStr s, FStr t => bytes_eqb s t
  | FNum s, FNum t => bytes_eqb s t
  | FTrue, FTrue | FFalse, FFalse | FNull, FNull => true
  | _, _ => false
  end.

Definition nl_eqb (a b : nl) : bool :=
  (fix go (x y : nl) : bool :=
     match x, y with
     | [], [] => true
     | e :: x', f :: y' => bytes_eqb (fst e) (fst f) && bytes_eqb (snd e) (snd f) && go x' y'
     | _, _ => false
     end) a b.
Definition onl_eqb (a b : option nl) : bool :=
  match a, b with
  | None, None => true
  | Some x, Some y => nl_eqb x y
  | _, _ => false
  end.
Definition obytes_eqb (a b : option bytes) : bool :=
  match a, b with
  | None, None => true
  | Some x, Some y => bytes_eqb x y
  | _, _ => false
  end.
