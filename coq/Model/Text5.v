(* Text5.v - the actor document with ALL text-bearing properties at once (property C06).

   Text.v writes and reads an actor document that holds the type and ONE text position.  Here the document
   holds any subset of the five positions - name, summary, content, source.content, preferredUsername - each as
   a single value or as a language map, in the order Actor.MarshalJSON writes them (JSONWriteObjectValue:
   type, name, summary, content, ..., source; then preferredUsername), with the same writer and reader models
   as Text.v (json_write_prop, json_write_nl_prop_gen, source_marshal_gen, nlv_marshal; fj_parse, get_text).
   Tied to the Go code by the correspondence cases Cases_C06_five of harness/c06.go.  Definitions only. *)
From AP.Model Require Import Prelude Nlv Text.

(* the texts of a document: one list per position; [] = the property is not set *)
Definition texts := pos -> nl.

Definition write_nl_step (m : nl -> option bytes) (tx : texts) (p : pos) (b : bytes) : bytes :=
  match tx p with
  | [] => b                                                       (* len(o.Name) > 0 / a.PreferredUsername != nil *)
  | l => fst (json_write_nl_prop_gen m b (pos_term p) l)
  end.

Definition doc_encode5_gen (m : nl -> option bytes) (ty : bytes) (tx : texts) : bytes :=
  let b := fst (json_write_prop [bLB] (B "type") (bQ :: ty ++ [bQ])) in
  let b := write_nl_step m tx PName b in
  let b := write_nl_step m tx PSummary b in
  let b := write_nl_step m tx PContent b in
  let b := match source_marshal_gen m (tx PSourceContent) with
           | Some v => fst (json_write_prop b (B "source") v)
           | None => b
           end in
  let b := write_nl_step m tx PPreferredUsername b in
  b ++ [bRB].
Definition doc_encode5 := doc_encode5_gen nlv_marshal.

(* read every position back *)
Definition doc_decode5 (ku : bool) (d : bytes) : outcome texts :=
  omap (fun v p => get_text ku v p) (fj_parse d).

(* the domain: a position is unset, or holds one non-empty valid UTF-8 text (under any tag), or holds a language
   map: two or more entries with non-empty valid UTF-8 tags and texts, the tags pairwise distinct *)
Definition ok_text (l : nl) : Prop :=
  l = [] \/ (exists r t, l = [(r, t)] /\ valid_utf8 t /\ t <> []) \/ (2 <= length l /\ Forall ok_entry l /\ NoDup (map fst l)).
(* what comes back: a lone entry under the default language (the documented normal form), the rest as it was *)
Definition norm_text (l : nl) : nl :=
  match l with
  | [(_, t)] => [(NilRef, t)]
  | _ => l
  end.

(* ---- specification side: the document as a tree *)
Definition member5 (tx : texts) (p : pos) : list (bytes * jt) :=
  match tx p with
  | [] => []
  | l => match p with
         | PSourceContent => [(B "source", JO [(text_key p l, text_tree l)])]
         | _ => [(text_key p l, text_tree l)]
         end
  end.
Definition doc_tree5 (ty : bytes) (tx : texts) : jt :=
  JO ((B "type", JS ty) :: member5 tx PName ++ member5 tx PSummary ++ member5 tx PContent
        ++ member5 tx PSourceContent ++ member5 tx PPreferredUsername).

(* the one-position document of Text.v as an instance *)
Definition only (p : pos) (l : nl) : texts := fun q => match p, q with
  | PName, PName | PSummary, PSummary | PContent, PContent | PPreferredUsername, PPreferredUsername
  | PSourceContent, PSourceContent => l
  | _, _ => []
  end.
