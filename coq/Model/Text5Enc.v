(* C06 (builder b50): the five-position document model of Model/Text5.v tied to the whole-value codec models.

   The C06 theorems speak about doc_encode5 / doc_decode5 (Model/Text5.v): a hand-written writer and reader of the
   object { type, name, summary, content, source.content, preferredUsername }.  The whole-value encoder model is
   [enc] = marshal_json jw_tables (Model/JsonEnc.v interpreted over the regenerated write tables Gen/JsonW.v), the
   decoder [dec] = unmarshal_json jr_tables (Model/JsonDec.v over Gen/JsonR.v).  This file states
     - the SHAPE of value the five-position model describes, as boolean predicates on an item ([shape5]: a struct
       whose only fields are its type - a non-empty name that needs no escaping - and text at the five positions,
       source holding content only; [texts5_ok]: the texts are in C06's domain);
     - the decidable conditions on the write tables ([kind5_w_ok]: symbolic execution of the MarshalJSON table of a
       struct kind on five-position values - delegations followed, statements on other fields shown inert, the
       notEmpty flag tracked - yields exactly type, name, summary, content, source[, preferredUsername] in this order)
       and on the read tables ([kind5_r_ok]) under which Proofs/Text5EncP.v / Text5DecEncP.v prove, for ALL texts,
           marshal_json tbl x = Some (doc_encode5 (ty5 x) (tx5 x))
       and, for texts in C06's domain, that unmarshal_json on those bytes returns the struct holding what doc_decode5
       reads.  Definitions only. *)
From AP.Model Require Import Prelude Bytes Vocab Pred Layout Json JsonLeaf JsonTables Dispatch JsonEnc JsonCheck Nlv Text Text5.

(* ------------------------------------------------------------------ the value *)
Definition pos_field (p : pos) : fid :=
  match p with
  | PName => F_Name | PSummary => F_Summary | PContent => F_Content
  | PPreferredUsername => F_PreferredUsername | PSourceContent => F_Source
  end.

Definition five_fids : list fid := [F_Type; F_Name; F_Summary; F_Content; F_Source; F_PreferredUsername].
Definition in5 (f : fid) : bool := existsb (fid_beq f) five_fids.

Definition nl_val (l : nl) : option fval := match l with [] => None | _ => Some (FNlv (Some l)) end.
Definition src_val (l : nl) : option fval := match l with [] => None | _ => Some (FSource [] (Some l)) end.

(* the field list written out, in struct order (any other order of the same fields is the same value to the codecs) *)
Definition opt_field (f : fid) (o : option fval) : list (fid * fval) := match o with Some v => [(f, v)] | None => [] end.
Definition fields5 (ty : bytes) (tx : texts) : list (fid * fval) :=
  (F_Type, Vocab.FStr ty) :: opt_field F_Name (nl_val (tx PName)) ++ opt_field F_Content (nl_val (tx PContent))
    ++ opt_field F_Summary (nl_val (tx PSummary)) ++ opt_field F_Source (src_val (tx PSourceContent))
    ++ opt_field F_PreferredUsername (nl_val (tx PPreferredUsername)).

(* what the codecs see of a field list: the type, the five positions, nothing else *)
Definition view5 (fs : list (fid * fval)) (ty : bytes) (tx : texts) : Prop :=
  getf F_Type fs = Some (Vocab.FStr ty) /\
  (forall p, p <> PSourceContent -> getf (pos_field p) fs = nl_val (tx p)) /\
  getf F_Source fs = src_val (tx PSourceContent) /\
  (forall f, in5 f = false -> getf f fs = None).

(* type name and texts of a field list *)
Definition ty5 (fs : list (fid * fval)) : bytes := get_str F_Type fs.
Definition tx5 (fs : list (fid * fval)) : texts := fun p =>
  match getf (pos_field p) fs with
  | Some (FNlv (Some l)) => l
  | Some (FSource _ (Some l)) => l
  | _ => []
  end.

Definition plain_nameb (s : bytes) : bool := forallb safe_ascii s.
Definition nonemptyb {A} (l : list A) : bool := match l with [] => false | _ => true end.

(* one field of a five-position value *)
Definition fval5_ok (f : fid) (v : fval) : bool :=
  match v with
  | Vocab.FStr s => fid_beq f F_Type && plain_nameb s && nonemptyb s
  | FNlv (Some (_ :: _)) => fid_beq f F_Name || fid_beq f F_Summary || fid_beq f F_Content || fid_beq f F_PreferredUsername
  | FSource [] (Some (_ :: _)) => fid_beq f F_Source
  | _ => false
  end.

Fixpoint fids_distinct (l : list fid) : bool :=
  match l with [] => true | x :: r => negb (existsb (fid_beq x) r) && fids_distinct r end.

Definition shape5_fields (fs : list (fid * fval)) : bool :=
  forallb (fun p => fval5_ok (fst p) (snd p)) fs && fids_distinct (map fst fs) && existsb (fun p => fid_beq (fst p) F_Type) fs.

(* C06's domain of texts, decidable: a position is unset, holds one non-empty valid UTF-8 text (under any tag), or a
   language map - two or more entries with non-empty valid UTF-8 tags and texts, the tags pairwise distinct *)
Fixpoint tags_distinct (l : list bytes) : bool :=
  match l with [] => true | x :: r => negb (existsb (bytes_eqb x) r) && tags_distinct r end.
Definition ok_textb (l : nl) : bool :=
  match l with
  | [] => true
  | [(_, t)] => utf8_valid t && nonemptyb t
  | _ => forallb ok_entryb l && tags_distinct (map fst l)
  end.
Definition texts5_ok (tx : texts) : bool := forallb (fun p => ok_textb (tx p)) all_pos.

(* ------------------------------------------------------------------ the write tables, executed symbolically *)
Definition nonval (g : wguard) : bool := match g with GValNonEmpty => false | _ => true end.
(* the field a guard looks at (the one free-text guard the encoder model evaluates is on the public key) *)
Definition n_guard_pubkey : bytes := pubkey_guard_src.
Definition guard_field (g : wguard) : option fid :=
  match g with
  | GNeNil f | GLenGt0 f | GNotZeroTime f | GNe0 f | GGt0 f => Some f
  | GOther src => if bytes_eqb src n_guard_pubkey then Some F_PublicKey else None
  | GValNonEmpty => None
  end.

Definition n_w_prop : bytes := B "JSONWriteProp".
Definition n_w_item : bytes := B "JSONWriteItemProp".
Definition n_w_nl : bytes := B "JSONWriteNaturalLanguageProp".
Definition n_via_type : bytes := B "MarshalJSON:ActivityVocabularyType".

Section Sym.
  Variable used : fid -> bool.       (* the fields a value may hold *)

  (* a statement that writes nothing and leaves the flag as it is, on every value holding used fields only: its first
     guard on a field is on a field no such value has; or it has no such guard, writes an absent field through a
     writer that writes nothing for it, and is dropped by its guard on the written value *)
  Definition inert (s : wstmt) : bool :=
    match s with
    | WProp _ writer path _ guards _ _ =>
        match filter nonval guards with
        | g :: _ => match guard_field g with Some f => negb (used f) | None => false end
        | [] =>
            match path, guards with
            | [f], [GValNonEmpty] => negb (used f) && (bytes_eqb writer n_w_prop || bytes_eqb writer n_w_item)
            | _, _ => false
            end
        end
    | WDelegate _ [] _ _ => true
    | _ => false
    end.
End Sym.

Inductive act5 := A5Type | A5Nl (p : pos) | A5Source.
Definition same_posb (p q : pos) : bool :=
  match p, q with
  | PName, PName | PSummary, PSummary | PContent, PContent | PPreferredUsername, PPreferredUsername
  | PSourceContent, PSourceContent => true
  | _, _ => false
  end.
Definition act5_eqb (a b : act5) : bool :=
  match a, b with
  | A5Type, A5Type | A5Source, A5Source => true
  | A5Nl p, A5Nl q => same_posb p q
  | _, _ => false
  end.

Definition nl_guard_ok (f : fid) (guards : list wguard) : bool :=
  match guards with
  | [GLenGt0 f'] | [GNeNil f'] => fid_beq f f'
  | _ => false
  end.
Definition acc_keeps (a : wacc) : bool := match a with AccOr => true | _ => false end.
Definition acc_sets (a : wacc) : bool := match a with AccOr | AccSet => true | _ => false end.

(* a statement that writes one of the members of the five-position document *)
Definition active5 (s : wstmt) : option act5 :=
  match s with
  | WProp term writer [f] via guards acc _ =>
      if fid_beq f F_Type then
        if bytes_eqb term (B "type") && bytes_eqb writer n_w_prop && bytes_eqb via n_via_type
           && match guards with [GValNonEmpty] => true | _ => false end && acc_sets acc
        then Some A5Type else None
      else if fid_beq f F_Source then
        if bytes_eqb term (B "source") && bytes_eqb writer n_w_prop
           && match guards with [GValNonEmpty] => true | _ => false end && acc_keeps acc
        then Some A5Source else None
      else if bytes_eqb writer n_w_nl && nl_guard_ok f guards && acc_keeps acc then
        if fid_beq f F_Name && bytes_eqb term (B "name") then Some (A5Nl PName)
        else if fid_beq f F_Summary && bytes_eqb term (B "summary") then Some (A5Nl PSummary)
        else if fid_beq f F_Content && bytes_eqb term (B "content") then Some (A5Nl PContent)
        else if fid_beq f F_PreferredUsername && bytes_eqb term (B "preferredUsername") then Some (A5Nl PPreferredUsername)
        else None
      else None
  | _ => None
  end.

Section SymTables.
  Variable tbl : list (bytes * bool * list wstmt).

  (* the statements of one table on a five-position value: (members written, in order; "notEmpty is surely set").
     [d] = the depth left for the tables the statements call (a source member needs one level: Source_MarshalJSON) *)
  Fixpoint sym_stmts (d : nat) (sub : bytes -> option (list act5 * bool)) (l : list wstmt) (st : list act5 * bool)
    : option (list act5 * bool) :=
    match l with
    | [] => Some st
    | s :: r =>
        if inert in5 s then sym_stmts d sub r st
        else match active5 s with
             | Some a =>
                 match a, d with
                 | A5Source, O => None
                 | _, _ => sym_stmts d sub r (fst st ++ [a], match a with A5Type => true | _ => snd st end)
                 end
             | None =>
                 match s with
                 | WDelegate _ ((_ :: _) as fn) acc _ =>
                     match sub fn, acc with
                     | Some (acts, t), AccOr => sym_stmts d sub r (fst st ++ acts, snd st || t)
                     | Some (acts, t), AccSet => sym_stmts d sub r (fst st ++ acts, t)
                     | _, _ => None
                     end
                 | _ => None
                 end
             end
    end.

  Fixpoint sym_table (depth : nat) (name : bytes) : option (list act5 * bool) :=
    match depth with
    | O => None
    | S d =>
        match jw_table tbl name with
        | None => None
        | Some (init, stmts) => sym_stmts d (sym_table d) stmts ([], init)
        end
    end.

  (* Source.MarshalJSON on a Source that holds content only: the statements on other fields are inert, one statement
     writes the content *)
  Definition used_src (f : fid) : bool := fid_beq f F_Content.
  Definition src_active (s : wstmt) : bool :=
    match s with
    | WProp term writer [f] _ guards acc _ =>
        fid_beq f F_Content && bytes_eqb term (B "content") && bytes_eqb writer n_w_nl && nl_guard_ok f guards && acc_keeps acc
    | _ => false
    end.
  Definition src5_ok : bool :=
    match jw_table tbl (B "Source_MarshalJSON") with
    | Some (false, stmts) =>
        match filter (fun s => negb (inert used_src s)) stmts with
        | [s] => src_active s
        | _ => false
        end
    | _ => false
    end.

  Definition acts5 (pu : bool) : list act5 :=
    [A5Type; A5Nl PName; A5Nl PSummary; A5Nl PContent; A5Source] ++ (if pu then [A5Nl PPreferredUsername] else []).

  Fixpoint acts_eqb (a b : list act5) : bool :=
    match a, b with [], [] => true | x :: a', y :: b' => act5_eqb x y && acts_eqb a' b' | _, _ => false end.

  (* struct kind k writes a five-position value as the five-position document ([pu]: with preferredUsername) *)
  Definition kind5_w_ok (k : kind) (pu : bool) : bool :=
    src5_ok &&
    match sym_table 6 (marshal_table k) with
    | Some (acts, true) => acts_eqb acts (acts5 pu)
    | _ => false
    end.

  (* diagnosis: what the symbolic execution found instead *)
  Definition kind5_w_found (k : kind) : option (list act5 * bool) := sym_table 6 (marshal_table k).
End SymTables.

(* the whole shape, relative to write tables: a struct of a kind that writes five-position documents, without
   preferredUsername when the kind has none *)
Definition kind5_pu (tbl : list (bytes * bool * list wstmt)) (k : kind) : option bool :=
  if kind5_w_ok tbl k true then Some true else if kind5_w_ok tbl k false then Some false else None.

Definition shape5 (tbl : list (bytes * bool * list wstmt)) (x : item) : bool :=
  match x with
  | IObj _ k fs =>
      shape5_fields fs &&
      match kind5_pu tbl k with
      | Some true => true
      | Some false => match getf F_PreferredUsername fs with None => true | Some _ => false end
      | None => false
      end
  | _ => false
  end.

(* ------------------------------------------------------------------ the read tables *)
From AP.Model Require Import JsonDec Shape.

(* every member name a five-position document can hold *)
Definition all_names5 : list bytes :=
  [B "type"; B "name"; B "nameMap"; B "summary"; B "summaryMap"; B "content"; B "contentMap"; B "source";
   B "preferredUsername"; B "preferredUsernameMap"].
Definition absent_name (t : bytes) : bool := negb (existsb (bytes_eqb t) all_names5).

Definition n_g_nl : bytes := B "JSONGetNaturalLanguageField".
Definition n_g_source : bytes := B "GetAPSource".
(* getters that leave their field unset when the member they are asked for is not there *)
Definition absent_getters : list bytes :=
  [B "JSONGetItem"; B "JSONGetURIItem"; B "JSONGetItems"; B "JSONGetTime"; B "JSONGetDuration"; B "JSONGetInt";
   B "JSONGetFloat"; B "JSONGetBoolean"; B "JSONGetActorEndpoints"; B "JSONGetPublicKey"].

(* a read entry that finds nothing in a five-position document: neither its term nor the head of a dotted term
   (nor, for text, <term>Map) is a member name of such a document *)
Definition absent_read (r : rflat) : bool :=
  absent_name (rf_term r) && absent_name (fst (cut_byte x2e (rf_term r))) &&
  (existsb (bytes_eqb (rf_getter r)) absent_getters || existsb (bytes_eqb (rf_getter r)) string_getters
   || (bytes_eqb (rf_getter r) n_g_nl && absent_name (rf_term r ++ B "Map"))).

Definition pos_of_term (pu : bool) (t : bytes) : option pos :=
  if bytes_eqb t (B "name") then Some PName
  else if bytes_eqb t (B "summary") then Some PSummary
  else if bytes_eqb t (B "content") then Some PContent
  else if pu && bytes_eqb t (B "preferredUsername") then Some PPreferredUsername
  else None.

Definition read5_ok (pu : bool) (r : rflat) : bool :=
  if bytes_eqb (rf_getter r) n_g_source then fid_beq (rf_fid r) F_Source && bytes_eqb (rf_term r) (B "source")
  else if bytes_eqb (rf_term r) (B "type") then
    fid_beq (rf_fid r) F_Type && existsb (bytes_eqb (rf_getter r)) string_getters
  else match pos_of_term pu (rf_term r) with
       | Some p => bytes_eqb (rf_getter r) n_g_nl && bytes_eqb (rf_guard r) [] && fid_beq (rf_fid r) (pos_field p)
       | None => absent_read r
       end.

(* GetAPSource: one statement reads source.content as text, the others read other members of source as strings *)
Definition src_leaf_content (s : rstmt) : bool :=
  match s with
  | RProp fd tm g _ _ _ => bytes_eqb tm (B "source.content") && fid_beq fd F_Content && bytes_eqb g n_g_nl
  | _ => false
  end.
Definition src_leaf_other (s : rstmt) : bool :=
  match s with
  | RProp fd tm g _ _ _ =>
      match cut_byte x2e tm with
      | (a, Some b) => bytes_eqb a (B "source") && negb (bytes_eqb b (B "content")) && negb (bytes_eqb b (B "contentMap"))
                       && existsb (bytes_eqb g) string_getters
      | _ => false
      end
  | _ => false
  end.
Definition src5_r_ok (jr : list (bytes * list rstmt)) : bool :=
  match jr_table jr n_g_source with
  | Some stmts => forallb (fun s => src_leaf_content s || src_leaf_other s) stmts && existsb src_leaf_content stmts
  | None => false
  end.

Definition has_term (t : bytes) (rs : list rflat) : bool := existsb (fun r => bytes_eqb (rf_term r) t) rs.

(* struct kind k reads a five-position document into a five-position value ([pu]: with preferredUsername) *)
Definition kind5_r_ok (jr : list (bytes * list rstmt)) (lo : kind -> list fdecl) (k : kind) (pu : bool) : bool :=
  src5_r_ok jr && reads_ok jr lo k &&
  match reads_of jr k with
  | Some rs =>
      forallb (read5_ok pu) rs &&
      has_term (B "type") rs && has_term (B "name") rs && has_term (B "summary") rs && has_term (B "content") rs &&
      existsb (fun r => bytes_eqb (rf_getter r) n_g_source) rs &&
      (negb pu || has_term (B "preferredUsername") rs)
  | None => false
  end.

(* the type name selects the struct kind in the registry and in JSONLoadItem's switch, and a value of that kind with
   that name counts as not empty (NotEmpty looks at the name first: an activity name needs the Activity struct, an actor
   name the Actor struct) *)
Definition type5_selects (reg sw : bytes -> option kind) (acts actors : list bytes) (ty : bytes) (k : kind) : bool :=
  match reg ty, sw ty with
  | Some c, Some k' => kind_beq k' c && kind_beq k' k
  | _, _ => false
  end &&
  (if in_list acts ty then match k with KActivity => true | _ => false end
   else if in_list actors ty then match k with KActor => true | _ => false end
   else match k with KLink => false | _ => true end).

(* ------------------------------------------------------------------ the domain of the tie, one boolean
   a five-position value (for the write tables) whose texts are in C06's domain, of a kind whose read tables read a
   five-position document (with the same answer on preferredUsername) and whose type name selects that kind *)
Definition codec5_dom (jw : list (bytes * bool * list wstmt)) (jr : list (bytes * list rstmt)) (lo : kind -> list fdecl)
           (reg sw : bytes -> option kind) (acts actors : list bytes) (x : item) : bool :=
  match x with
  | IObj _ k fs =>
      shape5 jw x && texts5_ok (tx5 fs) &&
      match kind5_pu jw k with Some pu => kind5_r_ok jr lo k pu | None => false end &&
      type5_selects reg sw acts actors (ty5 fs) k
  | _ => false
  end.
