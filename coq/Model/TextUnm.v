(* The text unmarshalers that index their input (natural_language_values.go): index and slice
   expressions are explicit Panic outcomes. *)
From AP.Model Require Import Prelude Bytes Json.

Definition last_is_quote (d : bytes) : bool := match last_byte d with Some b => Byte.eqb b dquote | None => false end.
Definition strip_ends (d : bytes) : bytes := removelast (tl d).       (* data[1 : len(data)-1] for len >= 2 *)

(* NaturalLanguageValues.UnmarshalText: Ok (Some t) = one value appended, Ok None = nothing appended *)
Definition nlv_unmarshal_text (d : bytes) : outcome (option bytes) :=
  match d with
  | [] => Ok None
  | c :: _ =>
      if Byte.eqb c dquote then
        if Nat.ltb (length d) 2 || negb (last_is_quote d) then Err else Ok (Some (strip_ends d))
      else Ok None
  end.

(* the pinned tree: data[0] on empty input; data[1:0] on the single byte quote *)
Definition nlv_unmarshal_text_pinned (d : bytes) : outcome (option bytes) :=
  match d with
  | [] => Panic IndexOutOfRange
  | c :: _ =>
      if Byte.eqb c dquote then
        if negb (last_is_quote d) then Err
        else if Nat.ltb (length d) 2 then Panic SliceBounds else Ok (Some (strip_ends d))
      else Ok None
  end.

(* Content.UnmarshalText / LangRef.UnmarshalText: quotes stripped only when len > 2 *)
Definition content_unmarshal (d : bytes) : outcome bytes :=
  match d with
  | [] => Ok []
  | c :: _ =>
      if Nat.ltb 2 (length d) then
        (if Byte.eqb c dquote && last_is_quote d then Ok (strip_ends d) else Ok [])
      else Ok d
  end.
