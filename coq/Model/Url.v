(* net/url.Parse, URL.Query and path/filepath.Clean on a stated grammar (DESIGN 2.3).
   These are models of EXTERNAL libraries, validated separately against the real ones.

   Grammar of the modelled class ("absolute URLs"):
     scheme "://" host [":" digits] [ "/" path ] [ "?" query ] [ "#" fragment ]
     scheme  = ALPHA *( ALPHA / DIGIT / "+" / "-" / "." )
     host    = *( ALPHA / DIGIT / "-" / "." )             (may be empty: then the URL is "not valid")
     path    = *( unreserved / "/" / ":" / "@" / "!" / "$" / "&" / "'" / "(" / ")" / "*" / "+" / "," / ";" / "=" )
     query   = *( unreserved / "=" / "&" / "/" / ":" / "@" )
     fragment= *( unreserved / "/" / ":" / "@" / "!" / "$" / "&" / "'" / "(" / ")" / "*" / "+" / "," / ";" / "=" / "?" )
     unreserved = ALPHA / DIGIT / "-" / "." / "_" / "~"
   On this class url.Parse is plain splitting (no percent-decoding happens), Query() is "&"/"="
   splitting and filepath.Clean is lexical.  A second class, "plain words" (unreserved and "/" only, no
   "://"), parses without scheme and host.  Everything else is Unmodelled. *)
From AP.Model Require Import Prelude Bytes.

Record url := { u_scheme : bytes; u_host : bytes; u_path : bytes; u_query : bytes; u_frag : bytes }.

Inductive url_class :=
| UValid (u : url)        (* parses, scheme and host non-empty: irisEqual takes the URL path *)
| UFallback               (* does not parse, or parses to a URL without scheme or host *)
| UUnmodelled.            (* outside the stated grammar: the model says nothing *)

Definition is_unreserved (b : byte) : bool :=
  is_alpha b || is_digit b || byte_in b (B "-._~").
Definition is_scheme_char (b : byte) : bool := is_alpha b || is_digit b || byte_in b (B "+-.").
Definition is_host_char (b : byte) : bool := is_alpha b || is_digit b || byte_in b (B "-.").
Definition is_path_char (b : byte) : bool := is_unreserved b || byte_in b (B "/:@!$&'()*+,;=").
Definition is_query_char (b : byte) : bool := is_unreserved b || byte_in b (B "=&/:@").
Definition is_frag_char (b : byte) : bool := is_unreserved b || byte_in b (B "/:@!$&'()*+,;=?").

Definition colon : byte := x3a.
Definition slash : byte := x2f.
Definition qmark : byte := x3f.
Definition hash : byte := x23.
Definition amp : byte := x26.
Definition eqsign : byte := x3d.
Definition dot : byte := x2e.

(* split "host[:port]" and check it *)
Definition host_ok (h : bytes) : bool :=
  let '(name, port) := cut_byte colon h in
  forallb is_host_char name &&
  match port with None => true | Some p => forallb is_digit p end.

Definition url_classify (s : bytes) : url_class :=
  match s with
  | [] => UFallback                                  (* IRI.URL(): "empty IRI" *)
  | c0 :: _ =>
      let '(nofrag, frag) := cut_byte hash s in
      let '(noquery, query) := cut_byte qmark nofrag in
      match index (B "://") noquery with
      | Some n =>
          let scheme := firstn n noquery in
          let rest := skipn (n + 3) noquery in
          let '(hostport, pathrest) := cut_byte slash rest in
          let path := match pathrest with None => [] | Some p => slash :: p end in
          if is_alpha c0 && forallb is_scheme_char scheme && negb (Nat.eqb n 0)
             && host_ok hostport && forallb is_path_char path
             && forallb is_query_char (match query with Some q => q | None => [] end)
             && forallb is_frag_char (match frag with Some f => f | None => [] end)
          then
            if match hostport with [] => true | _ => false end then UFallback
            else UValid {| u_scheme := scheme; u_host := hostport; u_path := path;
                           u_query := match query with Some q => q | None => [] end;
                           u_frag := match frag with Some f => f | None => [] end |}
          else UUnmodelled
      | None =>
          (* no authority marker: modelled only for plain words, which parse as a bare path *)
          if forallb (fun b => is_unreserved b || Byte.eqb b slash) s then UFallback else UUnmodelled
      end
  end.

(* path/filepath.Clean (Unix) *)
Fixpoint clean_segs (stack : list bytes) (rooted : bool) (segs : list bytes) : list bytes :=
  match segs with
  | [] => rev stack
  | seg :: r =>
      match seg with
      | [] => clean_segs stack rooted r
      | _ =>
          if bytes_eqb seg (B ".") then clean_segs stack rooted r
          else if bytes_eqb seg (B "..") then
                 match stack with
                 | top :: stack' =>
                     if bytes_eqb top (B "..") then clean_segs (seg :: stack) rooted r   (* only when not rooted *)
                     else clean_segs stack' rooted r
                 | [] => if rooted then clean_segs [] rooted r else clean_segs [seg] rooted r
                 end
          else clean_segs (seg :: stack) rooted r
      end
  end.

Definition path_clean (p : bytes) : bytes :=
  match p with
  | [] => B "."
  | c :: _ =>
      let rooted := Byte.eqb c slash in
      let segs := clean_segs [] rooted (split_byte slash p) in
      if rooted then slash :: join_with [slash] segs
      else match segs with [] => B "." | _ => join_with [slash] segs end
  end.

(* URL.Query(): url.ParseQuery on the grammar: "&"-separated, first "=" splits key and value,
   empty pieces skipped; result grouped by key in order of first appearance *)
Definition query_pairs (q : bytes) : list (bytes * bytes) :=
  flat_map (fun piece => match piece with
                         | [] => []
                         | _ => let '(k, v) := cut_byte eqsign piece in
                                [(k, match v with Some v => v | None => [] end)]
                         end) (split_byte amp q).

Fixpoint group_add (k v : bytes) (m : list (bytes * list bytes)) : list (bytes * list bytes) :=
  match m with
  | [] => [(k, [v])]
  | (k', vs) :: r => if bytes_eqb k k' then (k', vs ++ [v]) :: r else (k', vs) :: group_add k v r
  end.

Definition query_values (q : bytes) : list (bytes * list bytes) :=
  fold_left (fun m kv => group_add (fst kv) (snd kv) m) (query_pairs q) [].

Fixpoint lookup_values (k : bytes) (m : list (bytes * list bytes)) : option (list bytes) :=
  match m with
  | [] => None
  | (k', vs) :: r => if bytes_eqb k k' then Some vs else lookup_values k r
  end.
