(* net/url of go1.23 on ALL byte strings: url.Parse, url.ParseRequestURI, URL.String, URL.Query /
   url.ParseQuery (EXTERNAL, modelled not verified; compared with the real package by Cases_C14_ulib,
   Cases_C15_ulib, Cases_C01_asiri on every run).

   What net/url really does (and this model follows), as opposed to the cautious grammar of Model/Url.v:
   - Parse cuts the fragment at the first "#"; a control byte (< 0x20, 0x7F) BEFORE the "#" is an error;
   - the scheme is the longest prefix  ALPHA *( ALPHA / DIGIT / "+" / "-" / "." )  followed by ":" - anything else
     before the first ":" means "no scheme"; a leading ":" is an error; the scheme is lower-cased;
   - the query is cut at the first "?" (URL.RawQuery, kept raw; "?" with nothing behind it is ForceQuery);
   - a rest that does not begin with "/" makes an opaque URL (with scheme), an error (ParseRequestURI) or a
     relative path whose first segment must not hold a ":";
   - "//" authority up to the next "/": [userinfo "@"] host, cut at the LAST "@";
     userinfo (url.validUserinfo): ASCII letters, digits and  - . _ : ~ ! $ & ' ( ) * + , ; = % @  only, cut at its
     first ":" into name and password, both percent-decoded (URL.User; it is NOT part of URL.Host);
     host [":" digits], where the host may hold any byte >= 0x80, "%XX" escapes of bytes >= 0x80 (and "%25"), and the
     ASCII bytes url.shouldEscape leaves alone in host mode; Host is DECODED;
     a host that begins with "[" (IP literal) ends at the LAST "]", followed by nothing or ":" digits; what lies between
     the brackets is NOT checked to be an address; from the first "%25" inside on (RFC 6874 zone) an escape may decode
     to "%", a space or any byte url.shouldEscape leaves alone in host mode; Host keeps brackets and port, decoded;
   - the path may hold ANY byte (bytes >= 0x80, spaces, quotes, ...); "%XX" must be two hex digits; URL.Path is
     DECODED; URL.RawPath keeps the spelling when it is not the default one;
   - the fragment is decoded likewise (a malformed escape there is an error; control bytes are allowed).
   Nothing is outside the model any more: [UOut] / UUnmodelled are never answered (the constructor stays so that the
   case analyses of the callers stay as they were).  Definitions only. *)
From AP.Model Require Import Prelude Bytes Url IriEq Vocab Pred CollIri.

Definition bang : byte := x21.
Definition plus : byte := x2b.
Definition space : byte := x20.
Definition semi : byte := x3b.
Definition atsign : byte := x40.
Definition lbrack : byte := x5b.
Definition rbrack : byte := x5d.
Definition star : byte := x2a.

(* ---------------------------------------------------------------- url.shouldEscape per mode (negated) *)
Definition is_alnum (b : byte) : bool := is_alpha b || is_digit b.
(* encodeHost: what URL.String leaves alone in a host, and what parseHost accepts unescaped *)
Definition host_noescape (b : byte) : bool := is_alnum b || byte_in b (B "!$&'()*+,;=:[]<>""-_.~").
(* encodeUserPassword *)
Definition user_noescape (b : byte) : bool := is_alnum b || byte_in b (B "-_.~$&+,;=").
(* encodeFragment *)
Definition frag_noescape (b : byte) : bool := is_unreserved b || byte_in b (B "$&+,/:;=?@!()*").
Definition esc_with (keep : byte -> bool) (b : byte) : bytes :=
  if keep b then [b] else [pct; hexdigit (byteN b / 16)%N; hexdigit (byteN b mod 16)%N].
Definition host_escape (h : bytes) : bytes := flat_map (esc_with host_noescape) h.
Definition frag_escape (f : bytes) : bytes := flat_map (esc_with frag_noescape) f.
Definition user_escape (f : bytes) : bytes := flat_map (esc_with user_noescape) f.
(* url.validEncoded *)
Definition valid_enc (keep : byte -> bool) (s : bytes) : bool :=
  forallb (fun b => byte_in b (B "!$&'()*+,;=:@[]%") || keep b) s.

Definition opt_bytes_eqb (o : option bytes) (b : bytes) : bool :=
  match o with Some a => bytes_eqb a b | None => false end.

(* ---------------------------------------------------------------- the URL value *)
(* uu_query: None when there is no "?" (neither RawQuery nor ForceQuery); uu_rawpath / uu_rawfrag: URL.RawPath /
   URL.RawFragment ("" when the spelling is the default one); uu_user: URL.User - None = nil, else the name and the
   password when one is set *)
Definition uuser := option (bytes * option bytes).
Record uurl := { uu_scheme : bytes; uu_opaque : bytes; uu_user : uuser; uu_host : bytes; uu_path : bytes; uu_rawpath : bytes;
                 uu_query : option bytes; uu_frag : bytes; uu_rawfrag : bytes; uu_omit : bool }.
Inductive uparse := UUrl (u : uurl) | UErr | UOut.

Definition uurl0 : uurl :=
  {| uu_scheme := []; uu_opaque := []; uu_user := None; uu_host := []; uu_path := []; uu_rawpath := [];
     uu_query := None; uu_frag := []; uu_rawfrag := []; uu_omit := false |}.

(* ---------------------------------------------------------------- url.getScheme *)
Inductive gscheme := GSErr | GS (scheme rest : bytes).
Fixpoint get_scheme_go (first : bool) (acc : bytes) (whole s : bytes) : gscheme :=
  match s with
  | [] => GS [] whole
  | c :: r =>
      if is_alpha c then get_scheme_go false (c :: acc) whole r
      else if is_digit c || byte_in c (B "+-.") then
             if first then GS [] whole else get_scheme_go false (c :: acc) whole r
      else if Byte.eqb c colon then
             if first then GSErr else GS (rev acc) r
      else GS [] whole
  end.
Definition get_scheme (s : bytes) : gscheme := get_scheme_go true [] s s.

(* ---------------------------------------------------------------- url.parseHost *)
(* unescape(host, encodeHost): every "%" is followed by two hex digits, the first one >= 8 unless the escape is
   "%25"; every other ASCII byte is one shouldEscape leaves alone in host mode *)
Fixpoint host_bytes_ok (s : bytes) : bool :=
  match s with
  | [] => true
  | c :: r =>
      if Byte.eqb c pct then
        match r with
        | h :: l :: r' =>
            is_hex h && is_hex l && ((8 <=? hexv h)%N || (Byte.eqb h x32 && Byte.eqb l x35)) && host_bytes_ok r'
        | _ => false
        end
      else (negb (is_ascii c) || host_noescape c) && host_bytes_ok r
  end.

(* unescape(zone, encodeZone): an escape is "%25" or decodes to a space or to a byte shouldEscape leaves alone in
   host mode (so never to a byte >= 0x80); the other bytes as in host mode *)
Fixpoint zone_bytes_ok (s : bytes) : bool :=
  match s with
  | [] => true
  | c :: r =>
      if Byte.eqb c pct then
        match r with
        | h :: l :: r' =>
            is_hex h && is_hex l
            && ((Byte.eqb h x32 && Byte.eqb l x35) || Byte.eqb (unhex2 h l) space || host_noescape (unhex2 h l))
            && zone_bytes_ok r'
        | _ => false
        end
      else (negb (is_ascii c) || host_noescape c) && zone_bytes_ok r
  end.

(* strings.LastIndex of one byte: Some (before, after) *)
Fixpoint cut_last (c : byte) (s : bytes) : option (bytes * bytes) :=
  match s with
  | [] => None
  | x :: r =>
      match cut_last c r with
      | Some (a, b) => Some (x :: a, b)
      | None => if Byte.eqb x c then Some ([], r) else None
      end
  end.

(* validOptionalPort on what follows the LAST ":" *)
Definition last_colon_ok (h : bytes) : bool :=
  match cut_byte colon (rev h) with
  | (revport, Some _) => forallb is_digit revport
  | (_, None) => true
  end.
(* validOptionalPort on what follows the "]" *)
Definition valid_optional_port (p : bytes) : bool :=
  match p with
  | [] => true
  | c :: ds => Byte.eqb c colon && forallb is_digit ds
  end.

Definition decode3 (a b c : bytes) : option bytes :=
  match pct_decode a, pct_decode b, pct_decode c with
  | Some x, Some y, Some z => Some (x ++ y ++ z)
  | _, _, _ => None
  end.

(* None = error *)
Definition parse_host (h : bytes) : option bytes :=
  if is_prefix [lbrack] h then
    match cut_last rbrack h with
    | None => None                                                  (* "missing ']' in host" *)
    | Some (inside, after) =>                                       (* host[:i], host[i+1:] *)
        if valid_optional_port after then
          match index (B "%25") inside with
          | Some z =>
              let h1 := firstn z inside in
              let h2 := skipn z inside in
              let h3 := rbrack :: after in
              if host_bytes_ok h1 && zone_bytes_ok h2 && host_bytes_ok h3 then decode3 h1 h2 h3 else None
          | None => if host_bytes_ok h then pct_decode h else None
          end
        else None
    end
  else if last_colon_ok h && host_bytes_ok h then pct_decode h else None.

(* ---------------------------------------------------------------- url.parseAuthority *)
(* url.validUserinfo *)
Definition userinfo_char (b : byte) : bool := is_alnum b || byte_in b (B "-._:~!$&'()*+,;=%@").

(* the userinfo before the last "@": name [":" password], both unescaped (mode encodeUserPassword: only the shape of
   the escapes is checked) *)
Definition parse_userinfo (ui : bytes) : option (bytes * option bytes) :=
  if forallb userinfo_char ui then
    match cut_byte colon ui with
    | (name, None) => match pct_decode name with Some n => Some (n, None) | None => None end
    | (name, Some pw) =>
        match pct_decode name, pct_decode pw with
        | Some n, Some p => Some (n, Some p)
        | _, _ => None
        end
    end
  else None.

(* None = error; Some (URL.User, URL.Host) *)
Definition parse_authority (au : bytes) : option (uuser * bytes) :=
  match cut_last atsign au with
  | None => match parse_host au with Some h => Some (None, h) | None => None end
  | Some (ui, hostpart) =>
      match parse_host hostpart with
      | Some h => match parse_userinfo ui with Some up => Some (Some up, h) | None => None end
      | None => None
      end
  end.

(* ---------------------------------------------------------------- url.parse *)
Definition first_segment_has_colon (rest : bytes) : bool :=
  existsb (fun b => Byte.eqb b colon) (fst (cut_byte slash rest)).

(* setPath *)
Definition set_path (u : uurl) (p : bytes) : uparse :=
  match pct_decode p with
  | Some d =>
      UUrl {| uu_scheme := uu_scheme u; uu_opaque := uu_opaque u; uu_user := uu_user u; uu_host := uu_host u; uu_path := d;
              uu_rawpath := if bytes_eqb p (path_escape d) then [] else p;
              uu_query := uu_query u; uu_frag := uu_frag u; uu_rawfrag := uu_rawfrag u; uu_omit := uu_omit u |}
  | None => UErr
  end.

Definition url_parse_core (via_request : bool) (s : bytes) : uparse :=
  if existsb is_ctl s then UErr                                   (* "invalid control character in URL" *)
  else if via_request && negb (nonempty s) then UErr              (* "empty url" *)
  else if bytes_eqb s [star] then
    UUrl {| uu_scheme := []; uu_opaque := []; uu_user := None; uu_host := []; uu_path := [star]; uu_rawpath := [];
            uu_query := None; uu_frag := []; uu_rawfrag := []; uu_omit := false |}
  else
  match get_scheme s with
  | GSErr => UErr                                                  (* "missing protocol scheme" *)
  | GS scheme0 rest0 =>
      let scheme := lower scheme0 in
      let '(rest, query) := cut_byte qmark rest0 in
      let rooted := is_prefix [slash] rest in
      if negb rooted && nonempty scheme then
        UUrl {| uu_scheme := scheme; uu_opaque := rest; uu_user := None; uu_host := []; uu_path := []; uu_rawpath := [];
                uu_query := query; uu_frag := []; uu_rawfrag := []; uu_omit := false |}
      else if negb rooted && via_request then UErr                (* "invalid URI for request" *)
      else if negb rooted && first_segment_has_colon rest then UErr
      else if (nonempty scheme || (negb via_request && negb (is_prefix (B "///") rest))) && is_prefix (B "//") rest then
        let '(authority, pathrest) := cut_byte slash (skipn 2 rest) in
        let p := match pathrest with Some p => slash :: p | None => [] end in
        match parse_authority authority with
        | Some (user, h) =>
            set_path {| uu_scheme := scheme; uu_opaque := []; uu_user := user; uu_host := h; uu_path := []; uu_rawpath := [];
                        uu_query := query; uu_frag := []; uu_rawfrag := []; uu_omit := false |} p
        | None => UErr
        end
      else
        set_path {| uu_scheme := scheme; uu_opaque := []; uu_user := None; uu_host := []; uu_path := []; uu_rawpath := [];
                    uu_query := query; uu_frag := []; uu_rawfrag := [];
                    uu_omit := nonempty scheme && rooted |} rest
  end.

(* url.ParseRequestURI *)
Definition url_parse_request (s : bytes) : uparse := url_parse_core true s.

(* url.Parse *)
Definition url_parse_u (s : bytes) : uparse :=
  let '(nofrag, frag) := cut_byte hash s in
  match url_parse_core false nofrag with
  | UUrl u =>
      match frag with
      | None | Some [] => UUrl u
      | Some f =>
          match pct_decode f with                         (* setFragment *)
          | Some d =>
              UUrl {| uu_scheme := uu_scheme u; uu_opaque := uu_opaque u; uu_user := uu_user u; uu_host := uu_host u; uu_path := uu_path u;
                      uu_rawpath := uu_rawpath u; uu_query := uu_query u; uu_frag := d;
                      uu_rawfrag := if bytes_eqb f (frag_escape d) then [] else f; uu_omit := uu_omit u |}
          | None => UErr
          end
      end
  | r => r
  end.

(* ---------------------------------------------------------------- URL.String *)
(* URL.EscapedPath *)
Definition escaped_path (u : uurl) : bytes :=
  if nonempty (uu_rawpath u) && valid_enc path_noescape (uu_rawpath u)
     && opt_bytes_eqb (pct_decode (uu_rawpath u)) (uu_path u)
  then uu_rawpath u
  else if bytes_eqb (uu_path u) [star] then [star] else path_escape (uu_path u).
(* URL.EscapedFragment *)
Definition escaped_frag (u : uurl) : bytes :=
  if nonempty (uu_rawfrag u) && valid_enc frag_noescape (uu_rawfrag u)
     && opt_bytes_eqb (pct_decode (uu_rawfrag u)) (uu_frag u)
  then uu_rawfrag u
  else frag_escape (uu_frag u).

(* Userinfo.String *)
Definition userinfo_string (up : bytes * option bytes) : bytes :=
  user_escape (fst up) ++ match snd up with Some pw => colon :: user_escape pw | None => [] end.
Definition has_user (u : uurl) : bool := match uu_user u with Some _ => true | None => false end.

Definition url_string_u (u : uurl) : bytes :=
  let head :=
    (match uu_scheme u with [] => [] | sc => sc ++ [colon] end) ++
    (if nonempty (uu_opaque u) then uu_opaque u
     else
       let auth :=
         if nonempty (uu_scheme u) || nonempty (uu_host u) || has_user u then
           if uu_omit u && negb (nonempty (uu_host u)) && negb (has_user u) then []
           else (if nonempty (uu_host u) || nonempty (uu_path u) || has_user u then B "//" else [])
                ++ (match uu_user u with Some up => userinfo_string up ++ [atsign] | None => [] end)
                ++ host_escape (uu_host u)
         else [] in
       let ep := escaped_path u in
       let sep := match ep with
                  | c :: _ => if negb (Byte.eqb c slash) && nonempty (uu_host u) then [slash] else []
                  | [] => []
                  end in
       let dot := if negb (nonempty (uu_scheme u)) && negb (nonempty auth) && negb (nonempty sep)
                     && first_segment_has_colon ep then B "./" else [] in
       auth ++ sep ++ dot ++ ep) in
  head
  ++ (match uu_query u with Some q => qmark :: q | None => [] end)
  ++ (match uu_frag u with [] => [] | _ => hash :: escaped_frag u end).

(* u.Path = p (RawPath stays, as in CollectionPaths.Split) *)
Definition with_path_u (u : uurl) (p : bytes) : uurl :=
  {| uu_scheme := uu_scheme u; uu_opaque := uu_opaque u; uu_user := uu_user u; uu_host := uu_host u; uu_path := p; uu_rawpath := uu_rawpath u;
     uu_query := uu_query u; uu_frag := uu_frag u; uu_rawfrag := uu_rawfrag u; uu_omit := uu_omit u |}.

(* ---------------------------------------------------------------- url.ParseQuery / URL.Query *)
(* url.QueryUnescape: "+" is a space, "%XX" a byte; None = error *)
Definition query_unescape (s : bytes) : option bytes :=
  pct_decode (map (fun b => if Byte.eqb b plus then space else b) s).

(* parseQuery with the error dropped (URL.Query): "&"-separated settings; a setting that holds ";" or a
   malformed escape is skipped, an empty one too; the first "=" separates key and value; both are unescaped *)
Definition query_pairs_u (q : bytes) : list (bytes * bytes) :=
  flat_map (fun piece =>
              if existsb (fun b => Byte.eqb b semi) piece then []
              else match piece with
                   | [] => []
                   | _ => let '(k, v) := cut_byte eqsign piece in
                          match query_unescape k, query_unescape (match v with Some v => v | None => [] end) with
                          | Some k', Some v' => [(k', v')]
                          | _, _ => []
                          end
                   end) (split_byte amp q).

Definition group_pairs (l : list (bytes * bytes)) : list (bytes * list bytes) :=
  fold_left (fun m kv => group_add (fst kv) (snd kv) m) l [].
Definition query_values_u (q : bytes) : list (bytes * list bytes) := group_pairs (query_pairs_u q).

(* ---------------------------------------------------------------- the views the library takes *)
(* IRI.URL() then validURL: what irisEqual sees *)
Definition url_classify_u (s : bytes) : url_class :=
  match s with
  | [] => UFallback                                     (* IRI.URL(): "empty IRI" *)
  | _ =>
      match url_parse_u s with
      | UUrl u =>
          if nonempty (uu_scheme u) && nonempty (uu_host u)
          then UValid {| u_scheme := uu_scheme u; u_host := uu_host u; u_path := uu_path u;
                         u_query := match uu_query u with Some q => q | None => [] end; u_frag := uu_frag u |}
          else UFallback
      | UErr => UFallback
      | UOut => UUnmodelled
      end
  end.

(* the test asIRI makes: url.ParseRequestURI succeeds, scheme and host are not empty; None = outside the model *)
Definition request_iri_ok (s : bytes) : option bool :=
  match url_parse_request s with
  | UUrl u => Some (nonempty (uu_scheme u) && nonempty (uu_host u))
  | UErr => Some false
  | UOut => None
  end.
