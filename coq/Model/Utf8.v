(* unicode/utf8: the decoding of a Go string into runes as `for _, r := range s` and utf8.DecodeRuneInString do
   it (EXTERNAL, modelled not verified; compared with the real decoder by Cases_C14_utf8): a byte that does not
   begin a well-formed, shortest-form encoding of a scalar value decodes to U+FFFD and ONE byte is consumed.
   Definitions only. *)
From AP.Model Require Import Prelude Bytes.

Definition rune_error : N := 65533%N.     (* U+FFFD *)

Definition in_rng (lo hi : N) (b : byte) : bool := let n := byteN b in ((lo <=? n) && (n <=? hi))%N.
(* continuation bytes 0x80..0xBF *)
Definition is_cont (b : byte) : bool := in_rng 128 191 b.

(* utf8.first / utf8.acceptRanges: what the first byte announces; for three- and four-byte forms the range
   the SECOND byte must lie in (excludes overlong forms, surrogates and values above U+10FFFF) *)
Inductive lead := LAscii | LBad | L2 | L3 (lo hi : N) | L4 (lo hi : N).
Definition lead_of (b : byte) : lead :=
  let n := byteN b in
  (if n <? 128 then LAscii
   else if n <? 194 then LBad             (* 80..BF: continuation bytes; C0, C1: overlong *)
   else if n <? 224 then L2               (* C2..DF *)
   else if n =? 224 then L3 160 191       (* E0 *)
   else if n =? 237 then L3 128 159       (* ED: no surrogates *)
   else if n <? 240 then L3 128 191       (* E1..EC, EE, EF *)
   else if n =? 240 then L4 144 191       (* F0 *)
   else if n <? 244 then L4 128 191       (* F1..F3 *)
   else if n =? 244 then L4 128 143       (* F4: up to U+10FFFF *)
   else LBad)%N.

Definition lo6 (b : byte) : N := (byteN b mod 64)%N.
Definition rune2 (p0 b1 : byte) : N := ((byteN p0 mod 32) * 64 + lo6 b1)%N.
Definition hi3 (p0 b1 : byte) : N := ((byteN p0 mod 16) * 4096 + lo6 b1 * 64)%N.
Definition rune3 (p0 b1 b2 : byte) : N := (hi3 p0 b1 + lo6 b2)%N.
Definition hi4 (p0 b1 : byte) : N := ((byteN p0 mod 8) * 262144 + lo6 b1 * 4096)%N.
Definition rune4 (p0 b1 b2 b3 : byte) : N := (hi4 p0 b1 + (lo6 b2 * 64 + lo6 b3))%N.

(* the runes of a string, with the value an invalid byte decodes to as a parameter *)
Fixpoint runes_with (err : byte -> N) (s : bytes) : list N :=
  match s with
  | [] => []
  | p0 :: r =>
      match lead_of p0 with
      | LAscii => byteN p0 :: runes_with err r
      | LBad => err p0 :: runes_with err r
      | L2 =>
          match r with
          | b1 :: r1 => if is_cont b1 then rune2 p0 b1 :: runes_with err r1 else err p0 :: runes_with err r
          | _ => err p0 :: runes_with err r
          end
      | L3 lo hi =>
          match r with
          | b1 :: b2 :: r2 =>
              if is_cont b1 && in_rng lo hi b1 && is_cont b2 then rune3 p0 b1 b2 :: runes_with err r2 else err p0 :: runes_with err r
          | _ => err p0 :: runes_with err r
          end
      | L4 lo hi =>
          match r with
          | b1 :: b2 :: b3 :: r3 =>
              if is_cont b1 && in_rng lo hi b1 && is_cont b2 && is_cont b3
              then rune4 p0 b1 b2 b3 :: runes_with err r3 else err p0 :: runes_with err r
          | _ => err p0 :: runes_with err r
          end
      end
  end.

(* Go's decoding (range over a string, utf8.DecodeRuneInString, strings.EqualFold): every invalid byte is U+FFFD *)
Definition lax_err (b : byte) : N := rune_error.
Definition runes : bytes -> list N := runes_with lax_err.

(* the decoding of iri.go equalFold: an invalid byte stands for itself - here as a number above every rune,
   0x110000 + the byte, so that the decoding stays a list of numbers *)
Definition rune_limit : N := 1114112%N.   (* 0x110000 *)
Definition strict_err (b : byte) : N := (rune_limit + byteN b)%N.
Definition srunes : bytes -> list N := runes_with strict_err.

(* utf8.ValidString: no byte had to be replaced *)
Fixpoint utf8_valid (s : bytes) : bool :=
  match s with
  | [] => true
  | p0 :: r =>
      match lead_of p0 with
      | LAscii => utf8_valid r
      | LBad => false
      | L2 =>
          match r with
          | b1 :: r1 => is_cont b1 && utf8_valid r1
          | _ => false
          end
      | L3 lo hi =>
          match r with
          | b1 :: b2 :: r2 => is_cont b1 && in_rng lo hi b1 && is_cont b2 && utf8_valid r2
          | _ => false
          end
      | L4 lo hi =>
          match r with
          | b1 :: b2 :: b3 :: r3 => is_cont b1 && in_rng lo hi b1 && is_cont b2 && is_cont b3 && utf8_valid r3
          | _ => false
          end
      end
  end.
