(* Typed views: what a pointer reinterpretation D-pointer(unsafe.Pointer(p)) of a value of struct kind S
   reads and writes, from the generated layouts.  Definitions only. *)
From AP.Model Require Import Prelude Vocab Layout.

Section Views.
  Variable layout_of : kind -> list fdecl.
  Variable sizeof_kind : kind -> nat.

  (* the one renaming the property allows: members of an ordered collection <-> items of the unordered view *)
  Definition ren (f : fid) : fid :=
    match f with F_Items => F_OrderedItems | F_OrderedItems => F_Items | x => x end.
  Definition same_field (a b : fid) : bool := fid_beq a b || fid_beq a (ren b).

  Definition find_at (off : nat) (l : list fdecl) : option fdecl :=
    find (fun d => Nat.eqb (fd_off d) off) l.
  Definition find_fid (f : fid) (l : list fdecl) : option fdecl :=
    find (fun d => fid_beq (fd_fid d) f) l.

  (* a field of the view type is backed when the source has, at the same offset, a field of the same Go
     type and size carrying the same name (up to ren) *)
  Definition backing (src : kind) (d : fdecl) : option fdecl :=
    match find_at (fd_off d) (layout_of src) with
    | Some s => if gotype_eqb (fd_type s) (fd_type d) && Nat.eqb (fd_size s) (fd_size d)
                   && same_field (fd_fid s) (fd_fid d) then Some s else None
    | None => None
    end.
  Definition field_backed (src : kind) (d : fdecl) : bool :=
    match backing src d with Some _ => true | None => false end.

  Definition prefix_compatible (dst src : kind) : bool :=
    Nat.leb (sizeof_kind dst) (sizeof_kind src) && forallb (field_backed src) (layout_of dst).

  (* the fields of a value of kind [src] as seen through a view of kind [dst]:
     None when some field of the view is not backed (it would read foreign or mistyped memory) *)
  Fixpoint view_fields_of (src : kind) (ds : list fdecl) (fs : list (fid * fval)) : option (list (fid * fval)) :=
    match ds with
    | [] => Some []
    | d :: r =>
        match backing src d, view_fields_of src r fs with
        | Some s, Some out =>
            match getf (fd_fid s) fs with
            | Some v => Some ((fd_fid d, v) :: out)
            | None => Some out
            end
        | _, _ => None
        end
    end.
  Definition view_fields (dst src : kind) (fs : list (fid * fval)) : option (list (fid * fval)) :=
    if Nat.leb (sizeof_kind dst) (sizeof_kind src) then view_fields_of src (layout_of dst) fs else None.

  (* a write of field [f] through the view lands in the backing field of the original *)
  Definition view_write (dst src : kind) (f : fid) (v : fval) (fs : list (fid * fval)) : option (list (fid * fval)) :=
    match find_fid f (layout_of dst) with
    | Some d => match backing src d with
                | Some s => Some (setf (fd_fid s) v fs)
                | None => None
                end
    | None => None
    end.

  (* a cast site is sound when it reinterprets between struct kinds with a compatible prefix *)
  Definition cast_ok (src dst : cast_kind) : bool :=
    match src, dst with
    | CK s, CK d => prefix_compatible d s
    | _, _ => false
    end.

  Definition case_ok (c : conv_case) : bool :=
    match cv_action c with
    | ACast d | ACastOfCopy d => cast_ok (cv_src c) d
    | _ => true
    end.

  Definition site_ok (c : cast_site) : bool := cast_ok (cs_src c) (cs_dst c).
End Views.
