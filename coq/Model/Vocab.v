(* The value universe: every Go value an Item can hold, with the distinctions the code branches on
   (untyped nil / typed nil pointer / value vs pointer form / nil vs empty slice). Definitions only. *)
From AP.Model Require Import Prelude.

(* the 14 struct types *)
Inductive kind :=
| KObject | KActor | KActivity | KIntransitive | KQuestion | KCollection | KCollectionPage
| KOrdered | KOrderedPage | KPlace | KProfile | KRelationship | KTombstone | KLink.
Scheme Equality for kind.

Definition all_kinds : list kind :=
  [KObject; KActor; KActivity; KIntransitive; KQuestion; KCollection; KCollectionPage;
   KOrdered; KOrderedPage; KPlace; KProfile; KRelationship; KTombstone; KLink].

(* Go field names of the vocabulary structs (Object core, per-type extras, Link, Endpoints) *)
Inductive fid :=
| F_ID | F_Type | F_Name | F_Attachment | F_AttributedTo | F_Audience | F_Content | F_Context
| F_MediaType | F_EndTime | F_Generator | F_Icon | F_Image | F_InReplyTo | F_Location | F_Preview
| F_Published | F_Replies | F_StartTime | F_Summary | F_Tag | F_Updated | F_URL | F_To | F_Bto
| F_CC | F_BCC | F_Duration | F_Likes | F_Shares | F_Source
| F_Actor | F_Target | F_Result | F_Origin | F_Instrument | F_Object
| F_OneOf | F_AnyOf | F_Closed
| F_Inbox | F_Outbox | F_Following | F_Followers | F_Liked | F_PreferredUsername | F_Endpoints
| F_Streams | F_PublicKey
| F_Current | F_First | F_Last | F_TotalItems | F_Items | F_OrderedItems
| F_PartOf | F_Next | F_Prev | F_StartIndex
| F_Accuracy | F_Altitude | F_Latitude | F_Longitude | F_Radius | F_Units
| F_Describes | F_Subject | F_Relationship | F_FormerType | F_Deleted
| F_Href | F_Rel | F_HrefLang | F_Height | F_Width
| F_UploadMedia | F_OauthAuthorizationEndpoint | F_OauthTokenEndpoint | F_ProvideClientKey
| F_SignClientKey | F_SharedInbox
| F_Owner | F_PublicKeyPem | F_Ref | F_Value.
Scheme Equality for fid.

(* time.Time as (unix seconds, nanoseconds, zone offset in seconds east of UTC) *)
Record vtime := { vsecs : Z; vnanos : Z; voff : Z }.
Definition zero_unix : Z := (-62135596800)%Z.
Definition vtime_is_zero (t : vtime) : bool := (vsecs t =? zero_unix)%Z && (vnanos t =? 0)%Z.
Definition vtime_zero : vtime := {| vsecs := zero_unix; vnanos := 0; voff := 0 |}.

Definition nlv := option (list (bytes * bytes)).      (* NaturalLanguageValues: (Ref, Value); None = nil slice *)

Inductive item :=
| INil                                              (* untyped nil interface *)
| ITNil  (k : kind)                                 (* typed nil pointer to a struct type *)
| IIri   (ptr : bool) (s : bytes)                   (* IRI or pointer to IRI *)
| IObj   (ptr : bool) (k : kind) (fs : list (fid * fval))  (* struct value / pointer; unset fields absent *)
| IItems (ptr : bool) (l : option (list item))      (* ItemCollection, or pointer to it; None = nil slice *)
| IIris  (ptr : bool) (l : option (list bytes))     (* IRIs or pointer to IRIs *)
with fval :=
| FItem  (i : item)
| FItems (l : option (list item))
| FNlv   (l : nlv)
| FStr   (s : bytes)
| FTime  (t : vtime)
| FDur   (d : Z)                                    (* time.Duration, nanoseconds *)
| FUint  (n : N)
| FInt   (z : Z)
| FBool  (b : bool)
| FFloat (micro : Z)                                (* float64 restricted to exact multiples of 1e-6 *)
| FSource (mt : bytes) (c : nlv)
| FEndpoints (e : option (list (fid * item)))       (* pointer to Endpoints; None = nil pointer *)
| FPubKey (id owner pem : bytes).

(* Go zero values: a field holding one is "unset" and is left out of the field list *)
Definition fval_is_zero (v : fval) : bool :=
  match v with
  | FItem INil => true
  | FItems None => true
  | FNlv None => true
  | FStr [] => true
  | FTime t => vtime_is_zero t
  | FDur d => (d =? 0)%Z
  | FUint n => (n =? 0)%N
  | FInt z => (z =? 0)%Z
  | FBool b => negb b
  | FFloat m => (m =? 0)%Z
  | FSource [] None => true
  | FEndpoints None => true
  | FPubKey [] [] [] => true
  | _ => false
  end.

Fixpoint getf (f : fid) (fs : list (fid * fval)) : option fval :=
  match fs with
  | [] => None
  | (g, v) :: r => if fid_beq f g then Some v else getf f r
  end.

Fixpoint delf (f : fid) (fs : list (fid * fval)) : list (fid * fval) :=
  match fs with
  | [] => []
  | (g, v) :: r => if fid_beq f g then delf f r else (g, v) :: delf f r
  end.

(* set in place when present (keeps struct order), append otherwise; zero values are removed *)
Fixpoint replf (f : fid) (v : fval) (fs : list (fid * fval)) : list (fid * fval) :=
  match fs with
  | [] => [(f, v)]
  | (g, w) :: r => if fid_beq f g then (f, v) :: r else (g, w) :: replf f v r
  end.

Definition setf (f : fid) (v : fval) (fs : list (fid * fval)) : list (fid * fval) :=
  if fval_is_zero v then delf f fs else replf f v fs.

(* typed accessors with Go zero defaults *)
Definition get_item (f : fid) fs : item :=
  match getf f fs with Some (FItem i) => i | _ => INil end.
Definition get_items (f : fid) fs : option (list item) :=
  match getf f fs with Some (FItems l) => l | _ => None end.
Definition get_nlv (f : fid) fs : nlv :=
  match getf f fs with Some (FNlv l) => l | _ => None end.
Definition get_str (f : fid) fs : bytes :=
  match getf f fs with Some (FStr s) => s | _ => [] end.
Definition get_time (f : fid) fs : vtime :=
  match getf f fs with Some (FTime t) => t | _ => vtime_zero end.
Definition get_dur (f : fid) fs : Z :=
  match getf f fs with Some (FDur d) => d | _ => 0%Z end.
Definition get_uint (f : fid) fs : N :=
  match getf f fs with Some (FUint n) => n | _ => 0%N end.

(* sizes, for fuel and for measures *)
Fixpoint item_size (i : item) : nat :=
  match i with
  | INil | ITNil _ | IIri _ _ | IIris _ _ => 1
  | IObj _ _ fs =>
      S ((fix go (fs : list (fid * fval)) : nat :=
            match fs with [] => 0 | (_, v) :: r => fval_size v + go r end) fs)
  | IItems _ None => 1
  | IItems _ (Some l) =>
      S ((fix go (l : list item) : nat := match l with [] => 0 | x :: r => item_size x + go r end) l)
  end
with fval_size (v : fval) : nat :=
  match v with
  | FItem i => item_size i
  | FItems (Some l) =>
      S ((fix go (l : list item) : nat := match l with [] => 0 | x :: r => item_size x + go r end) l)
  | FEndpoints (Some e) =>
      S ((fix go (e : list (fid * item)) : nat :=
            match e with [] => 0 | (_, x) :: r => item_size x + go r end) e)
  | _ => 1
  end.

(* ---- equality on values (structural), used to compare model output with observed output ---- *)
Definition vtime_eqb (a b : vtime) : bool :=
  (vsecs a =? vsecs b)%Z && (vnanos a =? vnanos b)%Z && (voff a =? voff b)%Z.

Fixpoint list_eqb {A} (e : A -> A -> bool) (a b : list A) : bool :=
  match a, b with
  | [], [] => true
  | x :: a', y :: b' => e x y && list_eqb e a' b'
  | _, _ => false
  end.

Definition option_eqb {A} (e : A -> A -> bool) (a b : option A) : bool :=
  match a, b with
  | None, None => true
  | Some x, Some y => e x y
  | _, _ => false
  end.

Definition pair_eqb {A B} (ea : A -> A -> bool) (eb : B -> B -> bool) (a b : A * B) : bool :=
  ea (fst a) (fst b) && eb (snd a) (snd b).

Definition nlv_eqb (a b : nlv) : bool := option_eqb (list_eqb (pair_eqb bytes_eqb bytes_eqb)) a b.

Fixpoint item_eqb (a b : item) {struct a} : bool :=
  match a, b with
  | INil, INil => true
  | ITNil k, ITNil k' => kind_beq k k'
  | IIri p s, IIri p' s' => Bool.eqb p p' && bytes_eqb s s'
  | IObj p k fs, IObj p' k' fs' =>
      Bool.eqb p p' && kind_beq k k' &&
      (fix go (x y : list (fid * fval)) : bool :=
         match x, y with
         | [], [] => true
         | (f, v) :: x', (g, w) :: y' => fid_beq f g && fval_eqb v w && go x' y'
         | _, _ => false
         end) fs fs'
  | IItems p None, IItems p' None => Bool.eqb p p'
  | IItems p (Some l), IItems p' (Some l') =>
      Bool.eqb p p' &&
      (fix go (x y : list item) : bool :=
         match x, y with
         | [], [] => true
         | i :: x', j :: y' => item_eqb i j && go x' y'
         | _, _ => false
         end) l l'
  | IIris p l, IIris p' l' => Bool.eqb p p' && option_eqb (list_eqb bytes_eqb) l l'
  | _, _ => false
  end
with fval_eqb (a b : fval) {struct a} : bool :=
  match a, b with
  | FItem i, FItem j => item_eqb i j
  | FItems None, FItems None => true
  | FItems (Some l), FItems (Some l') =>
      (fix go (x y : list item) : bool :=
         match x, y with
         | [], [] => true
         | i :: x', j :: y' => item_eqb i j && go x' y'
         | _, _ => false
         end) l l'
  | FNlv l, FNlv l' => nlv_eqb l l'
  | FStr s, FStr s' => bytes_eqb s s'
  | FTime t, FTime t' => vtime_eqb t t'
  | FDur d, FDur d' => (d =? d')%Z
  | FUint n, FUint n' => (n =? n')%N
  | FInt z, FInt z' => (z =? z')%Z
  | FBool x, FBool y => Bool.eqb x y
  | FFloat m, FFloat m' => (m =? m')%Z
  | FSource mt c, FSource mt' c' => bytes_eqb mt mt' && nlv_eqb c c'
  | FEndpoints None, FEndpoints None => true
  | FEndpoints (Some e), FEndpoints (Some e') =>
      (fix go (x y : list (fid * item)) : bool :=
         match x, y with
         | [], [] => true
         | (f, i) :: x', (g, j) :: y' => fid_beq f g && item_eqb i j && go x' y'
         | _, _ => false
         end) e e'
  | FPubKey a1 a2 a3, FPubKey b1 b2 b3 => bytes_eqb a1 b1 && bytes_eqb a2 b2 && bytes_eqb a3 b3
  | _, _ => false
  end.

Definition outcome_eqb {A} (e : A -> A -> bool) (a b : outcome A) : bool :=
  match a, b with
  | Ok x, Ok y => e x y
  | Err, Err => true
  | Panic _, Panic _ => true        (* the kind of panic is informational *)
  | OutOfFuel, OutOfFuel => true
  | _, _ => false
  end.

(* generic mismatch collector for generated case files: returns the indices that disagree *)
Fixpoint mismatches_from {A} (n : nat) (ok : A -> bool) (l : list A) : list nat :=
  match l with
  | [] => []
  | x :: r => if ok x then mismatches_from (S n) ok r else n :: mismatches_from (S n) ok r
  end.
Definition mismatches {A} (ok : A -> bool) (l : list A) : list nat := mismatches_from 0 ok l.
