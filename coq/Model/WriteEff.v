(* WriteEff: vocabulary of the generated WRITE-EFFECT TABLE (Gen/WriteEffects.v, emitted by
   translator/writeeffects.go from the SSA form of the package on every run) and the decidable condition that
   property C12 puts on it.  Definitions only (the inductive relations are the specification the condition is
   proved sound for in Proofs/WriteEffP.v).

   The table lists, for every function / method / function literal / synthetic wrapper of the package,
     - its write statements, each with the ROOTS of the memory it may write:
         RLocal      a variable of the call or memory allocated by the call          class (a)
         RP i d      parameter i (receiver = parameter 0) at depth d: the memory it
                     points to (0), the memory that points to (1), anything deeper (2) class (b)
         RGlobal g   a package-level variable or memory reachable from it             class (c)
         RUnknown    memory of unknown origin; WUnrec = an unrecognised instruction    class (d)
       (a captured variable x of a function literal is two pseudo-parameters after the declared ones:
        "captured &x" is the variable itself, "captured x" its value);
     - its calls, each with the callee and, per callee parameter, the roots of what the argument gives access to,
       level by level (depth 0, 1, 2-and-deeper), in terms of the CALLER's roots.

   The condition follows the roots through the call graph: a NODE (f, RP i d) says "the memory that parameter i of f
   gives access to at depth d may be memory that a read-only entry point was handed".  From the
   read-only parameters of the entry points the nodes are closed under the calls of the table; no node may be
   written (by a write statement of f rooted there, or by a function of another package that writes through an
   argument rooted there).  Independently of parameters, no function reachable from an entry point may write a
   package-level variable or unknown memory, make an unresolved dynamic call, start a goroutine, or call a function
   of another package that is not on the allow-list; and whatever a reachable function passes on from a
   package-level variable becomes a node as well. *)
From Coq Require Import FMapPositive.
From AP.Model Require Import Prelude Bytes.

Inductive root := RLocal | RP (i d : N) | RGlobal (g : N) | RUnknown.

Definition max_depth : N := 2%N.

Inductive wkind :=
| WVar      (* assignment to a variable: a local one that had its address taken, a captured one, a package-level one *)
| WDeref    (* *p = v *)
| WField    (* p.f = v *)
| WIndex    (* s[i] = v *)
| WMap      (* m[k] = v *)
| WAppend   (* append(s, ...): writes the spare capacity of s's array *)
| WCopy | WDelete | WClear | WSend
| WUnrec (what : bytes).

Record wstmt := mkW { w_file : N; w_line : N; w_kind : wkind; w_roots : list root }.

Inductive how := HowCall | HowDefer | HowGo
| HowMake.  (* a function literal is made / a function is used as a value here: whoever runs it hands it memory
               reachable from this function's parameters; its captured variables are bound at this point *)

Inductive callee :=
| CFun (f : N)                             (* a function of the table (index) *)
| CIface (m : bytes) (impls : list N)      (* interface method: the package's implementations *)
| CExt (e : N) (mask smask : list N)       (* function of another package (index into we_externals); the arguments it
                                              is assumed to write through: everything reachable from them (mask),
                                              only what they point to directly (smask: the array a sort permutes) *)
| CCallback (via : list root)              (* a function value that came in as a parameter / captured variable *)
| CGlobalFn (g : N) (init : list N)        (* a package-level function variable (index into we_globals), its initial value *)
| CDynamic.                                (* anything else *)

Definition arg := list (list root).   (* the roots at depth 0, 1, 2 *)
Definition noarg : arg := [].

Record call := mkC { c_file : N; c_line : N; c_how : how; c_callee : callee; c_args : list arg }.

Inductive fkind := FDecl | FLit | FSynth.

Record fn := mkF {
  f_name : bytes; f_recv : bytes; f_ptr : bool; f_exported : bool; f_kind : fkind; f_file : N; f_line : N;
  f_params : list (bytes * bytes);          (* name, type *)
  f_writes : list wstmt;
  f_calls : list call }.

(* ------------------------------------------------------------------ roots and nodes *)

Definition root_eqb (a b : root) : bool :=
  match a, b with
  | RLocal, RLocal => true
  | RP i d, RP j e => N.eqb i j && N.eqb d e
  | RGlobal i, RGlobal j => N.eqb i j
  | RUnknown, RUnknown => true
  | _, _ => false
  end.

Definition mem_root (r : root) (l : list root) : bool := existsb (root_eqb r) l.

(* neither local nor a parameter: package-level or unknown memory *)
Definition outside (r : root) : bool := match r with RGlobal _ | RUnknown => true | _ => false end.

Definition node := (N * root)%type.
Definition node_eqb (a b : node) : bool := N.eqb (fst a) (fst b) && root_eqb (snd a) (snd b).
Definition mem_n (n : node) (L : list node) : bool := existsb (node_eqb n) L.
Definition mem_f (f : N) (L : list N) : bool := existsb (N.eqb f) L.

(* sets of functions / nodes with fast membership (keyed by the function index); only their membership test is
   used, and what it means is proved in Proofs/WriteEffP.v (fset_of_mem, nset_of_mem) *)
Definition fkey (f : N) : positive := N.succ_pos f.
Definition fset := PositiveMap.t unit.
Definition fset_mem (f : N) (M : fset) : bool := match PositiveMap.find (fkey f) M with Some _ => true | None => false end.
Definition fset_add (f : N) (M : fset) : fset := PositiveMap.add (fkey f) tt M.
Definition fset_of (L : list N) : fset := fold_right fset_add (PositiveMap.empty unit) L.

Definition nset := PositiveMap.t (list root).
Definition nset_mem (n : node) (M : nset) : bool :=
  match PositiveMap.find (fkey (fst n)) M with Some l => mem_root (snd n) l | None => false end.
Definition nset_add (n : node) (M : nset) : nset :=
  PositiveMap.add (fkey (fst n)) (snd n :: match PositiveMap.find (fkey (fst n)) M with Some l => l | None => [] end) M.
Definition nset_of (L : list node) : nset := fold_right nset_add (PositiveMap.empty (list root)) L.

Definition arg_all (a : arg) : list root := concat a.
Definition arg_direct (a : arg) : list root := nth 0 a [].

Definition masked_all (mask : list N) (args : list arg) : list root :=
  flat_map (fun k => match nth_error args (N.to_nat k) with Some a => arg_all a | None => [] end) mask.
Definition masked_direct (smask : list N) (args : list arg) : list root :=
  flat_map (fun k => match nth_error args (N.to_nat k) with Some a => arg_direct a | None => [] end) smask.
(* the roots of everything a function of another package may write, given its two masks *)
Definition masked_roots (mask smask : list N) (args : list arg) : list root :=
  masked_all mask args ++ masked_direct smask args.

Fixpoint list_N_eqb (a b : list N) : bool :=
  match a, b with
  | [], [] => true
  | x :: a', y :: b' => N.eqb x y && list_N_eqb a' b'
  | _, _ => false
  end.

Definition name_in (n : bytes) (l : list bytes) : bool := existsb (bytes_eqb n) l.

(* ------------------------------------------------------------------ the call graph of a table *)

Section Table.
  Variable T : list fn.

  Definition fn_at (f : N) : option fn := nth_error T (N.to_nat f).
  Definition calls_of (f : N) : list call := match fn_at f with Some x => f_calls x | None => [] end.
  Definition writes_of (f : N) : list wstmt := match fn_at f with Some x => f_writes x | None => [] end.

  Definition targets (c : call) : list N :=
    match c_callee c with CFun g => [g] | CIface _ l => l | CGlobalFn _ l => l | _ => [] end.

  Definition fn_succ (f : N) : list N := flat_map targets (calls_of f).

  (* parameter k of g receives, at depth d, something that satisfies P *)
  Fixpoint level_edges (P : list root -> bool) (g k : N) (d : N) (levels : list (list root)) : list node :=
    match levels with
    | [] => []
    | l :: rest => (if P l then [(g, RP k d)] else []) ++ level_edges P g k (N.succ d) rest
    end.

  Fixpoint arg_edges (P : list root -> bool) (g : N) (k : N) (args : list arg) : list node :=
    match args with
    | [] => []
    | a :: rest => level_edges P g k 0%N a ++ arg_edges P g (N.succ k) rest
    end.

  Definition call_edges (P : list root -> bool) (c : call) : list node :=
    flat_map (fun g => arg_edges P g 0%N (c_args c)) (targets c).

  Definition node_succ (n : node) : list node :=
    (match snd n with RP i d => if (d <? max_depth)%N then [(fst n, RP i (N.succ d))] else [] | _ => [] end)
    ++ flat_map (call_edges (mem_root (snd n))) (calls_of (fst n)).

  (* what f passes on from package-level / unknown memory *)
  Definition taint_of (f : N) : list node := flat_map (call_edges (existsb outside)) (calls_of f).

  (* the specification: functions reachable from the entry points E by calls of any depth ... *)
  Inductive freach (E : list N) : N -> Prop :=
  | fr_entry : forall f, In f E -> freach E f
  | fr_step : forall f g, freach E f -> In g (fn_succ f) -> freach E g.

  (* ... and nodes reachable from the start nodes S (the read-only parameters of the entry points) and from what a
     reachable function passes on from package-level memory, through argument bindings of any depth *)
  Inductive nreach (E : list N) (S : list node) : node -> Prop :=
  | nr_start : forall n, In n S -> nreach E S n
  | nr_taint : forall f n, freach E f -> In n (taint_of f) -> nreach E S n
  | nr_step : forall n m, nreach E S n -> In m (node_succ n) -> nreach E S m.

  (* ---------------------------------------------------------------- what must not happen *)

  Definition call_writes_root (r : root) (c : call) : bool :=
    match c_callee c with
    | CExt _ mask smask => mem_root r (masked_roots mask smask (c_args c))
    | _ => false
    end.

  (* f writes memory rooted at r: by a statement of its own or through a function of another package *)
  Definition node_bad (n : node) : bool :=
    existsb (fun w => mem_root (snd n) (w_roots w)) (writes_of (fst n))
    || existsb (call_writes_root (snd n)) (calls_of (fst n)).

  Variable Ext Glob : list bytes.
  Definition ext_name (e : N) : bytes := nth (N.to_nat e) Ext [].
  Definition glob_name (g : N) : bytes := nth (N.to_nat g) Glob [].

  Record policy := mkPolicy {
    p_ext : list (bytes * (list N * list N)); (* functions of other packages that may be called, with the two write masks assumed *)
    p_pure : list bytes;             (* packages whose functions take and return strings and numbers only: any function
                                        with one of these prefixes may be called when its assumed write mask is empty *)
    p_hooks : list bytes;            (* package-level function variables that may be called *)
    p_ifaces : list bytes }.         (* interface methods without implementation in the package that may be called *)

  Definition ext_ok (pol : policy) (e : N) (mask smask : list N) : bool :=
    existsb (fun p => bytes_eqb (fst p) (ext_name e) && list_N_eqb (fst (snd p)) mask && list_N_eqb (snd (snd p)) smask) (p_ext pol)
    || (match mask, smask with [], [] => existsb (fun p => is_prefix p (ext_name e)) (p_pure pol) | _, _ => false end).

  Definition call_bad (pol : policy) (c : call) : bool :=
    (match c_how c with HowGo => true | _ => false end)
    || match c_callee c with
       | CFun _ => false
       | CIface m l => match l with [] => negb (name_in m (p_ifaces pol)) | _ => false end
       | CExt e mask smask => negb (ext_ok pol e mask smask) || existsb outside (masked_roots mask smask (c_args c))
       | CCallback _ => existsb (fun a => existsb outside (arg_all a)) (c_args c)
       | CGlobalFn g _ => negb (name_in (glob_name g) (p_hooks pol))
       | CDynamic => true
       end.

  Definition write_bad (w : wstmt) : bool :=
    existsb outside (w_roots w) || match w_kind w with WUnrec _ => true | _ => false end.

  Definition fn_bad (pol : policy) (f : N) : bool :=
    existsb write_bad (writes_of f) || existsb (call_bad pol) (calls_of f).

  (* ---------------------------------------------------------------- the decidable condition *)

  (* depth-first search; its result is CHECKED for closedness below, so nothing is proved about it *)
  Fixpoint dfs {A V : Type} (mem : A -> V -> bool) (add : A -> V -> V) (succ : A -> list A) (fuel : nat)
           (work visited : list A) (vs : V) : list A :=
    match fuel with
    | O => visited
    | S k =>
        match work with
        | [] => visited
        | x :: w => if mem x vs then dfs mem add succ k w visited vs
                    else dfs mem add succ k (succ x ++ w) (x :: visited) (add x vs)
        end
    end.

  Definition closed_f (FR : list N) : bool :=
    let M := fset_of FR in forallb (fun f => forallb (fun g => fset_mem g M) (fn_succ f)) FR.
  Definition closed_n (NR : list node) : bool :=
    let M := nset_of NR in forallb (fun n => forallb (fun m => nset_mem m M) (node_succ n)) NR.

  Definition reach_f (fuel : nat) (E : list N) : list N :=
    dfs fset_mem fset_add fn_succ fuel E [] (PositiveMap.empty unit).
  Definition reach_n (fuel : nat) (E : list N) (S : list node) : list node :=
    dfs nset_mem nset_add node_succ fuel (S ++ flat_map taint_of (reach_f fuel E)) [] (PositiveMap.empty (list root)).

  (* the condition on candidate sets FR (functions) and NR (nodes): they contain the entry points / start nodes,
     are closed under the calls and bindings of the table, and hold no offender *)
  Definition check_sets (pol : policy) (E : list N) (S : list node) (FR : list N) (NR : list node) : bool :=
    let MF := fset_of FR in
    let MN := nset_of NR in
    forallb (fun f => fset_mem f MF) E && closed_f FR && forallb (fun f => negb (fn_bad pol f)) FR
    && forallb (fun n => nset_mem n MN) S && forallb (fun f => forallb (fun n => nset_mem n MN) (taint_of f)) FR
    && closed_n NR && forallb (fun n => negb (node_bad n)) NR.

  Definition check (pol : policy) (fuel : nat) (E : list N) (S : list node) : bool :=
    check_sets pol E S (reach_f fuel E) (reach_n fuel E S).

  (* ---------------------------------------------------------------- entry points, by name *)

  Definition indexed {A : Type} (l : list A) : list (N * A) :=
    (fix go (k : N) (l : list A) := match l with [] => [] | x :: r => (k, x) :: go (N.succ k) r end) 0%N l.

  Definition is_upper (b : byte) : bool := (65 <=? byteN b)%N && (byteN b <=? 90)%N.

  (* "On" / "To", or On / To followed by an upper-case letter *)
  Definition on_to_name (n : bytes) : bool :=
    match n with
    | a :: b :: rest =>
        (bytes_eqb [a; b] (B "On") || bytes_eqb [a; b] (B "To"))
        && match rest with [] => true | c :: _ => is_upper c end
    | _ => false
    end.

  Record entry_spec := mkSpec {
    s_methods : list bytes;       (* exported methods with one of these names *)
    s_funcs : list bytes;         (* exported functions with one of these names *)
    s_prefixes : list bytes;      (* exported functions whose name starts with one of these *)
    s_on_to : bool;               (* the On.. / To.. helpers *)
    s_output_types : list bytes } (* parameters of these types are outputs, not read-only arguments *).

  Definition is_entry (sp : entry_spec) (x : fn) : bool :=
    match f_kind x with
    | FDecl =>
        f_exported x &&
        (match f_recv x with
         | [] => name_in (f_name x) (s_funcs sp) || existsb (fun p => is_prefix p (f_name x)) (s_prefixes sp)
                 || (s_on_to sp && on_to_name (f_name x))
         | _ => name_in (f_name x) (s_methods sp)
         end)
    | _ => false
    end.

  Definition entries (sp : entry_spec) : list N :=
    flat_map (fun p => if is_entry sp (snd p) then [fst p] else []) (indexed T).

  Definition starts_of (sp : entry_spec) (f : N) (x : fn) : list node :=
    flat_map (fun p => if name_in (snd (snd p)) (s_output_types sp) then []
                       else [(f, RP (fst p) 0%N); (f, RP (fst p) 1%N); (f, RP (fst p) 2%N)])
             (indexed (f_params x)).

  Definition starts (sp : entry_spec) : list node :=
    flat_map (fun p => if is_entry sp (snd p) then starts_of sp (fst p) (snd p) else []) (indexed T).

  (* qualified name as ReadOnly.v writes it: Type.Method or Function *)
  Definition qual_name (x : fn) : bytes :=
    match f_recv x with [] => f_name x | r => r ++ B "." ++ f_name x end.

  Definition entry_names (sp : entry_spec) : list bytes :=
    flat_map (fun x => if is_entry sp x then [qual_name x] else []) T.

  (* ---------------------------------------------------------------- diagnosis: the first offender, readable *)

  Definition show (b : bytes) : string := string_of_list_byte b.
  Definition file_name (Files : list bytes) (k : N) : bytes :=
    match k with 0%N => B "?" | _ => nth (N.to_nat (N.pred k)) Files (B "?") end.

  Definition fn_label (f : N) : string :=
    match fn_at f with
    | Some x => show (match f_recv x with [] => f_name x
                                     | r => (if f_ptr x then B "*" ++ r ++ B "." else r ++ B ".") ++ f_name x end)
    | None => "?"%string
    end.

  Inductive offence :=
  | OffWrite (fn : string) (file : string) (line : N) (k : wkind) (roots : list root)      (* (c) / (d) write *)
  | OffCall (fn : string) (file : string) (line : N) (what : string)                       (* call not allowed *)
  | OffParamWrite (fn : string) (r : root) (file : string) (line : N) (what : string)      (* (b) write of a node *)
  | OffNotClosed (what : string).

  Definition callee_label (c : call) : string :=
    match c_callee c with
    | CFun g => fn_label g
    | CIface m _ => show m
    | CExt e _ _ => show (ext_name e)
    | CCallback _ => "call through a function parameter"%string
    | CGlobalFn g _ => show (glob_name g)
    | CDynamic => "unresolved dynamic call"%string
    end.

  Definition first_some {A B : Type} (f : A -> option B) (l : list A) : option B :=
    fold_right (fun x acc => match f x with Some y => Some y | None => acc end) None l.

  Definition fn_offence (Files : list bytes) (pol : policy) (f : N) : option offence :=
    match first_some (fun w => if write_bad w then Some (OffWrite (fn_label f) (show (file_name Files (w_file w))) (w_line w) (w_kind w) (w_roots w)) else None) (writes_of f) with
    | Some o => Some o
    | None => first_some (fun c => if call_bad pol c then Some (OffCall (fn_label f) (show (file_name Files (c_file c))) (c_line c) (callee_label c)) else None) (calls_of f)
    end.

  Definition node_offence (Files : list bytes) (n : node) : option offence :=
    match first_some (fun w => if mem_root (snd n) (w_roots w)
                               then Some (OffParamWrite (fn_label (fst n)) (snd n) (show (file_name Files (w_file w))) (w_line w) "write statement"%string) else None)
                     (writes_of (fst n)) with
    | Some o => Some o
    | None => first_some (fun c => if call_writes_root (snd n) c
                                   then Some (OffParamWrite (fn_label (fst n)) (snd n) (show (file_name Files (c_file c))) (c_line c) (callee_label c)) else None)
                         (calls_of (fst n))
    end.

  Definition first_bad (Files : list bytes) (pol : policy) (fuel : nat) (E : list N) (S : list node) : option offence :=
    let FR := reach_f fuel E in
    let NR := reach_n fuel E S in
    match first_some (fn_offence Files pol) FR with
    | Some o => Some o
    | None =>
        match first_some (node_offence Files) NR with
        | Some o => Some o
        | None => if check_sets pol E S FR NR then None else Some (OffNotClosed "the search ran out of fuel or an entry point is missing"%string)
        end
    end.
End Table.

(* ------------------------------------------------------------------ C12's lists *)

(* read-only entry points (property C12: encoding a value (JSON or gob), comparing, formatting, inspecting,
   viewing through On.. / To..): exported methods with these names on any receiver ... *)
Definition ro_methods : list bytes := [
  B "MarshalJSON"; B "MarshalText"; B "MarshalBinary"; B "GobEncode";            (* encoding, both codecs *)
  B "Equals"; B "ItemsMatch"; B "Contains";                                      (* comparing *)
  B "Format"; B "String";                                                        (* formatting *)
  B "IsLink"; B "IsObject"; B "IsCollection"; B "GetType"; B "GetID"; B "GetLink"; (* type predicates, getters *)
  B "Count"; B "Collection"; B "First"; B "Get"; B "IRIs"; B "Normalize"; B "URL"].

(* ... exported functions with these names, the On.. / To.. helpers (themselves: a call through their function
   parameter is not followed), and the exported JSONWrite.. functions (their *[]byte parameter is the output) *)
Definition ro_funcs : list bytes := [
  B "IsNil"; B "NotEmpty"; B "DerefItem"; B "IsIRI"; B "IsIRIs"; B "IsItemCollection"; B "IsLink"; B "IsObject";
  B "ItemsEqual"; B "ItemOrderTimestamp"; B "MarshalJSON"; B "GobEncode"; B "ErrorInvalidType"].

Definition ro_spec : entry_spec :=
  mkSpec ro_methods ro_funcs [B "JSONWrite"] true [B "*[]byte"; B "fmt.State"].

(* decoding entry points ("decode independent inputs concurrently"): they write through their receiver, so no
   parameter of theirs is a start node; what is demanded of them is the function-level part (no package-level
   state, no unknown memory, allow-listed calls only) and that nothing they pass on from a package-level
   variable is written *)
Definition dec_spec : entry_spec :=
  mkSpec [B "UnmarshalJSON"; B "UnmarshalText"; B "UnmarshalBinary"; B "GobDecode"]
         [B "UnmarshalJSON"; B "GobDecode"; B "GetItemByType"]
         [B "JSONLoad"; B "JSONGet"; B "JSONUnmarshal"] false [].

(* functions of other packages a read-only operation may call, with the arguments they are assumed to write
   through (receiver = argument 0).  The pair must match what the translator assumed (translator/writeeffects.go,
   extSpecs): (name, (arguments written through to any depth, arguments of which only the memory they point to is
   written)).  Deliberately absent: sync.Pool, sync.Map, anything of math/rand, os, time.Now. *)
Definition ext_allowed_ro : list (bytes * (list N * list N)) := [
  (* a bytes.Buffer / strings.Builder (must be local or an output parameter: argument 0 is written) *)
  (B "*bytes.Buffer.Write", ([0%N], [])); (B "*bytes.Buffer.WriteByte", ([0%N], [])); (B "*bytes.Buffer.WriteRune", ([0%N], []));
  (B "*bytes.Buffer.WriteString", ([0%N], [])); (B "*bytes.Buffer.Bytes", ([], [])); (B "*bytes.Buffer.Len", ([], []));
  (B "*bytes.Buffer.String", ([], []));
  (B "*strings.Builder.Write", ([0%N], [])); (B "*strings.Builder.WriteString", ([0%N], [])); (B "*strings.Builder.WriteRune", ([0%N], []));
  (B "*strings.Builder.String", ([], []));
  (* bytes / strings / strconv / utf8: read their arguments *)
  (B "bytes.Equal", ([], [])); (B "bytes.ReplaceAll", ([], [])); (B "bytes.NewReader", ([], [])); (B "bytes.EqualFold", ([], []));
  (B "bytes.Compare", ([], [])); (B "bytes.Contains", ([], [])); (B "bytes.HasPrefix", ([], [])); (B "bytes.HasSuffix", ([], []));
  (B "bytes.Index", ([], [])); (B "bytes.IndexByte", ([], [])); (B "bytes.LastIndex", ([], [])); (B "bytes.Count", ([], []));
  (B "bytes.ToLower", ([], [])); (B "bytes.ToUpper", ([], [])); (B "bytes.Join", ([], [])); (B "bytes.Repeat", ([], [])); (B "bytes.Clone", ([], []));
  (B "bytes.TrimSpace", ([], [])); (B "bytes.Trim", ([], [])); (B "bytes.TrimPrefix", ([], [])); (B "bytes.TrimSuffix", ([], []));
  (B "*bytes.Buffer.Reset", ([0%N], [])); (B "*bytes.Buffer.Grow", ([0%N], [])); (B "*bytes.Buffer.Truncate", ([0%N], []));
  (B "*strings.Builder.WriteByte", ([0%N], [])); (B "*strings.Builder.Len", ([], [])); (B "bytes.NewBuffer", ([], []));
  (* sorting: in place on argument 0, which therefore has to be local *)
  (B "sort.Slice", ([], [0%N])); (B "sort.SliceStable", ([], [0%N])); (B "sort.Sort", ([], [0%N])); (B "sort.Stable", ([], [0%N]));
  (B "sort.Strings", ([], [0%N])); (B "sort.Ints", ([], [0%N])); (B "sort.Reverse", ([], [])); (B "slices.Sort", ([], [0%N]));
  (B "slices.SortFunc", ([], [0%N])); (B "slices.Contains", ([], [])); (B "slices.Index", ([], [])); (B "slices.Equal", ([], [])); (B "slices.Clone", ([], []));
  (B "strings.Contains", ([], [])); (B "strings.EqualFold", ([], [])); (B "strings.Index", ([], [])); (B "strings.Split", ([], []));
  (B "strings.Trim", ([], [])); (B "strings.TrimRight", ([], [])); (B "strings.ToLower", ([], [])); (B "strings.HasPrefix", ([], []));
  (B "strings.HasSuffix", ([], [])); (B "strings.Join", ([], [])); (B "strings.TrimSuffix", ([], [])); (B "strings.TrimPrefix", ([], []));
  (B "strconv.AppendInt", ([], [0%N])); (B "strconv.AppendFloat", ([], [0%N])); (B "strconv.Itoa", ([], [])); (B "strconv.FormatInt", ([], []));
  (B "strconv.FormatFloat", ([], [])); (B "strconv.Quote", ([], []));
  (B "strconv.AppendUint", ([], [0%N])); (B "strconv.AppendQuote", ([], [0%N])); (B "strconv.AppendBool", ([], [0%N]));
  (B "unicode/utf8.AppendRune", ([], [0%N])); (B "unicode/utf8.EncodeRune", ([], [0%N]));
  (* fmt: writes to the writer / state it is given (argument 0 of Fprintf); formats operands through their own
     Format / String / Error methods *)
  (B "fmt.Sprintf", ([], [])); (B "fmt.Sprint", ([], [])); (B "fmt.Sprintln", ([], [])); (B "fmt.Errorf", ([], [])); (B "fmt.Fprintf", ([0%N], []));
  (B "fmt.Fprint", ([0%N], [])); (B "fmt.Fprintln", ([0%N], [])); (B "io.WriteString", ([0%N], []));
  (B "errors.New", ([], [])); (B "github.com/go-ap/errors.Newf", ([], []));
  (* encoding/gob on a local buffer; encoding/json and jsonld call the MarshalJSON methods *)
  (B "encoding/gob.NewEncoder", ([], [])); (B "*encoding/gob.Encoder.Encode", ([0%N], []));
  (B "encoding/json.Marshal", ([], [])); (B "github.com/go-ap/jsonld.Marshal", ([], []));
  (* time values *)
  (B "time.Time.After", ([], [])); (B "time.Time.Equal", ([], [])); (B "time.Time.Format", ([], [])); (B "time.Time.GobEncode", ([], []));
  (B "time.Time.IsZero", ([], [])); (B "time.Time.UTC", ([], [])); (B "time.Time.Before", ([], [])); (B "time.Time.Sub", ([], [])); (B "time.Time.Year", ([], []));
  (B "time.Duration.Seconds", ([], []));
  (* reflect, to look at a value *)
  (B "reflect.ValueOf", ([], [])); (B "reflect.TypeOf", ([], [])); (B "reflect.TypeFor[*T]", ([], [])); (B "reflect.Value.Kind", ([], []));
  (B "reflect.Value.IsNil", ([], [])); (B "reflect.Value.IsValid", ([], [])); (B "reflect.Value.Convert", ([], []));
  (B "reflect.Value.Interface", ([], []));
  (* URLs and paths: strings in, fresh values out *)
  (B "net/url.Parse", ([], [])); (B "net/url.ParseRequestURI", ([], [])); (B "*net/url.URL.Query", ([], [])); (B "*net/url.URL.String", ([], []));
  (B "path/filepath.Clean", ([], [])); (B "path/filepath.Split", ([], [])); (B "path/filepath.Join", ([], [])); (B "path.Clean", ([], []))].

(* strings in, strings / numbers out (the translator gives these an empty write mask, except for strconv.Append..) *)
Definition pure_prefixes : list bytes := [B "strings."; B "strconv."; B "unicode."; B "unicode/utf8."; B "math."].

(* the decoders additionally parse with a fastjson parser / a gob decoder of their own *)
Definition ext_allowed_dec : list (bytes * (list N * list N)) := ext_allowed_ro ++ [
  (B "*github.com/valyala/fastjson.Parser.ParseBytes", ([0%N], []));
  (B "*github.com/valyala/fastjson.Value.Get", ([], [])); (B "*github.com/valyala/fastjson.Value.GetStringBytes", ([], []));
  (B "*github.com/valyala/fastjson.Value.GetArray", ([], [])); (B "*github.com/valyala/fastjson.Value.GetFloat64", ([], []));
  (B "*github.com/valyala/fastjson.Value.GetInt64", ([], [])); (B "*github.com/valyala/fastjson.Value.Type", ([], []));
  (B "*github.com/valyala/fastjson.Value.Exists", ([], [])); (B "*github.com/valyala/fastjson.Value.Bool", ([], []));
  (B "*github.com/valyala/fastjson.Value.Object", ([], [])); (B "*github.com/valyala/fastjson.Value.String", ([], []));
  (B "*github.com/valyala/fastjson.Value.GetObject", ([], [])); (B "*github.com/valyala/fastjson.Value.GetInt", ([], []));
  (B "*github.com/valyala/fastjson.Value.GetBool", ([], [])); (B "*github.com/valyala/fastjson.Value.StringBytes", ([], []));
  (B "*github.com/valyala/fastjson.Object.Visit", ([], [])); (B "*github.com/valyala/fastjson.Object.Get", ([], []));
  (B "encoding/gob.NewDecoder", ([], [])); (B "*encoding/gob.Decoder.Decode", ([0%N; 1%N], []));
  (B "*time.Time.UnmarshalText", ([0%N], [])); (B "*time.Time.GobDecode", ([0%N], [])); (B "*time.Time.UnmarshalBinary", ([0%N], []));
  (B "time.Parse", ([], []));
  (B "git.sr.ht/~mariusor/go-xsd-duration.Unmarshal", ([1%N], []))].

(* the package-level function variables an application may set (decoding_json.go); the condition follows their
   initial value and checks (hooks_never_written) that no function of the package assigns them *)
Definition hook_globals : list bytes := [B "ItemTyperFunc"; B "JSONItemUnmarshal"; B "IsNotEmpty"].

(* interface methods implemented outside the package only *)
Definition iface_allowed : list bytes := [B "error.Error"; B "reflect.Type.ConvertibleTo"; B "reflect.Type.Kind"; B "reflect.Type.Elem"].

(* no function of the table other than the package initialiser writes one of the hook variables *)
Definition hooks_never_written (T : list fn) (Glob : list bytes) : bool :=
  forallb (fun x =>
    bytes_eqb (f_name x) (B "init") ||
    forallb (fun w => forallb (fun r => match r with RGlobal g => negb (name_in (nth (N.to_nat g) Glob []) hook_globals) | _ => true end) (w_roots w))
            (f_writes x)) T.

(* ------------------------------------------------------------------ the function-level view

   Which reachable functions have a class (b) entry at all: on the pinned tree every parameter such a function
   writes through is an OUTPUT by its declared type, or a captured variable of the enclosing function (the literal
   assigns to its maker's local variable).  This is weaker than the node condition (which follows the actual
   bindings), is NOT an obligation (a harmless refactor that builds a local list with ItemCollection.Append makes
   Append such a function) and is kept for the reader and the report; the store-level footprint theorems of
   Model/Effects.v cover the [store_modelled] ones among them. *)
Definition output_param_types : list bytes := [
  B "*[]byte"; B "fmt.State"; B "*bytes.Buffer"; B "*gob.Encoder"; B "map[string][]byte"; B "io.Writer"].

Definition written_params (x : fn) : list N :=
  flat_map (fun w => flat_map (fun r => match r with RP i _ => [i] | _ => [] end) (w_roots w)) (f_writes x)
  ++ flat_map (fun c => match c_callee c with
                        | CExt _ mask smask => flat_map (fun r => match r with RP i _ => [i] | _ => [] end) (masked_roots mask smask (c_args c))
                        | _ => [] end) (f_calls x).

Definition param_is_output (x : fn) (i : N) : bool :=
  match nth_error (f_params x) (N.to_nat i) with
  | Some (nm, ty) => name_in ty output_param_types || is_prefix (B "captured ") nm
  | None => false
  end.

Definition writers_classified (T : list fn) (FR : list N) : bool :=
  forallb (fun f => match nth_error T (N.to_nat f) with
                    | Some x => forallb (param_is_output x) (written_params x)
                    | None => true end) FR.

Definition param_writers (T : list fn) (FR : list N) : list N :=
  filter (fun f => match nth_error T (N.to_nat f) with
                   | Some x => match written_params x with [] => false | _ => true end
                   | None => false end) FR.

(* the functions modelled at store level in Model/Effects.v, with the operation of Effects.v that models them *)
Inductive store_op :=
| SBuf (tag : bytes)     (* a constructor of Effects.bufop: writes through the output buffer, parameter 0 *)
| SVal (tag : bytes)     (* a constructor of Effects.valop: returns a value, writes fresh memory only *)
| SLeaf.                 (* folded into its callers' models (stringBytes = one append of JsonLeaf.string_bytes) *)

Definition store_modelled : list (bytes * store_op) := [
  (B "JSONWrite", SBuf (B "BWrite")); (B "JSONWriteS", SBuf (B "BWrite")); (B "JSONWriteComma", SBuf (B "BComma"));
  (B "JSONWritePropName", SBuf (B "BPropName")); (B "JSONWriteValue", SBuf (B "BValue"));
  (B "JSONWriteProp", SBuf (B "BProp")); (B "JSONWriteStringValue", SBuf (B "BStringValue"));
  (B "JSONWriteNaturalLanguageProp", SBuf (B "BNlvProp"));
  (B "escapeQuote", SVal (B "VEscapeQuote")); (B "unescape", SVal (B "VUnescape"));
  (B "LangRefValue.MarshalJSON", SVal (B "VLrvMarshal")); (B "NaturalLanguageValues.MarshalJSON", SVal (B "VNlvMarshal"));
  (B "stringBytes", SLeaf); (B "NaturalLanguageValues.Count", SLeaf); (B "Content.Equals", SLeaf)].

Definition find_fn (T : list fn) (q : bytes) : option (N * fn) :=
  find (fun p => bytes_eqb (qual_name (snd p)) q && match f_kind (snd p) with FDecl => true | _ => false end) (indexed T).

(* what the table must say about a store-modelled function for the two descriptions to agree:
   - a buffer operation has a first parameter of type *[]byte and writes nothing but local memory and that buffer
     (parameter 0 at any depth), by its own statements or through functions of other packages;
   - it hands the buffer on only as the buffer (argument 0) of another modelled buffer operation: no code outside
     the store-level model gets to write the output buffer on its behalf;
   - a value operation writes local memory only (its bytes.Buffer arguments to stringBytes are its own);
   - the leaf stringBytes writes through its *bytes.Buffer parameter only.
   What else these functions call (helpers that take and return values) is covered by the node condition like any
   other code; the list is not closed under calls on purpose - a helper extracted from one of them (tagAsRead out
   of NaturalLanguageValues.MarshalJSON, as happened) must not break the tie. *)
(* local memory, or parameters among [allowed] at any depth *)
Definition roots_within (allowed : list N) (l : list root) : bool :=
  forallb (fun r => match r with RLocal => true | RP i _ => existsb (N.eqb i) allowed | _ => false end) l.

Definition mentions_param (i : N) (l : list root) : bool :=
  existsb (fun r => match r with RP j _ => N.eqb i j | _ => false end) l.

Definition is_modelled_bufop (T : list fn) (g : N) : bool :=
  match nth_error T (N.to_nat g) with
  | Some y => match find (fun e => bytes_eqb (fst e) (qual_name y)) store_modelled with
              | Some (_, SBuf _) => true
              | _ => false end
  | None => false
  end.

Definition store_fn_ok (T : list fn) (Ext : list bytes) (entry : bytes * store_op) : bool :=
  match find_fn T (fst entry) with
  | None => false
  | Some (_, x) =>
      let allowed := match snd entry with
                     | SBuf _ => [0%N]
                     | SVal _ => []
                     | SLeaf => match f_params x with (_, ty) :: _ => if bytes_eqb ty (B "*bytes.Buffer") then [0%N] else [] | [] => [] end
                     end in
      (match snd entry with SBuf _ => match f_params x with (_, ty) :: _ => bytes_eqb ty (B "*[]byte") | [] => false end | _ => true end)
      && forallb (fun w => roots_within allowed (w_roots w) && negb (write_bad w)) (f_writes x)
      && forallb (fun c =>
           match c_callee c with
           | CExt e mask smask => roots_within allowed (masked_roots mask smask (c_args c))
           | CFun g =>
               match snd entry with
               | SBuf _ =>
                   (* the buffer goes nowhere but into argument 0 of a modelled buffer operation *)
                   match c_args c with
                   | [] => true
                   | a :: rest =>
                       (negb (mentions_param 0%N (arg_all a)) || is_modelled_bufop T g)
                       && forallb (fun b => negb (mentions_param 0%N (arg_all b))) rest
                   end
               | _ => true
               end
           | CIface _ _ | CCallback _ | CGlobalFn _ _ =>
               match snd entry with
               | SBuf _ => forallb (fun a => negb (mentions_param 0%N (arg_all a))) (c_args c)
               | _ => true
               end
           | CDynamic => false
           end) (f_calls x)
  end.

Definition store_modelled_ok (T : list fn) (Ext : list bytes) : bool := forallb (store_fn_ok T Ext) store_modelled.
