(* WriteEffInst: the condition of Model/WriteEff.v instantiated with the table generated from the source on this
   run (Gen/WriteEffects.v) and with C12's lists of entry points.  Definitions only. *)
From AP.Model Require Import Prelude WriteEff ReadOnly.
From AP.Gen Require Import WriteEffects.

Definition we_fuel : nat := N.to_nat 400000%N.

Definition pol_ro : policy := mkPolicy ext_allowed_ro pure_prefixes hook_globals iface_allowed.
Definition pol_dec : policy := mkPolicy ext_allowed_dec pure_prefixes hook_globals iface_allowed.

(* the read-only entry points of the generated table and their read-only parameters *)
Definition we_entries : list N := entries we_table ro_spec.
Definition we_starts : list node := starts we_table ro_spec.
Definition we_dec_entries : list N := entries we_table dec_spec.

Definition we_check_ro : bool := check we_table we_externals we_globals pol_ro we_fuel we_entries we_starts.
Definition we_check_dec : bool := check we_table we_externals we_globals pol_dec we_fuel we_dec_entries [].

Definition we_first_bad_ro : option offence :=
  first_bad we_table we_externals we_globals we_files pol_ro we_fuel we_entries we_starts.
Definition we_first_bad_dec : option offence :=
  first_bad we_table we_externals we_globals we_files pol_dec we_fuel we_dec_entries [].

(* every name that Model/ReadOnly.v counts as a read-only operation is an entry point here *)
Definition we_entry_names : list bytes := entry_names we_table ro_spec.
Definition read_only_ops_are_entries : bool := forallb (fun n => name_in n we_entry_names) read_only_ops.

(* the functions reachable from the read-only entry points / the nodes *)
Definition we_reach_f : list N := reach_f we_table we_fuel we_entries.
Definition we_reach_n : list node := reach_n we_table we_fuel we_entries we_starts.

Definition we_writers_classified : bool := writers_classified we_table we_reach_f.
Definition we_param_writer_names : list string := map (fn_label we_table) (param_writers we_table we_reach_f).

(* index of a declared function by its qualified name *)
Definition we_index (q : bytes) : N := match find_fn we_table q with Some (k, _) => k | None => 0%N end.

(* ------------------------------------------------------------------ small hand-written tables (witnesses)

   T_filter: an encoder method M(col) that hands its receiver to a helper; the helper filters nil members in place
   (items := col[:0]; items = append(items, it)) - the shape of the seeded change C12-4.
     0  M       (receiver col)   calls helper(col)
     1  helper  (col)            append rooted at its parameter 0 *)
Definition ex_spec : entry_spec := mkSpec [B "M"] [] [] false [].

Definition T_filter : list fn := [
  mkF (B "M") (B "L") false true FDecl 1 1 [(B "col", B "L")] []
      [mkC 1 2 HowCall (CFun 1%N) [[[RP 0%N 0%N]; [RP 0%N 1%N]; [RP 0%N 2%N]]]];
  mkF (B "helper") [] false false FDecl 1 5 [(B "col", B "L")]
      [mkW 1 7 WAppend [RP 0%N 0%N]] []].

(* T_copy: the same helper copying first (items := make(L, 0, len(col)); append(items, it)): local writes only *)
Definition T_copy : list fn := [
  mkF (B "M") (B "L") false true FDecl 1 1 [(B "col", B "L")] []
      [mkC 1 2 HowCall (CFun 1%N) [[[RP 0%N 0%N]; [RP 0%N 1%N]; [RP 0%N 2%N]]]];
  mkF (B "helper") [] false false FDecl 1 5 [(B "col", B "L")]
      [mkW 1 7 WAppend [RLocal]] []].

(* T_pool: an encoder taking its scratch buffer from a package-level sync.Pool (the shape of C12-5) *)
Definition T_pool : list fn := [
  mkF (B "M") (B "L") false true FDecl 1 1 [(B "n", B "L")] []
      [mkC 1 3 HowCall (CExt 0%N [0%N] []) [[[RGlobal 0%N]; [RGlobal 0%N]; [RGlobal 0%N]]]]].

Definition ex_check (T : list fn) : bool :=
  check T [B "*sync.Pool.Get"] [B "pool"] pol_ro 100 (entries T ex_spec) (starts T ex_spec).
Definition ex_first_bad (T : list fn) : option offence :=
  first_bad T [B "*sync.Pool.Get"] [B "pool"] [B "x.go"] pol_ro 100 (entries T ex_spec) (starts T ex_spec).

(* ------------------------------------------------------------------ the translator's fixture

   translator/wefixture.go holds one small function per SHAPE of write; it is analysed on every run by the same
   code as the package and emitted as fx_table.  What every function must come out as: *)
Inductive xroot := XP (i d : N) | XGlobal (g : bytes) | XUnknown.

Definition xroot_eqb (a b : xroot) : bool :=
  match a, b with
  | XP i d, XP j e => N.eqb i j && N.eqb d e
  | XGlobal g, XGlobal h => bytes_eqb g h
  | XUnknown, XUnknown => true
  | _, _ => false
  end.

Definition xroots_of (l : list root) : list xroot :=
  flat_map (fun r => match r with
                     | RLocal => []
                     | RP i d => [XP i d]
                     | RGlobal g => [XGlobal (nth (N.to_nat g) fx_globals [])]
                     | RUnknown => [XUnknown]
                     end) l.

(* the roots, other than local ones, of everything a function writes itself or through another package *)
Definition fx_written (x : fn) : list xroot :=
  xroots_of (flat_map w_roots (f_writes x)
             ++ flat_map (fun c => match c_callee c with CExt _ m sm => masked_roots m sm (c_args c) | _ => [] end) (f_calls x)).

Definition same_xroots (a b : list xroot) : bool :=
  forallb (fun r => existsb (xroot_eqb r) b) a && forallb (fun r => existsb (xroot_eqb r) a) b.

Definition fixture_expect : list (bytes * list xroot) := [
  (* class (a): local variables, memory allocated by the call, a value receiver's own copy, a pointer receiver
     that is only read, a bytes.Buffer of its own, sorting a copy *)
  (B "localOnly", []); (B "appendFresh", []); (B "T.valueRecvField", []); (B "T.readOnly", []); (B "structCopy", []);
  (B "bufLocal", []); (B "sortCopy", []); (B "caller", []); (B "callerFresh", []); (B "callback", []);
  (* class (b) *)
  (B "throughPointer", [XP 0%N 0%N]);       (* *p = v *)
  (B "T.setField", [XP 0%N 0%N]);           (* t.F = v on a pointer receiver *)
  (B "T.valueRecvSlice", [XP 0%N 0%N]);     (* t.S[0] = v on a VALUE receiver: the array is shared *)
  (B "indexStore", [XP 0%N 0%N]);           (* s[i] = v *)
  (B "resliceAppend", [XP 0%N 0%N]);        (* s = s[:0]; append(s, v) *)
  (B "spliceOut", [XP 0%N 0%N]);            (* append(s[:i], s[i+1:]...) *)
  (B "mapWrite", [XP 0%N 0%N]); (B "mapDelete", [XP 0%N 0%N]);
  (B "copyInto", [XP 0%N 0%N]);             (* copy(dst, src): dst only *)
  (B "deepField", [XP 0%N 1%N]);             (* t.P.F = v *)
  (B "deepSlice", [XP 0%N 1%N]);             (* t.S[0] = v through a pointer *)
  (B "viaAlias", [XP 0%N 0%N]);             (* q := t; q.F = v *)
  (B "viaStructCopy", [XP 0%N 1%N]);         (* c := *t; c.S[0] = v : the copy shares the array *)
  (B "chanSend", [XP 0%N 0%N]);
  (B "sortParam", [XP 0%N 0%N]);            (* sort.Ints(s) *)
  (B "closureWrites$1", [XP 1%N 0%N]);      (* a literal writing s[0] of its captured s *)
  (B "handsLiteral$1", [XP 0%N 0%N; XP 1%N 0%N]);
  (B "coll.add", [XP 0%N 0%N; XP 0%N 1%N]);  (* *c = append( *c, x): the slice header and the array *)
  (B "localCollection", []); (B "freshFromCallee", []);
  (B "writesReturnedElement", [XP 0%N 1%N]); (* first(s).F = v : the callee's summary says what it returns *)
  (* class (c) *)
  (B "globalWrite", [XGlobal (B "G")]); (B "globalSlice", [XGlobal (B "GS")]); (B "globalPointee", [XGlobal (B "GP")]);
  (* class (d) *)
  (B "unsafeInt", [XUnknown])].

Definition fx_find (q : bytes) : option (N * fn) :=
  find (fun p => bytes_eqb (qual_name (snd p)) q) (indexed fx_table).

Definition fixture_roots_ok : bool :=
  forallb (fun e => match fx_find (fst e) with
                    | Some (_, x) => same_xroots (fx_written x) (snd e)
                    | None => false end) fixture_expect.

(* end to end: each fixture function taken as the only read-only entry point, all its parameters read-only *)
Definition fx_all : entry_spec := mkSpec [] [] [] false [].
Definition fx_accepts (q : bytes) : bool :=
  match fx_find q with
  | Some (k, x) => check fx_table fx_externals fx_globals pol_ro 2000 [k] (starts_of fx_all k x)
  | None => false
  end.

Definition fixture_accepted : list bytes := [
  B "localOnly"; B "appendFresh"; B "T.valueRecvField"; B "T.readOnly"; B "structCopy"; B "bufLocal"; B "sortCopy";
  B "callerFresh"; B "callback"; B "withLocal";
  B "handsLiteral";    (* its literal writes through its parameter, which the helper binds to a local variable *)
  B "localCollection"; (* a local container of the elements that came in, filled by a pointer-receiver method *)
  B "freshFromCallee"].

Definition fixture_refused : list bytes := [
  B "throughPointer"; B "T.setField"; B "T.valueRecvSlice"; B "indexStore"; B "resliceAppend"; B "spliceOut"; B "mapWrite";
  B "mapDelete"; B "copyInto"; B "deepField"; B "deepSlice"; B "viaAlias"; B "viaStructCopy"; B "chanSend"; B "sortParam";
  B "closureWrites";                         (* through the literal it makes and calls *)
  B "caller"; B "callerDeep";                (* through a static call, the argument passed on directly / from one level down *)
  B "ifaceCall";                             (* through an interface method: the package's implementation *)
  B "globalWrite"; B "globalSlice"; B "globalPointee";
  B "globalPassed";                          (* hands a package-level variable to a function that writes its parameter *)
  B "fillsArgument"; B "writesReturnedElement";
  B "unsafeInt"].

Definition fixture_ok : bool :=
  fixture_roots_ok && forallb fx_accepts fixture_accepted && forallb (fun q => negb (fx_accepts q)) fixture_refused.
