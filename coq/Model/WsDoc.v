(* WsDoc.v - JSON documents with the white space written at every gap (property C06, fastjson side).

   Text.v models the fastjson parser (fj_parse) and TextP.v proves that it reads back the documents the text
   writers print, which contain no white space and only strings and objects.  This file describes ALL JSON
   texts the parser is meant to read: every kind of value, and an arbitrary run of white space at every place
   where JSON allows it.  A [wt] is a parse tree that remembers the white space; [wprint] writes it out,
   [strip] forgets the white space and gives the tree fastjson is expected to build.  Proofs/WsParseP.v proves
   fj_parse (pre ++ wprint t ++ post) = Ok (strip t), hence that the white space is insignificant.

   Definitions only. *)
From AP.Model Require Import Prelude Nlv Text.

(* one member of an object:    ws_before_key "rawkey" ws_before_colon : ws_after_colon v ws_after_value
   The record is parametric in the type of the value so that [wt] below is an ordinary nested inductive (no
   mutual block); [wmember] is its instance at [wt], the constructor is [WM] with the six fields in the order
   of writing. *)
Record wmem (A : Type) := WM {
  wm_ws_before_key : bytes;
  wm_rawkey : bytes;
  wm_ws_before_colon : bytes;
  wm_ws_after_colon : bytes;
  wm_v : A;
  wm_ws_after_value : bytes }.
Arguments WM {A} _ _ _ _ _ _.
Arguments wm_ws_before_key {A} _.
Arguments wm_rawkey {A} _.
Arguments wm_ws_before_colon {A} _.
Arguments wm_ws_after_colon {A} _.
Arguments wm_v {A} _.
Arguments wm_ws_after_value {A} _.

(* a JSON document with the white space written at every gap.
   WArr / WObj: [inner] is the white space between the brackets of an EMPTY container (it is not printed when
   there are elements); per array element: white space before, the element, white space after. *)
Inductive wt :=
| WStr (raw : bytes)                                  (* the text between the quotes, as written *)
| WNum (tok : bytes)
| WTrue | WFalse | WNull
| WArr (inner : bytes) (l : list (bytes * wt * bytes))
| WObj (inner : bytes) (ms : list (wmem wt)).
Definition wmember := wmem wt.

(* ------------------------------------------------------------------ forgetting the white space *)
Fixpoint strip (t : wt) : fjv :=
  match t with
  | WStr raw => FStr raw
  | WNum tok => FNum tok
  | WTrue => FTrue
  | WFalse => FFalse
  | WNull => FNull
  | WArr _ l => FArr (map (fun x : bytes * wt * bytes => strip (snd (fst x))) l)
  | WObj _ ms => FObj (map (fun m : wmem wt => (wm_rawkey m, strip (wm_v m))) ms)
  end.

(* ------------------------------------------------------------------ printing *)
(* items separated by commas: wjoin [x1; x2; x3] = x1 , x2 , x3 *)
Fixpoint wsep (l : list bytes) : bytes :=
  match l with
  | [] => []
  | x :: r => bCM :: x ++ wsep r
  end.
Definition wjoin (l : list bytes) : bytes :=
  match l with
  | [] => []
  | x :: r => x ++ wsep r
  end.

Definition welem_bytes (pr : wt -> bytes) (x : bytes * wt * bytes) : bytes :=
  fst (fst x) ++ pr (snd (fst x)) ++ snd x.
Definition wmem_bytes (pr : wt -> bytes) (m : wmem wt) : bytes :=
  wm_ws_before_key m ++ bQ :: wm_rawkey m ++ bQ :: wm_ws_before_colon m ++ bCO :: wm_ws_after_colon m
    ++ pr (wm_v m) ++ wm_ws_after_value m.

Fixpoint wprint (t : wt) : bytes :=
  match t with
  | WStr raw => bQ :: raw ++ [bQ]
  | WNum tok => tok
  | WTrue => B "true"
  | WFalse => B "false"
  | WNull => B "null"
  | WArr inner l =>
      bLK :: match l with [] => inner | _ :: _ => wjoin (map (welem_bytes wprint) l) end ++ [bRK]
  | WObj inner ms =>
      bLB :: match ms with [] => inner | _ :: _ => wjoin (map (wmem_bytes wprint) ms) end ++ [bRB]
  end.

(* nesting depth as parseValue counts it: a scalar needs one level *)
Fixpoint wdepth (t : wt) : nat :=
  match t with
  | WArr _ l => S (fold_right (fun (x : bytes * wt * bytes) m => Nat.max (wdepth (snd (fst x))) m) 0 l)
  | WObj _ ms => S (fold_right (fun (x : wmem wt) m => Nat.max (wdepth (wm_v x)) m) 0 ms)
  | _ => 1
  end.

(* ------------------------------------------------------------------ well-formedness *)
(* white space: exactly the four bytes skipWS skips (space, LF, TAB, CR) - the JSON white space *)
Definition wf_ws (w : bytes) : bool := forallb is_ws w.

(* the text of a string or key: bytes other than quote and backslash, and backslash-byte pairs, so that the
   first unprotected quote behind it is the closing one.  Same function as TextP.raw_ok (Model files do not
   import Proofs; WsParseP.raw_closed_ok proves the two equal). *)
Fixpoint raw_closed (e : bytes) : bool :=
  match e with
  | [] => true
  | c :: r => if Byte.eqb c bQ then false
              else if Byte.eqb c bBS then match r with [] => false | _ :: r1 => raw_closed r1 end
              else raw_closed r
  end.

(* number tokens: parseRawNumber takes the longest run of [0-9.eE+-] bytes, whatever its shape (the digits are
   only looked at when the number is used), and rejects an empty run and a run that is only a sign when a
   byte that is not a number byte follows it.
   Two things fastjson also returns as numbers are deliberately NOT in wf_num (see WsParseP, section
   "number tokens", for the facts):
   - a lone "-" or "+" is accepted at the very end of the input (tail = []), but "- " or "-," is an error;
   - the non-JSON tokens inf / nan (any case, optional sign) are accepted. *)
Definition is_sign (b : byte) : bool := Byte.eqb b x2d || Byte.eqb b x2b.
Definition wf_num (tok : bytes) : bool :=
  match tok with
  | [] => false
  | c :: r => forallb is_numch tok && (negb (is_sign c) || Nat.leb 1 (length r))
  end.

Definition wf_elem (f : wt -> bool) (x : bytes * wt * bytes) : bool :=
  wf_ws (fst (fst x)) && f (snd (fst x)) && wf_ws (snd x).
Definition wf_mem (f : wt -> bool) (m : wmem wt) : bool :=
  wf_ws (wm_ws_before_key m) && raw_closed (wm_rawkey m) && wf_ws (wm_ws_before_colon m)
  && wf_ws (wm_ws_after_colon m) && f (wm_v m) && wf_ws (wm_ws_after_value m).

Fixpoint wf_wt (t : wt) : bool :=
  match t with
  | WStr raw => raw_closed raw
  | WNum tok => wf_num tok
  | WTrue | WFalse | WNull => true
  | WArr inner l => wf_ws inner && forallb (wf_elem wf_wt) l
  | WObj inner ms => wf_ws inner && forallb (wf_mem wf_wt) ms
  end.

(* ------------------------------------------------------------------ the decoration without white space *)
Fixpoint wt_of_fjv (v : fjv) : wt :=
  match v with
  | FObj kvs => WObj [] (map (fun kv : bytes * fjv => WM [] (fst kv) [] [] (wt_of_fjv (snd kv)) []) kvs)
  | FArr l => WArr [] (map (fun e : fjv => ([], wt_of_fjv e, [])) l)
  | FStr raw => WStr raw
  | FNum tok => WNum tok
  | FTrue => WTrue
  | FFalse => WFalse
  | FNull => WNull
  end.
