(* xsd.Unmarshal of git.sr.ht/~mariusor/go-xsd-duration (v0.0.0-20220703122237-02e73435a078, the version /repo pins)
   AS THE CODE IS, on ALL byte strings: Unmarshal, loadUintVal, parseTagWithValue, validTag, validByteForFloats,
   get{Time,Date}BaseDuration, with strconv.ParseInt(.., 10, 32) and strconv.ParseFloat(.., 32) on the texts that can
   reach them (only the bytes + , - . 0-9 pass validByteForFloats).  Every index expression `data[i]` of the Go source
   is an explicit read [rd] that is a Panic outcome when the index is not below len(data).

   Positions.  The code walks `data` with an index `pos`; the model carries the SUFFIX data[pos:] instead, so
   `data[pos]` is the head of the suffix and `pos >= len(data)` is "the suffix is empty" (pos never exceeds len(data):
   it only moves by `pos++` after a successful read of data[pos], or to `cnt + 1` for an index cnt < len(data) that
   loadUintVal has just read).

   What the code does, which the xsd:duration grammar does not say (all of it compared with the real function by
   Cases_C04_xsd on every run):
   - "-" alone: `data[pos]` after the sign is read without a length test: index out of range.  The ONLY panic.
   - the loop stops when at most ONE byte is left behind a designator: that byte is never looked at ("P1YX" = "P1Y");
     the test for trailing bytes after the loop can therefore never fire.
   - a number that strconv refuses ("", "+", "1,5", "1.2.3", more than 2^31-1, a float32 overflow) counts 0 and is NOT
     an error: "PY", "P,D", "PT.S" are durations of 0.
   - "T" is skipped in front of EVERY item, any number of times one per item ("PT1HT1M"); a date designator behind
     a T, or H in front of it, multiplies by the base 0 ("P1H" = 0); S is seconds on either side ("P1S" = 1 s).
   - the sign test `d.v < 0` is on the PRODUCT: "P-0Y" is accepted, "P300Y" (356 days a year, past 2^63 ns, wraps
     negative) is refused with "the minus sign must appear first", "P600Y" wraps positive and is accepted.
   - seconds go through a float32 ("PT0.1S" = 100000001 ns); float64 -> int64 of a product past 2^63 is, on amd64,
     the minimum int64 (CVTTSD2SQ's indefinite value): negative, so refused.  (Platform-dependent in the Go spec.) *)
From AP.Model Require Import Prelude Bytes JsonLeaf.
Open Scope Z_scope.

(* `data[pos]` on the suffix at pos *)
Definition rd (s : bytes) : outcome byte := match s with [] => Panic IndexOutOfRange | b :: _ => Ok b end.

Definition xwrap64 (z : Z) : Z := (z + 2 ^ 63) mod 2 ^ 64 - 2 ^ 63.     (* int64 arithmetic wraps *)

Definition x_isdigit (b : byte) : bool := ((48 <=? byteN b) && (byteN b <=? 57))%N.
(* validByteForFloats: + , - . and the digits *)
Definition valid_float_byte (b : byte) : bool := (((43 <=? byteN b) && (byteN b <=? 46)) || ((48 <=? byteN b) && (byteN b <=? 57)))%N.
(* validTag: Y M D H M S *)
Definition valid_tag (b : byte) : bool :=
  Byte.eqb b x59 || Byte.eqb b x4d || Byte.eqb b x44 || Byte.eqb b x48 || Byte.eqb b x53.

Definition xsecond : Z := 1000000000.
Definition xminute : Z := 60 * xsecond.
Definition xhour : Z := 60 * xminute.
Definition xday : Z := 24 * xhour.
Definition time_base (b : byte) : Z :=
  if Byte.eqb b x48 then xhour else if Byte.eqb b x4d then xminute else if Byte.eqb b x53 then xsecond else 0.
Definition date_base (b : byte) : Z :=
  if Byte.eqb b x59 then 356 * xday else if Byte.eqb b x4d then 30 * xday else if Byte.eqb b x44 then xday else 0.

(* the value of a string of decimal digits *)
Fixpoint dec_val (s : bytes) (acc : Z) : Z :=
  match s with [] => acc | b :: r => dec_val r (acc * 10 + (Z.of_N (byteN b) - 48)) end.

Definition split_sign (s : bytes) : bool * bytes :=
  match s with
  | b :: r => if Byte.eqb b x2b then (false, r) else if Byte.eqb b x2d then (true, r) else (false, s)
  | [] => (false, [])
  end.

(* strconv.ParseInt(s, 10, 32): None = an error (syntax or range) *)
Definition parse_int32 (s : bytes) : option Z :=
  match s with
  | [] => None
  | _ =>
      let '(neg, ds) := split_sign s in
      match ds with
      | [] => None
      | _ => if forallb x_isdigit ds then
               let n := dec_val ds 0 in
               if neg then (if n <=? 2 ^ 31 then Some (- n) else None)
               else (if n <? 2 ^ 31 then Some n else None)
             else None
      end
  end.

(* the digits of strconv's readFloat over the bytes that reach it: digits with at most one point among them;
   (ip, fp, rest): the digits in front of the point, behind it, and what the loop stopped at *)
Fixpoint float_digits (s : bytes) (sawdot : bool) (ip fp : bytes) : bytes * bytes * bytes :=
  match s with
  | [] => (rev ip, rev fp, [])
  | c :: r =>
      if Byte.eqb c x2e then (if sawdot then (rev ip, rev fp, s) else float_digits r true ip fp)
      else if x_isdigit c then (if sawdot then float_digits r sawdot ip (c :: fp) else float_digits r sawdot (c :: ip) fp)
      else (rev ip, rev fp, s)
  end.

(* time.Duration(float64(time.Second) * v) for the float32 v nearest to p / q (p, q > 0): the product is exact in
   float64 (24 bits times the 21 bits of 1e9 = 1953125 * 2^9), the conversion truncates; None = the float32 overflows
   (ParseFloat returns +Inf and ErrRange); a product from 2^63 on converts to the minimum int64 *)
Definition f32_nanos (p q : Z) : option Z :=
  let '(m, e) := rn32 p q in
  if 104 <? e then None
  else let x := if 0 <=? e then m * 2 ^ e * 1000000000 else m * 1000000000 / 2 ^ (- e) in
       Some (if x <? 2 ^ 63 then x else - 2 ^ 63).

(* the d.v of a seconds item: strconv.ParseFloat(s, 32), then the product; None = ParseFloat returned an error *)
Definition parse_sec_nanos (s : bytes) : option Z :=
  let '(neg, ds) := split_sign s in
  let '(ip, fp, rest) := float_digits ds false [] [] in
  match rest, ip ++ fp with
  | _ :: _, _ => None                      (* parsed prefix shorter than the text: syntax error *)
  | [], [] => None                         (* no digit *)
  | [], _ =>
      let p := dec_val (ip ++ fp) 0 in
      if p =? 0 then Some 0                (* +0 or -0: 0 ns *)
      else match f32_nanos p (10 ^ Z.of_nat (length fp)) with
           | Some x => Some (if neg then (if x =? - 2 ^ 63 then x else - x) else x)
           | None => None
           end
  end.

(* parseTagWithValue(data, start, tagPos, isTime) on num = data[start:tagPos], tag = data[tagPos]:
   None = "the minus sign must appear first in the duration" *)
Definition tag_value (num : bytes) (tag : byte) (is_time : bool) : option Z :=
  let v := if Byte.eqb tag x53 then match parse_sec_nanos num with Some x => x | None => 0 end
           else match parse_int32 num with
                | Some n => xwrap64 ((if is_time then time_base tag else date_base tag) * n)
                | None => 0
                end in
  if v <? 0 then None else Some v.

(* loadUintVal(data, start, isTime): the scan; Some (data[start:i], data[i], data[i+1:]) at the first designator,
   None = an error (a byte that is neither a designator nor one of + , - . 0-9, or the end of the data) *)
Fixpoint load_uint (s : bytes) (acc : bytes) : option (bytes * byte * bytes) :=
  match s with
  | [] => None
  | c :: r => if valid_tag c then Some (rev acc, c, r)
              else if valid_float_byte c then load_uint r (c :: acc)
              else None
  end.

(* the `for` loop of Unmarshal, entered with pos < len(data); returns the sum and the suffix at the final pos *)
Fixpoint xsd_loop (fuel : nat) (is_time : bool) (s : bytes) (duration : Z) : outcome (Z * bytes) :=
  match fuel with
  | O => OutOfFuel
  | S f =>
      obind (rd s) (fun b =>                                        (* data[pos] == tagTime *)
      let '(s1, is_time1) := if Byte.eqb b x54 then (tl s, true) else (s, is_time) in
      match load_uint s1 [] with
      | None => Err
      | Some (num, tag, rest) =>                                    (* rest = data[cnt+1:] *)
          match tag_value num tag is_time1 with
          | None => Err
          | Some v =>
              let duration' := xwrap64 (duration + v) in
              if Nat.leb (length rest) 1 then Ok (duration', rest)  (* pos+1 >= onePastEnd *)
              else xsd_loop f is_time1 rest duration'
          end
      end)
  end.

(* behind the loop: the sign, the test for bytes left over, the store (d is never nil here) *)
Definition xsd_finish (negative : bool) (p : Z * bytes) : outcome Z :=
  let '(duration, rest) := p in
  let duration := if negative then xwrap64 (duration * -1) else duration in
  if Nat.ltb 1 (length rest) then Err                               (* onePastEnd > pos+1 *)
  else Ok duration.

Definition xsd_unmarshal (data : bytes) : outcome Z :=
  match data with
  | [] => Err                                                       (* len(data) == 0 *)
  | b0 :: _ =>                                                      (* data[0] *)
      let negative := Byte.eqb b0 x2d in
      let s1 := if negative then tl data else data in               (* pos++ *)
      obind (rd s1) (fun b =>                                       (* data[pos] != tagDuration: NO length test *)
      if negb (Byte.eqb b x50) then Err
      else let s2 := tl s1 in
           match s2 with
           | [] => Err                                              (* pos >= onePastEnd *)
           | _ =>
               obind (xsd_loop (length s2) false s2 0) (xsd_finish negative)
           end)
  end.

(* /repo decoding_json.go parseDuration: xsd.Unmarshal under recover; Ok None = ok false *)
Definition parse_duration (s : bytes) : outcome (option Z) :=
  match xsd_unmarshal s with
  | Ok d => Ok (Some d)
  | Err => Ok None
  | Panic _ => Ok None                     (* recovered: d, ok = 0, false *)
  | OutOfFuel => OutOfFuel
  end.

(* JSONGetDuration on the text of the property: `len(str) > 0`, then parseDuration *)
Definition json_get_duration (s : bytes) : outcome Z :=
  match s with
  | [] => Ok 0
  | _ => obind (parse_duration s) (fun r => Ok (match r with Some d => d | None => 0 end))
  end.

(* the pinned tree (before "fix: a document with duration - made every JSON decoder panic"): no recover *)
Definition json_get_duration_pinned (s : bytes) : outcome Z :=
  match s with
  | [] => Ok 0
  | _ => match xsd_unmarshal s with
         | Ok d => Ok d
         | Err => Ok 0
         | Panic p => Panic p
         | OutOfFuel => OutOfFuel
         end
  end.

(* the total reader the decoder model uses: the nanoseconds JSONGetDuration returns *)
Definition read_duration (s : bytes) : Z := match json_get_duration s with Ok d => d | _ => 0 end.
