(* The acceptance condition of asIRI (decoding_json.go, as repaired) as the decoder model has it since the URL grammar
   was widened: a JSON string is read as an IRI exactly when its text (no quote, backslash or byte < 0x20: those are
   outside the model) reads  scheme "://" authority rawpath ["?" query] ["#" fragment]  with
     - scheme  ALPHA *( ALPHA / DIGIT / "+" / "-" / "." ),
     - no control byte before the "#",
     - authority without "/", "?", "#", accepted by url.parseAuthority (UrlU.parse_authority: an optional userinfo up to
       the LAST "@" made of the bytes url.validUserinfo allows, with well-formed escapes; then the host: bytes >= 0x80,
       "%XX" of bytes >= 0x80, "%25", the ASCII bytes url.shouldEscape leaves alone in host mode, an optional ":" digits
       port - or an IP literal "[" ... "]" [":" digits] with an RFC 6874 zone), decoding to a NON-EMPTY host
       (UrlUP.parse_authority_struct spells out what an accepted authority looks like),
     - rawpath empty or beginning with "/", without "?" and "#", every "%" followed by two hex digits,
     - a fragment whose "%" are followed by two hex digits.
   The model extends the test of the plain grammar (Model/Url.v): as_iri_of_plain.
   PINNED TREE: asIRI called url.ParseRequestURI, for which "#" is an ordinary byte: "scheme://host#fragment" put the
   "#" into the host and was refused (as_iri_pinned_refuted; fix: commit). *)
From AP.Model Require Import Prelude Bytes Url IriEq IriNf Vocab Pred CollIri IriNfX Utf8 FoldTab Fold UrlU IriEqU Text JsonDec.
From AP.Proofs Require Import NlvP LowerP IriEqP SortP IriGenP IriNfP IriXP CollIriP Utf8P FoldP DecodeUP CleanUP UrlUP QueryUP IriGenUP IriUP CollIriUP ConservUP.

Record iri_reading (s sch au rp : bytes) (qo fo : option bytes) : Prop := {
  ir_string : s = (sch ++ B "://" ++ au ++ rp ++ tail_of qmark qo) ++ tail_of hash fo;
  ir_nohash : notin hash (sch ++ B "://" ++ au ++ rp ++ tail_of qmark qo) = true;
  ir_scheme : forallb is_scheme_char sch = true;
  ir_alpha : match sch with c0 :: _ => is_alpha c0 = true | [] => False end;
  ir_noctl : existsb is_ctl (sch ++ B "://" ++ au ++ rp ++ tail_of qmark qo) = false;
  ir_auth_noslash : notin slash au = true;
  ir_noq : notin qmark (au ++ rp) = true;
  ir_auth : exists user h, parse_authority au = Some (user, h) /\ h <> [];
  ir_path_root : rp = [] \/ exists p, rp = slash :: p;
  ir_path_dec : exists d, pct_decode rp = Some d;
  ir_frag_dec : frag_fields fo <> None
}.

Theorem as_iri_accepts raw sch au rp qo fo :
  fj_has_special (fj_unescape raw) = false -> iri_reading (fj_unescape raw) sch au rp qo fo ->
  as_iri (FStr raw) = Some (Some (fj_unescape raw)).
Proof.
  intros Hsp R. unfold as_iri. rewrite Hsp.
  destruct (ir_auth _ _ _ _ _ _ R) as [user [h [PA Hne]]]. destruct (ir_path_dec _ _ _ _ _ _ R) as [d Dp].
  pose proof (parse_u_auth sch au rp qo fo user h d (ir_scheme _ _ _ _ _ _ R) (ir_alpha _ _ _ _ _ _ R) (ir_noctl _ _ _ _ _ _ R)
                (ir_nohash _ _ _ _ _ _ R) (ir_auth_noslash _ _ _ _ _ _ R) (ir_noq _ _ _ _ _ _ R) PA
                (ir_path_root _ _ _ _ _ _ R) Dp) as PU.
  rewrite <- (ir_string _ _ _ _ _ _ R) in PU.
  pose proof (ir_alpha _ _ _ _ _ _ R) as A.
  assert (fj_unescape raw <> []) as NE.
  { rewrite (ir_string _ _ _ _ _ _ R). destruct sch; [destruct A|discriminate]. }
  rewrite (classify_u_unfold _ NE), PU.
  pose proof (ir_frag_dec _ _ _ _ _ _ R) as F. destruct (frag_fields fo) as [[fd rf]|]; [|congruence].
  cbn [uu_scheme uu_host]. rewrite lower_nonempty. destruct sch; [destruct A|]. destruct h; [congruence|]. reflexivity.
Qed.

Theorem as_iri_accepted raw s :
  as_iri (FStr raw) = Some (Some s) ->
  s = fj_unescape raw /\ fj_has_special s = false /\
  exists u sch up rh rp qo fo, url_classify_u s = UValid u /\ ustruct s sch up rh rp qo fo /\
    u_scheme u = lower sch /\ pct_decode rh = Some (u_host u) /\ parse_host rh = Some (u_host u) /\ u_host u <> [] /\
    pct_decode rp = Some (u_path u) /\ u_query u = opt_or_nil qo.
Proof.
  unfold as_iri. destruct (fj_has_special (fj_unescape raw)) eqn:Hsp; [discriminate|].
  destruct (url_classify_u (fj_unescape raw)) as [u| |] eqn:C; try discriminate.
  intros H. inversion H; subst s. split; [reflexivity|]. split; [exact Hsp|].
  destruct (classify_u_full _ u C) as [sch [up [rh [rp [qo [fo [S [E1 [E2 [E3 [E4 [_ [PH [_ [_ Hne]]]]]]]]]]]]]]].
  exists u, sch, up, rh, rp, qo, fo. auto 10.
Qed.

(* ---- the model extends the test of the plain grammar (what the decoder model used before) ---- *)
Lemma plain_alphabets_not_special_all :
  forallb (fun b => implb (is_scheme_char b || hostp b || is_rawpath_char b || is_query_char b || is_frag_char b
                           || Byte.eqb b colon || Byte.eqb b slash || Byte.eqb b qmark || Byte.eqb b hash)
                          (negb (Byte.eqb b x22 || Byte.eqb b x5c || (byteN b <? 32)%N))) all_bytes = true.
Proof. vm_compute. reflexivity. Qed.

Lemma no_special_class (P : byte -> bool) s :
  (forall b, P b = true -> is_scheme_char b || hostp b || is_rawpath_char b || is_query_char b || is_frag_char b
                           || Byte.eqb b colon || Byte.eqb b slash || Byte.eqb b qmark || Byte.eqb b hash = true) ->
  forallb P s = true -> fj_has_special s = false.
Proof.
  intros HP. unfold fj_has_special. induction s as [|x s IH]; [reflexivity|]. cbn [forallb existsb]. rewrite andb_true_iff. intros [Hx Hs].
  rewrite (IH Hs), orb_false_r. pose proof (sweep _ plain_alphabets_not_special_all x) as S. cbv beta in S.
  rewrite (HP x Hx) in S. apply negb_true_iff. exact S.
Qed.

Lemma fj_has_special_app a b : fj_has_special (a ++ b) = fj_has_special a || fj_has_special b.
Proof. unfold fj_has_special. apply existsb_app. Qed.

Lemma classify_x_no_special s u : url_classify_x s = UValid u -> fj_has_special s = false.
Proof.
  unfold url_classify_x. destruct (url_parse_x s) as [x| |] eqn:P; try discriminate.
  destruct (nonempty (x_scheme x)) eqn:N1; [|discriminate]. destruct (nonempty (x_host x)) eqn:N2; [|discriminate].
  intros _.
  destruct (parse_x_facts s x P N1 N2) as [sch [rp [qo [fo [Es [Nh [Ctl [Hsch [Ha [Hh [Hp [Hroot [Hq [Hf _]]]]]]]]]]]]]].
  rewrite Es, !fj_has_special_app.
  rewrite (no_special_class is_scheme_char sch (fun b H => ltac:(rewrite H; reflexivity)) Hsch).
  rewrite (no_special_class hostp (x_host x) (fun b H => ltac:(rewrite H, !orb_true_r; reflexivity)) (host_ok_hostp _ Hh)).
  rewrite (no_special_class is_rawpath_char rp (fun b H => ltac:(rewrite H, !orb_true_r; reflexivity)) Hp).
  assert (fj_has_special (tail_of qmark qo) = false) as ->.
  { destruct qo as [q|]; [|reflexivity]. change (tail_of qmark (Some q)) with ([qmark] ++ q). rewrite fj_has_special_app.
    rewrite (no_special_class is_query_char q (fun b H => ltac:(rewrite H, !orb_true_r; reflexivity)) Hq). reflexivity. }
  assert (fj_has_special (tail_of hash fo) = false) as ->.
  { destruct fo as [f|]; [|reflexivity]. change (tail_of hash (Some f)) with ([hash] ++ f). rewrite fj_has_special_app.
    rewrite (no_special_class is_frag_char f (fun b H => ltac:(rewrite H, !orb_true_r; reflexivity)) Hf). reflexivity. }
  reflexivity.
Qed.

(* every string the plain grammar accepts as an absolute URL is an IRI for the model *)
Theorem as_iri_of_plain raw u : url_classify (fj_unescape raw) = UValid u ->
  as_iri (FStr raw) = Some (Some (fj_unescape raw)).
Proof.
  intros H. pose proof (classify_x_conservative _ _ H) as X.
  unfold as_iri. rewrite (classify_x_no_special _ _ X), (classify_u_of_x _ _ X). reflexivity.
Qed.

(* ---- the pinned tree ---- *)
Theorem as_iri_pinned_refuted : exists raw u,
  url_classify (fj_unescape raw) = UValid u /\                       (* an absolute URL, even of the plain grammar *)
  as_iri_pinned (FStr raw) = Some None /\ as_iri (FStr raw) = Some (Some (fj_unescape raw)).
Proof. exists (B "https://example.com#me"). eexists. repeat split; vm_compute; reflexivity. Qed.

(* what the widening buys: values the model abstained on before *)
Example as_iri_wide_examples :
  url_classify (hx "68747470733a2f2f6578616d706c652e636f6d2f75736572732f6ac3bc7267656e") = UUnmodelled /\
  as_iri (FStr (hx "68747470733a2f2f6578616d706c652e636f6d2f75736572732f6ac3bc7267656e")) = Some (Some (hx "68747470733a2f2f6578616d706c652e636f6d2f75736572732f6ac3bc7267656e")) /\
  as_iri (FStr (B "https://example.com/a%20b?q=%C3%A9&r=a+b")) = Some (Some (B "https://example.com/a%20b?q=%C3%A9&r=a+b")) /\
  as_iri (FStr (B "https://example.com/a b")) = Some (Some (B "https://example.com/a b")) /\
  as_iri (FStr (B "https://example.com/%zz")) = Some None /\
  as_iri (FStr (B "https://example.com/p?q#%zz")) = Some None /\
  as_iri (FStr (B "https://u@example.com/")) = Some (Some (B "https://u@example.com/")) /\
  as_iri (FStr (B "https://[::1]/")) = Some (Some (B "https://[::1]/")) /\
  as_iri (FStr (B "https://u:p@[fe80::1%25eth0]:8443/x")) = Some (Some (B "https://u:p@[fe80::1%25eth0]:8443/x")) /\
  as_iri (FStr (B "https://u@/x")) = Some None /\ as_iri (FStr (B "https://[::1/x")) = Some None.
Proof. repeat split; vm_compute; reflexivity. Qed.
