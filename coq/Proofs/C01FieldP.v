(* C01, layer (c): field level, generic over the tables.
   For a field f of Go type ty, a write entry e and a read entry r related by the decidable condition [pair_ok]
   (same term, path [f], writer and getter of the type, guards that hold for every set value of the type,
   conversion of the type), reading with r's getter what e's writer wrote gives back the field's value in its
   normal form when the field is set, and the zero value when it is not. *)
From AP.Model Require Import Prelude Bytes Vocab Pred Url IriEq Nlv Json Text Equal Coll Dispatch Layout JsonTables JsonLeaf
     JsonEnc JsonTree JsonCheck JsonDec JsonNorm JsonRoundCheck.
From AP.Proofs Require Import NlvP TextP C01NumP C01TimeP C01StrP C01TreeP C01ParseP C01TreeWfP C01FlatP C01ItemP.
From AP.Proofs Require TimeRangeP.
Local Open Scope nat_scope.

(* ------------------------------------------------------------------ guards *)
Lemma fid_beq_eq a b : fid_beq a b = true -> a = b.
Proof. apply internal_fid_dec_bl. Qed.
Lemma fid_beq_refl a : fid_beq a a = true.
Proof. apply internal_fid_dec_lb. reflexivity. Qed.

Section Field.
  Variable jw_tables : list (bytes * bool * list wstmt).
  Variable jr_tables : list (bytes * list rstmt).
  Variable layout_of : kind -> list fdecl.
  Variable registry load_switch : bytes -> option kind.
  Variable activity_types actor_types link_types : list bytes.
  Variable li : fjv -> option item.
  Variable g : nat.
  Variable fe : nat.

  Notation tr := (tree_item jw_tables).
  Notation wf := (wf_item layout_of registry load_switch activity_types actor_types link_types).
  Notation wfv := (wf_fval layout_of registry load_switch activity_types actor_types link_types).
  Notation nrm := (norm_item layout_of).
  Notation nrmv := (norm_fval layout_of).
  Notation itree := (item_tree jw_tables layout_of registry load_switch activity_types actor_types link_types g).
  Notation eok := (elems_ok layout_of registry load_switch activity_types actor_types link_types g).

  Hypothesis HEo : forall f p k fs o, wf (IObj p k fs) = true -> ddepth (IObj p k fs) <= g ->
    tr f (IObj p k fs) = Some o -> exists kvs, o = Some (FObj kvs).
  Hypothesis HLo : forall f p k fs kvs, wf (IObj p k fs) = true -> ddepth (IObj p k fs) <= g ->
    tr f (IObj p k fs) = Some (Some (FObj kvs)) -> li (FObj kvs) = Some (nrm (IObj p k fs)).
  Hypothesis HLs : forall raw s, 1 <= g -> as_iri (Text.FStr raw) = Some (Some s) -> li (Text.FStr raw) = Some (IIri false s).
  Hypothesis HKo : forall f p k fs kvs, wf (IObj p k fs) = true -> ddepth (IObj p k fs) <= g ->
    tr f (IObj p k fs) = Some (Some (FObj kvs)) -> tree_ok (2 * ddepth (IObj p k fs) + 1) (FObj kvs).
  Hypothesis HDo : forall f p k fs kvs, wf (IObj p k fs) = true -> ddepth (IObj p k fs) <= g ->
    tr f (IObj p k fs) = Some (Some (FObj kvs)) -> ddepth (IObj p k fs) <= S (fdepth (FObj kvs)).

  (* the struct-valued Go types: their values are written and read by tables of their own (Proofs/C01LeafP.v) *)
  Definition leafless (ty : gotype) : bool := match ty with TSource | TEndpoints | TPubKey => false | _ => true end.

  (* a set, well-formed value passes every guard that fits its type *)
  Lemma guard_pass ty f fs v b gd : getf f fs = Some v -> wfv ty v = true -> guard_fits ty f gd = true -> b <> [] ->
    eval_guard fs b gd = Some true.
  Proof.
    intros Hg Hw Hf Hb. destruct gd as [f'|f'|f'|f'|f'| |src]; cbn [guard_fits] in Hf; try discriminate;
      try (apply andb_true_iff in Hf; destruct Hf as [Hff Hty]; apply fid_beq_eq in Hff; subst f'; cbn [eval_guard]; rewrite Hg).
    - destruct ty; try discriminate; destruct v as [i|[l|]|[l|]| | | | | | | | |[e|]| ]; try discriminate; try reflexivity.
      destruct i; try discriminate; reflexivity.
    - destruct ty; try discriminate; destruct v as [i|[[|x l]|]|[[|x l]|]|[|c s]| | | | | | | | | ]; try discriminate; reflexivity.
    - destruct ty; try discriminate. destruct v; try discriminate. cbn [g_not_zero_time]. f_equal.
      cbn [wf_fval] in Hw. unfold time_ok in Hw. rewrite !andb_true_iff in Hw. destruct Hw as [_ Hz].
      unfold vtime_is_zero. apply negb_true_iff in Hz. rewrite Hz. reflexivity.
    - destruct ty; try discriminate; destruct v; try discriminate; cbn [num_of wf_fval] in *; f_equal.
      + unfold dur_ok in Hw. rewrite !andb_true_iff in Hw. tauto.
      + apply andb_true_iff in Hw. destruct Hw as [Hp _]. apply N.ltb_lt in Hp. apply negb_true_iff. apply Z.eqb_neq. lia.
      + rewrite !andb_true_iff in Hw. tauto.
      + rewrite !andb_true_iff in Hw. tauto.
    - destruct ty; try discriminate. destruct v; try discriminate. cbn [num_of wf_fval] in *. f_equal.
      apply andb_true_iff in Hw. destruct Hw as [Hp _]. apply N.ltb_lt in Hp. apply Z.ltb_lt. lia.
    - cbn [eval_guard]. destruct b; [congruence|reflexivity].
    - rewrite !andb_true_iff in Hf. destruct Hf as [[Hsrc Hff] Hty]. apply fid_beq_eq in Hff. subst f.
      cbn [eval_guard]. rewrite Hsrc, Hg. destruct ty; try discriminate. destruct v as [ | | | | | | | | | | | |id ow pem]; try discriminate.
      cbn [wf_fval] in Hw. rewrite !andb_true_iff, negb_true_iff in Hw. destruct Hw as [_ Hne]. cbn [pubkey_guard].
      destruct id, ow, pem; try reflexivity. discriminate.
  Qed.

  Lemma guards_pass ty f fs v b gs : getf f fs = Some v -> wfv ty v = true -> forallb (guard_fits ty f) gs = true -> b <> [] ->
    eval_guards fs b gs = Some true.
  Proof.
    intros Hg Hw Hf Hb. induction gs as [|gd r IH]; [reflexivity|]. cbn [forallb] in Hf. apply andb_true_iff in Hf.
    destruct Hf as [H1 H2]. cbn [eval_guards]. rewrite (guard_pass ty f fs v b gd Hg Hw H1 Hb). exact (IH H2).
  Qed.

  Lemma forallb_filter {A} (P Q : A -> bool) l : forallb P l = true -> forallb P (filter Q l) = true.
  Proof.
    induction l as [|x r IH]; [reflexivity|]. cbn [forallb filter]. rewrite andb_true_iff. intros [H1 H2].
    destruct (Q x); [cbn [forallb]; rewrite H1; exact (IH H2)|exact (IH H2)].
  Qed.

  (* an unset field fails every guard on it *)
  Lemma guards_unset ty f fs b gs : getf f fs = None -> forallb (guard_fits ty f) gs = true ->
    eval_guards fs b (filter nonval gs) = Some (match filter nonval gs with [] => true | _ => false end).
  Proof.
    intros Hg Hf. induction gs as [|gd r IH]; [reflexivity|]. cbn [forallb] in Hf. apply andb_true_iff in Hf.
    destruct Hf as [H1 H2]. cbn [filter].
    destruct gd as [f'|f'|f'|f'|f'| |src]; cbn [nonval guard_fits] in *; try discriminate; try exact (IH H2).
    1-5: (apply andb_true_iff in H1; destruct H1 as [Hff _]; apply fid_beq_eq in Hff; subst f';
          cbn [eval_guards eval_guard]; rewrite Hg; reflexivity).
    rewrite !andb_true_iff in H1. destruct H1 as [[Hsrc Hff] _]. apply fid_beq_eq in Hff. subst f.
    cbn [eval_guards eval_guard]. rewrite Hsrc, Hg. reflexivity.
  Qed.

  (* ---------------------------------------------------------------- lookups in the written object *)
  Lemma fj_get_plain ku kvs key : forallb (fun kv => key_plain (fst kv)) kvs = true -> key_plain key = true ->
    fj_get ku (FObj kvs) key = find_key (fun k => k) kvs key.
  Proof.
    intros Hk Hq. unfold fj_get. rewrite (plain_no_bs key Hq). rewrite (find_key_unescape_plain kvs key Hk).
    destruct ku; cbn [negb andb]; [reflexivity|]. destruct (find_key (fun k => k) kvs key); reflexivity.
  Qed.

  Lemma key_plain_map t : key_plain t = true -> key_plain (t ++ B "Map") = true.
  Proof. unfold key_plain. intros H. rewrite forallb_app, H. reflexivity. Qed.

  Lemma bytes_eqb_app_ne (t s : bytes) : s <> [] -> bytes_eqb (t ++ s) t = false.
  Proof.
    intros Hs. destruct (bytes_eqb (t ++ s) t) eqn:E; [|reflexivity]. apply bytes_eqb_eq in E.
    exfalso. apply Hs. apply (f_equal (@length byte)) in E. rewrite app_length in E. destruct s; [reflexivity|simpl in E; lia].
  Qed.
  Lemma bytes_eqb_app_ne' (t s : bytes) : s <> [] -> bytes_eqb t (t ++ s) = false.
  Proof.
    intros Hs. destruct (bytes_eqb t (t ++ s)) eqn:E; [|reflexivity]. apply bytes_eqb_eq in E.
    exfalso. apply Hs. apply (f_equal (@length byte)) in E. rewrite app_length in E. destruct s; [reflexivity|simpl in E; lia].
  Qed.

  (* ---------------------------------------------------------------- getters, one unfolding each *)
  Lemma gv_item d val term conv : get_value jr_tables li (S d) val (B "JSONGetItem") term conv =
    match jget_item li val term with Some INil => Some None | Some i => Some (Some (FItem i)) | None => None end.
  Proof. reflexivity. Qed.
  Lemma gv_uri d val term conv : get_value jr_tables li (S d) val (B "JSONGetURIItem") term conv =
    match jget_uri_item li val term with Some INil => Some None | Some i => Some (Some (FItem i)) | None => None end.
  Proof. reflexivity. Qed.
  Lemma gv_items d val term conv : get_value jr_tables li (S d) val (B "JSONGetItems") term conv =
    match jget_items li val term with Some None => Some None | Some l => Some (Some (FItems l)) | None => None end.
  Proof. reflexivity. Qed.
  Lemma gv_nlv d val term conv : get_value jr_tables li (S d) val (B "JSONGetNaturalLanguageField") term conv =
    match cut_byte x2e term with
    | (a, Some b) =>
        match jget val a with
        | None => Some None
        | Some s => match get_nl_field false s b with
                    | Some ((_ :: _) as l) => Some (Some (FNlv (Some l)))
                    | _ => Some None
                    end
        end
    | (_, None) => match get_nl_field false val term with
                   | Some l => Some (Some (FNlv (Some l)))
                   | None => Some None
                   end
    end.
  Proof. reflexivity. Qed.
  Lemma gv_time d val term conv : get_value jr_tables li (S d) val (B "JSONGetTime") term conv =
    match parse_rfc3339 (jstr (jget val term)) with
    | Some (Some t) => Some (Some (FTime t))
    | Some None => Some None
    | None => None
    end.
  Proof. reflexivity. Qed.
  Lemma gv_dur d val term conv : get_value jr_tables li (S d) val (B "JSONGetDuration") term conv =
    match parse_xsd_duration (jstr (jget val term)) with Some 0%Z => Some None | Some d => Some (Some (FDur d)) | None => None end.
  Proof. reflexivity. Qed.
  Lemma gv_int d val term conv : get_value jr_tables li (S d) val (B "JSONGetInt") term conv =
    match get_int64 (jget val term) with
    | Some z => Some (if (z =? 0)%Z then None else Some (if bytes_eqb conv (B "uint") then FUint (uint_of z) else FInt z))
    | None => None
    end.
  Proof. reflexivity. Qed.
  Lemma gv_float d val term conv : get_value jr_tables li (S d) val (B "JSONGetFloat") term conv =
    match get_float_micro (jget val term) with Some 0%Z => Some None | Some m => Some (Some (FFloat m)) | None => None end.
  Proof. reflexivity. Qed.
  Lemma gv_bool d val term conv : get_value jr_tables li (S d) val (B "JSONGetBoolean") term conv =
    Some (match jget val term with Some FTrue => Some (FBool true) | _ => None end).
  Proof. reflexivity. Qed.
  Definition str_getters := [B "JSONGetID"; B "JSONGetType"; B "JSONGetMimeType"; B "JSONGetString"; B "JSONGetIRI"; B "JSONGetLangRefField"].
  Lemma gv_str d val gt term conv : In gt str_getters -> get_value jr_tables li (S d) val gt term conv =
    Some (match jstr (sub_get val term) with [] => None | s => Some (Vocab.FStr s) end).
  Proof. intros H. simpl in H. repeat (destruct H as [<-|H]; [reflexivity|]). destruct H. Qed.

  Lemma existsb_in0 (gt : bytes) l : existsb (bytes_eqb gt) l = true -> In gt l.
  Proof.
    induction l as [|x r IH]; [discriminate|]. cbn [existsb]. rewrite orb_true_iff. intros [H|H].
    - left. symmetry. apply bytes_eqb_eq. exact H.
    - right. exact (IH H).
  Qed.

  Definition str_getters8 := [B "JSONGetID"; B "JSONGetType"; B "JSONGetMimeType"; B "JSONGetString"; B "JSONGetIRI";
                              B "JSONGetLangRefField"; B "val.GetStringBytes"; B "val.Get.GetStringBytes"].
  Lemma gv_str8 d val gt term conv : In gt str_getters8 -> get_value jr_tables li (S d) val gt term conv =
    Some (match jstr (sub_get val term) with [] => None | s => Some (Vocab.FStr s) end).
  Proof. intros H. simpl in H. repeat (destruct H as [<-|H]; [reflexivity|]). destruct H. Qed.

  Lemma gv_endpoints d val term conv : get_value jr_tables li (S d) val (B "JSONGetActorEndpoints") term conv =
    match jget val term with
    | None => Some None
    | Some sub => match run_leaf jr_tables (get_value jr_tables li d) (B "JSONGetActorEndpoints") sub with
                  | Some fs => Some (Some (FEndpoints (Some (endpoints_in_struct_order (flat_map (fun p => match snd p with FItem i => [(fst p, i)] | _ => [] end) fs)))))
                  | None => None
                  end
    end.
  Proof. reflexivity. Qed.
  Lemma gv_endpoints_absent d val term conv : jget val term = None ->
    get_value jr_tables li (S d) val (B "JSONGetActorEndpoints") term conv = Some None.
  Proof. intros H. rewrite gv_endpoints, H. reflexivity. Qed.

  Lemma gv_pubkey d val term conv : get_value jr_tables li (S d) val (B "JSONGetPublicKey") term conv =
    match jget val term with
    | None => Some None
    | Some sub => match run_leaf jr_tables (get_value jr_tables li d) (B "JSONLoadPublicKey") sub with
                  | Some fs => Some (match get_str F_ID fs, get_str F_Owner fs, get_str F_PublicKeyPem fs with
                                     | [], [], [] => None
                                     | a, b, c => Some (FPubKey a b c)
                                     end)
                  | None => None
                  end
    end.
  Proof. reflexivity. Qed.
  Lemma gv_pubkey_absent d val term conv : jget val term = None ->
    get_value jr_tables li (S d) val (B "JSONGetPublicKey") term conv = Some None.
  Proof. intros H. rewrite gv_pubkey, H. reflexivity. Qed.

  Lemma gv_source d val term conv : get_value jr_tables li (S d) val (B "GetAPSource") term conv =
    match run_leaf jr_tables (get_value jr_tables li d) (B "GetAPSource") val with
    | Some fs => Some (match get_str F_MediaType fs, get_nlv F_Content fs with
                       | [], None => None
                       | mt, c => Some (FSource mt c)
                       end)
    | None => None
    end.
  Proof. reflexivity. Qed.

  Lemma run_stmts_prop gv sub fd tm gt0 cv gd pos r acc :
    run_stmts gv sub (RProp fd tm gt0 cv gd pos :: r) acc =
    match gv sub gt0 tm cv with
    | None => None
    | Some None => run_stmts gv sub r acc
    | Some (Some x) => run_stmts gv sub r (if fval_is_zero (link_guard gd x) then acc else setf fd (link_guard gd x) acc)
    end.
  Proof. reflexivity. Qed.

  Lemma gv_source_absent d val term conv : source_reads_ok jr_tables term = true -> jget val term = None ->
    get_value jr_tables li (S (S d)) val (B "GetAPSource") term conv = Some None.
  Proof.
    intros Hok H. rewrite gv_source. unfold run_leaf.
    unfold source_reads_ok in Hok. destruct (jr_table jr_tables (B "GetAPSource")) as [stmts|]; [|discriminate].
    assert (R : run_stmts (get_value jr_tables li (S d)) val stmts [] = Some []).
    { induction stmts as [|s r IH]; [reflexivity|]. cbn [forallb] in Hok. apply andb_true_iff in Hok. destruct Hok as [Hs Hr].
      destruct s as [fd tm gt cv gd pos| |]; try discriminate.
      apply andb_true_iff in Hs. destruct Hs as [Hcut Hg].
      destruct (cut_byte x2e tm) as [a [b|]] eqn:Ec; [|discriminate]. apply bytes_eqb_eq in Hcut. subst a.
      assert (Hv : get_value jr_tables li (S d) val gt tm cv = Some None).
      { apply orb_true_iff in Hg. destruct Hg as [Hg|Hg].
        - apply bytes_eqb_eq in Hg. subst gt. rewrite gv_nlv, Ec, H. reflexivity.
        - rewrite (gv_str8 d val gt tm cv (existsb_in0 gt _ Hg)). unfold sub_get. rewrite Ec, H. reflexivity. }
      rewrite run_stmts_prop, Hv. exact (IH Hr). }
    rewrite R. reflexivity.
  Qed.

  Lemma existsb_in (gt : bytes) l : existsb (bytes_eqb gt) l = true -> In gt l.
  Proof.
    induction l as [|x r IH]; [discriminate|]. cbn [existsb]. rewrite orb_true_iff. intros [H|H].
    - left. symmetry. apply bytes_eqb_eq. exact H.
    - right. exact (IH H).
  Qed.

  Ltac ev_eqb :=
    repeat match goal with
           | |- context [bytes_eqb (B ?a) (B ?b)] =>
               let x := eval vm_compute in (bytes_eqb (B a) (B b)) in change (bytes_eqb (B a) (B b)) with x
           end; cbv iota.
  Ltac ev_eqb_in H :=
    repeat match type of H with
           | context [bytes_eqb (B ?a) (B ?b)] =>
               let x := eval vm_compute in (bytes_eqb (B a) (B b)) in change (bytes_eqb (B a) (B b)) with x in H
           end; cbv iota in H.

  (* ---------------------------------------------------------------- what each writer writes for a set value *)
  Section Written.
    Variable t_run : bytes -> list (fid * fval) -> option (list (bytes * fjv) * bool).

    Lemma tval_item w via t i t' ov r0 : bytes_eqb w (B "JSONWriteItemProp") = true ->
      wf i = true -> ddepth i <= g ->
      t_value (tr fe) t_run w via t (Some (FItem i)) = Some (t', ov, r0) ->
      t' = t /\ exists f' tv, ov = Some tv /\ itree f' i tv.
    Proof.
      intros Hw Hwf Hd H. unfold t_value in H. rewrite Hw in H.
      destruct (tr fe i) as [o'|] eqn:Et; [|discriminate]. inversion H; subst. split; [reflexivity|].
      exact (wf_item_tree jw_tables layout_of registry load_switch activity_types actor_types link_types li g HEo HLo HLs fe i _ Hwf Hd Et).
    Qed.

    Lemma wf_items_as_item x l :
      wfv TItems (FItems (Some (x :: l))) = true -> wf (IItems false (Some (x :: l))) = true.
    Proof. intros H. exact H. Qed.

    Lemma tval_items_ip w via t x l t' ov r0 : bytes_eqb w (B "JSONWriteItemProp") = true ->
      wfv TItems (FItems (Some (x :: l))) = true -> fdepth_v (FItems (Some (x :: l))) <= g ->
      t_value (tr fe) t_run w via t (Some (FItems (Some (x :: l)))) = Some (t', ov, r0) ->
      t' = t /\ exists f' tv, ov = Some tv /\
        itree f' (IItems false (Some (x :: l))) tv.
    Proof.
      intros Hw Hwf Hd H. unfold t_value in H. rewrite Hw in H.
      destruct (tr fe (IItems false (Some (x :: l)))) as [o'|] eqn:Et; [|discriminate]. inversion H; subst. split; [reflexivity|].
      exact (wf_item_tree jw_tables layout_of registry load_switch activity_types actor_types link_types li g HEo HLo HLs fe
               (IItems false (Some (x :: l))) _ (wf_items_as_item x l Hwf) Hd Et).
    Qed.

    Lemma wf_items_elems x l : wfv TItems (FItems (Some (x :: l))) = true -> fdepth_v (FItems (Some (x :: l))) <= g ->
      eok (x :: l)
      /\ distinct_items (map nrm (x :: l)) = true.
    Proof.
      intros Hwf Hd. cbn [wf_fval] in Hwf. apply andb_true_iff in Hwf. destruct Hwf as [Hel Hdist]. split; [|exact Hdist].
      intros y Hy. destruct (wf_list_elems layout_of registry load_switch activity_types actor_types link_types (x :: l) Hel y Hy) as [H1 H2].
      split; [exact H1|split; [exact H2|]]. pose proof (ddepth_list_in (x :: l) y Hy) as Hin.
      change (fdepth_v (FItems (Some (x :: l)))) with
        ((fix go (l : list item) : nat := match l with [] => O | x :: r => Nat.max (ddepth x) (go r) end) (x :: l)) in Hd. lia.
    Qed.

    Lemma tval_items_coll w via t x l t' ov r0 : bytes_eqb w (B "JSONWriteItemCollectionProp") = true ->
      wfv TItems (FItems (Some (x :: l))) = true -> fdepth_v (FItems (Some (x :: l))) <= g ->
      t_value (tr fe) t_run w via t (Some (FItems (Some (x :: l)))) = Some (t', ov, r0) ->
      t' = t /\ exists ts, ov = Some (FArr ts) /\ Forall2 (fun y tv => tr fe y = Some (Some tv)) (x :: l) ts.
    Proof.
      intros Hw Hwf Hd H. apply bytes_eqb_eq in Hw. subst w. unfold t_value in H. ev_eqb_in H.
      destruct (wf_items_elems x l Hwf Hd) as [Hok _].
      destruct (coll_go jw_tables layout_of registry load_switch activity_types actor_types link_types li g HEo HLo HLs
                  fe t (x :: l) [] _ Hok H) as [ts [E Hf]].
      inversion E; subst. split; [reflexivity|]. exists ts. split; [reflexivity|exact Hf].
    Qed.

    (* ---- text ---- *)
    Lemma ok_entryb_ok e : ok_entryb e = true -> ok_entry e.
    Proof.
      unfold ok_entryb, ok_entry, valid_utf8. rewrite !andb_true_iff, !negb_true_iff. intros [[[H1 H2] H3] H4].
      repeat split; try assumption.
      - intros C. rewrite C in H2. discriminate.
      - intros C. rewrite C in H4. discriminate.
    Qed.

    (* a reader gets a valid UTF-8 tag back as it is: tagAsRead (sanitize) is the identity there *)
    Lemma sanitize_go_valid : forall fuel s, length s < fuel -> utf8_valid s = true -> sanitize_go fuel s = s.
    Proof.
      induction fuel as [|fuel IH]; intros s Hl Hv; [lia|].
      destruct s as [|b r]; [reflexivity|]. simpl in Hl. cbn [sanitize_go].
      rewrite utf8_valid_cons in Hv. change (bn b <? 128)%N with (byteN b <? 128)%N in Hv.
      destruct (byteN b <? 128)%N eqn:Hb.
      - rewrite (IH r) by (lia || exact Hv). reflexivity.
      - apply N.ltb_ge in Hb. rewrite (utf8_size_agree b r Hb).
        destruct (utf8_n b) as [|[|[|[|k]]]]; try discriminate.
        + destruct r as [|c1 r1]; [discriminate|]. apply andb_true_iff in Hv. destruct Hv as [H1 Hv]. rewrite H1.
          cbn [firstn skipn app]. rewrite (IH r1) by (simpl in Hl; lia || exact Hv). reflexivity.
        + destruct r as [|c1 [|c2 r2]]; try discriminate. rewrite !andb_true_iff in Hv. destruct Hv as [[H1 H2] Hv]. rewrite H1, H2.
          cbn [andb firstn skipn app]. rewrite (IH r2) by (simpl in Hl; lia || exact Hv). reflexivity.
        + destruct r as [|c1 [|c2 [|c3 r3]]]; try discriminate. rewrite !andb_true_iff in Hv. destruct Hv as [[[H1 H2] H3] Hv].
          rewrite H1, H2, H3. cbn [andb firstn skipn app]. rewrite (IH r3) by (simpl in Hl; lia || exact Hv). reflexivity.
    Qed.
    Lemma sanitize_valid s : utf8_valid s = true -> sanitize s = s.
    Proof. intros H. apply sanitize_go_valid; [lia|exact H]. Qed.

    Lemma nlv_kept_all l : forall keys, forallb ok_entryb l = true -> nodup_tagsb l = true ->
      (forall e, In e l -> existsb (bytes_eqb (fst e)) keys = false) ->
      nlv_kept keys l = l.
    Proof.
      induction l as [|e r IH]; intros keys Hall Hnd Hk; [reflexivity|].
      cbn [forallb] in Hall. apply andb_true_iff in Hall. destruct Hall as [He Hr].
      cbn [nodup_tagsb] in Hnd. apply andb_true_iff in Hnd. destruct Hnd as [Hne Hnd]. apply negb_true_iff in Hne.
      destruct (ok_entryb_ok e He) as [Hv1 [H1 [_ H2]]].
      cbn [nlv_kept]. destruct (fst e) eqn:E1; [congruence|]. destruct (snd e) eqn:E2; [congruence|]. cbv zeta.
      rewrite <- E1. rewrite (sanitize_valid (fst e)) by (rewrite E1; exact Hv1).
      rewrite (Hk e (or_introl eq_refl)). f_equal. apply IH; [exact Hr|exact Hnd|].
      intros e' He'. cbn [existsb]. rewrite (Hk e' (or_intror He')), orb_false_r.
      destruct (bytes_eqb (fst e') (fst e)) eqn:Eq; [|reflexivity].
      apply bytes_eqb_eq in Eq. exfalso.
      assert (existsb (tag_is (fst e)) r = true).
      { apply existsb_exists. exists e'. split; [exact He'|]. unfold tag_is. rewrite Eq. apply bytes_eqb_refl. }
      congruence.
    Qed.

    Lemma tval_nlv w via t l t' ov r0 : bytes_eqb w (B "JSONWriteNaturalLanguageProp") = true -> text_ok l = true ->
      t_value (tr fe) t_run w via t (Some (FNlv (Some l))) = Some (t', ov, r0) ->
      match l with
      | [(_, s)] => t' = t /\ ov = Some (Text.FStr (string_bytes_body false s))
      | _ => t' = t ++ B "Map" /\ ov = Some (FObj (map nlv_member l))
      end.
    Proof.
      intros Hw Hok H. apply bytes_eqb_eq in Hw. subst w. unfold t_value in H. ev_eqb_in H.
      unfold text_ok in Hok. rewrite !andb_true_iff in Hok. destruct Hok as [[Hne Hall] Hnd]. inversion H; subst. clear H.
      destruct l as [|[r s] [|e2 l']]; [discriminate| |].
      - cbn [forallb] in Hall. rewrite andb_true_r in Hall. destruct (ok_entryb_ok _ Hall) as [_ [_ [_ Hs]]]. cbn [snd] in Hs.
        split; [reflexivity|]. unfold t_nlv. destruct s; [congruence|reflexivity].
      - split; [reflexivity|]. unfold t_nlv. rewrite (nlv_kept_all _ [] Hall Hnd (fun _ _ => eq_refl)).
        destruct s; reflexivity.
    Qed.

    Lemma nl_of_members l : forallb ok_entryb l = true -> nl_of_kvs (map nlv_member l) = l.
    Proof.
      intros H. assert (Hf : Forall ok_entry l).
      { apply Forall_forall. intros e He. rewrite forallb_forall in H. exact (ok_entryb_ok e (H e He)). }
      rewrite <- (nl_of_kvs_entries l Hf) at 2. f_equal. rewrite map_map. apply map_ext. intros e.
      unfold nlv_member, ofkv, entry_tree. cbn [fst snd fj_of]. rewrite !string_bytes_body_sbody. reflexivity.
    Qed.

    Lemma unescape_nobs k : has_bs k = false -> fj_unescape k = k.
    Proof.
      unfold has_bs. induction k as [|b r IH]; [reflexivity|]. cbn [existsb]. rewrite orb_false_iff. intros [Hb Hr].
      assert (Byte.eqb b bBS = false).
      { destruct (Byte.eqb b bBS) eqn:E; [|reflexivity]. apply beqb_eq in E. subst b. discriminate. }
      rewrite (fj_unescape_plain b r H), (IH Hr). reflexivity.
    Qed.

    (* the keys of a written language map cannot be confused by a reader that compares unescaped names *)
    Lemma nlv_keys_clean l : forallb ok_entryb l = true -> keys_clean (FObj (map nlv_member l)) = true.
    Proof.
      intros Hall. cbn [keys_clean]. apply andb_true_iff. split.
      - apply negb_true_iff. unfold keys_ambiguous. apply not_true_is_false. intros E.
        apply existsb_exists in E. destruct E as [kv [Hin E]]. apply andb_true_iff in E. destruct E as [Hb E].
        apply existsb_exists in E. destruct E as [kv' [Hin' E]]. apply andb_true_iff in E. destruct E as [Hnb Heq].
        apply negb_true_iff in Hnb. apply bytes_eqb_eq in Heq.
        apply in_map_iff in Hin. destruct Hin as [e1 [<- He1]]. apply in_map_iff in Hin'. destruct Hin' as [e2 [<- He2]].
        unfold nlv_member in *. cbn [fst] in *. rewrite forallb_forall in Hall.
        destruct (ok_entryb_ok e1 (Hall e1 He1)) as [Hv1 _]. destruct (ok_entryb_ok e2 (Hall e2 He2)) as [Hv2 _].
        pose proof (string_bytes_decodes false (fst e1) Hv1) as D1.
        pose proof (string_bytes_decodes false (fst e2) Hv2) as D2. rewrite (unescape_nobs _ Hnb) in D2.
        assert (E12 : fst e1 = fst e2) by congruence.
        rewrite E12 in Hb. congruence.
      - apply forallb_forall. intros kv Hin. apply in_map_iff in Hin. destruct Hin as [e [<- _]]. reflexivity.
    Qed.

    Lemma nlv_map_depth l : fdepth (FObj (map nlv_member l)) <= 2.
    Proof. apply fdepth_FObj_le. intros kv Hin. apply in_map_iff in Hin. destruct Hin as [e [<- _]]. cbn. lia. Qed.

    (* ---- strings ---- *)
    Lemma string_ok_facts s : string_ok s = true -> s <> [] /\ utf8_valid s = true /\ str_ok s = true.
    Proof.
      unfold string_ok, str_ok. rewrite !andb_true_iff, negb_true_iff. intros [[H1 H2] H3].
      split; [intros ->; discriminate|]. split; [exact H2|]. split; assumption.
    Qed.

    Lemma tval_string w via t s t' ov r0 : writer_fits TString (mkwf t w [] via []) = true -> string_ok s = true ->
      t_value (tr fe) t_run w via t (Some (Vocab.FStr s)) = Some (t', ov, r0) ->
      t' = t /\ exists raw, ov = Some (Text.FStr raw) /\ fj_unescape raw = s.
    Proof.
      intros Hw Hok H. destruct (string_ok_facts s Hok) as [Hne [Hv Hso]]. cbn [writer_fits wf_writer] in Hw.
      rewrite !orb_true_iff in Hw. destruct Hw as [[Hw|Hw]|Hw]; apply bytes_eqb_eq in Hw; subst w; unfold t_value in H; ev_eqb_in H.
      - destruct (bytes_eqb via (B "MarshalJSON:ID")), (bytes_eqb via (B "MarshalJSON:IRI")),
                 (bytes_eqb via (B "MarshalJSON:ActivityVocabularyType")), (bytes_eqb via (B "MarshalJSON:MimeType")),
                 (bytes_eqb via (B "json.Marshal")); cbn [orb] in H; try discriminate; inversion H; subst;
          (split; [reflexivity|]);
          try (exists (escape_quote s); split; [destruct s; [congruence|reflexivity]|exact (escape_quote_decodes s Hso)]);
          exists (string_bytes_body true s); (split; [reflexivity|exact (string_bytes_decodes true s Hv)]).
      - inversion H; subst. split; [reflexivity|]. exists (escape_quote s). split; [reflexivity|exact (escape_quote_decodes s Hso)].
      - destruct s as [|c s']; [congruence|]. inversion H; subst. split; [reflexivity|].
        exists (escape_quote (c :: s')). split; [reflexivity|exact (escape_quote_decodes _ Hso)].
    Qed.
  End Written.

  (* ---------------------------------------------------------------- one field: write entry e, read entry r *)
  Section OneField.
    Variable d : nat.
    Variable fs : list (fid * fval).
    Variable ms : list (bytes * fjv).
    Hypothesis Hms : forallb (fun kv => key_plain (fst kv)) ms = true.
    Notation t_run := (t_run_table jw_tables d (tr fe)).
    Notation val := (FObj ms).
    Variable dg : nat.          (* the getters run at depth S dg: 3 for the properties of an object, 2 for those of a leaf struct *)
    Notation gv := (get_value jr_tables li (S dg) val).

    Lemma entry_out_set ty f t w via gs v t' tv r0 :
      getf f fs = Some v -> wfv ty v = true -> forallb (guard_fits ty f) gs = true ->
      t_value (tr fe) t_run w via t (Some v) = Some (t', Some tv, r0) ->
      entry_out jw_tables (tr fe) d fs (mkwf t w [f] via gs) = Some [(t', tv)].
    Proof.
      intros Hg Hw Hgs Hv. unfold entry_out. cbn [wf_guards wf_writer wf_via wf_term wf_path path_get]. rewrite Hg.
      rewrite (guards_pass ty f fs v [x30] _ Hg Hw (forallb_filter _ _ _ Hgs)) by discriminate.
      rewrite Hv. cbn [guard_bytes]. rewrite (guards_pass ty f fs v [x30] _ Hg Hw Hgs) by discriminate. reflexivity.
    Qed.

    Lemma get_hit ku t' tv : key_plain t' = true -> find_key (fun k => k) ms t' = find_key (fun k => k) [(t', tv)] t' ->
      fj_get ku val t' = Some tv.
    Proof. intros Hp H. rewrite (fj_get_plain ku ms t' Hms Hp), H. cbn [find_key]. rewrite bytes_eqb_refl. reflexivity. Qed.

    Lemma jstr_sub t raw : key_plain t = true -> jget val t = Some (Text.FStr raw) -> jstr (sub_get val t) = fj_unescape raw.
    Proof. intros Hp H. unfold sub_get. rewrite (plain_no_dot t Hp), H. reflexivity. Qed.

    (* the members a set field contributes: inside the decoder model, at most 2 * depth + 2 deep, and at least as
       deep as the value nests (so a bound on the nesting of the document bounds the fuel the decoder needs) *)
    Definition member_ok (v : fval) (tv : fjv) : Prop := tree_ok (2 * fdepth_v v + 2) tv /\ fdepth_v v <= S (fdepth tv).

    Lemma field_set_basic ty f e r o v :
      leafless ty = true ->
      pair_ok ty f e r = true ->
      entry_out jw_tables (tr fe) d fs e = Some o ->
      (forall k0, In k0 (keys_of e) -> find_key (fun k => k) ms k0 = find_key (fun k => k) o k0) ->
      getf f fs = Some v -> wfv ty v = true -> fdepth_v v <= g ->
      o <> [] /\ (forall kv, In kv o -> member_ok v (snd kv)) /\
      exists x, gv (rf_getter r) (rf_term r) (rf_conv r) = Some (Some x)
                /\ link_guard (rf_guard r) x = nrmv v /\ fval_is_zero (nrmv v) = false.
    Proof.
      intros Hnl Hpair Hout Hlook Hg Hw Hd.
      assert (Leaf : forall (t0 : bytes) (tv0 : fjv) v0, fdepth_v v0 = 0 -> keys_clean tv0 = true -> fdepth tv0 <= 2 ->
                forall kv, In kv [(t0, tv0)] -> member_ok v0 (snd kv))
        by (intros t0 tv0 v0 Hv0 Hc Hdp kv [<-|[]]; unfold member_ok; rewrite Hv0; split; [split; [exact Hc|cbn [snd]; lia]|lia]).
      destruct e as [t w p via gs]. destruct r as [rfid rt rg rc rgd].
      unfold pair_ok in Hpair. apply andb_true_iff in Hpair. destruct Hpair as [Hpair Htotal].
      unfold pair_ok_core in Hpair. cbn [wf_path wf_term wf_guards rf_term rf_getter rf_conv rf_guard] in *.
      rewrite !andb_true_iff in Hpair. destruct Hpair as [[[[[[[Hp Ht] Hplain] Hwf] Hgf] Hgs] Hcv] Hty].
      destruct p as [|f' [|f2 p]]; try discriminate. apply fid_beq_eq in Hp. subst f'.
      apply bytes_eqb_eq in Ht. subst rt.
      assert (Hout0 := Hout). unfold entry_out in Hout0. cbn [wf_guards wf_writer wf_via wf_term wf_path path_get] in Hout0.
      rewrite Hg in Hout0.
      rewrite (guards_pass ty f fs v [x30] _ Hg Hw (forallb_filter _ _ _ Hgs)) in Hout0 by discriminate.
      destruct (t_value (tr fe) t_run w via t (Some v)) as [[[t' ov] r0]|] eqn:Ev; [|discriminate]. clear Hout0.
      (* the common end: once the value is known to be Some tv, the entry contributed exactly that member *)
      assert (Fin : forall tv, ov = Some tv -> o = [(t', tv)]).
      { intros tv ->. pose proof (entry_out_set ty f t w via gs v t' tv r0 Hg Hw Hgs Ev) as E. rewrite E in Hout. inversion Hout. reflexivity. }
      destruct ty; try discriminate; cbn [writer_fits getter_fits conv_ok wf_writer rf_getter rf_conv rf_guard] in *.
      - (* TItem *)
        destruct v as [i| | | | | | | | | | | | ]; try discriminate. cbn [wf_fval fdepth_v] in Hw, Hd.
        destruct (tval_item t_run w via t i t' ov r0 Hwf Hw Hd Ev) as [-> [f' [tv [-> Htree]]]].
        rewrite (Fin tv eq_refl) in *. split; [discriminate|].
        split; [intros kv [<-|[]]; split;
                [exact (item_tree_ok jw_tables layout_of registry load_switch activity_types actor_types link_types
                          li g HEo HLo HLs HKo f' i tv Htree)
                |exact (item_tree_deep jw_tables layout_of registry load_switch activity_types actor_types link_types
                          li g HEo HLo HLs HDo f' i tv Htree)]|].
        assert (Hj : jget val t = Some tv).
        { apply get_hit; [exact Hplain|]. apply Hlook. unfold keys_of, is_nlv_writer. cbn [wf_writer wf_term].
          apply bytes_eqb_eq in Hwf. subst w. ev_eqb. left. reflexivity. }
        apply negb_true_iff in Hcv.
        apply orb_true_iff in Hgf. destruct Hgf as [Hgf|Hgf]; apply bytes_eqb_eq in Hgf; subst rg.
        + destruct (get_item_read jw_tables layout_of registry load_switch activity_types actor_types link_types li g HEo HLo HLs
                      f' i tv val t Htree Hj) as [Hr Hn].
          exists (FItem (nrm i)). rewrite gv_item, Hr. split; [destruct (nrm i); try congruence; reflexivity|].
          split; [unfold link_guard; change link_guard_name with (B "x != nil;GetLink") in Hcv; rewrite Hcv; reflexivity|].
          change (nrmv (FItem i)) with (FItem (nrm i)). cbn [fval_is_zero]. destruct (nrm i); try congruence; reflexivity.
        + destruct (get_uri_item_read jw_tables layout_of registry load_switch activity_types actor_types link_types li g HEo HLo HLs
                      f' i tv val t Htree Hj) as [Hr Hn].
          exists (FItem (nrm i)). rewrite gv_uri, Hr. split; [destruct (nrm i); try congruence; reflexivity|].
          split; [unfold link_guard; change link_guard_name with (B "x != nil;GetLink") in Hcv; rewrite Hcv; reflexivity|].
          change (nrmv (FItem i)) with (FItem (nrm i)). cbn [fval_is_zero]. destruct (nrm i); try congruence; reflexivity.
      - (* TItems *)
        destruct v as [ |[[|x l]|]| | | | | | | | | | | ]; try discriminate.
        apply bytes_eqb_eq in Hgf. subst rg.
        assert (Hkey : In t (keys_of (mkwf t w [f] via gs))).
        { unfold keys_of, is_nlv_writer. cbn [wf_writer wf_term].
          apply orb_true_iff in Hwf. destruct Hwf as [Hwf|Hwf]; apply bytes_eqb_eq in Hwf; subst w; ev_eqb; left; reflexivity. }
        assert (Hnz : fval_is_zero (nrmv (FItems (Some (x :: l)))) = false) by reflexivity.
        assert (Hnorm : nrmv (FItems (Some (x :: l))) = FItems (Some (map nrm (x :: l)))).
        { exact (f_equal (fun z => FItems (Some z)) (norm_list_map layout_of (x :: l))). }
        apply orb_true_iff in Hwf. destruct Hwf as [Hwf|Hwf].
        + destruct (tval_items_coll t_run w via t x l t' ov r0 Hwf Hw Hd Ev) as [-> [ts [-> Hf]]].
          rewrite (Fin _ eq_refl) in *. split; [discriminate|].
          destruct (wf_items_elems x l Hw Hd) as [Hok Hdist].
          split; [intros kv [<-|[]]; cbn [snd]; split;
                  [apply (forall2_trees_ok jw_tables layout_of registry load_switch activity_types actor_types link_types
                           li g HEo HLo HLs HKo fe (x :: l) ts Hok Hf); intros y Hy; exact (ddepth_list_in (x :: l) y Hy)
                  |apply le_S; exact (forall2_trees_deep jw_tables layout_of registry load_switch activity_types actor_types link_types
                           li g HEo HLo HLs HDo fe (x :: l) ts Hok Hf)]|].
          assert (Hj : jget val t = Some (FArr ts)) by (apply get_hit; [exact Hplain|apply Hlook; exact Hkey]).
          exists (FItems (Some (map nrm (x :: l)))). rewrite gv_items. unfold jget_items. rewrite Hj.
          rewrite (items_fn_u_read jw_tables layout_of registry load_switch activity_types actor_types link_types li g HEo HLo HLs
                     fe (x :: l) ts Hok Hf Hdist).
          cbn [map]. split; [reflexivity|]. split; [|exact Hnz]. rewrite Hnorm. unfold link_guard. destruct (bytes_eqb rgd _); reflexivity.
        + destruct (tval_items_ip t_run w via t x l t' ov r0 Hwf Hw Hd Ev) as [-> [f' [tv [-> Htree]]]].
          rewrite (Fin _ eq_refl) in *. split; [discriminate|].
          split; [intros kv [<-|[]]; split;
                  [exact (item_tree_ok jw_tables layout_of registry load_switch activity_types actor_types link_types
                            li g HEo HLo HLs HKo f' (IItems false (Some (x :: l))) tv Htree)
                  |exact (item_tree_deep jw_tables layout_of registry load_switch activity_types actor_types link_types
                            li g HEo HLo HLs HDo f' (IItems false (Some (x :: l))) tv Htree)]|].
          assert (Hj : jget val t = Some tv) by (apply get_hit; [exact Hplain|apply Hlook; exact Hkey]).
          exists (FItems (Some (map nrm (x :: l)))). rewrite gv_items.
          rewrite (get_items_read jw_tables layout_of registry load_switch activity_types actor_types link_types li g HEo HLo HLs
                     f' false (x :: l) tv val t ltac:(discriminate) Htree Hj).
          split; [reflexivity|]. split; [|exact Hnz]. rewrite Hnorm. unfold link_guard. destruct (bytes_eqb rgd _); reflexivity.
      - (* TNlv *)
        destruct v as [ | |[l|]| | | | | | | | | | ]; try discriminate. cbn [wf_fval] in Hw.
        apply bytes_eqb_eq in Hgf. subst rg.
        pose proof (tval_nlv t_run w via t l t' ov r0 Hwf Hw Ev) as Hv.
        assert (Hk1 : In t (keys_of (mkwf t w [f] via gs))) by (unfold keys_of, is_nlv_writer; cbn [wf_writer wf_term]; rewrite Hwf; left; reflexivity).
        assert (Hk2 : In (t ++ B "Map") (keys_of (mkwf t w [f] via gs)))
          by (unfold keys_of, is_nlv_writer; cbn [wf_writer wf_term]; rewrite Hwf; right; left; reflexivity).
        rewrite gv_nlv, (plain_no_dot t Hplain). unfold get_nl_field.
        assert (Hall : forallb ok_entryb l = true) by (unfold text_ok in Hw; rewrite !andb_true_iff in Hw; tauto).
        destruct l as [|[r1 s1] [|e2 l']].
        + unfold text_ok in Hw. discriminate.
        + destruct Hv as [-> ->]. rewrite (Fin _ eq_refl) in *. split; [discriminate|].
          split; [apply Leaf; [reflexivity|reflexivity|cbn; lia]|].
          rewrite (get_hit false t _ Hplain (Hlook t Hk1)).
          cbn [forallb] in Hall. rewrite andb_true_r in Hall. destruct (ok_entryb_ok _ Hall) as [_ [_ [Hvs _]]]. cbn [snd] in Hvs.
          rewrite (string_bytes_decodes false s1 Hvs).
          eexists. split; [reflexivity|]. split; [unfold link_guard; destruct (bytes_eqb rgd _); reflexivity|reflexivity].
        + destruct Hv as [-> ->]. rewrite (Fin _ eq_refl) in *. split; [discriminate|].
          split; [apply Leaf; [reflexivity|exact (nlv_keys_clean _ Hall)|apply nlv_map_depth]|].
          assert (Hmiss : fj_get false val t = None).
          { rewrite (fj_get_plain false ms t Hms Hplain), (Hlook t Hk1). cbn [find_key].
            rewrite (bytes_eqb_app_ne t (B "Map")) by discriminate. reflexivity. }
          rewrite Hmiss. rewrite (get_hit _ (t ++ B "Map") _ (key_plain_map t Hplain) (Hlook _ Hk2)).
          rewrite (nl_of_members _ Hall). eexists. split; [reflexivity|]. split; [unfold link_guard; destruct (bytes_eqb rgd _); reflexivity|reflexivity].
      - (* TString *)
        destruct v as [ | | |s| | | | | | | | | ]; try discriminate. cbn [wf_fval] in Hw.
        assert (Hwf' : writer_fits TString (mkwf t w [] via []) = true) by exact Hwf.
        destruct (tval_string t_run w via t s t' ov r0 Hwf' Hw Ev) as [-> [raw [-> Hdec]]].
        rewrite (Fin _ eq_refl) in *. split; [discriminate|].
        split; [apply Leaf; [reflexivity|reflexivity|cbn; lia]|].
        destruct (string_ok_facts s Hw) as [Hne _].
        assert (Hkey : In t (keys_of (mkwf t w [f] via gs))).
        { unfold keys_of, is_nlv_writer. cbn [wf_writer wf_term]. cbn [writer_fits wf_writer] in Hwf.
          rewrite !orb_true_iff in Hwf. destruct Hwf as [[Hwf|Hwf]|Hwf]; apply bytes_eqb_eq in Hwf; subst w; ev_eqb; left; reflexivity. }
        assert (Hj : jget val t = Some (Text.FStr raw)) by (apply get_hit; [exact Hplain|apply Hlook; exact Hkey]).
        destruct (bytes_eqb rg (B "JSONGetURIItem")) eqn:Eu.
        + apply bytes_eqb_eq in Eu. subst rg. apply bytes_eqb_eq in Hcv. subst rgd.
          exists (FItem (IIri false s)). rewrite gv_uri. unfold jget_uri_item. rewrite Hj, Hdec.
          split; [reflexivity|]. split; [reflexivity|]. change (nrmv (Vocab.FStr s)) with (Vocab.FStr s). cbn [fval_is_zero]. destruct s; [congruence|reflexivity].
        + assert (Hin : In rg str_getters).
          { apply existsb_in in Hgf. simpl in Hgf. unfold str_getters. simpl.
            repeat (destruct Hgf as [Hgf|Hgf]; [tauto|]). destruct Hgf as [Hgf|[]]. subst rg. vm_compute in Eu. discriminate. }
          exists (Vocab.FStr s). rewrite (gv_str dg val rg t rc Hin), (jstr_sub t raw Hplain Hj), Hdec.
          split; [destruct s; [congruence|reflexivity]|]. split; [|change (nrmv (Vocab.FStr s)) with (Vocab.FStr s); cbn [fval_is_zero]; destruct s; [congruence|reflexivity]].
          unfold link_guard. destruct (bytes_eqb rgd (B "x != nil;GetLink")); reflexivity.
      - (* TTime *)
        destruct v as [ | | | |tm| | | | | | | | ]; try discriminate. cbn [wf_fval] in Hw.
        apply bytes_eqb_eq in Hwf. subst w. apply bytes_eqb_eq in Hgf. subst rg.
        assert (Hdom0 : time_dom (vsecs tm) = true).
        { unfold time_ok in Hw. rewrite !andb_true_iff in Hw. destruct Hw as [[H1 H2] _]. unfold time_dom. rewrite H1, H2. reflexivity. }
        unfold t_value in Ev. ev_eqb_in Ev. rewrite (TimeRangeP.time_writable_dom tm), Hdom0 in Ev.
        injection Ev as E1 E2 E3; subst t' ov r0. rewrite (Fin _ eq_refl) in *. split; [discriminate|].
        split; [apply Leaf; [reflexivity|reflexivity|cbn; lia]|].
        assert (Hkey : In t (keys_of (mkwf t (B "JSONWriteTimeProp") [f] via gs))) by (unfold keys_of, is_nlv_writer; cbn [wf_writer wf_term]; ev_eqb; left; reflexivity).
        assert (Hj : jget val t = Some (Text.FStr (fmt_rfc3339_utc (vsecs tm)))) by (apply get_hit; [exact Hplain|apply Hlook; exact Hkey]).
        unfold time_ok in Hw. rewrite !andb_true_iff, negb_true_iff in Hw. destruct Hw as [[H1 H2] H3].
        assert (Hdom : time_dom (vsecs tm) = true) by (unfold time_dom; rewrite H1, H2; reflexivity).
        exists (FTime (norm_time tm)). rewrite gv_time, Hj. cbn [jstr fj_string_bytes].
        rewrite (fj_unescape_plain_all _ (fmt_time_plain (vsecs tm))), (time_roundtrip _ Hdom).
        split; [reflexivity|]. split; [unfold link_guard; destruct (bytes_eqb rgd (B "x != nil;GetLink")); reflexivity|].
        change (nrmv (FTime tm)) with (FTime (norm_time tm)). cbn [fval_is_zero]. unfold vtime_is_zero, norm_time. cbn [vsecs vnanos]. rewrite H3. reflexivity.
      - (* TDur *)
        destruct v as [ | | | | |dd| | | | | | | ]; try discriminate. cbn [wf_fval] in Hw.
        apply bytes_eqb_eq in Hwf. subst w. apply bytes_eqb_eq in Hgf. subst rg.
        unfold t_value in Ev. ev_eqb_in Ev.
        assert (Hdom : dur_dom dd = true) by exact Hw.
        destruct (dur_roundtrip dd Hdom) as [b [Hb Hpb]]. rewrite Hb in Ev. injection Ev as E1 E2 E3; subst t' ov r0.
        rewrite (Fin _ eq_refl) in *. split; [discriminate|].
        split; [apply Leaf; [reflexivity|reflexivity|cbn; lia]|].
        assert (Hkey : In t (keys_of (mkwf t (B "JSONWriteDurationProp") [f] via gs))) by (unfold keys_of, is_nlv_writer; cbn [wf_writer wf_term]; ev_eqb; left; reflexivity).
        assert (Hj : jget val t = Some (Text.FStr b)) by (apply get_hit; [exact Hplain|apply Hlook; exact Hkey]).
        exists (FDur dd). rewrite gv_dur, Hj. cbn [jstr fj_string_bytes].
        rewrite (fj_unescape_plain_all _ (fmt_dur_plain dd b Hb)), Hpb.
        assert (Hnz : (dd =? 0)%Z = false) by (unfold dur_dom in Hdom; rewrite !andb_true_iff, negb_true_iff in Hdom; tauto).
        split; [destruct dd; [discriminate|reflexivity|reflexivity]|].
        split; [unfold link_guard; destruct (bytes_eqb rgd (B "x != nil;GetLink")); reflexivity|].
        change (nrmv (FDur dd)) with (FDur dd). cbn [fval_is_zero]. exact Hnz.
      - (* TUint *)
        destruct v as [ | | | | | |n| | | | | | ]; try discriminate. cbn [wf_fval] in Hw.
        apply bytes_eqb_eq in Hwf. subst w. apply bytes_eqb_eq in Hgf. subst rg.
        unfold t_value in Ev. ev_eqb_in Ev. injection Ev as E1 E2 E3; subst t' ov r0. rewrite (Fin _ eq_refl) in *. split; [discriminate|].
        split; [apply Leaf; [reflexivity|reflexivity|cbn; lia]|].
        assert (Hkey : In t (keys_of (mkwf t (B "JSONWriteIntProp") [f] via gs))) by (unfold keys_of, is_nlv_writer; cbn [wf_writer wf_term]; ev_eqb; left; reflexivity).
        assert (Hj : jget val t = Some (FNum (fmt_int (num_of (Some (FUint n)))))) by (apply get_hit; [exact Hplain|apply Hlook; exact Hkey]).
        apply andb_true_iff in Hw. destruct Hw as [Hp Hlt]. apply N.ltb_lt in Hp. apply N.ltb_lt in Hlt.
        destruct (uint_roundtrip n Hlt) as [Hr1 Hr2].
        exists (FUint n). rewrite gv_int, Hj. cbn [num_of]. rewrite Hr1, Hcv, Hr2.
        assert (Hz : (Z.of_N n =? 0)%Z = false) by (apply Z.eqb_neq; lia). rewrite Hz.
        split; [reflexivity|]. split; [unfold link_guard; destruct (bytes_eqb rgd (B "x != nil;GetLink")); reflexivity|].
        change (nrmv (FUint n)) with (FUint n). cbn [fval_is_zero]. apply N.eqb_neq. lia.
      - (* TInt64 *)
        destruct v as [ | | | | | | |z| | | | | ]; try discriminate. cbn [wf_fval] in Hw.
        apply bytes_eqb_eq in Hwf. subst w. apply bytes_eqb_eq in Hgf. subst rg.
        unfold t_value in Ev. ev_eqb_in Ev. injection Ev as E1 E2 E3; subst t' ov r0. rewrite (Fin _ eq_refl) in *. split; [discriminate|].
        split; [apply Leaf; [reflexivity|reflexivity|cbn; lia]|].
        assert (Hkey : In t (keys_of (mkwf t (B "JSONWriteIntProp") [f] via gs))) by (unfold keys_of, is_nlv_writer; cbn [wf_writer wf_term]; ev_eqb; left; reflexivity).
        assert (Hj : jget val t = Some (FNum (fmt_int (num_of (Some (FInt z)))))) by (apply get_hit; [exact Hplain|apply Hlook; exact Hkey]).
        rewrite !andb_true_iff, negb_true_iff in Hw. destruct Hw as [[Hz H1] H2].
        assert (Hdom : int_dom z = true) by (unfold int_dom; rewrite H1, H2; reflexivity).
        exists (FInt z). rewrite gv_int, Hj. cbn [num_of]. rewrite (int_roundtrip z Hdom), Hz.
        apply negb_true_iff in Hcv. rewrite Hcv.
        split; [reflexivity|]. split; [unfold link_guard; destruct (bytes_eqb rgd (B "x != nil;GetLink")); reflexivity|].
        change (nrmv (FInt z)) with (FInt z). cbn [fval_is_zero]. exact Hz.
      - (* TBool *)
        destruct v as [ | | | | | | | |bb| | | | ]; try discriminate. cbn [wf_fval] in Hw. subst bb.
        apply bytes_eqb_eq in Hwf. subst w. apply bytes_eqb_eq in Hgf. subst rg.
        unfold t_value in Ev. ev_eqb_in Ev. injection Ev as E1 E2 E3; subst t' ov r0. rewrite (Fin _ eq_refl) in *. split; [discriminate|].
        split; [apply Leaf; [reflexivity|reflexivity|cbn; lia]|].
        assert (Hkey : In t (keys_of (mkwf t (B "JSONWriteBoolProp") [f] via gs))) by (unfold keys_of, is_nlv_writer; cbn [wf_writer wf_term]; ev_eqb; left; reflexivity).
        assert (Hj : jget val t = Some FTrue) by (apply get_hit; [exact Hplain|apply Hlook; exact Hkey]).
        exists (FBool true). rewrite gv_bool, Hj.
        split; [reflexivity|]. split; [unfold link_guard; destruct (bytes_eqb rgd (B "x != nil;GetLink")); reflexivity|reflexivity].
      - (* TFloat *)
        destruct v as [ | | | | | | | | |m| | | ]; try discriminate. cbn [wf_fval] in Hw.
        apply bytes_eqb_eq in Hwf. subst w. apply bytes_eqb_eq in Hgf. subst rg.
        unfold t_value in Ev. ev_eqb_in Ev. injection Ev as E1 E2 E3; subst t' ov r0. rewrite (Fin _ eq_refl) in *. split; [discriminate|].
        split; [apply Leaf; [reflexivity|reflexivity|cbn; lia]|].
        assert (Hkey : In t (keys_of (mkwf t (B "JSONWriteFloatProp") [f] via gs))) by (unfold keys_of, is_nlv_writer; cbn [wf_writer wf_term]; ev_eqb; left; reflexivity).
        assert (Hj : jget val t = Some (FNum (fmt_float (num_of (Some (FFloat m)))))) by (apply get_hit; [exact Hplain|apply Hlook; exact Hkey]).
        rewrite !andb_true_iff, negb_true_iff in Hw. destruct Hw as [Hz Hdom].
        exists (FFloat m). rewrite gv_float, Hj. cbn [num_of]. rewrite (float_roundtrip m Hdom).
        split; [destruct m; [discriminate|reflexivity|reflexivity]|].
        split; [unfold link_guard; destruct (bytes_eqb rgd (B "x != nil;GetLink")); reflexivity|].
        change (nrmv (FFloat m)) with (FFloat m). cbn [fval_is_zero]. exact Hz.
    Qed.

    (* all guards that remain after dropping the value guard are value guards: they only look at the bytes *)
    Lemma only_val_guards b gs : filter nonval gs = [] ->
      eval_guards fs b gs = Some (match gs with [] => true | _ => match b with [] => false | _ => true end end).
    Proof.
      induction gs as [|gd r IH]; [reflexivity|]. cbn [filter]. destruct gd; cbn [nonval]; try discriminate.
      intros H. cbn [eval_guards eval_guard]. destruct b; [reflexivity|]. rewrite (IH H). destruct r; reflexivity.
    Qed.

    Lemma get_miss ku k0 o : key_plain k0 = true -> find_key (fun k => k) ms k0 = find_key (fun k => k) o k0 ->
      find_key (fun k => k) o k0 = None -> fj_get ku val k0 = None.
    Proof. intros Hp H Hn. rewrite (fj_get_plain ku ms k0 Hms Hp), H. exact Hn. Qed.

    Lemma field_unset_basic ty f e r o :
      leafless ty = true ->
      pair_ok ty f e r = true ->
      entry_out jw_tables (tr fe) d fs e = Some o ->
      (forall k0, In k0 (keys_of e) -> find_key (fun k => k) ms k0 = find_key (fun k => k) o k0) ->
      getf f fs = None ->
      (forall kv, In kv o -> tree_ok 2 (snd kv)) /\
      exists ox, gv (rf_getter r) (rf_term r) (rf_conv r) = Some ox
                 /\ match ox with None => True | Some x => fval_is_zero (link_guard (rf_guard r) x) = true end.
    Proof.
      intros Hnl Hpair Hout Hlook Hg.
      destruct e as [t w p via gs]. destruct r as [rfid rt rg rc rgd].
      unfold pair_ok in Hpair. apply andb_true_iff in Hpair. destruct Hpair as [Hpair Htotal].
      unfold pair_ok_core in Hpair. cbn [wf_path wf_term wf_guards rf_term rf_getter rf_conv rf_guard] in *.
      rewrite !andb_true_iff in Hpair. destruct Hpair as [[[[[[[Hp Ht] Hplain] Hwf] Hgf] Hgs] Hcv] Hty].
      destruct p as [|f' [|f2 p]]; try discriminate. apply fid_beq_eq in Hp. subst f'.
      apply bytes_eqb_eq in Ht. subst rt.
      (* what was written *)
      assert (Ho : o = [] \/ (exists zv, o = [(t, zv)] /\
                 ((bytes_eqb w (B "JSONWriteStringProp") = true /\ zv = Text.FStr [])
                  \/ (bytes_eqb w (B "JSONWriteIntProp") = true /\ zv = FNum (fmt_int 0))
                  \/ (bytes_eqb w (B "JSONWriteFloatProp") = true /\ zv = FNum (fmt_float 0))
                  \/ (bytes_eqb w (B "JSONWriteBoolProp") = true /\ zv = FFalse)))).
      { unfold entry_out in Hout. cbn [wf_guards wf_writer wf_via wf_term wf_path path_get] in Hout. rewrite Hg in Hout.
        rewrite (guards_unset ty f fs [x30] gs Hg Hgs) in Hout.
        destruct (filter nonval gs) as [|g0 gr] eqn:Ef; [|inversion Hout; left; reflexivity].
        destruct (t_value (tr fe) t_run w via t None) as [[[t' ov] r0]|] eqn:Ev; [|discriminate].
        rewrite (only_val_guards (guard_bytes ov) gs Ef) in Hout.
        assert (Hnone : ov = None -> o = []).
        { intros ->. cbn [guard_bytes] in Hout. destruct gs; inversion Hout; reflexivity. }
        revert Ev. unfold t_value.
        destruct (bytes_eqb w (B "JSONWriteItemProp")); [intros Ev; inversion Ev; subst; left; apply Hnone; reflexivity|].
        destruct (bytes_eqb w (B "JSONWriteItemCollectionProp")); [intros Ev; inversion Ev; subst; left; apply Hnone; reflexivity|].
        destruct (bytes_eqb w (B "JSONWriteNaturalLanguageProp")); [intros Ev; inversion Ev; subst; left; apply Hnone; reflexivity|].
        destruct (bytes_eqb w (B "JSONWriteProp")); [intros Ev; inversion Ev; subst; left; apply Hnone; reflexivity|].
        destruct (bytes_eqb w (B "JSONWriteTimeProp")); [discriminate|].
        destruct (bytes_eqb w (B "JSONWriteDurationProp")); [discriminate|].
        destruct (bytes_eqb w (B "JSONWriteIntProp")) eqn:Ei.
        { intros Ev. injection Ev as E1 E2 E3. subst t' ov r0. right. eexists. split; [|right; left; split; [reflexivity|reflexivity]].
          cbn [guard_bytes] in Hout. destruct gs; inversion Hout; reflexivity. }
        destruct (bytes_eqb w (B "JSONWriteFloatProp")) eqn:Efl.
        { intros Ev. injection Ev as E1 E2 E3. subst t' ov r0. right. eexists. split; [|right; right; left; split; [reflexivity|reflexivity]].
          cbn [guard_bytes] in Hout. destruct gs; inversion Hout; reflexivity. }
        destruct (bytes_eqb w (B "JSONWriteBoolProp")) eqn:Eb.
        { intros Ev. injection Ev as E1 E2 E3. subst t' ov r0. right. eexists. split; [|right; right; right; split; [reflexivity|reflexivity]].
          cbn [guard_bytes] in Hout. destruct gs; inversion Hout; reflexivity. }
        destruct (bytes_eqb w (B "JSONWriteStringProp")) eqn:Es.
        { intros Ev. injection Ev as E1 E2 E3. subst t' ov r0. right. eexists. split; [|left; split; [reflexivity|reflexivity]].
          cbn [guard_bytes] in Hout. destruct gs; inversion Hout; reflexivity. }
        destruct (bytes_eqb w (B "JSONWriteIRIProp")); [intros Ev; inversion Ev; subst; left; apply Hnone; reflexivity|].
        discriminate. }
      split.
      { destruct Ho as [->|[zv [-> Hz]]]; [intros kv []|]. intros kv [<-|[]]. cbn [snd].
        destruct Hz as [[_ ->]|[[_ ->]|[[_ ->]|[_ ->]]]]; (split; [reflexivity|cbn; lia]). }
      assert (Hk1 : In t (keys_of (mkwf t w [f] via gs))) by (unfold keys_of; destruct (is_nlv_writer _); left; reflexivity).
      assert (Hget : forall ku, fj_get ku val t = match o with [] => None | kv :: _ => Some (snd kv) end).
      { intros ku. rewrite (fj_get_plain ku ms t Hms Hplain), (Hlook t Hk1).
        destruct Ho as [->|[zv [-> _]]]; [reflexivity|]. cbn [find_key snd]. rewrite bytes_eqb_refl. reflexivity. }
      assert (Hj : jget val t = match o with [] => None | kv :: _ => Some (snd kv) end) by (apply Hget).
      destruct ty; try discriminate; cbn [writer_fits getter_fits conv_ok wf_writer rf_getter rf_conv rf_guard] in *.
      - (* TItem *)
        apply bytes_eqb_eq in Hwf. subst w. destruct Ho as [->|[zv [_ Hz]]]; [|vm_compute in Hz; intuition discriminate].
        apply orb_true_iff in Hgf. destruct Hgf as [Hgf|Hgf]; apply bytes_eqb_eq in Hgf; subst rg; exists None.
        + rewrite gv_item. unfold jget_item. rewrite Hj. split; [reflexivity|exact I].
        + rewrite gv_uri. unfold jget_uri_item. rewrite Hj. split; [reflexivity|exact I].
      - (* TItems *)
        apply bytes_eqb_eq in Hgf. subst rg.
        assert (o = []) as ->.
        { destruct Ho as [->|[zv [_ Hz]]]; [reflexivity|]. exfalso.
          apply orb_true_iff in Hwf. destruct Hwf as [Hwf|Hwf]; apply bytes_eqb_eq in Hwf; subst w; vm_compute in Hz; intuition discriminate. }
        exists None. rewrite gv_items. unfold jget_items. rewrite Hj. split; [reflexivity|exact I].
      - (* TNlv *)
        apply bytes_eqb_eq in Hgf. subst rg. pose proof Hwf as Hwf0. apply bytes_eqb_eq in Hwf. subst w.
        destruct Ho as [->|[zv [_ Hz]]]; [|vm_compute in Hz; intuition discriminate].
        assert (Hk2 : In (t ++ B "Map") (keys_of (mkwf t (B "JSONWriteNaturalLanguageProp") [f] via gs))) by (right; left; reflexivity).
        exists None. rewrite gv_nlv, (plain_no_dot t Hplain). unfold get_nl_field. rewrite Hget.
        rewrite (get_miss _ (t ++ B "Map") [] (key_plain_map t Hplain) (Hlook _ Hk2) eq_refl). split; [reflexivity|exact I].
      - (* TString *)
        assert (Hz : o = [] \/ o = [(t, Text.FStr [])]).
        { destruct Ho as [->|[zv [-> Hz]]]; [left; reflexivity|right].
          rewrite !orb_true_iff in Hwf.
          destruct Hz as [[_ ->]|[[Hc _]|[[Hc _]|[Hc _]]]]; [reflexivity| | |];
            exfalso; apply bytes_eqb_eq in Hc; subst w; vm_compute in Hwf; intuition discriminate. }
        destruct (bytes_eqb rg (B "JSONGetURIItem")) eqn:Eu.
        + apply bytes_eqb_eq in Eu. subst rg. apply bytes_eqb_eq in Hcv. subst rgd.
          rewrite gv_uri. unfold jget_uri_item. rewrite Hj. destruct Hz as [->| ->].
          * exists None. split; [reflexivity|exact I].
          * exists (Some (FItem (IIri false []))). split; [reflexivity|reflexivity].
        + assert (Hin : In rg str_getters).
          { apply existsb_in in Hgf. simpl in Hgf. unfold str_getters. simpl.
            repeat (destruct Hgf as [Hgf|Hgf]; [tauto|]). destruct Hgf as [Hgf|[]]. subst rg. vm_compute in Eu. discriminate. }
          exists None. rewrite (gv_str dg val rg t rc Hin). unfold sub_get. rewrite (plain_no_dot t Hplain), Hj.
          destruct Hz as [->| ->]; split; try reflexivity; exact I.
      - (* TTime *)
        apply bytes_eqb_eq in Hwf. subst w. apply bytes_eqb_eq in Hgf. subst rg.
        destruct Ho as [->|[zv [_ Hz]]]; [|vm_compute in Hz; intuition discriminate].
        exists None. rewrite gv_time, Hj. split; [reflexivity|exact I].
      - (* TDur *)
        apply bytes_eqb_eq in Hwf. subst w. apply bytes_eqb_eq in Hgf. subst rg.
        destruct Ho as [->|[zv [_ Hz]]]; [|vm_compute in Hz; intuition discriminate].
        exists None. rewrite gv_dur, Hj. split; [reflexivity|exact I].
      - (* TUint *)
        apply bytes_eqb_eq in Hwf. subst w. apply bytes_eqb_eq in Hgf. subst rg.
        exists None. rewrite gv_int, Hj. destruct Ho as [->|[zv [-> Hz]]]; [split; [reflexivity|exact I]|].
        destruct Hz as [[Hc _]|[[_ ->]|[[Hc _]|[Hc _]]]]; try (vm_compute in Hc; discriminate). split; [reflexivity|exact I].
      - (* TInt64 *)
        apply bytes_eqb_eq in Hwf. subst w. apply bytes_eqb_eq in Hgf. subst rg.
        exists None. rewrite gv_int, Hj. destruct Ho as [->|[zv [-> Hz]]]; [split; [reflexivity|exact I]|].
        destruct Hz as [[Hc _]|[[_ ->]|[[Hc _]|[Hc _]]]]; try (vm_compute in Hc; discriminate). split; [reflexivity|exact I].
      - (* TBool *)
        apply bytes_eqb_eq in Hwf. subst w. apply bytes_eqb_eq in Hgf. subst rg.
        exists None. rewrite gv_bool, Hj. destruct Ho as [->|[zv [-> Hz]]]; [split; [reflexivity|exact I]|].
        destruct Hz as [[Hc _]|[[Hc _]|[[Hc _]|[_ ->]]]]; try (vm_compute in Hc; discriminate). split; [reflexivity|exact I].
      - (* TFloat *)
        apply bytes_eqb_eq in Hwf. subst w. apply bytes_eqb_eq in Hgf. subst rg.
        exists None. rewrite gv_float, Hj. destruct Ho as [->|[zv [-> Hz]]]; [split; [reflexivity|exact I]|].
        destruct Hz as [[Hc _]|[[Hc _]|[[_ ->]|[Hc _]]]]; try (vm_compute in Hc; discriminate). split; [reflexivity|exact I].
    Qed.
  End OneField.

  (* ---------------------------------------------------------------- the write entry is defined *)
  Section Defined.
    Variable d : nat.
    Variable fs : list (fid * fval).
    Variable bound : nat.
    Hypothesis HD : forall y, wf y = true -> item_size y <= bound -> exists o, tr fe y = Some o.
    Notation t_run := (t_run_table jw_tables d (tr fe)).

    Lemma eval_guards_some b gs : forallb guard_evaluable gs = true -> exists r, eval_guards fs b gs = Some r.
    Proof.
      induction gs as [|gd r IH]; intros H; [exists true; reflexivity|]. cbn [forallb] in H. apply andb_true_iff in H.
      destruct H as [Hg Hr]. destruct (IH Hr) as [r0 Hr0]. cbn [eval_guards].
      assert (Hs : exists x, eval_guard fs b gd = Some x).
      { destruct gd; cbn [eval_guard]; try (eexists; reflexivity). cbn [guard_evaluable] in Hg. rewrite Hg. eexists; reflexivity. }
      destruct Hs as [[|] Hx]; rewrite Hx; [exists r0; exact Hr0|exists false; reflexivity].
    Qed.

    Lemma coll_go_defined term l : forall acc, (forall x, In x l -> exists o, tr fe x = Some o) ->
      exists res,
      (fix go (l : list item) (acc : list fjv) : option (bytes * option fjv * bool) :=
         match l with
         | [] => Some (term, Some (FArr (rev acc)), true)
         | i :: r => match tr fe i with
                     | Some None => go r acc
                     | Some (Some t) => go r (t :: acc)
                     | None => None
                     end
         end) l acc = Some res.
    Proof.
      induction l as [|x r IH]; intros acc H; [eexists; reflexivity|].
      destruct (H x (or_introl eq_refl)) as [o Ho]. cbv beta iota fix. rewrite Ho.
      destruct o; apply IH; intros y Hy; apply H; right; exact Hy.
    Qed.

    Lemma size_elem_le (l : list item) x : In x l -> item_size x <= fval_size (FItems (Some l)).
    Proof.
      intros H. cbn [fval_size]. induction l as [|y r IH]; [destruct H|]. destruct H as [<-|H]; [lia|]. specialize (IH H). lia.
    Qed.

    (* the table of a leaf struct is defined on the parts of the value (shown in Proofs/C01LeafP.v) *)
    Definition struct_defined (v : fval) : Prop :=
      match v with
      | FSource mt c => exists o, t_struct t_run (B "Source_MarshalJSON") (source_fields mt c) = Some o
      | FEndpoints (Some e) => exists o, t_struct t_run (B "Endpoints_MarshalJSON") (endpoints_fields e) = Some o
      | FPubKey id ow pem => exists o, t_struct t_run (B "PublicKey_MarshalJSON") (pubkey_fields id ow pem) = Some o
      | _ => True
      end.

    Lemma entry_defined ty f e r :
      pair_ok ty f e r = true ->
      (forall v, getf f fs = Some v -> wfv ty v = true /\ fval_size v <= bound) ->
      (forall v, getf f fs = Some v -> wfv ty v = true -> struct_defined v) ->
      exists o, entry_out jw_tables (tr fe) d fs e = Some o.
    Proof.
      intros Hpair Hv Hstruct.
      destruct e as [t w p via gs]. destruct r as [rfid rt rg rc rgd].
      unfold pair_ok in Hpair. apply andb_true_iff in Hpair. destruct Hpair as [Hpair Htotal].
      unfold pair_ok_core in Hpair. cbn [wf_path wf_term wf_guards rf_term rf_getter rf_conv rf_guard] in *.
      rewrite !andb_true_iff in Hpair. destruct Hpair as [[[[[[[Hp Ht] Hplain] Hwf] Hgf] Hgs] Hcv] Hty].
      destruct p as [|f' [|f2 p]]; try discriminate. apply fid_beq_eq in Hp. subst f'.
      unfold write_total in Htotal. cbn [wf_guards wf_writer wf_via] in Htotal. rewrite !andb_true_iff in Htotal.
      destruct Htotal as [[Hge Htd] Hvia].
      unfold entry_out. cbn [wf_guards wf_writer wf_via wf_term wf_path path_get].
      destruct (eval_guards_some [x30] (filter nonval gs) (forallb_filter _ _ _ Hge)) as [b1 Hb1]. rewrite Hb1.
      destruct b1; [|eexists; reflexivity].
      (* the writer is defined on the value *)
      assert (Hval : exists res, t_value (tr fe) t_run w via t (getf f fs) = Some res).
      { destruct (getf f fs) as [v|] eqn:Eg.
        - destruct (Hv v eq_refl) as [Hw Hsz]. unfold t_value.
          pose proof (Hstruct v eq_refl Hw) as Hsd.
          destruct ty; try discriminate; cbn [writer_fits wf_writer] in Hwf.
          + (* TItem *) destruct v as [i| | | | | | | | | | | | ]; try discriminate. rewrite Hwf.
            destruct (HD i Hw Hsz) as [o Ho]. rewrite Ho. eexists; reflexivity.
          + (* TItems *) destruct v as [ |[[|x l]|]| | | | | | | | | | | ]; try discriminate.
            apply orb_true_iff in Hwf. destruct Hwf as [Hwf|Hwf]; apply bytes_eqb_eq in Hwf; subst w; ev_eqb.
            * cbn [wf_fval] in Hw. apply andb_true_iff in Hw. destruct Hw as [Hel _].
              refine (coll_go_defined t (x :: l) [] _). intros y Hy.
              destruct (wf_list_elems layout_of registry load_switch activity_types actor_types link_types (x :: l) Hel y Hy) as [_ Hwy].
              apply (HD y Hwy). pose proof (size_elem_le (x :: l) y Hy). lia.
            * destruct (HD (IItems false (Some (x :: l))) Hw Hsz) as [o Ho]. rewrite Ho. eexists; reflexivity.
          + (* TNlv *) destruct v as [ | |[l|]| | | | | | | | | | ]; try discriminate. apply bytes_eqb_eq in Hwf. subst w. ev_eqb. eexists; reflexivity.
          + (* TString *) destruct v as [ | | |s| | | | | | | | | ]; try discriminate. cbn [wf_fval] in Hw.
            destruct (string_ok_facts s Hw) as [Hne _].
            rewrite !orb_true_iff in Hwf. destruct Hwf as [[Hwf|Hwf]|Hwf]; apply bytes_eqb_eq in Hwf; subst w; ev_eqb.
            * change (bytes_eqb (B "JSONWriteProp") (B "JSONWriteProp")) with true in Hvia. cbn [negb orb] in Hvia.
              unfold known_string_vias in Hvia. cbn [existsb] in Hvia. rewrite orb_false_r in Hvia.
              assert (E : bytes_eqb via (B "MarshalJSON:ID") || bytes_eqb via (B "MarshalJSON:IRI")
                          || bytes_eqb via (B "MarshalJSON:ActivityVocabularyType") || bytes_eqb via (B "MarshalJSON:MimeType")
                          || bytes_eqb via (B "json.Marshal") = true).
              { rewrite !orb_true_iff in Hvia. rewrite !orb_true_iff.
                destruct Hvia as [H|[H|[H|[H|H]]]]; apply bytes_eqb_eq in H; rewrite H; vm_compute; tauto. }
              rewrite E. eexists; reflexivity.
            * eexists; reflexivity.
            * destruct s; [congruence|]. eexists; reflexivity.
          + (* TTime *) destruct v as [ | | | |tm| | | | | | | | ]; try discriminate. apply bytes_eqb_eq in Hwf. subst w. ev_eqb.
            destruct (time_writable tm); eexists; reflexivity.
          + (* TDur *) destruct v as [ | | | | |dd| | | | | | | ]; try discriminate. apply bytes_eqb_eq in Hwf. subst w. ev_eqb.
            cbn [wf_fval] in Hw. assert (Hdom : dur_dom dd = true) by exact Hw.
            destruct (dur_roundtrip dd Hdom) as [b [Hb _]]. rewrite Hb. eexists; reflexivity.
          + destruct v; try discriminate. apply bytes_eqb_eq in Hwf. subst w. ev_eqb. eexists; reflexivity.
          + destruct v; try discriminate. apply bytes_eqb_eq in Hwf. subst w. ev_eqb. eexists; reflexivity.
          + destruct v; try discriminate. apply bytes_eqb_eq in Hwf. subst w. ev_eqb. eexists; reflexivity.
          + destruct v; try discriminate. apply bytes_eqb_eq in Hwf. subst w. ev_eqb. eexists; reflexivity.
          + (* TSource *) destruct v as [ | | | | | | | | | |mt c| | ]; try discriminate. apply bytes_eqb_eq in Hwf. subst w. ev_eqb.
            destruct Hsd as [o Ho]. rewrite Ho. eexists; reflexivity.
          + (* TEndpoints *) destruct v as [ | | | | | | | | | | |[e|]| ]; try discriminate. apply bytes_eqb_eq in Hwf. subst w. ev_eqb.
            destruct Hsd as [o Ho]. rewrite Ho. eexists; reflexivity.
          + (* TPubKey *) destruct v as [ | | | | | | | | | | | |id ow pem]; try discriminate. apply bytes_eqb_eq in Hwf. subst w. ev_eqb.
            destruct Hsd as [o Ho]. rewrite Ho. eexists; reflexivity.
        - (* unset *)
          assert (Hnt : match ty with TTime | TDur => False | _ => True end).
          { destruct ty; try exact I.
            - rewrite (guards_unset TTime f fs [x30] gs Eg Hgs) in Hb1.
              destruct (filter nonval gs) eqn:Ef; [|discriminate]. exfalso.
              apply existsb_exists in Htd. destruct Htd as [g0 [Hin Hnv]].
              assert (In g0 (filter nonval gs)) by (apply filter_In; split; assumption). rewrite Ef in H. destruct H.
            - rewrite (guards_unset TDur f fs [x30] gs Eg Hgs) in Hb1.
              destruct (filter nonval gs) eqn:Ef; [|discriminate]. exfalso.
              apply existsb_exists in Htd. destruct Htd as [g0 [Hin Hnv]].
              assert (In g0 (filter nonval gs)) by (apply filter_In; split; assumption). rewrite Ef in H. destruct H. }
          unfold t_value.
          destruct ty; try discriminate; try (destruct Hnt); cbn [writer_fits wf_writer] in Hwf.
          + rewrite Hwf. eexists; reflexivity.
          + apply orb_true_iff in Hwf. destruct Hwf as [Hwf|Hwf]; apply bytes_eqb_eq in Hwf; subst w; ev_eqb; eexists; reflexivity.
          + apply bytes_eqb_eq in Hwf. subst w. ev_eqb. eexists; reflexivity.
          + rewrite !orb_true_iff in Hwf. destruct Hwf as [[Hwf|Hwf]|Hwf]; apply bytes_eqb_eq in Hwf; subst w; ev_eqb; eexists; reflexivity.
          + apply bytes_eqb_eq in Hwf. subst w. ev_eqb. eexists; reflexivity.
          + apply bytes_eqb_eq in Hwf. subst w. ev_eqb. eexists; reflexivity.
          + apply bytes_eqb_eq in Hwf. subst w. ev_eqb. eexists; reflexivity.
          + apply bytes_eqb_eq in Hwf. subst w. ev_eqb. eexists; reflexivity.
          + apply bytes_eqb_eq in Hwf. subst w. ev_eqb. eexists; reflexivity.
          + apply bytes_eqb_eq in Hwf. subst w. ev_eqb. eexists; reflexivity.
          + apply bytes_eqb_eq in Hwf. subst w. ev_eqb. eexists; reflexivity. }
      destruct Hval as [[[t' ov] r0] Hval]. rewrite Hval.
      destruct (eval_guards_some (guard_bytes ov) gs Hge) as [b2 Hb2]. rewrite Hb2. destruct b2; eexists; reflexivity.
    Qed.
  End Defined.
End Field.
