(* C01, layer (c), plumbing: both table interpreters run over the FLATTENED tables of Model/JsonCheck.v
   (flatten_w / flatten_r, the lists the table conditions talk about).
     write side: the members t_run_table writes are the concatenation, entry by entry of flatten_w, of what each
                 entry contributes (entry_out); the notEmpty flag is set as soon as one member was written
                 (under the decidable condition acc_ok on the accumulation operators);
     read side:  run_table is a left fold over flatten_r;
     lookup:     Object.Get on the written members finds the contribution of the entry that owns the key. *)
From AP.Model Require Import Prelude Bytes Vocab Pred Json JsonLeaf JsonTables Dispatch Text Layout JsonEnc JsonTree JsonCheck JsonDec JsonRoundCheck.
From AP.Proofs Require Import NlvP TextP.
Local Open Scope nat_scope.

(* ------------------------------------------------------------------ write side *)
Section WFlat.
  Variable jw_tables : list (bytes * bool * list wstmt).
  Variable t_i : item -> option (option fjv).

  (* flatten_w with, for every entry, the depth at which the tables it calls (leaf structs) are run *)
  Fixpoint flatten_wd (depth : nat) (name : bytes) : option (list (nat * wflat)) :=
    match depth with
    | O => None
    | S d =>
        match jw_table jw_tables name with
        | None => None
        | Some (_, stmts) =>
            (fix go (l : list wstmt) : option (list (nat * wflat)) :=
               match l with
               | [] => Some []
               | WProp t w p v g AccOther _ :: _ => None
               | WProp t w p v g _ _ :: r =>
                   match go r with Some rs => Some ((d, mkwf t w p v g) :: rs) | None => None end
               | WDelegate _ [] _ _ :: r => go r
               | WDelegate _ fn AccOther _ :: _ => None
               | WDelegate _ fn _ _ :: r =>
                   match flatten_wd d fn, go r with
                   | Some a, Some b => Some (a ++ b)
                   | _, _ => None
                   end
               | WUnrecognised _ _ :: _ => None
               end) stmts
        end
    end.

  Lemma flatten_wd_w depth : forall name, flatten_w jw_tables depth name = option_map (map snd) (flatten_wd depth name).
  Proof.
    induction depth as [|d IH]; intros name; [reflexivity|].
    cbn [flatten_w flatten_wd]. destruct (jw_table jw_tables name) as [[init stmts]|]; [|reflexivity].
    induction stmts as [|s r IHs]; [reflexivity|].
    destruct s as [t w p v g acc pos|on fn acc pos|src pos].
    - destruct acc; try reflexivity; rewrite IHs;
        destruct ((fix go (l : list wstmt) : option (list (nat * wflat)) :=
               match l with
               | [] => Some []
               | WProp t w p v g AccOther _ :: _ => None
               | WProp t w p v g _ _ :: r =>
                   match go r with Some rs => Some ((d, mkwf t w p v g) :: rs) | None => None end
               | WDelegate _ [] _ _ :: r => go r
               | WDelegate _ fn AccOther _ :: _ => None
               | WDelegate _ fn _ _ :: r =>
                   match flatten_wd d fn, go r with
                   | Some a, Some b => Some (a ++ b)
                   | _, _ => None
                   end
               | WUnrecognised _ _ :: _ => None
               end) r); reflexivity.
    - destruct fn as [|f0 fn]; [exact IHs|].
      destruct acc; try reflexivity; rewrite IH, IHs; destruct (flatten_wd d (f0 :: fn)) as [a|]; cbn [option_map];
        try reflexivity;
        destruct ((fix go (l : list wstmt) : option (list (nat * wflat)) :=
               match l with
               | [] => Some []
               | WProp t w p v g AccOther _ :: _ => None
               | WProp t w p v g _ _ :: r =>
                   match go r with Some rs => Some ((d, mkwf t w p v g) :: rs) | None => None end
               | WDelegate _ [] _ _ :: r => go r
               | WDelegate _ fn AccOther _ :: _ => None
               | WDelegate _ fn _ _ :: r =>
                   match flatten_wd d fn, go r with
                   | Some a, Some b => Some (a ++ b)
                   | _, _ => None
                   end
               | WUnrecognised _ _ :: _ => None
               end) r); cbn [option_map]; try reflexivity; rewrite map_app; reflexivity.
    - reflexivity.
  Qed.

  (* what one entry contributes: no member, or one *)
  Definition entry_out (d : nat) (fs : list (fid * fval)) (e : wflat) : option (list (bytes * fjv)) :=
    match eval_guards fs [x30] (filter nonval (wf_guards e)) with
    | None => None
    | Some false => Some []
    | Some true =>
        match t_value t_i (t_run_table jw_tables d t_i) (wf_writer e) (wf_via e) (wf_term e) (path_get (wf_path e) fs) with
        | None => None
        | Some (t', o, r) =>
            match eval_guards fs (guard_bytes o) (wf_guards e) with
            | None => None
            | Some false => Some []
            | Some true => Some (match o with None => [] | Some v => [(t', v)] end)
            end
        end
    end.

  Inductive outs_of (fs : list (fid * fval)) : list (nat * wflat) -> list (list (bytes * fjv)) -> Prop :=
  | outs_nil : outs_of fs [] []
  | outs_cons de o es os : entry_out (fst de) fs (snd de) = Some o -> outs_of fs es os -> outs_of fs (de :: es) (o :: os).

  Lemma outs_app fs a b oa ob : outs_of fs a oa -> outs_of fs b ob -> outs_of fs (a ++ b) (oa ++ ob).
  Proof. intros Ha Hb. induction Ha; [exact Hb|]. cbn [app]. constructor; assumption. Qed.

  Lemma run_flat fs : forall depth name ms ne esd,
    t_run_table jw_tables depth t_i name fs = Some (ms, ne) -> flatten_wd depth name = Some esd ->
    exists os, outs_of fs esd os /\ ms = concat os.
  Proof.
    induction depth as [|d IH]; intros name ms ne esd Hr Hf; [discriminate|].
    cbn [t_run_table] in Hr. cbn [flatten_wd] in Hf.
    destruct (jw_table jw_tables name) as [[init stmts]|]; [|discriminate].
    assert (G : forall stmts ms0 ne0 ms ne esd,
               t_stmts t_i (t_run_table jw_tables d t_i) stmts fs (ms0, ne0) = Some (ms, ne) ->
               (fix go (l : list wstmt) : option (list (nat * wflat)) :=
                  match l with
                  | [] => Some []
                  | WProp t w p v g AccOther _ :: _ => None
                  | WProp t w p v g _ _ :: r =>
                      match go r with Some rs => Some ((d, mkwf t w p v g) :: rs) | None => None end
                  | WDelegate _ [] _ _ :: r => go r
                  | WDelegate _ fn AccOther _ :: _ => None
                  | WDelegate _ fn _ _ :: r =>
                      match flatten_wd d fn, go r with
                      | Some a, Some b => Some (a ++ b)
                      | _, _ => None
                      end
                  | WUnrecognised _ _ :: _ => None
                  end) stmts = Some esd ->
               exists os, outs_of fs esd os /\ ms = ms0 ++ concat os).
    { clear Hr Hf stmts ms ne esd init. induction stmts as [|s r IHs]; intros ms0 ne0 ms ne esd Hr Hf.
      - inversion Hr; inversion Hf; subst. exists []. split; [constructor|]. rewrite app_nil_r. reflexivity.
      - cbn [t_stmts] in Hr. destruct s as [t w p v g acc pos|on fn acc pos|src pos].
        + assert (Hf' : exists rs, (fix go (l : list wstmt) : option (list (nat * wflat)) :=
                  match l with
                  | [] => Some []
                  | WProp t w p v g AccOther _ :: _ => None
                  | WProp t w p v g _ _ :: r =>
                      match go r with Some rs => Some ((d, mkwf t w p v g) :: rs) | None => None end
                  | WDelegate _ [] _ _ :: r => go r
                  | WDelegate _ fn AccOther _ :: _ => None
                  | WDelegate _ fn _ _ :: r =>
                      match flatten_wd d fn, go r with
                      | Some a, Some b => Some (a ++ b)
                      | _, _ => None
                      end
                  | WUnrecognised _ _ :: _ => None
                  end) r = Some rs /\ esd = (d, mkwf t w p v g) :: rs).
          { destruct acc; try discriminate;
              (match type of Hf with match ?X with _ => _ end = _ => destruct X as [rs|]; [|discriminate] end);
              inversion Hf; eexists; split; reflexivity. }
          destruct Hf' as [rs [Hrs ->]].
          pose (eo := entry_out d fs (mkwf t w p v g)). unfold entry_out in eo. cbn [wf_guards wf_writer wf_via wf_term wf_path] in eo.
          destruct (eval_guards fs [x30] (filter (fun g0 => match g0 with GValNonEmpty => false | _ => true end) g)) as [[|]|] eqn:E1;
            [| |discriminate].
          * destruct (t_value t_i (t_run_table jw_tables d t_i) w v t (path_get p fs)) as [[[t' o] r0]|] eqn:Ev; [|discriminate].
            destruct (eval_guards fs (guard_bytes o) g) as [[|]|] eqn:E2; [| |discriminate].
            -- destruct (apply_acc acc r0 ne0) as [ne1|]; [|discriminate].
               destruct (IHs _ _ _ _ _ Hr Hrs) as [os [Ho Hm]].
               exists ((match o with None => [] | Some v0 => [(t', v0)] end) :: os). split.
               ++ constructor; [|exact Ho]. unfold entry_out. cbn [fst snd wf_guards wf_writer wf_via wf_term wf_path].
                  unfold nonval. rewrite E1, Ev, E2. reflexivity.
               ++ rewrite Hm. cbn [concat]. destruct o; [rewrite <- app_assoc|]; reflexivity.
            -- destruct (IHs _ _ _ _ _ Hr Hrs) as [os [Ho Hm]]. exists ([] :: os). split; [|exact Hm].
               constructor; [|exact Ho]. unfold entry_out. cbn [fst snd wf_guards wf_writer wf_via wf_term wf_path].
               unfold nonval. rewrite E1, Ev, E2. reflexivity.
          * destruct (IHs _ _ _ _ _ Hr Hrs) as [os [Ho Hm]]. exists ([] :: os). split; [|exact Hm].
            constructor; [|exact Ho]. unfold entry_out. cbn [fst snd wf_guards wf_writer wf_via wf_term wf_path].
            unfold nonval. rewrite E1. reflexivity.
        + destruct fn as [|f0 fn]; [exact (IHs _ _ _ _ _ Hr Hf)|].
          destruct (t_run_table jw_tables d t_i (f0 :: fn) fs) as [[ms' r0]|] eqn:Er; [|discriminate].
          destruct (apply_acc acc r0 ne0) as [ne1|]; [|discriminate].
          assert (Hf' : exists a b, flatten_wd d (f0 :: fn) = Some a /\
                  (fix go (l : list wstmt) : option (list (nat * wflat)) :=
                  match l with
                  | [] => Some []
                  | WProp t w p v g AccOther _ :: _ => None
                  | WProp t w p v g _ _ :: r =>
                      match go r with Some rs => Some ((d, mkwf t w p v g) :: rs) | None => None end
                  | WDelegate _ [] _ _ :: r => go r
                  | WDelegate _ fn AccOther _ :: _ => None
                  | WDelegate _ fn _ _ :: r =>
                      match flatten_wd d fn, go r with
                      | Some a, Some b => Some (a ++ b)
                      | _, _ => None
                      end
                  | WUnrecognised _ _ :: _ => None
                  end) r = Some b /\ esd = a ++ b).
          { destruct acc; try discriminate; destruct (flatten_wd d (f0 :: fn)) as [a|]; try discriminate;
              (match type of Hf with match ?X with _ => _ end = _ => destruct X as [b|]; [|discriminate] end);
              inversion Hf; eexists; eexists; repeat split; reflexivity. }
          destruct Hf' as [a [b [Ha [Hb ->]]]].
          destruct (IH _ _ _ _ Er Ha) as [oa [Hoa Hma]].
          destruct (IHs _ _ _ _ _ Hr Hb) as [ob [Hob Hmb]].
          exists (oa ++ ob). split; [apply outs_app; assumption|].
          rewrite Hmb, Hma, concat_app, app_assoc. reflexivity.
        + discriminate. }
    destruct (G stmts [] init ms ne esd Hr Hf) as [os [Ho Hm]]. exists os. split; [exact Ho|exact Hm].
  Qed.

  (* the converse: when every entry is defined, so is the table *)
  Lemma run_defined fs : forall depth name esd,
    flatten_wd depth name = Some esd ->
    (forall de, In de esd -> exists o, entry_out (fst de) fs (snd de) = Some o) ->
    exists ms ne, t_run_table jw_tables depth t_i name fs = Some (ms, ne).
  Proof.
    induction depth as [|d IH]; intros name esd Hf Hall; [discriminate|].
    cbn [flatten_wd] in Hf. cbn [t_run_table].
    destruct (jw_table jw_tables name) as [[init stmts]|]; [|discriminate].
    assert (G : forall stmts esd st,
               (fix go (l : list wstmt) : option (list (nat * wflat)) :=
                  match l with
                  | [] => Some []
                  | WProp t w p v g AccOther _ :: _ => None
                  | WProp t w p v g _ _ :: r =>
                      match go r with Some rs => Some ((d, mkwf t w p v g) :: rs) | None => None end
                  | WDelegate _ [] _ _ :: r => go r
                  | WDelegate _ fn AccOther _ :: _ => None
                  | WDelegate _ fn _ _ :: r =>
                      match flatten_wd d fn, go r with
                      | Some a, Some b => Some (a ++ b)
                      | _, _ => None
                      end
                  | WUnrecognised _ _ :: _ => None
                  end) stmts = Some esd ->
               (forall de, In de esd -> exists o, entry_out (fst de) fs (snd de) = Some o) ->
               exists ms ne, t_stmts t_i (t_run_table jw_tables d t_i) stmts fs st = Some (ms, ne)).
    { clear Hf Hall stmts esd init. induction stmts as [|s r IHs]; intros esd [ms0 ne0] Hf Hall.
      - exists ms0, ne0. reflexivity.
      - cbn [t_stmts]. destruct s as [t w p v g acc pos|on fn acc pos|src pos]; [| |discriminate].
        + assert (Hf' : exists rs, (fix go (l : list wstmt) : option (list (nat * wflat)) :=
                  match l with
                  | [] => Some []
                  | WProp t w p v g AccOther _ :: _ => None
                  | WProp t w p v g _ _ :: r =>
                      match go r with Some rs => Some ((d, mkwf t w p v g) :: rs) | None => None end
                  | WDelegate _ [] _ _ :: r => go r
                  | WDelegate _ fn AccOther _ :: _ => None
                  | WDelegate _ fn _ _ :: r =>
                      match flatten_wd d fn, go r with
                      | Some a, Some b => Some (a ++ b)
                      | _, _ => None
                      end
                  | WUnrecognised _ _ :: _ => None
                  end) r = Some rs /\ esd = (d, mkwf t w p v g) :: rs /\ acc <> AccOther).
          { destruct acc; try discriminate;
              (match type of Hf with match ?X with _ => _ end = _ => destruct X as [rs|]; [|discriminate] end);
              inversion Hf; (eexists; split; [reflexivity|split; [reflexivity|discriminate]]). }
          destruct Hf' as [rs [Hrs [-> Hacc]]].
          destruct (Hall _ (or_introl eq_refl)) as [o Ho]. unfold entry_out in Ho. cbn [fst snd wf_guards wf_writer wf_via wf_term wf_path] in Ho.
          unfold nonval in Ho.
          assert (Hrest : forall st, exists ms ne, t_stmts t_i (t_run_table jw_tables d t_i) r fs st = Some (ms, ne))
            by (intros st; apply (IHs rs st Hrs); intros de Hde; apply Hall; right; exact Hde).
          destruct (eval_guards fs [x30] (filter (fun g0 => match g0 with GValNonEmpty => false | _ => true end) g)) as [[|]|];
            [|apply Hrest|discriminate].
          destruct (t_value t_i (t_run_table jw_tables d t_i) w v t (path_get p fs)) as [[[t' ov] r0]|]; [|discriminate].
          destruct (eval_guards fs (guard_bytes ov) g) as [[|]|]; [|apply Hrest|discriminate].
          destruct acc; try congruence; cbn [apply_acc]; apply Hrest.
        + destruct fn as [|f0 fn]; [exact (IHs esd (ms0, ne0) Hf Hall)|].
          assert (Hf' : exists a b, flatten_wd d (f0 :: fn) = Some a /\
                  (fix go (l : list wstmt) : option (list (nat * wflat)) :=
                  match l with
                  | [] => Some []
                  | WProp t w p v g AccOther _ :: _ => None
                  | WProp t w p v g _ _ :: r =>
                      match go r with Some rs => Some ((d, mkwf t w p v g) :: rs) | None => None end
                  | WDelegate _ [] _ _ :: r => go r
                  | WDelegate _ fn AccOther _ :: _ => None
                  | WDelegate _ fn _ _ :: r =>
                      match flatten_wd d fn, go r with
                      | Some a, Some b => Some (a ++ b)
                      | _, _ => None
                      end
                  | WUnrecognised _ _ :: _ => None
                  end) r = Some b /\ esd = a ++ b /\ acc <> AccOther).
          { destruct acc; try discriminate; destruct (flatten_wd d (f0 :: fn)) as [a|]; try discriminate;
              (match type of Hf with match ?X with _ => _ end = _ => destruct X as [b|]; [|discriminate] end);
              inversion Hf; (eexists; eexists; split; [reflexivity|split; [reflexivity|split; [reflexivity|discriminate]]]). }
          destruct Hf' as [a [b [Ha [Hb [-> Hacc]]]]].
          destruct (IH (f0 :: fn) a Ha (fun de Hde => Hall de (in_or_app _ _ _ (or_introl Hde)))) as [ms' [r0 Hr]].
          rewrite Hr.
          assert (Hrest : forall st, exists ms ne, t_stmts t_i (t_run_table jw_tables d t_i) r fs st = Some (ms, ne))
            by (intros st; apply (IHs b st Hb); intros de Hde; apply Hall; apply in_or_app; right; exact Hde).
          destruct acc; try congruence; cbn [apply_acc]; apply Hrest. }
    exact (G stmts esd ([], init) Hf Hall).
  Qed.

  Lemma coll_go_r term l : forall acc t o r,
      (fix go (l : list item) (acc : list fjv) : option (bytes * option fjv * bool) :=
          match l with
          | [] => Some (term, Some (FArr (rev acc)), true)
          | i :: r => match t_i i with
                      | Some None => go r acc
                      | Some (Some t) => go r (t :: acc)
                      | None => None
                      end
          end) l acc = Some (t, o, r) -> r = true /\ exists tv, o = Some tv.
  Proof.
    induction l as [|i0 r0 IH]; intros acc t o r H.
    - inversion H. split; [reflexivity|eexists; reflexivity].
    - cbv beta iota fix in H. destruct (t_i i0) as [[t0|]|]; [apply (IH _ _ _ _ H)|apply (IH _ _ _ _ H)|discriminate].
  Qed.

  Lemma value_r_true t_run writer via term v t' tv r :
    t_value t_i t_run writer via term v = Some (t', Some tv, r) -> r = true.
  Proof.
    unfold t_value.
    destruct (bytes_eqb writer (B "JSONWriteItemProp")).
    { destruct v as [[i|l| | | | | | | | | | | ]|]; try discriminate.
      - destruct (t_i i) as [o'|]; [|discriminate]. intros H. inversion H; subst. reflexivity.
      - destruct (t_i (IItems false l)) as [o'|]; [|discriminate]. intros H. inversion H; subst. reflexivity. }
    destruct (bytes_eqb writer (B "JSONWriteItemCollectionProp")).
    { destruct v as [[i|[[|x l]|]| | | | | | | | | | | ]|]; try discriminate.
      intros H. exact (proj1 (coll_go_r term (x :: l) [] _ _ _ H)). }
    destruct (bytes_eqb writer (B "JSONWriteNaturalLanguageProp")).
    { destruct v as [[i|l|[l|]| | | | | | | | | | ]|]; try discriminate. intros H. inversion H as [[H1 H2 H3]]. rewrite H2. reflexivity. }
    destruct (bytes_eqb writer (B "JSONWriteProp")).
    { destruct v as [[i|l|l|s| | | | | | |mt c|[e|]|id o' p]|]; try discriminate.
      - destruct (bytes_eqb via (B "MarshalJSON:ID") || bytes_eqb via (B "MarshalJSON:IRI")
                  || bytes_eqb via (B "MarshalJSON:ActivityVocabularyType") || bytes_eqb via (B "MarshalJSON:MimeType")
                  || bytes_eqb via (B "json.Marshal")); [|discriminate].
        intros H. inversion H as [[H1 H2 H3]]. rewrite H2. reflexivity.
      - destruct (t_struct t_run (B "Source_MarshalJSON") (source_fields mt c)) as [o'|]; [|discriminate].
        intros H. inversion H; subst. reflexivity.
      - destruct (t_struct t_run (B "Endpoints_MarshalJSON") (endpoints_fields e)) as [o'|]; [|discriminate].
        intros H. inversion H; subst. reflexivity.
      - destruct (t_struct t_run (B "PublicKey_MarshalJSON") (pubkey_fields id o' p)) as [o''|]; [|discriminate].
        intros H. inversion H; subst. reflexivity. }
    destruct (bytes_eqb writer (B "JSONWriteTimeProp")).
    { destruct v as [[ | | | |t0| | | | | | | | ]|]; try discriminate. destruct (time_writable t0); intros H; inversion H; reflexivity. }
    destruct (bytes_eqb writer (B "JSONWriteDurationProp")).
    { destruct v as [[ | | | | |d| | | | | | | ]|]; try discriminate. destruct (fmt_xsd_duration d); [|discriminate]. intros H. inversion H. reflexivity. }
    destruct (bytes_eqb writer (B "JSONWriteIntProp")); [intros H; inversion H; reflexivity|].
    destruct (bytes_eqb writer (B "JSONWriteFloatProp")); [intros H; inversion H; reflexivity|].
    destruct (bytes_eqb writer (B "JSONWriteBoolProp")); [intros H; inversion H; reflexivity|].
    destruct (bytes_eqb writer (B "JSONWriteStringProp")).
    { destruct v as [[ | | |s| | | | | | | | | ]|]; try discriminate; intros H; inversion H; reflexivity. }
    destruct (bytes_eqb writer (B "JSONWriteIRIProp")).
    { destruct v as [[ | | |[|c s]| | | | | | | | | ]|]; try discriminate; intros H; inversion H; reflexivity. }
    discriminate.
  Qed.

  (* a statement that always writes cannot have run without a value *)
  Lemma guards_val fs b gs : eval_guards fs b gs = Some true ->
    existsb (fun g => match g with GValNonEmpty => true | _ => false end) gs = true -> b <> [].
  Proof.
    induction gs as [|g r IH]; [discriminate|]. cbn [eval_guards existsb].
    destruct (eval_guard fs b g) as [[|]|] eqn:E; try discriminate. intros H. rewrite orb_true_iff. intros [Hg|Hr].
    - destruct g; try discriminate. cbn [eval_guard] in E. destruct b; [discriminate|discriminate].
    - exact (IH H Hr).
  Qed.

  Lemma guards_len fs b gs f : eval_guards fs b gs = Some true ->
    existsb (fun g => match g, [f] with GLenGt0 f0, [f'] => fid_beq f0 f' | _, _ => false end) gs = true ->
    g_len_gt0 (getf f fs) = true.
  Proof.
    induction gs as [|g r IH]; [discriminate|]. cbn [eval_guards existsb].
    destruct (eval_guard fs b g) as [[|]|] eqn:E; try discriminate. intros H. rewrite orb_true_iff. intros [Hg|Hr].
    - destruct g; try discriminate. cbn [eval_guard] in E.
      destruct (fid_beq f0 f) eqn:Ef; [|discriminate]. apply internal_fid_dec_bl in Ef. subst. inversion E. reflexivity.
    - exact (IH H Hr).
  Qed.

  Lemma always_writes_some t_run fs writer path via term guards t' o r :
    always_writes writer path guards = true ->
    eval_guards fs [x30] (filter nonval guards) = Some true ->
    t_value t_i t_run writer via term (path_get path fs) = Some (t', o, r) ->
    eval_guards fs (guard_bytes o) guards = Some true -> exists tv, o = Some tv.
  Proof.
    unfold always_writes. rewrite !orb_true_iff. intros [[Hv|Hw]|Hc] G1 Hval G2.
    - pose proof (guards_val _ _ _ G2 Hv) as Hne. destruct o; [eexists; reflexivity|exfalso; apply Hne; reflexivity].
    - revert Hval. unfold t_value. cbn [existsb] in Hw.
      destruct (bytes_eqb writer (B "JSONWriteItemProp")) eqn:E1.
      { apply bytes_eqb_eq in E1. subst writer. vm_compute in Hw. discriminate. }
      destruct (bytes_eqb writer (B "JSONWriteItemCollectionProp")) eqn:E2.
      { apply bytes_eqb_eq in E2. subst writer. vm_compute in Hw. discriminate. }
      destruct (bytes_eqb writer (B "JSONWriteNaturalLanguageProp")) eqn:E3.
      { apply bytes_eqb_eq in E3. subst writer. vm_compute in Hw. discriminate. }
      destruct (bytes_eqb writer (B "JSONWriteProp")) eqn:E4.
      { apply bytes_eqb_eq in E4. subst writer. vm_compute in Hw. discriminate. }
      destruct (bytes_eqb writer (B "JSONWriteTimeProp")) eqn:E5.
      { apply bytes_eqb_eq in E5. subst writer. vm_compute in Hw. discriminate. }
      destruct (bytes_eqb writer (B "JSONWriteDurationProp")).
      { destruct (path_get path fs) as [[ | | | | |d| | | | | | | ]|]; try discriminate. destruct (fmt_xsd_duration d); [|discriminate].
        intros H. inversion H. eexists; reflexivity. }
      destruct (bytes_eqb writer (B "JSONWriteIntProp")); [intros H; inversion H; eexists; reflexivity|].
      destruct (bytes_eqb writer (B "JSONWriteFloatProp")); [intros H; inversion H; eexists; reflexivity|].
      destruct (bytes_eqb writer (B "JSONWriteBoolProp")); [intros H; inversion H; eexists; reflexivity|].
      destruct (bytes_eqb writer (B "JSONWriteStringProp")).
      { destruct (path_get path fs) as [[ | | |s| | | | | | | | | ]|]; try discriminate; intros H; inversion H; eexists; reflexivity. }
      rewrite !orb_false_r in Hw. discriminate.
    - apply andb_true_iff in Hc. destruct Hc as [Hw Hg]. apply bytes_eqb_eq in Hw. subst writer.
      destruct path as [|f [|f2 p]]; try (exfalso; clear - Hg; induction guards as [|g r IH]; [discriminate|];
        cbn [existsb] in Hg; apply orb_true_iff in Hg; destruct Hg as [Hg|Hg]; [destruct g; discriminate|exact (IH Hg)]).
      pose proof (guards_len _ _ _ f G2 Hg) as Hl. cbn [path_get] in Hval.
      revert Hval. unfold t_value.
      change (bytes_eqb (B "JSONWriteItemCollectionProp") (B "JSONWriteItemProp")) with false.
      change (bytes_eqb (B "JSONWriteItemCollectionProp") (B "JSONWriteItemCollectionProp")) with true. cbv iota.
      destruct (getf f fs) as [[i|[[|x l]|]|[[|? ?]|]|[|? ?]| | | | | | | | | ]|]; try discriminate.
      intros H. exact (proj2 (coll_go_r term (x :: l) [] _ _ _ H)).
  Qed.

  Lemma stmts_ne t_run fs : forall stmts first ms0 ne0 ms ne,
    acc_ok_stmts first stmts = true ->
    (forall fn ms' r, In fn (flat_map (fun s => match s with WDelegate _ ((_ :: _) as fn) _ _ => [fn] | _ => [] end) stmts) ->
                      t_run fn fs = Some (ms', r) -> ms' <> [] -> r = true) ->
    t_stmts t_i t_run stmts fs (ms0, ne0) = Some (ms, ne) ->
    (first = true -> ms0 = []) -> (ms0 <> [] -> ne0 = true) -> ms <> [] -> ne = true.
  Proof.
    induction stmts as [|s rest IH]; intros first ms0 ne0 ms ne Hok Hsub Hr Hfirst Hinv Hms.
    - inversion Hr; subst. exact (Hinv Hms).
    - cbn [t_stmts] in Hr. cbn [acc_ok_stmts] in Hok.
      destruct s as [term writer path via guards acc pos|on fn acc pos|src pos]; [| |discriminate].
      + apply andb_true_iff in Hok. destruct Hok as [Hacc Hrest].
        assert (Hsub' : forall fn ms' r,
                 In fn (flat_map (fun s => match s with WDelegate _ ((_ :: _) as fn) _ _ => [fn] | _ => [] end) rest) ->
                 t_run fn fs = Some (ms', r) -> ms' <> [] -> r = true) by (intros fn ms' r Hin; apply Hsub; exact Hin).
        assert (Skip : t_stmts t_i t_run rest fs (ms0, ne0) = Some (ms, ne) -> ne = true).
        { intros Hr'. apply (IH false ms0 ne0 ms ne Hrest Hsub' Hr'); [discriminate|exact Hinv|exact Hms]. }
        destruct (eval_guards fs [x30] (filter (fun g => match g with GValNonEmpty => false | _ => true end) guards)) as [[|]|] eqn:G1;
          [|exact (Skip Hr)|discriminate].
        destruct (t_value t_i t_run writer via term (path_get path fs)) as [[[t' o] r]|] eqn:Ev; [|discriminate].
        destruct (eval_guards fs (guard_bytes o) guards) as [[|]|] eqn:G2; [|exact (Skip Hr)|discriminate].
        destruct (apply_acc acc r ne0) as [ne1|] eqn:Ea; [|discriminate].
        apply (IH false (match o with None => ms0 | Some t => ms0 ++ [(t', t)] end) ne1 ms ne Hrest Hsub' Hr); [discriminate| |exact Hms].
        destruct o as [tv|].
        * intros _. pose proof (value_r_true _ _ _ _ _ _ _ _ Ev) as Hrt. subst r.
          destruct acc; try discriminate; cbn [apply_acc] in Ea; inversion Ea; reflexivity.
        * intros Hne. destruct acc; try discriminate; cbn [apply_acc] in Ea; injection Ea as Ea'; rewrite <- Ea'.
          -- rewrite (Hinv Hne). apply orb_true_r.
          -- apply orb_true_iff in Hacc. destruct Hacc as [Hf|Haw].
             ++ exfalso. apply Hne. apply Hfirst. exact Hf.
             ++ destruct (always_writes_some t_run fs writer path via term guards t' None r Haw G1 Ev G2) as [tv Htv]. discriminate.
      + apply andb_true_iff in Hok. destruct Hok as [Hacc Hrest].
        destruct fn as [|f0 fn].
        * apply (IH false ms0 ne0 ms ne Hrest); [intros fn' ms' r Hin; apply Hsub; exact Hin|exact Hr|discriminate|exact Hinv|exact Hms].
        * destruct (t_run (f0 :: fn) fs) as [[ms' r]|] eqn:Er; [|discriminate].
          destruct (apply_acc acc r ne0) as [ne1|] eqn:Ea; [|discriminate].
          assert (Hr' : ms' <> [] -> r = true) by (apply (Hsub (f0 :: fn) ms' r); [left; reflexivity|exact Er]).
          apply (IH false (ms0 ++ ms') ne1 ms ne Hrest); [intros fn' ms'' r' Hin; apply Hsub; right; exact Hin|exact Hr|discriminate| |exact Hms].
          intros Hne. destruct acc; try discriminate; cbn [apply_acc] in Ea; injection Ea as Ea'; rewrite <- Ea'.
          -- destruct ms' as [|m ms']; [|rewrite Hr' by discriminate; reflexivity].
             rewrite app_nil_r in Hne. rewrite (Hinv Hne). apply orb_true_r.
          -- destruct ms' as [|m ms']; [|apply Hr'; discriminate].
             rewrite app_nil_r in Hne. exfalso. apply Hne. apply Hfirst. exact Hacc.
  Qed.

  Lemma run_ne fs : forall depth name ms ne,
    acc_ok jw_tables depth name = true -> t_run_table jw_tables depth t_i name fs = Some (ms, ne) -> ms <> [] -> ne = true.
  Proof.
    induction depth as [|d IH]; intros name ms ne Hok Hr Hms; [discriminate|].
    cbn [acc_ok] in Hok. cbn [t_run_table] in Hr. destruct (jw_table jw_tables name) as [[init stmts]|]; [|discriminate].
    apply andb_true_iff in Hok. destruct Hok as [Hs Hd].
    apply (stmts_ne (t_run_table jw_tables d t_i) fs stmts true [] init ms ne Hs); [|exact Hr|reflexivity|intros C; congruence|exact Hms].
    intros fn ms' r Hin Hrun Hne. apply (IH fn ms' r); [|exact Hrun|exact Hne].
    apply in_flat_map in Hin. destruct Hin as [s [Hs1 Hs2]]. rewrite forallb_forall in Hd. specialize (Hd s Hs1).
    destruct s as [t w p v g a ps|on fn0 a ps|src ps]; [destruct Hs2| |destruct Hs2].
    destruct fn0 as [|f0 fn0]; [destruct Hs2|]. destruct Hs2 as [<-|[]]. exact Hd.
  Qed.
End WFlat.

(* ------------------------------------------------------------------ read side *)
Section RFlat.
  Variable jr_tables : list (bytes * list rstmt).
  Variable li : fjv -> option item.

  Definition read_step (val : fjv) (acc : option (list (fid * fval))) (r : rflat) : option (list (fid * fval)) :=
    match acc with
    | None => None
    | Some acc =>
        match get_value jr_tables li 3 val (rf_getter r) (rf_term r) (rf_conv r) with
        | None => None
        | Some None => Some acc
        | Some (Some x) =>
            let x' := link_guard (rf_guard r) x in
            Some (if fval_is_zero x' then acc else setf (rf_fid r) x' acc)
        end
    end.

  Lemma fold_read_none val rs : fold_left (read_step val) rs None = None.
  Proof. induction rs as [|r rs IH]; [reflexivity|exact IH]. Qed.

  Lemma table_go_nil lt val acc : table_go jr_tables li lt val [] acc = Some acc.
  Proof. reflexivity. Qed.
  Lemma table_go_prop lt val fd tm g cv gd pos r acc :
    table_go jr_tables li lt val (RProp fd tm g cv gd pos :: r) acc =
    match get_value jr_tables li 3 val g tm cv with
    | None => None
    | Some None => table_go jr_tables li lt val r acc
    | Some (Some x) => table_go jr_tables li lt val r (if fval_is_zero (link_guard gd x) then acc else setf fd (link_guard gd x) acc)
    end.
  Proof. reflexivity. Qed.
  Lemma table_go_deleg lt val on fn pos r acc :
    table_go jr_tables li lt val (RDelegate on fn pos :: r) acc =
    match lt fn val acc with Some acc' => table_go jr_tables li lt val r acc' | None => None end.
  Proof. reflexivity. Qed.

  Lemma load_flat val : forall depth name acc rs,
    flatten_r jr_tables depth name = Some rs ->
    run_table jr_tables li depth name val acc = fold_left (read_step val) rs (Some acc).
  Proof.
    induction depth as [|d IH]; intros name acc rs Hf; [discriminate|].
    cbn [flatten_r] in Hf. cbn [run_table]. destruct (jr_table jr_tables name) as [stmts|]; [|discriminate].
    revert acc rs Hf. induction stmts as [|s r IHs]; intros acc rs Hf.
    - inversion Hf. reflexivity.
    - destruct s as [f t g c gd pos|on fn pos|src pos]; [| |discriminate].
      + match type of Hf with match ?X with _ => _ end = _ => destruct X as [rs'|] eqn:Er; [|discriminate] end.
        inversion Hf; subst. cbn [fold_left]. unfold read_step at 2. cbn [rf_getter rf_term rf_conv rf_guard rf_fid].
        rewrite table_go_prop.
        destruct (get_value jr_tables li 3 val g t c) as [[x|]|].
        * apply IHs. reflexivity.
        * apply IHs. reflexivity.
        * rewrite fold_read_none. reflexivity.
      + destruct (flatten_r jr_tables d fn) as [a|] eqn:Ea; [|discriminate].
        match type of Hf with match ?X with _ => _ end = _ => destruct X as [b|] eqn:Eb; [|discriminate] end.
        inversion Hf; subst. rewrite fold_left_app. rewrite table_go_deleg. rewrite (IH fn acc a Ea).
        destruct (fold_left (read_step val) a (Some acc)) as [acc'|].
        * apply IHs. reflexivity.
        * rewrite fold_read_none. reflexivity.
  Qed.
End RFlat.

(* ------------------------------------------------------------------ Object.Get on written members *)
Lemma alpha_not_bs b : is_alpha b = true -> Byte.eqb bBS b = false /\ Byte.eqb b bBS = false /\ Byte.eqb b x2e = false.
Proof.
  assert (S : forallb (fun b => negb (is_alpha b) || (negb (Byte.eqb bBS b) && negb (Byte.eqb b bBS) && negb (Byte.eqb b x2e))) all_bytes = true)
    by (vm_compute; reflexivity).
  pose proof (byte_sweep _ S b) as Hb. cbv beta in Hb. intros H. rewrite H in Hb. simpl in Hb.
  rewrite !andb_true_iff, !negb_true_iff in Hb. tauto.
Qed.

Lemma plain_no_bs k : key_plain k = true -> has_bs k = false.
Proof.
  unfold key_plain, has_bs. induction k as [|b r IH]; [reflexivity|]. simpl. rewrite andb_true_iff. intros [Hb Hr].
  destruct (alpha_not_bs b Hb) as [H1 _]. rewrite H1. exact (IH Hr).
Qed.

Lemma plain_unescape k : key_plain k = true -> fj_unescape k = k.
Proof.
  unfold key_plain. induction k as [|b r IH]; [reflexivity|]. simpl forallb. rewrite andb_true_iff. intros [Hb Hr].
  destruct (alpha_not_bs b Hb) as [_ [H2 _]]. rewrite (fj_unescape_plain b r H2), (IH Hr). reflexivity.
Qed.

Lemma plain_no_dot k : key_plain k = true -> cut_byte x2e k = (k, None).
Proof.
  unfold key_plain. induction k as [|b r IH]; [reflexivity|]. simpl forallb. rewrite andb_true_iff. intros [Hb Hr].
  destruct (alpha_not_bs b Hb) as [_ [_ H3]]. simpl. rewrite H3, (IH Hr). reflexivity.
Qed.

Lemma find_key_unescape_plain kvs key : forallb (fun kv => key_plain (fst kv)) kvs = true ->
  find_key fj_unescape kvs key = find_key (fun k => k) kvs key.
Proof.
  induction kvs as [|[k v] r IH]; [reflexivity|]. simpl forallb. rewrite andb_true_iff. intros [Hk Hr].
  cbn [find_key]. rewrite (plain_unescape k Hk), (IH Hr). reflexivity.
Qed.

(* Get on an object all of whose keys are plain is the plain association lookup *)
Lemma jget_plain kvs key : forallb (fun kv => key_plain (fst kv)) kvs = true -> key_plain key = true ->
  jget (FObj kvs) key = find_key (fun k => k) kvs key.
Proof.
  intros Hk Hq. unfold jget, fj_get. rewrite (plain_no_bs key Hq). cbn [negb andb].
  rewrite (find_key_unescape_plain kvs key Hk). destruct (find_key (fun k => k) kvs key); reflexivity.
Qed.

Lemma find_key_app a b key :
  find_key (fun k => k) (a ++ b) key =
  match find_key (fun k => k) a key with Some v => Some v | None => find_key (fun k => k) b key end.
Proof.
  induction a as [|[k v] r IH]; [reflexivity|]. cbn [app find_key]. destruct (bytes_eqb k key); [reflexivity|exact IH].
Qed.

Lemma find_key_absent kvs key : (forall kv, In kv kvs -> fst kv <> key) -> find_key (fun k => k) kvs key = None.
Proof.
  induction kvs as [|[k v] r IH]; intros H; [reflexivity|]. cbn [find_key].
  destruct (bytes_eqb k key) eqn:E.
  - apply bytes_eqb_eq in E. exfalso. apply (H (k, v)); [left; reflexivity|exact E].
  - apply IH. intros kv Hin. apply H. right. exact Hin.
Qed.

Lemma nodup_app_r {A} (a b : list A) : NoDup (a ++ b) -> NoDup b.
Proof. induction a as [|x a IH]; [trivial|]. cbn [app]. intros H. inversion H. auto. Qed.
Lemma nodup_app_disj {A} (a b : list A) x : NoDup (a ++ b) -> In x a -> In x b -> False.
Proof.
  induction a as [|y a IH]; intros Hnd Ha Hb; [destruct Ha|]. cbn [app] in Hnd. inversion Hnd as [|? ? Hn Hr]; subst.
  destruct Ha as [->|Ha]; [apply Hn; apply in_or_app; right; exact Hb|exact (IH Hr Ha Hb)].
Qed.
Lemma forall2_in_r {A B} (R : A -> B -> Prop) es os o : Forall2 R es os -> In o os -> exists e, In e es /\ R e o.
Proof.
  intros H. induction H as [|e o' es os Hh Ht IH]; intros Hin; [destruct Hin|].
  destruct Hin as [->|Hin]; [exists e; split; [left; reflexivity|exact Hh]|].
  destruct (IH Hin) as [e' [He' Hr]]. exists e'. split; [right; exact He'|exact Hr].
Qed.

(* the members are the concatenation of per-entry contributions; a key owned by one entry is found in that
   entry's contribution *)
Lemma find_key_concat (A : Type) (keys : A -> list bytes) :
  forall (es : list A) (os : list (list (bytes * fjv))) e o key,
  NoDup (flat_map keys es) ->
  Forall2 (fun e o => forall kv, In kv o -> In (fst kv) (keys e)) es os ->
  (exists i, nth_error es i = Some e /\ nth_error os i = Some o) ->
  In key (keys e) ->
  find_key (fun k => k) (concat os) key = find_key (fun k => k) o key.
Proof.
  induction es as [|e0 es IH]; intros os e o key Hnd Hf [i [He Ho]] Hk.
  - destruct i; discriminate.
  - inversion Hf as [|? o0 ? os' Hh Ht]; subst. cbn [concat]. rewrite find_key_app.
    cbn [flat_map] in Hnd. pose proof (nodup_app_r _ _ Hnd) as Hnd'.
    destruct i as [|i].
    + inversion He; inversion Ho; subst.
      destruct (find_key (fun k => k) o key) eqn:E; [reflexivity|].
      apply find_key_absent. intros kv Hin Hc.
      apply in_concat in Hin. destruct Hin as [o' [Ho' Hkv]].
      destruct (forall2_in_r _ _ _ _ Ht Ho') as [e' [He' Hown]]. specialize (Hown kv Hkv). rewrite Hc in Hown.
      apply (nodup_app_disj _ _ key Hnd Hk). apply in_flat_map. exists e'. split; assumption.
    + cbn [nth_error] in He, Ho.
      assert (find_key (fun k => k) o0 key = None) as ->.
      { apply find_key_absent. intros kv Hin Hc. specialize (Hh kv Hin). rewrite Hc in Hh.
        apply (nodup_app_disj _ _ key Hnd Hh). apply in_flat_map. exists e. split; [eapply nth_error_In; exact He|exact Hk]. }
      apply (IH os' e o key Hnd' Ht); [exists i; split; assumption|exact Hk].
Qed.
