(* C01, layer (c): item-valued positions.  What the encoder writes for a well-formed item (an IRI, an object,
   a list of those) is read back by each of the three item getters of decoding_json.go as the item's normal form,
   given that the decoder [li] reads back the objects nested one level down (the induction hypothesis of the
   object-level theorem). *)
From AP.Model Require Import Prelude Bytes Vocab Pred Url UrlU Utf8 IriEq Nlv Json Text Equal Coll Dispatch Layout JsonTables JsonLeaf
     JsonEnc JsonTree JsonCheck JsonDec JsonNorm.
From AP.Proofs Require Import NlvP TextP C01StrP C01TreeP C01ParseP AsIriP.
Local Open Scope nat_scope.

(* a text without quote, backslash and control byte holds no backslash-quote pair *)
Lemma no_special_no_bsq s : fj_has_special s = false -> no_bsq s = true.
Proof.
  unfold fj_has_special. induction s as [|x t IH]; [reflexivity|]. cbn [existsb]. rewrite orb_false_iff. intros [Hx Ht].
  destruct t as [|y r]; [reflexivity|].
  change (no_bsq (x :: y :: r)) with (negb (Byte.eqb x bslash && Byte.eqb y dquote) && no_bsq (y :: r)).
  rewrite (IH Ht), andb_true_r. rewrite !orb_false_iff in Hx. destruct Hx as [[_ Hx] _].
  change bslash with x5c. rewrite Hx. reflexivity.
Qed.

(* the class of IRIs contains the plain grammar of Model/Url.v (what the theorem was stated for before) *)
Lemma iri_ok_of_plain s : iri_ok_plain s = true -> iri_ok s = true.
Proof.
  unfold iri_ok_plain, iri_ok. intros H. rewrite !andb_true_iff in H. destruct H as [[Hu Hs] Hn].
  destruct (url_classify s) as [u| |] eqn:Eu; try discriminate.
  pose proof (str_ok_safe s Hs) as Hso. unfold str_ok in Hso. apply andb_true_iff in Hso. destruct Hso as [Hv Hq].
  assert (Hdec : fj_unescape (escape_quote s) = s) by (apply escape_quote_decodes; unfold str_ok; rewrite Hv, Hq; reflexivity).
  pose proof (as_iri_of_plain (escape_quote s) u) as K. rewrite Hdec in K. specialize (K Eu).
  destruct (as_iri_accepted _ _ K) as [_ [Hsp [u' [sch [up [rh [rp [qo [fo [Hc _]]]]]]]]]].
  rewrite Hv, Hsp, Hc, Hn. reflexivity.
Qed.

Section Items.
  Variable jw_tables : list (bytes * bool * list wstmt).
  Variable layout_of : kind -> list fdecl.
  Variable registry load_switch : bytes -> option kind.
  Variable activity_types actor_types link_types : list bytes.
  Variable li : fjv -> option item.
  Variable g : nat.        (* objects of decoder depth <= g are read back by li *)

  Notation tr := (tree_item jw_tables).
  Notation wf := (wf_item layout_of registry load_switch activity_types actor_types link_types).
  Notation nrm := (norm_item layout_of).

  Hypothesis HEo : forall f p k fs o, wf (IObj p k fs) = true -> ddepth (IObj p k fs) <= g ->
    tr f (IObj p k fs) = Some o -> exists kvs, o = Some (FObj kvs).
  Hypothesis HLo : forall f p k fs kvs, wf (IObj p k fs) = true -> ddepth (IObj p k fs) <= g ->
    tr f (IObj p k fs) = Some (Some (FObj kvs)) -> li (FObj kvs) = Some (nrm (IObj p k fs)).
  Hypothesis HLs : forall raw s, 1 <= g -> as_iri (Text.FStr raw) = Some (Some s) -> li (Text.FStr raw) = Some (IIri false s).

  (* ---- IRIs ---- *)
  Lemma iri_ok_facts s : iri_ok s = true ->
    as_iri (Text.FStr (escape_quote s)) = Some (Some s) /\ fj_unescape (escape_quote s) = s /\ s <> [] /\ forall p, is_nil (IIri p s) = false.
  Proof.
    unfold iri_ok. rewrite !andb_true_iff, !negb_true_iff. intros [[[Hv Hsp] Hu] Hn].
    assert (Hdec : fj_unescape (escape_quote s) = s).
    { apply escape_quote_decodes. unfold str_ok. rewrite Hv. exact (no_special_no_bsq s Hsp). }
    split; [|split; [exact Hdec|split; [intros ->; discriminate|intros p; exact Hn]]].
    unfold as_iri. rewrite Hdec, Hsp. destruct (url_classify_u s); try discriminate. reflexivity.
  Qed.

  Lemma tree_iri f p s o : iri_ok s = true -> tr f (IIri p s) = Some o -> o = Some (Text.FStr (escape_quote s)).
  Proof.
    intros Hok H. destruct (iri_ok_facts s Hok) as [_ [_ [Hne Hnil]]]. destruct f as [|f]; [discriminate|].
    cbn [tree_item] in H. rewrite Hnil in H. inversion H. destruct s; [congruence|reflexivity].
  Qed.

  (* ---- elements: IRIs and objects ---- *)
  Definition elem_ok (y : item) : Prop := is_elem y = true /\ wf y = true /\ ddepth y <= g.

  Lemma ddepth_ge1 y : is_elem y = true -> 1 <= ddepth y.
  Proof. destruct y; try discriminate; intros _; cbn [ddepth]; lia. Qed.

  (* the tree of an element, and what li makes of it *)
  Lemma elem_tree f y o : elem_ok y -> tr f y = Some o ->
    exists tv, o = Some tv /\ li tv = Some (nrm y) /\ nrm y <> INil /\
               match y with
               | IIri _ s => tv = Text.FStr (escape_quote s)
               | _ => exists kvs, tv = FObj kvs
               end.
  Proof.
    intros [He [Hw Hd]] H. destruct y as [|k|p s|p k fs|p l|p l]; try discriminate.
    - cbn [wf_item] in Hw. rewrite (tree_iri f p s o Hw H). eexists. split; [reflexivity|].
      destruct (iri_ok_facts s Hw) as [Hu [Hdec _]]. split; [|split; [discriminate|reflexivity]].
      cbn [norm_item]. apply HLs; [|exact Hu].
      pose proof (ddepth_ge1 (IIri p s) eq_refl). lia.
    - destruct (HEo f p k fs o Hw Hd H) as [kvs ->]. eexists. split; [reflexivity|].
      split; [exact (HLo f p k fs kvs Hw Hd H)|]. split; [cbn [norm_item]; discriminate|exists kvs; reflexivity].
  Qed.

  (* ---- lists ---- *)
  Definition elems_ok (l : list item) : Prop := forall y, In y l -> elem_ok y.

  Lemma tree_go f l : forall acc o, elems_ok l ->
    (fix go (l : list item) (acc : list fjv) : option (option fjv) :=
       match l with
       | [] => Some (Some (FArr (rev acc)))
       | x :: r => match tr f x with
                   | Some None => go r acc
                   | Some (Some t) => go r (t :: acc)
                   | None => None
                   end
       end) l acc = Some o ->
    exists ts, o = Some (FArr (rev acc ++ ts)) /\ Forall2 (fun y t => tr f y = Some (Some t)) l ts.
  Proof.
    induction l as [|x r IH]; intros acc o Hok H.
    - inversion H. exists []. rewrite app_nil_r. split; [reflexivity|constructor].
    - cbv beta iota fix in H. destruct (tr f x) as [ox|] eqn:Ex; [|discriminate].
      destruct (elem_tree f x ox (Hok x (or_introl eq_refl)) Ex) as [tv [-> _]].
      destruct (IH (tv :: acc) o (fun y Hy => Hok y (or_intror Hy)) H) as [ts [Ho Hf]].
      exists (tv :: ts). split; [rewrite Ho; cbn [rev]; rewrite <- app_assoc; reflexivity|].
      constructor; [exact Ex|exact Hf].
  Qed.

  (* the loop of JSONWriteItemCollectionProp (inside t_value) *)
  Lemma coll_go f term l : forall acc res, elems_ok l ->
    (fix go (l : list item) (acc : list fjv) : option (bytes * option fjv * bool) :=
       match l with
       | [] => Some (term, Some (FArr (rev acc)), true)
       | i :: r => match tr f i with
                   | Some None => go r acc
                   | Some (Some t) => go r (t :: acc)
                   | None => None
                   end
       end) l acc = Some res ->
    exists ts, res = (term, Some (FArr (rev acc ++ ts)), true) /\ Forall2 (fun y t => tr f y = Some (Some t)) l ts.
  Proof.
    induction l as [|x r IH]; intros acc res Hok H.
    - inversion H. exists []. rewrite app_nil_r. split; [reflexivity|constructor].
    - cbv beta iota fix in H. destruct (tr f x) as [ox|] eqn:Ex; [|discriminate].
      destruct (elem_tree f x ox (Hok x (or_introl eq_refl)) Ex) as [tv [-> _]].
      destruct (IH (tv :: acc) res (fun y Hy => Hok y (or_intror Hy)) H) as [ts [Ho Hf]].
      exists (tv :: ts). split; [rewrite Ho; cbn [rev]; rewrite <- app_assoc; reflexivity|].
      constructor; [exact Ex|exact Hf].
  Qed.

  Lemma ic_append1 acc i : ic_contains acc i = false -> ic_append acc [i] = acc ++ [i].
  Proof. unfold ic_append, g_append, ic_contains. cbn [fold_left]. unfold g_append1. intros ->. reflexivity. Qed.

  (* JSONItemsFn over the trees of a list: the normal forms, in order, none dropped *)
  Lemma items_go_cons x r acc : items_go li (x :: r) acc =
    match li x with
    | None => None
    | Some INil => items_go li r acc
    | Some i => items_go li r (ic_append acc [i])
    end.
  Proof. reflexivity. Qed.

  Lemma items_fn_read f l ts : elems_ok l -> Forall2 (fun y t => tr f y = Some (Some t)) l ts ->
    forall acc, distinct_from acc (map nrm l) = true -> items_go li ts acc = Some (acc ++ map nrm l).
  Proof.
    intros Hok Hf. induction Hf as [|y t l ts Hy Hf IH]; intros acc Hd.
    - rewrite app_nil_r. reflexivity.
    - cbn [map distinct_from] in Hd. apply andb_true_iff in Hd. destruct Hd as [Hc Hd]. apply negb_true_iff in Hc.
      destruct (elem_tree f y _ (Hok y (or_introl eq_refl)) Hy) as [tv [Et [Hl [Hn _]]]]. inversion Et; subst tv.
      rewrite items_go_cons, Hl. cbn [map].
      assert (E : ic_append acc [nrm y] = acc ++ [nrm y]) by (apply ic_append1; exact Hc).
      specialize (IH (fun z Hz => Hok z (or_intror Hz)) _ Hd).
      remember (nrm y) as ny eqn:En. clear En.
      destruct ny; try congruence; rewrite E, IH, <- app_assoc; reflexivity.
  Qed.

  Corollary items_fn_u_read f l ts : elems_ok l -> Forall2 (fun y t => tr f y = Some (Some t)) l ts ->
    distinct_items (map nrm l) = true -> items_fn li ts = Some (map nrm l).
  Proof. intros Hok Hf Hd. unfold items_fn. exact (items_fn_read f l ts Hok Hf [] Hd). Qed.

  (* ---- well-formed lists, as the wf predicate states them ---- *)
  Lemma wf_list_elems (l : list item) :
    (fix go (l : list item) : bool := match l with [] => true | y :: r => is_elem y && wf y && go r end) l = true ->
    forall y, In y l -> is_elem y = true /\ wf y = true.
  Proof.
    induction l as [|x r IH]; intros H y Hy; [destruct Hy|]. rewrite !andb_true_iff in H. destruct H as [[H1 H2] H3].
    destruct Hy as [<-|Hy]; [split; assumption|exact (IH H3 y Hy)].
  Qed.

  Lemma ddepth_list_in (l : list item) y : In y l ->
    ddepth y <= (fix go (l : list item) : nat := match l with [] => O | x :: r => Nat.max (ddepth x) (go r) end) l.
  Proof. induction l as [|x r IH]; intros H; [destruct H|]. destruct H as [<-|H]; [lia|]. specialize (IH H). lia. Qed.

  Lemma ddepth_items_in p (l : list item) y : In y l -> ddepth y <= ddepth (IItems p (Some l)).
  Proof. cbn [ddepth]. apply ddepth_list_in. Qed.

  Lemma norm_list_map (l : list item) :
    (fix go (l : list item) : list item := match l with [] => [] | x :: r => nrm x :: go r end) l = map nrm l.
  Proof. induction l as [|x r IH]; [reflexivity|]. cbn [map]. rewrite IH. reflexivity. Qed.

  Lemma norm_many p x y (l : list item) : nrm (IItems p (Some (x :: y :: l))) = IItems false (Some (map nrm (x :: y :: l))).
  Proof.
    change (nrm (IItems p (Some (x :: y :: l))))
      with (IItems false (Some (nrm x :: nrm y :: (fix go (l : list item) : list item := match l with [] => [] | x :: r => nrm x :: go r end) l))).
    rewrite norm_list_map. reflexivity.
  Qed.

  (* a well-formed item in an item position: the tree written, by shape *)
  Inductive item_tree (f : nat) : item -> fjv -> Prop :=
  | it_elem y tv : elem_ok y -> tr f y = Some (Some tv) -> item_tree f y tv
  | it_one p x tv : elem_ok x -> tr f x = Some (Some tv) -> item_tree f (IItems p (Some [x])) tv
  | it_many p x y l ts : elems_ok (x :: y :: l) -> distinct_items (map nrm (x :: y :: l)) = true ->
      Forall2 (fun y t => tr f y = Some (Some t)) (x :: y :: l) ts -> item_tree f (IItems p (Some (x :: y :: l))) (FArr ts).

  Lemma wf_item_tree f i o : wf i = true -> ddepth i <= g -> tr f i = Some o ->
    exists f' tv, o = Some tv /\ item_tree f' i tv.
  Proof.
    intros Hw Hd H. destruct i as [|k|p s|p k fs|p [l|]|p l]; try discriminate.
    - destruct (elem_tree f (IIri p s) o (conj eq_refl (conj Hw Hd)) H) as [tv [-> _]].
      exists f, tv. split; [reflexivity|]. apply it_elem; [exact (conj eq_refl (conj Hw Hd))|exact H].
    - destruct (elem_tree f (IObj p k fs) o (conj eq_refl (conj Hw Hd)) H) as [tv [-> _]].
      exists f, tv. split; [reflexivity|]. apply it_elem; [exact (conj eq_refl (conj Hw Hd))|exact H].
    - destruct l as [|x r]; [discriminate|]. cbn [wf_item] in Hw. apply andb_true_iff in Hw. destruct Hw as [Hel Hdist].
      pose proof (wf_list_elems (x :: r) Hel) as Hall.
      assert (Hok : elems_ok (x :: r)).
      { intros y Hy. destruct (Hall y Hy) as [H1 H2]. split; [exact H1|split; [exact H2|]].
        pose proof (ddepth_items_in p (x :: r) y Hy). lia. }
      destruct f as [|f]; [discriminate|]. destruct r as [|y r].
      + cbn [tree_item] in H. destruct (elem_tree f x o (Hok x (or_introl eq_refl)) H) as [tv [-> _]].
        exists f, tv. split; [reflexivity|]. apply it_one; [exact (Hok x (or_introl eq_refl))|exact H].
      + cbn [tree_item] in H. destruct (tree_go f (x :: y :: r) [] o Hok H) as [ts [-> Hf]].
        exists f, (FArr ts). split; [reflexivity|]. apply it_many; assumption.
  Qed.

  (* ---- the three getters on the tree of an item ---- *)
  Lemma as_iri_valid s : iri_ok s = true -> as_iri (Text.FStr (escape_quote s)) = Some (Some s).
  Proof. intros H. exact (proj1 (iri_ok_facts s H)). Qed.

  (* JSONGetItem *)
  Lemma get_item_read f i tv val prop : item_tree f i tv -> jget val prop = Some tv ->
    jget_item li val prop = Some (nrm i) /\ nrm i <> INil.
  Proof.
    intros Ht Hj. unfold jget_item. rewrite Hj. inversion Ht as [y tv' Hok Hy|p x tv' Hok Hx|p x y l ts Hok Hd Hf]; subst.
    - destruct (elem_tree f i _ Hok Hy) as [tv2 [E [Hl [Hn Hs]]]]. inversion E; subst tv2. split; [|exact Hn].
      destruct i as [|k|p s|p k fs|p l|p l]; try (destruct Hok as [C _]; discriminate).
      + subst tv. destruct Hok as [_ [Hw _]]. cbn [wf_item] in Hw. rewrite (as_iri_valid s Hw). reflexivity.
      + destruct Hs as [kvs ->]. exact Hl.
    - destruct (elem_tree f x _ Hok Hx) as [tv2 [E [Hl [Hn Hs]]]]. inversion E; subst tv2. cbn [norm_item]. split; [|exact Hn].
      destruct x as [|k|p' s|p' k fs|p' l|p' l]; try (destruct Hok as [C _]; discriminate).
      + subst tv. destruct Hok as [_ [Hw _]]. cbn [wf_item] in Hw. rewrite (as_iri_valid s Hw). reflexivity.
      + destruct Hs as [kvs ->]. exact Hl.
    - rewrite (items_fn_u_read f _ ts Hok Hf Hd), norm_many. split; [reflexivity|discriminate].
  Qed.

  (* JSONGetURIItem *)
  Lemma get_uri_item_read f i tv val prop : item_tree f i tv -> jget val prop = Some tv ->
    jget_uri_item li val prop = Some (nrm i) /\ nrm i <> INil.
  Proof.
    intros Ht Hj. unfold jget_uri_item. rewrite Hj. inversion Ht as [y tv' Hok Hy|p x tv' Hok Hx|p x y l ts Hok Hd Hf]; subst.
    - destruct (elem_tree f i _ Hok Hy) as [tv2 [E [Hl [Hn Hs]]]]. inversion E; subst tv2. split; [|exact Hn].
      destruct i as [|k|p s|p k fs|p l|p l]; try (destruct Hok as [C _]; discriminate).
      + subst tv. destruct Hok as [_ [Hw _]]. cbn [wf_item] in Hw. destruct (iri_ok_facts s Hw) as [_ [Hdec _]]. rewrite Hdec. reflexivity.
      + destruct Hs as [kvs ->]. exact Hl.
    - destruct (elem_tree f x _ Hok Hx) as [tv2 [E [Hl [Hn Hs]]]]. inversion E; subst tv2. cbn [norm_item]. split; [|exact Hn].
      destruct x as [|k|p' s|p' k fs|p' l|p' l]; try (destruct Hok as [C _]; discriminate).
      + subst tv. destruct Hok as [_ [Hw _]]. cbn [wf_item] in Hw. destruct (iri_ok_facts s Hw) as [_ [Hdec _]]. rewrite Hdec. reflexivity.
      + destruct Hs as [kvs ->]. exact Hl.
    - rewrite (items_fn_u_read f _ ts Hok Hf Hd), norm_many. split; [reflexivity|discriminate].
  Qed.

  (* JSONGetItems on the compact or array form of a list (the item IItems false (Some l)) *)
  Lemma get_items_read f p l tv val prop : l <> [] -> item_tree f (IItems p (Some l)) tv -> jget val prop = Some tv ->
    jget_items li val prop = Some (Some (map nrm l)).
  Proof.
    intros Hne Ht Hj. unfold jget_items. rewrite Hj. inversion Ht as [y tv' Hok Hy|p' x tv' Hok Hx|p' x y l' ts Hok Hd Hf]; subst.
    - destruct Hok as [C _]. discriminate.
    - destruct (elem_tree f x _ Hok Hx) as [tv2 [E [Hl [Hn Hs]]]]. inversion E; subst tv2. cbn [map].
      destruct x as [|k|p'' s|p'' k fs|p'' l'|p'' l']; try (destruct Hok as [C _]; discriminate).
      + subst tv. destruct Hok as [_ [Hw _]]. cbn [wf_item] in Hw. destruct (iri_ok_facts s Hw) as [_ [Hdec [Hnes _]]].
        rewrite Hdec. cbn [norm_item]. destruct s; [congruence|reflexivity].
      + destruct Hs as [kvs ->]. rewrite Hl. destruct (nrm (IObj p'' k fs)) eqn:En; try congruence; reflexivity.
    - rewrite (items_fn_u_read f _ ts Hok Hf Hd). cbn [map]. reflexivity.
  Qed.

  (* ---- the trees written for items are inside the decoder model (no member name spelled two ways) and shallow ---- *)
  Definition tree_ok (n : nat) (v : fjv) : Prop := keys_clean v = true /\ fdepth v <= n.

  Lemma tree_ok_mono n m v : tree_ok n v -> n <= m -> tree_ok m v.
  Proof. intros [H1 H2] H. split; [exact H1|lia]. Qed.

  Hypothesis HKo : forall f p k fs kvs, wf (IObj p k fs) = true -> ddepth (IObj p k fs) <= g ->
    tr f (IObj p k fs) = Some (Some (FObj kvs)) -> tree_ok (2 * ddepth (IObj p k fs) + 1) (FObj kvs).

  Lemma elem_tree_ok f y tv : elem_ok y -> tr f y = Some (Some tv) -> tree_ok (2 * ddepth y + 1) tv.
  Proof.
    intros Hok Hy. destruct (elem_tree f y _ Hok Hy) as [tv2 [E [_ [_ Hs]]]]. inversion E; subst tv2.
    destruct y as [|k|p s|p k fs|p l|p l]; try (destruct Hok as [C _]; discriminate).
    - subst tv. split; [reflexivity|cbn [fdepth ddepth]; lia].
    - destruct Hs as [kvs ->]. destruct Hok as [_ [Hw Hd]]. exact (HKo f p k fs kvs Hw Hd Hy).
  Qed.

  Lemma fdepth_FArr_le l n : (forall t, In t l -> fdepth t <= n) -> fdepth (FArr l) <= S n.
  Proof.
    intros H. cbn [fdepth]. apply le_n_S. induction l as [|x r IH]; [lia|].
    assert (fdepth x <= n) by (apply H; left; reflexivity).
    assert ((fix go (l : list fjv) : nat := match l with [] => 0 | x :: r => Nat.max (fdepth x) (go r) end) r <= n)
      by (apply IH; intros t Ht; apply H; right; exact Ht). lia.
  Qed.
  Lemma fdepth_FObj_le kvs n : (forall kv, In kv kvs -> fdepth (snd kv) <= n) -> fdepth (FObj kvs) <= S n.
  Proof.
    intros H. cbn [fdepth]. apply le_n_S. induction kvs as [|x r IH]; [lia|].
    assert (fdepth (snd x) <= n) by (apply H; left; reflexivity).
    assert ((fix go (m : list (bytes * fjv)) : nat := match m with [] => 0 | kv :: r => Nat.max (fdepth (snd kv)) (go r) end) r <= n)
      by (apply IH; intros t Ht; apply H; right; exact Ht). lia.
  Qed.

  Lemma forall2_trees_ok f l ts : elems_ok l -> Forall2 (fun y t => tr f y = Some (Some t)) l ts ->
    forall n, (forall y, In y l -> ddepth y <= n) -> tree_ok (2 * n + 2) (FArr ts).
  Proof.
    intros Hok Hf n Hn.
    assert (Hall : forall t, In t ts -> tree_ok (2 * n + 1) t).
    { induction Hf as [|y t l ts Hy Hf IH]; intros t0 Ht0; [destruct Ht0|]. destruct Ht0 as [<-|Ht0].
      - apply (tree_ok_mono (2 * ddepth y + 1)); [exact (elem_tree_ok f y t (Hok y (or_introl eq_refl)) Hy)|].
        specialize (Hn y (or_introl eq_refl)). lia.
      - apply IH; [intros z Hz; apply Hok; right; exact Hz|intros z Hz; apply Hn; right; exact Hz|exact Ht0]. }
    split.
    - cbn [keys_clean]. apply forallb_forall. intros t Ht. exact (proj1 (Hall t Ht)).
    - replace (2 * n + 2) with (S (2 * n + 1)) by lia. apply fdepth_FArr_le. intros t Ht. exact (proj2 (Hall t Ht)).
  Qed.

  Lemma item_tree_ok f i tv : item_tree f i tv -> tree_ok (2 * ddepth i + 2) tv.
  Proof.
    intros Ht. inversion Ht as [y tv' Hok Hy|p x tv' Hok Hx|p x y l ts Hok Hd Hf]; subst.
    - apply (tree_ok_mono (2 * ddepth i + 1)); [exact (elem_tree_ok f i tv Hok Hy)|lia].
    - apply (tree_ok_mono (2 * ddepth x + 1)); [exact (elem_tree_ok f x tv Hok Hx)|]. cbn [ddepth]. lia.
    - apply (forall2_trees_ok f (x :: y :: l) ts Hok Hf). intros z Hz. exact (ddepth_items_in p (x :: y :: l) z Hz).
  Qed.

  (* ... and at least as deep as the value nests *)
  Hypothesis HDo : forall f p k fs kvs, wf (IObj p k fs) = true -> ddepth (IObj p k fs) <= g ->
    tr f (IObj p k fs) = Some (Some (FObj kvs)) -> ddepth (IObj p k fs) <= S (fdepth (FObj kvs)).

  Lemma elem_tree_deep f y tv : elem_ok y -> tr f y = Some (Some tv) -> ddepth y <= S (fdepth tv).
  Proof.
    intros Hok Hy. destruct (elem_tree f y _ Hok Hy) as [tv2 [E [_ [_ Hs]]]]. inversion E; subst tv2.
    destruct y as [|k|p s|p k fs|p l|p l]; try (destruct Hok as [C _]; discriminate).
    - cbn [ddepth]. lia.
    - destruct Hs as [kvs ->]. destruct Hok as [_ [Hw Hd]]. exact (HDo f p k fs kvs Hw Hd Hy).
  Qed.

  Lemma forall2_trees_deep f l ts : elems_ok l -> Forall2 (fun y t => tr f y = Some (Some t)) l ts ->
    (fix go (l : list item) : nat := match l with [] => O | x :: r => Nat.max (ddepth x) (go r) end) l <= fdepth (FArr ts).
  Proof.
    intros Hok Hf. cbn [fdepth]. induction Hf as [|y t l ts Hy Hf IH]; [lia|].
    pose proof (elem_tree_deep f y t (Hok y (or_introl eq_refl)) Hy) as H1.
    specialize (IH (fun z Hz => Hok z (or_intror Hz))). lia.
  Qed.

  Lemma item_tree_deep f i tv : item_tree f i tv -> ddepth i <= S (fdepth tv).
  Proof.
    intros Ht. inversion Ht as [y tv' Hok Hy|p x tv' Hok Hx|p x y l ts Hok Hd Hf]; subst.
    - exact (elem_tree_deep f i tv Hok Hy).
    - pose proof (elem_tree_deep f x tv Hok Hx). cbn [ddepth]. lia.
    - apply le_S. exact (forall2_trees_deep f (x :: y :: l) ts Hok Hf).
  Qed.
End Items.
