(* C01, layer (c) for the three leaf structs (Source, Endpoints, PublicKey), and the field-level lemmas for ALL Go types.
   A leaf struct is written by a MarshalJSON table of its own and read by a table of its own; under the decidable
   condition leaf_ok (Model/JsonRoundCheck.v: every read entry of the struct has exactly one write entry with pair_ok at
   the Go type of the part, every part is read once, member names plain and pairwise different, notEmpty accumulated)
   what the write table writes for the parts of a well-formed value is a JSON object that is not empty, and the read
   table gives every part back in its normal form (leaf_round); from that, field_set / field_unset / entry_defined for
   the struct-valued properties source, endpoints and publicKey, next to the cases of Proofs/C01FieldP.v.
   The first part of the file holds the plumbing shared with the object level (Proofs/C01RoundP.v). *)
From AP.Model Require Import Prelude Bytes Vocab Pred Url IriEq Nlv Json Text Equal Coll Dispatch Layout JsonTables JsonLeaf
     JsonEnc JsonTree JsonCheck JsonDec JsonNorm JsonRoundCheck.
From AP.Proofs Require Import NlvP TextP C01NumP C01TimeP C01StrP C01TreeP C01ParseP C01TreeWfP C01FlatP C01ItemP C01FieldP AsIriP.
Local Open Scope nat_scope.

(* ------------------------------------------------------------------ small list facts *)
Lemma nodup_bytes_NoDup l : nodup_bytes l = true -> NoDup l.
Proof.
  induction l as [|x r IH]; intros H; [constructor|]. cbn [nodup_bytes] in H. apply andb_true_iff in H. destruct H as [H1 H2].
  constructor; [|exact (IH H2)]. intros Hin. apply negb_true_iff in H1.
  assert (existsb (bytes_eqb x) r = true) by (apply existsb_exists; exists x; split; [exact Hin|apply bytes_eqb_refl]). congruence.
Qed.

Lemma nodup_fid_NoDup l : nodup_fid_list l = true -> NoDup l.
Proof.
  induction l as [|x r IH]; intros H; [constructor|]. cbn [nodup_fid_list] in H. apply andb_true_iff in H. destruct H as [H1 H2].
  constructor; [|exact (IH H2)]. intros Hin. apply negb_true_iff in H1.
  assert (existsb (fid_beq x) r = true) by (apply existsb_exists; exists x; split; [exact Hin|apply fid_beq_refl]). congruence.
Qed.

Lemma getf_replf f x acc f' : getf f' (replf f x acc) = if fid_beq f' f then Some x else getf f' acc.
Proof.
  induction acc as [|[g0 w] r IH].
  - cbn [replf getf]. destruct (fid_beq f' f); reflexivity.
  - cbn [replf]. destruct (fid_beq f g0) eqn:E.
    + apply fid_beq_eq in E. subst g0. cbn [getf]. destruct (fid_beq f' f); reflexivity.
    + cbn [getf]. destruct (fid_beq f' g0) eqn:E2.
      * apply fid_beq_eq in E2. subst g0. destruct (fid_beq f' f) eqn:E3; [|reflexivity].
        apply fid_beq_eq in E3. subst f'. rewrite fid_beq_refl in E. discriminate.
      * exact IH.
Qed.

Lemma getf_map (h : fval -> fval) f fs : getf f (map (fun p => (fst p, h (snd p))) fs) = option_map h (getf f fs).
Proof.
  induction fs as [|[g0 w] r IH]; [reflexivity|]. cbn [map getf fst snd]. destruct (fid_beq f g0); [reflexivity|exact IH].
Qed.

Lemma getf_in f v fs : getf f fs = Some v -> In (f, v) fs.
Proof.
  induction fs as [|[g0 w] r IH]; [discriminate|]. cbn [getf]. destruct (fid_beq f g0) eqn:E.
  - apply fid_beq_eq in E. subst g0. intros H. inversion H. left. reflexivity.
  - intros H. right. exact (IH H).
Qed.

Lemma canon_ext layout_of k a b : (forall d, In d (layout_of k) -> getf (fd_fid d) a = getf (fd_fid d) b) ->
  canon_fields layout_of k a = canon_fields layout_of k b.
Proof.
  unfold canon_fields. induction (layout_of k) as [|d r IH]; intros H; [reflexivity|]. cbn [flat_map].
  rewrite (H d (or_introl eq_refl)), IH; [reflexivity|]. intros d' Hd'. apply H. right. exact Hd'.
Qed.

Lemma size_in_fields_le (fs : list (fid * fval)) f v : In (f, v) fs ->
  fval_size v <= (fix go (fs : list (fid * fval)) : nat := match fs with [] => 0 | (_, v) :: r => fval_size v + go r end) fs.
Proof. induction fs as [|[f0 v0] r IH]; intros H; [destruct H|]. destruct H as [E|H]; [inversion E; subst; lia|]. specialize (IH H). lia. Qed.

Lemma size_items_lt p (l : list item) z : In z l -> item_size z < item_size (IItems p (Some l)).
Proof.
  intros H. cbn [item_size]. induction l as [|y r IH]; [destruct H|]. destruct H as [<-|H]; [lia|]. specialize (IH H). lia.
Qed.

Section Aux.
  Variable jw_tables : list (bytes * bool * list wstmt).
  Variable jr_tables : list (bytes * list rstmt).
  Variable layout_of : kind -> list fdecl.
  Variable registry load_switch : bytes -> option kind.
  Variable activity_types actor_types link_types : list bytes.

  Notation tr := (tree_item jw_tables).
  Notation wf := (wf_item layout_of registry load_switch activity_types actor_types link_types).
  Notation wfv := (wf_fval layout_of registry load_switch activity_types actor_types link_types).
  Notation nrm := (norm_item layout_of).
  Notation nrmv := (norm_fval layout_of).

  (* the fields of a well-formed object *)
  Lemma wf_fields k (fs : list (fid * fval)) :
    (fix go (l : list (fid * fval)) : bool :=
       match l with
       | [] => true
       | (f, v) :: r => match decl_of layout_of k f with Some d => wfv (fd_type d) v | None => false end && go r
       end) fs = true ->
    forall f v, In (f, v) fs -> exists d, decl_of layout_of k f = Some d /\ wfv (fd_type d) v = true.
  Proof.
    induction fs as [|[f0 v0] r IH]; intros H f v Hin; [destruct Hin|]. apply andb_true_iff in H. destruct H as [H1 H2].
    destruct Hin as [E|Hin]; [|exact (IH H2 f v Hin)]. inversion E; subst.
    destruct (decl_of layout_of k f) as [d|]; [|discriminate]. exists d. split; [reflexivity|exact H1].
  Qed.

  Lemma fdepth_fields (fs : list (fid * fval)) f v : In (f, v) fs ->
    fdepth_v v <= (fix go (l : list (fid * fval)) : nat := match l with [] => O | (_, v) :: r => Nat.max (fdepth_v v) (go r) end) fs.
  Proof.
    induction fs as [|[f0 v0] r IH]; intros H; [destruct H|]. destruct H as [E|H]; [inversion E; subst; lia|]. specialize (IH H). lia.
  Qed.

  Lemma norm_fields_fix (fs : list (fid * fval)) :
    (fix go (fs : list (fid * fval)) : list (fid * fval) :=
       match fs with [] => [] | (f, v) :: r => (f, nrmv v) :: go r end) fs = norm_fields layout_of fs.
  Proof. induction fs as [|[f v] r IH]; [reflexivity|]. cbn [norm_fields map fst snd]. rewrite IH. reflexivity. Qed.

  Lemma norm_obj p k fs : nrm (IObj p k fs) = IObj true k (canon_fields layout_of k (norm_fields layout_of fs)).
  Proof.
    change (nrm (IObj p k fs)) with
      (IObj true k (canon_fields layout_of k
         ((fix go (fs : list (fid * fval)) : list (fid * fval) :=
             match fs with [] => [] | (f, v) :: r => (f, nrmv v) :: go r end) fs))).
    rewrite norm_fields_fix. reflexivity.
  Qed.

  Lemma coll_go_term (t_i : item -> option (option fjv)) term l : forall acc t' o r,
      (fix go (l : list item) (acc : list fjv) : option (bytes * option fjv * bool) :=
          match l with
          | [] => Some (term, Some (FArr (rev acc)), true)
          | i :: r => match t_i i with
                      | Some None => go r acc
                      | Some (Some t) => go r (t :: acc)
                      | None => None
                      end
          end) l acc = Some (t', o, r) -> t' = term.
  Proof.
    induction l as [|i0 r0 IH]; intros acc t' o r H.
    - inversion H. reflexivity.
    - cbv beta iota fix in H. destruct (t_i i0) as [[t0|]|]; [exact (IH _ _ _ _ H)|exact (IH _ _ _ _ H)|discriminate].
  Qed.

  (* who owns a written member *)
  Lemma value_term t_i t_run writer via term v t' o r :
    t_value t_i t_run writer via term v = Some (t', o, r) ->
    t' = term \/ (bytes_eqb writer (B "JSONWriteNaturalLanguageProp") = true /\ t' = term ++ B "Map").
  Proof.
    unfold t_value.
    destruct (bytes_eqb writer (B "JSONWriteItemProp")).
    { destruct v as [[i|l| | | | | | | | | | | ]|]; try discriminate.
      - destruct (t_i i); [|discriminate]. intros H. inversion H. left. reflexivity.
      - destruct (t_i (IItems false l)); [|discriminate]. intros H. inversion H. left. reflexivity.
      - intros H. inversion H. left. reflexivity. }
    destruct (bytes_eqb writer (B "JSONWriteItemCollectionProp")).
    { destruct v as [[i|[[|x l]|]| | | | | | | | | | | ]|]; try discriminate; try (intros H; inversion H; left; reflexivity).
      intros H. left. exact (coll_go_term t_i term (x :: l) [] _ _ _ H). }
    destruct (bytes_eqb writer (B "JSONWriteNaturalLanguageProp")) eqn:En.
    { destruct v as [[i|l|[l|]| | | | | | | | | | ]|]; try discriminate; intros H; inversion H; try (left; reflexivity).
      destruct (Nat.ltb 1 (length l)); [right; split; reflexivity|left; reflexivity]. }
    destruct (bytes_eqb writer (B "JSONWriteProp")).
    { destruct v as [[i|l|l|s| | | | | | |mt c|[e|]|id o' p]|]; try discriminate; try (intros H; inversion H; left; reflexivity).
      - destruct (bytes_eqb via (B "MarshalJSON:ID") || bytes_eqb via (B "MarshalJSON:IRI")
                  || bytes_eqb via (B "MarshalJSON:ActivityVocabularyType") || bytes_eqb via (B "MarshalJSON:MimeType")
                  || bytes_eqb via (B "json.Marshal")); [|discriminate]. intros H. inversion H. left. reflexivity.
      - destruct (t_struct t_run (B "Source_MarshalJSON") (source_fields mt c)); [|discriminate]. intros H. inversion H. left. reflexivity.
      - destruct (t_struct t_run (B "Endpoints_MarshalJSON") (endpoints_fields e)); [|discriminate]. intros H. inversion H. left. reflexivity.
      - destruct (t_struct t_run (B "PublicKey_MarshalJSON") (pubkey_fields id o' p)); [|discriminate]. intros H. inversion H. left. reflexivity. }
    destruct (bytes_eqb writer (B "JSONWriteTimeProp")).
    { destruct v as [[ | | | |t0| | | | | | | | ]|]; try discriminate. destruct (time_writable t0); intros H; inversion H; left; reflexivity. }
    destruct (bytes_eqb writer (B "JSONWriteDurationProp")).
    { destruct v as [[ | | | | |d| | | | | | | ]|]; try discriminate. destruct (fmt_xsd_duration d); [|discriminate]. intros H. inversion H. left. reflexivity. }
    destruct (bytes_eqb writer (B "JSONWriteIntProp")); [intros H; inversion H; left; reflexivity|].
    destruct (bytes_eqb writer (B "JSONWriteFloatProp")); [intros H; inversion H; left; reflexivity|].
    destruct (bytes_eqb writer (B "JSONWriteBoolProp")); [intros H; inversion H; left; reflexivity|].
    destruct (bytes_eqb writer (B "JSONWriteStringProp")).
    { destruct v as [[ | | |s| | | | | | | | | ]|]; try discriminate; intros H; inversion H; left; reflexivity. }
    destruct (bytes_eqb writer (B "JSONWriteIRIProp")).
    { destruct v as [[ | | |[|c s]| | | | | | | | | ]|]; try discriminate; intros H; inversion H; left; reflexivity. }
    discriminate.
  Qed.

  Lemma entry_out_keys t_i d fs e o : entry_out jw_tables t_i d fs e = Some o -> forall kv, In kv o -> In (fst kv) (keys_of e).
  Proof.
    unfold entry_out. destruct (eval_guards fs [x30] (filter nonval (wf_guards e))) as [[|]|]; [| |discriminate].
    - destruct (t_value t_i (t_run_table jw_tables d t_i) (wf_writer e) (wf_via e) (wf_term e) (path_get (wf_path e) fs))
        as [[[t' ov] r0]|] eqn:Ev; [|discriminate].
      destruct (eval_guards fs (guard_bytes ov) (wf_guards e)) as [[|]|]; [| |discriminate].
      + intros H kv Hin. inversion H; subst. destruct ov as [tv|]; [|destruct Hin]. destruct Hin as [<-|[]]. cbn [fst].
        unfold keys_of, is_nlv_writer. destruct (value_term _ _ _ _ _ _ _ _ _ Ev) as [->|[Hn ->]].
        * destruct (bytes_eqb (wf_writer e) _); left; reflexivity.
        * rewrite Hn. right. left. reflexivity.
      + intros H kv Hin. inversion H; subst. destruct Hin.
    - intros H kv Hin. inversion H; subst. destruct Hin.
  Qed.

  Lemma outs_forall2 t_i fs esd os : outs_of jw_tables t_i fs esd os ->
    Forall2 (fun e o => forall kv, In kv o -> In (fst kv) (keys_of e)) (map snd esd) os.
  Proof.
    intros H. induction H as [|de o es os He Hr IH]; [constructor|]. cbn [map]. constructor; [|exact IH].
    exact (entry_out_keys _ _ _ _ _ He).
  Qed.

  Lemma outs_nth t_i fs esd os : outs_of jw_tables t_i fs esd os -> forall i de, nth_error esd i = Some de ->
    exists o, nth_error os i = Some o /\ entry_out jw_tables t_i (fst de) fs (snd de) = Some o.
  Proof.
    intros H. induction H as [|de0 o es os He Hr IH]; intros i de Hi; [destruct i; discriminate|].
    destruct i as [|i].
    - inversion Hi; subst. exists o. split; [reflexivity|exact He].
    - exact (IH i de Hi).
  Qed.

  Lemma keys_plain e : key_plain (wf_term e) = true -> forall k0, In k0 (keys_of e) -> key_plain k0 = true.
  Proof.
    intros H k0. unfold keys_of. destruct (is_nlv_writer e).
    - intros [<-|[<-|[]]]; [exact H|]. unfold key_plain in *. rewrite forallb_app, H. reflexivity.
    - intros [<-|[]]. exact H.
  Qed.

  (* ---------------------------------------------------------------- the fold over the read entries *)
  (* generic in how an entry gets its value: get_value at depth 3 on the object (read_step of Proofs/C01FlatP.v), or
     at depth 2 on the JSON object of a leaf struct (run_stmts of Model/JsonDec.v) *)
  Section Fold.
    Variable getv : rflat -> option (option fval).
    Variable fs : list (fid * fval).

    Definition gstep (acc : option (list (fid * fval))) (r : rflat) : option (list (fid * fval)) :=
      match acc with
      | None => None
      | Some acc =>
          match getv r with
          | None => None
          | Some None => Some acc
          | Some (Some x) =>
              let x' := link_guard (rf_guard r) x in
              Some (if fval_is_zero x' then acc else setf (rf_fid r) x' acc)
          end
      end.

    Definition step_spec_g (r : rflat) : Prop :=
      exists ox, getv r = Some ox /\
        match getf (rf_fid r) fs with
        | Some v => exists x, ox = Some x /\ link_guard (rf_guard r) x = nrmv v /\ fval_is_zero (nrmv v) = false
        | None => match ox with None => True | Some x => fval_is_zero (link_guard (rf_guard r) x) = true end
        end.

    Lemma in_replf f x (acc : list (fid * fval)) f' v : In (f', v) (replf f x acc) -> (f', v) = (f, x) \/ In (f', v) acc.
    Proof.
      induction acc as [|[g0 w] r IH]; cbn [replf].
      - intros [H|[]]; left; symmetry; exact H.
      - destruct (fid_beq f g0).
        + intros [H|H]; [left; symmetry; exact H|right; right; exact H].
        + intros [H|H]; [right; left; exact H|]. destruct (IH H) as [E|E]; [left; exact E|right; right; exact E].
    Qed.

    Lemma fold_reads_g : forall rs acc, NoDup (map rf_fid rs) -> (forall r, In r rs -> step_spec_g r) ->
      (forall r, In r rs -> getf (rf_fid r) acc = None) ->
      exists acc', fold_left gstep rs (Some acc) = Some acc' /\
        (forall f, getf f acc' = if existsb (fun r => fid_beq f (rf_fid r)) rs then option_map nrmv (getf f fs) else getf f acc) /\
        (forall f v, In (f, v) acc' -> In (f, v) acc \/ exists v0, getf f fs = Some v0 /\ v = nrmv v0).
    Proof.
      induction rs as [|r rs IH]; intros acc Hnd Hs Hacc.
      - exists acc. split; [reflexivity|]. split; [intros f; reflexivity|intros f v H; left; exact H].
      - cbn [map] in Hnd. inversion Hnd as [|? ? Hnin Hnd']; subst.
        destruct (Hs r (or_introl eq_refl)) as [ox [Hgv Hsp]].
        set (acc1 := match getf (rf_fid r) fs with Some v => setf (rf_fid r) (nrmv v) acc | None => acc end).
        assert (E : gstep (Some acc) r = Some acc1).
        { unfold gstep. rewrite Hgv. unfold acc1. destruct (getf (rf_fid r) fs) as [v|].
          - destruct Hsp as [x [-> [Hx Hz]]]. cbv zeta. rewrite Hx, Hz. reflexivity.
          - destruct ox as [x|]; [|reflexivity]. cbv zeta. rewrite Hsp. reflexivity. }
        cbn [fold_left].
        rewrite E.
        assert (Hacc1 : forall r', In r' rs -> getf (rf_fid r') acc1 = None).
        { intros r' Hr'. unfold acc1. destruct (getf (rf_fid r) fs) as [v|] eqn:Eg; [|exact (Hacc r' (or_intror Hr'))].
          destruct Hsp as [x [_ [_ Hz]]]. unfold setf. rewrite Hz, getf_replf.
          destruct (fid_beq (rf_fid r') (rf_fid r)) eqn:Ef; [|exact (Hacc r' (or_intror Hr'))].
          apply fid_beq_eq in Ef. exfalso. apply Hnin. rewrite <- Ef. apply in_map. exact Hr'. }
        destruct (IH acc1 Hnd' (fun r' Hr' => Hs r' (or_intror Hr')) Hacc1) as [acc' [Hf [Hget Hin]]].
        exists acc'. split; [exact Hf|]. split.
        + intros f. rewrite Hget. cbn [existsb].
          destruct (existsb (fun r0 => fid_beq f (rf_fid r0)) rs) eqn:Ex.
          * rewrite orb_true_r. reflexivity.
          * rewrite orb_false_r. unfold acc1. destruct (fid_beq f (rf_fid r)) eqn:Ef.
            -- apply fid_beq_eq in Ef. subst f. destruct (getf (rf_fid r) fs) as [v|] eqn:Eg.
               ++ destruct Hsp as [x [_ [_ Hz]]]. unfold setf. rewrite Hz, getf_replf, fid_beq_refl. reflexivity.
               ++ exact (Hacc r (or_introl eq_refl)).
            -- destruct (getf (rf_fid r) fs) as [v|]; [|reflexivity].
               destruct Hsp as [x [_ [_ Hz]]]. unfold setf. rewrite Hz, getf_replf, Ef. reflexivity.
        + intros f v Hfv. destruct (Hin f v Hfv) as [H1|H1]; [|right; exact H1].
          unfold acc1 in H1. destruct (getf (rf_fid r) fs) as [v1|] eqn:Eg; [|left; exact H1].
          destruct Hsp as [x [_ [_ Hz]]]. unfold setf in H1. rewrite Hz in H1.
          destruct (in_replf _ _ _ _ _ H1) as [E1|E1]; [|left; exact E1].
          inversion E1; subst. right. exists v1. split; [exact Eg|reflexivity].
    Qed.
  End Fold.

  (* the instance the object level uses *)
  Definition step_spec (li : fjv -> option item) (fs : list (fid * fval)) (val : fjv) : rflat -> Prop :=
    step_spec_g (fun r => get_value jr_tables li 3 val (rf_getter r) (rf_term r) (rf_conv r)) fs.

  Lemma fold_reads li fs val : forall rs acc, NoDup (map rf_fid rs) -> (forall r, In r rs -> step_spec li fs val r) ->
    (forall r, In r rs -> getf (rf_fid r) acc = None) ->
    exists acc', fold_left (read_step jr_tables li val) rs (Some acc) = Some acc' /\
      forall f, getf f acc' = if existsb (fun r => fid_beq f (rf_fid r)) rs then option_map nrmv (getf f fs) else getf f acc.
  Proof.
    intros rs acc Hnd Hs Hacc.
    destruct (fold_reads_g (fun r => get_value jr_tables li 3 val (rf_getter r) (rf_term r) (rf_conv r)) fs rs acc Hnd Hs Hacc)
      as [acc' [Hf [Hget _]]].
    exists acc'. split; [exact Hf|exact Hget].
  Qed.

  Lemma nth_error_map_inv {A B} (h : A -> B) l i y : nth_error (map h l) i = Some y -> exists x, nth_error l i = Some x /\ h x = y.
  Proof.
    revert i. induction l as [|a l IH]; intros i H; [destruct i; discriminate|]. destruct i as [|i].
    - inversion H. exists a. split; reflexivity.
    - exact (IH i H).
  Qed.

  Lemma concat_nil_in {A} (os : list (list A)) o : concat os = [] -> In o os -> o = [].
  Proof.
    induction os as [|x r IH]; intros H Hin; [destruct Hin|]. cbn [concat] in H. apply app_eq_nil in H. destruct H as [H1 H2].
    destruct Hin as [<-|Hin]; [exact H1|exact (IH H2 Hin)].
  Qed.

  Lemma filter_single {A} (P : A -> bool) l e : filter P l = [e] -> In e l /\ P e = true.
  Proof. intros H. assert (Hin : In e (filter P l)) by (rewrite H; left; reflexivity). apply filter_In in Hin. exact Hin. Qed.

  (* ---------------------------------------------------------------- one object, given its sub-objects *)
  Lemma has_bs_plain k : key_plain k = true -> has_bs k = false.
  Proof. apply plain_no_bs. Qed.

  Lemma outs_nth_os t_i fs esd os : outs_of jw_tables t_i fs esd os -> forall i o, nth_error os i = Some o ->
    exists de, nth_error esd i = Some de /\ entry_out jw_tables t_i (fst de) fs (snd de) = Some o.
  Proof.
    intros H. induction H as [|de0 o0 es os He Hr IH]; intros i o Hi; [destruct i; discriminate|].
    destruct i as [|i].
    - inversion Hi; subst. exists de0. split; [reflexivity|exact He].
    - exact (IH i o Hi).
  Qed.

End Aux.

(* ------------------------------------------------------------------ the tables of a leaf struct *)
Section LeafTables.
  Variable jw_tables : list (bytes * bool * list wstmt).
  Variable jr_tables : list (bytes * list rstmt).

  (* a table of property statements only flattens to its own entries, whatever the depth *)
  Lemma leaf_flatten name init ws es d' : jw_table jw_tables name = Some (init, ws) -> leaf_entries ws = Some es ->
    flatten_wd jw_tables (S d') name = Some (map (fun e => (d', e)) es).
  Proof.
    intros Hj. cbn [flatten_wd]. rewrite Hj. clear Hj. revert es. induction ws as [|s r IH]; intros es H.
    - inversion H. reflexivity.
    - destruct s as [t w p v g acc pos|on fn acc pos|src pos]; [|discriminate H|discriminate H].
      cbn [leaf_entries] in H.
      destruct (leaf_entries r) as [rs|] eqn:Er; [|destruct acc; discriminate H].
      specialize (IH rs eq_refl).
      destruct acc; try discriminate H; inversion H; subst es; cbn [map]; rewrite IH; reflexivity.
  Qed.

  Lemma leaf_no_deleg ws es (P : bytes -> bool) : leaf_entries ws = Some es ->
    forallb (fun s => match s with WDelegate _ ((_ :: _) as fn) _ _ => P fn | _ => true end) ws = true.
  Proof.
    revert es. induction ws as [|s r IH]; intros es H; [reflexivity|].
    destruct s as [t w p v g acc pos|on fn acc pos|src pos]; [|discriminate H|discriminate H].
    cbn [leaf_entries] in H. destruct (leaf_entries r) as [rs|] eqn:Er; [|destruct acc; discriminate H].
    cbn [forallb]. exact (IH rs eq_refl).
  Qed.

  Lemma leaf_acc_ok name init ws es n : jw_table jw_tables name = Some (init, ws) -> leaf_entries ws = Some es ->
    acc_ok jw_tables 1 name = true -> acc_ok jw_tables (S n) name = true.
  Proof.
    intros Hj He H. cbn [acc_ok] in *. rewrite Hj in *. apply andb_true_iff in H. destruct H as [H1 _].
    rewrite H1, (leaf_no_deleg ws es _ He). reflexivity.
  Qed.

  (* run_stmts over a table of property statements is the fold of gstep *)
  Lemma run_stmts_fold (gv : fjv -> bytes -> bytes -> bytes -> option (option fval)) sub rstmts rs0 :
    leaf_reads rstmts = Some rs0 -> forall acc,
    run_stmts gv sub rstmts acc = fold_left (gstep (fun r => gv sub (rf_getter r) (rf_term r) (rf_conv r))) rs0 (Some acc).
  Proof.
    revert rs0. induction rstmts as [|s r IH]; intros rs0 H acc.
    - inversion H. reflexivity.
    - destruct s as [f t g c gd pos|on fn pos|src pos]; [|discriminate H|discriminate H].
      cbn [leaf_reads] in H. destruct (leaf_reads r) as [rs|] eqn:Er; [|discriminate H]. inversion H; subst rs0.
      cbn [fold_left]. unfold gstep at 2. cbn [rf_getter rf_term rf_conv rf_guard rf_fid].
      rewrite run_stmts_prop. destruct (gv sub g t c) as [[x|]|].
      + apply (IH rs eq_refl).
      + apply (IH rs eq_refl).
      + clear. induction rs as [|r0 rs IHr]; [reflexivity|exact IHr].
  Qed.
End LeafTables.

(* ------------------------------------------------------------------ one leaf struct: written, then read *)
Section Leaf.
  Variable jw_tables : list (bytes * bool * list wstmt).
  Variable jr_tables : list (bytes * list rstmt).
  Variable layout_of : kind -> list fdecl.
  Variable registry load_switch : bytes -> option kind.
  Variable activity_types actor_types link_types : list bytes.
  Variable li : fjv -> option item.
  Variable g : nat.
  Variable fe : nat.

  Notation tr := (tree_item jw_tables).
  Notation wf := (wf_item layout_of registry load_switch activity_types actor_types link_types).
  Notation wfv := (wf_fval layout_of registry load_switch activity_types actor_types link_types).
  Notation nrm := (norm_item layout_of).
  Notation nrmv := (norm_fval layout_of).

  Hypothesis HEo : forall f p k fs o, wf (IObj p k fs) = true -> ddepth (IObj p k fs) <= g ->
    tr f (IObj p k fs) = Some o -> exists kvs, o = Some (FObj kvs).
  Hypothesis HLo : forall f p k fs kvs, wf (IObj p k fs) = true -> ddepth (IObj p k fs) <= g ->
    tr f (IObj p k fs) = Some (Some (FObj kvs)) -> li (FObj kvs) = Some (nrm (IObj p k fs)).
  Hypothesis HLs : forall raw s, 1 <= g -> as_iri (Text.FStr raw) = Some (Some s) -> li (Text.FStr raw) = Some (IIri false s).
  Hypothesis HKo : forall f p k fs kvs, wf (IObj p k fs) = true -> ddepth (IObj p k fs) <= g ->
    tr f (IObj p k fs) = Some (Some (FObj kvs)) -> tree_ok (2 * ddepth (IObj p k fs) + 1) (FObj kvs).
  Hypothesis HDo : forall f p k fs kvs, wf (IObj p k fs) = true -> ddepth (IObj p k fs) <= g ->
    tr f (IObj p k fs) = Some (Some (FObj kvs)) -> ddepth (IObj p k fs) <= S (fdepth (FObj kvs)).

  Lemma pair_ok_plain ty f e r : pair_ok ty f e r = true -> key_plain (rf_term r) = true.
  Proof.
    unfold pair_ok, pair_ok_core. rewrite !andb_true_iff. intros [[[[[[[[_ Ht] Hp] _] _] _] _] _] _].
    apply bytes_eqb_eq in Ht. rewrite <- Ht. exact Hp.
  Qed.

  Lemma leaf_type_in ty f ity : leaf_type ty f = Some ity -> In (f, ity) (leaf_layout ty).
  Proof.
    unfold leaf_type. destruct (find (fun p => fid_beq (fst p) f) (leaf_layout ty)) as [p|] eqn:E; [|discriminate].
    intros H. inversion H; subst. apply find_some in E. destruct E as [Hin Hf]. apply fid_beq_eq in Hf. subst f.
    destruct p. exact Hin.
  Qed.

  Lemma leaf_type_leafless ty f ity : leaf_type ty f = Some ity -> leafless ity = true.
  Proof.
    intros H. apply leaf_type_in in H.
    assert (A : forallb (fun p => leafless (snd p)) (leaf_layout ty) = true) by (destruct ty; reflexivity).
    rewrite forallb_forall in A. exact (A (f, ity) H).
  Qed.

  Lemma fdepth_FObj_members kvs n : fdepth (FObj kvs) <= S n -> forall kv, In kv kvs -> fdepth (snd kv) <= n.
  Proof. intros H kv Hin. pose proof (fdepth_FObj_in kvs kv Hin). lia. Qed.

  (* the parts of a leaf struct: what the write table wrote is an object with at least one member, inside the decoder
     model, between depth-of-the-parts and 2 * that + 3 deep; every (stripped) read entry gets its part back *)
  Lemma leaf_round outer ty ifs d' dg o :
    leaf_ok jw_tables jr_tables outer ty = true ->
    (forall f v, getf f ifs = Some v -> exists ity, leaf_type ty f = Some ity /\ wfv ity v = true /\ fdepth_v v <= g) ->
    (exists f v, getf f ifs = Some v) ->
    t_struct (t_run_table jw_tables (S d') (tr fe)) (leaf_wtable ty) ifs = Some o ->
    exists ms rstmts rs0 rs,
      o = Some (FObj ms) /\
      jr_table jr_tables (leaf_rtable ty) = Some rstmts /\ leaf_reads rstmts = Some rs0 /\ leaf_strip_all outer ty rs0 = Some rs /\
      NoDup (map rf_fid rs) /\
      (forall d0, In d0 (leaf_layout ty) -> existsb (fun r => fid_beq (fst d0) (rf_fid r)) rs = true) /\
      keys_clean (FObj ms) = true /\
      forallb (fun kv => key_plain (fst kv)) ms = true /\
      (forall n, (forall f v, getf f ifs = Some v -> fdepth_v v <= n) -> fdepth (FObj ms) <= 2 * n + 3) /\
      (forall f v, getf f ifs = Some v -> fdepth_v v <= fdepth (FObj ms)) /\
      (forall r, In r rs -> key_plain (rf_term r) = true) /\
      forall r, In r rs ->
        step_spec_g layout_of (fun r => get_value jr_tables li (S dg) (FObj ms) (rf_getter r) (rf_term r) (rf_conv r)) ifs r.
  Proof.
    intros Hok Hfv [f0 [v0 Hf0]] Ht.
    unfold leaf_ok in Hok.
    destruct (jw_table jw_tables (leaf_wtable ty)) as [[init ws]|] eqn:Ejw; [|discriminate].
    destruct (jr_table jr_tables (leaf_rtable ty)) as [rstmts|] eqn:Ejr; [|discriminate].
    destruct (leaf_entries ws) as [es|] eqn:Ees; [|discriminate].
    destruct (leaf_reads rstmts) as [rs0|] eqn:Ers0; [|discriminate].
    destruct (leaf_strip_all outer ty rs0) as [rs|] eqn:Ers; [|discriminate].
    rewrite !andb_true_iff in Hok. destruct Hok as [[[[[[Kread Kndr] Kall] Kkeys] Kplain] Kforeign] Kacc].
    unfold t_struct in Ht.
    destruct (t_run_table jw_tables (S d') (tr fe) (leaf_wtable ty) ifs) as [[ms ne]|] eqn:Er; [|discriminate].
    pose proof (leaf_flatten jw_tables _ init ws es d' Ejw Ees) as Eesd.
    set (esd := map (fun e => (d', e)) es) in *.
    destruct (run_flat jw_tables (tr fe) ifs (S d') (leaf_wtable ty) ms ne esd Er Eesd) as [os [Houts Hms]].
    pose proof (outs_forall2 jw_tables (tr fe) ifs esd os Houts) as Hown.
    assert (Ees' : map snd esd = es) by (unfold esd; rewrite map_map; cbn [snd]; apply map_id).
    rewrite Ees' in Hown.
    pose proof (nodup_bytes_NoDup _ Kkeys) as Hndk.
    assert (Hplain : forallb (fun kv => key_plain (fst kv)) ms = true).
    { rewrite forallb_forall. intros kv Hin. rewrite Hms in Hin. apply in_concat in Hin. destruct Hin as [o' [Ho' Hkv]].
      destruct (forall2_in_r _ _ _ _ Hown Ho') as [e' [He' Hk']]. apply (keys_plain e'); [|exact (Hk' kv Hkv)].
      rewrite forallb_forall in Kplain. exact (Kplain e' He'). }
    set (getv := fun r => get_value jr_tables li (S dg) (FObj ms) (rf_getter r) (rf_term r) (rf_conv r)).
    (* every write entry, with the read entry of its part *)
    assert (Hent : forall i de oe, nth_error esd i = Some de -> nth_error os i = Some oe ->
              entry_out jw_tables (tr fe) (fst de) ifs (snd de) = Some oe ->
              forall r, In r rs -> entry_for (rf_fid r) (snd de) = true ->
              step_spec_g layout_of getv ifs r /\
              (forall v, getf (rf_fid r) ifs = Some v -> oe <> [] /\ forall kv, In kv oe -> member_ok v (snd kv)) /\
              (getf (rf_fid r) ifs = None -> forall kv, In kv oe -> tree_ok 2 (snd kv))).
    { intros i de oe Hde Hoe Hout r Hr Hfor. rewrite forallb_forall in Kread. specialize (Kread r Hr). unfold leaf_read_ok in Kread.
      destruct (leaf_type ty (rf_fid r)) as [ity|] eqn:Ed; [|discriminate].
      destruct (filter (entry_for (rf_fid r)) es) as [|e [|e2 er]] eqn:Ef; try discriminate.
      assert (Hi : nth_error es i = Some (snd de)) by (rewrite <- Ees'; apply map_nth_error; exact Hde).
      assert (He : snd de = e).
      { assert (Hin : In (snd de) (filter (entry_for (rf_fid r)) es))
          by (apply filter_In; split; [eapply nth_error_In; exact Hi|exact Hfor]).
        rewrite Ef in Hin. destruct Hin as [<-|[]]. reflexivity. }
      rewrite He in *.
      assert (Hlook : forall k0, In k0 (keys_of e) -> find_key (fun k1 => k1) ms k0 = find_key (fun k1 => k1) oe k0).
      { intros k0 Hk0. rewrite Hms. apply (find_key_concat wflat keys_of es os e oe k0 Hndk Hown); [|exact Hk0].
        exists i. split; [exact Hi|exact Hoe]. }
      pose proof (leaf_type_leafless ty _ ity Ed) as Hll.
      destruct (getf (rf_fid r) ifs) as [v|] eqn:Eg.
      - destruct (Hfv _ _ Eg) as [ity' [Hd' [Hwv HvM]]]. assert (ity' = ity) by congruence. subst ity'.
        destruct (field_set_basic jw_tables jr_tables layout_of registry load_switch activity_types actor_types link_types li g fe
                    HEo HLo HLs HKo HDo (fst de) ifs ms Hplain dg ity (rf_fid r) e r oe v Hll Kread Hout Hlook Eg Hwv HvM)
          as [Hoe_ne [Hmem [x [Hgv [Hx Hz]]]]].
        split; [|split].
        + unfold step_spec_g. rewrite Eg. exists (Some x). split; [exact Hgv|]. exists x. repeat split; assumption.
        + intros v1 Hv1. inversion Hv1; subst v1. split; assumption.
        + discriminate.
      - destruct (field_unset_basic jw_tables jr_tables li fe (fst de) ifs ms Hplain dg ity (rf_fid r) e r oe Hll Kread Hout Hlook Eg)
          as [Hmem [ox [Hgv Hz]]].
        split; [|split; [intros v Hv; discriminate|]].
        + unfold step_spec_g. rewrite Eg. exists ox. split; assumption.
        + intros _. exact Hmem. }
    (* the write entry of a read entry *)
    assert (Hentry : forall r, In r rs -> exists i de oe, nth_error esd i = Some de /\ nth_error os i = Some oe /\
                       entry_out jw_tables (tr fe) (fst de) ifs (snd de) = Some oe /\ entry_for (rf_fid r) (snd de) = true).
    { intros r Hr. pose proof Kread as Kread'. rewrite forallb_forall in Kread'. specialize (Kread' r Hr). unfold leaf_read_ok in Kread'.
      destruct (leaf_type ty (rf_fid r)) as [ity|] eqn:Ed; [|discriminate].
      destruct (filter (entry_for (rf_fid r)) es) as [|e [|e2 er]] eqn:Ef; try discriminate.
      destruct (filter_single _ _ _ Ef) as [Hein Hfor].
      destruct (In_nth_error es e Hein) as [i Hi].
      rewrite <- Ees' in Hi. destruct (nth_error_map_inv snd esd i e Hi) as [de [Hde Hsnd]].
      destruct (outs_nth jw_tables (tr fe) ifs esd os Houts i de Hde) as [oe [Hoe Hout]].
      rewrite <- Hsnd in Hfor. exists i, de, oe. repeat split; assumption. }
    assert (Hspec : forall r, In r rs -> step_spec_g layout_of getv ifs r).
    { intros r Hr. destruct (Hentry r Hr) as [i [de [oe [Hde [Hoe [Hout Hfor]]]]]].
      exact (proj1 (Hent i de oe Hde Hoe Hout r Hr Hfor)). }
    (* a reader for every part *)
    assert (Hreader : forall f ity, In (f, ity) (leaf_layout ty) -> exists r, In r rs /\ rf_fid r = f).
    { intros f ity Hin. rewrite forallb_forall in Kall. specialize (Kall _ Hin). apply existsb_exists in Kall.
      destruct Kall as [r [Hr Hrf]]. cbn [fst] in Hrf. apply fid_beq_eq in Hrf. exists r. split; assumption. }
    (* a set part contributes a member *)
    assert (Hset : forall f v, getf f ifs = Some v -> exists kv, In kv ms /\ member_ok v (snd kv)).
    { intros f v Hg0. destruct (Hfv f v Hg0) as [ity [Hty _]]. destruct (Hreader f ity (leaf_type_in _ _ _ Hty)) as [r [Hr Hrf]].
      destruct (Hentry r Hr) as [i [de [oe [Hde [Hoe [Hout Hfor]]]]]].
      destruct (Hent i de oe Hde Hoe Hout r Hr Hfor) as [_ [H2 _]]. rewrite Hrf in H2. destruct (H2 v Hg0) as [Hne Hall].
      destruct oe as [|kv oe']; [congruence|]. exists kv. split; [|apply Hall; left; reflexivity].
      rewrite Hms. apply in_concat. exists (kv :: oe'). split; [eapply nth_error_In; exact Hoe|left; reflexivity]. }
    (* every member comes from a part or is a shallow leaf *)
    assert (Hmembers : forall kv, In kv ms -> keys_clean (snd kv) = true /\
              forall n, (forall f v, getf f ifs = Some v -> fdepth_v v <= n) -> fdepth (snd kv) <= 2 * n + 2).
    { intros kv Hin. rewrite Hms in Hin. apply in_concat in Hin. destruct Hin as [oe [Hoe Hkv]].
      destruct (In_nth_error os oe Hoe) as [i Hi].
      destruct (outs_nth_os jw_tables (tr fe) ifs esd os Houts i oe Hi) as [de [Hde Hout]].
      assert (Hine : In (snd de) es) by (rewrite <- Ees'; apply in_map; eapply nth_error_In; exact Hde).
      rewrite forallb_forall in Kforeign. specialize (Kforeign _ Hine). apply existsb_exists in Kforeign.
      destruct Kforeign as [r [Hr Hfor]].
      destruct (Hent i de oe Hde Hi Hout r Hr Hfor) as [_ [H2 H3]].
      destruct (getf (rf_fid r) ifs) as [v|] eqn:Eg.
      - destruct (H2 v eq_refl) as [_ Hall]. destruct (Hall kv Hkv) as [[Hc Hd] _]. split; [exact Hc|].
        intros n Hn. specialize (Hn _ _ Eg). lia.
      - destruct (H3 eq_refl kv Hkv) as [Hc Hd]. split; [exact Hc|]. intros n _. lia. }
    (* at least one member was written, so the struct is not empty *)
    assert (Hms_ne : ms <> []).
    { destruct (Hset f0 v0 Hf0) as [kv [Hin _]]. intros C. rewrite C in Hin. destruct Hin. }
    pose proof (run_ne jw_tables (tr fe) ifs (S d') (leaf_wtable ty) ms ne
                  (leaf_acc_ok jw_tables _ init ws es d' Ejw Ees Kacc) Er Hms_ne) as Hne_true. subst ne.
    inversion Ht; subst o. exists ms, rstmts, rs0, rs.
    split; [reflexivity|]. split; [reflexivity|]. split; [exact Ers0|]. split; [exact Ers|].
    split; [exact (nodup_fid_NoDup _ Kndr)|].
    split.
    { intros d0 Hd0. rewrite forallb_forall in Kall. specialize (Kall d0 Hd0). apply existsb_exists in Kall.
      destruct Kall as [r [Hr Hrf]]. apply existsb_exists. exists r. split; [exact Hr|].
      apply fid_beq_eq in Hrf. rewrite Hrf. apply fid_beq_refl. }
    split.
    { cbn [keys_clean]. apply andb_true_iff. split.
      - apply negb_true_iff. unfold keys_ambiguous. apply not_true_is_false. intros E.
        apply existsb_exists in E. destruct E as [kv [Hin E]]. apply andb_true_iff in E. destruct E as [Hb _].
        rewrite forallb_forall in Hplain. rewrite (plain_no_bs _ (Hplain kv Hin)) in Hb. discriminate.
      - apply forallb_forall. intros kv Hin. exact (proj1 (Hmembers kv Hin)). }
    split; [exact Hplain|].
    split.
    { intros n Hn. replace (2 * n + 3) with (S (2 * n + 2)) by lia. apply fdepth_FObj_le.
      intros kv Hin. exact (proj2 (Hmembers kv Hin) n Hn). }
    split.
    { intros f v Hg0. destruct (Hset f v Hg0) as [kv [Hin [_ Hd]]]. pose proof (fdepth_FObj_in ms kv Hin). lia. }
    split; [|exact Hspec].
    intros r Hr. rewrite forallb_forall in Kread. specialize (Kread r Hr). unfold leaf_read_ok in Kread.
    destruct (leaf_type ty (rf_fid r)) as [ity|]; [|discriminate].
    destruct (filter (entry_for (rf_fid r)) es) as [|e [|e2 er]]; try discriminate. exact (pair_ok_plain _ _ _ _ Kread).
  Qed.
End Leaf.

(* ------------------------------------------------------------------ the parts of the three structs, looked up *)
Lemma getf_pubkey_id id ow pem : getf F_ID (pubkey_fields id ow pem) = match id with [] => None | _ => Some (Vocab.FStr id) end.
Proof. destruct id, ow, pem; reflexivity. Qed.
Lemma getf_pubkey_owner id ow pem : getf F_Owner (pubkey_fields id ow pem) = match ow with [] => None | _ => Some (Vocab.FStr ow) end.
Proof. destruct id, ow, pem; reflexivity. Qed.
Lemma getf_pubkey_pem id ow pem :
  getf F_PublicKeyPem (pubkey_fields id ow pem) = match pem with [] => None | _ => Some (Vocab.FStr pem) end.
Proof. destruct id, ow, pem; reflexivity. Qed.
Lemma getf_pubkey_inv f id ow pem v : getf f (pubkey_fields id ow pem) = Some v ->
  (f = F_ID /\ v = Vocab.FStr id /\ id <> []) \/ (f = F_Owner /\ v = Vocab.FStr ow /\ ow <> [])
  \/ (f = F_PublicKeyPem /\ v = Vocab.FStr pem /\ pem <> []).
Proof.
  intros H. apply getf_in in H. unfold pubkey_fields in H.
  apply in_app_or in H. destruct H as [H|H]; [|apply in_app_or in H; destruct H as [H|H]].
  - destruct id; [destruct H|]. destruct H as [H|[]]. inversion H. left. repeat split; discriminate.
  - destruct ow; [destruct H|]. destruct H as [H|[]]. inversion H. right. left. repeat split; discriminate.
  - destruct pem; [destruct H|]. destruct H as [H|[]]. inversion H. right. right. repeat split; discriminate.
Qed.

Lemma getf_source_content mt c : getf F_Content (source_fields mt c) = match c with None => None | Some _ => Some (FNlv c) end.
Proof. destruct c, mt; reflexivity. Qed.
Lemma getf_source_mt mt c : getf F_MediaType (source_fields mt c) = match mt with [] => None | _ => Some (Vocab.FStr mt) end.
Proof. destruct c, mt; reflexivity. Qed.
Lemma getf_source f mt c : getf f (source_fields mt c) =
  if fid_beq f F_Content then match c with None => None | Some _ => Some (FNlv c) end
  else if fid_beq f F_MediaType then match mt with [] => None | _ => Some (Vocab.FStr mt) end else None.
Proof.
  destruct (fid_beq f F_Content) eqn:E1; destruct (fid_beq f F_MediaType) eqn:E2;
    try (apply fid_beq_eq in E1; apply fid_beq_eq in E2; congruence);
    destruct c, mt; cbn [source_fields app getf]; rewrite ?E1, ?E2; reflexivity.
Qed.

Lemma getf_source_inv f mt c v : getf f (source_fields mt c) = Some v ->
  (f = F_Content /\ v = FNlv c /\ c <> None) \/ (f = F_MediaType /\ v = Vocab.FStr mt /\ mt <> []).
Proof.
  intros H. apply getf_in in H. unfold source_fields in H. apply in_app_or in H. destruct H as [H|H].
  - destruct c; [|destruct H]. destruct H as [H|[]]. inversion H. left. repeat split; discriminate.
  - destruct mt; [destruct H|]. destruct H as [H|[]]. inversion H. right. repeat split; discriminate.
Qed.

Definition efind (f : fid) (e : list (fid * item)) : option (fid * item) := find (fun p => fid_beq (fst p) f) e.

Lemma getf_endpoints f e : getf f (endpoints_fields e) = option_map (fun p => FItem (snd p)) (efind f e).
Proof.
  unfold endpoints_fields, efind. induction e as [|[f0 i0] r IH]; [reflexivity|]. cbn [map getf find fst snd].
  destruct (fid_beq f f0) eqn:E.
  - apply fid_beq_eq in E. subst f0. rewrite fid_beq_refl. reflexivity.
  - assert (fid_beq f0 f = false) as -> by (destruct (fid_beq f0 f) eqn:E2; [apply fid_beq_eq in E2; subst; rewrite fid_beq_refl in E; discriminate|reflexivity]).
    exact IH.
Qed.

Lemma efind_some f e p : efind f e = Some p -> In p e /\ fst p = f.
Proof. unfold efind. intros H. apply find_some in H. destruct H as [H1 H2]. apply fid_beq_eq in H2. split; assumption. Qed.

Lemma efind_map (h : item -> item) f e :
  efind f (map (fun p => (fst p, h (snd p))) e) = option_map (fun p => (fst p, h (snd p))) (efind f e).
Proof.
  unfold efind. induction e as [|[f0 i0] r IH]; [reflexivity|]. cbn [map find fst snd]. destruct (fid_beq f0 f); [reflexivity|exact IH].
Qed.

(* the members found in a field list whose values are all items *)
Definition esel (p : fid * fval) : list (fid * item) := match snd p with FItem i => [(fst p, i)] | _ => [] end.
Lemma efind_esel f acc : (forall f' v, In (f', v) acc -> exists i, v = FItem i) ->
  efind f (flat_map esel acc) = match getf f acc with Some (FItem i) => Some (f, i) | _ => None end.
Proof.
  unfold efind. induction acc as [|[f0 v0] r IH]; intros H; [reflexivity|].
  destruct (H f0 v0 (or_introl eq_refl)) as [i ->]. cbn [flat_map esel snd fst app find getf].
  destruct (fid_beq f f0) eqn:E.
  - apply fid_beq_eq in E. subst f0. rewrite fid_beq_refl. reflexivity.
  - assert (fid_beq f0 f = false) as -> by (destruct (fid_beq f0 f) eqn:E2; [apply fid_beq_eq in E2; subst; rewrite fid_beq_refl in E; discriminate|reflexivity]).
    apply IH. intros f' v Hin. apply (H f' v). right. exact Hin.
Qed.

Lemma flat_map_ext_in {A B} (h1 h2 : A -> list B) l : (forall a, In a l -> h1 a = h2 a) -> flat_map h1 l = flat_map h2 l.
Proof.
  induction l as [|a r IH]; intros H; [reflexivity|]. cbn [flat_map]. rewrite (H a (or_introl eq_refl)), IH; [reflexivity|].
  intros b Hb. apply H. right. exact Hb.
Qed.

Lemma filter_nil {A} (P : A -> bool) l : (forall a, In a l -> P a = false) -> filter P l = [].
Proof.
  induction l as [|a r IH]; intros H; [reflexivity|]. cbn [filter]. rewrite (H a (or_introl eq_refl)). apply IH.
  intros b Hb. apply H. right. exact Hb.
Qed.

(* the struct order of a member list depends on the lookups only (for lists inside the six names) *)
Lemma eiso_ext l1 l2 : (forall f, efind f l1 = efind f l2) ->
  (forall p, In p l1 -> existsb (fid_beq (fst p)) endpoints_struct_order = true) ->
  (forall p, In p l2 -> existsb (fid_beq (fst p)) endpoints_struct_order = true) ->
  endpoints_in_struct_order l1 = endpoints_in_struct_order l2.
Proof.
  intros Hf H1 H2. unfold endpoints_in_struct_order. fold (efind).
  rewrite (filter_nil _ l1) by (intros p Hp; rewrite (H1 p Hp); reflexivity).
  rewrite (filter_nil _ l2) by (intros p Hp; rewrite (H2 p Hp); reflexivity).
  f_equal. apply flat_map_ext_in. intros f _. change (find (fun p => fid_beq (fst p) f) l1) with (efind f l1).
  change (find (fun p => fid_beq (fst p) f) l2) with (efind f l2). rewrite Hf. reflexivity.
Qed.

Lemma leaf_type_endpoints f : existsb (fid_beq f) endpoints_struct_order = true -> leaf_type TEndpoints f = Some TItem.
Proof.
  intros H. apply existsb_exists in H. destruct H as [x [Hx Hxe]]. apply fid_beq_eq in Hxe. subst x.
  unfold endpoints_struct_order in Hx. cbn [In] in Hx.
  repeat (destruct Hx as [<-|Hx]; [reflexivity|]). destruct Hx.
Qed.

Lemma norm_endpoints_map layout_of (e : list (fid * item)) :
  (fix go (e : list (fid * item)) : list (fid * item) :=
     match e with [] => [] | (f, i) :: r => (f, norm_item layout_of i) :: go r end) e
  = map (fun p => (fst p, norm_item layout_of (snd p))) e.
Proof. induction e as [|[f i] r IH]; [reflexivity|]. cbn [map fst snd]. rewrite IH. reflexivity. Qed.

Lemma norm_endpoints layout_of e :
  norm_fval layout_of (FEndpoints (Some e))
  = FEndpoints (Some (endpoints_in_struct_order (map (fun p => (fst p, norm_item layout_of (snd p))) e))).
Proof.
  change (norm_fval layout_of (FEndpoints (Some e))) with
    (FEndpoints (Some (endpoints_in_struct_order
       ((fix go (e : list (fid * item)) : list (fid * item) :=
           match e with [] => [] | (f, i) :: r => (f, norm_item layout_of i) :: go r end) e)))).
  rewrite norm_endpoints_map. reflexivity.
Qed.

(* what well-formedness says of the members of an endpoints value *)
Lemma wf_endpoints_members layout_of registry load_switch acts actors links (e : list (fid * item)) :
  (fix go (l : list (fid * item)) : bool :=
     match l with [] => true | (_, y) :: r => wf_item layout_of registry load_switch acts actors links y && go r end) e = true ->
  forall p, In p e -> wf_item layout_of registry load_switch acts actors links (snd p) = true.
Proof.
  induction e as [|[f0 i0] r IH]; intros H p Hp; [destruct Hp|]. apply andb_true_iff in H. destruct H as [H1 H2].
  destruct Hp as [<-|Hp]; [exact H1|exact (IH H2 p Hp)].
Qed.

Lemma size_endpoints_in (e : list (fid * item)) p : In p e -> item_size (snd p) < fval_size (FEndpoints (Some e)).
Proof.
  intros H. cbn [fval_size]. induction e as [|[f0 i0] r IH]; [destruct H|]. destruct H as [<-|H]; [cbn [snd]; lia|]. specialize (IH H). lia.
Qed.

Lemma ddepth_endpoints_in (e : list (fid * item)) p : In p e ->
  ddepth (snd p) <= (fix go (l : list (fid * item)) : nat := match l with [] => O | (_, x) :: r => Nat.max (ddepth x) (go r) end) e.
Proof.
  induction e as [|[f0 i0] r IH]; intros H; [destruct H|]. destruct H as [<-|H]; [cbn [snd]; lia|]. specialize (IH H). lia.
Qed.

Lemma ddepth_endpoints_le (e : list (fid * item)) n : (forall p, In p e -> ddepth (snd p) <= n) ->
  (fix go (l : list (fid * item)) : nat := match l with [] => O | (_, x) :: r => Nat.max (ddepth x) (go r) end) e <= n.
Proof.
  induction e as [|[f0 i0] r IH]; intros H; [lia|]. pose proof (H (f0, i0) (or_introl eq_refl)) as H0. cbn [snd] in H0.
  assert ((fix go (l : list (fid * item)) : nat := match l with [] => O | (_, x) :: r => Nat.max (ddepth x) (go r) end) r <= n)
    by (apply IH; intros p Hp; apply H; right; exact Hp). lia.
Qed.

(* ------------------------------------------------------------------ from the stripped entries to the table as written *)
Section Strip.
  Variable jr_tables : list (bytes * list rstmt).
  Variable layout_of : kind -> list fdecl.
  Variable li : fjv -> option item.
  Variable dg : nat.
  Notation nrmv := (norm_fval layout_of).

  Lemma leaf_getter_same sub g term conv :
    get_value jr_tables li (S dg) sub (leaf_getter g) term conv = get_value jr_tables li (S dg) sub g term conv.
  Proof.
    unfold leaf_getter.
    destruct (bytes_eqb g (B "val.GetStringBytes")) eqn:E1; [apply bytes_eqb_eq in E1; subst g; reflexivity|].
    destruct (bytes_eqb g (B "val.Get.GetStringBytes")) eqn:E2; [apply bytes_eqb_eq in E2; subst g; reflexivity|].
    reflexivity.
  Qed.

  Lemma strip_all_in outer ty : forall rs0 rs, leaf_strip_all outer ty rs0 = Some rs ->
    Forall2 (fun r0 r => leaf_strip outer ty r0 = Some r) rs0 rs.
  Proof.
    induction rs0 as [|r0 rest IH]; intros rs H.
    - inversion H. constructor.
    - cbn [leaf_strip_all] in H. destruct (leaf_strip outer ty r0) as [r|] eqn:E; [|discriminate].
      destruct (leaf_strip_all outer ty rest) as [rest'|]; [|discriminate]. inversion H. constructor; [exact E|exact (IH _ eq_refl)].
  Qed.

  Lemma strip_fid outer ty r0 r : leaf_strip outer ty r0 = Some r -> rf_fid r = rf_fid r0 /\ rf_guard r = rf_guard r0.
  Proof.
    unfold leaf_strip. destruct ty;
      try (intros H; inversion H; split; reflexivity).
    destruct (cut_byte x2e (rf_term r0)) as [a [b|]]; [|discriminate].
    destruct (bytes_eqb a outer && source_getter_ok (rf_getter r0)); [|discriminate]. intros H; inversion H; split; reflexivity.
  Qed.

  Lemma strip_fids outer ty rs0 rs : Forall2 (fun r0 r => leaf_strip outer ty r0 = Some r) rs0 rs -> map rf_fid rs0 = map rf_fid rs.
  Proof.
    induction 1 as [|r0 r rs0 rs H _ IH]; [reflexivity|]. cbn [map]. rewrite IH, (proj1 (strip_fid _ _ _ _ H)). reflexivity.
  Qed.

  (* Endpoints, PublicKey: the table runs on the member itself *)
  Lemma strip_spec_plain outer ty ifs sub r0 r : ty <> TSource -> leaf_strip outer ty r0 = Some r ->
    step_spec_g layout_of (fun r => get_value jr_tables li (S dg) sub (rf_getter r) (rf_term r) (rf_conv r)) ifs r ->
    step_spec_g layout_of (fun r => get_value jr_tables li (S dg) sub (rf_getter r) (rf_term r) (rf_conv r)) ifs r0.
  Proof.
    intros Hty Hs. unfold leaf_strip in Hs.
    assert (E : r = mkrf (rf_fid r0) (rf_term r0) (leaf_getter (rf_getter r0)) (rf_conv r0) (rf_guard r0))
      by (destruct ty; try congruence; inversion Hs; reflexivity).
    subst r. unfold step_spec_g. cbn [rf_getter rf_term rf_conv rf_guard rf_fid]. rewrite leaf_getter_same. exact (fun H => H).
  Qed.

  (* Source: the table runs on the object, under the names "<outer>.<name>" *)
  Lemma strip_spec_source outer ifs val sub r0 r : leaf_strip outer TSource r0 = Some r ->
    jget val outer = Some sub -> key_plain (rf_term r) = true ->
    (forall v, getf (rf_fid r) ifs = Some v -> nrmv v <> FNlv (Some [])) ->
    step_spec_g layout_of (fun r => get_value jr_tables li (S dg) sub (rf_getter r) (rf_term r) (rf_conv r)) ifs r ->
    step_spec_g layout_of (fun r => get_value jr_tables li (S dg) val (rf_getter r) (rf_term r) (rf_conv r)) ifs r0.
  Proof.
    intros Hs Hj Hplain Hne. unfold leaf_strip in Hs.
    destruct (cut_byte x2e (rf_term r0)) as [a [b|]] eqn:Ec; [|discriminate].
    destruct (bytes_eqb a outer) eqn:Ea; [|discriminate]. apply bytes_eqb_eq in Ea. subst a.
    destruct (source_getter_ok (rf_getter r0)) eqn:Eg; [|discriminate]. cbn [andb] in Hs. inversion Hs; subst r. clear Hs.
    cbn [rf_term] in Hplain. unfold step_spec_g. cbn [rf_getter rf_term rf_conv rf_guard rf_fid] in *.
    unfold source_getter_ok in Eg. apply orb_true_iff in Eg. destruct Eg as [Eg|Eg].
    - (* the language-value getter *)
      apply bytes_eqb_eq in Eg. rewrite Eg. change (leaf_getter (B "JSONGetNaturalLanguageField")) with (B "JSONGetNaturalLanguageField").
      rewrite !gv_nlv, Ec, Hj, (plain_no_dot b Hplain).
      intros [ox [Hgv Hsp]]. destruct (get_nl_field false sub b) as [[|e1 l]|].
      + (* an empty list read: the dotted form keeps nothing *)
        inversion Hgv; subst ox. exists None. split; [reflexivity|].
        destruct (getf (rf_fid r0) ifs) as [v|] eqn:Egf; [|exact I].
        destruct Hsp as [x [Hx [Hl _]]]. inversion Hx; subst x. exfalso. apply (Hne v eq_refl). rewrite <- Hl.
        unfold link_guard. destruct (bytes_eqb (rf_guard r0) _); reflexivity.
      + exists ox. split; [exact Hgv|exact Hsp].
      + exists ox. split; [exact Hgv|exact Hsp].
    - (* a string getter *)
      rewrite leaf_getter_same.
      assert (Hin : In (rf_getter r0) str_getters8).
      { apply existsb_exists in Eg. destruct Eg as [x [Hx Hxe]]. apply bytes_eqb_eq in Hxe. subst x. exact Hx. }
      rewrite !(gv_str8 jr_tables li dg _ (rf_getter r0) _ _ Hin).
      assert (E : sub_get val (rf_term r0) = sub_get sub b).
      { unfold sub_get. rewrite Ec, Hj, (plain_no_dot b Hplain). reflexivity. }
      rewrite E. exact (fun H => H).
  Qed.
End Strip.

(* ------------------------------------------------------------------ field level, all Go types *)
Lemma forall2_in_l {A B} (R : A -> B -> Prop) l1 l2 a : Forall2 R l1 l2 -> In a l1 -> exists b, In b l2 /\ R a b.
Proof.
  intros H. induction H as [|x y l1 l2 Hh Ht IH]; intros Hin; [destruct Hin|].
  destruct Hin as [->|Hin]; [exists y; split; [left; reflexivity|exact Hh]|].
  destruct (IH Hin) as [b [Hb Hr]]. exists b. split; [right; exact Hb|exact Hr].
Qed.

Lemma existsb_fid_map f (rs : list rflat) : existsb (fun r => fid_beq f (rf_fid r)) rs = existsb (fid_beq f) (map rf_fid rs).
Proof. induction rs as [|r rs IH]; [reflexivity|]. cbn [existsb map]. rewrite IH. reflexivity. Qed.

Section FieldAll.
  Variable jw_tables : list (bytes * bool * list wstmt).
  Variable jr_tables : list (bytes * list rstmt).
  Variable layout_of : kind -> list fdecl.
  Variable registry load_switch : bytes -> option kind.
  Variable activity_types actor_types link_types : list bytes.
  Variable li : fjv -> option item.
  Variable g : nat.
  Variable fe : nat.

  Notation tr := (tree_item jw_tables).
  Notation wf := (wf_item layout_of registry load_switch activity_types actor_types link_types).
  Notation wfv := (wf_fval layout_of registry load_switch activity_types actor_types link_types).
  Notation nrm := (norm_item layout_of).
  Notation nrmv := (norm_fval layout_of).

  Hypothesis HEo : forall f p k fs o, wf (IObj p k fs) = true -> ddepth (IObj p k fs) <= g ->
    tr f (IObj p k fs) = Some o -> exists kvs, o = Some (FObj kvs).
  Hypothesis HLo : forall f p k fs kvs, wf (IObj p k fs) = true -> ddepth (IObj p k fs) <= g ->
    tr f (IObj p k fs) = Some (Some (FObj kvs)) -> li (FObj kvs) = Some (nrm (IObj p k fs)).
  Hypothesis HLs : forall raw s, 1 <= g -> as_iri (Text.FStr raw) = Some (Some s) -> li (Text.FStr raw) = Some (IIri false s).
  Hypothesis HKo : forall f p k fs kvs, wf (IObj p k fs) = true -> ddepth (IObj p k fs) <= g ->
    tr f (IObj p k fs) = Some (Some (FObj kvs)) -> tree_ok (2 * ddepth (IObj p k fs) + 1) (FObj kvs).
  Hypothesis HDo : forall f p k fs kvs, wf (IObj p k fs) = true -> ddepth (IObj p k fs) <= g ->
    tr f (IObj p k fs) = Some (Some (FObj kvs)) -> ddepth (IObj p k fs) <= S (fdepth (FObj kvs)).

  (* for a struct-valued property: the tables of the struct fit together (part of kind_ok) *)
  Definition leaf_cond (ty : gotype) (r : rflat) : Prop :=
    match ty with TSource | TEndpoints | TPubKey => leaf_ok jw_tables jr_tables (rf_term r) ty = true | _ => True end.

  (* the read table of a leaf struct, run on SUB, given the specification of every entry as written *)
  Lemma leaf_read ty outer ifs rstmts rs0 rs dg SUB :
    jr_table jr_tables (leaf_rtable ty) = Some rstmts -> leaf_reads rstmts = Some rs0 -> leaf_strip_all outer ty rs0 = Some rs ->
    NoDup (map rf_fid rs) ->
    (forall r0, In r0 rs0 ->
       step_spec_g layout_of (fun r => get_value jr_tables li (S dg) SUB (rf_getter r) (rf_term r) (rf_conv r)) ifs r0) ->
    exists acc', run_leaf jr_tables (get_value jr_tables li (S dg)) (leaf_rtable ty) SUB = Some acc' /\
      (forall f, getf f acc' = if existsb (fid_beq f) (map rf_fid rs) then option_map nrmv (getf f ifs) else None) /\
      (forall f v, In (f, v) acc' -> exists v0, getf f ifs = Some v0 /\ v = nrmv v0).
  Proof.
    intros Ejr Ers0 Ers Hnd Hspec.
    pose proof (strip_fids _ _ _ _ (strip_all_in _ _ _ _ Ers)) as Hfids.
    unfold run_leaf. rewrite Ejr, (run_stmts_fold _ SUB rstmts rs0 Ers0 []).
    destruct (fold_reads_g layout_of (fun r => get_value jr_tables li (S dg) SUB (rf_getter r) (rf_term r) (rf_conv r)) ifs rs0 []
                ltac:(rewrite Hfids; exact Hnd) Hspec (fun r _ => eq_refl)) as [acc' [Hf [Hget Hin]]].
    exists acc'. split; [exact Hf|]. split.
    - intros f. rewrite Hget, existsb_fid_map, Hfids. reflexivity.
    - intros f v Hfv. destruct (Hin f v Hfv) as [[]|H]. exact H.
  Qed.

  Section One.
    Variable d : nat.
    Variable fs : list (fid * fval).
    Variable ms : list (bytes * fjv).
    Hypothesis Hms : forallb (fun kv => key_plain (fst kv)) ms = true.
    Variable dg : nat.
    Notation t_run := (t_run_table jw_tables d (tr fe)).
    Notation val := (FObj ms).
    Notation gv := (get_value jr_tables li (S (S dg)) val).

    Ltac ev_eqb_in H :=
      repeat match type of H with
             | context [bytes_eqb (B ?a) (B ?b)] =>
                 let x := eval vm_compute in (bytes_eqb (B a) (B b)) in change (bytes_eqb (B a) (B b)) with x in H
             end; cbv iota in H.
    Ltac ev_eqb :=
      repeat match goal with
             | |- context [bytes_eqb (B ?a) (B ?b)] =>
                 let x := eval vm_compute in (bytes_eqb (B a) (B b)) in change (bytes_eqb (B a) (B b)) with x
             end; cbv iota.

    Lemma text_norm_nonempty l : text_ok l = true -> exists e l', norm_nlv (Some l) = Some (e :: l').
    Proof.
      intros H. destruct l as [|[r0 v0] [|e2 l']]; [discriminate H| |]; cbn [norm_nlv]; eexists; eexists; reflexivity.
    Qed.

    Lemma field_set ty f e r o v :
      pair_ok ty f e r = true -> leaf_cond ty r ->
      entry_out jw_tables (tr fe) d fs e = Some o ->
      (forall k0, In k0 (keys_of e) -> find_key (fun k => k) ms k0 = find_key (fun k => k) o k0) ->
      getf f fs = Some v -> wfv ty v = true -> fdepth_v v <= g ->
      o <> [] /\ (forall kv, In kv o -> member_ok v (snd kv)) /\
      exists x, gv (rf_getter r) (rf_term r) (rf_conv r) = Some (Some x)
                /\ link_guard (rf_guard r) x = nrmv v /\ fval_is_zero (nrmv v) = false.
    Proof.
      intros Hpair Hleaf Hout Hlook Hg Hw Hd.
      destruct (leafless ty) eqn:Hll.
      { exact (field_set_basic jw_tables jr_tables layout_of registry load_switch activity_types actor_types link_types li g fe
                 HEo HLo HLs HKo HDo d fs ms Hms (S dg) ty f e r o v Hll Hpair Hout Hlook Hg Hw Hd). }
      pose proof Hpair as Hpair0.
      destruct e as [t w p via gs]. destruct r as [rfid rt rg rc rgd].
      unfold pair_ok in Hpair. apply andb_true_iff in Hpair. destruct Hpair as [Hpair Htotal].
      unfold pair_ok_core in Hpair. cbn [wf_path wf_term wf_guards rf_term rf_getter rf_conv rf_guard] in *.
      rewrite !andb_true_iff in Hpair. destruct Hpair as [[[[[[[Hp Ht] Hplain] Hwf] Hgf] Hgs] Hcv] Hty].
      destruct p as [|f' [|f2 p]]; try discriminate. apply fid_beq_eq in Hp. subst f'.
      apply bytes_eqb_eq in Ht. subst rt.
      assert (Hw' : w = B "JSONWriteProp") by (destruct ty; try discriminate; apply bytes_eqb_eq; exact Hwf). subst w.
      assert (Hout0 := Hout). unfold entry_out in Hout0. cbn [wf_guards wf_writer wf_via wf_term wf_path path_get] in Hout0.
      rewrite Hg in Hout0.
      rewrite (guards_pass layout_of registry load_switch activity_types actor_types link_types ty f fs v [x30] _ Hg Hw
                 (forallb_filter _ _ _ Hgs)) in Hout0 by discriminate.
      destruct (t_value (tr fe) t_run (B "JSONWriteProp") via t (Some v)) as [[[t' ov] r0]|] eqn:Ev; [|discriminate]. clear Hout0.
      assert (Fin : forall tv, ov = Some tv -> o = [(t', tv)]).
      { intros tv ->.
        pose proof (entry_out_set jw_tables layout_of registry load_switch activity_types actor_types link_types fe d fs
                      ty f t (B "JSONWriteProp") via gs v t' tv r0 Hg Hw Hgs Ev) as E. rewrite E in Hout. inversion Hout. reflexivity. }
      assert (Hkey : In t (keys_of (mkwf t (B "JSONWriteProp") [f] via gs))) by (left; reflexivity).
      destruct d as [|d'].
      { (* no depth left to run the table of the struct *)
        exfalso. unfold t_value in Ev. ev_eqb_in Ev. destruct ty; try discriminate; destruct v as [ | | | | | | | | | |mt c|[e|]|id ow pem]; try discriminate;
          cbn [t_struct t_run_table] in Ev; discriminate. }
      destruct ty; try discriminate; cbn [leaf_cond rf_term getter_fits rf_getter] in *; apply bytes_eqb_eq in Hgf; subst rg.
      - (* ---------------- Source ---------------- *)
        destruct v as [ | | | | | | | | | |mt c| | ]; try discriminate. cbn [wf_fval] in Hw.
        rewrite !andb_true_iff, negb_true_iff in Hw. destruct Hw as [[Hmt Hc] Hnz].
        unfold t_value in Ev. ev_eqb_in Ev.
        destruct (t_struct (t_run_table jw_tables (S d') (tr fe)) (B "Source_MarshalJSON") (source_fields mt c)) as [o'|] eqn:Es; [|discriminate].
        inversion Ev; subst t' ov r0. clear Ev.
        destruct (leaf_round jw_tables jr_tables layout_of registry load_switch activity_types actor_types link_types li g fe
                    HEo HLo HLs HKo HDo t TSource (source_fields mt c) d' dg o' Hleaf) as
          [msi [rstmts [rs0 [rs [-> [Ejr [Ers0 [Ers [Hnd [Hcov [Hclean [Hpl [Hup [Hlow [Hplr Hspec]]]]]]]]]]]]]]]; [| |exact Es|].
        { intros f1 v1 H1. destruct (getf_source_inv f1 mt c v1 H1) as [[-> [-> Hc1]]|[-> [-> Hm1]]].
          - exists TNlv. split; [reflexivity|]. split; [|cbn; lia]. destruct c as [l|]; [exact Hc|congruence].
          - exists TString. split; [reflexivity|]. split; [|cbn; lia]. destruct mt; [congruence|exact Hmt]. }
        { destruct c as [l|]; [exists F_Content, (FNlv (Some l)); rewrite getf_source_content; reflexivity|].
          destruct mt as [|b0 mt']; [discriminate Hnz|]. exists F_MediaType, (Vocab.FStr (b0 :: mt')). rewrite getf_source_mt. reflexivity. }
        rewrite (Fin _ eq_refl) in *. split; [discriminate|].
        split.
        { intros kv [<-|[]]. cbn [snd]. split; [split; [exact Hclean|]|cbn [fdepth_v]; lia].
          cbn [fdepth_v]. assert (H3 : fdepth (FObj msi) <= 2 * 0 + 3).
          { apply Hup. intros f1 v1 H1. destruct (getf_source_inv f1 mt c v1 H1) as [[_ [-> _]]|[_ [-> _]]]; cbn; lia. }
          lia. }
        assert (Hj : jget val t = Some (FObj msi)) by (apply get_hit; [exact Hms|exact Hplain|apply Hlook; exact Hkey]).
        destruct (leaf_read TSource t (source_fields mt c) rstmts rs0 rs dg val Ejr Ers0 Ers Hnd) as [acc' [Hrun [Hget _]]].
        { intros r0 Hr0. destruct (forall2_in_l _ _ _ r0 (strip_all_in _ _ _ _ Ers) Hr0) as [r1 [Hr1 Hst]].
          apply (strip_spec_source jr_tables layout_of li dg t (source_fields mt c) val (FObj msi) r0 r1 Hst Hj (Hplr r1 Hr1)); [|exact (Hspec r1 Hr1)].
          intros v1 H1. destruct (getf_source_inv _ mt c v1 H1) as [[_ [-> Hc1]]|[_ [-> _]]]; [|discriminate].
          destruct c as [l|]; [|congruence]. destruct (text_norm_nonempty l Hc) as [e1 [l1 E1]].
          change (nrmv (FNlv (Some l))) with (FNlv (norm_nlv (Some l))). rewrite E1. discriminate. }
        rewrite gv_source. change (B "GetAPSource") with (leaf_rtable TSource). rewrite Hrun.
        assert (Hc1 : existsb (fid_beq F_Content) (map rf_fid rs) = true)
          by (rewrite <- existsb_fid_map; apply (Hcov (F_Content, TNlv)); left; reflexivity).
        assert (Hc2 : existsb (fid_beq F_MediaType) (map rf_fid rs) = true)
          by (rewrite <- existsb_fid_map; apply (Hcov (F_MediaType, TString)); right; left; reflexivity).
        unfold get_str, get_nlv. rewrite !Hget, Hc1, Hc2, getf_source_content, getf_source_mt.
        exists (FSource mt (norm_nlv c)). change (nrmv (FSource mt c)) with (FSource mt (norm_nlv c)).
        split; [|split; [unfold link_guard; destruct (bytes_eqb rgd _); reflexivity|]].
        + destruct mt as [|b0 mt']; destruct c as [l|]; cbn [option_map]; try reflexivity; try discriminate Hnz.
          * destruct (text_norm_nonempty l Hc) as [e1 [l1 E1]]. change (nrmv (FNlv (Some l))) with (FNlv (norm_nlv (Some l))). rewrite E1. reflexivity.
        + destruct mt as [|b0 mt']; [|reflexivity]. destruct c as [l|]; [|discriminate Hnz].
          destruct (text_norm_nonempty l Hc) as [e1 [l1 E1]]. rewrite E1. reflexivity.
      - (* ---------------- Endpoints ---------------- *)
        destruct v as [ | | | | | | | | | | |[[|p0 e0]|]| ]; try discriminate.
        cbn [wf_fval] in Hw. rewrite !andb_true_iff in Hw. destruct Hw as [[Hndf Hord] Hmem].
        set (e := p0 :: e0) in *.
        pose proof (wf_endpoints_members layout_of registry load_switch activity_types actor_types link_types e Hmem) as Hwm.
        set (M := (fix go (l : list (fid * item)) : nat := match l with [] => O | (_, x) :: r => Nat.max (ddepth x) (go r) end) e).
        assert (HdM : fdepth_v (FEndpoints (Some e)) = S M) by reflexivity. rewrite HdM in Hd.
        unfold t_value in Ev. ev_eqb_in Ev.
        destruct (t_struct (t_run_table jw_tables (S d') (tr fe)) (B "Endpoints_MarshalJSON") (endpoints_fields e)) as [o'|] eqn:Es; [|discriminate].
        inversion Ev; subst t' ov r0. clear Ev.
        assert (Hparts : forall f1 v1, getf f1 (endpoints_fields e) = Some v1 -> exists p1, In p1 e /\ fst p1 = f1 /\ v1 = FItem (snd p1)).
        { intros f1 v1 H1. rewrite getf_endpoints in H1. destruct (efind f1 e) as [p1|] eqn:Ef; [|discriminate].
          destruct (efind_some _ _ _ Ef) as [Hin Hf1]. inversion H1. exists p1. repeat split; assumption. }
        destruct (leaf_round jw_tables jr_tables layout_of registry load_switch activity_types actor_types link_types li g fe
                    HEo HLo HLs HKo HDo t TEndpoints (endpoints_fields e) d' dg o' Hleaf) as
          [msi [rstmts [rs0 [rs [-> [Ejr [Ers0 [Ers [Hnd [Hcov [Hclean [Hpl [Hup [Hlow [Hplr Hspec]]]]]]]]]]]]]]]; [| |exact Es|].
        { intros f1 v1 H1. destruct (Hparts f1 v1 H1) as [p1 [Hin [Hf1 ->]]]. exists TItem. split; [|split].
          - rewrite forallb_forall in Hord. specialize (Hord p1 Hin). rewrite Hf1 in Hord. exact (leaf_type_endpoints f1 Hord).
          - exact (Hwm p1 Hin).
          - cbn [fdepth_v]. pose proof (ddepth_endpoints_in e p1 Hin). fold M in H. lia. }
        { exists (fst p0), (FItem (snd p0)). rewrite getf_endpoints. unfold efind, e. cbn [find]. rewrite fid_beq_refl. reflexivity. }
        rewrite (Fin _ eq_refl) in *. split; [discriminate|].
        split.
        { intros kv [<-|[]]. cbn [snd]. unfold member_ok. rewrite HdM. split; [split; [exact Hclean|]|].
          - assert (H3 : fdepth (FObj msi) <= 2 * M + 3).
            { apply Hup. intros f1 v1 H1. destruct (Hparts f1 v1 H1) as [p1 [Hin [_ ->]]]. cbn [fdepth_v].
              pose proof (ddepth_endpoints_in e p1 Hin). fold M in H. lia. }
            lia.
          - apply le_n_S. unfold M. apply ddepth_endpoints_le. intros p1 Hin.
            assert (H1 : getf (fst p1) (endpoints_fields e) <> None).
            { rewrite getf_endpoints. unfold efind. destruct (find (fun p => fid_beq (fst p) (fst p1)) e) eqn:Ef; [discriminate|].
              exfalso. pose proof (find_none _ _ Ef p1 Hin) as C. cbv beta in C. rewrite fid_beq_refl in C. discriminate. }
            destruct (getf (fst p1) (endpoints_fields e)) as [v1|] eqn:E1; [|congruence].
            destruct (Hparts _ _ E1) as [p2 [Hin2 [Hf2 ->]]]. pose proof (Hlow _ _ E1) as L. cbn [fdepth_v] in L.
            (* p2 is the first member under that name; p1 is that member (the names are pairwise different) *)
            assert (p2 = p1).
            { clear - Hndf Hin Hin2 Hf2. induction e as [|q r IH]; [destruct Hin|]. cbn [map nodup_fid_list] in Hndf.
              apply andb_true_iff in Hndf. destruct Hndf as [Hn Hr]. apply negb_true_iff in Hn.
              assert (Hno : forall a b, In a r -> fst a = fst b -> b = q -> False).
              { intros a b Ha Hab ->. assert (existsb (fid_beq (fst q)) (map fst r) = true); [|congruence].
                apply existsb_exists. exists (fst a). split; [apply in_map; exact Ha|rewrite Hab; apply fid_beq_refl]. }
              destruct Hin as [->|Hin], Hin2 as [->|Hin2]; [reflexivity| | |exact (IH Hr Hin Hin2)].
              - exfalso. exact (Hno p2 p1 Hin2 Hf2 eq_refl).
              - exfalso. exact (Hno p1 p2 Hin (eq_sym Hf2) eq_refl). }
            subst p2. exact L. }
        assert (Hj : jget val t = Some (FObj msi)) by (apply get_hit; [exact Hms|exact Hplain|apply Hlook; exact Hkey]).
        destruct (leaf_read TEndpoints t (endpoints_fields e) rstmts rs0 rs dg (FObj msi) Ejr Ers0 Ers Hnd) as [acc' [Hrun [Hget Hin']]].
        { intros r0 Hr0. destruct (forall2_in_l _ _ _ r0 (strip_all_in _ _ _ _ Ers) Hr0) as [r1 [Hr1 Hst]].
          exact (strip_spec_plain jr_tables layout_of li dg t TEndpoints (endpoints_fields e) (FObj msi) r0 r1 ltac:(discriminate) Hst (Hspec r1 Hr1)). }
        rewrite gv_endpoints, Hj. change (B "JSONGetActorEndpoints") with (leaf_rtable TEndpoints). rewrite Hrun.
        eexists. split; [reflexivity|]. split; [|rewrite norm_endpoints; reflexivity].
        assert (E : endpoints_in_struct_order (flat_map (fun p => match snd p with FItem i => [(fst p, i)] | _ => [] end) acc')
                    = endpoints_in_struct_order (map (fun p => (fst p, nrm (snd p))) e)).
        { assert (Hall : forall f' v', In (f', v') acc' -> exists i, v' = FItem i).
          { intros f' v' H1. destruct (Hin' f' v' H1) as [v0 [H0 ->]]. destruct (Hparts _ _ H0) as [p1 [_ [_ ->]]]. eexists; reflexivity. }
          apply eiso_ext.
          - intros f1. change (fun p : fid * fval => match snd p with FItem i => [(fst p, i)] | _ => [] end) with esel.
            rewrite (efind_esel f1 acc' Hall), Hget, efind_map, getf_endpoints.
            destruct (efind f1 e) as [p1|] eqn:Ef.
            + destruct (efind_some _ _ _ Ef) as [Hin1 Hf1]. cbn [option_map].
              assert (Hc : existsb (fid_beq f1) (map rf_fid rs) = true).
              { rewrite <- existsb_fid_map. apply (Hcov (f1, TItem)). cbn [leaf_layout]. apply in_map_iff. exists f1. split; [reflexivity|].
                rewrite forallb_forall in Hord. specialize (Hord p1 Hin1). rewrite Hf1 in Hord. apply existsb_exists in Hord.
                destruct Hord as [x [Hx Hxe]]. apply fid_beq_eq in Hxe. subst x. exact Hx. }
              rewrite Hc. change (nrmv (FItem (snd p1))) with (FItem (nrm (snd p1))). rewrite Hf1. reflexivity.
            + cbn [option_map]. destruct (existsb (fid_beq f1) (map rf_fid rs)); reflexivity.
          - intros p1 Hp1. apply in_flat_map in Hp1. destruct Hp1 as [[f' v'] [H1 H2]].
            destruct (Hin' f' v' H1) as [v0 [H0 ->]]. destruct (Hparts _ _ H0) as [p2 [Hin2 [Hf2 ->]]].
            change (nrmv (FItem (snd p2))) with (FItem (nrm (snd p2))) in H2. cbn [snd fst] in H2. destruct H2 as [<-|[]]. cbn [fst].
            rewrite forallb_forall in Hord. rewrite <- Hf2. exact (Hord p2 Hin2).
          - intros p1 Hp1. apply in_map_iff in Hp1. destruct Hp1 as [p2 [<- Hin2]]. cbn [fst].
            rewrite forallb_forall in Hord. exact (Hord p2 Hin2). }
        unfold link_guard. destruct (bytes_eqb rgd _); rewrite norm_endpoints, E; reflexivity.
      - (* ---------------- PublicKey ---------------- *)
        destruct v as [ | | | | | | | | | | | |id ow pem]; try discriminate. cbn [wf_fval] in Hw.
        rewrite !andb_true_iff, negb_true_iff in Hw. destruct Hw as [[[Hid How] Hpem] Hnz].
        unfold t_value in Ev. ev_eqb_in Ev.
        destruct (t_struct (t_run_table jw_tables (S d') (tr fe)) (B "PublicKey_MarshalJSON") (pubkey_fields id ow pem)) as [o'|] eqn:Es; [|discriminate].
        inversion Ev; subst t' ov r0. clear Ev.
        destruct (leaf_round jw_tables jr_tables layout_of registry load_switch activity_types actor_types link_types li g fe
                    HEo HLo HLs HKo HDo t TPubKey (pubkey_fields id ow pem) d' dg o' Hleaf) as
          [msi [rstmts [rs0 [rs [-> [Ejr [Ers0 [Ers [Hnd [Hcov [Hclean [Hpl [Hup [Hlow [Hplr Hspec]]]]]]]]]]]]]]]; [| |exact Es|].
        { intros f1 v1 H1. exists TString. destruct (getf_pubkey_inv f1 id ow pem v1 H1) as [[-> [-> Hn]]|[[-> [-> Hn]]|[-> [-> Hn]]]];
            (split; [reflexivity|]); (split; [|cbn; lia]); cbn [wf_fval].
          - destruct id; [congruence|exact Hid].
          - destruct ow; [congruence|exact How].
          - destruct pem; [congruence|exact Hpem]. }
        { cbn [fval_is_zero] in Hnz. destruct id as [|b0 id']; [destruct pem as [|b1 pem']; [destruct ow as [|b2 ow']; [discriminate Hnz|]|]|].
          - exists F_Owner, (Vocab.FStr (b2 :: ow')). rewrite getf_pubkey_owner. reflexivity.
          - exists F_PublicKeyPem, (Vocab.FStr (b1 :: pem')). rewrite getf_pubkey_pem. reflexivity.
          - exists F_ID, (Vocab.FStr (b0 :: id')). rewrite getf_pubkey_id. reflexivity. }
        rewrite (Fin _ eq_refl) in *. split; [discriminate|].
        split.
        { intros kv [<-|[]]. cbn [snd]. split; [split; [exact Hclean|]|cbn [fdepth_v]; lia].
          cbn [fdepth_v]. assert (H3 : fdepth (FObj msi) <= 2 * 0 + 3).
          { apply Hup. intros f1 v1 H1. destruct (getf_pubkey_inv f1 id ow pem v1 H1) as [[_ [-> _]]|[[_ [-> _]]|[_ [-> _]]]]; cbn; lia. }
          lia. }
        assert (Hj : jget val t = Some (FObj msi)) by (apply get_hit; [exact Hms|exact Hplain|apply Hlook; exact Hkey]).
        destruct (leaf_read TPubKey t (pubkey_fields id ow pem) rstmts rs0 rs dg (FObj msi) Ejr Ers0 Ers Hnd) as [acc' [Hrun [Hget _]]].
        { intros r0 Hr0. destruct (forall2_in_l _ _ _ r0 (strip_all_in _ _ _ _ Ers) Hr0) as [r1 [Hr1 Hst]].
          exact (strip_spec_plain jr_tables layout_of li dg t TPubKey (pubkey_fields id ow pem) (FObj msi) r0 r1 ltac:(discriminate) Hst (Hspec r1 Hr1)). }
        rewrite gv_pubkey, Hj. change (B "JSONLoadPublicKey") with (leaf_rtable TPubKey). rewrite Hrun.
        assert (Hc1 : existsb (fid_beq F_ID) (map rf_fid rs) = true)
          by (rewrite <- existsb_fid_map; apply (Hcov (F_ID, TString)); left; reflexivity).
        assert (Hc2 : existsb (fid_beq F_Owner) (map rf_fid rs) = true)
          by (rewrite <- existsb_fid_map; apply (Hcov (F_Owner, TString)); right; left; reflexivity).
        assert (Hc3 : existsb (fid_beq F_PublicKeyPem) (map rf_fid rs) = true)
          by (rewrite <- existsb_fid_map; apply (Hcov (F_PublicKeyPem, TString)); right; right; left; reflexivity).
        unfold get_str. rewrite !Hget, Hc1, Hc2, Hc3, getf_pubkey_id, getf_pubkey_owner, getf_pubkey_pem.
        exists (FPubKey id ow pem). change (nrmv (FPubKey id ow pem)) with (FPubKey id ow pem).
        split; [|split; [unfold link_guard; destruct (bytes_eqb rgd _); reflexivity|]].
        + destruct id, ow, pem; cbn [option_map]; try reflexivity; discriminate Hnz.
        + cbn [fval_is_zero]. destruct id, ow, pem; try reflexivity; discriminate Hnz.
    Qed.

    Lemma field_unset ty f e r o :
      pair_ok ty f e r = true ->
      (match ty with TSource => source_reads_ok jr_tables (rf_term r) | _ => true end) = true ->
      entry_out jw_tables (tr fe) d fs e = Some o ->
      (forall k0, In k0 (keys_of e) -> find_key (fun k => k) ms k0 = find_key (fun k => k) o k0) ->
      getf f fs = None ->
      (forall kv, In kv o -> tree_ok 2 (snd kv)) /\
      exists ox, gv (rf_getter r) (rf_term r) (rf_conv r) = Some ox
                 /\ match ox with None => True | Some x => fval_is_zero (link_guard (rf_guard r) x) = true end.
    Proof.
      intros Hpair Hsrc Hout Hlook Hg.
      destruct (leafless ty) eqn:Hll.
      { exact (field_unset_basic jw_tables jr_tables li fe d fs ms Hms (S dg) ty f e r o Hll Hpair Hout Hlook Hg). }
      destruct e as [t w p via gs]. destruct r as [rfid rt rg rc rgd].
      unfold pair_ok in Hpair. apply andb_true_iff in Hpair. destruct Hpair as [Hpair Htotal].
      unfold pair_ok_core in Hpair. cbn [wf_path wf_term wf_guards rf_term rf_getter rf_conv rf_guard] in *.
      rewrite !andb_true_iff in Hpair. destruct Hpair as [[[[[[[Hp Ht] Hplain] Hwf] Hgf] Hgs] Hcv] Hty].
      destruct p as [|f' [|f2 p]]; try discriminate. apply fid_beq_eq in Hp. subst f'.
      apply bytes_eqb_eq in Ht. subst rt.
      (* a struct-valued field: JSONWriteProp wrote nothing, and the struct getters yield nothing without the member *)
      assert (Hw' : w = B "JSONWriteProp") by (destruct ty; try discriminate; apply bytes_eqb_eq; exact Hwf). subst w.
      assert (Ho : o = []).
      { unfold entry_out in Hout. cbn [wf_guards wf_writer wf_via wf_term wf_path path_get] in Hout. rewrite Hg in Hout.
        destruct (eval_guards fs [x30] (filter nonval gs)) as [[|]|]; [|inversion Hout; reflexivity|discriminate].
        unfold t_value in Hout. ev_eqb_in Hout. cbn [guard_bytes] in Hout.
        destruct (eval_guards fs [] gs) as [[|]|]; inversion Hout; reflexivity. }
      subst o. split; [intros kv []|].
      assert (Hj : jget val t = None).
      { unfold jget. rewrite (fj_get_plain false ms t Hms Hplain). rewrite (Hlook t); [reflexivity|].
        unfold keys_of, is_nlv_writer. cbn [wf_writer wf_term]. ev_eqb. left. reflexivity. }
      exists None. split; [|exact I].
      destruct ty; try discriminate; cbn [getter_fits rf_getter] in Hgf; apply bytes_eqb_eq in Hgf; subst rg.
      - exact (gv_source_absent jr_tables li dg val t rc Hsrc Hj).
      - exact (gv_endpoints_absent jr_tables li (S dg) val t rc Hj).
      - exact (gv_pubkey_absent jr_tables li (S dg) val t rc Hj).
    Qed.
  End One.

  (* ---------------------------------------------------------------- the encoder model is defined on a leaf struct *)
  Section Defined.
    Variable bound : nat.
    Hypothesis HD : forall y, wf y = true -> item_size y <= bound -> exists o, tr fe y = Some o.

    Lemma leaf_defined outer ty ifs d' :
      leaf_ok jw_tables jr_tables outer ty = true ->
      (forall f v, getf f ifs = Some v -> exists ity, leaf_type ty f = Some ity /\ wfv ity v = true /\ fval_size v <= bound) ->
      exists o, t_struct (t_run_table jw_tables (S d') (tr fe)) (leaf_wtable ty) ifs = Some o.
    Proof.
      intros Hok Hfv. unfold leaf_ok in Hok.
      destruct (jw_table jw_tables (leaf_wtable ty)) as [[init ws]|] eqn:Ejw; [|discriminate].
      destruct (jr_table jr_tables (leaf_rtable ty)) as [rstmts|] eqn:Ejr; [|discriminate].
      destruct (leaf_entries ws) as [es|] eqn:Ees; [|discriminate].
      destruct (leaf_reads rstmts) as [rs0|] eqn:Ers0; [|discriminate].
      destruct (leaf_strip_all outer ty rs0) as [rs|] eqn:Ers; [|discriminate].
      rewrite !andb_true_iff in Hok. destruct Hok as [[[[[[Kread Kndr] Kall] Kkeys] Kplain] Kforeign] Kacc].
      pose proof (leaf_flatten jw_tables _ init ws es d' Ejw Ees) as Eesd.
      destruct (run_defined jw_tables (tr fe) ifs (S d') (leaf_wtable ty) _ Eesd) as [ms [ne Hr]].
      { intros de Hde. apply in_map_iff in Hde. destruct Hde as [e [<- Hine]]. cbn [fst snd].
        rewrite forallb_forall in Kforeign. specialize (Kforeign _ Hine). apply existsb_exists in Kforeign.
        destruct Kforeign as [r [Hr Hfor]].
        rewrite forallb_forall in Kread. specialize (Kread r Hr). unfold leaf_read_ok in Kread.
        destruct (leaf_type ty (rf_fid r)) as [ity|] eqn:Ed; [|discriminate].
        destruct (filter (entry_for (rf_fid r)) es) as [|e1 [|e2 er]] eqn:Ef; try discriminate.
        assert (He : e = e1).
        { assert (Hin : In e (filter (entry_for (rf_fid r)) es)) by (apply filter_In; split; assumption).
          rewrite Ef in Hin. destruct Hin as [<-|[]]. reflexivity. }
        subst e1.
        apply (entry_defined jw_tables layout_of registry load_switch activity_types actor_types link_types fe d' ifs bound HD
                 ity (rf_fid r) e r Kread).
        - intros v Hv. destruct (Hfv _ _ Hv) as [ity' [Hd' [Hwv Hsz]]]. assert (ity' = ity) by congruence. subst ity'. split; assumption.
        - intros v Hv Hwv. pose proof (leaf_type_leafless ty _ ity Ed) as Hll.
          destruct ity; try discriminate Hll; destruct v; try discriminate Hwv; exact I. }
      unfold t_struct. rewrite Hr. eexists; reflexivity.
    Qed.

    (* the struct-valued field of a well-formed object, at a depth that leaves room for the table of the struct *)
    Lemma struct_defined_wf ty r v d' :
      leaf_cond ty r -> wfv ty v = true -> fval_size v <= bound -> struct_defined jw_tables fe (S d') v.
    Proof.
      intros Hleaf Hw Hsz.
      destruct ty, v as [i|l|l|s|t0|dd|u|z|b|m|mt c|[e|]|id ow pem]; try discriminate Hw; try exact I; cbn [leaf_cond] in Hleaf; cbn [struct_defined].
      - (* source *)
        cbn [wf_fval] in Hw. rewrite !andb_true_iff, negb_true_iff in Hw. destruct Hw as [[Hmt Hc] Hnz].
        apply (leaf_defined (rf_term r) TSource (source_fields mt c) d' Hleaf).
        intros f1 v1 H1. destruct (getf_source_inv f1 mt c v1 H1) as [[-> [-> Hc1]]|[-> [-> Hm1]]].
        + exists TNlv. split; [reflexivity|]. split; [|cbn [fval_size] in Hsz |- *; lia]. destruct c as [l|]; [exact Hc|congruence].
        + exists TString. split; [reflexivity|]. split; [|cbn [fval_size] in Hsz |- *; lia]. destruct mt; [congruence|exact Hmt].
      - (* endpoints *)
        destruct e as [|p0 e0]; [discriminate Hw|]. cbn [wf_fval] in Hw. rewrite !andb_true_iff in Hw. destruct Hw as [[Hndf Hord] Hmem].
        pose proof (wf_endpoints_members layout_of registry load_switch activity_types actor_types link_types (p0 :: e0) Hmem) as Hwm.
        apply (leaf_defined (rf_term r) TEndpoints (endpoints_fields (p0 :: e0)) d' Hleaf).
        intros f1 v1 H1. rewrite getf_endpoints in H1. destruct (efind f1 (p0 :: e0)) as [p1|] eqn:Ef; [|discriminate].
        destruct (efind_some _ _ _ Ef) as [Hin Hf1]. inversion H1; subst v1. exists TItem. split; [|split].
        + rewrite forallb_forall in Hord. specialize (Hord p1 Hin). rewrite Hf1 in Hord. exact (leaf_type_endpoints f1 Hord).
        + exact (Hwm p1 Hin).
        + pose proof (size_endpoints_in (p0 :: e0) p1 Hin) as Q. change (fval_size (FItem (snd p1))) with (item_size (snd p1)). lia.
      - (* public key *)
        cbn [wf_fval] in Hw. rewrite !andb_true_iff, negb_true_iff in Hw. destruct Hw as [[[Hid How] Hpem] Hnz].
        apply (leaf_defined (rf_term r) TPubKey (pubkey_fields id ow pem) d' Hleaf).
        intros f1 v1 H1. exists TString. destruct (getf_pubkey_inv f1 id ow pem v1 H1) as [[-> [-> Hn]]|[[-> [-> Hn]]|[-> [-> Hn]]]];
          (split; [reflexivity|]); (split; [|cbn [fval_size] in Hsz |- *; lia]); cbn [wf_fval].
        + destruct id; [congruence|exact Hid].
        + destruct ow; [congruence|exact How].
        + destruct pem; [congruence|exact Hpem].
    Qed.
  End Defined.
End FieldAll.
