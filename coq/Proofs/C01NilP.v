(* C01 over values with nil-like entries (builder b66): the encoder's bytes are invariant under `erase`
   (Model/NilErase.v), composed from
     - C20's theorem (Proofs/NilEncP.v marshal_json_erases, builder b24): invariance under the erasure RELATION, which
       keeps list lengths (a nil-like list member becomes the untyped nil), applied to x and scrub x;
     - a second simulation through the table interpreter of Model/JsonEnc.v, proved here: removing the untyped-nil
       MEMBERS of lists, at any depth, where every list keeps at least two members or loses none (lists_ok);
     - b54's definedness theorem (Proofs/EncDefinedGenP.v): the encoder model answers on every well-typed value, which
       turns C20's one-directional statement on `option` into an equation;
   and then b22 / b48's round-trip theorem (Proofs/C01RoundP.v) on the erased value.
   A third simulation (RB_sim, marshal_json_blank) does the same for the other items that are written as nothing (the
   empty and the "-" IRI, nil and empty lists in item positions, the nil IRI list): the encoder cannot tell them from a
   typed nil pointer (blank), so erase_all = erase o blank is covered too (json_roundtrip_nothing_doc).
   All three simulations go through one generic lemma (Section SimD: enc_item_simD, for any relation that unfolds
   through shapeD), a simplified copy of b24's Section Sim without the "guard passes for a typed nil" case, with list
   relations that may skip untyped-nil members on the left (dropped / keeps). *)
From AP.Model Require Import Prelude Bytes Vocab Pred Json JsonLeaf JsonTables Dispatch JsonEnc NilMatrix NilEmbed NilFlatten NilErase.
From AP.Proofs Require Import NlvP RecipP NilEncP NilFlattenP.
Local Open Scope nat_scope.

(* ------------------------------------------------------------------ unfoldings *)
Lemma dropn_obj p k fs : dropn (IObj p k fs) = IObj p k (dropn_fields fs).
Proof. reflexivity. Qed.
Lemma dropn_items p l : dropn (IItems p (Some l)) = IItems p (Some (dropn_list l)).
Proof. reflexivity. Qed.
Lemma dropn_fval_items l : dropn_fval (FItems (Some l)) = FItems (Some (dropn_list l)).
Proof. reflexivity. Qed.
Lemma dropn_fval_endp e : dropn_fval (FEndpoints (Some e)) = FEndpoints (Some (dropn_endp e)).
Proof. reflexivity. Qed.

Lemma lists_ok_obj p k fs : lists_ok (IObj p k fs) = forallb (fun fv => lists_ok_fval (snd fv)) fs.
Proof. cbn [lists_ok]. induction fs as [|[f v] r IH]; [reflexivity|]. cbn [forallb snd]. rewrite <- IH. reflexivity. Qed.
Lemma lists_ok_items p l : lists_ok (IItems p (Some l)) = list_ok l && forallb lists_ok l.
Proof. reflexivity. Qed.
Lemma lists_ok_fval_items l : lists_ok_fval (FItems (Some l)) = list_ok l && forallb lists_ok l.
Proof. reflexivity. Qed.
Lemma lists_ok_fval_endp e : lists_ok_fval (FEndpoints (Some e)) = forallb (fun fx => lists_ok (snd fx)) e.
Proof. cbn [lists_ok_fval]. induction e as [|[f x] r IH]; [reflexivity|]. cbn [forallb snd]. rewrite <- IH. reflexivity. Qed.

Lemma dropn_inil x : dropn x = INil <-> x = INil.
Proof. destruct x as [|k|p s|p k fs|p [l|]|p l]; split; intro H; try discriminate; try reflexivity. Qed.

Lemma dropn_list_length l : length (dropn_list l) = kept_count l.
Proof.
  induction l as [|x r IH]; [reflexivity|]. cbn [dropn_list kept_count].
  destruct x; cbn [is_inil length Nat.add]; rewrite IH; reflexivity.
Qed.

(* ------------------------------------------------------------------ sameness up to removed nil members *)
Section RelD.
  Variable RI : item -> item -> Prop.

  Inductive dropped : list item -> list item -> Prop :=
  | dr_nil : dropped [] []
  | dr_keep x y a b : RI x y -> dropped a b -> dropped (x :: a) (y :: b)
  | dr_skip a b : dropped a b -> dropped (INil :: a) b.

  (* the list loses no member or keeps at least two *)
  Definition keeps (a b : list item) : Prop := length a = length b \/ 2 <= length b.

  Definition lrelD (l l' : option (list item)) : Prop :=
    match l, l' with Some a, Some b => dropped a b /\ keeps a b | None, None => True | _, _ => False end.

  Definition vrelD (v v' : fval) : Prop :=
    match v, v' with
    | FItem i, FItem i' => RI i i'
    | FItems l, FItems l' => RI (IItems false l) (IItems false l') /\ lrelD l l'
    | FEndpoints (Some e), FEndpoints (Some e') => Forall2 (fun a b => fst a = fst b /\ RI (snd a) (snd b)) e e'
    | _, _ => is_leaf v /\ v = v'
    end.

  Definition orelD (o o' : option fval) : Prop :=
    match o, o' with None, None => True | Some v, Some v' => vrelD v v' | _, _ => False end.

  Definition frelD (fs fs' : list (fid * fval)) : Prop := forall f, orelD (getf f fs) (getf f fs').

  (* both are items that are not the untyped nil and are written as nothing (Model/NilErase.v nothing), or the two have
     the same constructor and related parts *)
  Definition shapeD (x x' : item) : Prop :=
    (nothing x = true /\ nothing x' = true) \/
    match x, x' with
    | INil, INil => True
    | ITNil k, ITNil k' => k = k'
    | IIri p s, IIri p' s' => p = p' /\ s = s'
    | IIris p l, IIris p' l' => p = p' /\ l = l'
    | IObj p k fs, IObj p' k' fs' => p = p' /\ k = k' /\ frelD fs fs'
    | IItems p l, IItems p' l' => p = p' /\ lrelD l l'
    | _, _ => False
    end.
End RelD.

Lemma dropped_length RI a b : dropped RI a b -> length b <= length a.
Proof. induction 1; cbn [length]; lia. Qed.

Section SimD.
  Variable tbls : list (bytes * bool * list wstmt).
  Variable RI : item -> item -> Prop.
  Hypothesis Hsim : forall x x', RI x x' -> shapeD RI x x'.

  Lemma RI_nil_l i i' : RI i i' -> i = INil -> i' = INil.
  Proof. intros H ->. apply Hsim in H. destruct H as [[H _]|H]; [discriminate|]. destruct i'; try contradiction. reflexivity. Qed.
  Lemma RI_nil_r i i' : RI i i' -> i' = INil -> i = INil.
  Proof. intros H ->. apply Hsim in H. destruct H as [[_ H]|H]; [discriminate|]. destruct i; try contradiction. reflexivity. Qed.

  Lemma orelD_inv o o' : orelD RI o o' ->
    (o = None /\ o' = None) \/
    (exists i i', o = Some (FItem i) /\ o' = Some (FItem i') /\ RI i i') \/
    (exists l l', o = Some (FItems l) /\ o' = Some (FItems l') /\ RI (IItems false l) (IItems false l') /\ lrelD RI l l') \/
    (exists e e', o = Some (FEndpoints (Some e)) /\ o' = Some (FEndpoints (Some e')) /\
                  Forall2 (fun a b => fst a = fst b /\ RI (snd a) (snd b)) e e') \/
    (exists v, o = Some v /\ o' = Some v /\ is_leaf v).
  Proof.
    destruct o as [v|], o' as [v'|]; cbn [orelD]; try contradiction.
    - intro H.
      destruct v as [i|l|n|s|t|d|u|z|b|m|mt c|e|a1 a2 a3]; try (destruct e as [e|]);
        destruct v' as [i'|l'|n'|s'|t'|d'|u'|z'|b'|m'|mt' c'|e'|a1' a2' a3']; try (destruct e' as [e'|]);
        cbn [vrelD] in H;
        try (destruct H as [Hl He]; first [contradiction Hl | (inversion He; subst; do 4 right; eexists; repeat split; exact Hl)]).
      + right. left. eauto.
      + destruct H as [H1 H2]. do 2 right. left. eauto 8.
      + do 3 right. left. eauto 8.
    - intros _. left. auto.
  Qed.

  (* ---- guards: they agree exactly ---- *)
  Lemma lrelD_empty a b : dropped RI a b -> keeps a b -> (a = [] <-> b = []).
  Proof.
    intros Hd Hk. split; intro; subst.
    - inversion Hd. reflexivity.
    - destruct Hk as [Hk|Hk]; cbn [length] in Hk; [|lia]. destruct a; [reflexivity|discriminate].
  Qed.

  Lemma g_ne_nil_relD o o' : orelD RI o o' -> g_ne_nil o = g_ne_nil o'.
  Proof.
    intro H. destruct (orelD_inv o o' H) as [[-> ->]|[[i [i' [-> [-> Hr]]]]|[[l [l' [-> [-> [_ Hl]]]]]|[[e [e' [-> [-> _]]]]|[v [-> [-> _]]]]]]];
      try reflexivity.
    - destruct i.
      + rewrite (RI_nil_l _ _ Hr eq_refl). reflexivity.
      + destruct i'; try reflexivity. pose proof (RI_nil_r _ _ Hr eq_refl). discriminate.
      + destruct i'; try reflexivity. pose proof (RI_nil_r _ _ Hr eq_refl). discriminate.
      + destruct i'; try reflexivity. pose proof (RI_nil_r _ _ Hr eq_refl). discriminate.
      + destruct i'; try reflexivity. pose proof (RI_nil_r _ _ Hr eq_refl). discriminate.
      + destruct i'; try reflexivity. pose proof (RI_nil_r _ _ Hr eq_refl). discriminate.
    - destruct l, l'; cbn [lrelD] in Hl; try contradiction; reflexivity.
  Qed.

  Lemma g_len_gt0_relD o o' : orelD RI o o' -> g_len_gt0 o = g_len_gt0 o'.
  Proof.
    intro H. destruct (orelD_inv o o' H) as [[-> ->]|[[i [i' [-> [-> Hr]]]]|[[l [l' [-> [-> [_ Hl]]]]]|[[e [e' [-> [-> _]]]]|[v [-> [-> _]]]]]]];
      try reflexivity.
    destruct l as [a|], l' as [b|]; cbn [lrelD] in Hl; try contradiction; try reflexivity.
    destruct Hl as [Hd Hk]. pose proof (lrelD_empty a b Hd Hk) as [E1 E2].
    destruct a as [|x a], b as [|y b]; try reflexivity.
    - specialize (E1 eq_refl). discriminate.
    - specialize (E2 eq_refl). discriminate.
  Qed.

  Lemma g_not_zero_time_relD o o' : orelD RI o o' -> g_not_zero_time o = g_not_zero_time o'.
  Proof.
    intro H. destruct (orelD_inv o o' H) as [[-> ->]|[[i [i' [-> [-> Hr]]]]|[[l [l' [-> [-> [_ Hl]]]]]|[[e [e' [-> [-> _]]]]|[v [-> [-> _]]]]]]];
      reflexivity.
  Qed.
  Lemma num_of_relD o o' : orelD RI o o' -> num_of o = num_of o'.
  Proof.
    intro H. destruct (orelD_inv o o' H) as [[-> ->]|[[i [i' [-> [-> Hr]]]]|[[l [l' [-> [-> [_ Hl]]]]]|[[e [e' [-> [-> _]]]]|[v [-> [-> _]]]]]]];
      reflexivity.
  Qed.
  Lemma pubkey_relD o o' : orelD RI o o' -> pubkey_guard o = pubkey_guard o'.
  Proof.
    intro H. destruct (orelD_inv o o' H) as [[-> ->]|[[i [i' [-> [-> Hr]]]]|[[l [l' [-> [-> [_ Hl]]]]]|[[e [e' [-> [-> _]]]]|[v [-> [-> _]]]]]]];
      reflexivity.
  Qed.

  Lemma eval_guard_relD fs fs' b g : frelD RI fs fs' -> eval_guard fs' b g = eval_guard fs b g.
  Proof.
    intro H. destruct g as [f|f|f|f|f| |src]; cbn [eval_guard].
    - rewrite (g_ne_nil_relD _ _ (H f)). reflexivity.
    - rewrite (g_len_gt0_relD _ _ (H f)). reflexivity.
    - rewrite (g_not_zero_time_relD _ _ (H f)). reflexivity.
    - rewrite (num_of_relD _ _ (H f)). reflexivity.
    - rewrite (num_of_relD _ _ (H f)). reflexivity.
    - reflexivity.
    - destruct (bytes_eqb src _); [|reflexivity]. rewrite (pubkey_relD _ _ (H F_PublicKey)). reflexivity.
  Qed.

  Lemma eval_guards_relD fs fs' b gs : frelD RI fs fs' -> eval_guards fs' b gs = eval_guards fs b gs.
  Proof.
    intro H. induction gs as [|g rest IH]; [reflexivity|]. cbn [eval_guards].
    rewrite (eval_guard_relD fs fs' b g H). rewrite IH. reflexivity.
  Qed.

  Section Enc.
    Variables E E' : item -> option bytes.
    Hypothesis HE : forall i i' b, RI i i' -> E i = Some b -> E' i' = Some b.
    Hypothesis HEnil : forall i b, i = INil -> E i = Some b -> b = [].
    Variables R R' : bytes -> list (fid * fval) -> option (list bytes * bool).
    Hypothesis HR : forall name fs fs' r, frelD RI fs fs' -> R name fs = Some r -> R' name fs' = Some r.

    (* the array writer: a removed member wrote nothing *)
    Lemma coll_go_relD term l l' : dropped RI l l' -> forall acc res,
      (fix go (l : list item) (acc : list bytes) : option (bytes * bytes * bool) :=
         match l with
         | [] => Some (term, x5b :: join_with comma (rev acc) ++ [x5d], true)
         | i :: r => match E i with Some [] => go r acc | Some b => go r (b :: acc) | None => None end
         end) l acc = Some res ->
      (fix go (l : list item) (acc : list bytes) : option (bytes * bytes * bool) :=
         match l with
         | [] => Some (term, x5b :: join_with comma (rev acc) ++ [x5d], true)
         | i :: r => match E' i with Some [] => go r acc | Some b => go r (b :: acc) | None => None end
         end) l' acc = Some res.
    Proof.
      induction 1 as [|x y l l' Hxy Hl IH|l l' Hl IH]; intros acc res H; [exact H| |].
      - destruct (E x) as [b|] eqn:Ex; [|discriminate]. rewrite (HE _ _ _ Hxy Ex).
        destruct b; apply IH; exact H.
      - destruct (E INil) as [b|] eqn:Ex; [|discriminate]. rewrite (HEnil INil b eq_refl Ex) in H. apply IH. exact H.
    Qed.

    Lemma frelD_endpoints e e' :
      Forall2 (fun a b => fst a = fst b /\ RI (snd a) (snd b)) e e' ->
      frelD RI (endpoints_fields e) (endpoints_fields e').
    Proof.
      intros H f. induction H as [|[g x] [g' y] e e' [Hg Hxy] He IH]; [exact I|].
      cbn [fst snd] in Hg, Hxy. subst g'. cbn [endpoints_fields map fst snd getf].
      destruct (fid_beq f g); [exact Hxy|exact IH].
    Qed.

    Lemma frelD_leaves fs : Forall (fun fv => is_leaf (snd fv)) fs -> frelD RI fs fs.
    Proof.
      intros H f. induction H as [|[g v] r Hv Hr IH]; cbn [getf]; [exact I|].
      destruct (fid_beq f g); [|exact IH]. cbn [orelD snd] in *.
      destruct v; try contradiction; try (split; [exact I|reflexivity]).
      destruct e; [contradiction|split; [exact I|reflexivity]].
    Qed.

    Lemma write_value_relD writer via term o o' res : orelD RI o o' ->
      write_value E R writer via term o = Some res -> write_value E' R' writer via term o' = Some res.
    Proof.
      intros H. unfold write_value.
      destruct (orelD_inv o o' H) as [[-> ->]|[[i [i' [-> [-> Hr]]]]|[[l [l' [-> [-> [Hw Hl]]]]]|[[e [e' [-> [-> He]]]]|[v [-> [-> Hv]]]]]]].
      - repeat (match goal with |- context [if ?c then _ else _] => destruct c end); auto.
      - repeat (match goal with |- context [if ?c then _ else _] => destruct c end); auto; try discriminate.
        destruct (E i) as [b|] eqn:Ei; [|discriminate]. rewrite (HE _ _ _ Hr Ei). auto.
      - repeat (match goal with |- context [if ?c then _ else _] => destruct c end); auto; try discriminate.
        + destruct (E (IItems false l)) as [b|] eqn:Ei; [|discriminate]. rewrite (HE _ _ _ Hw Ei). auto.
        + destruct l as [a|], l' as [b|]; cbn [lrelD] in Hl; try contradiction; auto.
          destruct Hl as [Hd Hk]. pose proof (lrelD_empty a b Hd Hk) as [E1 E2].
          destruct a as [|x a], b as [|y b]; auto.
          * specialize (E1 eq_refl). discriminate.
          * specialize (E2 eq_refl). discriminate.
          * intro Hgo. exact (coll_go_relD term _ _ Hd [] res Hgo).
      - repeat (match goal with |- context [if ?c then _ else _] => destruct c end); auto; try discriminate.
        destruct (R (B "Endpoints_MarshalJSON") (endpoints_fields e)) as [r|] eqn:Er; [|discriminate].
        rewrite (HR _ _ _ _ (frelD_endpoints e e' He) Er). auto.
      - repeat (match goal with |- context [if ?c then _ else _] => destruct c end); auto; try discriminate;
          destruct v as [i|l|n|s|t|d|u|z|b|m|mt c|e|a1 a2 a3]; try contradiction; auto.
        all: try (destruct e; [contradiction|auto]).
        all: match goal with
             | |- match R ?n (source_fields ?a ?b) with _ => _ end = _ -> _ =>
                 destruct (R n (source_fields a b)) as [r|] eqn:Er; [|discriminate];
                 rewrite (HR _ _ _ _ (frelD_leaves _ (source_leaves a b)) Er); auto
             | |- match R ?n (pubkey_fields ?a ?b ?c) with _ => _ end = _ -> _ =>
                 destruct (R n (pubkey_fields a b c)) as [r|] eqn:Er; [|discriminate];
                 rewrite (HR _ _ _ _ (frelD_leaves _ (pubkey_leaves a b c)) Er); auto
             end.
    Qed.

    Lemma path_get_relD path fs fs' : frelD RI fs fs' -> orelD RI (path_get path fs) (path_get path fs').
    Proof.
      intro H. destruct path as [|f [|g [|h r]]]; cbn [path_get]; try exact I; [apply H|].
      destruct (orelD_inv _ _ (H f)) as [[-> ->]|[[i [i' [-> [-> Hr]]]]|[[l [l' [-> [-> [Hw Hl]]]]]|[[e [e' [-> [-> He]]]]|[v [-> [-> Hv]]]]]]];
        try exact I.
      destruct v; try exact I.
      - exact (frelD_leaves _ (source_leaves mt c) g).
      - exact (frelD_leaves _ (pubkey_leaves id owner pem) g).
    Qed.

    Lemma enc_stmts_relD stmts : forall fs fs' st r, frelD RI fs fs' ->
      enc_stmts E R stmts fs st = Some r -> enc_stmts E' R' stmts fs' st = Some r.
    Proof.
      induction stmts as [|s rest IH]; intros fs fs' st r Hf H; [exact H|].
      destruct st as [ms ne]. cbn [enc_stmts] in *.
      destruct s as [term writer path via guards acc pos|on fn acc pos|src pos]; [| |discriminate].
      - rewrite (eval_guards_relD fs fs' _ _ Hf).
        destruct (eval_guards fs [x30] _) as [[|]|]; [| |discriminate].
        + destruct (write_value E R writer via term (path_get path fs)) as [[[term' b] rr]|] eqn:Ew; [|discriminate].
          rewrite (write_value_relD writer via term _ _ _ (path_get_relD path fs fs' Hf) Ew).
          rewrite (eval_guards_relD fs fs' _ _ Hf).
          destruct (eval_guards fs b guards) as [[|]|]; [| |discriminate].
          * destruct (apply_acc acc rr ne); [|discriminate]. apply (IH fs fs' _ _ Hf); assumption.
          * apply (IH fs fs' _ _ Hf); assumption.
        + apply (IH fs fs' _ _ Hf); assumption.
      - destruct fn as [|c fn]; [apply (IH fs fs' _ _ Hf); assumption|].
        destruct (R (c :: fn) fs) as [[ms' rr]|] eqn:Er; [|discriminate].
        rewrite (HR _ _ _ _ Hf Er). destruct (apply_acc acc rr ne); [|discriminate]. apply (IH fs fs' _ _ Hf); assumption.
    Qed.
  End Enc.

  Lemma run_table_relD E E' :
    (forall i i' b, RI i i' -> E i = Some b -> E' i' = Some b) ->
    (forall i b, i = INil -> E i = Some b -> b = []) ->
    forall d name fs fs' r, frelD RI fs fs' ->
    run_table tbls d E name fs = Some r -> run_table tbls d E' name fs' = Some r.
  Proof.
    intros HE HEnil. induction d as [|d IH]; intros name fs fs' r Hf H; [discriminate|].
    cbn [run_table] in *. destruct (jw_table tbls name) as [[init stmts]|] eqn:T; [|discriminate].
    exact (enc_stmts_relD E E' HE HEnil (run_table tbls d E) (run_table tbls d E') IH stmts fs fs' _ r Hf H).
  Qed.

  (* the array loop of enc_item *)
  Lemma items_go_relD (E E' : item -> option bytes) :
    (forall i i' b, RI i i' -> E i = Some b -> E' i' = Some b) ->
    (forall i b, i = INil -> E i = Some b -> b = []) ->
    forall l l', dropped RI l l' -> forall acc res,
    (fix go (l : list item) (acc : list bytes) : option bytes :=
       match l with
       | [] => Some (x5b :: join_with comma (rev acc) ++ [x5d])
       | x :: r => match E x with Some [] => go r acc | Some b => go r (b :: acc) | None => None end
       end) l acc = Some res ->
    (fix go (l : list item) (acc : list bytes) : option bytes :=
       match l with
       | [] => Some (x5b :: join_with comma (rev acc) ++ [x5d])
       | x :: r => match E' x with Some [] => go r acc | Some b => go r (b :: acc) | None => None end
       end) l' acc = Some res.
  Proof.
    intros HE HEnil l l'. induction 1 as [|x y l l' Hxy Hl IH|l l' Hl IH]; intros acc res H; [exact H| |].
    - destruct (E x) as [b|] eqn:Ex; [|discriminate]. rewrite (HE _ _ _ Hxy Ex). destruct b; apply IH; exact H.
    - destruct (E INil) as [b|] eqn:Ex; [|discriminate]. rewrite (HEnil INil b eq_refl Ex) in H. apply IH. exact H.
  Qed.

  Lemma enc_inil_empty fuel i b : i = INil -> enc_item tbls fuel i = Some b -> b = [].
  Proof. intros ->. destruct fuel; [discriminate|]. cbn [enc_item]. intro H. inversion H. reflexivity. Qed.

  Lemma enc_nothing f x : nothing x = true -> enc_item tbls (S f) x = Some [].
  Proof.
    destruct x as [|k|p s|p k fs|p [[|y l]|]|[|] [l|]]; try discriminate; try reflexivity.
    cbn [nothing enc_item]. intros ->. reflexivity.
  Qed.

  Lemma enc_item_simD : forall fuel x x' b,
    RI x x' -> enc_item tbls fuel x = Some b -> enc_item tbls fuel x' = Some b.
  Proof.
    induction fuel as [|f IH]; intros x x' b Hr H; [discriminate|].
    pose proof (Hsim x x' Hr) as Hs.
    destruct Hs as [[N N']|Hs]; [rewrite (enc_nothing f x N) in H; rewrite (enc_nothing f x' N'); exact H|].
    destruct x as [|k|p s|p k fs|p l|p l]; destruct x' as [|k'|p' s'|p' k' fs'|p' l'|p' l']; cbn [shapeD] in Hs;
      try contradiction; try exact H.
    - destruct Hs as [-> ->]. exact H.
    - destruct Hs as [-> [-> Hf]]. cbn [enc_item] in *.
      destruct (run_table tbls 6 (enc_item tbls f) (marshal_table k') fs) as [[ms ne]|] eqn:T; [|discriminate].
      rewrite (run_table_relD (enc_item tbls f) (enc_item tbls f) IH (enc_inil_empty f) 6 _ fs fs' _ Hf T).
      exact H.
    - destruct Hs as [-> Hl]. destruct l as [l|], l' as [l'|]; cbn [lrelD] in Hl; try contradiction; [|exact H].
      destruct Hl as [Hd Hk]. pose proof (dropped_length _ _ _ Hd) as Hle.
      destruct Hk as [Hk|Hk].
      + (* no member removed at this level *)
        assert (HF : Forall2 RI l l').
        { clear H Hle Hr. induction Hd as [|x y a0 b0 Hxy Hd IHd|a0 b0 Hd IHd]; [constructor| |].
          - constructor; [exact Hxy|]. apply IHd. cbn [length] in Hk. lia.
          - pose proof (dropped_length _ _ _ Hd). cbn [length] in Hk. lia. }
        clear Hd. cbn [enc_item] in *. destruct HF as [|x y l l' Hxy HF]; [exact H|].
        destruct HF as [|x2 y2 l l' Hxy2 HF]; [exact (IH _ _ _ Hxy H)|].
        exact (NilEncP.items_go_rel _ _ RI IH _ _ (Forall2_cons _ _ Hxy (Forall2_cons _ _ Hxy2 HF)) [] b H).
      + (* at least two stay: both sides are arrays *)
        destruct l' as [|y1 [|y2 l']]; cbn [length] in Hk; try lia.
        destruct l as [|x1 [|x2 l]]; cbn [length] in Hle; try lia.
        cbn [enc_item] in *.
        exact (items_go_relD _ _ IH (enc_inil_empty f) _ _ Hd [] b H).
    - destruct Hs as [-> ->]. exact H.
  Qed.
End SimD.

(* ------------------------------------------------------------------ removing the nil members is such a simulation *)
Definition RD (x x' : item) : Prop := x' = dropn x /\ lists_ok x = true.

Lemma getf_dropn_fields f fs : getf f (dropn_fields fs) = option_map dropn_fval (getf f fs).
Proof.
  induction fs as [|[g v] r IH]; [reflexivity|]. cbn [dropn_fields getf]. destruct (fid_beq f g); [reflexivity|exact IH].
Qed.

Lemma getf_lists_ok f fs v : forallb (fun fv => lists_ok_fval (snd fv)) fs = true -> getf f fs = Some v -> lists_ok_fval v = true.
Proof.
  induction fs as [|[g w] r IH]; [discriminate|]. cbn [forallb snd getf]. intro H. apply andb_prop in H. destruct H as [H1 H2].
  destruct (fid_beq f g); [|exact (IH H2)]. intro E. inversion E; subst. exact H1.
Qed.

Lemma dropped_dropn_list l : forallb lists_ok l = true -> dropped RD l (dropn_list l).
Proof.
  induction l as [|x r IH]; [constructor|]. cbn [forallb]. intro H. apply andb_prop in H. destruct H as [Hx Hr].
  cbn [dropn_list]. destruct x; try (apply dr_keep; [split; [reflexivity|exact Hx]|exact (IH Hr)]).
  apply dr_skip. exact (IH Hr).
Qed.

Lemma keeps_dropn_list l : list_ok l = true -> keeps l (dropn_list l).
Proof.
  unfold list_ok, keeps. rewrite dropn_list_length. intro H. apply orb_prop in H. destruct H as [H|H].
  - left. apply Nat.eqb_eq in H. lia.
  - right. apply Nat.leb_le in H. exact H.
Qed.

Lemma lrelD_dropn l : list_ok l = true -> forallb lists_ok l = true -> lrelD RD (Some l) (Some (dropn_list l)).
Proof. intros H1 H2. split; [exact (dropped_dropn_list l H2)|exact (keeps_dropn_list l H1)]. Qed.

Lemma vrelD_dropn v : lists_ok_fval v = true -> vrelD RD v (dropn_fval v).
Proof.
  destruct v as [i|[l|]|n|s|t|d|u|z|b|m|mt c|[e|]|a1 a2 a3]; intro H; try (split; [exact I|reflexivity]).
  - split; [reflexivity|exact H].
  - rewrite lists_ok_fval_items in H. rewrite dropn_fval_items. cbn [vrelD]. split.
    + split; [reflexivity|]. rewrite lists_ok_items. exact H.
    + apply andb_prop in H. destruct H as [H1 H2]. exact (lrelD_dropn l H1 H2).
  - cbn [vrelD dropn_fval]. split; [split; reflexivity|exact I].
  - rewrite lists_ok_fval_endp in H. rewrite dropn_fval_endp. cbn [vrelD].
    induction e as [|[f x] r IH]; [constructor|]. cbn [forallb snd] in H. apply andb_prop in H. destruct H as [Hx Hr].
    cbn [dropn_endp]. constructor; [|exact (IH Hr)]. cbn [fst snd]. split; [reflexivity|]. split; [reflexivity|exact Hx].
Qed.

Lemma RD_sim : forall x x', RD x x' -> shapeD RD x x'.
Proof.
  intros x x' [-> H]. right. destruct x as [|k|p s|p k fs|p [l|]|p l]; cbn [dropn]; auto.
  - rewrite lists_ok_obj in H. fold (dropn_fields fs). split; [reflexivity|]. split; [reflexivity|].
    intro f. rewrite getf_dropn_fields. destruct (getf f fs) as [v|] eqn:G; [|exact I]. cbn [option_map orelD].
    apply vrelD_dropn. exact (getf_lists_ok f fs v H G).
  - rewrite lists_ok_items in H. fold (dropn_list l). split; [reflexivity|].
    apply andb_prop in H. destruct H as [H1 H2]. exact (lrelD_dropn l H1 H2).
  - split; [reflexivity|exact I].
Qed.

Theorem marshal_json_dropn tbls : nil_transparent tbls = true ->
  forall x b, lists_ok x = true -> marshal_json tbls x = Some b -> marshal_json tbls (dropn x) = Some b.
Proof.
  intros Htbl x b Hl H. unfold marshal_json in *.
  set (F := S (Nat.max (item_size x) (item_size (dropn x)))).
  assert (H1 : enc_item tbls F x = Some b) by (apply (enc_fuel_indep tbls Htbl _ F _ _ (Nat.lt_succ_diag_r _)); [unfold F; lia|exact H]).
  pose proof (enc_item_simD tbls RD RD_sim F x (dropn x) b (conj eq_refl Hl) H1) as H2.
  apply (enc_fuel_indep tbls Htbl F); [unfold F; lia|lia|exact H2].
Qed.

(* ------------------------------------------------------------------ blanking the other written-as-nothing items *)
Definition RB (x x' : item) : Prop :=
  x' = blank x \/ (x' = x /\ exists p, x = IItems p None \/ x = IItems p (Some [])).

Lemma blank_obj p k fs : blank (IObj p k fs) = IObj p k (blank_fields fs).
Proof. reflexivity. Qed.
Lemma blank_items p x l : blank (IItems p (Some (x :: l))) = IItems p (Some (map blank (x :: l))).
Proof. reflexivity. Qed.
Lemma blank_fval_items l : blank_fval (FItems (Some l)) = FItems (Some (map blank l)).
Proof. reflexivity. Qed.
Lemma blank_fval_endp e : blank_fval (FEndpoints (Some e)) = FEndpoints (Some (blank_endp e)).
Proof. reflexivity. Qed.
Lemma getf_blank_fields f fs : getf f (blank_fields fs) = option_map blank_fval (getf f fs).
Proof.
  induction fs as [|[g v] r IH]; [reflexivity|]. cbn [blank_fields getf]. destruct (fid_beq f g); [reflexivity|exact IH].
Qed.

Lemma dropped_blank l : dropped RB l (map blank l).
Proof. induction l as [|x r IH]; [constructor|]. cbn [map]. apply dr_keep; [left; reflexivity|exact IH]. Qed.
Lemma lrelD_blank l : lrelD RB (Some l) (Some (map blank l)).
Proof. split; [apply dropped_blank|]. left. rewrite map_length. reflexivity. Qed.

Lemma vrelD_blank v : vrelD RB v (blank_fval v).
Proof.
  destruct v as [i|[l|]|n|s|t|d|u|z|b|m|mt c|[e|]|a1 a2 a3]; try (split; [exact I|reflexivity]).
  - left. reflexivity.
  - rewrite blank_fval_items. cbn [vrelD]. split; [|apply lrelD_blank].
    destruct l as [|x l]; [right; split; [reflexivity|exists false; right; reflexivity]|left; reflexivity].
  - cbn [vrelD blank_fval]. split; [|exact I]. right. split; [reflexivity|]. exists false. left. reflexivity.
  - rewrite blank_fval_endp. cbn [vrelD]. induction e as [|[f x] r IH]; [constructor|].
    cbn [blank_endp]. constructor; [|exact IH]. cbn [fst snd]. split; [reflexivity|left; reflexivity].
Qed.

Lemma nothing_blank x : nothing x = true -> blank x = ITNil KObject.
Proof.
  destruct x as [|k|p s|p k fs|p [[|y l]|]|[|] [l|]]; try discriminate; try reflexivity.
  cbn [nothing blank]. intros ->. reflexivity.
Qed.

Lemma RB_sim : forall x x', RB x x' -> shapeD RB x x'.
Proof.
  intros x x' [->|[-> [p [->| ->]]]].
  - destruct (nothing x) eqn:N; [left; rewrite (nothing_blank x N); split; [exact N|reflexivity]|]. right.
    destruct x as [|k|p s|p k fs|p [[|y l]|]|[|] [l|]]; try discriminate; cbn [shapeD]; auto.
    + exact I.
    + cbn [nothing] in N. cbn [blank]. rewrite N. auto.
    + rewrite blank_obj. split; [reflexivity|]. split; [reflexivity|].
      intro f. rewrite getf_blank_fields. destruct (getf f fs) as [v|]; [|exact I]. cbn [option_map orelD]. apply vrelD_blank.
    + rewrite blank_items. split; [reflexivity|apply lrelD_blank].
    + cbn [blank]. auto.
    + cbn [blank]. auto.
    + cbn [blank]. auto.
  - left. split; reflexivity.
  - left. split; reflexivity.
Qed.

Theorem marshal_json_blank tbls : nil_transparent tbls = true ->
  forall x b, marshal_json tbls x = Some b -> marshal_json tbls (blank x) = Some b.
Proof.
  intros Htbl x b H. unfold marshal_json in *.
  set (F := S (Nat.max (item_size x) (item_size (blank x)))).
  assert (H1 : enc_item tbls F x = Some b) by (apply (enc_fuel_indep tbls Htbl _ F _ _ (Nat.lt_succ_diag_r _)); [unfold F; lia|exact H]).
  pose proof (enc_item_simD tbls RB RB_sim F x (blank x) b (or_introl eq_refl) H1) as H2.
  apply (enc_fuel_indep tbls Htbl F); [unfold F; lia|lia|exact H2].
Qed.

(* ------------------------------------------------------------------ scrub is an erasure in C20's sense *)
Lemma fields_once_obj p k fs :
  fields_once (IObj p k fs) = fids_nd (map fst fs) && forallb (fun fv => fields_once_fval (snd fv)) fs.
Proof.
  cbn [fields_once]. f_equal. induction fs as [|[f v] r IH]; [reflexivity|]. cbn [forallb snd]. rewrite <- IH. reflexivity.
Qed.
Lemma fields_once_items p l : fields_once (IItems p (Some l)) = forallb fields_once l.
Proof. reflexivity. Qed.
Lemma fields_once_fval_items l : fields_once_fval (FItems (Some l)) = forallb fields_once l.
Proof. reflexivity. Qed.
Lemma fields_once_fval_endp e :
  fields_once_fval (FEndpoints (Some e)) = fids_nd (map fst e) && forallb (fun fx => fields_once (snd fx)) e.
Proof.
  cbn [fields_once_fval]. f_equal. induction e as [|[f x] r IH]; [reflexivity|]. cbn [forallb snd]. rewrite <- IH. reflexivity.
Qed.

Definition RS (x x' : item) : Prop := x' = scrub x /\ fields_once x = true.

Lemma scrub_inil i : scrub i = INil -> nil_like i = true.
Proof. destruct i as [|k|p s|p k fs|p [l|]|p l]; intro H; try discriminate; reflexivity. Qed.

Lemma holds_nil_scrub v : holds_nil (scrub_fval v) = true -> exists i, v = FItem i /\ nil_like i = true.
Proof.
  destruct v as [i|[l|]|n|s|t|d|u|z|b|m|mt c|[e|]|a1 a2 a3]; try discriminate. cbn [scrub_fval holds_nil].
  intro H. exists i. split; [reflexivity|]. apply scrub_inil. destruct (scrub i); try discriminate. reflexivity.
Qed.

Lemma getf_fields_once f fs v :
  forallb (fun fv => fields_once_fval (snd fv)) fs = true -> getf f fs = Some v -> fields_once_fval v = true.
Proof.
  induction fs as [|[g w] r IH]; [discriminate|]. cbn [forallb snd getf]. intro H. apply andb_prop in H. destruct H as [H1 H2].
  destruct (fid_beq f g); [|exact (IH H2)]. intro E. inversion E; subst. exact H1.
Qed.

Lemma forall2_RS_map l : forallb fields_once l = true -> Forall2 RS l (map scrub l).
Proof.
  induction l as [|x r IH]; [constructor|]. cbn [forallb map]. intro H. apply andb_prop in H. destruct H as [Hx Hr].
  constructor; [split; [reflexivity|exact Hx]|exact (IH Hr)].
Qed.

Lemma getf_endp_absent f e : existsb (fid_beq f) (map fst e) = false -> getf f (endpoints_fields e) = None.
Proof.
  induction e as [|[g x] r IH]; [reflexivity|]. cbn [map fst existsb endpoints_fields snd getf]. intro H.
  apply orb_false_iff in H. destruct H as [H1 H2]. rewrite H1. exact (IH H2).
Qed.
Lemma getf_scrub_endp_absent f e : getf f (endpoints_fields e) = None -> getf f (endpoints_fields (scrub_endp e)) = None.
Proof.
  induction e as [|[g x] r IH]; [reflexivity|]. cbn [endpoints_fields map fst snd getf scrub_endp].
  destruct (fid_beq f g) eqn:E; [discriminate|]. intro H.
  destruct (scrub x); try exact (IH H); cbn [endpoints_fields map fst snd getf]; rewrite E; exact (IH H).
Qed.

Lemma irel_scrub_endp e : fids_nd (map fst e) = true -> forallb (fun fx => fields_once (snd fx)) e = true ->
  forall f, irel RS (getf f (endpoints_fields e)) (getf f (endpoints_fields (scrub_endp e))).
Proof.
  intros Hn Ho f. induction e as [|[g x] r IH]; [exact I|].
  cbn [map fst fids_nd] in Hn. apply andb_prop in Hn. destruct Hn as [Hg Hr]. apply negb_true_iff in Hg.
  cbn [forallb snd] in Ho. apply andb_prop in Ho. destruct Ho as [Hx Ho].
  cbn [endpoints_fields map fst snd getf scrub_endp]. destruct (fid_beq f g) eqn:E.
  - apply fid_beq_true in E. subst g.
    destruct (scrub x) eqn:S; try (cbn [endpoints_fields map fst snd getf]; rewrite fid_beq_refl; cbn [irel]; split; [symmetry; exact S|exact Hx]).
    fold (endpoints_fields (scrub_endp r)).
    rewrite (getf_scrub_endp_absent f r (getf_endp_absent f r Hg)). cbn [irel]. exact (scrub_inil x S).
  - specialize (IH Hr Ho). fold (endpoints_fields r) in *.
    destruct (scrub x); try exact IH; cbn [endpoints_fields map fst snd getf]; rewrite E; exact IH.
Qed.

Lemma vrel_scrub v : fields_once_fval v = true -> vrel RS v (scrub_fval v).
Proof.
  destruct v as [i|[l|]|n|s|t|d|u|z|b|m|mt c|[e|]|a1 a2 a3]; intro H; try (split; [exact I|reflexivity]).
  - split; [reflexivity|exact H].
  - rewrite fields_once_fval_items in H. rewrite scrub_fval_items. cbn [vrel]. split.
    + split; [reflexivity|]. rewrite fields_once_items. exact H.
    + exact (forall2_RS_map l H).
  - cbn [vrel scrub_fval]. split; [split; reflexivity|exact I].
  - rewrite fields_once_fval_endp in H. apply andb_prop in H. destruct H as [H1 H2].
    rewrite scrub_fval_endp. cbn [vrel]. exact (irel_scrub_endp e H1 H2).
Qed.

Lemma RS_sim : erasure_sim RS.
Proof.
  intros x x' [-> H]. destruct x as [|k|p s|p k fs|p [l|]|p l]; cbn [scrub shape]; auto.
  - rewrite fields_once_obj in H. apply andb_prop in H. destruct H as [Hn Ho].
    fold (scrub_fields fs). split; [reflexivity|]. split; [reflexivity|].
    intro f. rewrite (getf_scrub f fs Hn). destruct (getf f fs) as [v|] eqn:G; [|exact I]. cbn [oscrub].
    destruct (holds_nil (scrub_fval v)) eqn:Hh.
    + destruct (holds_nil_scrub v Hh) as [i [-> Hi]]. exact Hi.
    + apply orel_some. apply vrel_scrub. exact (getf_fields_once f fs v Ho G).
  - rewrite fields_once_items in H. split; [reflexivity|]. change (Forall2 RS l (map scrub l)). exact (forall2_RS_map l H).
  - split; [reflexivity|exact I].
Qed.

Theorem erases_scrub x : fields_once x = true -> erases x (scrub x).
Proof. intro H. exists RS. split; [exact RS_sim|split; [reflexivity|exact H]]. Qed.

(* ------------------------------------------------------------------ the composition on the encoder side *)
(* one-directional, as C20's theorem is *)
Theorem marshal_json_erase tbls : nil_transparent tbls = true ->
  forall x b, fields_once x = true -> nil_lists_ok x = true ->
  marshal_json tbls x = Some b -> marshal_json tbls (erase x) = Some b.
Proof.
  intros Htbl x b Hf Hl H. unfold erase. apply (marshal_json_dropn tbls Htbl); [exact Hl|].
  exact (marshal_json_erases tbls Htbl x (scrub x) b (erases_scrub x Hf) H).
Qed.

(* ------------------------------------------------------------------ well-typed values bind every field once *)
From AP.Model Require Import Layout EncTyped.

Lemma nodup_f_fids_nd {A} (l : list (fid * A)) : nodup_f l = true -> fids_nd (map fst l) = true.
Proof.
  induction l as [|[f v] r IH]; [reflexivity|]. cbn [nodup_f map fst fids_nd]. intro H. apply andb_prop in H.
  destruct H as [H1 H2]. rewrite (IH H2), andb_true_r. apply negb_true_iff in H1. apply negb_true_iff.
  destruct (existsb (fid_beq f) (map fst r)) eqn:X; [|reflexivity].
  apply existsb_exists in X. destruct X as [g [Hin Hg]]. apply fid_beq_true in Hg. subst g.
  apply in_map_iff in Hin. destruct Hin as [[g w] [Hg Hin]]. cbn [fst] in Hg. subst g.
  assert (T : existsb (fun p : fid * A => fid_beq (fst p) f) r = true).
  { apply existsb_exists. exists (f, w). split; [exact Hin|apply fid_beq_refl]. }
  rewrite T in H1. discriminate.
Qed.

Lemma well_typed_fields_once L LE : forall x, well_typed L LE x = true -> fields_once x = true.
Proof.
  apply (item_ind3 (fun x => well_typed L LE x = true -> fields_once x = true)
                   (fun v => wt_fval L LE v = true -> fields_once_fval v = true)); try reflexivity.
  - intros p k fs F H. cbn [well_typed] in H. apply andb_prop in H. destruct H as [Hn Hg].
    rewrite fields_once_obj, (nodup_f_fids_nd fs Hn). cbn [andb].
    induction F as [|[f v] r Hv Hr IH]; [reflexivity|]. cbn [snd] in Hv. cbn [forallb snd].
    apply andb_prop in Hg. destruct Hg as [Hg Hgo]. apply andb_prop in Hg. destruct Hg as [_ Hw].
    rewrite (Hv Hw). cbn [andb]. apply IH; [|exact Hgo].
    cbn [nodup_f] in Hn. apply andb_prop in Hn. exact (proj2 Hn).
  - intros p l F H. rewrite fields_once_items. cbn [well_typed] in H.
    induction F as [|x r Hx Hr IH]; [reflexivity|]. cbn [forallb]. apply andb_prop in H. destruct H as [H1 H2].
    rewrite (Hx H1). exact (IH H2).
  - intros i Hi H. exact (Hi H).
  - intros l F H. rewrite fields_once_fval_items. cbn [wt_fval] in H.
    induction F as [|x r Hx Hr IH]; [reflexivity|]. cbn [forallb]. apply andb_prop in H. destruct H as [H1 H2].
    rewrite (Hx H1). exact (IH H2).
  - intros e F H. cbn [wt_fval] in H. apply andb_prop in H. destruct H as [Hn Hg].
    rewrite fields_once_fval_endp, (nodup_f_fids_nd e Hn). cbn [andb].
    clear Hn. induction F as [|[f x] r Hx Hr IH]; [reflexivity|]. cbn [snd] in Hx. cbn [forallb snd].
    apply andb_prop in Hg. destruct Hg as [Hg Hgo]. apply andb_prop in Hg. destruct Hg as [_ Hw].
    rewrite (Hx Hw). exact (IH Hgo).
  - intros v Hv _. destruct v as [i|[l|]| | | | | | | | | |[e|]|]; try contradiction; reflexivity.
Qed.

(* ------------------------------------------------------------------ blanking keeps "every field once" *)
Lemma map_fst_blank_fields fs : map fst (blank_fields fs) = map fst fs.
Proof. induction fs as [|[f v] r IH]; [reflexivity|]. cbn [blank_fields map fst]. rewrite IH. reflexivity. Qed.
Lemma map_fst_blank_endp e : map fst (blank_endp e) = map fst e.
Proof. induction e as [|[f x] r IH]; [reflexivity|]. cbn [blank_endp map fst]. rewrite IH. reflexivity. Qed.
Lemma forallb_map_blank l : Forall (fun x => fields_once x = true -> fields_once (blank x) = true) l ->
  forallb fields_once l = true -> forallb fields_once (map blank l) = true.
Proof.
  induction 1 as [|x r Hx Hr IH]; [reflexivity|]. cbn [map forallb]. intro H. apply andb_prop in H. destruct H as [H1 H2].
  rewrite (Hx H1). exact (IH H2).
Qed.

Lemma fields_once_blank : forall x, fields_once x = true -> fields_once (blank x) = true.
Proof.
  apply (item_ind3 (fun x => fields_once x = true -> fields_once (blank x) = true)
                   (fun v => fields_once_fval v = true -> fields_once_fval (blank_fval v) = true)); try reflexivity.
  - intros p s _. cbn [blank]. destruct (is_nil (IIri p s)); reflexivity.
  - intros p k fs F H. rewrite blank_obj. rewrite fields_once_obj in *. rewrite map_fst_blank_fields.
    apply andb_prop in H. destruct H as [Hn Ho]. rewrite Hn. cbn [andb].
    induction F as [|[f v] r Hv Hr IH]; [reflexivity|]. cbn [snd] in Hv. cbn [blank_fields forallb snd] in *.
    apply andb_prop in Ho. destruct Ho as [H1 H2]. rewrite (Hv H1). cbn [andb]. apply IH; [|exact H2].
    cbn [map fst fids_nd] in Hn. apply andb_prop in Hn. exact (proj2 Hn).
  - intros p l F H. destruct l as [|x l]; [reflexivity|]. rewrite blank_items. rewrite fields_once_items in *.
    exact (forallb_map_blank _ F H).
  - intros p l _. destruct p, l; reflexivity.
  - intros i Hi H. exact (Hi H).
  - intros l F H. rewrite blank_fval_items. rewrite fields_once_fval_items in *. exact (forallb_map_blank _ F H).
  - intros e F H. rewrite blank_fval_endp. rewrite fields_once_fval_endp in *. rewrite map_fst_blank_endp.
    apply andb_prop in H. destruct H as [Hn Ho]. rewrite Hn. cbn [andb]. clear Hn.
    induction F as [|[f x] r Hx Hr IH]; [reflexivity|]. cbn [snd] in Hx. cbn [blank_endp forallb snd] in *.
    apply andb_prop in Ho. destruct Ho as [H1 H2]. rewrite (Hx H1). exact (IH H2).
  - intros v Hv _. destruct v as [i|[l|]| | | | | | | | | |[e|]|]; try contradiction; reflexivity.
Qed.

(* every written-as-nothing item erased: one-directional, as C20's theorem is *)
Theorem marshal_json_erase_all tbls : nil_transparent tbls = true ->
  forall x b, fields_once x = true -> nil_lists_ok (blank x) = true ->
  marshal_json tbls x = Some b -> marshal_json tbls (erase_all x) = Some b.
Proof.
  intros Htbl x b Hf Hl H. unfold erase_all.
  apply (marshal_json_erase tbls Htbl (blank x) b (fields_once_blank x Hf) Hl).
  exact (marshal_json_blank tbls Htbl x b H).
Qed.

(* ------------------------------------------------------------------ the round trip *)
From AP.Model Require Import Text JsonTree JsonDec JsonCodec JsonNorm JsonRoundCheck.
From AP.Proofs Require Import C01ParseP C01TreeWfP C01RoundP EncDefinedGenP.
Local Open Scope nat_scope.

(* with b54's definedness theorem the one-directional statement becomes an equation *)
Theorem marshal_json_erase_eq tbls L LE : nil_transparent tbls = true -> enc_defined_tables_ok tbls LE L = true ->
  forall x, well_typed L LE x = true -> nil_lists_ok x = true ->
  exists b, marshal_json tbls x = Some b /\ marshal_json tbls (erase x) = Some b.
Proof.
  intros Hn Hd x Hw Hl. destruct (marshal_defined_generic tbls L LE Hd x Hw) as [b E].
  exists b. split; [exact E|].
  exact (marshal_json_erase tbls Hn x b (well_typed_fields_once L LE x Hw) Hl E).
Qed.

Theorem json_roundtrip_nil_like_doc jw jr lay layE reg lsw acts actors links :
  kinds_ok jw jr lay = true -> terms_raw_ok jw = true ->
  nil_transparent jw = true -> enc_defined_tables_ok jw layE lay = true ->
  forall x, well_typed lay layE x = true -> nil_lists_ok x = true ->
  wf_item lay reg lsw acts actors links (erase x) = true ->
  (forall v, tree_of jw (erase x) = Some (Some v) -> fdepth v <= 300) ->
  exists b, marshal_json jw x = Some b /\ b <> [] /\
            unmarshal_json jr lay reg lsw acts actors links b = Some (Ok (norm_item lay (erase x))).
Proof.
  intros Hk Ht Hn Hd x Hw Hl Hwf Hdoc.
  destruct (marshal_json_erase_eq jw lay layE Hn Hd x Hw Hl) as [b [E1 E2]].
  destruct (json_roundtrip_doc jw jr lay reg lsw acts actors links Hk (erase x) Ht Hwf Hdoc) as [b' [E3 [Hne Hu]]].
  rewrite E2 in E3. inversion E3; subst b'. exists b. auto.
Qed.

Theorem json_roundtrip_nil_like jw jr lay layE reg lsw acts actors links :
  kinds_ok jw jr lay = true -> terms_raw_ok jw = true ->
  nil_transparent jw = true -> enc_defined_tables_ok jw layE lay = true ->
  forall x, well_typed lay layE x = true -> nil_lists_ok x = true ->
  wf_item lay reg lsw acts actors links (erase x) = true -> ddepth (erase x) <= 149 ->
  exists b, marshal_json jw x = Some b /\ b <> [] /\
            unmarshal_json jr lay reg lsw acts actors links b = Some (Ok (norm_item lay (erase x))).
Proof.
  intros Hk Ht Hn Hd x Hw Hl Hwf Hdp.
  destruct (marshal_json_erase_eq jw lay layE Hn Hd x Hw Hl) as [b [E1 E2]].
  destruct (json_roundtrip_depth jw jr lay reg lsw acts actors links Hk (erase x) Ht Hwf Hdp) as [b' [E3 [Hne Hu]]].
  rewrite E2 in E3. inversion E3; subst b'. exists b. auto.
Qed.

(* ---- the same with EVERY item that is written as nothing erased (empty and "-" IRIs, nil and empty lists in item
   positions, the nil IRI list) ---- *)
Theorem marshal_json_erase_all_eq tbls L LE : nil_transparent tbls = true -> enc_defined_tables_ok tbls LE L = true ->
  forall x, well_typed L LE x = true -> nil_lists_ok (blank x) = true ->
  exists b, marshal_json tbls x = Some b /\ marshal_json tbls (erase_all x) = Some b.
Proof.
  intros Hn Hd x Hw Hl. destruct (marshal_defined_generic tbls L LE Hd x Hw) as [b E].
  exists b. split; [exact E|].
  exact (marshal_json_erase_all tbls Hn x b (well_typed_fields_once L LE x Hw) Hl E).
Qed.

Theorem json_roundtrip_nothing_doc jw jr lay layE reg lsw acts actors links :
  kinds_ok jw jr lay = true -> terms_raw_ok jw = true ->
  nil_transparent jw = true -> enc_defined_tables_ok jw layE lay = true ->
  forall x, well_typed lay layE x = true -> nil_lists_ok (blank x) = true ->
  wf_item lay reg lsw acts actors links (erase_all x) = true ->
  (forall v, tree_of jw (erase_all x) = Some (Some v) -> fdepth v <= 300) ->
  exists b, marshal_json jw x = Some b /\ b <> [] /\
            unmarshal_json jr lay reg lsw acts actors links b = Some (Ok (norm_item lay (erase_all x))).
Proof.
  intros Hk Ht Hn Hd x Hw Hl Hwf Hdoc.
  destruct (marshal_json_erase_all_eq jw lay layE Hn Hd x Hw Hl) as [b [E1 E2]].
  destruct (json_roundtrip_doc jw jr lay reg lsw acts actors links Hk (erase_all x) Ht Hwf Hdoc) as [b' [E3 [Hne Hu]]].
  rewrite E2 in E3. inversion E3; subst b'. exists b. auto.
Qed.

Theorem json_roundtrip_nothing jw jr lay layE reg lsw acts actors links :
  kinds_ok jw jr lay = true -> terms_raw_ok jw = true ->
  nil_transparent jw = true -> enc_defined_tables_ok jw layE lay = true ->
  forall x, well_typed lay layE x = true -> nil_lists_ok (blank x) = true ->
  wf_item lay reg lsw acts actors links (erase_all x) = true -> ddepth (erase_all x) <= 149 ->
  exists b, marshal_json jw x = Some b /\ b <> [] /\
            unmarshal_json jr lay reg lsw acts actors links b = Some (Ok (norm_item lay (erase_all x))).
Proof.
  intros Hk Ht Hn Hd x Hw Hl Hwf Hdp.
  destruct (marshal_json_erase_all_eq jw lay layE Hn Hd x Hw Hl) as [b [E1 E2]].
  destruct (json_roundtrip_depth jw jr lay reg lsw acts actors links Hk (erase_all x) Ht Hwf Hdp) as [b' [E3 [Hne Hu]]].
  rewrite E2 in E3. inversion E3; subst b'. exists b. auto.
Qed.
