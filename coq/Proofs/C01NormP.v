(* C01: the normal form is idempotent (for every item, well-formed or not), provided no struct layout lists a field
   twice.  By strong induction on the size of the item. *)
From AP.Model Require Import Prelude Bytes Vocab Pred Nlv Json Text Layout JsonTables JsonLeaf JsonCheck JsonDec JsonNorm JsonRoundCheck.
From AP.Proofs Require Import NlvP TextP C01FlatP C01ItemP C01FieldP C01LeafP C01RoundP.
Local Open Scope nat_scope.

(* ------------------------------------------------------------------ the struct order of an endpoints list *)
Definition in_eorder (f : fid) : bool := existsb (fid_beq f) endpoints_struct_order.
Definition otl (o : option (fid * item)) : list (fid * item) := match o with Some p => [p] | None => [] end.

Lemma eiso_unfold l : endpoints_in_struct_order l
  = flat_map (fun f => otl (efind f l)) endpoints_struct_order ++ filter (fun p => negb (in_eorder (fst p))) l.
Proof. reflexivity. Qed.

Lemma fid_beq_sym a b : fid_beq a b = fid_beq b a.
Proof.
  destruct (fid_beq a b) eqn:E.
  - apply fid_beq_eq in E. subst. symmetry. apply fid_beq_refl.
  - destruct (fid_beq b a) eqn:E2; [|reflexivity]. apply fid_beq_eq in E2. subst. rewrite fid_beq_refl in E. discriminate.
Qed.

Lemma efind_app f a b : efind f (a ++ b) = match efind f a with Some p => Some p | None => efind f b end.
Proof. unfold efind. induction a as [|x r IH]; [reflexivity|]. cbn [app find]. destruct (fid_beq (fst x) f); [reflexivity|exact IH]. Qed.

Lemma efind_none f l : (forall p, In p l -> fst p <> f) -> efind f l = None.
Proof.
  unfold efind. induction l as [|x r IH]; intros H; [reflexivity|]. cbn [find].
  destruct (fid_beq (fst x) f) eqn:E; [apply fid_beq_eq in E; exfalso; exact (H x (or_introl eq_refl) E)|].
  apply IH. intros p Hp. apply H. right. exact Hp.
Qed.

(* among the first occurrences picked for the names of ord, the one for f is the first occurrence of f *)
Lemma efind_picked l f : forall ord,
  efind f (flat_map (fun f' => otl (efind f' l)) ord) = if existsb (fid_beq f) ord then efind f l else None.
Proof.
  induction ord as [|f' r IH]; [reflexivity|]. cbn [flat_map existsb]. rewrite efind_app.
  destruct (efind f' l) as [p|] eqn:Ep; cbn [otl].
  - destruct (efind_some _ _ _ Ep) as [_ Hfp]. subst f'. unfold efind at 1. cbn [find]. rewrite (fid_beq_sym f (fst p)).
    destruct (fid_beq (fst p) f) eqn:E; [apply fid_beq_eq in E; rewrite <- E; cbn [orb]; symmetry; exact Ep|]. cbn [orb]. exact IH.
  - unfold efind at 1. cbn [find]. rewrite IH. destruct (fid_beq f f') eqn:E; [|reflexivity].
    apply fid_beq_eq in E. subst f'. cbn [orb]. rewrite Ep. destruct (existsb (fid_beq f) r); reflexivity.
Qed.

Lemma picked_in_order l ord p : In p (flat_map (fun f' => otl (efind f' l)) ord) -> existsb (fid_beq (fst p)) ord = true.
Proof.
  intros H. apply in_flat_map in H. destruct H as [f' [Hf' Hp]]. destruct (efind f' l) as [q|] eqn:E; [|destruct Hp].
  destruct Hp as [<-|[]]. destruct (efind_some _ _ _ E) as [_ Hq]. apply existsb_exists. exists f'. split; [exact Hf'|].
  rewrite Hq. apply fid_beq_refl.
Qed.

Lemma filter_filter {A} (P : A -> bool) l : filter P (filter P l) = filter P l.
Proof.
  induction l as [|a r IH]; [reflexivity|]. cbn [filter]. destruct (P a) eqn:E; [cbn [filter]; rewrite E, IH; reflexivity|exact IH].
Qed.

Theorem eiso_idem l : endpoints_in_struct_order (endpoints_in_struct_order l) = endpoints_in_struct_order l.
Proof.
  rewrite (eiso_unfold (endpoints_in_struct_order l)), (eiso_unfold l).
  set (A := flat_map (fun f => otl (efind f l)) endpoints_struct_order).
  rewrite filter_app, filter_filter.
  set (Bl := filter (fun p => negb (in_eorder (fst p))) l).
  rewrite (filter_nil _ A) by (intros p Hp; unfold in_eorder; rewrite (picked_in_order l _ p Hp); reflexivity).
  cbn [app]. f_equal. apply flat_map_ext_in. intros f Hf. f_equal. rewrite efind_app. unfold A. rewrite efind_picked.
  assert (Hin : existsb (fid_beq f) endpoints_struct_order = true)
    by (apply existsb_exists; exists f; split; [exact Hf|apply fid_beq_refl]).
  rewrite Hin. destruct (efind f l) as [p|]; [reflexivity|].
  apply efind_none. intros p Hp Hfp. unfold Bl in Hp. apply filter_In in Hp. destruct Hp as [_ Hn].
  unfold in_eorder in Hn. rewrite Hfp, Hin in Hn. discriminate.
Qed.

(* mapping the members commutes with putting them in struct order *)
Lemma eiso_map (h : item -> item) l :
  endpoints_in_struct_order (map (fun p => (fst p, h (snd p))) l) = map (fun p => (fst p, h (snd p))) (endpoints_in_struct_order l).
Proof.
  rewrite !eiso_unfold, map_app. f_equal.
  - induction endpoints_struct_order as [|f r IH]; [reflexivity|]. cbn [flat_map]. rewrite map_app, IH. f_equal.
    rewrite efind_map. destruct (efind f l); reflexivity.
  - induction l as [|x r IH]; [reflexivity|]. cbn [map filter fst]. destruct (negb (in_eorder (fst x))); [cbn [map]; rewrite IH; reflexivity|exact IH].
Qed.

Section NormIdem.
  Variable layout_of : kind -> list fdecl.
  Hypothesis Hlayout : forall k, NoDup (map fd_fid (layout_of k)).

  Notation nrm := (norm_item layout_of).
  Notation nrmv := (norm_fval layout_of).

  Lemma norm_nlv_idem l : norm_nlv (norm_nlv l) = norm_nlv l.
  Proof. destruct l as [[|[r v] [|e2 l']]|]; reflexivity. Qed.

  Lemma nrmv_items l : nrmv (FItems (Some l)) = FItems (Some (map nrm l)).
  Proof. exact (f_equal (fun z => FItems (Some z)) (norm_list_map layout_of l)). Qed.

  Lemma nrm_items p l : (forall x, l <> [x]) -> nrm (IItems p (Some l)) = IItems false (Some (map nrm l)).
  Proof.
    intros H. destruct l as [|x [|y r]].
    - reflexivity.
    - exfalso. exact (H x eq_refl).
    - apply norm_many.
  Qed.

  (* looking a field up in a field list put in struct order *)
  Lemma getf_canon k G f : In f (map fd_fid (layout_of k)) ->
    getf f (canon_fields layout_of k G) = match getf f G with Some v => if fval_is_zero v then None else Some v | None => None end.
  Proof.
    unfold canon_fields. pose proof (Hlayout k) as Hnd. induction (layout_of k) as [|d r IH]; intros Hin; [destruct Hin|].
    cbn [map] in Hnd, Hin. inversion Hnd as [|? ? Hn Hnd']; subst. cbn [flat_map].
    assert (Hskip : forall f', f' <> fd_fid d ->
              getf f' ((match getf (fd_fid d) G with Some v => if fval_is_zero v then [] else [(fd_fid d, v)] | None => [] end) ++
                       flat_map (fun d0 => match getf (fd_fid d0) G with Some v => if fval_is_zero v then [] else [(fd_fid d0, v)] | None => [] end) r)
              = getf f' (flat_map (fun d0 => match getf (fd_fid d0) G with Some v => if fval_is_zero v then [] else [(fd_fid d0, v)] | None => [] end) r)).
    { intros f' Hne. destruct (getf (fd_fid d) G) as [v|]; [|reflexivity]. destruct (fval_is_zero v); [reflexivity|].
      cbn [app getf]. destruct (fid_beq f' (fd_fid d)) eqn:E; [apply fid_beq_eq in E; congruence|reflexivity]. }
    destruct Hin as [<-|Hin].
    - assert (Hnone : getf (fd_fid d) (flat_map (fun d0 => match getf (fd_fid d0) G with Some v => if fval_is_zero v then [] else [(fd_fid d0, v)] | None => [] end) r) = None).
      { clear - Hn. induction r as [|d1 r IH]; [reflexivity|]. cbn [map] in Hn. cbn [flat_map].
        assert (fd_fid d <> fd_fid d1) by (intros C; apply Hn; left; symmetry; exact C).
        assert (Hr : ~ In (fd_fid d) (map fd_fid r)) by (intros C; apply Hn; right; exact C).
        destruct (getf (fd_fid d1) G) as [v|]; [|exact (IH Hr)]. destruct (fval_is_zero v); [exact (IH Hr)|].
        cbn [app getf]. destruct (fid_beq (fd_fid d) (fd_fid d1)) eqn:E; [apply fid_beq_eq in E; congruence|exact (IH Hr)]. }
      destruct (getf (fd_fid d) G) as [v|]; [|exact Hnone]. destruct (fval_is_zero v); [exact Hnone|].
      cbn [app getf]. rewrite fid_beq_refl. reflexivity.
    - rewrite Hskip; [exact (IH Hnd' Hin)|]. intros C. apply Hn. rewrite <- C. exact Hin.
  Qed.

  Definition nz (o : option fval) : option fval :=
    match o with Some v => if fval_is_zero v then None else Some v | None => None end.

  Lemma canon_ext_nz k a b : (forall d, In d (layout_of k) -> nz (getf (fd_fid d) a) = nz (getf (fd_fid d) b)) ->
    canon_fields layout_of k a = canon_fields layout_of k b.
  Proof.
    unfold canon_fields. induction (layout_of k) as [|d r IH]; intros H; [reflexivity|]. cbn [flat_map].
    rewrite IH by (intros d' Hd'; apply H; right; exact Hd'). f_equal.
    specialize (H d (or_introl eq_refl)). unfold nz in H.
    destruct (getf (fd_fid d) a) as [va|], (getf (fd_fid d) b) as [vb|]; try reflexivity.
    - destruct (fval_is_zero va), (fval_is_zero vb); try reflexivity; try discriminate. inversion H. reflexivity.
    - destruct (fval_is_zero va); [reflexivity|discriminate].
    - destruct (fval_is_zero vb); [reflexivity|discriminate].
  Qed.

  Lemma canon_idem k G : (forall f v, getf f G = Some v -> nrmv v = v) ->
    canon_fields layout_of k (norm_fields layout_of (canon_fields layout_of k G)) = canon_fields layout_of k G.
  Proof.
    intros Hfix.
    assert (E : norm_fields layout_of (canon_fields layout_of k G) = canon_fields layout_of k G).
    { unfold canon_fields, norm_fields. induction (layout_of k) as [|d r IH]; [reflexivity|]. cbn [flat_map]. rewrite map_app, IH. f_equal.
      destruct (getf (fd_fid d) G) as [v|] eqn:Eg; [|reflexivity]. destruct (fval_is_zero v); [reflexivity|].
      cbn [map fst snd]. rewrite (Hfix _ _ Eg). reflexivity. }
    rewrite E. apply canon_ext_nz. intros d Hd.
    rewrite getf_canon by (apply in_map; exact Hd).
    destruct (getf (fd_fid d) G) as [v|]; [|reflexivity]. unfold nz. destruct (fval_is_zero v) eqn:Ez; [reflexivity|]. rewrite Ez. reflexivity.
  Qed.

  Lemma size_in_list (l : list item) x : In x l ->
    item_size x <= (fix go (l : list item) : nat := match l with [] => 0 | x :: r => item_size x + go r end) l.
  Proof. induction l as [|y r IH]; intros H; [destruct H|]. destruct H as [<-|H]; [lia|]. specialize (IH H). lia. Qed.

  Lemma size_in_fields (fs : list (fid * fval)) f v : In (f, v) fs ->
    fval_size v <= (fix go (fs : list (fid * fval)) : nat := match fs with [] => 0 | (_, v) :: r => fval_size v + go r end) fs.
  Proof. induction fs as [|[f0 v0] r IH]; intros H; [destruct H|]. destruct H as [E|H]; [inversion E; subst; lia|]. specialize (IH H). lia. Qed.

  Lemma size_items_in p (l : list item) z : In z l -> item_size z < item_size (IItems p (Some l)).
  Proof. intros H. cbn [item_size]. pose proof (size_in_list l z H). lia. Qed.

  Theorem norm_idem_n : forall n x, item_size x <= n -> nrm (nrm x) = nrm x.
  Proof.
    induction n as [|n IH]; intros x Hs.
    - destruct x as [| | | | p [l|]| ]; simpl in Hs; lia.
    - destruct x as [|k|p s|p k fs|p [l|]|p l]; try reflexivity.
      + (* object *)
        rewrite (norm_obj layout_of p k fs). rewrite (norm_obj layout_of true k _). f_equal.
        apply canon_idem. intros f v Hg. unfold norm_fields in Hg. rewrite getf_map in Hg.
        destruct (getf f fs) as [v0|] eqn:Eg; [|discriminate]. cbn [option_map] in Hg. inversion Hg; subst v. clear Hg.
        pose proof (size_in_fields fs f v0 (getf_in _ _ _ Eg)) as Hsz. cbn [item_size] in Hs.
        destruct v0 as [i|[l|]|l|s|t|d|u|z|b|m|mt c|e|a b c]; try reflexivity.
        * change (nrmv (FItem i)) with (FItem (nrm i)). change (nrmv (FItem (nrm i))) with (FItem (nrm (nrm i))).
          rewrite (IH i) by (cbn [fval_size] in Hsz; lia). reflexivity.
        * rewrite nrmv_items, nrmv_items, map_map. f_equal. f_equal. apply map_ext_in. intros x Hx. apply IH.
          pose proof (size_in_list l x Hx). cbn [fval_size] in Hsz. lia.
        * change (nrmv (FNlv l)) with (FNlv (norm_nlv l)). change (nrmv (FNlv (norm_nlv l))) with (FNlv (norm_nlv (norm_nlv l))).
          rewrite norm_nlv_idem. reflexivity.
        * change (nrmv (FSource mt c)) with (FSource mt (norm_nlv c)).
          change (nrmv (FSource mt (norm_nlv c))) with (FSource mt (norm_nlv (norm_nlv c))). rewrite norm_nlv_idem. reflexivity.
        * destruct e as [e|]; [|reflexivity]. rewrite (norm_endpoints layout_of e), (norm_endpoints layout_of).
          f_equal. f_equal. rewrite <- eiso_map, eiso_idem. f_equal. rewrite map_map. apply map_ext_in. intros q Hq. cbn [fst snd].
          f_equal. apply IH. pose proof (size_endpoints_in e q Hq). lia.
      + (* list *)
        destruct l as [|x [|y r]].
        * reflexivity.
        * change (nrm (IItems p (Some [x]))) with (nrm x). apply IH.
          pose proof (size_items_in p [x] x (or_introl eq_refl)). lia.
        * rewrite (norm_many layout_of p x y r). rewrite nrm_items.
          -- rewrite map_map. f_equal. f_equal. apply map_ext_in. intros z Hz. apply IH.
             pose proof (size_items_in p (x :: y :: r) z Hz). lia.
          -- intros z. discriminate.
  Qed.

  Theorem norm_idem x : nrm (nrm x) = nrm x.
  Proof. apply (norm_idem_n (item_size x)). lia. Qed.
End NormIdem.
