(* C01, layer (a): leaf codecs of numbers are inverse on their whole (stated) domain.
     integers  : get_int64 (fmt_int z) = z                for -10^18 < z < 10^18
     unsigned  : the JSONGetInt/uint path                 for n < 10^18
     decimals  : get_float_micro (fmt_float m) = m        for |m| < 10^46 (m = the value in units of 1e-6)
   The reader model (Model/JsonDec.v get_int64) says nothing beyond 18 digits (fastjson leaves its fast path
   there); that bound is the only restriction. *)
From AP.Model Require Import Prelude Bytes Vocab Json JsonLeaf Text JsonDec.
From AP.Proofs Require Import NlvP TextP.
Open Scope Z_scope.

(* ------------------------------------------------------------------ decimal digits *)
Definition dg (d : Z) : byte := byte_of_N_total (Z.to_N (48 + d)).

Lemma small_cases d : 0 <= d < 10 -> In d [0;1;2;3;4;5;6;7;8;9].
Proof. intros H. simpl. lia. Qed.

Lemma dg_props d : 0 <= d < 10 ->
  digit_val (dg d) = Some d /\ is_digit (dg d) = true /\ is_numch (dg d) = true /\ Byte.eqb (dg d) x2d = false
  /\ Byte.eqb (dg d) x2e = false.
Proof.
  intros H. apply small_cases in H. simpl in H.
  repeat (destruct H as [<-|H]; [vm_compute; repeat split; reflexivity|]). destruct H.
Qed.

Lemma digit_val_dg d : 0 <= d < 10 -> digit_val (dg d) = Some d.
Proof. intros H. apply (dg_props d H). Qed.

(* digits_go writes the decimal digits of n in front of acc *)
Lemma digits_go_spec f : forall n acc, 0 <= n < 10 ^ Z.of_nat (S f) ->
  exists k l, digits_go (S f) n acc = l ++ acc /\ length l = k /\ (1 <= k)%nat /\ (k <= S f)%nat /\ n < 10 ^ Z.of_nat k
              /\ (k = 1%nat \/ 10 ^ Z.of_nat (k - 1) <= n)
              /\ forallb is_digit l = true
              /\ forall a rest, parse_nat_go (l ++ rest) a = parse_nat_go rest (a * 10 ^ Z.of_nat k + n).
Proof.
  induction f as [|f IH]; intros n acc Hn.
  - assert (E : n <? 10 = true) by (apply Z.ltb_lt; change (10 ^ Z.of_nat 1) with 10 in Hn; lia).
    cbn [digits_go]. rewrite E. fold (dg (n mod 10)). apply Z.ltb_lt in E.
    assert (Hm : 0 <= n mod 10 < 10) by (apply Z.mod_pos_bound; lia).
    destruct (dg_props _ Hm) as [Hv [Hd _]].
    exists 1%nat, [dg (n mod 10)].
    split; [reflexivity|]. split; [reflexivity|]. split; [lia|]. split; [lia|].
    split; [change (10 ^ Z.of_nat 1) with 10; lia|]. split; [left; reflexivity|].
    split; [simpl; rewrite Hd; reflexivity|].
    intros a rest. simpl. rewrite Hv. rewrite Z.mod_small by lia. f_equal; lia.
  - remember (S f) as f1. cbn [digits_go]. fold (dg (n mod 10)).
    assert (Hm : 0 <= n mod 10 < 10) by (apply Z.mod_pos_bound; lia).
    destruct (dg_props _ Hm) as [Hv [Hd _]].
    destruct (n <? 10) eqn:E.
    + apply Z.ltb_lt in E. exists 1%nat, [dg (n mod 10)].
      split; [reflexivity|]. split; [reflexivity|]. split; [lia|]. split; [lia|].
      split; [change (10 ^ Z.of_nat 1) with 10; lia|]. split; [left; reflexivity|].
      split; [simpl; rewrite Hd; reflexivity|].
      intros a rest. simpl. rewrite Hv. rewrite Z.mod_small by lia. f_equal; lia.
    + apply Z.ltb_ge in E.
      assert (Hq : 0 <= n / 10 < 10 ^ Z.of_nat f1).
      { split; [apply Z.div_pos; lia|]. apply Z.div_lt_upper_bound; [lia|].
        rewrite Nat2Z.inj_succ, Z.pow_succ_r in Hn by lia. lia. }
      subst f1.
      destruct (IH (n / 10) (dg (n mod 10) :: acc) Hq) as [k [l [E1 [E2 [E3 [E3' [E4 [E5 [E6 E7]]]]]]]]].
      exists (S k), (l ++ [dg (n mod 10)]).
      split; [|split; [|split; [|split; [|split; [|split; [|split]]]]]].
      * rewrite E1, <- app_assoc. reflexivity.
      * rewrite app_length, E2. simpl. lia.
      * lia.
      * lia.
      * rewrite Nat2Z.inj_succ, Z.pow_succ_r by lia.
        pose proof (Z.div_mod n 10 ltac:(lia)). lia.
      * right. replace (S k - 1)%nat with k by lia.
        destruct E5 as [->|E5].
        -- simpl. lia.
        -- replace k with (S (k - 1)) at 1 by lia. rewrite Nat2Z.inj_succ, Z.pow_succ_r by lia.
           pose proof (Z.div_mod n 10 ltac:(lia)). lia.
      * rewrite forallb_app, E6. simpl. rewrite Hd. reflexivity.
      * intros a rest. rewrite <- app_assoc. rewrite E7. cbn [app parse_nat_go]. rewrite Hv. f_equal.
        rewrite Nat2Z.inj_succ, Z.pow_succ_r by lia.
        pose proof (Z.div_mod n 10 ltac:(lia)). lia.
Qed.

Lemma digits_spec n : 0 <= n < 10 ^ 40 ->
  exists k, length (digits n) = k /\ (1 <= k)%nat /\ n < 10 ^ Z.of_nat k /\ (k = 1%nat \/ 10 ^ Z.of_nat (k - 1) <= n)
            /\ forallb is_digit (digits n) = true
            /\ forall a rest, parse_nat_go (digits n ++ rest) a = parse_nat_go rest (a * 10 ^ Z.of_nat k + n).
Proof.
  intros Hn. unfold digits.
  destruct (digits_go_spec 39 n [] Hn) as [k [l [E1 [E2 [E3 [_ [E4 [E5 [E6 E7]]]]]]]]].
  rewrite app_nil_r in E1. rewrite E1. exists k. repeat split; assumption.
Qed.

Lemma digits_nonempty n : 0 <= n < 10 ^ 40 -> digits n <> [].
Proof.
  intros Hn. destruct (digits_spec n Hn) as [k [E [H _]]]. intros C. rewrite C in E. simpl in E. lia.
Qed.

Lemma parse_nat_digits n : 0 <= n < 10 ^ 40 -> parse_nat (digits n) = Some n.
Proof.
  intros Hn. pose proof (digits_nonempty n Hn) as Hne.
  destruct (digits_spec n Hn) as [k [_ [_ [_ [_ [_ H]]]]]].
  assert (G : parse_nat_go (digits n) 0 = Some n).
  { rewrite <- (app_nil_r (digits n)), H. cbn [parse_nat_go]. f_equal; lia. }
  unfold parse_nat. destruct (digits n); [congruence|exact G].
Qed.

Lemma digits_len_le n j : 0 <= n < 10 ^ Z.of_nat j -> (1 <= j <= 40)%nat -> (length (digits n) <= j)%nat.
Proof.
  intros Hn Hj.
  assert (Hn' : 0 <= n < 10 ^ 40).
  { split; [lia|]. apply Z.lt_le_trans with (10 ^ Z.of_nat j); [lia|]. apply Z.pow_le_mono_r; lia. }
  destruct (digits_spec n Hn') as [k [E [H1 [H2 [[->|H3] _]]]]]; [lia|].
  rewrite E. destruct (Nat.le_gt_cases k j) as [L|L]; [exact L|exfalso].
  assert (10 ^ Z.of_nat j <= 10 ^ Z.of_nat (k - 1)) by (apply Z.pow_le_mono_r; lia). lia.
Qed.

Lemma digits_all_digit n : 0 <= n < 10 ^ 40 -> forallb is_digit (digits n) = true.
Proof. intros Hn. destruct (digits_spec n Hn) as [k [_ [_ [_ [_ [H _]]]]]]. exact H. Qed.

Lemma is_digit_facts b : is_digit b = true ->
  Byte.eqb b x2d = false /\ Byte.eqb b x2e = false /\ is_numch b = true /\ Byte.eqb b bQ = false /\ Byte.eqb b bBS = false.
Proof.
  assert (S : forallb (fun b => negb (is_digit b) ||
     (negb (Byte.eqb b x2d) && negb (Byte.eqb b x2e) && is_numch b && negb (Byte.eqb b bQ) && negb (Byte.eqb b bBS))) all_bytes = true)
    by (vm_compute; reflexivity).
  pose proof (byte_sweep _ S b) as Hb. cbv beta in Hb. intros H. rewrite H in Hb. simpl in Hb.
  rewrite !andb_true_iff, !negb_true_iff in Hb. tauto.
Qed.

Lemma digits_head n : 0 <= n < 10 ^ 40 -> exists b r, digits n = b :: r /\ is_digit b = true.
Proof.
  intros Hn. pose proof (digits_nonempty n Hn) as Hne. pose proof (digits_all_digit n Hn) as Hd.
  destruct (digits n) as [|b r]; [congruence|]. exists b, r. split; [reflexivity|].
  simpl in Hd. apply andb_true_iff in Hd. tauto.
Qed.

(* ------------------------------------------------------------------ integers *)
Definition int_dom (z : Z) : bool := (- 10 ^ 18 <? z) && (z <? 10 ^ 18).

Lemma pow18_40 : 10 ^ 18 < 10 ^ 40.
Proof. reflexivity. Qed.

Theorem int_roundtrip z : int_dom z = true -> get_int64 (Some (FNum (fmt_int z))) = Some z.
Proof.
  unfold int_dom. rewrite andb_true_iff, !Z.ltb_lt. intros [H1 H2]. pose proof pow18_40 as P.
  unfold fmt_int, get_int64. destruct (z <? 0) eqn:E.
  - apply Z.ltb_lt in E. change (Byte.eqb x2d x2d) with true. cbv iota.
    assert (Hn : 0 <= - z < 10 ^ 40) by lia.
    rewrite (parse_nat_digits _ Hn).
    assert (L : (length (digits (- z)) <= 18)%nat) by (apply digits_len_le; [change (Z.of_nat 18) with 18; lia|lia]).
    apply Nat.leb_le in L. rewrite L. f_equal. lia.
  - apply Z.ltb_ge in E. assert (Hn : 0 <= z < 10 ^ 40) by lia.
    destruct (digits_head z Hn) as [b [r [Eb Hb]]]. rewrite Eb.
    destruct (is_digit_facts b Hb) as [Hm _]. rewrite Hm. rewrite <- Eb.
    rewrite (parse_nat_digits _ Hn).
    assert (L : (length (digits z) <= 18)%nat) by (apply digits_len_le; [change (Z.of_nat 18) with 18; lia|lia]).
    apply Nat.leb_le in L. rewrite L. reflexivity.
Qed.

(* the token is a JSON number: digits with an optional leading minus; never empty *)
Definition int_token (t : bytes) : bool :=
  match t with
  | b :: r => if Byte.eqb b x2d then negb (Nat.eqb (length r) 0) && forallb is_digit r else forallb is_digit t
  | [] => false
  end.

Lemma fmt_int_token z : - 10 ^ 40 < z < 10 ^ 40 -> int_token (fmt_int z) = true.
Proof.
  intros H. unfold fmt_int. destruct (z <? 0) eqn:E.
  - apply Z.ltb_lt in E. assert (Hn : 0 <= - z < 10 ^ 40) by lia. simpl.
    rewrite (digits_all_digit _ Hn). pose proof (digits_nonempty _ Hn). destruct (digits (- z)); [congruence|reflexivity].
  - apply Z.ltb_ge in E. assert (Hn : 0 <= z < 10 ^ 40) by lia.
    destruct (digits_head z Hn) as [b [r [Eb Hb]]]. unfold int_token. rewrite Eb.
    destruct (is_digit_facts b Hb) as [Hm _]. rewrite Hm. rewrite <- Eb. apply digits_all_digit, Hn.
Qed.

(* the unsigned path: JSONWriteIntProp(int64(x)) then uint(JSONGetInt(...)) *)
Theorem uint_roundtrip (n : N) : (n < 10 ^ 18)%N ->
  get_int64 (Some (FNum (fmt_int (Z.of_N n)))) = Some (Z.of_N n) /\ uint_of (Z.of_N n) = n.
Proof.
  intros H. assert (Hz : Z.of_N n < 10 ^ 18) by (change (10 ^ 18) with (Z.of_N (10 ^ 18)%N); lia).
  split.
  - apply int_roundtrip. unfold int_dom. apply andb_true_iff. split; apply Z.ltb_lt; lia.
  - unfold uint_of. rewrite Z.mod_small; [apply N2Z.id|]. split; [lia|].
    apply Z.lt_trans with (10 ^ 18); [exact Hz|reflexivity].
Qed.

(* ------------------------------------------------------------------ six-digit decimals *)
Lemma cut_byte_app c l r : forallb (fun b => negb (Byte.eqb b c)) l = true ->
  cut_byte c (l ++ c :: r) = (l, Some r).
Proof.
  induction l as [|b l IH]; intros H.
  - simpl. rewrite beqb_refl. reflexivity.
  - simpl in H. apply andb_true_iff in H. destruct H as [Hb Hl]. apply negb_true_iff in Hb.
    simpl. rewrite Hb, (IH Hl). reflexivity.
Qed.

Lemma digits_no_dot l : forallb is_digit l = true -> forallb (fun b => negb (Byte.eqb b x2e)) l = true.
Proof.
  induction l as [|b l IH]; [reflexivity|]. simpl. rewrite !andb_true_iff. intros [Hb Hl].
  destruct (is_digit_facts b Hb) as [_ [H _]]. rewrite H. split; [reflexivity|apply IH, Hl].
Qed.

Lemma parse_nat_go_zeros k l a : parse_nat_go (repeat x30 k ++ l) a = parse_nat_go l (a * 10 ^ Z.of_nat k).
Proof.
  revert a. induction k as [|k IH]; intros a.
  - simpl. f_equal. lia.
  - cbn [repeat app].
    change (parse_nat_go (x30 :: repeat x30 k ++ l) a) with (parse_nat_go (repeat x30 k ++ l) (a * 10 + 0)).
    rewrite IH. f_equal.
    rewrite Nat2Z.inj_succ, Z.pow_succ_r by lia. lia.
Qed.

Lemma digits_w_spec w n : 0 <= n < 10 ^ Z.of_nat w -> (1 <= w <= 40)%nat ->
  length (digits_w w n) = w /\ forallb is_digit (digits_w w n) = true /\
  forall a rest, parse_nat_go (digits_w w n ++ rest) a = parse_nat_go rest (a * 10 ^ Z.of_nat w + n).
Proof.
  intros Hn Hw.
  assert (Hn' : 0 <= n < 10 ^ 40).
  { split; [lia|]. apply Z.lt_le_trans with (10 ^ Z.of_nat w); [lia|]. apply Z.pow_le_mono_r; lia. }
  pose proof (digits_len_le n w Hn Hw) as L.
  destruct (digits_spec n Hn') as [k [E [H1 [H2 [_ [H4 H5]]]]]].
  unfold digits_w. repeat split.
  - rewrite app_length, repeat_length. lia.
  - rewrite forallb_app, H4, andb_true_r. clear. induction (w - length (digits n))%nat; [reflexivity|exact IHn0].
  - intros a rest. rewrite <- app_assoc, parse_nat_go_zeros, H5. f_equal.
    rewrite <- Z.mul_assoc, <- Z.pow_add_r by lia. f_equal. f_equal. f_equal. lia.
Qed.

Lemma strip_minus_digit l rest : (exists b r, l = b :: r /\ is_digit b = true) ->
  (match l ++ rest with
   | b :: r => if Byte.eqb b x2d then (true, r) else (false, l ++ rest)
   | [] => (false, [])
   end) = (false, l ++ rest).
Proof.
  intros [b [r [-> Hb]]]. cbn [app]. destruct (is_digit_facts b Hb) as [Hm _]. rewrite Hm. reflexivity.
Qed.

Definition float_dom (m : Z) : bool := Z.abs m <? 10 ^ 46.

Theorem float_roundtrip m : float_dom m = true -> get_float_micro (Some (FNum (fmt_float m))) = Some m.
Proof.
  unfold float_dom. rewrite Z.ltb_lt. intros H.
  set (a := Z.abs m). assert (Ha : 0 <= a) by (apply Z.abs_nonneg).
  assert (Hi : 0 <= a / 1000000 < 10 ^ 40).
  { split; [apply Z.div_pos; lia|]. apply Z.div_lt_upper_bound; [lia|]. change (1000000 * 10 ^ 40) with (10 ^ 46). exact H. }
  assert (Hf : 0 <= a mod 1000000 < 10 ^ Z.of_nat 6) by (apply Z.mod_pos_bound; lia).
  destruct (digits_w_spec 6 _ Hf ltac:(lia)) as [W1 [W2 W3]].
  pose proof (digits_all_digit _ Hi) as D1.
  unfold fmt_float, get_float_micro. fold a.
  assert (Core : forall sg : Z,
    (let '(ip, fp) := cut_byte x2e (digits (a / 1000000) ++ [x2e] ++ digits_w 6 (a mod 1000000)) in
     match parse_nat ip, fp with
     | Some i, None => Some (sg * i * 1000000)
     | Some i, Some f =>
         if Nat.leb (length f) 6 && negb (Nat.eqb (length f) 0) then
           match parse_nat (f ++ repeat x30 (6 - length f)) with
           | Some fr => Some (sg * (i * 1000000 + fr))
           | None => None
           end
         else None
     | None, _ => None
     end) = Some (sg * a)).
  { intros sg. change ([x2e] ++ digits_w 6 (a mod 1000000)) with (x2e :: digits_w 6 (a mod 1000000)).
    rewrite (cut_byte_app x2e _ _ (digits_no_dot _ D1)).
    rewrite (parse_nat_digits _ Hi), W1. simpl Nat.leb. simpl negb. cbv iota. simpl repeat. rewrite app_nil_r.
    assert (G : parse_nat (digits_w 6 (a mod 1000000)) = Some (a mod 1000000)).
    { unfold parse_nat. specialize (W3 0 []). rewrite app_nil_r in W3. cbn [parse_nat_go] in W3.
      destruct (digits_w 6 (a mod 1000000)); [simpl in W1; lia|]. rewrite W3. f_equal; lia. }
    rewrite G. cbn [andb]. cbv iota. f_equal. f_equal.
    pose proof (Z.div_mod a 1000000 ltac:(lia)). lia. }
  destruct (m <? 0) eqn:E.
  - apply Z.ltb_lt in E. change (([x2d] ++ digits (a / 1000000) ++ [x2e] ++ digits_w 6 (a mod 1000000)))
      with (x2d :: (digits (a / 1000000) ++ [x2e] ++ digits_w 6 (a mod 1000000))).
    cbv iota. change (Byte.eqb x2d x2d) with true. cbv iota. rewrite (Core (-1)). f_equal. unfold a. lia.
  - apply Z.ltb_ge in E. change ([] ++ digits (a / 1000000) ++ [x2e] ++ digits_w 6 (a mod 1000000))
      with (digits (a / 1000000) ++ [x2e] ++ digits_w 6 (a mod 1000000)).
    rewrite (strip_minus_digit _ _ (digits_head _ Hi)). rewrite (Core 1). f_equal. unfold a. lia.
Qed.

(* the decimal token: [-] digits . six digits : every byte is a number byte, the first is a digit or a minus *)
Lemma fmt_float_numch m : float_dom m = true -> forallb is_numch (fmt_float m) = true /\ fmt_float m <> [].
Proof.
  unfold float_dom. rewrite Z.ltb_lt. intros H.
  set (a := Z.abs m). assert (Ha : 0 <= a) by (apply Z.abs_nonneg).
  assert (Hi : 0 <= a / 1000000 < 10 ^ 40).
  { split; [apply Z.div_pos; lia|]. apply Z.div_lt_upper_bound; [lia|]. change (1000000 * 10 ^ 40) with (10 ^ 46). exact H. }
  assert (Hf : 0 <= a mod 1000000 < 10 ^ Z.of_nat 6) by (apply Z.mod_pos_bound; lia).
  destruct (digits_w_spec 6 _ Hf ltac:(lia)) as [W1 [W2 W3]].
  pose proof (digits_all_digit _ Hi) as D1.
  assert (N : forall l, forallb is_digit l = true -> forallb is_numch l = true).
  { induction l as [|b l IH]; [reflexivity|]. simpl. rewrite !andb_true_iff. intros [Hb Hl].
    destruct (is_digit_facts b Hb) as [_ [_ [Hn _]]]. rewrite Hn. split; [reflexivity|apply IH, Hl]. }
  unfold fmt_float. fold a. split.
  - rewrite !forallb_app, (N _ D1), (N _ W2). destruct (m <? 0); reflexivity.
  - destruct (m <? 0); [discriminate|]. simpl app. pose proof (digits_nonempty _ Hi).
    destruct (digits (a / 1000000)); [congruence|discriminate].
Qed.
