(* C01, layer (b), second half: the byte-level fastjson model reads back every printed tree,
     fj_parse (fprint v) = Ok v
   for every value v whose strings and keys are closed under the string scan, whose number tokens are number
   bytes (not a lone sign) and whose nesting is at most 300 (MaxDepth).  This generalises the C06 lemma
   parse_tree (strings and objects of strings) to arrays, numbers and literals, and reuses its string scan. *)
From AP.Model Require Import Prelude Bytes Vocab Json JsonLeaf Text JsonEnc JsonTree.
From AP.Proofs Require Import NlvP TextP C01StrP C01TreeP.
Local Open Scope nat_scope.

Definition num_tok_ok (tok : bytes) : bool :=
  forallb is_numch tok &&
  match tok with
  | [] => false
  | [c] => negb (Byte.eqb c x2d || Byte.eqb c x2b)
  | c :: _ => true
  end.

Fixpoint wf_fjv (v : fjv) : bool :=
  match v with
  | Text.FStr raw => raw_ok raw
  | FNum tok => num_tok_ok tok
  | FTrue | FFalse | FNull => true
  | FArr l => (fix go (l : list fjv) : bool := match l with [] => true | x :: r => wf_fjv x && go r end) l
  | FObj kvs => (fix go (m : list (bytes * fjv)) : bool :=
                   match m with [] => true | kv :: r => raw_ok (fst kv) && wf_fjv (snd kv) && go r end) kvs
  end.

Fixpoint fdepth (v : fjv) : nat :=
  match v with
  | FArr l => S ((fix go (l : list fjv) : nat := match l with [] => 0 | x :: r => Nat.max (fdepth x) (go r) end) l)
  | FObj kvs => S ((fix go (m : list (bytes * fjv)) : nat :=
                      match m with [] => 0 | kv :: r => Nat.max (fdepth (snd kv)) (go r) end) kvs)
  | _ => 1
  end.

Lemma wf_FArr l : wf_fjv (FArr l) = forallb wf_fjv l.
Proof. cbn [wf_fjv]. induction l as [|x r IH]; [reflexivity|]. cbn [forallb]. rewrite IH. reflexivity. Qed.
Lemma wf_FObj kvs : wf_fjv (FObj kvs) = forallb (fun kv => raw_ok (fst kv) && wf_fjv (snd kv)) kvs.
Proof. cbn [wf_fjv]. induction kvs as [|x r IH]; [reflexivity|]. cbn [forallb]. rewrite IH. reflexivity. Qed.

Lemma fdepth_FArr_in l x : In x l -> fdepth x < fdepth (FArr l).
Proof.
  cbn [fdepth]. induction l as [|y r IH]; intros H; [destruct H|]. destruct H as [->|H]; [lia|]. specialize (IH H). lia.
Qed.
Lemma fdepth_FObj_in kvs kv : In kv kvs -> fdepth (snd kv) < fdepth (FObj kvs).
Proof.
  cbn [fdepth]. induction kvs as [|y r IH]; intros H; [destruct H|]. destruct H as [->|H]; [lia|]. specialize (IH H). lia.
Qed.

(* what may follow a value: nothing, or a byte that cannot continue a number *)
Definition tail_ok (t : bytes) : bool := match t with [] => true | c :: _ => negb (is_numch c) end.

(* ------------------------------------------------------------------ first bytes *)
Definition starts_value (c : byte) : bool :=
  negb (is_ws c) && negb (Byte.eqb c bRK) && negb (Byte.eqb c bRB).

Lemma numch_dispatch c : is_numch c = true ->
  Byte.eqb c bLB = false /\ Byte.eqb c bLK = false /\ Byte.eqb c bQ = false /\ Byte.eqb c x74 = false /\
  Byte.eqb c x66 = false /\ Byte.eqb c x6e = false /\ starts_value c = true.
Proof.
  assert (S : forallb (fun c => negb (is_numch c) ||
     (negb (Byte.eqb c bLB) && negb (Byte.eqb c bLK) && negb (Byte.eqb c bQ) && negb (Byte.eqb c x74)
      && negb (Byte.eqb c x66) && negb (Byte.eqb c x6e) && starts_value c)) all_bytes = true) by (vm_compute; reflexivity).
  pose proof (byte_sweep _ S c) as Hc. cbv beta in Hc. intros H. rewrite H in Hc. simpl in Hc.
  rewrite !andb_true_iff, !negb_true_iff in Hc. tauto.
Qed.

Lemma fprint_head v : wf_fjv v = true -> exists c r, fprint v = c :: r /\ starts_value c = true.
Proof.
  destruct v as [kvs|l|raw|tok| | | ]; intros H; cbn [fprint].
  - eexists; eexists; split; reflexivity.
  - eexists; eexists; split; reflexivity.
  - eexists; eexists; split; reflexivity.
  - cbn [wf_fjv] in H. unfold num_tok_ok in H. apply andb_true_iff in H. destruct H as [H1 H2].
    destruct tok as [|c r]; [discriminate|]. simpl in H1. apply andb_true_iff in H1. destruct H1 as [Hc _].
    exists c, r. split; [reflexivity|]. apply (numch_dispatch c Hc).
  - eexists; eexists; split; reflexivity.
  - eexists; eexists; split; reflexivity.
  - eexists; eexists; split; reflexivity.
Qed.

Lemma skipws_fprint v x : wf_fjv v = true -> skipws (fprint v ++ x) = fprint v ++ x.
Proof.
  intros H. destruct (fprint_head v H) as [c [r [E Hc]]]. rewrite E. cbn [app]. apply skipws_nows.
  unfold starts_value in Hc. rewrite !andb_true_iff, !negb_true_iff in Hc. tauto.
Qed.

(* ------------------------------------------------------------------ numbers *)
Lemma raw_number_cons i s1 c r : raw_number i s1 (c :: r) =
  if is_numch c then match raw_number (S i) s1 r with Some (a, t) => Some (c :: a, t) | None => None end
  else if Nat.eqb i 0 || (Nat.eqb i 1 && s1) then (if infnan3 (c :: r) then Some (firstn 3 (c :: r), skipn 3 (c :: r)) else None)
       else Some ([], c :: r).
Proof. reflexivity. Qed.

Lemma raw_number_tok s1 tok tail : forall i, forallb is_numch tok = true -> tail_ok tail = true ->
  (Nat.eqb (i + length tok) 0 || (Nat.eqb (i + length tok) 1 && s1)) = false ->
  raw_number i s1 (tok ++ tail) = Some (tok, tail).
Proof.
  induction tok as [|c r IH]; intros i Hn Ht Hi.
  - cbn [app]. destruct tail as [|c t]; [reflexivity|]. rewrite raw_number_cons.
    cbn [tail_ok] in Ht. apply negb_true_iff in Ht. rewrite Ht. simpl length in Hi. rewrite Nat.add_0_r in Hi. rewrite Hi. reflexivity.
  - cbn [app]. rewrite raw_number_cons. simpl in Hn. apply andb_true_iff in Hn. destruct Hn as [Hc Hr]. rewrite Hc.
    rewrite (IH (S i) Hr Ht); [reflexivity|]. simpl length in Hi. rewrite <- Hi. f_equal; [f_equal; lia|f_equal; f_equal; lia].
Qed.

Lemma number_token n tok tail : num_tok_ok tok = true -> tail_ok tail = true ->
  fj_value (S n) (tok ++ tail) = Ok (FNum tok, tail).
Proof.
  unfold num_tok_ok. rewrite andb_true_iff. intros [Hn Hs] Ht.
  destruct tok as [|c r]; [discriminate|]. cbn [app].
  pose proof Hn as Hn'. simpl in Hn'. apply andb_true_iff in Hn'. destruct Hn' as [Hc _].
  destruct (numch_dispatch c Hc) as [D1 [D2 [D3 [D4 [D5 [D6 _]]]]]].
  cbn [fj_value]. rewrite D1, D2, D3, D4, D5, D6.
  unfold fj_raw_number.
  change (c :: r ++ tail) with ((c :: r) ++ tail).
  rewrite (raw_number_tok _ (c :: r) tail 0 Hn Ht); [reflexivity|].
  cbn [app]. destruct r as [|c2 r2].
  - simpl. apply negb_true_iff in Hs. exact Hs.
  - reflexivity.
Qed.

(* ------------------------------------------------------------------ arrays *)
Lemma arr_loop_S f pv s acc : arr_loop (S f) pv s acc =
  match pv (skipws s) with
  | Ok (v, s1) =>
      match skipws s1 with
      | c :: s2 =>
          if Byte.eqb c bCM then arr_loop f pv s2 (v :: acc)
          else if Byte.eqb c bRK then Ok (FArr (rev (v :: acc)), s2)
          else Err
      | [] => Err
      end
  | Err => Err
  | Panic p => Panic p
  | OutOfFuel => OutOfFuel
  end.
Proof. reflexivity. Qed.

Lemma tail_ok_comma x : tail_ok (bCM :: x) = true. Proof. reflexivity. Qed.
Lemma tail_ok_rk x : tail_ok (bRK :: x) = true. Proof. reflexivity. Qed.
Lemma tail_ok_rb x : tail_ok (bRB :: x) = true. Proof. reflexivity. Qed.

Lemma join_cons2 sep (x y : bytes) r : join_with sep (x :: y :: r) = x ++ sep ++ join_with sep (y :: r).
Proof. reflexivity. Qed.

Lemma arr_loop_elems pv : forall l x acc fuel tail,
  length l < fuel ->
  (forall y, In y (x :: l) -> wf_fjv y = true /\ forall tl, tail_ok tl = true -> pv (fprint y ++ tl) = Ok (y, tl)) ->
  arr_loop fuel pv (join_with comma (map fprint (x :: l)) ++ bRK :: tail) acc = Ok (FArr (rev acc ++ x :: l), tail).
Proof.
  induction l as [|y l IH]; intros x acc fuel tail Hf Hpv.
  - destruct fuel as [|f]; [simpl in Hf; lia|]. rewrite arr_loop_S.
    destruct (Hpv x (or_introl eq_refl)) as [Hw Hp]. cbn [map join_with].
    rewrite (skipws_fprint x _ Hw), (Hp _ (tail_ok_rk tail)).
    rewrite skipws_nows by reflexivity. change (Byte.eqb bRK bCM) with false. change (Byte.eqb bRK bRK) with true. cbv iota.
    cbn [rev]. reflexivity.
  - destruct fuel as [|f]; [simpl in Hf; lia|]. rewrite arr_loop_S.
    destruct (Hpv x (or_introl eq_refl)) as [Hw Hp].
    cbn [map]. rewrite join_cons2. rewrite <- !app_assoc. change (comma ++ ?z) with (bCM :: z).
    change (comma ++ join_with comma (fprint y :: map fprint l) ++ bRK :: tail)
      with (bCM :: join_with comma (fprint y :: map fprint l) ++ bRK :: tail).
    rewrite (skipws_fprint x _ Hw), (Hp _ (tail_ok_comma _)).
    rewrite skipws_nows by reflexivity. change (Byte.eqb bCM bCM) with true. cbv iota.
    change (fprint y :: map fprint l) with (map fprint (y :: l)).
    rewrite (IH y (x :: acc) f tail).
    + cbn [rev]. rewrite <- app_assoc. reflexivity.
    + simpl in Hf. lia.
    + intros z Hz. apply Hpv. right. exact Hz.
Qed.

Lemma fprint_len v : wf_fjv v = true -> 1 <= length (fprint v).
Proof. intros H. destruct (fprint_head v H) as [c [r [E _]]]. rewrite E. simpl. lia. Qed.

Lemma join_fprint_len l : forallb wf_fjv l = true -> length l <= length (join_with comma (map fprint l)).
Proof.
  induction l as [|x r IH]; intros H; [simpl; lia|]. simpl in H. apply andb_true_iff in H. destruct H as [Hx Hr].
  destruct r as [|y r'].
  - cbn [map join_with]. pose proof (fprint_len x Hx). simpl. lia.
  - cbn [map]. rewrite join_cons2. rewrite !app_length. specialize (IH Hr). cbn [map] in IH.
    pose proof (fprint_len x Hx). simpl length at 1. simpl length in IH at 1. lia.
Qed.

(* ------------------------------------------------------------------ objects *)
Lemma pmember_eq kv : pmember kv = bQ :: fst kv ++ bQ :: bCO :: fprint (snd kv).
Proof. unfold pmember, member. reflexivity. Qed.

Lemma obj_loop_step2 f pv k v Y acc : raw_ok k = true -> wf_fjv v = true ->
  (forall tl, tail_ok tl = true -> pv (fprint v ++ tl) = Ok (v, tl)) -> tail_ok Y = true ->
  obj_loop (S f) pv (pmember (k, v) ++ Y) acc =
  match skipws Y with
  | c2 :: s4 =>
      if Byte.eqb c2 bCM then obj_loop f pv s4 ((k, v) :: acc)
      else if Byte.eqb c2 bRB then Ok (FObj (rev ((k, v) :: acc)), s4)
      else Err
  | [] => Err
  end.
Proof.
  intros Hk Hv Hpv HY. rewrite obj_loop_S, pmember_eq. cbn [fst snd].
  rewrite <- app_comm_cons. rewrite skipws_nows by reflexivity. change (negb (Byte.eqb bQ bQ)) with false. cbv iota.
  rewrite <- app_assoc. rewrite <- app_comm_cons. rewrite (raw_string_closed k _ Hk).
  rewrite <- app_comm_cons. rewrite skipws_nows by reflexivity. change (negb (Byte.eqb bCO bCO)) with false. cbv iota.
  rewrite (skipws_fprint v _ Hv), (Hpv _ HY). reflexivity.
Qed.

Lemma obj_loop_members2 pv : forall ms kv acc fuel tail,
  length ms < fuel ->
  (forall m, In m (kv :: ms) -> raw_ok (fst m) = true /\ wf_fjv (snd m) = true /\
                               forall tl, tail_ok tl = true -> pv (fprint (snd m) ++ tl) = Ok (snd m, tl)) ->
  obj_loop fuel pv (join_with comma (map pmember (kv :: ms)) ++ bRB :: tail) acc = Ok (FObj (rev acc ++ kv :: ms), tail).
Proof.
  induction ms as [|kv' ms IH]; intros kv acc fuel tail Hf Hpv.
  - destruct fuel as [|f]; [simpl in Hf; lia|].
    destruct (Hpv kv (or_introl eq_refl)) as [Hk [Hv Hp]]. cbn [map join_with].
    destruct kv as [k v]. cbn [fst snd] in *.
    rewrite (obj_loop_step2 f pv k v _ acc Hk Hv Hp (tail_ok_rb tail)).
    rewrite skipws_nows by reflexivity. reflexivity.
  - destruct fuel as [|f]; [simpl in Hf; lia|].
    destruct (Hpv kv (or_introl eq_refl)) as [Hk [Hv Hp]].
    cbn [map]. rewrite join_cons2. rewrite <- !app_assoc.
    change (comma ++ join_with comma (pmember kv' :: map pmember ms) ++ bRB :: tail)
      with (bCM :: join_with comma (pmember kv' :: map pmember ms) ++ bRB :: tail).
    destruct kv as [k v]. cbn [fst snd] in *.
    rewrite (obj_loop_step2 f pv k v _ acc Hk Hv Hp (tail_ok_comma _)).
    rewrite skipws_nows by reflexivity. change (Byte.eqb bCM bCM) with true. cbv iota.
    change (pmember kv' :: map pmember ms) with (map pmember (kv' :: ms)).
    rewrite (IH kv' ((k, v) :: acc) f tail).
    + cbn [rev]. rewrite <- app_assoc. reflexivity.
    + simpl in Hf. lia.
    + intros m Hm. apply Hpv. right. exact Hm.
Qed.

Lemma pmember_len kv : 1 <= length (pmember kv).
Proof. rewrite pmember_eq. simpl. lia. Qed.

Lemma join_pmember_len kvs : length kvs <= length (join_with comma (map pmember kvs)).
Proof.
  induction kvs as [|x r IH]; [simpl; lia|]. destruct r as [|y r'].
  - cbn [map join_with]. pose proof (pmember_len x). simpl. lia.
  - cbn [map]. rewrite join_cons2. rewrite !app_length. cbn [map] in IH. pose proof (pmember_len x).
    simpl length at 1. simpl length in IH at 1. lia.
Qed.

(* ------------------------------------------------------------------ parseValue on printed trees *)
Lemma fj_value_arr n r : fj_value (S n) (bLK :: r) =
  match skipws r with
  | [] => Err
  | c1 :: r1 => if Byte.eqb c1 bRK then Ok (FArr [], r1) else arr_loop (S (length r)) (fj_value n) (skipws r) []
  end.
Proof. reflexivity. Qed.

Theorem parse_fprint n : forall v tail, fdepth v <= n -> wf_fjv v = true -> tail_ok tail = true ->
  fj_value n (fprint v ++ tail) = Ok (v, tail).
Proof.
  induction n as [|n IH]; intros v tail Hd Hw Ht.
  - destruct v; simpl in Hd; lia.
  - destruct v as [kvs|l|raw|tok| | | ].
    + (* object *)
      rewrite fprint_FObj. rewrite <- app_comm_cons. rewrite <- app_assoc. change ([x7d] ++ tail) with (bRB :: tail).
      destruct kvs as [|kv ms].
      * reflexivity.
      * change x7b with bLB. rewrite fj_value_obj.
        assert (Hsk : skipws (join_with comma (map pmember (kv :: ms)) ++ bRB :: tail)
                      = join_with comma (map pmember (kv :: ms)) ++ bRB :: tail).
        { cbn [map]. destruct ms as [|kv' ms'].
          - cbn [map join_with]. rewrite pmember_eq. rewrite <- app_comm_cons. apply skipws_nows. reflexivity.
          - cbn [map]. rewrite join_cons2, pmember_eq. rewrite <- !app_comm_cons. apply skipws_nows. reflexivity. }
        rewrite Hsk.
        assert (Hhd : exists r1, join_with comma (map pmember (kv :: ms)) ++ bRB :: tail = bQ :: r1).
        { cbn [map]. destruct ms as [|kv' ms'].
          - cbn [map join_with]. rewrite pmember_eq. rewrite <- app_comm_cons. eexists; reflexivity.
          - cbn [map]. rewrite join_cons2, pmember_eq. rewrite <- !app_comm_cons. eexists; reflexivity. }
        destruct Hhd as [r1 Er1]. rewrite Er1. change (Byte.eqb bQ bRB) with false. cbv iota. rewrite <- Er1.
        rewrite wf_FObj in Hw.
        rewrite (obj_loop_members2 (fj_value n) ms kv [] _ tail).
        -- reflexivity.
        -- rewrite app_length. pose proof (join_pmember_len (kv :: ms)) as H. cbn [length] in H. lia.
        -- intros m Hm. rewrite forallb_forall in Hw. specialize (Hw m Hm). apply andb_true_iff in Hw. destruct Hw as [Hk Hv].
           split; [exact Hk|]. split; [exact Hv|]. intros tl Htl. apply IH; [|exact Hv|exact Htl].
           pose proof (fdepth_FObj_in (kv :: ms) m Hm). lia.
    + (* array *)
      rewrite fprint_FArr. rewrite <- app_comm_cons. rewrite <- app_assoc. change ([x5d] ++ tail) with (bRK :: tail).
      destruct l as [|x l].
      * reflexivity.
      * change x5b with bLK. rewrite fj_value_arr. rewrite wf_FArr in Hw.
        assert (Hx : wf_fjv x = true) by (simpl in Hw; apply andb_true_iff in Hw; tauto).
        assert (Hsk : skipws (join_with comma (map fprint (x :: l)) ++ bRK :: tail)
                      = join_with comma (map fprint (x :: l)) ++ bRK :: tail).
        { cbn [map]. destruct l as [|y l'].
          - cbn [map join_with]. apply skipws_fprint, Hx.
          - cbn [map]. rewrite join_cons2. rewrite <- app_assoc. apply skipws_fprint, Hx. }
        rewrite Hsk.
        assert (Hhd : exists c1 r1, join_with comma (map fprint (x :: l)) ++ bRK :: tail = c1 :: r1 /\ Byte.eqb c1 bRK = false).
        { destruct (fprint_head x Hx) as [c [r [E Hc]]]. unfold starts_value in Hc. rewrite !andb_true_iff, !negb_true_iff in Hc.
          cbn [map]. destruct l as [|y l'].
          - cbn [map join_with]. rewrite E. rewrite <- app_comm_cons. eexists; eexists; split; [reflexivity|tauto].
          - cbn [map]. rewrite join_cons2, E. rewrite <- !app_comm_cons. eexists; eexists; split; [reflexivity|tauto]. }
        destruct Hhd as [c1 [r1 [Er1 Hc1]]]. rewrite Er1, Hc1. rewrite <- Er1.
        rewrite (arr_loop_elems (fj_value n) l x [] _ tail).
        -- reflexivity.
        -- rewrite app_length. pose proof (join_fprint_len (x :: l) Hw) as H. cbn [length] in H. lia.
        -- intros y Hy. rewrite forallb_forall in Hw. specialize (Hw y Hy). split; [exact Hw|].
           intros tl Htl. apply IH; [|exact Hw|exact Htl]. pose proof (fdepth_FArr_in (x :: l) y Hy). lia.
    + (* string *)
      cbn [fprint]. rewrite <- app_comm_cons. change dquote with bQ. rewrite fj_value_str, <- app_assoc.
      change ([bQ] ++ tail) with (bQ :: tail). rewrite (raw_string_closed raw tail Hw). reflexivity.
    + apply number_token; [exact Hw|exact Ht].
    + reflexivity.
    + reflexivity.
    + reflexivity.
Qed.

Theorem parse_doc_fprint v : fdepth v <= 300 -> wf_fjv v = true -> fj_parse (fprint v) = Ok v.
Proof.
  intros Hd Hw. unfold fj_parse. rewrite <- (app_nil_r (fprint v)).
  rewrite (skipws_fprint v [] Hw), (parse_fprint 300 v [] Hd Hw eq_refl). reflexivity.
Qed.
