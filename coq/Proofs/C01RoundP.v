(* C01, layer (d): object level.  For all tables that satisfy kinds_ok (Model/JsonRoundCheck.v), every well-formed
   element (IRI or object, Model/JsonNorm.v) of decoder depth <= g: whatever tree the encoder writes for it, it is
   not empty and load_item with fuel g reads it back as the element's normal form.  By induction on g. *)
From AP.Model Require Import Prelude Bytes Vocab Pred Url IriEq Nlv Json Text Equal Coll Dispatch Layout JsonTables JsonLeaf
     JsonEnc JsonTree JsonCheck JsonDec JsonNorm JsonRoundCheck.
From AP.Proofs Require Import NlvP TextP C01NumP C01TimeP C01StrP C01TreeP C01ParseP C01TreeWfP C01FlatP C01ItemP C01FieldP C01LeafP AsIriP.
Local Open Scope nat_scope.

(* ------------------------------------------------------------------ depth tags of the flattened write tables *)
Section FlatDepth.
  Variable jw_tables : list (bytes * bool * list wstmt).

  (* the body of flatten_wd, with the depth tag and the callee as parameters *)
  Section Body.
    Variable d : nat.
    Variable rec : bytes -> option (list (nat * wflat)).
    Fixpoint flat_body (l : list wstmt) : option (list (nat * wflat)) :=
      match l with
      | [] => Some []
      | WProp t w p v g AccOther _ :: _ => None
      | WProp t w p v g _ _ :: r =>
          match flat_body r with Some rs => Some ((d, mkwf t w p v g) :: rs) | None => None end
      | WDelegate _ [] _ _ :: r => flat_body r
      | WDelegate _ fn AccOther _ :: _ => None
      | WDelegate _ fn _ _ :: r =>
          match rec fn, flat_body r with
          | Some a, Some b => Some (a ++ b)
          | _, _ => None
          end
      | WUnrecognised _ _ :: _ => None
      end.
  End Body.

  Lemma flatten_wd_unfold n name : flatten_wd jw_tables (S n) name =
    match jw_table jw_tables name with None => None | Some (_, stmts) => flat_body n (flatten_wd jw_tables n) stmts end.
  Proof. reflexivity. Qed.

  Definition bump (de : nat * wflat) : nat * wflat := (S (fst de), snd de).

  Lemma flat_body_S d rec rec' : (forall fn l, rec fn = Some l -> rec' fn = Some (map bump l)) ->
    forall stmts l, flat_body d rec stmts = Some l -> flat_body (S d) rec' stmts = Some (map bump l).
  Proof.
    intros Hrec. induction stmts as [|s r IH]; intros l H.
    - inversion H. reflexivity.
    - destruct s as [t w p v g acc pos|on fn acc pos|src pos]; [| |discriminate H].
      + cbn [flat_body] in H |- *. destruct acc; try discriminate H;
          (destruct (flat_body d rec r) as [rs|] eqn:Er; [|discriminate H]); inversion H; subst l;
          rewrite (IH rs eq_refl); reflexivity.
      + cbn [flat_body] in H |- *. destruct fn as [|c fn']; [exact (IH l H)|].
        destruct acc; try discriminate H;
          (destruct (rec (c :: fn')) as [a|] eqn:Ea; [|discriminate H]);
          (destruct (flat_body d rec r) as [b|] eqn:Er; [|discriminate H]); inversion H; subst l;
          rewrite (Hrec _ _ Ea), (IH b eq_refl), map_app; reflexivity.
  Qed.

  Lemma flatten_wd_S : forall n name l, flatten_wd jw_tables n name = Some l ->
    flatten_wd jw_tables (S n) name = Some (map bump l).
  Proof.
    induction n as [|n IH]; intros name l H; [discriminate|].
    rewrite flatten_wd_unfold in H. rewrite flatten_wd_unfold.
    destruct (jw_table jw_tables name) as [[init stmts]|]; [|discriminate].
    exact (flat_body_S n (flatten_wd jw_tables n) (flatten_wd jw_tables (S n)) (fun fn l0 => IH fn l0) stmts l H).
  Qed.
End FlatDepth.

Lemma fdepth_fields_bound (fs : list (fid * fval)) n : (forall f v, In (f, v) fs -> fdepth_v v <= n) ->
  (fix go (l : list (fid * fval)) : nat := match l with [] => O | (_, v) :: r => Nat.max (fdepth_v v) (go r) end) fs <= n.
Proof.
  induction fs as [|[f0 v0] r IH]; intro H; [lia|]. pose proof (H f0 v0 (or_introl eq_refl)).
  assert ((fix go (l : list (fid * fval)) : nat := match l with [] => O | (_, v) :: r => Nat.max (fdepth_v v) (go r) end) r <= n)
    by (apply IH; intros f v Hin; apply (H f v); right; exact Hin). lia.
Qed.

Section Round.
  Variable jw_tables : list (bytes * bool * list wstmt).
  Variable jr_tables : list (bytes * list rstmt).
  Variable layout_of : kind -> list fdecl.
  Variable registry load_switch : bytes -> option kind.
  Variable activity_types actor_types link_types : list bytes.

  Hypothesis Htables : kinds_ok jw_tables jr_tables layout_of = true.

  Notation tr := (tree_item jw_tables).
  Notation wf := (wf_item layout_of registry load_switch activity_types actor_types link_types).
  Notation wfv := (wf_fval layout_of registry load_switch activity_types actor_types link_types).
  Notation nrm := (norm_item layout_of).
  Notation nrmv := (norm_fval layout_of).
  Notation ld := (load_item jr_tables layout_of registry load_switch activity_types actor_types link_types).

  Lemma kind_ok_of k : kind_ok jw_tables jr_tables layout_of k = true.
  Proof.
    unfold kinds_ok in Htables. rewrite forallb_forall in Htables. apply Htables. destruct k; simpl; tauto.
  Qed.

  (* the plumbing lemmas of Proofs/C01LeafP.v at the tables of this section *)
  Notation wf_fields := (C01LeafP.wf_fields layout_of registry load_switch activity_types actor_types link_types).
  Notation norm_obj := (C01LeafP.norm_obj layout_of).
  Notation step_spec := (C01LeafP.step_spec jr_tables layout_of).
  Notation fold_reads := (C01LeafP.fold_reads jr_tables layout_of).
  Notation outs_forall2 := (C01LeafP.outs_forall2 jw_tables).
  Notation outs_nth := (C01LeafP.outs_nth jw_tables).
  Notation outs_nth_os := (C01LeafP.outs_nth_os jw_tables).

  Section Obj.
    Variable g : nat.
    Hypothesis HEo : forall f p k fs o, wf (IObj p k fs) = true -> ddepth (IObj p k fs) <= g ->
      tr f (IObj p k fs) = Some o -> exists kvs, o = Some (FObj kvs).
    Hypothesis HLo : forall f p k fs kvs, wf (IObj p k fs) = true -> ddepth (IObj p k fs) <= g ->
      tr f (IObj p k fs) = Some (Some (FObj kvs)) -> ld g (FObj kvs) = Some (nrm (IObj p k fs)).
    Hypothesis HLs : forall raw s, 1 <= g -> as_iri (Text.FStr raw) = Some (Some s) -> ld g (Text.FStr raw) = Some (IIri false s).
    Hypothesis HKo : forall f p k fs kvs, wf (IObj p k fs) = true -> ddepth (IObj p k fs) <= g ->
      tr f (IObj p k fs) = Some (Some (FObj kvs)) -> tree_ok (2 * ddepth (IObj p k fs) + 1) (FObj kvs).
    Hypothesis HDo : forall f p k fs kvs, wf (IObj p k fs) = true -> ddepth (IObj p k fs) <= g ->
      tr f (IObj p k fs) = Some (Some (FObj kvs)) -> ddepth (IObj p k fs) <= S (fdepth (FObj kvs)).

    Lemma obj_round fe p k fs o : wf (IObj p k fs) = true -> ddepth (IObj p k fs) <= S g ->
      tr (S fe) (IObj p k fs) = Some o ->
      exists ms, o = Some (FObj ms) /\
        tree_ok (2 * ddepth (IObj p k fs) + 1) (FObj ms) /\ ddepth (IObj p k fs) <= S (fdepth (FObj ms)) /\
        load_item_level jr_tables layout_of registry load_switch activity_types actor_types link_types (ld g) (FObj ms)
        = Some (nrm (IObj p k fs)).
    Proof.
      intros Hw Hd Ht.
      (* the well-formedness facts *)
      pose proof Hw as Hw0. cbn [wf_item] in Hw0. rewrite !andb_true_iff in Hw0.
      destruct Hw0 as [[[[Hne Hnd] Hsel] Hnotempty] Hfields].
      pose proof (wf_fields k fs Hfields) as Hfv.
      set (M := (fix go (l : list (fid * fval)) : nat := match l with [] => O | (_, v) :: r => Nat.max (fdepth_v v) (go r) end) fs).
      assert (HdM : ddepth (IObj p k fs) = S M) by reflexivity.
      assert (Hdep : forall f v, In (f, v) fs -> fdepth_v v <= M) by (intros f v Hin; exact (fdepth_fields fs f v Hin)).
      assert (HMg : M <= g) by lia.
      (* the table facts *)
      pose proof (kind_ok_of k) as Hk. unfold kind_ok in Hk.
      destruct (entries_of jw_tables k) as [es|] eqn:Ees; [|discriminate].
      destruct (reads_of jr_tables k) as [rs|] eqn:Ers; [|discriminate].
      rewrite !andb_true_iff in Hk. destruct Hk as [[[[[[[[[Kread Kndr] Kall] Kkeys] Kplain] Kforeign] Kndl] Ktype] Kacc] Kdepth].
      (* the tree *)
      cbn [tree_item] in Ht. unfold t_struct in Ht.
      destruct (t_run_table jw_tables 6 (tr fe) (marshal_table k) fs) as [[ms ne]|] eqn:Er; [|discriminate].
      unfold entries_of in Ees. rewrite flatten_wd_w in Ees.
      destruct (flatten_wd jw_tables 6 (marshal_table k)) as [esd|] eqn:Eesd; [|discriminate].
      cbn [option_map] in Ees. inversion Ees as [Ees']. clear Ees.
      destruct (run_flat jw_tables (tr fe) fs 6 (marshal_table k) ms ne esd Er Eesd) as [os [Houts Hms]].
      pose proof (outs_forall2 (tr fe) fs esd os Houts) as Hown. rewrite Ees' in Hown.
      pose proof (nodup_bytes_NoDup _ Kkeys) as Hndk.
      assert (Hplain : forallb (fun kv => key_plain (fst kv)) ms = true).
      { rewrite forallb_forall. intros kv Hin. rewrite Hms in Hin. apply in_concat in Hin. destruct Hin as [o' [Ho' Hkv]].
        destruct (forall2_in_r _ _ _ _ Hown Ho') as [e' [He' Hk']]. apply (keys_plain e'); [|exact (Hk' kv Hkv)].
        rewrite forallb_forall in Kplain. exact (Kplain e' He'). }
      (* every write entry, with the read entry of its field *)
      assert (Hent : forall i de oe, nth_error esd i = Some de -> nth_error os i = Some oe ->
                entry_out jw_tables (tr fe) (fst de) fs (snd de) = Some oe ->
                forall r, In r rs -> entry_for (rf_fid r) (snd de) = true ->
                step_spec (ld g) fs (FObj ms) r /\ (forall v, getf (rf_fid r) fs = Some v -> ms <> [])
                /\ (forall kv, In kv oe -> tree_ok (2 * M + 2) (snd kv))
                /\ (forall v, getf (rf_fid r) fs = Some v -> exists kv, In kv oe /\ fdepth_v v <= S (fdepth (snd kv)))).
      { intros i de oe Hde Hoe Hout r Hr Hfor. rewrite forallb_forall in Kread. specialize (Kread r Hr). unfold read_ok in Kread.
        destruct (decl_for layout_of k (rf_fid r)) as [d|] eqn:Ed; [|discriminate].
        rewrite !andb_true_iff in Kread. destruct Kread as [[[Kterm Ksrc] Kleaf] Kpair].
        destruct (filter (entry_for (rf_fid r)) es) as [|e [|e2 er]] eqn:Ef; try discriminate.
        assert (Hleaf : leaf_cond jw_tables jr_tables (fd_type d) r) by (unfold leaf_cond; destruct (fd_type d); try exact I; exact Kleaf).
        assert (Hi : nth_error es i = Some (snd de)) by (rewrite <- Ees'; apply map_nth_error; exact Hde).
        assert (He : snd de = e).
        { assert (Hin : In (snd de) (filter (entry_for (rf_fid r)) es))
            by (apply filter_In; split; [eapply nth_error_In; exact Hi|exact Hfor]).
          rewrite Ef in Hin. destruct Hin as [<-|[]]. reflexivity. }
        rewrite He in *.
        assert (Hlook : forall k0, In k0 (keys_of e) -> find_key (fun k1 => k1) ms k0 = find_key (fun k1 => k1) oe k0).
        { intros k0 Hk0. rewrite Hms. apply (find_key_concat wflat keys_of es os e oe k0 Hndk Hown); [|exact Hk0].
          exists i. split; [exact Hi|exact Hoe]. }
        destruct (getf (rf_fid r) fs) as [v|] eqn:Eg.
        - destruct (Hfv _ _ (getf_in _ _ _ Eg)) as [d' [Hd' Hwv]].
          assert (d' = d) by (unfold decl_of in Hd'; unfold decl_for in Ed; congruence). subst d'.
          pose proof (Hdep _ _ (getf_in _ _ _ Eg)) as HvM.
          destruct (field_set jw_tables jr_tables layout_of registry load_switch activity_types actor_types link_types (ld g) g fe
                      HEo HLo HLs HKo HDo (fst de) fs ms Hplain 1 (fd_type d) (rf_fid r) e r oe v Kpair Hleaf Hout Hlook Eg Hwv
                      ltac:(lia)) as [Hoe_ne [Hmem [x [Hgv [Hx Hz]]]]].
          split; [|split; [|split]].
          + unfold C01LeafP.step_spec, step_spec_g. rewrite Eg. exists (Some x). split; [exact Hgv|]. exists x. repeat split; assumption.
          + intros v0 _ Hc. apply Hoe_ne. rewrite Hms in Hc.
            apply (concat_nil_in os oe Hc). eapply nth_error_In. exact Hoe.
          + intros kv Hkv. apply (tree_ok_mono (2 * fdepth_v v + 2)); [exact (proj1 (Hmem kv Hkv))|lia].
          + intros v0 Hv0. inversion Hv0; subst v0. destruct oe as [|kv oe']; [congruence|]. exists kv.
            split; [left; reflexivity|exact (proj2 (Hmem kv (or_introl eq_refl)))].
        - destruct (field_unset jw_tables jr_tables (ld g) fe (fst de) fs ms Hplain 1 (fd_type d) (rf_fid r) e r oe Kpair Ksrc Hout Hlook Eg)
            as [Hmem [ox [Hgv Hz]]].
          split; [|split; [intros v Hv; discriminate|split; [|intros v Hv; discriminate]]].
          + unfold C01LeafP.step_spec, step_spec_g. rewrite Eg. exists ox. split; assumption.
          + intros kv Hkv. apply (tree_ok_mono 2); [exact (Hmem kv Hkv)|lia]. }
      (* every read entry meets its specification *)
      assert (Hspec : forall r, In r rs -> step_spec (ld g) fs (FObj ms) r /\
                                          (forall v, getf (rf_fid r) fs = Some v -> ms <> [])).
      { intros r Hr. pose proof Kread as Kread'. rewrite forallb_forall in Kread'. specialize (Kread' r Hr). unfold read_ok in Kread'.
        destruct (decl_for layout_of k (rf_fid r)) as [d|] eqn:Ed; [|discriminate].
        rewrite !andb_true_iff in Kread'. destruct Kread' as [_ Kpair].
        destruct (filter (entry_for (rf_fid r)) es) as [|e [|e2 er]] eqn:Ef; try discriminate.
        destruct (filter_single _ _ _ Ef) as [Hein Hfor].
        destruct (In_nth_error es e Hein) as [i Hi].
        rewrite <- Ees' in Hi. destruct (nth_error_map_inv snd esd i e Hi) as [de [Hde Hsnd]].
        destruct (outs_nth (tr fe) fs esd os Houts i de Hde) as [oe [Hoe Hout]].
        rewrite <- Hsnd in Hfor.
        destruct (Hent i de oe Hde Hoe Hout r Hr Hfor) as [H1 [H2 _]]. split; assumption. }
      (* a set field is at most one level deeper than some member *)
      assert (Hdeep : forall f v, In (f, v) fs -> fdepth_v v <= fdepth (FObj ms)).
      { intros f v Hin.
        assert (Eg : getf f fs = Some v).
        { clear - Hin Hnd. induction fs as [|[f1 v1] r1 IH]; [destruct Hin|]. cbn [nodup_fids] in Hnd. apply andb_true_iff in Hnd.
          destruct Hnd as [Hn Hr]. cbn [getf]. destruct Hin as [E|Hin].
          - inversion E; subst. rewrite fid_beq_refl. reflexivity.
          - destruct (fid_beq f f1) eqn:Ef; [|exact (IH Hr Hin)]. apply fid_beq_eq in Ef. subst f1. exfalso.
            apply negb_true_iff in Hn. assert (existsb (fun p => fid_beq (fst p) f) r1 = true); [|congruence].
            apply existsb_exists. exists (f, v). split; [exact Hin|apply fid_beq_refl]. }
        destruct (Hfv f v Hin) as [d0 [Hd0 _]].
        unfold decl_of in Hd0. apply find_some in Hd0. destruct Hd0 as [Hd0in Hd0f]. apply fid_beq_eq in Hd0f.
        rewrite forallb_forall in Kall. specialize (Kall d0 Hd0in). apply existsb_exists in Kall. destruct Kall as [r0 [Hr0 Hr0f]].
        apply fid_beq_eq in Hr0f.
        pose proof Kread as Kread'. rewrite forallb_forall in Kread'. specialize (Kread' r0 Hr0). unfold read_ok in Kread'.
        destruct (decl_for layout_of k (rf_fid r0)) as [d1|] eqn:Ed; [|discriminate].
        rewrite !andb_true_iff in Kread'. destruct Kread' as [_ Kpair].
        destruct (filter (entry_for (rf_fid r0)) es) as [|e [|e2 er]] eqn:Ef; try discriminate.
        destruct (filter_single _ _ _ Ef) as [Hein Hfor].
        destruct (In_nth_error es e Hein) as [i Hi].
        rewrite <- Ees' in Hi. destruct (nth_error_map_inv snd esd i e Hi) as [de [Hde Hsnd]].
        destruct (outs_nth (tr fe) fs esd os Houts i de Hde) as [oe [Hoe Hout]].
        rewrite <- Hsnd in Hfor.
        destruct (Hent i de oe Hde Hoe Hout r0 Hr0 Hfor) as [_ [_ [_ H4]]].
        rewrite Hr0f, Hd0f in H4. destruct (H4 v Eg) as [kv [Hkv Hle]].
        assert (Hkvms : In kv ms) by (rewrite Hms; apply in_concat; exists oe; split; [eapply nth_error_In; exact Hoe|exact Hkv]).
        pose proof (fdepth_FObj_in ms kv Hkvms). lia. }
      (* every member is inside the decoder model and shallow *)
      assert (Hmembers : forall kv, In kv ms -> tree_ok (2 * M + 2) (snd kv)).
      { intros kv Hin. rewrite Hms in Hin. apply in_concat in Hin. destruct Hin as [oe [Hoe Hkv]].
        destruct (In_nth_error os oe Hoe) as [i Hi].
        destruct (outs_nth_os (tr fe) fs esd os Houts i oe Hi) as [de [Hde Hout]].
        assert (Hine : In (snd de) es) by (rewrite <- Ees'; apply in_map; eapply nth_error_In; exact Hde).
        rewrite forallb_forall in Kforeign. specialize (Kforeign _ Hine). apply existsb_exists in Kforeign.
        destruct Kforeign as [r [Hr Hfor]].
        destruct (Hent i de oe Hde Hi Hout r Hr Hfor) as [_ [_ [H3 _]]]. exact (H3 kv Hkv). }
      (* at least one member was written, so the object is not empty *)
      assert (Hms_ne : ms <> []).
      { destruct fs as [|[f0 v0] fs']; [discriminate|].
        destruct (Hfv f0 v0 (or_introl eq_refl)) as [d0 [Hd0 _]].
        unfold decl_of in Hd0. apply find_some in Hd0. destruct Hd0 as [Hd0in Hd0f]. apply fid_beq_eq in Hd0f.
        rewrite forallb_forall in Kall. specialize (Kall d0 Hd0in). apply existsb_exists in Kall. destruct Kall as [r0 [Hr0 Hr0f]].
        apply fid_beq_eq in Hr0f. destruct (Hspec r0 Hr0) as [_ Hne0]. apply (Hne0 v0).
        rewrite Hr0f, Hd0f. cbn [getf]. rewrite fid_beq_refl. reflexivity. }
      pose proof (run_ne jw_tables (tr fe) fs 6 (marshal_table k) ms ne Kacc Er Hms_ne) as Hne_true. subst ne.
      inversion Ht; subst o. exists ms. split; [reflexivity|].
      split.
      { (* the document written *)
        split.
        - cbn [keys_clean]. apply andb_true_iff. split.
          + apply negb_true_iff. unfold keys_ambiguous. apply not_true_is_false. intros E.
            apply existsb_exists in E. destruct E as [kv [Hin E]]. apply andb_true_iff in E. destruct E as [Hb _].
            rewrite forallb_forall in Hplain. rewrite (plain_no_bs _ (Hplain kv Hin)) in Hb. discriminate.
          + apply forallb_forall. intros kv Hin. exact (proj1 (Hmembers kv Hin)).
        - rewrite HdM. replace (2 * S M + 1) with (S (2 * M + 2)) by lia. apply fdepth_FObj_le.
          intros kv Hin. exact (proj2 (Hmembers kv Hin)). }
      split.
      { rewrite HdM. apply le_n_S. unfold M. apply fdepth_fields_bound. exact Hdeep. }
      (* the fold over the read entries *)
      destruct (fold_reads (ld g) fs (FObj ms) rs [] (nodup_fid_NoDup _ Kndr) (fun r Hr => proj1 (Hspec r Hr)) (fun r _ => eq_refl))
        as [acc' [Hfold Hget]].
      assert (Hload : run_table jr_tables (ld g) 6 (JsonCheck.load_table k) (FObj ms) [] = Some acc').
      { rewrite (load_flat jr_tables (ld g) (FObj ms) 6 (JsonCheck.load_table k) [] rs Ers). exact Hfold. }
      assert (Hcanon : canon_fields layout_of k acc' = canon_fields layout_of k (norm_fields layout_of fs)).
      { apply canon_ext. intros d0 Hd0. rewrite Hget. unfold norm_fields. rewrite getf_map.
        rewrite forallb_forall in Kall. specialize (Kall d0 Hd0). apply existsb_exists in Kall. destruct Kall as [r0 [Hr0 Hr0f]].
        apply fid_beq_eq in Hr0f.
        assert (existsb (fun r1 => fid_beq (fd_fid d0) (rf_fid r1)) rs = true) as ->
          by (apply existsb_exists; exists r0; split; [exact Hr0|rewrite Hr0f; apply fid_beq_refl]).
        reflexivity. }
      (* the type name *)
      assert (Htyp : jstr (jget (FObj ms) (B "type")) = get_str F_Type fs).
      { unfold type_read_ok in Ktype. destruct (decl_for layout_of k F_Type) as [dT|] eqn:EdT; [|discriminate].
        rewrite !andb_true_iff in Ktype. destruct Ktype as [[KtT KtTerm] KtG]. apply bytes_eqb_eq in KtTerm.
        pose proof EdT as EdT'. unfold decl_for in EdT'. apply find_some in EdT'. destruct EdT' as [HdTin HdTf]. apply fid_beq_eq in HdTf.
        rewrite forallb_forall in Kall. pose proof (Kall dT HdTin) as KT. apply existsb_exists in KT. destruct KT as [rT [HrT HrTf]].
        apply fid_beq_eq in HrTf. rewrite HdTf in HrTf.
        rewrite forallb_forall in KtG. specialize (KtG rT HrT). rewrite HrTf, fid_beq_refl in KtG. cbn [negb orb] in KtG.
        rewrite forallb_forall in Kread. pose proof (Kread rT HrT) as KrT. unfold read_ok in KrT. rewrite HrTf, EdT in KrT.
        rewrite !andb_true_iff in KrT. destruct KrT as [[[KrTt _] _] _]. apply bytes_eqb_eq in KrTt. rewrite KtTerm in KrTt.
        destruct (Hspec rT HrT) as [[ox [Hgv Hsp]] _]. rewrite KrTt, HrTf in *.
        rewrite (gv_str jr_tables (ld g) 2 (FObj ms) (rf_getter rT) (B "type") (rf_conv rT) (existsb_in _ _ KtG)) in Hgv.
        change (sub_get (FObj ms) (B "type")) with (jget (FObj ms) (B "type")) in Hgv.
        unfold get_str. destruct (getf F_Type fs) as [v|] eqn:Eg.
        - destruct (Hfv _ _ (getf_in _ _ _ Eg)) as [d' [Hd' Hwv]].
          assert (d' = dT) by (unfold decl_of in Hd'; unfold decl_for in EdT; congruence). subst d'.
          destruct (fd_type dT); try discriminate. destruct v as [ | | |s| | | | | | | | | ]; try discriminate.
          destruct Hsp as [x [-> [Hx _]]].
          destruct (jstr (jget (FObj ms) (B "type"))) as [|c s'] eqn:Ej; [discriminate Hgv|]. injection Hgv as Hgv1.
          rewrite <- Hgv1 in Hx. unfold link_guard in Hx.
          destruct (bytes_eqb (rf_guard rT) (B "x != nil;GetLink")); inversion Hx; reflexivity.
        - destruct (jstr (jget (FObj ms) (B "type"))) as [|c s'] eqn:Ej; [reflexivity|]. injection Hgv as Hgv1.
          rewrite <- Hgv1 in Hsp. unfold link_guard in Hsp. destruct (bytes_eqb (rf_guard rT) (B "x != nil;GetLink")); discriminate. }
      (* JSONLoadItem *)
      unfold load_item_level. rewrite Htyp.
      unfold type_selects in Hsel.
      destruct (registry (get_str F_Type fs)) as [a|]; [|discriminate].
      destruct (load_switch (get_str F_Type fs)) as [b|]; [|discriminate].
      apply andb_true_iff in Hsel. destruct Hsel as [Ha Hb].
      apply internal_kind_dec_bl in Ha. apply internal_kind_dec_bl in Hb. subst a b.
      assert (Hkk : kind_beq k k = true) by (apply internal_kind_dec_lb; reflexivity).
      assert (Hne' : not_empty activity_types actor_types link_types (IObj true k (canon_fields layout_of k acc')) = true).
      { rewrite Hcanon, <- (norm_obj p k fs). exact Hnotempty. }
      unfold as_string_iri.
      destruct (get_str F_Type fs); rewrite Hkk, Hload; cbv zeta; rewrite Hne', Hcanon, (norm_obj p k fs); reflexivity.
    Qed.
  End Obj.

  (* ---------------------------------------------------------------- strings at item level *)
  Lemma load_str li raw s : as_iri (Text.FStr raw) = Some (Some s) ->
    load_item_level jr_tables layout_of registry load_switch activity_types actor_types link_types li (Text.FStr raw)
    = Some (IIri false s).
  Proof. intros H. unfold load_item_level, as_string_iri. cbn [jget fj_get jstr]. rewrite H. reflexivity. Qed.

  Lemma load_item_S f v : ld (S f) v =
    load_item_level jr_tables layout_of registry load_switch activity_types actor_types link_types (ld f) v.
  Proof. reflexivity. Qed.

  (* ---------------------------------------------------------------- elements, by induction on the decoder fuel *)
  Theorem elem_round : forall g y, is_elem y = true -> wf y = true -> ddepth y <= g ->
    forall f o, tr f y = Some o ->
    exists tv, o = Some tv /\ (match y with IObj _ _ _ => exists kvs, tv = FObj kvs | _ => True end)
               /\ tree_ok (2 * ddepth y + 1) tv /\ ddepth y <= S (fdepth tv) /\ ld g tv = Some (nrm y).
  Proof.
    induction g as [|g IH]; intros y He Hw Hd f o Ht.
    - pose proof (ddepth_ge1 y He). lia.
    - assert (HLs : forall raw s, 1 <= g -> as_iri (Text.FStr raw) = Some (Some s) -> ld g (Text.FStr raw) = Some (IIri false s)).
      { intros raw s0 Hg Hu. destruct g as [|g']; [lia|]. rewrite load_item_S. exact (load_str _ raw s0 Hu). }
      assert (HEo : forall f p k fs o, wf (IObj p k fs) = true -> ddepth (IObj p k fs) <= g ->
                tr f (IObj p k fs) = Some o -> exists kvs, o = Some (FObj kvs)).
      { intros f0 p k fs o0 Hw0 Hd0 Ht0. destruct (IH (IObj p k fs) eq_refl Hw0 Hd0 f0 o0 Ht0) as [tv [-> [[kvs ->] _]]].
        exists kvs. reflexivity. }
      assert (HLo : forall f p k fs kvs, wf (IObj p k fs) = true -> ddepth (IObj p k fs) <= g ->
                tr f (IObj p k fs) = Some (Some (FObj kvs)) -> ld g (FObj kvs) = Some (nrm (IObj p k fs))).
      { intros f0 p k fs kvs Hw0 Hd0 Ht0. destruct (IH (IObj p k fs) eq_refl Hw0 Hd0 f0 _ Ht0) as [tv [E [_ [_ [_ Hl]]]]].
        inversion E; subst. exact Hl. }
      assert (HKo : forall f p k fs kvs, wf (IObj p k fs) = true -> ddepth (IObj p k fs) <= g ->
                tr f (IObj p k fs) = Some (Some (FObj kvs)) -> tree_ok (2 * ddepth (IObj p k fs) + 1) (FObj kvs)).
      { intros f0 p k fs kvs Hw0 Hd0 Ht0. destruct (IH (IObj p k fs) eq_refl Hw0 Hd0 f0 _ Ht0) as [tv [E [_ [Hk _]]]].
        inversion E; subst. exact Hk. }
      assert (HDo : forall f p k fs kvs, wf (IObj p k fs) = true -> ddepth (IObj p k fs) <= g ->
                tr f (IObj p k fs) = Some (Some (FObj kvs)) -> ddepth (IObj p k fs) <= S (fdepth (FObj kvs))).
      { intros f0 p k fs kvs Hw0 Hd0 Ht0. destruct (IH (IObj p k fs) eq_refl Hw0 Hd0 f0 _ Ht0) as [tv [E [_ [_ [Hk _]]]]].
        inversion E; subst. exact Hk. }
      destruct y as [|k|p s|p k fs|p l|p l]; try discriminate.
      + cbn [wf_item] in Hw. rewrite (tree_iri jw_tables f p s o Hw Ht). eexists. split; [reflexivity|]. split; [exact I|].
        split; [split; [reflexivity|cbn [fdepth ddepth]; lia]|]. split; [cbn [ddepth]; lia|].
        destruct (iri_ok_facts s Hw) as [Hu _].
        rewrite load_item_S. exact (load_str _ (escape_quote s) s Hu).
      + destruct f as [|fe]; [discriminate|].
        destruct (obj_round g HEo HLo HLs HKo HDo fe p k fs o Hw Hd Ht) as [ms [-> [Hk [Hdp Hl]]]].
        exists (FObj ms). split; [reflexivity|]. split; [exists ms; reflexivity|]. split; [exact Hk|]. split; [exact Hdp|].
        rewrite load_item_S. exact Hl.
  Qed.

  (* ---------------------------------------------------------------- the encoder model is defined on well-formed values *)
  Lemma items_go_defined f l : forall acc, (forall x, In x l -> exists o, tr f x = Some o) ->
    exists o,
    (fix go (l : list item) (acc : list fjv) : option (option fjv) :=
       match l with
       | [] => Some (Some (FArr (rev acc)))
       | x :: r => match tr f x with
                   | Some None => go r acc
                   | Some (Some t) => go r (t :: acc)
                   | None => None
                   end
       end) l acc = Some o.
  Proof.
    induction l as [|x r IH]; intros acc H; [eexists; reflexivity|].
    destruct (H x (or_introl eq_refl)) as [o Ho]. cbv beta iota fix. rewrite Ho.
    destruct o; apply IH; intros y Hy; apply H; right; exact Hy.
  Qed.

  Lemma size_field (fs : list (fid * fval)) f v p k : In (f, v) fs -> fval_size v < item_size (IObj p k fs).
  Proof. intros H. cbn [item_size]. pose proof (size_in_fields_le fs f v H). lia. Qed.

  Theorem enc_defined : forall f x, wf x = true -> item_size x < f -> exists o, tr f x = Some o.
  Proof.
    induction f as [|f IH]; intros x Hw Hs; [lia|].
    destruct x as [|k|p s|p k fs|p [l|]|p l]; try discriminate.
    - cbn [tree_item]. destruct (is_nil (IIri p s)); eexists; reflexivity.
    - (* object *)
      cbn [tree_item]. unfold t_struct.
      pose proof Hw as Hw0. cbn [wf_item] in Hw0. rewrite !andb_true_iff in Hw0.
      destruct Hw0 as [[[[Hne Hnd] Hsel] Hnotempty] Hfields].
      pose proof (wf_fields k fs Hfields) as Hfv.
      pose proof (kind_ok_of k) as Hk. unfold kind_ok in Hk.
      destruct (entries_of jw_tables k) as [es|] eqn:Ees; [|discriminate].
      destruct (reads_of jr_tables k) as [rs|] eqn:Ers; [|discriminate].
      rewrite !andb_true_iff in Hk. destruct Hk as [[[[[[[[[Kread Kndr] Kall] Kkeys] Kplain] Kforeign] Kndl] Ktype] Kacc] Kdepth].
      unfold entries_of in Ees. rewrite flatten_wd_w in Ees.
      destruct (flatten_wd jw_tables 6 (marshal_table k)) as [esd|] eqn:Eesd; [|discriminate].
      cbn [option_map] in Ees. inversion Ees as [Ees']. clear Ees.
      (* every entry sits at a depth from which the table of a leaf struct can still be run *)
      assert (Hdepth : forall de, In de esd -> exists d', fst de = S d').
      { rewrite flatten_wd_w in Kdepth. destruct (flatten_wd jw_tables 5 (marshal_table k)) as [l5|] eqn:E5; [|discriminate].
        rewrite (flatten_wd_S jw_tables 5 _ l5 E5) in Eesd. inversion Eesd; subst esd.
        intros de Hde. apply in_map_iff in Hde. destruct Hde as [de0 [<- _]]. eexists; reflexivity. }
      assert (HD : forall y, wf y = true -> item_size y <= f - 1 -> exists o, tr f y = Some o).
      { intros y Hy Hsz. apply IH; [exact Hy|]. cbn [item_size] in Hs. lia. }
      destruct (run_defined jw_tables (tr f) fs 6 (marshal_table k) esd Eesd) as [ms [ne Hr]].
      { intros de Hde.
        assert (Hine : In (snd de) es) by (rewrite <- Ees'; apply in_map; exact Hde).
        rewrite forallb_forall in Kforeign. specialize (Kforeign _ Hine). apply existsb_exists in Kforeign.
        destruct Kforeign as [r [Hr Hfor]].
        rewrite forallb_forall in Kread. specialize (Kread r Hr). unfold read_ok in Kread.
        destruct (decl_for layout_of k (rf_fid r)) as [d|] eqn:Ed; [|discriminate].
        rewrite !andb_true_iff in Kread. destruct Kread as [[[Kterm Ksrc] Kleaf] Kpair].
        destruct (filter (entry_for (rf_fid r)) es) as [|e [|e2 er]] eqn:Ef; try discriminate.
        assert (Hleaf : leaf_cond jw_tables jr_tables (fd_type d) r) by (unfold leaf_cond; destruct (fd_type d); try exact I; exact Kleaf).
        assert (He : snd de = e).
        { assert (Hin : In (snd de) (filter (entry_for (rf_fid r)) es)) by (apply filter_In; split; assumption).
          rewrite Ef in Hin. destruct Hin as [<-|[]]. reflexivity. }
        rewrite He. destruct (Hdepth de Hde) as [d' ->].
        assert (Hval : forall v, getf (rf_fid r) fs = Some v ->
                  wfv (fd_type d) v = true /\ fval_size v <= f - 1).
        { intros v Hv. destruct (Hfv _ _ (getf_in _ _ _ Hv)) as [d0 [Hd0 Hwv]].
          assert (d0 = d) by (unfold decl_of in Hd0; unfold decl_for in Ed; congruence). subst d0.
          split; [exact Hwv|]. pose proof (size_field fs _ v p k (getf_in _ _ _ Hv)). lia. }
        apply (entry_defined jw_tables layout_of registry load_switch activity_types actor_types link_types f (S d') fs (f - 1) HD
                 (fd_type d) (rf_fid r) e r Kpair Hval).
        intros v Hv Hwv. destruct (Hval v Hv) as [_ Hsz].
        exact (struct_defined_wf jw_tables jr_tables layout_of registry load_switch activity_types actor_types link_types f (f - 1) HD
                 (fd_type d) r v d' Hleaf Hwv Hsz). }
      rewrite Hr. eexists; reflexivity.
    - (* list *)
      destruct l as [|x [|y r]]; [discriminate| |].
      + cbn [tree_item]. cbn [wf_item] in Hw. rewrite !andb_true_iff in Hw. destruct Hw as [[[_ Hwx] _] _].
        apply IH; [exact Hwx|]. cbn [item_size] in Hs. lia.
      + cbn [tree_item]. refine (items_go_defined f (x :: y :: r) [] _). intros z Hz.
        cbn [wf_item] in Hw. apply andb_true_iff in Hw. destruct Hw as [Hel _].
        destruct (wf_list_elems layout_of registry load_switch activity_types actor_types link_types (x :: y :: r) Hel z Hz) as [_ Hwz].
        apply IH; [exact Hwz|]. pose proof (size_items_lt p (x :: y :: r) z Hz). lia.
  Qed.

  (* ---------------------------------------------------------------- documents *)
  Notation um := (unmarshal_to_item jr_tables layout_of registry load_switch activity_types actor_types link_types).

  (* JSONUnmarshalToItem with any fuel g (unmarshal_core is the instance g = json_dec_fuel) *)
  Definition core_g (g : nat) (v : fjv) : option item :=
    match v with
    | FArr l => match items_fn (ld g) l with Some acc => Some (IItems false (Some acc)) | None => None end
    | FObj _ => ld g v
    | Text.FStr _ => match as_iri v with Some (Some s) => Some (IIri false s) | Some None => Some INil | None => None end
    | _ => Some INil
    end.

  Theorem tree_round_g g x o : wf x = true -> ddepth x <= g -> tree_of jw_tables x = Some o ->
    exists v, o = Some v /\ tree_ok (2 * ddepth x + 2) v /\ ddepth x <= S (fdepth v) /\ core_g g v = Some (nrm x).
  Proof.
    intros Hw Hd Ht.
    assert (HEo : forall f p k fs o, wf (IObj p k fs) = true -> ddepth (IObj p k fs) <= g ->
              tr f (IObj p k fs) = Some o -> exists kvs, o = Some (FObj kvs)).
    { intros f0 p k fs o0 Hw0 Hd0 Ht0. destruct (elem_round g (IObj p k fs) eq_refl Hw0 Hd0 f0 o0 Ht0) as [tv [-> [[kvs ->] _]]].
      exists kvs. reflexivity. }
    assert (HLo : forall f p k fs kvs, wf (IObj p k fs) = true -> ddepth (IObj p k fs) <= g ->
              tr f (IObj p k fs) = Some (Some (FObj kvs)) -> ld g (FObj kvs) = Some (nrm (IObj p k fs))).
    { intros f0 p k fs kvs Hw0 Hd0 Ht0. destruct (elem_round g (IObj p k fs) eq_refl Hw0 Hd0 f0 _ Ht0) as [tv [E [_ [_ [_ Hl]]]]].
      inversion E; subst. exact Hl. }
    assert (HKo : forall f p k fs kvs, wf (IObj p k fs) = true -> ddepth (IObj p k fs) <= g ->
              tr f (IObj p k fs) = Some (Some (FObj kvs)) -> tree_ok (2 * ddepth (IObj p k fs) + 1) (FObj kvs)).
    { intros f0 p k fs kvs Hw0 Hd0 Ht0. destruct (elem_round g (IObj p k fs) eq_refl Hw0 Hd0 f0 _ Ht0) as [tv [E [_ [Hk _]]]].
      inversion E; subst. exact Hk. }
    assert (HDo : forall f p k fs kvs, wf (IObj p k fs) = true -> ddepth (IObj p k fs) <= g ->
              tr f (IObj p k fs) = Some (Some (FObj kvs)) -> ddepth (IObj p k fs) <= S (fdepth (FObj kvs))).
    { intros f0 p k fs kvs Hw0 Hd0 Ht0. destruct (elem_round g (IObj p k fs) eq_refl Hw0 Hd0 f0 _ Ht0) as [tv [E [_ [_ [Hk _]]]]].
      inversion E; subst. exact Hk. }
    assert (HLs : forall raw s, 1 <= g -> as_iri (Text.FStr raw) = Some (Some s) -> ld g (Text.FStr raw) = Some (IIri false s)).
    { intros raw s0 Hg Hu. destruct g as [|g']; [lia|]. rewrite load_item_S. exact (load_str _ raw s0 Hu). }
    destruct (wf_item_tree jw_tables layout_of registry load_switch activity_types actor_types link_types (ld g) g HEo HLo HLs
                _ x o Hw Hd Ht) as [f' [tv [-> Htree]]].
    exists tv. split; [reflexivity|].
    pose proof (item_tree_ok jw_tables layout_of registry load_switch activity_types actor_types link_types (ld g) g HEo HLo HLs HKo
                  f' x tv Htree) as Hok.
    split; [exact Hok|].
    split; [exact (item_tree_deep jw_tables layout_of registry load_switch activity_types actor_types link_types (ld g) g HEo HLo HLs HDo
                     f' x tv Htree)|].
    inversion Htree as [y tv' Hoky Hy|p x0 tv' Hokx Hx|p x0 y0 l ts Hokl Hdist Hf]; subst.
    - destruct (elem_tree jw_tables layout_of registry load_switch activity_types actor_types link_types (ld g) g HEo HLo HLs
                  f' x _ Hoky Hy) as [tv2 [E [Hl [Hn Hs]]]]. inversion E; subst tv2.
      destruct x as [|k|p s|p k fs|p l|p l]; try (destruct Hoky as [C _]; discriminate).
      + subst tv. destruct Hoky as [_ [Hw' _]]. cbn [wf_item] in Hw'. cbn [core_g]. rewrite (as_iri_valid s Hw'). reflexivity.
      + destruct Hs as [kvs ->]. exact Hl.
    - destruct (elem_tree jw_tables layout_of registry load_switch activity_types actor_types link_types (ld g) g HEo HLo HLs
                  f' x0 _ Hokx Hx) as [tv2 [E [Hl [Hn Hs]]]]. inversion E; subst tv2.
      change (nrm (IItems p (Some [x0]))) with (nrm x0).
      destruct x0 as [|k|p' s|p' k fs|p' l|p' l]; try (destruct Hokx as [C _]; discriminate).
      + subst tv. destruct Hokx as [_ [Hw' _]]. cbn [wf_item] in Hw'. cbn [core_g]. rewrite (as_iri_valid s Hw'). reflexivity.
      + destruct Hs as [kvs ->]. exact Hl.
    - cbn [core_g].
      rewrite (items_fn_u_read jw_tables layout_of registry load_switch activity_types actor_types link_types (ld g) g HEo HLo HLs
                 f' (x0 :: y0 :: l) ts Hokl Hf Hdist).
      rewrite (norm_many layout_of p x0 y0 l). reflexivity.
  Qed.

  Lemma core_g_um v : keys_clean v = true -> um v = core_g json_dec_fuel v.
  Proof. intros H. unfold unmarshal_to_item. rewrite H. destruct v; reflexivity. Qed.

  (* the document written for a well-formed value: inside the decoder model, between depth x - 1 and 2 * depth x + 2
     deep; and read back as the normal form when it nests no deeper than fastjson's MaxDepth (300), whatever the depth
     of x - the fuel of the decoder model (301) is above the nesting of every such document *)
  Theorem tree_round_doc x o : wf x = true -> tree_of jw_tables x = Some o ->
    exists v, o = Some v /\ tree_ok (2 * ddepth x + 2) v /\ ddepth x <= S (fdepth v) /\ (fdepth v <= 300 -> um v = Some (nrm x)).
  Proof.
    intros Hw Ht.
    destruct (tree_round_g (ddepth x) x o Hw (le_n _) Ht) as [v [-> [Hok [Hdeep _]]]].
    exists v. split; [reflexivity|]. split; [exact Hok|]. split; [exact Hdeep|]. intros H300.
    assert (Hd : ddepth x <= json_dec_fuel) by (unfold json_dec_fuel; lia).
    destruct (tree_round_g json_dec_fuel x _ Hw Hd Ht) as [v' [E [_ [_ Hc]]]]. inversion E; subst v'.
    rewrite (core_g_um v (proj1 Hok)). exact Hc.
  Qed.

  Theorem tree_round_depth x o : wf x = true -> ddepth x <= 149 -> tree_of jw_tables x = Some o ->
    exists v, o = Some v /\ tree_ok (2 * ddepth x + 2) v /\ um v = Some (nrm x).
  Proof.
    intros Hw Hd Ht. destruct (tree_round_doc x o Hw Ht) as [v [-> [Hok [_ Hu]]]].
    exists v. split; [reflexivity|]. split; [exact Hok|]. apply Hu. destruct Hok as [_ Hdp]. lia.
  Qed.

  Theorem tree_round x o : wf x = true -> ddepth x <= 64 -> tree_of jw_tables x = Some o ->
    exists v, o = Some v /\ tree_ok (2 * ddepth x + 2) v /\ um v = Some (nrm x).
  Proof.
    intros Hw Hd Ht. destruct (tree_round_doc x o Hw Ht) as [v [-> [Hok [_ Hu]]]].
    exists v. split; [reflexivity|]. split; [exact Hok|]. apply Hu. destruct Hok as [_ Hdp]. lia.
  Qed.

  (* ---------------------------------------------------------------- bytes *)
  (* FULL STRENGTH in the depth: every well-formed value whose document nests at most 300 deep - the limit of the
     parser the code uses (fastjson MaxDepth), beyond which UnmarshalJSON fails *)
  Theorem json_roundtrip_doc x : terms_raw_ok jw_tables = true -> wf x = true ->
    (forall v, tree_of jw_tables x = Some (Some v) -> fdepth v <= 300) ->
    exists b, marshal_json jw_tables x = Some b /\ b <> [] /\
      unmarshal_json jr_tables layout_of registry load_switch activity_types actor_types link_types b = Some (Ok (nrm x)).
  Proof.
    intros Hterms Hw Hdoc.
    destruct (enc_defined (S (item_size x)) x Hw ltac:(lia)) as [o Et]. fold (tree_of jw_tables x) in Et.
    destruct (tree_round_doc x o Hw Et) as [v [-> [[Hclean Hdepth] [_ Hu]]]].
    pose proof (Hdoc v Et) as H300.
    exists (fprint v). split; [rewrite marshal_json_tree, Et; reflexivity|].
    pose proof (tree_of_wf jw_tables Hterms x v Et) as Hwfv.
    split.
    - destruct (fprint_head v Hwfv) as [c [r [E _]]]. rewrite E. discriminate.
    - unfold unmarshal_json. rewrite (parse_doc_fprint v H300 Hwfv), (Hu H300). reflexivity.
  Qed.

  (* a sufficient condition on the value alone: objects (leaf structs included) nest at most 149 deep *)
  Theorem json_roundtrip_depth x : terms_raw_ok jw_tables = true ->
    wf x = true -> ddepth x <= 149 ->
    exists b, marshal_json jw_tables x = Some b /\ b <> [] /\
      unmarshal_json jr_tables layout_of registry load_switch activity_types actor_types link_types b = Some (Ok (nrm x)).
  Proof.
    intros Hterms Hw Hd. apply (json_roundtrip_doc x Hterms Hw). intros v Ht.
    destruct (tree_round_doc x _ Hw Ht) as [v' [E [[_ Hdp] _]]]. inversion E; subst v'. lia.
  Qed.

  Theorem json_roundtrip x : terms_raw_ok jw_tables = true ->
    wf x = true -> ddepth x <= 64 ->
    exists b, marshal_json jw_tables x = Some b /\ b <> [] /\
      unmarshal_json jr_tables layout_of registry load_switch activity_types actor_types link_types b = Some (Ok (nrm x)).
  Proof. intros Hterms Hw Hd. apply (json_roundtrip_depth x Hterms Hw). lia. Qed.
End Round.
