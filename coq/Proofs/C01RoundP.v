(* C01, layer (d): object level.  For all tables that satisfy kinds_ok (Model/JsonRoundCheck.v), every well-formed
   element (IRI or object, Model/JsonNorm.v) of decoder depth <= g: whatever tree the encoder writes for it, it is
   not empty and load_item with fuel g reads it back as the element's normal form.  By induction on g. *)
From AP.Model Require Import Prelude Bytes Vocab Pred Url IriEq Nlv Json Text Equal Coll Dispatch Layout JsonTables JsonLeaf
     JsonEnc JsonTree JsonCheck JsonDec JsonNorm JsonRoundCheck.
From AP.Proofs Require Import NlvP TextP C01NumP C01TimeP C01StrP C01TreeP C01ParseP C01TreeWfP C01FlatP C01ItemP C01FieldP AsIriP.
Local Open Scope nat_scope.

(* ------------------------------------------------------------------ small list facts *)
Lemma nodup_bytes_NoDup l : nodup_bytes l = true -> NoDup l.
Proof.
  induction l as [|x r IH]; intros H; [constructor|]. cbn [nodup_bytes] in H. apply andb_true_iff in H. destruct H as [H1 H2].
  constructor; [|exact (IH H2)]. intros Hin. apply negb_true_iff in H1.
  assert (existsb (bytes_eqb x) r = true) by (apply existsb_exists; exists x; split; [exact Hin|apply bytes_eqb_refl]). congruence.
Qed.

Lemma nodup_fid_NoDup l : nodup_fid_list l = true -> NoDup l.
Proof.
  induction l as [|x r IH]; intros H; [constructor|]. cbn [nodup_fid_list] in H. apply andb_true_iff in H. destruct H as [H1 H2].
  constructor; [|exact (IH H2)]. intros Hin. apply negb_true_iff in H1.
  assert (existsb (fid_beq x) r = true) by (apply existsb_exists; exists x; split; [exact Hin|apply fid_beq_refl]). congruence.
Qed.

Lemma getf_replf f x acc f' : getf f' (replf f x acc) = if fid_beq f' f then Some x else getf f' acc.
Proof.
  induction acc as [|[g0 w] r IH].
  - cbn [replf getf]. destruct (fid_beq f' f); reflexivity.
  - cbn [replf]. destruct (fid_beq f g0) eqn:E.
    + apply fid_beq_eq in E. subst g0. cbn [getf]. destruct (fid_beq f' f); reflexivity.
    + cbn [getf]. destruct (fid_beq f' g0) eqn:E2.
      * apply fid_beq_eq in E2. subst g0. destruct (fid_beq f' f) eqn:E3; [|reflexivity].
        apply fid_beq_eq in E3. subst f'. rewrite fid_beq_refl in E. discriminate.
      * exact IH.
Qed.

Lemma getf_map (h : fval -> fval) f fs : getf f (map (fun p => (fst p, h (snd p))) fs) = option_map h (getf f fs).
Proof.
  induction fs as [|[g0 w] r IH]; [reflexivity|]. cbn [map getf fst snd]. destruct (fid_beq f g0); [reflexivity|exact IH].
Qed.

Lemma getf_in f v fs : getf f fs = Some v -> In (f, v) fs.
Proof.
  induction fs as [|[g0 w] r IH]; [discriminate|]. cbn [getf]. destruct (fid_beq f g0) eqn:E.
  - apply fid_beq_eq in E. subst g0. intros H. inversion H. left. reflexivity.
  - intros H. right. exact (IH H).
Qed.

Lemma canon_ext layout_of k a b : (forall d, In d (layout_of k) -> getf (fd_fid d) a = getf (fd_fid d) b) ->
  canon_fields layout_of k a = canon_fields layout_of k b.
Proof.
  unfold canon_fields. induction (layout_of k) as [|d r IH]; intros H; [reflexivity|]. cbn [flat_map].
  rewrite (H d (or_introl eq_refl)), IH; [reflexivity|]. intros d' Hd'. apply H. right. exact Hd'.
Qed.

Lemma size_in_fields_le (fs : list (fid * fval)) f v : In (f, v) fs ->
  fval_size v <= (fix go (fs : list (fid * fval)) : nat := match fs with [] => 0 | (_, v) :: r => fval_size v + go r end) fs.
Proof. induction fs as [|[f0 v0] r IH]; intros H; [destruct H|]. destruct H as [E|H]; [inversion E; subst; lia|]. specialize (IH H). lia. Qed.

Lemma size_items_lt p (l : list item) z : In z l -> item_size z < item_size (IItems p (Some l)).
Proof.
  intros H. cbn [item_size]. induction l as [|y r IH]; [destruct H|]. destruct H as [<-|H]; [lia|]. specialize (IH H). lia.
Qed.

Section Round.
  Variable jw_tables : list (bytes * bool * list wstmt).
  Variable jr_tables : list (bytes * list rstmt).
  Variable layout_of : kind -> list fdecl.
  Variable registry load_switch : bytes -> option kind.
  Variable activity_types actor_types link_types : list bytes.

  Hypothesis Htables : kinds_ok jw_tables jr_tables layout_of = true.

  Notation tr := (tree_item jw_tables).
  Notation wf := (wf_item layout_of registry load_switch activity_types actor_types link_types).
  Notation wfv := (wf_fval layout_of registry load_switch activity_types actor_types link_types).
  Notation nrm := (norm_item layout_of).
  Notation nrmv := (norm_fval layout_of).
  Notation ld := (load_item jr_tables layout_of registry load_switch activity_types actor_types link_types).

  Lemma kind_ok_of k : kind_ok jw_tables jr_tables layout_of k = true.
  Proof.
    unfold kinds_ok in Htables. rewrite forallb_forall in Htables. apply Htables. destruct k; simpl; tauto.
  Qed.

  (* the fields of a well-formed object *)
  Lemma wf_fields k (fs : list (fid * fval)) :
    (fix go (l : list (fid * fval)) : bool :=
       match l with
       | [] => true
       | (f, v) :: r => match decl_of layout_of k f with Some d => wfv (fd_type d) v | None => false end && go r
       end) fs = true ->
    forall f v, In (f, v) fs -> exists d, decl_of layout_of k f = Some d /\ wfv (fd_type d) v = true.
  Proof.
    induction fs as [|[f0 v0] r IH]; intros H f v Hin; [destruct Hin|]. apply andb_true_iff in H. destruct H as [H1 H2].
    destruct Hin as [E|Hin]; [|exact (IH H2 f v Hin)]. inversion E; subst.
    destruct (decl_of layout_of k f) as [d|]; [|discriminate]. exists d. split; [reflexivity|exact H1].
  Qed.

  Lemma fdepth_fields (fs : list (fid * fval)) f v : In (f, v) fs ->
    fdepth_v v <= (fix go (l : list (fid * fval)) : nat := match l with [] => O | (_, v) :: r => Nat.max (fdepth_v v) (go r) end) fs.
  Proof.
    induction fs as [|[f0 v0] r IH]; intros H; [destruct H|]. destruct H as [E|H]; [inversion E; subst; lia|]. specialize (IH H). lia.
  Qed.

  Lemma norm_fields_fix (fs : list (fid * fval)) :
    (fix go (fs : list (fid * fval)) : list (fid * fval) :=
       match fs with [] => [] | (f, v) :: r => (f, nrmv v) :: go r end) fs = norm_fields layout_of fs.
  Proof. induction fs as [|[f v] r IH]; [reflexivity|]. cbn [norm_fields map fst snd]. rewrite IH. reflexivity. Qed.

  Lemma norm_obj p k fs : nrm (IObj p k fs) = IObj true k (canon_fields layout_of k (norm_fields layout_of fs)).
  Proof.
    change (nrm (IObj p k fs)) with
      (IObj true k (canon_fields layout_of k
         ((fix go (fs : list (fid * fval)) : list (fid * fval) :=
             match fs with [] => [] | (f, v) :: r => (f, nrmv v) :: go r end) fs))).
    rewrite norm_fields_fix. reflexivity.
  Qed.

  Lemma coll_go_term (t_i : item -> option (option fjv)) term l : forall acc t' o r,
      (fix go (l : list item) (acc : list fjv) : option (bytes * option fjv * bool) :=
          match l with
          | [] => Some (term, Some (FArr (rev acc)), true)
          | i :: r => match t_i i with
                      | Some None => go r acc
                      | Some (Some t) => go r (t :: acc)
                      | None => None
                      end
          end) l acc = Some (t', o, r) -> t' = term.
  Proof.
    induction l as [|i0 r0 IH]; intros acc t' o r H.
    - inversion H. reflexivity.
    - cbv beta iota fix in H. destruct (t_i i0) as [[t0|]|]; [exact (IH _ _ _ _ H)|exact (IH _ _ _ _ H)|discriminate].
  Qed.

  (* who owns a written member *)
  Lemma value_term t_i t_run writer via term v t' o r :
    t_value t_i t_run writer via term v = Some (t', o, r) ->
    t' = term \/ (bytes_eqb writer (B "JSONWriteNaturalLanguageProp") = true /\ t' = term ++ B "Map").
  Proof.
    unfold t_value.
    destruct (bytes_eqb writer (B "JSONWriteItemProp")).
    { destruct v as [[i|l| | | | | | | | | | | ]|]; try discriminate.
      - destruct (t_i i); [|discriminate]. intros H. inversion H. left. reflexivity.
      - destruct (t_i (IItems false l)); [|discriminate]. intros H. inversion H. left. reflexivity.
      - intros H. inversion H. left. reflexivity. }
    destruct (bytes_eqb writer (B "JSONWriteItemCollectionProp")).
    { destruct v as [[i|[[|x l]|]| | | | | | | | | | | ]|]; try discriminate; try (intros H; inversion H; left; reflexivity).
      intros H. left. exact (coll_go_term t_i term (x :: l) [] _ _ _ H). }
    destruct (bytes_eqb writer (B "JSONWriteNaturalLanguageProp")) eqn:En.
    { destruct v as [[i|l|[l|]| | | | | | | | | | ]|]; try discriminate; intros H; inversion H; try (left; reflexivity).
      destruct (Nat.ltb 1 (length l)); [right; split; reflexivity|left; reflexivity]. }
    destruct (bytes_eqb writer (B "JSONWriteProp")).
    { destruct v as [[i|l|l|s| | | | | | |mt c|[e|]|id o' p]|]; try discriminate; try (intros H; inversion H; left; reflexivity).
      - destruct (bytes_eqb via (B "MarshalJSON:ID") || bytes_eqb via (B "MarshalJSON:IRI")
                  || bytes_eqb via (B "MarshalJSON:ActivityVocabularyType") || bytes_eqb via (B "MarshalJSON:MimeType")
                  || bytes_eqb via (B "json.Marshal")); [|discriminate]. intros H. inversion H. left. reflexivity.
      - destruct (t_struct t_run (B "Source_MarshalJSON") (source_fields mt c)); [|discriminate]. intros H. inversion H. left. reflexivity.
      - destruct (t_struct t_run (B "Endpoints_MarshalJSON") (endpoints_fields e)); [|discriminate]. intros H. inversion H. left. reflexivity.
      - destruct (t_struct t_run (B "PublicKey_MarshalJSON") (pubkey_fields id o' p)); [|discriminate]. intros H. inversion H. left. reflexivity. }
    destruct (bytes_eqb writer (B "JSONWriteTimeProp")).
    { destruct v as [[ | | | |t0| | | | | | | | ]|]; try discriminate. destruct (time_writable t0); intros H; inversion H; left; reflexivity. }
    destruct (bytes_eqb writer (B "JSONWriteDurationProp")).
    { destruct v as [[ | | | | |d| | | | | | | ]|]; try discriminate. destruct (fmt_xsd_duration d); [|discriminate]. intros H. inversion H. left. reflexivity. }
    destruct (bytes_eqb writer (B "JSONWriteIntProp")); [intros H; inversion H; left; reflexivity|].
    destruct (bytes_eqb writer (B "JSONWriteFloatProp")); [intros H; inversion H; left; reflexivity|].
    destruct (bytes_eqb writer (B "JSONWriteBoolProp")); [intros H; inversion H; left; reflexivity|].
    destruct (bytes_eqb writer (B "JSONWriteStringProp")).
    { destruct v as [[ | | |s| | | | | | | | | ]|]; try discriminate; intros H; inversion H; left; reflexivity. }
    destruct (bytes_eqb writer (B "JSONWriteIRIProp")).
    { destruct v as [[ | | |[|c s]| | | | | | | | | ]|]; try discriminate; intros H; inversion H; left; reflexivity. }
    discriminate.
  Qed.

  Lemma entry_out_keys t_i d fs e o : entry_out jw_tables t_i d fs e = Some o -> forall kv, In kv o -> In (fst kv) (keys_of e).
  Proof.
    unfold entry_out. destruct (eval_guards fs [x30] (filter nonval (wf_guards e))) as [[|]|]; [| |discriminate].
    - destruct (t_value t_i (t_run_table jw_tables d t_i) (wf_writer e) (wf_via e) (wf_term e) (path_get (wf_path e) fs))
        as [[[t' ov] r0]|] eqn:Ev; [|discriminate].
      destruct (eval_guards fs (guard_bytes ov) (wf_guards e)) as [[|]|]; [| |discriminate].
      + intros H kv Hin. inversion H; subst. destruct ov as [tv|]; [|destruct Hin]. destruct Hin as [<-|[]]. cbn [fst].
        unfold keys_of, is_nlv_writer. destruct (value_term _ _ _ _ _ _ _ _ _ Ev) as [->|[Hn ->]].
        * destruct (bytes_eqb (wf_writer e) _); left; reflexivity.
        * rewrite Hn. right. left. reflexivity.
      + intros H kv Hin. inversion H; subst. destruct Hin.
    - intros H kv Hin. inversion H; subst. destruct Hin.
  Qed.

  Lemma outs_forall2 t_i fs esd os : outs_of jw_tables t_i fs esd os ->
    Forall2 (fun e o => forall kv, In kv o -> In (fst kv) (keys_of e)) (map snd esd) os.
  Proof.
    intros H. induction H as [|de o es os He Hr IH]; [constructor|]. cbn [map]. constructor; [|exact IH].
    exact (entry_out_keys _ _ _ _ _ He).
  Qed.

  Lemma outs_nth t_i fs esd os : outs_of jw_tables t_i fs esd os -> forall i de, nth_error esd i = Some de ->
    exists o, nth_error os i = Some o /\ entry_out jw_tables t_i (fst de) fs (snd de) = Some o.
  Proof.
    intros H. induction H as [|de0 o es os He Hr IH]; intros i de Hi; [destruct i; discriminate|].
    destruct i as [|i].
    - inversion Hi; subst. exists o. split; [reflexivity|exact He].
    - exact (IH i de Hi).
  Qed.

  Lemma keys_plain e : key_plain (wf_term e) = true -> forall k0, In k0 (keys_of e) -> key_plain k0 = true.
  Proof.
    intros H k0. unfold keys_of. destruct (is_nlv_writer e).
    - intros [<-|[<-|[]]]; [exact H|]. unfold key_plain in *. rewrite forallb_app, H. reflexivity.
    - intros [<-|[]]. exact H.
  Qed.

  (* ---------------------------------------------------------------- the fold over the read entries *)
  Section Fold.
    Variable li : fjv -> option item.
    Variable fs : list (fid * fval).
    Variable val : fjv.

    Definition step_spec (r : rflat) : Prop :=
      exists ox, get_value jr_tables li 3 val (rf_getter r) (rf_term r) (rf_conv r) = Some ox /\
        match getf (rf_fid r) fs with
        | Some v => exists x, ox = Some x /\ link_guard (rf_guard r) x = nrmv v /\ fval_is_zero (nrmv v) = false
        | None => match ox with None => True | Some x => fval_is_zero (link_guard (rf_guard r) x) = true end
        end.

    Lemma fold_reads : forall rs acc, NoDup (map rf_fid rs) -> (forall r, In r rs -> step_spec r) ->
      (forall r, In r rs -> getf (rf_fid r) acc = None) ->
      exists acc', fold_left (read_step jr_tables li val) rs (Some acc) = Some acc' /\
        forall f, getf f acc' = if existsb (fun r => fid_beq f (rf_fid r)) rs then option_map nrmv (getf f fs) else getf f acc.
    Proof.
      induction rs as [|r rs IH]; intros acc Hnd Hs Hacc.
      - exists acc. split; [reflexivity|]. intros f. reflexivity.
      - cbn [map] in Hnd. inversion Hnd as [|? ? Hnin Hnd']; subst.
        destruct (Hs r (or_introl eq_refl)) as [ox [Hgv Hsp]].
        set (acc1 := match getf (rf_fid r) fs with Some v => setf (rf_fid r) (nrmv v) acc | None => acc end).
        assert (E : read_step jr_tables li val (Some acc) r = Some acc1).
        { unfold read_step. rewrite Hgv. unfold acc1. destruct (getf (rf_fid r) fs) as [v|].
          - destruct Hsp as [x [-> [Hx Hz]]]. cbv zeta. rewrite Hx, Hz. reflexivity.
          - destruct ox as [x|]; [|reflexivity]. cbv zeta. rewrite Hsp. reflexivity. }
        cbn [fold_left].
        rewrite E.
        assert (Hacc1 : forall r', In r' rs -> getf (rf_fid r') acc1 = None).
        { intros r' Hr'. unfold acc1. destruct (getf (rf_fid r) fs) as [v|] eqn:Eg; [|exact (Hacc r' (or_intror Hr'))].
          destruct Hsp as [x [_ [_ Hz]]]. unfold setf. rewrite Hz, getf_replf.
          destruct (fid_beq (rf_fid r') (rf_fid r)) eqn:Ef; [|exact (Hacc r' (or_intror Hr'))].
          apply fid_beq_eq in Ef. exfalso. apply Hnin. rewrite <- Ef. apply in_map. exact Hr'. }
        destruct (IH acc1 Hnd' (fun r' Hr' => Hs r' (or_intror Hr')) Hacc1) as [acc' [Hf Hget]].
        exists acc'. split; [exact Hf|]. intros f. rewrite Hget. cbn [existsb].
        destruct (existsb (fun r0 => fid_beq f (rf_fid r0)) rs) eqn:Ex.
        + rewrite orb_true_r. reflexivity.
        + rewrite orb_false_r. unfold acc1. destruct (fid_beq f (rf_fid r)) eqn:Ef.
          * apply fid_beq_eq in Ef. subst f. destruct (getf (rf_fid r) fs) as [v|] eqn:Eg.
            -- destruct Hsp as [x [_ [_ Hz]]]. unfold setf. rewrite Hz, getf_replf, fid_beq_refl. reflexivity.
            -- exact (Hacc r (or_introl eq_refl)).
          * destruct (getf (rf_fid r) fs) as [v|]; [|reflexivity].
            destruct Hsp as [x [_ [_ Hz]]]. unfold setf. rewrite Hz, getf_replf, Ef. reflexivity.
    Qed.
  End Fold.

  Lemma nth_error_map_inv {A B} (h : A -> B) l i y : nth_error (map h l) i = Some y -> exists x, nth_error l i = Some x /\ h x = y.
  Proof.
    revert i. induction l as [|a l IH]; intros i H; [destruct i; discriminate|]. destruct i as [|i].
    - inversion H. exists a. split; reflexivity.
    - exact (IH i H).
  Qed.

  Lemma concat_nil_in {A} (os : list (list A)) o : concat os = [] -> In o os -> o = [].
  Proof.
    induction os as [|x r IH]; intros H Hin; [destruct Hin|]. cbn [concat] in H. apply app_eq_nil in H. destruct H as [H1 H2].
    destruct Hin as [<-|Hin]; [exact H1|exact (IH H2 Hin)].
  Qed.

  Lemma filter_single {A} (P : A -> bool) l e : filter P l = [e] -> In e l /\ P e = true.
  Proof. intros H. assert (Hin : In e (filter P l)) by (rewrite H; left; reflexivity). apply filter_In in Hin. exact Hin. Qed.

  (* ---------------------------------------------------------------- one object, given its sub-objects *)
  Lemma has_bs_plain k : key_plain k = true -> has_bs k = false.
  Proof. apply plain_no_bs. Qed.

  Lemma outs_nth_os t_i fs esd os : outs_of jw_tables t_i fs esd os -> forall i o, nth_error os i = Some o ->
    exists de, nth_error esd i = Some de /\ entry_out jw_tables t_i (fst de) fs (snd de) = Some o.
  Proof.
    intros H. induction H as [|de0 o0 es os He Hr IH]; intros i o Hi; [destruct i; discriminate|].
    destruct i as [|i].
    - inversion Hi; subst. exists de0. split; [reflexivity|exact He].
    - exact (IH i o Hi).
  Qed.

  Section Obj.
    Variable g : nat.
    Hypothesis HEo : forall f p k fs o, wf (IObj p k fs) = true -> ddepth (IObj p k fs) <= g ->
      tr f (IObj p k fs) = Some o -> exists kvs, o = Some (FObj kvs).
    Hypothesis HLo : forall f p k fs kvs, wf (IObj p k fs) = true -> ddepth (IObj p k fs) <= g ->
      tr f (IObj p k fs) = Some (Some (FObj kvs)) -> ld g (FObj kvs) = Some (nrm (IObj p k fs)).
    Hypothesis HLs : forall raw u, 1 <= g -> url_classify (fj_unescape raw) = UValid u ->
      ld g (Text.FStr raw) = Some (IIri false (fj_unescape raw)).
    Hypothesis HKo : forall f p k fs kvs, wf (IObj p k fs) = true -> ddepth (IObj p k fs) <= g ->
      tr f (IObj p k fs) = Some (Some (FObj kvs)) -> tree_ok (2 * ddepth (IObj p k fs) + 1) (FObj kvs).

    Lemma obj_round fe p k fs o : wf (IObj p k fs) = true -> ddepth (IObj p k fs) <= S g ->
      tr (S fe) (IObj p k fs) = Some o ->
      exists ms, o = Some (FObj ms) /\
        tree_ok (2 * ddepth (IObj p k fs) + 1) (FObj ms) /\
        load_item_level jr_tables layout_of registry load_switch activity_types actor_types link_types (ld g) (FObj ms)
        = Some (nrm (IObj p k fs)).
    Proof.
      intros Hw Hd Ht.
      (* the well-formedness facts *)
      pose proof Hw as Hw0. cbn [wf_item] in Hw0. rewrite !andb_true_iff in Hw0.
      destruct Hw0 as [[[[Hne Hnd] Hsel] Hnotempty] Hfields].
      pose proof (wf_fields k fs Hfields) as Hfv.
      set (M := (fix go (l : list (fid * fval)) : nat := match l with [] => O | (_, v) :: r => Nat.max (fdepth_v v) (go r) end) fs).
      assert (HdM : ddepth (IObj p k fs) = S M) by reflexivity.
      assert (Hdep : forall f v, In (f, v) fs -> fdepth_v v <= M) by (intros f v Hin; exact (fdepth_fields fs f v Hin)).
      assert (HMg : M <= g) by lia.
      (* the table facts *)
      pose proof (kind_ok_of k) as Hk. unfold kind_ok in Hk.
      destruct (entries_of jw_tables k) as [es|] eqn:Ees; [|discriminate].
      destruct (reads_of jr_tables k) as [rs|] eqn:Ers; [|discriminate].
      rewrite !andb_true_iff in Hk. destruct Hk as [[[[[[[[Kread Kndr] Kall] Kkeys] Kplain] Kforeign] Kndl] Ktype] Kacc].
      (* the tree *)
      cbn [tree_item] in Ht. unfold t_struct in Ht.
      destruct (t_run_table jw_tables 6 (tr fe) (marshal_table k) fs) as [[ms ne]|] eqn:Er; [|discriminate].
      unfold entries_of in Ees. rewrite flatten_wd_w in Ees.
      destruct (flatten_wd jw_tables 6 (marshal_table k)) as [esd|] eqn:Eesd; [|discriminate].
      cbn [option_map] in Ees. inversion Ees as [Ees']. clear Ees.
      destruct (run_flat jw_tables (tr fe) fs 6 (marshal_table k) ms ne esd Er Eesd) as [os [Houts Hms]].
      pose proof (outs_forall2 (tr fe) fs esd os Houts) as Hown. rewrite Ees' in Hown.
      pose proof (nodup_bytes_NoDup _ Kkeys) as Hndk.
      assert (Hplain : forallb (fun kv => key_plain (fst kv)) ms = true).
      { rewrite forallb_forall. intros kv Hin. rewrite Hms in Hin. apply in_concat in Hin. destruct Hin as [o' [Ho' Hkv]].
        destruct (forall2_in_r _ _ _ _ Hown Ho') as [e' [He' Hk']]. apply (keys_plain e'); [|exact (Hk' kv Hkv)].
        rewrite forallb_forall in Kplain. exact (Kplain e' He'). }
      (* every write entry, with the read entry of its field *)
      assert (Hent : forall i de oe, nth_error esd i = Some de -> nth_error os i = Some oe ->
                entry_out jw_tables (tr fe) (fst de) fs (snd de) = Some oe ->
                forall r, In r rs -> entry_for (rf_fid r) (snd de) = true ->
                step_spec (ld g) fs (FObj ms) r /\ (forall v, getf (rf_fid r) fs = Some v -> ms <> [])
                /\ (forall kv, In kv oe -> tree_ok (2 * M + 2) (snd kv))).
      { intros i de oe Hde Hoe Hout r Hr Hfor. rewrite forallb_forall in Kread. specialize (Kread r Hr). unfold read_ok in Kread.
        destruct (decl_for layout_of k (rf_fid r)) as [d|] eqn:Ed; [|discriminate].
        rewrite !andb_true_iff in Kread. destruct Kread as [[Kterm Ksrc] Kpair].
        destruct (filter (entry_for (rf_fid r)) es) as [|e [|e2 er]] eqn:Ef; try discriminate.
        assert (Hi : nth_error es i = Some (snd de)) by (rewrite <- Ees'; apply map_nth_error; exact Hde).
        assert (He : snd de = e).
        { assert (Hin : In (snd de) (filter (entry_for (rf_fid r)) es))
            by (apply filter_In; split; [eapply nth_error_In; exact Hi|exact Hfor]).
          rewrite Ef in Hin. destruct Hin as [<-|[]]. reflexivity. }
        rewrite He in *.
        assert (Hlook : forall k0, In k0 (keys_of e) -> find_key (fun k1 => k1) ms k0 = find_key (fun k1 => k1) oe k0).
        { intros k0 Hk0. rewrite Hms. apply (find_key_concat wflat keys_of es os e oe k0 Hndk Hown); [|exact Hk0].
          exists i. split; [exact Hi|exact Hoe]. }
        destruct (getf (rf_fid r) fs) as [v|] eqn:Eg.
        - destruct (Hfv _ _ (getf_in _ _ _ Eg)) as [d' [Hd' Hwv]].
          assert (d' = d) by (unfold decl_of in Hd'; unfold decl_for in Ed; congruence). subst d'.
          pose proof (Hdep _ _ (getf_in _ _ _ Eg)) as HvM.
          destruct (field_set jw_tables jr_tables layout_of registry load_switch activity_types actor_types link_types (ld g) g fe
                      HEo HLo HLs HKo (fst de) fs ms Hplain (fd_type d) (rf_fid r) e r oe v Kpair Hout Hlook Eg Hwv
                      ltac:(lia)) as [Hoe_ne [Hmem [x [Hgv [Hx Hz]]]]].
          split; [|split].
          + unfold step_spec. rewrite Eg. exists (Some x). split; [exact Hgv|]. exists x. repeat split; assumption.
          + intros v0 _ Hc. apply Hoe_ne. rewrite Hms in Hc.
            apply (concat_nil_in os oe Hc). eapply nth_error_In. exact Hoe.
          + intros kv Hkv. apply (tree_ok_mono (2 * fdepth_v v + 2)); [exact (Hmem kv Hkv)|lia].
        - destruct (field_unset jw_tables jr_tables (ld g) fe (fst de) fs ms Hplain (fd_type d) (rf_fid r) e r oe Kpair Ksrc Hout Hlook Eg)
            as [Hmem [ox [Hgv Hz]]].
          split; [|split; [intros v Hv; discriminate|]].
          + unfold step_spec. rewrite Eg. exists ox. split; assumption.
          + intros kv Hkv. apply (tree_ok_mono 2); [exact (Hmem kv Hkv)|lia]. }
      (* every read entry meets its specification *)
      assert (Hspec : forall r, In r rs -> step_spec (ld g) fs (FObj ms) r /\
                                          (forall v, getf (rf_fid r) fs = Some v -> ms <> [])).
      { intros r Hr. pose proof Kread as Kread'. rewrite forallb_forall in Kread'. specialize (Kread' r Hr). unfold read_ok in Kread'.
        destruct (decl_for layout_of k (rf_fid r)) as [d|] eqn:Ed; [|discriminate].
        rewrite !andb_true_iff in Kread'. destruct Kread' as [_ Kpair].
        destruct (filter (entry_for (rf_fid r)) es) as [|e [|e2 er]] eqn:Ef; try discriminate.
        destruct (filter_single _ _ _ Ef) as [Hein Hfor].
        destruct (In_nth_error es e Hein) as [i Hi].
        rewrite <- Ees' in Hi. destruct (nth_error_map_inv snd esd i e Hi) as [de [Hde Hsnd]].
        destruct (outs_nth (tr fe) fs esd os Houts i de Hde) as [oe [Hoe Hout]].
        rewrite <- Hsnd in Hfor.
        destruct (Hent i de oe Hde Hoe Hout r Hr Hfor) as [H1 [H2 _]]. split; assumption. }
      (* every member is inside the decoder model and shallow *)
      assert (Hmembers : forall kv, In kv ms -> tree_ok (2 * M + 2) (snd kv)).
      { intros kv Hin. rewrite Hms in Hin. apply in_concat in Hin. destruct Hin as [oe [Hoe Hkv]].
        destruct (In_nth_error os oe Hoe) as [i Hi].
        destruct (outs_nth_os (tr fe) fs esd os Houts i oe Hi) as [de [Hde Hout]].
        assert (Hine : In (snd de) es) by (rewrite <- Ees'; apply in_map; eapply nth_error_In; exact Hde).
        rewrite forallb_forall in Kforeign. specialize (Kforeign _ Hine). apply existsb_exists in Kforeign.
        destruct Kforeign as [r [Hr Hfor]].
        destruct (Hent i de oe Hde Hi Hout r Hr Hfor) as [_ [_ H3]]. exact (H3 kv Hkv). }
      (* at least one member was written, so the object is not empty *)
      assert (Hms_ne : ms <> []).
      { destruct fs as [|[f0 v0] fs']; [discriminate|].
        destruct (Hfv f0 v0 (or_introl eq_refl)) as [d0 [Hd0 _]].
        unfold decl_of in Hd0. apply find_some in Hd0. destruct Hd0 as [Hd0in Hd0f]. apply fid_beq_eq in Hd0f.
        rewrite forallb_forall in Kall. specialize (Kall d0 Hd0in). apply existsb_exists in Kall. destruct Kall as [r0 [Hr0 Hr0f]].
        apply fid_beq_eq in Hr0f. destruct (Hspec r0 Hr0) as [_ Hne0]. apply (Hne0 v0).
        rewrite Hr0f, Hd0f. cbn [getf]. rewrite fid_beq_refl. reflexivity. }
      pose proof (run_ne jw_tables (tr fe) fs 6 (marshal_table k) ms ne Kacc Er Hms_ne) as Hne_true. subst ne.
      inversion Ht; subst o. exists ms. split; [reflexivity|].
      split.
      { (* the document written *)
        split.
        - cbn [keys_clean]. apply andb_true_iff. split.
          + apply negb_true_iff. unfold keys_ambiguous. apply not_true_is_false. intros E.
            apply existsb_exists in E. destruct E as [kv [Hin E]]. apply andb_true_iff in E. destruct E as [Hb _].
            rewrite forallb_forall in Hplain. rewrite (plain_no_bs _ (Hplain kv Hin)) in Hb. discriminate.
          + apply forallb_forall. intros kv Hin. exact (proj1 (Hmembers kv Hin)).
        - rewrite HdM. replace (2 * S M + 1) with (S (2 * M + 2)) by lia. apply fdepth_FObj_le.
          intros kv Hin. exact (proj2 (Hmembers kv Hin)). }
      (* the fold over the read entries *)
      destruct (fold_reads (ld g) fs (FObj ms) rs [] (nodup_fid_NoDup _ Kndr) (fun r Hr => proj1 (Hspec r Hr)) (fun r _ => eq_refl))
        as [acc' [Hfold Hget]].
      assert (Hload : run_table jr_tables (ld g) 6 (JsonCheck.load_table k) (FObj ms) [] = Some acc').
      { rewrite (load_flat jr_tables (ld g) (FObj ms) 6 (JsonCheck.load_table k) [] rs Ers). exact Hfold. }
      assert (Hcanon : canon_fields layout_of k acc' = canon_fields layout_of k (norm_fields layout_of fs)).
      { apply canon_ext. intros d0 Hd0. rewrite Hget. unfold norm_fields. rewrite getf_map.
        rewrite forallb_forall in Kall. specialize (Kall d0 Hd0). apply existsb_exists in Kall. destruct Kall as [r0 [Hr0 Hr0f]].
        apply fid_beq_eq in Hr0f.
        assert (existsb (fun r1 => fid_beq (fd_fid d0) (rf_fid r1)) rs = true) as ->
          by (apply existsb_exists; exists r0; split; [exact Hr0|rewrite Hr0f; apply fid_beq_refl]).
        reflexivity. }
      (* the type name *)
      assert (Htyp : jstr (jget (FObj ms) (B "type")) = get_str F_Type fs).
      { unfold type_read_ok in Ktype. destruct (decl_for layout_of k F_Type) as [dT|] eqn:EdT; [|discriminate].
        rewrite !andb_true_iff in Ktype. destruct Ktype as [[KtT KtTerm] KtG]. apply bytes_eqb_eq in KtTerm.
        pose proof EdT as EdT'. unfold decl_for in EdT'. apply find_some in EdT'. destruct EdT' as [HdTin HdTf]. apply fid_beq_eq in HdTf.
        rewrite forallb_forall in Kall. pose proof (Kall dT HdTin) as KT. apply existsb_exists in KT. destruct KT as [rT [HrT HrTf]].
        apply fid_beq_eq in HrTf. rewrite HdTf in HrTf.
        rewrite forallb_forall in KtG. specialize (KtG rT HrT). rewrite HrTf, fid_beq_refl in KtG. cbn [negb orb] in KtG.
        rewrite forallb_forall in Kread. pose proof (Kread rT HrT) as KrT. unfold read_ok in KrT. rewrite HrTf, EdT in KrT.
        rewrite !andb_true_iff in KrT. destruct KrT as [[KrTt _] _]. apply bytes_eqb_eq in KrTt. rewrite KtTerm in KrTt.
        destruct (Hspec rT HrT) as [[ox [Hgv Hsp]] _]. rewrite KrTt, HrTf in *.
        rewrite (gv_str jr_tables (ld g) 2 (FObj ms) (rf_getter rT) (B "type") (rf_conv rT) (existsb_in _ _ KtG)) in Hgv.
        change (sub_get (FObj ms) (B "type")) with (jget (FObj ms) (B "type")) in Hgv.
        unfold get_str. destruct (getf F_Type fs) as [v|] eqn:Eg.
        - destruct (Hfv _ _ (getf_in _ _ _ Eg)) as [d' [Hd' Hwv]].
          assert (d' = dT) by (unfold decl_of in Hd'; unfold decl_for in EdT; congruence). subst d'.
          destruct (fd_type dT); try discriminate. destruct v as [ | | |s| | | | | | | | | ]; try discriminate.
          destruct Hsp as [x [-> [Hx _]]].
          destruct (jstr (jget (FObj ms) (B "type"))) as [|c s'] eqn:Ej; [discriminate Hgv|]. injection Hgv as Hgv1.
          rewrite <- Hgv1 in Hx. unfold link_guard in Hx.
          destruct (bytes_eqb (rf_guard rT) (B "x != nil;GetLink")); inversion Hx; reflexivity.
        - destruct (jstr (jget (FObj ms) (B "type"))) as [|c s'] eqn:Ej; [reflexivity|]. injection Hgv as Hgv1.
          rewrite <- Hgv1 in Hsp. unfold link_guard in Hsp. destruct (bytes_eqb (rf_guard rT) (B "x != nil;GetLink")); discriminate. }
      (* JSONLoadItem *)
      unfold load_item_level. rewrite Htyp.
      unfold type_selects in Hsel.
      destruct (registry (get_str F_Type fs)) as [a|]; [|discriminate].
      destruct (load_switch (get_str F_Type fs)) as [b|]; [|discriminate].
      apply andb_true_iff in Hsel. destruct Hsel as [Ha Hb].
      apply internal_kind_dec_bl in Ha. apply internal_kind_dec_bl in Hb. subst a b.
      assert (Hkk : kind_beq k k = true) by (apply internal_kind_dec_lb; reflexivity).
      assert (Hne' : not_empty activity_types actor_types link_types (IObj true k (canon_fields layout_of k acc')) = true).
      { rewrite Hcanon, <- (norm_obj p k fs). exact Hnotempty. }
      unfold as_string_iri.
      destruct (get_str F_Type fs); rewrite Hkk, Hload; cbv zeta; rewrite Hne', Hcanon, (norm_obj p k fs); reflexivity.
    Qed.
  End Obj.

  (* ---------------------------------------------------------------- strings at item level *)
  Lemma load_str li raw u : url_classify (fj_unescape raw) = UValid u ->
    load_item_level jr_tables layout_of registry load_switch activity_types actor_types link_types li (Text.FStr raw)
    = Some (IIri false (fj_unescape raw)).
  Proof. intros H. unfold load_item_level, as_string_iri. cbn [jget fj_get jstr]. rewrite (as_iri_of_plain raw u H). reflexivity. Qed.

  Lemma load_item_S f v : ld (S f) v =
    load_item_level jr_tables layout_of registry load_switch activity_types actor_types link_types (ld f) v.
  Proof. reflexivity. Qed.

  (* ---------------------------------------------------------------- elements, by induction on the decoder fuel *)
  Theorem elem_round : forall g y, is_elem y = true -> wf y = true -> ddepth y <= g ->
    forall f o, tr f y = Some o ->
    exists tv, o = Some tv /\ (match y with IObj _ _ _ => exists kvs, tv = FObj kvs | _ => True end)
               /\ tree_ok (2 * ddepth y + 1) tv /\ ld g tv = Some (nrm y).
  Proof.
    induction g as [|g IH]; intros y He Hw Hd f o Ht.
    - pose proof (ddepth_ge1 y He). lia.
    - assert (HLs : forall raw u, 1 <= g -> url_classify (fj_unescape raw) = UValid u ->
                ld g (Text.FStr raw) = Some (IIri false (fj_unescape raw))).
      { intros raw u Hg Hu. destruct g as [|g']; [lia|]. rewrite load_item_S. exact (load_str _ raw u Hu). }
      assert (HEo : forall f p k fs o, wf (IObj p k fs) = true -> ddepth (IObj p k fs) <= g ->
                tr f (IObj p k fs) = Some o -> exists kvs, o = Some (FObj kvs)).
      { intros f0 p k fs o0 Hw0 Hd0 Ht0. destruct (IH (IObj p k fs) eq_refl Hw0 Hd0 f0 o0 Ht0) as [tv [-> [[kvs ->] _]]].
        exists kvs. reflexivity. }
      assert (HLo : forall f p k fs kvs, wf (IObj p k fs) = true -> ddepth (IObj p k fs) <= g ->
                tr f (IObj p k fs) = Some (Some (FObj kvs)) -> ld g (FObj kvs) = Some (nrm (IObj p k fs))).
      { intros f0 p k fs kvs Hw0 Hd0 Ht0. destruct (IH (IObj p k fs) eq_refl Hw0 Hd0 f0 _ Ht0) as [tv [E [_ [_ Hl]]]].
        inversion E; subst. exact Hl. }
      assert (HKo : forall f p k fs kvs, wf (IObj p k fs) = true -> ddepth (IObj p k fs) <= g ->
                tr f (IObj p k fs) = Some (Some (FObj kvs)) -> tree_ok (2 * ddepth (IObj p k fs) + 1) (FObj kvs)).
      { intros f0 p k fs kvs Hw0 Hd0 Ht0. destruct (IH (IObj p k fs) eq_refl Hw0 Hd0 f0 _ Ht0) as [tv [E [_ [Hk _]]]].
        inversion E; subst. exact Hk. }
      destruct y as [|k|p s|p k fs|p l|p l]; try discriminate.
      + cbn [wf_item] in Hw. rewrite (tree_iri jw_tables f p s o Hw Ht). eexists. split; [reflexivity|]. split; [exact I|].
        split; [split; [reflexivity|cbn [fdepth ddepth]; lia]|].
        destruct (iri_ok_facts s Hw) as [[u Hu] [Hdec _]].
        rewrite load_item_S. rewrite (load_str _ (escape_quote s) u) by (rewrite Hdec; exact Hu). rewrite Hdec. reflexivity.
      + destruct f as [|fe]; [discriminate|].
        destruct (obj_round g HEo HLo HLs HKo fe p k fs o Hw Hd Ht) as [ms [-> [Hk Hl]]].
        exists (FObj ms). split; [reflexivity|]. split; [exists ms; reflexivity|]. split; [exact Hk|].
        rewrite load_item_S. exact Hl.
  Qed.

  (* ---------------------------------------------------------------- the encoder model is defined on well-formed values *)
  Lemma items_go_defined f l : forall acc, (forall x, In x l -> exists o, tr f x = Some o) ->
    exists o,
    (fix go (l : list item) (acc : list fjv) : option (option fjv) :=
       match l with
       | [] => Some (Some (FArr (rev acc)))
       | x :: r => match tr f x with
                   | Some None => go r acc
                   | Some (Some t) => go r (t :: acc)
                   | None => None
                   end
       end) l acc = Some o.
  Proof.
    induction l as [|x r IH]; intros acc H; [eexists; reflexivity|].
    destruct (H x (or_introl eq_refl)) as [o Ho]. cbv beta iota fix. rewrite Ho.
    destruct o; apply IH; intros y Hy; apply H; right; exact Hy.
  Qed.

  Lemma size_field (fs : list (fid * fval)) f v p k : In (f, v) fs -> fval_size v < item_size (IObj p k fs).
  Proof. intros H. cbn [item_size]. pose proof (size_in_fields_le fs f v H). lia. Qed.

  Theorem enc_defined : forall f x, wf x = true -> item_size x < f -> exists o, tr f x = Some o.
  Proof.
    induction f as [|f IH]; intros x Hw Hs; [lia|].
    destruct x as [|k|p s|p k fs|p [l|]|p l]; try discriminate.
    - cbn [tree_item]. destruct (is_nil (IIri p s)); eexists; reflexivity.
    - (* object *)
      cbn [tree_item]. unfold t_struct.
      pose proof Hw as Hw0. cbn [wf_item] in Hw0. rewrite !andb_true_iff in Hw0.
      destruct Hw0 as [[[[Hne Hnd] Hsel] Hnotempty] Hfields].
      pose proof (wf_fields k fs Hfields) as Hfv.
      pose proof (kind_ok_of k) as Hk. unfold kind_ok in Hk.
      destruct (entries_of jw_tables k) as [es|] eqn:Ees; [|discriminate].
      destruct (reads_of jr_tables k) as [rs|] eqn:Ers; [|discriminate].
      rewrite !andb_true_iff in Hk. destruct Hk as [[[[[[[[Kread Kndr] Kall] Kkeys] Kplain] Kforeign] Kndl] Ktype] Kacc].
      unfold entries_of in Ees. rewrite flatten_wd_w in Ees.
      destruct (flatten_wd jw_tables 6 (marshal_table k)) as [esd|] eqn:Eesd; [|discriminate].
      cbn [option_map] in Ees. inversion Ees as [Ees']. clear Ees.
      assert (HD : forall y, wf y = true -> item_size y <= f - 1 -> exists o, tr f y = Some o).
      { intros y Hy Hsz. apply IH; [exact Hy|]. cbn [item_size] in Hs. lia. }
      destruct (run_defined jw_tables (tr f) fs 6 (marshal_table k) esd Eesd) as [ms [ne Hr]].
      { intros de Hde.
        assert (Hine : In (snd de) es) by (rewrite <- Ees'; apply in_map; exact Hde).
        rewrite forallb_forall in Kforeign. specialize (Kforeign _ Hine). apply existsb_exists in Kforeign.
        destruct Kforeign as [r [Hr Hfor]].
        rewrite forallb_forall in Kread. specialize (Kread r Hr). unfold read_ok in Kread.
        destruct (decl_for layout_of k (rf_fid r)) as [d|] eqn:Ed; [|discriminate].
        rewrite !andb_true_iff in Kread. destruct Kread as [[Kterm Ksrc] Kpair].
        destruct (filter (entry_for (rf_fid r)) es) as [|e [|e2 er]] eqn:Ef; try discriminate.
        assert (He : snd de = e).
        { assert (Hin : In (snd de) (filter (entry_for (rf_fid r)) es)) by (apply filter_In; split; assumption).
          rewrite Ef in Hin. destruct Hin as [<-|[]]. reflexivity. }
        rewrite He.
        apply (entry_defined jw_tables layout_of registry load_switch activity_types actor_types link_types f (fst de) fs (f - 1) HD
                 (fd_type d) (rf_fid r) e r Kpair).
        intros v Hv. destruct (Hfv _ _ (getf_in _ _ _ Hv)) as [d' [Hd' Hwv]].
        assert (d' = d) by (unfold decl_of in Hd'; unfold decl_for in Ed; congruence). subst d'.
        split; [exact Hwv|]. pose proof (size_field fs _ v p k (getf_in _ _ _ Hv)). lia. }
      rewrite Hr. eexists; reflexivity.
    - (* list *)
      destruct l as [|x [|y r]]; [discriminate| |].
      + cbn [tree_item]. cbn [wf_item] in Hw. rewrite !andb_true_iff in Hw. destruct Hw as [[[_ Hwx] _] _].
        apply IH; [exact Hwx|]. cbn [item_size] in Hs. lia.
      + cbn [tree_item]. refine (items_go_defined f (x :: y :: r) [] _). intros z Hz.
        cbn [wf_item] in Hw. apply andb_true_iff in Hw. destruct Hw as [Hel _].
        destruct (wf_list_elems layout_of registry load_switch activity_types actor_types link_types (x :: y :: r) Hel z Hz) as [_ Hwz].
        apply IH; [exact Hwz|]. pose proof (size_items_lt p (x :: y :: r) z Hz). lia.
  Qed.

  (* ---------------------------------------------------------------- documents *)
  Notation um := (unmarshal_to_item jr_tables layout_of registry load_switch activity_types actor_types link_types).

  Theorem tree_round x o : wf x = true -> ddepth x <= 64 -> tree_of jw_tables x = Some o ->
    exists v, o = Some v /\ tree_ok (2 * ddepth x + 2) v /\ um v = Some (nrm x).
  Proof.
    intros Hw Hd Ht.
    assert (HEo : forall f p k fs o, wf (IObj p k fs) = true -> ddepth (IObj p k fs) <= 64 ->
              tr f (IObj p k fs) = Some o -> exists kvs, o = Some (FObj kvs)).
    { intros f0 p k fs o0 Hw0 Hd0 Ht0. destruct (elem_round 64 (IObj p k fs) eq_refl Hw0 Hd0 f0 o0 Ht0) as [tv [-> [[kvs ->] _]]].
      exists kvs. reflexivity. }
    assert (HLo : forall f p k fs kvs, wf (IObj p k fs) = true -> ddepth (IObj p k fs) <= 64 ->
              tr f (IObj p k fs) = Some (Some (FObj kvs)) -> ld 64 (FObj kvs) = Some (nrm (IObj p k fs))).
    { intros f0 p k fs kvs Hw0 Hd0 Ht0. destruct (elem_round 64 (IObj p k fs) eq_refl Hw0 Hd0 f0 _ Ht0) as [tv [E [_ [_ Hl]]]].
      inversion E; subst. exact Hl. }
    assert (HKo : forall f p k fs kvs, wf (IObj p k fs) = true -> ddepth (IObj p k fs) <= 64 ->
              tr f (IObj p k fs) = Some (Some (FObj kvs)) -> tree_ok (2 * ddepth (IObj p k fs) + 1) (FObj kvs)).
    { intros f0 p k fs kvs Hw0 Hd0 Ht0. destruct (elem_round 64 (IObj p k fs) eq_refl Hw0 Hd0 f0 _ Ht0) as [tv [E [_ [Hk _]]]].
      inversion E; subst. exact Hk. }
    assert (HLs : forall raw u, 1 <= 64 -> url_classify (fj_unescape raw) = UValid u ->
              ld 64 (Text.FStr raw) = Some (IIri false (fj_unescape raw))).
    { intros raw u _ Hu. rewrite load_item_S. exact (load_str _ raw u Hu). }
    destruct (wf_item_tree jw_tables layout_of registry load_switch activity_types actor_types link_types (ld 64) 64 HEo HLo HLs
                _ x o Hw Hd Ht) as [f' [tv [-> Htree]]].
    exists tv. split; [reflexivity|].
    pose proof (item_tree_ok jw_tables layout_of registry load_switch activity_types actor_types link_types (ld 64) 64 HEo HLo HLs HKo
                  f' x tv Htree) as Hok.
    split; [exact Hok|].
    unfold unmarshal_to_item. rewrite (proj1 Hok). unfold unmarshal_core. cbv zeta.
    inversion Htree as [y tv' Hoky Hy|p x0 tv' Hokx Hx|p x0 y0 l ts Hokl Hdist Hf]; subst.
    - destruct (elem_tree jw_tables layout_of registry load_switch activity_types actor_types link_types (ld 64) 64 HEo HLo HLs
                  f' x _ Hoky Hy) as [tv2 [E [Hl [Hn Hs]]]]. inversion E; subst tv2.
      destruct x as [|k|p s|p k fs|p l|p l]; try (destruct Hoky as [C _]; discriminate).
      + subst tv. destruct Hoky as [_ [Hw' _]]. cbn [wf_item] in Hw'. rewrite (as_iri_valid s Hw'). reflexivity.
      + destruct Hs as [kvs ->]. exact Hl.
    - destruct (elem_tree jw_tables layout_of registry load_switch activity_types actor_types link_types (ld 64) 64 HEo HLo HLs
                  f' x0 _ Hokx Hx) as [tv2 [E [Hl [Hn Hs]]]]. inversion E; subst tv2.
      change (nrm (IItems p (Some [x0]))) with (nrm x0).
      destruct x0 as [|k|p' s|p' k fs|p' l|p' l]; try (destruct Hokx as [C _]; discriminate).
      + subst tv. destruct Hokx as [_ [Hw' _]]. cbn [wf_item] in Hw'. rewrite (as_iri_valid s Hw'). reflexivity.
      + destruct Hs as [kvs ->]. exact Hl.
    - rewrite (items_fn_u_read jw_tables layout_of registry load_switch activity_types actor_types link_types (ld 64) 64 HEo HLo HLs
                 f' (x0 :: y0 :: l) ts Hokl Hf Hdist).
      rewrite (norm_many layout_of p x0 y0 l). reflexivity.
  Qed.

  (* ---------------------------------------------------------------- bytes *)
  Theorem json_roundtrip x : terms_raw_ok jw_tables = true ->
    wf x = true -> ddepth x <= 64 ->
    exists b, marshal_json jw_tables x = Some b /\ b <> [] /\
      unmarshal_json jr_tables layout_of registry load_switch activity_types actor_types link_types b = Some (Ok (nrm x)).
  Proof.
    intros Hterms Hw Hd.
    destruct (enc_defined (S (item_size x)) x Hw ltac:(lia)) as [o Et]. fold (tree_of jw_tables x) in Et.
    destruct (tree_round x o Hw Hd Et) as [v [-> [[Hclean Hdepth] Hu]]].
    exists (fprint v). split; [rewrite marshal_json_tree, Et; reflexivity|].
    pose proof (tree_of_wf jw_tables Hterms x v Et) as Hwfv.
    split.
    - destruct (fprint_head v Hwfv) as [c [r [E _]]]. rewrite E. discriminate.
    - unfold unmarshal_json. rewrite (parse_doc_fprint v ltac:(lia) Hwfv), Hu. reflexivity.
  Qed.
End Round.
