(* C01, layer (a): strings.
   1. The two byte-level models of stringBytes agree on EVERY byte string:
        JsonLeaf.string_bytes_go (the encoder model, C02) = Text.sbody (the text model, C06),
      so the C06 theorems (fj_unescape (sbody t) = t; the closing-quote scan) apply to what [enc] writes.
   2. escapeQuote: the body it writes is closed under the parser's string scan for every byte string, and
      for valid UTF-8 without a backslash-quote pair (the open finding C02/backslash-quote) it decodes to
      the string.
   3. Natural-language values: a lone entry comes back untagged, a map of two or more comes back as it is. *)
From AP.Model Require Import Prelude Bytes Vocab Json Nlv Text JsonLeaf JsonEnc JsonNorm.
From AP.Proofs Require Import NlvP TextP.
Local Open Scope nat_scope.

(* ------------------------------------------------------------------ the two stringBytes models *)
Definition ascii_unit (html : bool) (b : byte) : bytes :=
  if json_safe html b then [b]
  else bslash ::
       (if Byte.eqb b bslash || Byte.eqb b dquote then [b]
        else if Byte.eqb b x0a then B "n"
        else if Byte.eqb b x0d then B "r"
        else if Byte.eqb b x09 then B "t"
        else B "u00" ++ [hexdigit (N.shiftr (byteN b) 4); hexdigit (N.land (byteN b) 15)]).

Lemma ascii_unit_eq html b : (byteN b <? 128)%N = true -> ascii_unit html b = esc_ascii html b.
Proof.
  assert (S : forallb (fun b => negb (byteN b <? 128)%N ||
             (bytes_eqb (ascii_unit true b) (esc_ascii true b) && bytes_eqb (ascii_unit false b) (esc_ascii false b))) all_bytes = true)
    by (vm_compute; reflexivity).
  pose proof (byte_sweep _ S b) as Hb. cbv beta in Hb. intros H. rewrite H in Hb. simpl in Hb.
  apply andb_true_iff in Hb. destruct Hb as [H1 H2]. apply bytes_eqb_eq in H1. apply bytes_eqb_eq in H2.
  destruct html; assumption.
Qed.

(* the lead-byte classes of the two UTF-8 decoders *)
Definition lead_agree (b : byte) : bool :=
  let n := byteN b in
  negb (128 <=? n)%N ||
  (Bool.eqb ((194 <=? n) && (n <=? 223))%N (Nat.eqb (utf8_n b) 1) &&
   Bool.eqb ((224 <=? n) && (n <=? 239))%N (Nat.eqb (utf8_n b) 2) &&
   Bool.eqb ((240 <=? n) && (n <=? 244))%N (Nat.eqb (utf8_n b) 3) &&
   (negb (Nat.eqb (utf8_n b) 1) || ((utf8_lo b =? 128)%N && (utf8_hi b =? 191)%N)) &&
   (negb (Nat.eqb (utf8_n b) 2) ||
      (((if (n =? 224)%N then 160 else 128) =? utf8_lo b)%N && ((if (n =? 237)%N then 159 else 191) =? utf8_hi b)%N)) &&
   (negb (Nat.eqb (utf8_n b) 3) ||
      (((if (n =? 240)%N then 144 else 128) =? utf8_lo b)%N && ((if (n =? 244)%N then 143 else 191) =? utf8_hi b)%N)) &&
   (Nat.leb (utf8_n b) 3) &&
   (* E2 is the only lead byte of the line separators, and it is a three-byte lead *)
   (negb (Byte.eqb b xe2) || Nat.eqb (utf8_n b) 2)).

Lemma lead_agree_all b : lead_agree b = true.
Proof. assert (S : forallb lead_agree all_bytes = true) by (vm_compute; reflexivity). exact (byte_sweep _ S b). Qed.

Lemma is_cont_agree c : JsonLeaf.is_cont c = Text.is_cont c.
Proof. reflexivity. Qed.

Lemma in_rng_unfold c lo hi : in_rng c lo hi = ((lo <=? byteN c) && (byteN c <=? hi))%N.
Proof. reflexivity. Qed.

Lemma utf8_size_agree b r : (128 <= byteN b)%N ->
  utf8_size (b :: r) =
  match utf8_n b with
  | 1 => match r with c1 :: _ => if in_rng c1 (utf8_lo b) (utf8_hi b) then Some 2 else None | _ => None end
  | 2 => match r with
         | c1 :: c2 :: _ => if in_rng c1 (utf8_lo b) (utf8_hi b) && Text.is_cont c2 then Some 3 else None
         | _ => None
         end
  | 3 => match r with
         | c1 :: c2 :: c3 :: _ =>
             if in_rng c1 (utf8_lo b) (utf8_hi b) && Text.is_cont c2 && Text.is_cont c3 then Some 4 else None
         | _ => None
         end
  | _ => None
  end.
Proof.
  intros Hb. pose proof (lead_agree_all b) as L. unfold lead_agree in L.
  assert (H128 : (128 <=? byteN b)%N = true) by (apply N.leb_le; exact Hb). rewrite H128 in L. simpl negb in L.
  rewrite orb_false_l in L. rewrite !andb_true_iff in L.
  destruct L as [[[[[[[L1 L2] L3] L4] L5] L6] L7] _].
  apply Bool.eqb_prop in L1. apply Bool.eqb_prop in L2. apply Bool.eqb_prop in L3.
  unfold utf8_size.
  assert (Hlt : (byteN b <? 128)%N = false) by (apply N.ltb_ge; exact Hb). rewrite Hlt.
  rewrite L1, L2, L3.
  destruct (utf8_n b) as [|[|[|[|k]]]]; simpl Nat.eqb; cbv iota.
  - reflexivity.
  - simpl in L4. rewrite andb_true_iff, !N.eqb_eq in L4. destruct L4 as [Lo Hi].
    destruct r as [|c1 r]; [reflexivity|]. rewrite is_cont_agree. unfold Text.is_cont. rewrite Lo, Hi. reflexivity.
  - simpl in L5. rewrite andb_true_iff, !N.eqb_eq in L5. destruct L5 as [Lo Hi].
    destruct r as [|c1 [|c2 r]]; try reflexivity. rewrite Lo, Hi, is_cont_agree. rewrite <- in_rng_unfold. reflexivity.
  - simpl in L6. rewrite andb_true_iff, !N.eqb_eq in L6. destruct L6 as [Lo Hi].
    destruct r as [|c1 [|c2 [|c3 r]]]; try reflexivity. rewrite Lo, Hi, !is_cont_agree. rewrite <- in_rng_unfold. reflexivity.
  - simpl in L7. discriminate.
Qed.

Lemma string_bytes_go_S fuel html b r :
  string_bytes_go (S fuel) html (b :: r) =
  if (byteN b <? 128)%N then ascii_unit html b ++ string_bytes_go fuel html r
  else match utf8_size (b :: r) with
       | None => esc_fffd ++ string_bytes_go fuel html r
       | Some sz =>
           if bytes_eqb (firstn 3 (b :: r)) [xe2; x80; xa8] then esc_202 xa8 ++ string_bytes_go fuel html (skipn 3 (b :: r))
           else if bytes_eqb (firstn 3 (b :: r)) [xe2; x80; xa9] then esc_202 xa9 ++ string_bytes_go fuel html (skipn 3 (b :: r))
           else firstn sz (b :: r) ++ string_bytes_go fuel html (skipn sz (b :: r))
       end.
Proof.
  cbn [string_bytes_go]. unfold ascii_unit. destruct (byteN b <? 128)%N; [|reflexivity].
  destruct (json_safe html b); reflexivity.
Qed.

Lemma not_e2_firstn3 b r x : Byte.eqb b xe2 = false -> bytes_eqb (firstn 3 (b :: r)) [xe2; x80; x] = false.
Proof. intros H. destruct r as [|c1 [|c2 r]]; simpl; rewrite H; reflexivity. Qed.

Lemma lead_not_e2 b : Nat.eqb (utf8_n b) 2 = false -> Byte.eqb b xe2 = false.
Proof.
  intros H. pose proof (lead_agree_all b) as L. unfold lead_agree in L.
  destruct (Byte.eqb b xe2) eqn:E; [|reflexivity]. apply beqb_eq in E. subst b. vm_compute in H. discriminate.
Qed.

Lemma ls_firstn3 b c1 c2 r x : Byte.eqb x xa8 || Byte.eqb x xa9 = true ->
  bytes_eqb (firstn 3 (b :: c1 :: c2 :: r)) [xe2; x80; x] = Byte.eqb b xe2 && Byte.eqb c1 x80 && Byte.eqb c2 x.
Proof. intros _. simpl. rewrite andb_true_r. rewrite andb_assoc. reflexivity. Qed.

Theorem string_bytes_go_sbody html : forall fuel s, (length s < fuel)%nat -> string_bytes_go fuel html s = sbody html s.
Proof.
  induction fuel as [|fuel IH]; intros s Hl; [lia|].
  destruct s as [|b r]; [reflexivity|]. simpl in Hl.
  rewrite string_bytes_go_S, sbody_cons.
  destruct (byteN b <? 128)%N eqn:Hb.
  - change (bn b <? 128)%N with (byteN b <? 128)%N. rewrite Hb. rewrite (ascii_unit_eq html b Hb), IH by lia. reflexivity.
  - change (bn b <? 128)%N with (byteN b <? 128)%N. rewrite Hb. apply N.ltb_ge in Hb.
    rewrite (utf8_size_agree b r Hb).
    assert (Hf : esc_fffd ++ string_bytes_go fuel html r = esc_fffd ++ sbody html r) by (rewrite IH by lia; reflexivity).
    destruct (utf8_n b) as [|[|[|[|k]]]] eqn:En; try exact Hf.
    + destruct r as [|c1 r1]; [exact Hf|]. destruct (in_rng c1 (utf8_lo b) (utf8_hi b)); [|exact Hf].
      assert (E2 : Byte.eqb b xe2 = false) by (apply lead_not_e2; rewrite En; reflexivity).
      rewrite !(not_e2_firstn3 b (c1 :: r1) _ E2). cbn [firstn skipn app]. rewrite IH by (simpl in Hl; lia). reflexivity.
    + destruct r as [|c1 [|c2 r2]]; try exact Hf.
      destruct (in_rng c1 (utf8_lo b) (utf8_hi b) && Text.is_cont c2); [|exact Hf].
      rewrite (ls_firstn3 b c1 c2 r2 xa8) by reflexivity. rewrite (ls_firstn3 b c1 c2 r2 xa9) by reflexivity.
      unfold is_ls. cbn [firstn skipn]. simpl in Hl.
      destruct (Byte.eqb b xe2 && Byte.eqb c1 x80) eqn:E1; cbn [andb].
      * destruct (Byte.eqb c2 xa8) eqn:E8.
        -- apply beqb_eq in E8. subst c2. cbn [orb]. rewrite IH by lia. reflexivity.
        -- cbn [orb]. destruct (Byte.eqb c2 xa9) eqn:E9.
           ++ apply beqb_eq in E9. subst c2. rewrite IH by lia. reflexivity.
           ++ rewrite IH by lia. reflexivity.
      * rewrite IH by lia. reflexivity.
    + destruct r as [|c1 [|c2 [|c3 r3]]]; try exact Hf.
      destruct (in_rng c1 (utf8_lo b) (utf8_hi b) && Text.is_cont c2 && Text.is_cont c3); [|exact Hf].
      assert (E2 : Byte.eqb b xe2 = false) by (apply lead_not_e2; rewrite En; reflexivity).
      rewrite !(not_e2_firstn3 b (c1 :: c2 :: c3 :: r3) _ E2). cbn [firstn skipn app]. simpl in Hl. rewrite IH by lia. reflexivity.
Qed.

Corollary string_bytes_body_sbody html s : string_bytes_body html s = sbody html s.
Proof. apply string_bytes_go_sbody. lia. Qed.

Corollary leaf_string_bytes_eq html s : JsonLeaf.string_bytes html s = string_bytes_h html s.
Proof. unfold JsonLeaf.string_bytes, string_bytes_h. rewrite string_bytes_go_sbody by lia. reflexivity. Qed.

(* ------------------------------------------------------------------ escapeQuote *)
Lemma split_bsq_cons2 x y r :
  split_bsq (x :: y :: r) =
  if Byte.eqb x bslash && Byte.eqb y dquote then [] :: split_bsq r
  else match split_bsq (y :: r) with [] => [[x]] | p :: ps => (x :: p) :: ps end.
Proof. reflexivity. Qed.

Lemma split_bsq_plain s : no_bsq s = true -> split_bsq s = [s].
Proof.
  induction s as [|x t IH]; [reflexivity|]. destruct t as [|y r]; [reflexivity|].
  cbn [no_bsq]. rewrite andb_true_iff, negb_true_iff. intros [H1 H2].
  rewrite split_bsq_cons2, H1. rewrite (IH H2). reflexivity.
Qed.

Lemma escape_quote_plain s : no_bsq s = true -> escape_quote s = sbody false s.
Proof.
  intros H. unfold escape_quote. rewrite (split_bsq_plain s H). cbn [map join_with]. apply string_bytes_body_sbody.
Qed.

Lemma raw_ok_join sep l : raw_ok sep = true -> Forall (fun x => raw_ok x = true) l -> raw_ok (join_with sep l) = true.
Proof.
  intros Hs H. induction H as [|x l Hx Hl IH]; [reflexivity|].
  destruct l as [|y l']; [exact Hx|].
  change (join_with sep (x :: y :: l')) with (x ++ sep ++ join_with sep (y :: l')).
  apply raw_ok_app; [exact Hx|]. apply raw_ok_app; [exact Hs|exact IH].
Qed.

(* for EVERY byte string: what escapeQuote writes cannot end its string early *)
Theorem escape_quote_raw_ok s : raw_ok (escape_quote s) = true.
Proof.
  unfold escape_quote. apply raw_ok_join; [reflexivity|].
  apply Forall_forall. intros x Hx. apply in_map_iff in Hx. destruct Hx as [p [<- _]].
  rewrite string_bytes_body_sbody. apply (raw_ok_sbody_n false (length p)). lia.
Qed.

Definition str_ok (s : bytes) : bool := utf8_valid s && no_bsq s.

Theorem escape_quote_decodes s : str_ok s = true -> fj_unescape (escape_quote s) = s.
Proof.
  unfold str_ok. rewrite andb_true_iff. intros [Hv Hq]. rewrite (escape_quote_plain s Hq). apply escape_core. exact Hv.
Qed.

Theorem string_bytes_decodes html s : utf8_valid s = true -> fj_unescape (string_bytes_body html s) = s.
Proof. intros Hv. rewrite string_bytes_body_sbody. apply escape_core. exact Hv. Qed.

(* the scan of the parser over a quoted body written by either escaper *)
Lemma raw_string_closed body tail : raw_ok body = true -> fj_raw_string (body ++ bQ :: tail) = Some (body, tail).
Proof.
  intros H. rewrite (raw_scan_app_n (length body)) by (lia || exact H). simpl. rewrite app_nil_r. reflexivity.
Qed.

(* URL-grammar strings (IRIs) contain no byte the escaper touches: plain ASCII without quote, backslash, control *)
Lemma str_ok_safe s : forallb safe_ascii s = true -> str_ok s = true.
Proof.
  intros H. unfold str_ok. apply andb_true_iff. split.
  - induction s as [|b r IH]; [reflexivity|]. simpl in H. apply andb_true_iff in H. destruct H as [Hb Hr].
    rewrite utf8_valid_cons. destruct (safe_ascii_esc b Hb) as [H1 _]. rewrite H1. apply IH, Hr.
  - induction s as [|b r IH]; [reflexivity|]. simpl in H. apply andb_true_iff in H. destruct H as [Hb Hr].
    destruct r as [|y r']; [reflexivity|].
    change (no_bsq (b :: y :: r')) with (negb (Byte.eqb b bslash && Byte.eqb y dquote) && no_bsq (y :: r')).
    rewrite (IH Hr), andb_true_r.
    unfold safe_ascii in Hb. rewrite !andb_true_iff, !negb_true_iff in Hb. destruct Hb as [_ Hb].
    change bslash with bBS. rewrite Hb. reflexivity.
Qed.
