(* C01, layer (a): the enumeration behind the instant theorem: the 146 097 days of a 400-year era (kept in its own
   file: one vm_compute of some seconds). *)
From AP.Model Require Import Prelude Bytes Vocab Json JsonLeaf Text JsonDec.
Open Scope Z_scope.

(* ------------------------------------------------------------------ sweeps over an interval of Z *)
Definition zsweep_step (P : Z -> bool) (st : Z * bool) : Z * bool := (fst st + 1, snd st && P (fst st)).
Definition zsweep (P : Z -> bool) (n : N) : bool := snd (N.iter n (zsweep_step P) (0, true)).

Lemma zsweep_inv P n :
  fst (N.iter n (zsweep_step P) (0, true)) = Z.of_N n /\
  (snd (N.iter n (zsweep_step P) (0, true)) = true -> forall z, 0 <= z < Z.of_N n -> P z = true).
Proof.
  induction n as [|n [IH1 IH2]] using N.peano_ind.
  - split; [reflexivity|]. intros _ z Hz. simpl in Hz. lia.
  - rewrite N.iter_succ. unfold zsweep_step at 1 3. cbn [fst snd]. split.
    + rewrite IH1. lia.
    + rewrite andb_true_iff. intros [Ha Hb] z Hz.
      destruct (Z.eq_dec z (Z.of_N n)) as [->|Hne].
      * rewrite IH1 in Hb. exact Hb.
      * apply IH2; [exact Ha|lia].
Qed.

Lemma zsweep_sound P n : zsweep P n = true -> forall z, 0 <= z < Z.of_N n -> P z = true.
Proof. intros H. apply (proj2 (zsweep_inv P n)). exact H. Qed.

(* ------------------------------------------------------------------ the calendar *)
(* civil_from_days inside one era: (year of era, month, day) of the day-of-era *)
Definition civil_doe (doe : Z) : Z * Z * Z :=
  let yoe := (doe - doe / 1460 + doe / 36524 - doe / 146096) / 365 in
  let doy := doe - (365 * yoe + yoe / 4 - yoe / 100) in
  let mp := (5 * doy + 2) / 153 in
  let d := doy - (153 * mp + 2) / 5 + 1 in
  let m := if mp <? 10 then mp + 3 else mp - 9 in
  (yoe, m, d).

Definition doe_of (yoe m d : Z) : Z :=
  let doy := (153 * (if m >? 2 then m - 3 else m + 9) + 2) / 5 + d - 1 in
  yoe * 365 + yoe / 4 - yoe / 100 + doy.

Definition doe_ok (doe : Z) : bool :=
  let '(yoe, m, d) := civil_doe doe in
  (0 <=? yoe) && (yoe <=? 399) && (1 <=? m) && (m <=? 12) && (1 <=? d)
  && (d <=? days_in_month (if m <=? 2 then yoe + 1 else yoe) m)
  && (doe_of yoe m d =? doe).

Lemma doe_sweep : zsweep doe_ok 146097 = true.
Proof. vm_compute. reflexivity. Qed.
