(* C01, layer (a): natural-language values as a leaf.  What NaturalLanguageValues.MarshalJSON writes under the name
   JSONWriteNaturalLanguageProp chooses (term for one entry, term+"Map" for several) is read back by
   JSONGetNaturalLanguageField as the list itself; a lone entry comes back under the default language tag. *)
From AP.Model Require Import Prelude Bytes Vocab Pred Nlv Json Text Layout JsonTables JsonLeaf JsonEnc JsonTree JsonCheck JsonDec JsonNorm JsonRoundCheck.
From AP.Proofs Require Import NlvP TextP C01StrP C01FlatP C01FieldP.
Local Open Scope nat_scope.

Lemma fj_get_one ku k tv key : key_plain k = true -> key_plain key = true ->
  fj_get ku (FObj [(k, tv)]) key = if bytes_eqb k key then Some tv else None.
Proof.
  intros Hk Hq. assert (Hms : forallb (fun kv : bytes * fjv => key_plain (fst kv)) [(k, tv)] = true) by (cbn [forallb fst]; rewrite Hk; reflexivity).
  unfold fj_get. rewrite (plain_no_bs key Hq), (find_key_unescape_plain [(k, tv)] key Hms). cbn [find_key].
  destruct ku; cbn [negb andb]; destruct (bytes_eqb k key); reflexivity.
Qed.

Theorem text_roundtrip t l : key_plain t = true -> text_ok l = true ->
  exists tv, t_nlv l = Some tv /\
    get_nl_field false (FObj [((if Nat.ltb 1 (length l) then t ++ B "Map" else t), tv)]) t
    = Some (match l with [(_, s)] => [(NilRef, s)] | _ => l end).
Proof.
  intros Hp Hok. unfold text_ok in Hok. rewrite !andb_true_iff in Hok. destruct Hok as [[Hne Hall] Hnd].
  pose proof (key_plain_map t Hp) as Hpm.
  destruct l as [|[r s] [|e2 l']]; [discriminate| |].
  - cbn [forallb] in Hall. rewrite andb_true_r in Hall. destruct (ok_entryb_ok _ Hall) as [_ [_ [Hv Hs]]]. cbn [snd] in Hv, Hs.
    exists (Text.FStr (string_bytes_body false s)). split; [unfold t_nlv; destruct s; [congruence|reflexivity]|].
    cbn [length Nat.ltb Nat.leb]. unfold get_nl_field. rewrite (fj_get_one false t _ t Hp Hp), bytes_eqb_refl.
    rewrite (string_bytes_decodes false s Hv). reflexivity.
  - exists (FObj (map nlv_member ((r, s) :: e2 :: l'))). split.
    + unfold t_nlv. rewrite (nlv_kept_all _ [] Hall Hnd (fun _ _ => eq_refl)). destruct s; reflexivity.
    + change (Nat.ltb 1 (length ((r, s) :: e2 :: l'))) with true. cbv iota. unfold get_nl_field.
      rewrite (fj_get_one false (t ++ B "Map") _ t Hpm Hp). rewrite (bytes_eqb_app_ne t (B "Map")) by discriminate.
      rewrite (fj_get_one _ (t ++ B "Map") _ (t ++ B "Map") Hpm Hpm), bytes_eqb_refl.
      rewrite (nl_of_members _ Hall). reflexivity.
Qed.
