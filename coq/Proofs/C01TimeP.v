(* C01, layer (a): instants and durations.
     instants  : parse_rfc3339 (fmt_rfc3339_utc secs) = the instant secs (UTC, whole seconds)
                 for every second of the years 0000 .. 9999 (the range time.RFC3339 can write)
     durations : parse_xsd_duration (fmt_xsd_duration d) = d for every whole-second d of the int64 range except zero
                 (zero is never written), by induction over the designator groups the writer emits
   The calendar part: days_from_civil (civil_from_days z) = z with a valid civil date, for all z of that range,
   from one sweep over the 146 097 days of a 400-year era plus arithmetic in the era number. *)
From AP.Model Require Import Prelude Bytes Vocab Json JsonLeaf Text JsonDec.
From AP.Proofs Require Import NlvP TextP C01NumP C01SweepP XsdDurP XsdAgreeP TimeAgreeP.
Open Scope Z_scope.

Lemma is_leap_era y e : is_leap (y + e * 400) = is_leap y.
Proof.
  unfold is_leap.
  replace ((y + e * 400) mod 4) with (y mod 4) by (replace (e * 400) with (e * 100 * 4) by lia; rewrite Z_mod_plus_full; reflexivity).
  replace ((y + e * 400) mod 100) with (y mod 100) by (replace (e * 400) with (e * 4 * 100) by lia; rewrite Z_mod_plus_full; reflexivity).
  rewrite Z_mod_plus_full. reflexivity.
Qed.

Lemma days_in_month_era y e m : days_in_month (y + e * 400) m = days_in_month y m.
Proof. unfold days_in_month. rewrite is_leap_era. reflexivity. Qed.

Lemma civil_from_days_era z :
  let era := (z + 719468) / 146097 in
  let doe := (z + 719468) mod 146097 in
  civil_from_days z =
  let '(yoe, m, d) := civil_doe doe in ((if m <=? 2 then yoe + era * 400 + 1 else yoe + era * 400), m, d).
Proof.
  cbv zeta. unfold civil_from_days, civil_doe. rewrite Z.mod_eq by lia.
  replace ((z + 719468) - (z + 719468) / 146097 * 146097) with ((z + 719468) - 146097 * ((z + 719468) / 146097)) by lia.
  replace ((z + 719468) - 146097 * ((z + 719468) / 146097)) with ((z + 719468) - (z + 719468) / 146097 * 146097) by lia.
  reflexivity.
Qed.

Lemma days_from_civil_era yoe e m d : 0 <= yoe <= 399 ->
  days_from_civil (if m <=? 2 then yoe + e * 400 + 1 else yoe + e * 400) m d = e * 146097 + doe_of yoe m d - 719468.
Proof.
  intros Hy. unfold days_from_civil, doe_of.
  assert (E : (if m <=? 2 then (if m <=? 2 then yoe + e * 400 + 1 else yoe + e * 400) - 1
               else (if m <=? 2 then yoe + e * 400 + 1 else yoe + e * 400)) = yoe + e * 400)
    by (destruct (m <=? 2); lia).
  rewrite E.
  assert (Q : (yoe + e * 400) / 400 = e) by (rewrite Z.div_add by lia; rewrite Z.div_small by lia; lia).
  rewrite Q. replace (yoe + e * 400 - e * 400) with yoe by lia. lia.
Qed.

Definition day_dom (z : Z) : bool := (-719528 <=? z) && (z <=? 2932896).   (* 0000-01-01 .. 9999-12-31 *)

Lemma civil_roundtrip z : day_dom z = true ->
  let '(y, m, d) := civil_from_days z in
  0 <= y <= 9999 /\ 1 <= m <= 12 /\ 1 <= d <= days_in_month y m /\ days_from_civil y m d = z.
Proof.
  unfold day_dom. rewrite andb_true_iff, !Z.leb_le. intros [L U].
  pose proof (civil_from_days_era z) as E. cbv zeta in E. rewrite E. clear E.
  set (era := (z + 719468) / 146097). set (doe := (z + 719468) mod 146097).
  assert (Hd : 0 <= doe < 146097) by (apply Z.mod_pos_bound; lia).
  assert (Hz : z + 719468 = 146097 * era + doe) by (apply Z.div_mod; lia).
  assert (He : -1 <= era <= 24) by lia.
  pose proof (zsweep_sound _ _ doe_sweep doe Hd) as S. unfold doe_ok in S.
  destruct (civil_doe doe) as [[yoe m] d].
  rewrite !andb_true_iff, !Z.leb_le, Z.eqb_eq in S.
  destruct S as [[[[[[S1 S2] S3] S4] S5] S6] S7].
  assert (Hy : 0 <= yoe <= 399) by lia.
  split; [|split; [lia|split]].
  - (* the year: era -1 holds only January and February of year 0, era 24 ends with December 9999 *)
    assert (B398 : yoe <= 398 -> yoe * 365 + yoe / 4 - yoe / 100 <= 145369).
    { intros Hle. assert (yoe / 4 < 100) by (apply Z.div_lt_upper_bound; lia).
      assert (0 <= yoe / 100) by (apply Z.div_pos; lia). lia. }
    assert (B399 : yoe = 399 -> yoe * 365 + yoe / 4 - yoe / 100 = 145731) by (intros ->; reflexivity).
    assert (D31 : d <= 31).
    { unfold days_in_month in S6. destruct (m =? 2); [destruct (is_leap _); lia|].
      destruct ((m =? 4) || (m =? 6) || (m =? 9) || (m =? 11)); lia. }
    unfold doe_of in S7.
    destruct (m <=? 2) eqn:Em.
    + apply Z.leb_le in Em.
      assert (Hm : (m >? 2) = false) by (rewrite Z.gtb_ltb; apply Z.ltb_ge; lia). rewrite Hm in S7.
      assert (306 <= (153 * (m + 9) + 2) / 5) by (apply Z.div_le_lower_bound; lia).
      assert ((153 * (m + 9) + 2) / 5 <= 337) by (apply Z.div_le_upper_bound; lia).
      destruct (Z.eq_dec era 24) as [E24|N24].
      * assert (doe <= 146036) by lia.
        assert (yoe <= 398) by (destruct (Z.eq_dec yoe 399) as [E9|]; [specialize (B399 E9); lia|lia]).
        lia.
      * destruct (Z.eq_dec era (-1)) as [Em1|]; [|lia].
        assert (146037 <= doe) by lia.
        assert (399 <= yoe) by (destruct (Z_le_gt_dec yoe 398) as [Hle|]; [specialize (B398 Hle); lia|lia]).
        lia.
    + apply Z.leb_gt in Em.
      assert (Hm : (m >? 2) = true) by (rewrite Z.gtb_ltb; apply Z.ltb_lt; lia). rewrite Hm in S7.
      assert ((153 * (m - 3) + 2) / 5 < 276) by (apply Z.div_lt_upper_bound; lia).
      assert (0 <= (153 * (m - 3) + 2) / 5) by (apply Z.div_pos; lia).
      destruct (Z.eq_dec era (-1)) as [Em1|]; [|lia].
      exfalso. assert (146037 <= doe) by lia.
      destruct (Z_le_gt_dec yoe 398) as [Hle|Hgt]; [specialize (B398 Hle); lia|].
      assert (E9 : yoe = 399) by lia. specialize (B399 E9). lia.
  - split; [lia|].
    replace (if m <=? 2 then yoe + era * 400 + 1 else yoe + era * 400)
      with ((if m <=? 2 then yoe + 1 else yoe) + era * 400) by (destruct (m <=? 2); lia).
    rewrite days_in_month_era. exact S6.
  - rewrite (days_from_civil_era yoe era m d Hy), S7. lia.
Qed.

(* ------------------------------------------------------------------ fixed-width fields *)
Lemma digit_val_of b : is_digit b = true -> exists v, digit_val b = Some v /\ 0 <= v < 10.
Proof.
  intros H. unfold digit_val. rewrite H. eexists. split; [reflexivity|].
  unfold is_digit in H. rewrite andb_true_iff, !N.leb_le in H.
  pose proof (Byte.to_N_bounded b). unfold byteN in *. lia.
Qed.

Lemma dw2 n : 0 <= n < 100 -> exists p q, digits_w 2 n = [p; q] /\ num2 p q = Some n.
Proof.
  intros Hn. destruct (digits_w_spec 2 n ltac:(change (10 ^ Z.of_nat 2) with 100; lia) ltac:(lia)) as [L [D P]].
  destruct (digits_w 2 n) as [|p [|q [|? ?]]]; try discriminate. exists p, q. split; [reflexivity|].
  simpl in D. rewrite !andb_true_iff in D. destruct D as [Dp [Dq _]].
  destruct (digit_val_of p Dp) as [vp [Ep Hp]]. destruct (digit_val_of q Dq) as [vq [Eq Hq]].
  specialize (P 0 []). cbn [app parse_nat_go] in P. rewrite Ep, Eq in P. unfold num2. rewrite Ep, Eq.
  f_equal. injection P as P. change (10 ^ Z.of_nat 2) with 100 in P. lia.
Qed.

Lemma dw4 y : 0 <= y < 10000 -> exists a b c d ya yb,
  digits_w 4 y = [a; b; c; d] /\ num2 a b = Some ya /\ num2 c d = Some yb /\ ya * 100 + yb = y.
Proof.
  intros Hn. destruct (digits_w_spec 4 y ltac:(change (10 ^ Z.of_nat 4) with 10000; lia) ltac:(lia)) as [L [D P]].
  destruct (digits_w 4 y) as [|a [|b [|c [|d [|? ?]]]]]; try discriminate.
  simpl in D. rewrite !andb_true_iff in D. destruct D as [Da [Db [Dc [Dd _]]]].
  destruct (digit_val_of a Da) as [va [Ea Ha]]. destruct (digit_val_of b Db) as [vb [Eb Hb]].
  destruct (digit_val_of c Dc) as [vc [Ec Hc]]. destruct (digit_val_of d Dd) as [vd [Ed Hd]].
  specialize (P 0 []). cbn [app parse_nat_go] in P. rewrite Ea, Eb, Ec, Ed in P.
  exists a, b, c, d, (va * 10 + vb), (vc * 10 + vd). unfold num2. rewrite Ea, Eb, Ec, Ed.
  split; [reflexivity|]. split; [reflexivity|]. split; [reflexivity|]. injection P as P. change (10 ^ Z.of_nat 4) with 10000 in P. lia.
Qed.

(* ------------------------------------------------------------------ instants *)
Definition time_dom (secs : Z) : bool := (-62167219200 <=? secs) && (secs <=? 253402300799).

Theorem time_roundtrip secs : time_dom secs = true ->
  parse_rfc3339 (fmt_rfc3339_utc secs) = Some (Some {| vsecs := secs; vnanos := 0; voff := 0 |}).
Proof.
  unfold time_dom. rewrite andb_true_iff, !Z.leb_le. intros [L U].
  unfold fmt_rfc3339_utc.
  set (days := secs / 86400). set (rem := secs mod 86400).
  assert (Hr : 0 <= rem < 86400) by (apply Z.mod_pos_bound; lia).
  assert (Hs : secs = 86400 * days + rem) by (apply Z.div_mod; lia).
  assert (Hd : day_dom days = true).
  { unfold day_dom. apply andb_true_iff. split; apply Z.leb_le; lia. }
  pose proof (civil_roundtrip days Hd) as C. destruct (civil_from_days days) as [[y m] d].
  destruct C as [Hy [Hm [Hdd Hc]]].
  assert (Hdim : days_in_month y m <= 31).
  { unfold days_in_month. destruct (m =? 2); [destruct (is_leap y); lia|]. destruct ((m =? 4) || (m =? 6) || (m =? 9) || (m =? 11)); lia. }
  assert (Hh : 0 <= rem / 3600 < 24) by (split; [apply Z.div_pos; lia|apply Z.div_lt_upper_bound; lia]).
  assert (Hmi0 : 0 <= rem mod 3600 < 3600) by (apply Z.mod_pos_bound; lia).
  assert (Hmi : 0 <= rem mod 3600 / 60 < 60) by (split; [apply Z.div_pos; lia|apply Z.div_lt_upper_bound; lia]).
  assert (Hse : 0 <= rem mod 60 < 60) by (apply Z.mod_pos_bound; lia).
  destruct (dw4 y ltac:(lia)) as [a [b [c [e [ya [yb [E4 [Na [Nb Ey]]]]]]]]].
  destruct (dw2 m ltac:(lia)) as [m1 [m2 [Em Nm]]].
  destruct (dw2 d ltac:(lia)) as [d1 [d2 [Ed Nd]]].
  destruct (dw2 (rem / 3600) ltac:(lia)) as [h1 [h2 [Eh Nh]]].
  destruct (dw2 (rem mod 3600 / 60) ltac:(lia)) as [n1 [n2 [En Nn]]].
  destruct (dw2 (rem mod 60) ltac:(lia)) as [s1 [s2 [Es Ns]]].
  rewrite E4, Em, Ed, Eh, En, Es. cbn [app].
  (* shown of the fixed-width reader; the total reader of the decoder model agrees with it (Proofs/TimeAgreeP.v) *)
  apply rfc3339_grammar_agrees. unfold rfc3339_grammar.
  change (Byte.eqb x2d x2d) with true. change (Byte.eqb x54 x54) with true. change (Byte.eqb x3a x3a) with true.
  cbn [andb]. cbv iota. rewrite Na, Nb, Nm, Nd, Nh, Nn, Ns. cbv iota.
  rewrite Ey.
  assert (V : (1 <=? m) && (m <=? 12) && (1 <=? d) && (d <=? days_in_month y m) && (rem / 3600 <=? 23)
              && (rem mod 3600 / 60 <=? 59) && (rem mod 60 <=? 59) = true).
  { rewrite !andb_true_iff, !Z.leb_le. lia. }
  rewrite V. cbv iota. change (Byte.eqb x5a x5a) with true. cbv iota.
  f_equal. f_equal. f_equal. rewrite Hc.
  pose proof (Z.div_mod rem 3600 ltac:(lia)). pose proof (Z.div_mod (rem mod 3600) 60 ltac:(lia)).
  pose proof (Z.div_mod rem 60 ltac:(lia)).
  pose proof (Z.mod_pos_bound (rem mod 3600) 60 ltac:(lia)).
  lia.
Qed.

(* ------------------------------------------------------------------ durations *)
(* xsdDuration writes [-]P[nD][T[nH][nM][nS]]; the reader model (xsd.Unmarshal) reads it back, for every whole-second
   duration of the int64 range except zero (which is never written) *)
Definition take_digits : bytes -> bytes :=
  fix take (l : bytes) : bytes := match l with b :: r => if is_digit b then b :: take r else [] | [] => [] end.

Lemma xsd_parts_S f it s acc : xsd_parts (S f) it s acc =
  match s with
  | [] => Some acc
  | t :: r0 =>
      if negb it && Byte.eqb t x54 then match r0 with [] => None | _ => xsd_parts f true r0 acc end
      else
        let ds := take_digits s in
        match parse_nat ds, skipn (length ds) s with
        | Some n, u :: r =>
            if Nat.ltb 9 (length ds) then None
            else if it then
              if Byte.eqb u x48 then match add_part acc (n * 3600000000000) with Some a => xsd_parts f true r a | None => None end
              else if Byte.eqb u x4d then match add_part acc (n * 60000000000) with Some a => xsd_parts f true r a | None => None end
              else if Byte.eqb u x53 then
                match sec_nanos ds [] with Some ns => xsd_parts f true r (acc + ns) | None => None end
              else if Byte.eqb u x2e then
                let fs := take_digits r in
                match fs, skipn (length fs) r with
                | _ :: _, sb :: r' =>
                    if Byte.eqb sb x53 && Nat.leb (length fs) 30 then
                      match sec_nanos ds fs with Some ns => xsd_parts f true r' (acc + ns) | None => None end
                    else None
                | _, _ => None
                end
              else None
            else
              if Byte.eqb u x59 then match add_part acc (n * 356 * 86400000000000) with Some a => xsd_parts f false r a | None => None end
              else if Byte.eqb u x4d then match add_part acc (n * 30 * 86400000000000) with Some a => xsd_parts f false r a | None => None end
              else if Byte.eqb u x44 then match add_part acc (n * 86400000000000) with Some a => xsd_parts f false r a | None => None end
              else None
        | _, _ => None
        end
  end.
Proof. reflexivity. Qed.

Lemma take_digits_app ds u rest : forallb is_digit ds = true -> is_digit u = false -> take_digits (ds ++ u :: rest) = ds.
Proof.
  intros Hd Hu. induction ds as [|b r IH]; [cbn; rewrite Hu; reflexivity|].
  cbn [forallb] in Hd. apply andb_true_iff in Hd. destruct Hd as [Hb Hr]. cbn [app take_digits]. rewrite Hb.
  fold take_digits. rewrite (IH Hr). reflexivity.
Qed.

Lemma skipn_app_exact {A} (a b : list A) : skipn (length a) (a ++ b) = b.
Proof. induction a as [|x a IH]; [reflexivity|exact IH]. Qed.

Lemma digit_not_T b : is_digit b = true -> Byte.eqb b x54 = false.
Proof.
  assert (S : forallb (fun b => negb (is_digit b) || negb (Byte.eqb b x54)) all_bytes = true) by (vm_compute; reflexivity).
  pose proof (byte_sweep _ S b) as Hb. cbv beta in Hb. intros H. rewrite H in Hb. simpl in Hb. apply negb_true_iff in Hb. exact Hb.
Qed.

Lemma pow9_40 : 10 ^ Z.of_nat 9 < 10 ^ 40. Proof. reflexivity. Qed.

Lemma wrap64_small z : - 2 ^ 63 <= z < 2 ^ 63 -> wrap64 z = z.
Proof. intros H. unfold wrap64. change (2 ^ 64) with (2 * 2 ^ 63). rewrite Z.mod_small by lia. lia. Qed.

Lemma add_part_ok acc v : v < 2 ^ 63 -> add_part acc v = Some (acc + v).
Proof. intros H. unfold add_part. apply Z.ltb_lt in H. rewrite H. reflexivity. Qed.

(* a whole number of seconds below a minute is read exactly (float32 holds the integers below 2^24): 60 evaluations *)
Lemma sec_nanos_sweep :
  forallb (fun k => match sec_nanos (digits (Z.of_nat k)) [] with Some v => v =? Z.of_nat k * 1000000000 | None => false end) (seq 0 60) = true.
Proof. vm_compute. reflexivity. Qed.
Lemma sec_nanos_small se : 0 <= se < 60 -> sec_nanos (digits se) [] = Some (se * 1000000000).
Proof.
  intros H. pose proof sec_nanos_sweep as S. rewrite forallb_forall in S.
  specialize (S (Z.to_nat se)). rewrite Z2Nat.id in S by lia.
  destruct (sec_nanos (digits se) []) as [v|]; [|discriminate S; apply in_seq; lia].
  f_equal. apply Z.eqb_eq. apply S. apply in_seq. lia.
Qed.

(* one "number, designator" group *)
Lemma xsd_group f it n u rest acc : 0 <= n < 10 ^ Z.of_nat 9 -> is_digit u = false -> Byte.eqb u x2e = false ->
  xsd_parts (S f) it (digits n ++ u :: rest) acc =
  if it then
    if Byte.eqb u x48 then match add_part acc (n * 3600000000000) with Some a => xsd_parts f true rest a | None => None end
    else if Byte.eqb u x4d then match add_part acc (n * 60000000000) with Some a => xsd_parts f true rest a | None => None end
    else if Byte.eqb u x53 then match sec_nanos (digits n) [] with Some ns => xsd_parts f true rest (acc + ns) | None => None end
    else None
  else
    if Byte.eqb u x59 then match add_part acc (n * 356 * 86400000000000) with Some a => xsd_parts f false rest a | None => None end
    else if Byte.eqb u x4d then match add_part acc (n * 30 * 86400000000000) with Some a => xsd_parts f false rest a | None => None end
    else if Byte.eqb u x44 then match add_part acc (n * 86400000000000) with Some a => xsd_parts f false rest a | None => None end
    else None.
Proof.
  intros Hn Hu Hdot. pose proof pow9_40 as P9.
  assert (Hn40 : 0 <= n < 10 ^ 40) by lia.
  pose proof (digits_all_digit n Hn40) as Hd. pose proof (digits_len_le n 9 Hn ltac:(lia)) as Hl.
  destruct (digits_head n Hn40) as [b [r [Eb Hb]]].
  rewrite xsd_parts_S. rewrite Eb at 1. cbn [app]. rewrite (digit_not_T b Hb), andb_false_r.
  cbv zeta. rewrite (take_digits_app _ u rest Hd Hu), skipn_app_exact, (parse_nat_digits n Hn40).
  assert (Hlt : Nat.ltb 9 (length (digits n)) = false) by (apply Nat.ltb_ge; exact Hl). rewrite Hlt, Hdot. reflexivity.
Qed.

(* an optional group: written only for a positive number *)
Definition grp (n : Z) (u : byte) : bytes := if 0 <? n then digits n ++ [u] else [].

Definition dur_dom (d : Z) : bool :=
  (Z.abs d mod 1000000000 =? 0) && negb (d =? 0) && (Z.abs d <? 2 ^ 63).

Lemma xsd_time_part f h mi se acc : 0 <= h < 24 -> 0 <= mi < 60 -> 0 <= se < 60 ->
  xsd_parts (S (S (S (S f)))) true (grp h x48 ++ grp mi x4d ++ grp se x53) acc = Some (acc + (h * 3600 + mi * 60 + se) * 1000000000).
Proof.
  intros Hh Hm Hs. pose proof (pow9_40).
  assert (B9 : 10 ^ Z.of_nat 9 = 1000000000) by reflexivity.
  assert (B63 : 2 ^ 63 = 9223372036854775808) by reflexivity.
  assert (Hud48 : is_digit x48 = false) by reflexivity. assert (Hud4d : is_digit x4d = false) by reflexivity.
  assert (Hud53 : is_digit x53 = false) by reflexivity.
  (* seconds *)
  assert (S3 : forall f0 a, xsd_parts (S (S f0)) true (grp se x53) a = Some (a + se * 1000000000)).
  { intros f0 a. unfold grp. destruct (0 <? se) eqn:E.
    - rewrite (xsd_group (S f0) true se x53 [] a ltac:(lia) Hud53 eq_refl). cbn [Byte.eqb]. change (Byte.eqb x53 x48) with false.
      change (Byte.eqb x53 x4d) with false. change (Byte.eqb x53 x53) with true. cbv iota. rewrite (sec_nanos_small se Hs). reflexivity.
    - apply Z.ltb_ge in E. cbn [app]. rewrite xsd_parts_S. f_equal. lia. }
  (* minutes, then seconds *)
  assert (S2 : forall f0 a, xsd_parts (S (S (S f0))) true (grp mi x4d ++ grp se x53) a = Some (a + (mi * 60 + se) * 1000000000)).
  { intros f0 a. unfold grp at 1. destruct (0 <? mi) eqn:E.
    - rewrite <- app_assoc. cbn [app]. rewrite (xsd_group (S (S f0)) true mi x4d (grp se x53) a ltac:(lia) Hud4d eq_refl).
      change (Byte.eqb x4d x48) with false. change (Byte.eqb x4d x4d) with true. cbv iota.
      rewrite (add_part_ok a (mi * 60000000000)) by lia. rewrite S3. f_equal. lia.
    - apply Z.ltb_ge in E. cbn [app]. rewrite S3. f_equal. lia. }
  unfold grp at 1. destruct (0 <? h) eqn:E.
  - rewrite <- app_assoc. cbn [app]. rewrite (xsd_group (S (S (S f))) true h x48 _ acc ltac:(lia) Hud48 eq_refl).
    change (Byte.eqb x48 x48) with true. cbv iota. rewrite (add_part_ok acc (h * 3600000000000)) by lia. rewrite S2. f_equal. lia.
  - apply Z.ltb_ge in E. cbn [app]. rewrite S2. f_equal. lia.
Qed.

Lemma grp_time_nonempty h mi se : 0 <= h -> 0 <= mi -> 0 <= se -> 0 < h * 3600 + mi * 60 + se ->
  grp h x48 ++ grp mi x4d ++ grp se x53 <> [].
Proof.
  intros Hh Hm Hs Hp. unfold grp.
  destruct (0 <? h) eqn:E1; [destruct (digits h); discriminate|].
  destruct (0 <? mi) eqn:E2; [cbn [app]; destruct (digits mi); discriminate|].
  destruct (0 <? se) eqn:E3; [cbn [app]; destruct (digits se); discriminate|].
  apply Z.ltb_ge in E1, E2, E3. lia.
Qed.

Lemma fmt_xsd_shape d : dur_dom d = true ->
  let s := Z.abs d / 1000000000 in
  let r := s mod 86400 in
  fmt_xsd_duration d =
  Some ((if d <? 0 then [x2d] else []) ++ x50 ::
        grp (s / 86400) x44 ++
        (if 0 <? r then x54 :: grp (r / 3600) x48 ++ grp (r mod 3600 / 60) x4d ++ grp (r mod 60) x53 else [])).
Proof.
  unfold dur_dom. rewrite !andb_true_iff. intros [[H1 H2] H3]. cbv zeta.
  (* on whole seconds the printer is the one without the float formatting of the seconds (XsdDurP.fmt_xsd_whole) *)
  rewrite (fmt_xsd_whole d); [|apply Z.eqb_eq; exact H1|apply Z.eqb_neq; apply negb_true_iff; exact H2].
  unfold fmt_xsd_duration_whole. rewrite H1, H2. cbn [andb].
  unfold grp. reflexivity.
Qed.

Theorem dur_roundtrip d : dur_dom d = true ->
  exists b, fmt_xsd_duration d = Some b /\ parse_xsd_duration b = Some d.
Proof.
  intros Hdom. pose proof (fmt_xsd_shape d Hdom) as Hf. cbv zeta in Hf. eexists. split; [exact Hf|].
  unfold dur_dom in Hdom. rewrite !andb_true_iff, negb_true_iff, Z.eqb_eq, Z.eqb_neq, Z.ltb_lt in Hdom. destruct Hdom as [[H1 H2] H3].
  set (s := Z.abs d / 1000000000) in *. set (r := s mod 86400) in *.
  assert (Ha : Z.abs d = 1000000000 * s) by (pose proof (Z.div_mod (Z.abs d) 1000000000 ltac:(lia)); lia).
  assert (Hs : 0 < s) by (destruct (Z_le_gt_dec s 0); [exfalso; assert (0 <= s) by (apply Z.div_pos; lia); lia|lia]).
  assert (Hr : 0 <= r < 86400) by (apply Z.mod_pos_bound; lia).
  assert (Hsd : s = 86400 * (s / 86400) + r) by (apply Z.div_mod; lia).
  assert (Hdd : 0 <= s / 86400 < 10 ^ Z.of_nat 9).
  { split; [apply Z.div_pos; lia|]. change (10 ^ Z.of_nat 9) with 1000000000. apply Z.div_lt_upper_bound; [lia|].
    change (2 ^ 63) with 9223372036854775808 in H3. lia. }
  assert (Hh : 0 <= r / 3600 < 24) by (split; [apply Z.div_pos; lia|apply Z.div_lt_upper_bound; lia]).
  assert (Hm0 : 0 <= r mod 3600 < 3600) by (apply Z.mod_pos_bound; lia).
  assert (Hm : 0 <= r mod 3600 / 60 < 60) by (split; [apply Z.div_pos; lia|apply Z.div_lt_upper_bound; lia]).
  assert (Hse : 0 <= r mod 60 < 60) by (apply Z.mod_pos_bound; lia).
  assert (Hrsum : r = r / 3600 * 3600 + r mod 3600 / 60 * 60 + r mod 60).
  { pose proof (Z.div_mod r 3600 ltac:(lia)). pose proof (Z.div_mod (r mod 3600) 60 ltac:(lia)).
    pose proof (Z.div_mod r 60 ltac:(lia)). pose proof (Z.mod_pos_bound (r mod 3600) 60 ltac:(lia)). lia. }
  (* the body behind the sign and the P *)
  set (body := grp (s / 86400) x44 ++
               (if 0 <? r then x54 :: grp (r / 3600) x48 ++ grp (r mod 3600 / 60) x4d ++ grp (r mod 60) x53 else [])).
  assert (B63 : 2 ^ 63 = 9223372036854775808) by reflexivity.
  assert (Hbody : body <> [] /\ xsd_parts 12 false body 0 = Some (s * 1000000000)).
  { unfold body. destruct (0 <? s / 86400) eqn:Ed.
    - split; [unfold grp at 1; rewrite Ed; destruct (digits (s / 86400)); discriminate|].
      unfold grp at 1. rewrite Ed. rewrite <- app_assoc. cbn [app]. rewrite (xsd_group 11 false (s / 86400) x44 _ 0 Hdd eq_refl eq_refl).
      change (Byte.eqb x44 x59) with false. change (Byte.eqb x44 x4d) with false. change (Byte.eqb x44 x44) with true. cbv iota.
      rewrite (add_part_ok 0 (s / 86400 * 86400000000000)) by lia.
      destruct (0 <? r) eqn:Er.
      + rewrite xsd_parts_S. change (negb false && Byte.eqb x54 x54) with true. cbv iota.
        apply Z.ltb_lt in Er.
        pose proof (grp_time_nonempty _ _ _ (proj1 Hh) (proj1 Hm) (proj1 Hse) ltac:(lia)) as Hne.
        destruct (grp (r / 3600) x48 ++ grp (r mod 3600 / 60) x4d ++ grp (r mod 60) x53) eqn:Eg; [congruence|]. rewrite <- Eg.
        rewrite (xsd_time_part 6 _ _ _ _ Hh Hm Hse). f_equal. lia.
      + apply Z.ltb_ge in Er. cbn. f_equal. lia.
    - assert (Eg0 : grp (s / 86400) x44 = []) by (unfold grp; rewrite Ed; reflexivity). rewrite Eg0.
      apply Z.ltb_ge in Ed. cbn [app]. assert (E0 : s / 86400 = 0) by lia.
      destruct (0 <? r) eqn:Er; [|apply Z.ltb_ge in Er; lia].
      split; [discriminate|]. rewrite xsd_parts_S. change (negb false && Byte.eqb x54 x54) with true. cbv iota.
      apply Z.ltb_lt in Er.
      pose proof (grp_time_nonempty _ _ _ (proj1 Hh) (proj1 Hm) (proj1 Hse) ltac:(lia)) as Hne.
      destruct (grp (r / 3600) x48 ++ grp (r mod 3600 / 60) x4d ++ grp (r mod 60) x53) eqn:Eg; [congruence|]. rewrite <- Eg.
      rewrite (xsd_time_part 7 _ _ _ _ Hh Hm Hse). f_equal. lia. }
  destruct Hbody as [Hbne Hbp]. fold body.
  assert (Hmatch : forall (A : Type) (b0 : bytes) (x y : A), b0 <> [] -> match b0 with [] => x | _ :: _ => y end = y)
    by (intros A b0 x y Hb0; destruct b0; congruence).
  clearbody body.
  (* shown of the reader on the grammar; the total reader of the decoder model agrees with it (Proofs/XsdAgreeP.v) *)
  apply xsd_grammar_agrees. unfold xsd_duration_grammar. destruct (d <? 0) eqn:Eneg.
  - cbn [app]. change (Byte.eqb x2d x2d) with true. cbv iota. change (Byte.eqb x50 x50) with true. cbv iota.
    rewrite (Hmatch _ body _ _ Hbne), Hbp. f_equal. apply Z.ltb_lt in Eneg. rewrite wrap64_small by lia. lia.
  - cbn [app]. change (Byte.eqb x50 x2d) with false. cbv iota. change (Byte.eqb x50 x50) with true. cbv iota.
    rewrite (Hmatch _ body _ _ Hbne), Hbp. f_equal. apply Z.ltb_ge in Eneg. rewrite wrap64_small by lia. lia.
Qed.
