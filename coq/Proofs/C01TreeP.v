(* C01, layer (b), first half: the encoder model IS the printer applied to the tree interpreter,
     enc_item tables fuel x = option_map oprint (tree_item tables fuel x)
   for every item x, every fuel and every table list (no condition on the tables at all). *)
From AP.Model Require Import Prelude Bytes Vocab Pred Json JsonLeaf JsonTables Dispatch Text JsonEnc JsonTree.
From AP.Proofs Require Import NlvP TextP.
Local Open Scope nat_scope.

Lemma fprint_FArr l : fprint (FArr l) = x5b :: join_with comma (map fprint l) ++ [x5d].
Proof.
  cbn [fprint].
  assert (E : (fix go (l : list fjv) : list bytes := match l with [] => [] | x :: r => fprint x :: go r end) l = map fprint l).
  { induction l as [|x r IH]; [reflexivity|]. cbn [map]. rewrite IH. reflexivity. }
  rewrite E. reflexivity.
Qed.
Lemma fprint_FObj kvs : fprint (FObj kvs) = x7b :: join_with comma (map pmember kvs) ++ [x7d].
Proof.
  cbn [fprint].
  assert (E : (fix go (m : list (bytes * fjv)) : list bytes :=
                 match m with [] => [] | kv :: r => member (fst kv) (fprint (snd kv)) :: go r end) kvs = map pmember kvs).
  { induction kvs as [|x r IH]; [reflexivity|]. cbn [map]. rewrite IH. reflexivity. }
  rewrite E. reflexivity.
Qed.

Lemma digits_go_nonempty f n acc : digits_go (S f) n acc <> [].
Proof.
  revert n acc. induction f as [|f IH]; intros n acc.
  - cbn [digits_go]. destruct (n <? 10)%Z; discriminate.
  - remember (S f) as f1. cbn [digits_go]. destruct (n <? 10)%Z; [discriminate|]. subst f1. apply IH.
Qed.
Lemma fmt_int_nonempty z : fmt_int z <> [].
Proof. unfold fmt_int, digits. destruct (z <? 0)%Z; [discriminate|apply digits_go_nonempty]. Qed.
Lemma fmt_float_nonempty m : fmt_float m <> [].
Proof.
  unfold fmt_float. destruct (m <? 0)%Z; [discriminate|]. cbn [app].
  intros H. apply app_eq_nil in H. destruct H as [H _]. exact (digits_go_nonempty _ _ _ H).
Qed.

Definition nonempty (b : bytes) : bool := match b with [] => false | _ => true end.

(* what a value prints as is never empty, provided its number tokens are not *)
Definition nums_ok (v : fjv) : bool :=
  match v with
  | FNum tok => nonempty tok
  | _ => true
  end.
Lemma fprint_nonempty v : nums_ok v = true -> nonempty (fprint v) = true.
Proof. destruct v; cbn [fprint nums_ok]; intros H; try reflexivity; exact H. Qed.

Definition onums_ok (o : option fjv) : bool := match o with Some v => nums_ok v | None => true end.
Lemma oprint_nonempty o : onums_ok o = true -> nonempty (oprint o) = osome o.
Proof. destruct o as [v|]; [apply fprint_nonempty|reflexivity]. Qed.

(* guards look only at the emptiness of the value bytes *)
Lemma eval_guard_bytes fs b b' g : nonempty b = nonempty b' -> eval_guard fs b g = eval_guard fs b' g.
Proof. intros H. destruct g; try reflexivity. cbn [eval_guard]. f_equal. exact H. Qed.
Lemma eval_guards_bytes fs b b' gs : nonempty b = nonempty b' -> eval_guards fs b gs = eval_guards fs b' gs.
Proof.
  intros H. induction gs as [|g r IH]; [reflexivity|]. cbn [eval_guards]. rewrite (eval_guard_bytes fs b b' g H), IH. reflexivity.
Qed.

(* ------------------------------------------------------------------ natural-language values *)
Lemma sb_member r v :
  JsonLeaf.string_bytes false r ++ [x3a] ++ JsonLeaf.string_bytes false v =
  pmember (string_bytes_body false r, Text.FStr (string_bytes_body false v)).
Proof.
  unfold pmember, member, JsonLeaf.string_bytes, string_bytes_body. cbn [fst snd fprint].
  rewrite <- app_comm_cons. f_equal. rewrite <- app_assoc. reflexivity.
Qed.

Lemma w_map_entry_ne r v : r <> [] -> v <> [] ->
  w_map_entry (r, v) = JsonLeaf.string_bytes false r ++ [x3a] ++ JsonLeaf.string_bytes false v.
Proof.
  intros Hr Hv. unfold w_map_entry, w_lrv. cbn [fst].
  destruct (bytes_eqb r nil_iri) eqn:E.
  - cbn [negb andb]. reflexivity.
  - cbn [negb andb]. destruct r; [congruence|]. destruct v; [congruence|]. reflexivity.
Qed.

Lemma nlv_kept_nonempty l : forall keys e, In e (nlv_kept keys l) -> fst e <> [] /\ snd e <> [].
Proof.
  induction l as [|e0 r IH]; intros keys e H; [destruct H|]. cbn [nlv_kept] in H.
  destruct (fst e0) eqn:E1; [exact (IH _ _ H)|]. destruct (snd e0) eqn:E2; [exact (IH _ _ H)|]. cbv zeta in H.
  destruct (existsb _ keys); [exact (IH _ _ H)|]. destruct H as [<-|H]; [|exact (IH _ _ H)].
  rewrite E1, E2. split; discriminate.
Qed.

Lemma nlv_parts (kept : list (bytes * bytes)) : (forall e, In e kept -> fst e <> [] /\ snd e <> []) ->
  flat_map (fun e : bytes * bytes => match w_map_entry e with [] => [] | b => [b] end) kept = map pmember (map nlv_member kept).
Proof.
  induction kept as [|e r IH]; intros H; [reflexivity|]. cbn [flat_map map]. rewrite <- IH by (intros e' He'; apply H; right; exact He').
  destruct (H e (or_introl eq_refl)) as [H1 H2]. destruct e as [k v]. cbn [fst snd] in H1, H2.
  match goal with |- context [w_map_entry ?p] => rewrite (w_map_entry_ne k v H1 H2 : w_map_entry p = _) end.
  rewrite sb_member. unfold nlv_member. cbn [fst snd].
  unfold pmember at 1, member. reflexivity.
Qed.

Lemma w_nlv_tree l : w_nlv l = oprint (t_nlv l).
Proof.
  unfold w_nlv, w_nlv_gen, t_nlv. destruct l as [|e l]; [reflexivity|].
  assert (M : (match flat_map (fun e : bytes * bytes => match w_map_entry e with [] => [] | b => [b] end) (nlv_kept [] (e :: l)) with
               | [] => []
               | _ :: _ => x7b :: join_with comma (flat_map (fun e : bytes * bytes => match w_map_entry e with [] => [] | b => [b] end)
                                                     (nlv_kept [] (e :: l))) ++ [x7d]
               end) = oprint (match map nlv_member (nlv_kept [] (e :: l)) with [] => None | parts => Some (FObj parts) end)).
  { rewrite (nlv_parts _ (nlv_kept_nonempty (e :: l) [])).
    destruct (map nlv_member (nlv_kept [] (e :: l))) as [|p ps] eqn:E; [reflexivity|].
    cbn [oprint]. rewrite fprint_FObj. reflexivity. }
  destruct e as [k v]. destruct l as [|e2 l].
  - destruct v as [|v0 v].
    + exact M.
    + reflexivity.
  - destruct v; exact M.
Qed.

Lemma parts_nums (parts : list (bytes * fjv)) :
  onums_ok (match parts with [] => None | p :: l0 => Some (FObj (p :: l0)) end) = true.
Proof. destruct parts; reflexivity. Qed.

Lemma t_nlv_nums l : onums_ok (t_nlv l) = true.
Proof.
  unfold t_nlv. destruct l as [|[k v] [|e2 l]]; [reflexivity| |].
  - destruct v; [apply parts_nums|reflexivity].
  - destruct v; apply parts_nums.
Qed.

Lemma w_quoted_tree s : w_quoted s = oprint (t_quoted s).
Proof. destruct s; reflexivity. Qed.
Lemma t_quoted_nums s : onums_ok (t_quoted s) = true.
Proof. destruct s; reflexivity. Qed.

(* ------------------------------------------------------------------ the interpreters, statement by statement *)
Definition lift_st (p : list (bytes * fjv) * bool) : list bytes * bool := (map pmember (fst p), snd p).
Definition lift_val (p : bytes * option fjv * bool) : bytes * bytes * bool := (fst (fst p), oprint (snd (fst p)), snd p).

Section Corr.
  Variable jw_tables : list (bytes * bool * list wstmt).
  Variable enc_i : item -> option bytes.
  Variable t_i : item -> option (option fjv).
  Variable run : bytes -> list (fid * fval) -> option (list bytes * bool).
  Variable t_run : bytes -> list (fid * fval) -> option (list (bytes * fjv) * bool).
  Hypothesis Hi : forall i, enc_i i = option_map oprint (t_i i).
  Hypothesis Hi_nums : forall i o, t_i i = Some o -> onums_ok o = true.
  Hypothesis Hrun : forall n fs, run n fs = option_map lift_st (t_run n fs).

  Lemma struct_tree name fs :
    (match run name fs with
     | Some (ms, ne) => Some (if ne then x7b :: join_with comma ms ++ [x7d] else [])
     | None => None
     end) = option_map oprint (t_struct t_run name fs).
  Proof.
    unfold t_struct. rewrite Hrun. destruct (t_run name fs) as [[ms ne]|]; [|reflexivity].
    cbn [option_map]; unfold lift_st; cbn [fst snd]. destruct ne; [|reflexivity]. cbn [oprint]. rewrite fprint_FObj. reflexivity.
  Qed.

  Lemma struct_nums name fs o : t_struct t_run name fs = Some o -> onums_ok o = true.
  Proof.
    unfold t_struct. destruct (t_run name fs) as [[ms ne]|]; [|discriminate]. intros H. inversion H. destruct ne; reflexivity.
  Qed.

  Lemma coll_go_tree term l : forall acc_b acc_t, acc_b = map fprint acc_t ->
    (fix go (l : list item) (acc : list bytes) : option (bytes * bytes * bool) :=
       match l with
       | [] => Some (term, x5b :: join_with comma (rev acc) ++ [x5d], true)
       | i :: r => match enc_i i with
                   | Some [] => go r acc
                   | Some b => go r (b :: acc)
                   | None => None
                   end
       end) l acc_b
    = option_map lift_val
      ((fix go (l : list item) (acc : list fjv) : option (bytes * option fjv * bool) :=
          match l with
          | [] => Some (term, Some (FArr (rev acc)), true)
          | i :: r => match t_i i with
                      | Some None => go r acc
                      | Some (Some t) => go r (t :: acc)
                      | None => None
                      end
          end) l acc_t).
  Proof.
    induction l as [|i r IH]; intros acc_b acc_t E.
    - cbv beta iota fix. cbn [option_map]; unfold lift_val; cbn [fst snd oprint]. rewrite fprint_FArr, map_rev, E. reflexivity.
    - cbv beta iota fix. fold (@rev bytes). fold (@rev fjv). rewrite Hi. destruct (t_i i) as [[t|]|] eqn:Et; cbn [option_map oprint].
      + pose proof (Hi_nums i _ Et) as Hn. cbn [onums_ok] in Hn. pose proof (fprint_nonempty t Hn) as Hne.
        destruct (fprint t) as [|c b'] eqn:Ef; [discriminate|]. rewrite <- Ef. apply IH. rewrite E. reflexivity.
      + apply IH. exact E.
      + reflexivity.
  Qed.

  Lemma value_tree writer via term v :
    write_value enc_i run writer via term v = option_map lift_val (t_value t_i t_run writer via term v).
  Proof.
    unfold write_value, t_value.
    destruct (bytes_eqb writer (B "JSONWriteItemProp")).
    { destruct v as [[i|l| | | | | | | | | | | ]|]; try reflexivity.
      - rewrite Hi. destruct (t_i i) as [o|] eqn:Et; [|reflexivity]. cbn [option_map]; unfold lift_val; cbn [fst snd].
        rewrite <- (oprint_nonempty o (Hi_nums _ _ Et)). reflexivity.
      - rewrite Hi. destruct (t_i (IItems false l)) as [o|] eqn:Et; [|reflexivity]. cbn [option_map]; unfold lift_val; cbn [fst snd].
        rewrite <- (oprint_nonempty o (Hi_nums _ _ Et)). reflexivity. }
    destruct (bytes_eqb writer (B "JSONWriteItemCollectionProp")).
    { destruct v as [[i|[[|x l]|]| | | | | | | | | | | ]|]; try reflexivity.
      apply (coll_go_tree term (x :: l) [] []). reflexivity. }
    destruct (bytes_eqb writer (B "JSONWriteNaturalLanguageProp")).
    { destruct v as [[i|l|[l|]| | | | | | | | | | ]|]; try reflexivity.
      cbn [option_map]; unfold lift_val; cbn [fst snd]. rewrite w_nlv_tree. rewrite <- (oprint_nonempty _ (t_nlv_nums l)). reflexivity. }
    destruct (bytes_eqb writer (B "JSONWriteProp")).
    { destruct v as [[i|l|l|s| | | | | | |mt c|[e|]|id o p]|]; try reflexivity.
      - destruct (bytes_eqb via (B "MarshalJSON:ID")), (bytes_eqb via (B "MarshalJSON:IRI")),
                 (bytes_eqb via (B "MarshalJSON:ActivityVocabularyType")), (bytes_eqb via (B "MarshalJSON:MimeType")),
                 (bytes_eqb via (B "json.Marshal")); cbn [orb]; try reflexivity;
          cbn [option_map]; unfold lift_val; cbn [fst snd];
          rewrite w_quoted_tree, <- (oprint_nonempty _ (t_quoted_nums s)); reflexivity.
      - pose proof (struct_tree (B "Source_MarshalJSON") (source_fields mt c)) as S.
        destruct (run (B "Source_MarshalJSON") (source_fields mt c)) as [[ms ne]|];
          destruct (t_struct t_run (B "Source_MarshalJSON") (source_fields mt c)) as [o'|] eqn:Eo; try discriminate; [|reflexivity].
        cbn [option_map] in S. inversion S as [S']. rewrite S'. cbn [option_map]; unfold lift_val; cbn [fst snd].
        rewrite <- (oprint_nonempty o' (struct_nums _ _ _ Eo)). reflexivity.
      - pose proof (struct_tree (B "Endpoints_MarshalJSON") (endpoints_fields e)) as S.
        destruct (run (B "Endpoints_MarshalJSON") (endpoints_fields e)) as [[ms ne]|];
          destruct (t_struct t_run (B "Endpoints_MarshalJSON") (endpoints_fields e)) as [o|] eqn:Eo; try discriminate; [|reflexivity].
        cbn [option_map] in S. inversion S as [S']. rewrite S'. cbn [option_map]; unfold lift_val; cbn [fst snd].
        rewrite <- (oprint_nonempty o (struct_nums _ _ _ Eo)). reflexivity.
      - pose proof (struct_tree (B "PublicKey_MarshalJSON") (pubkey_fields id o p)) as S.
        destruct (run (B "PublicKey_MarshalJSON") (pubkey_fields id o p)) as [[ms ne]|];
          destruct (t_struct t_run (B "PublicKey_MarshalJSON") (pubkey_fields id o p)) as [o'|] eqn:Eo; try discriminate; [|reflexivity].
        cbn [option_map] in S. inversion S as [S']. rewrite S'. cbn [option_map]; unfold lift_val; cbn [fst snd].
        rewrite <- (oprint_nonempty o' (struct_nums _ _ _ Eo)). reflexivity. }
    destruct (bytes_eqb writer (B "JSONWriteTimeProp")).
    { destruct v as [[ | | | |t| | | | | | | | ]|]; try reflexivity. destruct (time_writable t); reflexivity. }
    destruct (bytes_eqb writer (B "JSONWriteDurationProp")).
    { destruct v as [[ | | | | |d| | | | | | | ]|]; try reflexivity; try (destruct (fmt_xsd_duration d); reflexivity). }
    destruct (bytes_eqb writer (B "JSONWriteIntProp")); [reflexivity|].
    destruct (bytes_eqb writer (B "JSONWriteFloatProp")); [reflexivity|].
    destruct (bytes_eqb writer (B "JSONWriteBoolProp")).
    { destruct v as [[ | | | | | | | |[|]| | | | ]|]; reflexivity. }
    destruct (bytes_eqb writer (B "JSONWriteStringProp")).
    { destruct v as [[ | | |s| | | | | | | | | ]|]; reflexivity. }
    destruct (bytes_eqb writer (B "JSONWriteIRIProp")).
    { destruct v as [[ | | |[|c s]| | | | | | | | | ]|]; reflexivity. }
    reflexivity.
  Qed.

  Lemma coll_go_nums term l : forall acc t o r,
      (fix go (l : list item) (acc : list fjv) : option (bytes * option fjv * bool) :=
          match l with
          | [] => Some (term, Some (FArr (rev acc)), true)
          | i :: r => match t_i i with
                      | Some None => go r acc
                      | Some (Some t) => go r (t :: acc)
                      | None => None
                      end
          end) l acc = Some (t, o, r) -> onums_ok o = true.
  Proof.
    induction l as [|i0 r0 IH]; intros acc t o r H.
    - inversion H. reflexivity.
    - cbv beta iota fix in H. destruct (t_i i0) as [[t0|]|]; [apply (IH _ _ _ _ H)|apply (IH _ _ _ _ H)|discriminate].
  Qed.

  Lemma value_nums writer via term v t o r : t_value t_i t_run writer via term v = Some (t, o, r) -> onums_ok o = true.
  Proof.
    unfold t_value.
    destruct (bytes_eqb writer (B "JSONWriteItemProp")).
    { destruct v as [[i|l| | | | | | | | | | | ]|]; try discriminate.
      - destruct (t_i i) as [o'|] eqn:Et; [|discriminate]. intros H. inversion H; subst. exact (Hi_nums _ _ Et).
      - destruct (t_i (IItems false l)) as [o'|] eqn:Et; [|discriminate]. intros H. inversion H; subst. exact (Hi_nums _ _ Et).
      - intros H. inversion H. reflexivity. }
    destruct (bytes_eqb writer (B "JSONWriteItemCollectionProp")).
    { destruct v as [[i|[[|x l]|]| | | | | | | | | | | ]|]; try discriminate; try (intros H; inversion H; reflexivity).
      intros H. exact (coll_go_nums term (x :: l) [] _ _ _ H). }
    destruct (bytes_eqb writer (B "JSONWriteNaturalLanguageProp")).
    { destruct v as [[i|l|[l|]| | | | | | | | | | ]|]; try discriminate; intros H; inversion H; try reflexivity. apply t_nlv_nums. }
    destruct (bytes_eqb writer (B "JSONWriteProp")).
    { destruct v as [[i|l|l|s| | | | | | |mt c|[e|]|id o' p]|]; try discriminate; try (intros H; inversion H; reflexivity).
      - destruct (bytes_eqb via (B "MarshalJSON:ID")), (bytes_eqb via (B "MarshalJSON:IRI")),
                 (bytes_eqb via (B "MarshalJSON:ActivityVocabularyType")), (bytes_eqb via (B "MarshalJSON:MimeType")),
                 (bytes_eqb via (B "json.Marshal")); cbn [orb]; try discriminate;
          intros H; inversion H; try apply t_quoted_nums; reflexivity.
      - destruct (t_struct t_run (B "Source_MarshalJSON") (source_fields mt c)) as [o'|] eqn:Eo; [|discriminate].
        intros H. inversion H; subst. exact (struct_nums _ _ _ Eo).
      - destruct (t_struct t_run (B "Endpoints_MarshalJSON") (endpoints_fields e)) as [o'|] eqn:Eo; [|discriminate].
        intros H. inversion H; subst. exact (struct_nums _ _ _ Eo).
      - destruct (t_struct t_run (B "PublicKey_MarshalJSON") (pubkey_fields id o' p)) as [o''|] eqn:Eo; [|discriminate].
        intros H. inversion H; subst. exact (struct_nums _ _ _ Eo). }
    destruct (bytes_eqb writer (B "JSONWriteTimeProp")).
    { destruct v as [[ | | | |t0| | | | | | | | ]|]; try discriminate. destruct (time_writable t0); intros H; inversion H; reflexivity. }
    destruct (bytes_eqb writer (B "JSONWriteDurationProp")).
    { destruct v as [[ | | | | |d| | | | | | | ]|]; try discriminate. destruct (fmt_xsd_duration d); [|discriminate]. intros H. inversion H. reflexivity. }
    destruct (bytes_eqb writer (B "JSONWriteIntProp")).
    { intros H. inversion H. cbn [onums_ok nums_ok]. pose proof (fmt_int_nonempty (num_of v)). destruct (fmt_int (num_of v)); [congruence|reflexivity]. }
    destruct (bytes_eqb writer (B "JSONWriteFloatProp")).
    { intros H. inversion H. cbn [onums_ok nums_ok]. pose proof (fmt_float_nonempty (num_of v)). destruct (fmt_float (num_of v)); [congruence|reflexivity]. }
    destruct (bytes_eqb writer (B "JSONWriteBoolProp")).
    { intros H. inversion H. destruct v as [[ | | | | | | | |[|]| | | | ]|]; reflexivity. }
    destruct (bytes_eqb writer (B "JSONWriteStringProp")).
    { destruct v as [[ | | |s| | | | | | | | | ]|]; try discriminate; intros H; inversion H; reflexivity. }
    destruct (bytes_eqb writer (B "JSONWriteIRIProp")).
    { destruct v as [[ | | |[|c s]| | | | | | | | | ]|]; try discriminate; intros H; inversion H; reflexivity. }
    discriminate.
  Qed.

  Lemma lift_st_pair ms ne : lift_st (ms, ne) = (map pmember ms, ne).
  Proof. reflexivity. Qed.

  Lemma stmts_tree stmts fs : forall st,
    enc_stmts enc_i run stmts fs (lift_st st) = option_map lift_st (t_stmts t_i t_run stmts fs st).
  Proof.
    induction stmts as [|s rest IH]; intros [ms ne]; [reflexivity|].
    rewrite lift_st_pair. cbn [enc_stmts t_stmts].
    destruct s as [term writer path via guards acc pos|on fn acc pos|src pos].
    - destruct (eval_guards fs [x30] (filter (fun g => match g with GValNonEmpty => false | _ => true end) guards)) as [[|]|];
        [|rewrite <- lift_st_pair; apply (IH (ms, ne))|reflexivity].
      rewrite value_tree. destruct (t_value t_i t_run writer via term (path_get path fs)) as [[[term' o] r]|] eqn:Ev; [|reflexivity].
      cbn [option_map]; unfold lift_val; cbn [fst snd].
      pose proof (value_nums _ _ _ _ _ _ _ Ev) as Hn.
      rewrite (eval_guards_bytes fs (oprint o) (guard_bytes o) guards)
        by (rewrite (oprint_nonempty o Hn); destruct o; reflexivity).
      destruct (eval_guards fs (guard_bytes o) guards) as [[|]|]; [|rewrite <- lift_st_pair; apply (IH (ms, ne))|reflexivity].
      destruct (apply_acc acc r ne) as [ne'|]; [|reflexivity].
      destruct o as [t|].
      + cbn [oprint]. cbn [onums_ok] in Hn. pose proof (fprint_nonempty t Hn) as Hne.
        destruct (fprint t) as [|c b'] eqn:Ef; [discriminate|]. rewrite <- Ef. cbv beta iota.
        rewrite <- (IH (ms ++ [(term', t)], ne')). rewrite lift_st_pair, map_app. reflexivity.
      + cbn [oprint]. cbv beta iota. rewrite <- lift_st_pair. apply (IH (ms, ne')).
    - destruct fn as [|f0 fn]; [rewrite <- lift_st_pair; apply (IH (ms, ne))|].
      rewrite Hrun. destruct (t_run (f0 :: fn) fs) as [[ms' r]|]; [|reflexivity].
      cbn [option_map]. rewrite lift_st_pair. destruct (apply_acc acc r ne) as [ne'|]; [|reflexivity].
      rewrite <- (IH (ms ++ ms', ne')). rewrite lift_st_pair, map_app. reflexivity.
    - reflexivity.
  Qed.
End Corr.

Section Items.
  Variable jw_tables : list (bytes * bool * list wstmt).

  Lemma run_table_tree enc_i t_i :
    (forall i, enc_i i = option_map oprint (t_i i)) -> (forall i o, t_i i = Some o -> onums_ok o = true) ->
    forall depth name fs,
      run_table jw_tables depth enc_i name fs = option_map lift_st (t_run_table jw_tables depth t_i name fs).
  Proof.
    intros Hi Hn. induction depth as [|d IH]; intros name fs; [reflexivity|].
    cbn [run_table t_run_table]. destruct (jw_table jw_tables name) as [[init stmts]|]; [|reflexivity].
    apply (stmts_tree enc_i t_i (run_table jw_tables d enc_i) (t_run_table jw_tables d t_i) Hi Hn IH stmts fs ([], init)).
  Qed.

  Lemma items_go_tree enc_i t_i l :
    (forall i, enc_i i = option_map oprint (t_i i)) -> (forall i o, t_i i = Some o -> onums_ok o = true) ->
    forall acc_b acc_t, acc_b = map fprint acc_t ->
    (fix go (l : list item) (acc : list bytes) : option bytes :=
       match l with
       | [] => Some (x5b :: join_with comma (rev acc) ++ [x5d])
       | x :: r => match enc_i x with
                   | Some [] => go r acc
                   | Some b => go r (b :: acc)
                   | None => None
                   end
       end) l acc_b
    = option_map oprint
      ((fix go (l : list item) (acc : list fjv) : option (option fjv) :=
          match l with
          | [] => Some (Some (FArr (rev acc)))
          | x :: r => match t_i x with
                      | Some None => go r acc
                      | Some (Some t) => go r (t :: acc)
                      | None => None
                      end
          end) l acc_t).
  Proof.
    intros Hi Hn. induction l as [|i r IH]; intros acc_b acc_t E.
    - cbv beta iota fix. cbn [option_map oprint]. rewrite fprint_FArr, map_rev, E. reflexivity.
    - cbv beta iota fix. rewrite Hi. destruct (t_i i) as [[t|]|] eqn:Et; cbn [option_map oprint].
      + pose proof (Hn i _ Et) as Hnn. cbn [onums_ok] in Hnn. pose proof (fprint_nonempty t Hnn) as Hne.
        destruct (fprint t) as [|c b'] eqn:Ef; [discriminate|]. rewrite <- Ef. apply IH. rewrite E. reflexivity.
      + apply IH. exact E.
      + reflexivity.
  Qed.

  Lemma items_go_nums t_i l :
    (forall i o, t_i i = Some o -> onums_ok o = true) ->
    forall acc o,
    (fix go (l : list item) (acc : list fjv) : option (option fjv) :=
          match l with
          | [] => Some (Some (FArr (rev acc)))
          | x :: r => match t_i x with
                      | Some None => go r acc
                      | Some (Some t) => go r (t :: acc)
                      | None => None
                      end
          end) l acc = Some o -> onums_ok o = true.
  Proof.
    intros Hn. induction l as [|i r IH]; intros acc o H.
    - inversion H. reflexivity.
    - destruct (t_i i) as [[t|]|]; [apply (IH _ _ H)|apply (IH _ _ H)|discriminate].
  Qed.

  Theorem enc_item_tree : forall fuel i,
    enc_item jw_tables fuel i = option_map oprint (tree_item jw_tables fuel i)
    /\ (forall o, tree_item jw_tables fuel i = Some o -> onums_ok o = true).
  Proof.
    induction fuel as [|f IH]; intros i; [split; [reflexivity|discriminate]|].
    assert (Hi : forall x, enc_item jw_tables f x = option_map oprint (tree_item jw_tables f x)) by (intros x; apply IH).
    assert (Hn : forall x o, tree_item jw_tables f x = Some o -> onums_ok o = true) by (intros x; apply IH).
    destruct i as [|k|p s|p k fs|p [l|]|p [l|]].
    - split; [reflexivity|]. intros o H. inversion H. reflexivity.
    - split; [reflexivity|]. intros o H. inversion H. reflexivity.
    - cbn [enc_item tree_item]. destruct (is_nil (IIri p s)).
      + split; [reflexivity|]. intros o H. inversion H. reflexivity.
      + split; [cbn [option_map]; rewrite w_quoted_tree; reflexivity|]. intros o H. inversion H. apply t_quoted_nums.
    - cbn [enc_item tree_item]. split.
      + pose proof (struct_tree (run_table jw_tables 6 (enc_item jw_tables f)) (t_run_table jw_tables 6 (tree_item jw_tables f))
                      (run_table_tree _ _ Hi Hn 6) (marshal_table k) fs) as S.
        exact S.
      + intros o H. exact (struct_nums _ _ _ _ H).
    - destruct l as [|x [|y l]].
      + split; [reflexivity|]. intros o H. inversion H. reflexivity.
      + cbn [enc_item tree_item]. apply IH.
      + split.
        * exact (items_go_tree _ _ (x :: y :: l) Hi Hn [] [] eq_refl).
        * intros o H. exact (items_go_nums _ (x :: y :: l) Hn [] o H).
    - split; [reflexivity|]. intros o H. inversion H. reflexivity.
    - destruct p; (destruct l as [|s l];
        [split; [reflexivity|]; intros o H; inversion H; reflexivity
        |split; [|intros o H; inversion H; reflexivity];
         cbn [enc_item tree_item option_map oprint]; rewrite fprint_FArr, map_map; reflexivity]).
    - destruct p; (split; [reflexivity|]; intros o H; inversion H; reflexivity).
  Qed.

  Corollary marshal_json_tree i : marshal_json jw_tables i = option_map oprint (tree_of jw_tables i).
  Proof. apply enc_item_tree. Qed.
End Items.
