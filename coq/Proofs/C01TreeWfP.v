(* C01, layer (b): every tree the encoder writes is readable by the parser model.
   For every item x and every table list whose member names are closed under the string scan,
   tree_of x = Some (Some v) -> wf_fjv v = true.  With C01TreeP (enc = print of the tree) and C01ParseP (the
   parser reads printed trees) this gives  fj_parse (enc x) = Ok v  for every x whose document nests at most
   300 deep. *)
From AP.Model Require Import Prelude Bytes Vocab Pred Json JsonLeaf JsonTables Dispatch Text JsonEnc JsonTree.
From AP.Proofs Require Import NlvP TextP C01NumP C01StrP C01TreeP C01ParseP.
Local Open Scope nat_scope.

(* ------------------------------------------------------------------ leaves, for ALL values *)
Lemma digits_go_all_digit f : forall n acc, forallb is_digit acc = true -> forallb is_digit (digits_go f n acc) = true.
Proof.
  induction f as [|f IH]; intros n acc Ha; [exact Ha|].
  cbn [digits_go]. fold (dg (n mod 10)).
  assert (Hm : (0 <= n mod 10 < 10)%Z) by (apply Z.mod_pos_bound; lia).
  destruct (dg_props _ Hm) as [_ [Hd _]].
  assert (Ha' : forallb is_digit (dg (n mod 10) :: acc) = true) by (simpl; rewrite Hd; exact Ha).
  destruct (n <? 10)%Z; [exact Ha'|apply IH, Ha'].
Qed.
Lemma digits_digit n : forallb is_digit (digits n) = true.
Proof. apply digits_go_all_digit. reflexivity. Qed.
Lemma digits_w_digit w n : forallb is_digit (digits_w w n) = true.
Proof.
  unfold digits_w. rewrite forallb_app, digits_digit, andb_true_r.
  induction (w - length (digits n)); [reflexivity|exact IHn0].
Qed.

(* bytes the string scan passes over: no quote, no backslash *)
Lemma plain_raw_ok l : forallb plain l = true -> raw_ok l = true.
Proof.
  induction l as [|b r IH]; [reflexivity|]. simpl forallb. rewrite andb_true_iff. intros [Hb Hr].
  rewrite (raw_ok_plain b r Hb). apply IH, Hr.
Qed.
Lemma digit_plain b : is_digit b = true -> plain b = true.
Proof.
  intros H. destruct (is_digit_facts b H) as [_ [_ [_ [Hq Hs]]]]. unfold plain. rewrite Hq, Hs. reflexivity.
Qed.
Lemma digits_plain l : forallb is_digit l = true -> forallb plain l = true.
Proof.
  induction l as [|b r IH]; [reflexivity|]. simpl. rewrite !andb_true_iff. intros [Hb Hr]. split; [apply digit_plain, Hb|apply IH, Hr].
Qed.

Lemma dp n : forallb plain (digits n) = true.
Proof. apply digits_plain, digits_digit. Qed.
Lemma dwp w n : forallb plain (digits_w w n) = true.
Proof. apply digits_plain, digits_w_digit. Qed.

Lemma fmt_time_plain secs : forallb plain (fmt_rfc3339_utc secs) = true.
Proof.
  unfold fmt_rfc3339_utc. destruct (civil_from_days (secs / 86400)) as [[y m] d].
  rewrite !forallb_app, !dwp. reflexivity.
Qed.
Lemma fmt_time_raw_ok secs : raw_ok (fmt_rfc3339_utc secs) = true.
Proof. apply plain_raw_ok, fmt_time_plain. Qed.

Lemma repeat_zero_plain k : forallb plain (repeat x30 k) = true.
Proof. induction k; [reflexivity|]. cbn [repeat forallb]. rewrite IHk. reflexivity. Qed.
Lemma fmt_go_seconds_plain_t r : forallb plain (fmt_go_seconds r) = true.
Proof.
  unfold fmt_go_seconds. destruct (go_seconds r) as [m e]. destruct (shortest64 m e) as [t q]. unfold fmt_f_shortest.
  destruct (0 <=? q)%Z; cbv zeta; rewrite ?forallb_app, ?dp, ?dwp, ?repeat_zero_plain; reflexivity.
Qed.
Lemma fmt_dur_plain d b : fmt_xsd_duration d = Some b -> forallb plain b = true.
Proof.
  unfold fmt_xsd_duration. intros H. inversion H. clear H H1.
  repeat match goal with |- context [if ?c then _ else _] => destruct c end;
    cbn [app]; repeat (rewrite ?forallb_app; cbn [forallb]); rewrite ?dp, ?fmt_go_seconds_plain_t; reflexivity.
Qed.
Lemma fmt_dur_raw_ok d b : fmt_xsd_duration d = Some b -> raw_ok b = true.
Proof. intros H. apply plain_raw_ok. exact (fmt_dur_plain d b H). Qed.

Lemma fj_unescape_plain_all l : forallb plain l = true -> fj_unescape l = l.
Proof.
  induction l as [|b r IH]; [reflexivity|]. simpl forallb. rewrite andb_true_iff. intros [Hb Hr].
  rewrite (fj_unescape_plain b r (plain_not_bs b Hb)), (IH Hr). reflexivity.
Qed.

Lemma digits_numch l : forallb is_digit l = true -> forallb is_numch l = true.
Proof.
  induction l as [|b r IH]; [reflexivity|]. simpl. rewrite !andb_true_iff. intros [Hb Hr].
  destruct (is_digit_facts b Hb) as [_ [_ [Hn _]]]. split; [exact Hn|apply IH, Hr].
Qed.

Lemma fmt_int_tok z : num_tok_ok (fmt_int z) = true.
Proof.
  unfold fmt_int, num_tok_ok. destruct (z <? 0)%Z.
  - pose proof (digits_go_nonempty 39 (- z) []) as Hne. fold (digits (- z)) in Hne.
    simpl forallb. rewrite (digits_numch _ (digits_digit _)). destruct (digits (- z)); [congruence|reflexivity].
  - pose proof (digits_go_nonempty 39 z []) as Hne. fold (digits z) in Hne.
    pose proof (digits_digit z) as Hd. rewrite (digits_numch _ Hd).
    destruct (digits z) as [|c [|c2 r]]; [congruence| |reflexivity].
    simpl in Hd. rewrite andb_true_r in Hd. destruct (is_digit_facts c Hd) as [Hm _]. simpl.
    rewrite Hm. assert (Byte.eqb c x2b = false).
    { assert (S : forallb (fun b => negb (is_digit b) || negb (Byte.eqb b x2b)) all_bytes = true) by (vm_compute; reflexivity).
      pose proof (byte_sweep _ S c) as Hc. cbv beta in Hc. rewrite Hd in Hc. simpl in Hc. apply negb_true_iff in Hc. exact Hc. }
    rewrite H. reflexivity.
Qed.

Lemma fmt_float_tok m : num_tok_ok (fmt_float m) = true.
Proof.
  unfold fmt_float, num_tok_ok. apply andb_true_iff. split.
  - rewrite !forallb_app. rewrite (digits_numch _ (digits_digit _)), (digits_numch _ (digits_w_digit _ _)).
    destruct (m <? 0)%Z; reflexivity.
  - pose proof (digits_go_nonempty 39 (Z.abs m / 1000000) []) as Hne. fold (digits (Z.abs m / 1000000)) in Hne.
    destruct (m <? 0)%Z; cbn [app].
    + destruct (digits (Z.abs m / 1000000)); [congruence|reflexivity].
    + destruct (digits (Z.abs m / 1000000)) as [|c r]; [congruence|]. cbn [app]. destruct r; reflexivity.
Qed.

Definition owf (o : option fjv) : bool := match o with Some v => wf_fjv v | None => true end.
Definition member_wf (kv : bytes * fjv) : bool := raw_ok (fst kv) && wf_fjv (snd kv).

Lemma t_quoted_wf s : owf (t_quoted s) = true.
Proof. destruct s; [reflexivity|]. cbn [t_quoted owf wf_fjv]. apply escape_quote_raw_ok. Qed.

Lemma sbody_raw_ok html s : raw_ok (string_bytes_body html s) = true.
Proof. rewrite string_bytes_body_sbody. apply (raw_ok_sbody_n html (length s)). lia. Qed.

Lemma t_nlv_wf l : owf (t_nlv l) = true.
Proof.
  assert (P : forall kept, forallb member_wf (map nlv_member kept) = true).
  { induction kept as [|e r IH]; [reflexivity|]. cbn [map forallb]. rewrite IH, andb_true_r.
    unfold member_wf, nlv_member; cbn [fst snd wf_fjv]. rewrite !sbody_raw_ok. reflexivity. }
  assert (Q : forall parts, forallb member_wf parts = true ->
              owf (match parts with [] => None | p :: l0 => Some (FObj (p :: l0)) end) = true).
  { intros parts H. destruct parts; [reflexivity|]. cbn [owf]. rewrite wf_FObj. exact H. }
  unfold t_nlv. destruct l as [|[k v] [|e2 l]]; [reflexivity| |].
  - destruct v; [apply Q, P|]. cbn [owf wf_fjv]. apply sbody_raw_ok.
  - destruct v; apply Q, P.
Qed.

(* ------------------------------------------------------------------ the interpreter *)
Definition stmt_term_ok (s : wstmt) : bool :=
  match s with
  | WProp term _ _ _ _ _ _ => raw_ok term && raw_ok (term ++ B "Map")
  | _ => true
  end.
Definition terms_raw_ok (jw_tables : list (bytes * bool * list wstmt)) : bool :=
  forallb (fun t => forallb stmt_term_ok (snd t)) jw_tables.

Section Wf.
  Variable t_i : item -> option (option fjv).
  Variable t_run : bytes -> list (fid * fval) -> option (list (bytes * fjv) * bool).
  Hypothesis Hi : forall i o, t_i i = Some o -> owf o = true.
  Hypothesis Hrun : forall n fs ms ne, t_run n fs = Some (ms, ne) -> forallb member_wf ms = true.

  Lemma struct_wf name fs o : t_struct t_run name fs = Some o -> owf o = true.
  Proof.
    unfold t_struct. destruct (t_run name fs) as [[ms ne]|] eqn:E; [|discriminate]. intros H. inversion H.
    destruct ne; [|reflexivity]. cbn [owf]. rewrite wf_FObj. exact (Hrun _ _ _ _ E).
  Qed.

  Lemma coll_go_wf term l : forall acc t o r, forallb wf_fjv acc = true ->
      (fix go (l : list item) (acc : list fjv) : option (bytes * option fjv * bool) :=
          match l with
          | [] => Some (term, Some (FArr (rev acc)), true)
          | i :: r => match t_i i with
                      | Some None => go r acc
                      | Some (Some t) => go r (t :: acc)
                      | None => None
                      end
          end) l acc = Some (t, o, r) -> owf o = true /\ (t = term).
  Proof.
    induction l as [|i0 r0 IH]; intros acc t o r Ha H.
    - inversion H. split; [|reflexivity]. cbn [owf]. rewrite wf_FArr, forallb_forall. intros x Hx. apply in_rev in Hx.
      rewrite forallb_forall in Ha. apply Ha, Hx.
    - cbv beta iota fix in H. destruct (t_i i0) as [[t0|]|] eqn:Et; [| |discriminate].
      + apply (IH (t0 :: acc) t o r); [|exact H]. simpl. rewrite Ha, andb_true_r. exact (Hi _ _ Et).
      + apply (IH acc t o r Ha H).
  Qed.

  (* the value is well formed and the term used is the table's term or term ++ "Map" *)
  Lemma value_wf writer via term v t o r : t_value t_i t_run writer via term v = Some (t, o, r) ->
    owf o = true /\ (t = term \/ t = term ++ B "Map").
  Proof.
    unfold t_value.
    destruct (bytes_eqb writer (B "JSONWriteItemProp")).
    { destruct v as [[i|l| | | | | | | | | | | ]|]; try discriminate.
      - destruct (t_i i) as [o'|] eqn:Et; [|discriminate]. intros H. inversion H; subst. split; [exact (Hi _ _ Et)|left; reflexivity].
      - destruct (t_i (IItems false l)) as [o'|] eqn:Et; [|discriminate]. intros H. inversion H; subst. split; [exact (Hi _ _ Et)|left; reflexivity].
      - intros H. inversion H. split; [reflexivity|left; reflexivity]. }
    destruct (bytes_eqb writer (B "JSONWriteItemCollectionProp")).
    { destruct v as [[i|[[|x l]|]| | | | | | | | | | | ]|]; try discriminate;
        try (intros H; inversion H; split; [reflexivity|left; reflexivity]).
      intros H. destruct (coll_go_wf term (x :: l) [] _ _ _ eq_refl H) as [H1 H2]. split; [exact H1|left; exact H2]. }
    destruct (bytes_eqb writer (B "JSONWriteNaturalLanguageProp")).
    { destruct v as [[i|l|[l|]| | | | | | | | | | ]|]; try discriminate; intros H; inversion H;
        try (split; [reflexivity|left; reflexivity]).
      split; [apply t_nlv_wf|]. destruct (Nat.ltb 1 (length l)); [right|left]; reflexivity. }
    destruct (bytes_eqb writer (B "JSONWriteProp")).
    { destruct v as [[i|l|l|s| | | | | | |mt c|[e|]|id o' p]|]; try discriminate;
        try (intros H; inversion H; split; [reflexivity|left; reflexivity]).
      - destruct (bytes_eqb via (B "MarshalJSON:ID")), (bytes_eqb via (B "MarshalJSON:IRI")),
                 (bytes_eqb via (B "MarshalJSON:ActivityVocabularyType")), (bytes_eqb via (B "MarshalJSON:MimeType")),
                 (bytes_eqb via (B "json.Marshal")); cbn [orb]; try discriminate;
          intros H; inversion H; (split; [|left; reflexivity]); try apply t_quoted_wf; cbn [owf wf_fjv]; apply sbody_raw_ok.
      - destruct (t_struct t_run (B "Source_MarshalJSON") (source_fields mt c)) as [o'|] eqn:Eo; [|discriminate].
        intros H. inversion H; subst. split; [exact (struct_wf _ _ _ Eo)|left; reflexivity].
      - destruct (t_struct t_run (B "Endpoints_MarshalJSON") (endpoints_fields e)) as [o'|] eqn:Eo; [|discriminate].
        intros H. inversion H; subst. split; [exact (struct_wf _ _ _ Eo)|left; reflexivity].
      - destruct (t_struct t_run (B "PublicKey_MarshalJSON") (pubkey_fields id o' p)) as [o''|] eqn:Eo; [|discriminate].
        intros H. inversion H; subst. split; [exact (struct_wf _ _ _ Eo)|left; reflexivity]. }
    destruct (bytes_eqb writer (B "JSONWriteTimeProp")).
    { destruct v as [[ | | | |t0| | | | | | | | ]|]; try discriminate.
      destruct (time_writable t0); intros H; inversion H; (split; [|left; reflexivity]); [|reflexivity]. cbn [owf wf_fjv]. apply fmt_time_raw_ok. }
    destruct (bytes_eqb writer (B "JSONWriteDurationProp")).
    { destruct v as [[ | | | | |d| | | | | | | ]|]; try discriminate. destruct (fmt_xsd_duration d) as [b|] eqn:Ed; [|discriminate].
      intros H. inversion H. split; [|left; reflexivity]. cbn [owf wf_fjv]. exact (fmt_dur_raw_ok _ _ Ed). }
    destruct (bytes_eqb writer (B "JSONWriteIntProp")).
    { intros H. inversion H. split; [|left; reflexivity]. cbn [owf wf_fjv]. apply fmt_int_tok. }
    destruct (bytes_eqb writer (B "JSONWriteFloatProp")).
    { intros H. inversion H. split; [|left; reflexivity]. cbn [owf wf_fjv]. apply fmt_float_tok. }
    destruct (bytes_eqb writer (B "JSONWriteBoolProp")).
    { intros H. inversion H. split; [|left; reflexivity]. destruct v as [[ | | | | | | | |[|]| | | | ]|]; reflexivity. }
    destruct (bytes_eqb writer (B "JSONWriteStringProp")).
    { destruct v as [[ | | |s| | | | | | | | | ]|]; try discriminate; intros H; inversion H; (split; [|left; reflexivity]);
        cbn [owf wf_fjv]; apply escape_quote_raw_ok. }
    destruct (bytes_eqb writer (B "JSONWriteIRIProp")).
    { destruct v as [[ | | |[|c s]| | | | | | | | | ]|]; try discriminate; intros H; inversion H; (split; [|left; reflexivity]);
        try reflexivity. cbn [owf wf_fjv]. apply escape_quote_raw_ok. }
    discriminate.
  Qed.

  Lemma stmts_wf stmts fs : forallb stmt_term_ok stmts = true -> forall st ms' ne',
    forallb member_wf (fst st) = true ->
    t_stmts t_i t_run stmts fs st = Some (ms', ne') -> forallb member_wf ms' = true.
  Proof.
    induction stmts as [|s rest IH]; intros Hterms [ms ne] ms' ne' Hms H.
    - inversion H; subst. exact Hms.
    - cbn [forallb] in Hterms. apply andb_true_iff in Hterms. destruct Hterms as [Hs Hrest].
      cbn [t_stmts] in H. destruct s as [term writer path via guards acc pos|on fn acc pos|src pos].
      + destruct (eval_guards fs [x30] (filter (fun g => match g with GValNonEmpty => false | _ => true end) guards)) as [[|]|];
          [|exact (IH Hrest _ _ _ Hms H)|discriminate].
        destruct (t_value t_i t_run writer via term (path_get path fs)) as [[[term' o] r]|] eqn:Ev; [|discriminate].
        destruct (eval_guards fs (guard_bytes o) guards) as [[|]|]; [|exact (IH Hrest _ _ _ Hms H)|discriminate].
        destruct (apply_acc acc r ne) as [ne2|]; [|discriminate].
        destruct (value_wf _ _ _ _ _ _ _ Ev) as [Ho Ht].
        apply (IH Hrest _ _ _) in H; [exact H|]. cbn [fst] in *. destruct o as [t|]; [|exact Hms].
        rewrite forallb_app, Hms. unfold member_wf at 1; cbn [forallb fst snd]. cbn [owf] in Ho. rewrite Ho, !andb_true_r.
        cbn [stmt_term_ok] in Hs. apply andb_true_iff in Hs. destruct Ht as [->| ->]; tauto.
      + destruct fn as [|f0 fn]; [exact (IH Hrest _ _ _ Hms H)|].
        destruct (t_run (f0 :: fn) fs) as [[ms2 r]|] eqn:Er; [|discriminate].
        destruct (apply_acc acc r ne) as [ne2|]; [|discriminate].
        apply (IH Hrest _ _ _) in H; [exact H|]. cbn [fst] in *. rewrite forallb_app, Hms. exact (Hrun _ _ _ _ Er).
      + discriminate.
  Qed.
End Wf.

Section ItemsWf.
  Variable jw_tables : list (bytes * bool * list wstmt).
  Hypothesis Hterms : terms_raw_ok jw_tables = true.

  Lemma jw_table_terms name init stmts : jw_table jw_tables name = Some (init, stmts) -> forallb stmt_term_ok stmts = true.
  Proof.
    unfold jw_table. destruct (find _ jw_tables) as [[[n i] st]|] eqn:E; [|discriminate]. intros H. inversion H; subst.
    apply find_some in E. destruct E as [E _]. unfold terms_raw_ok in Hterms. rewrite forallb_forall in Hterms.
    exact (Hterms _ E).
  Qed.

  Lemma run_table_wf t_i : (forall i o, t_i i = Some o -> owf o = true) ->
    forall depth name fs ms ne, t_run_table jw_tables depth t_i name fs = Some (ms, ne) -> forallb member_wf ms = true.
  Proof.
    intros Hi. induction depth as [|d IH]; intros name fs ms ne H; [discriminate|].
    cbn [t_run_table] in H. destruct (jw_table jw_tables name) as [[init stmts]|] eqn:E; [|discriminate].
    exact (stmts_wf t_i (t_run_table jw_tables d t_i) Hi IH stmts fs (jw_table_terms _ _ _ E) ([], init) ms ne eq_refl H).
  Qed.

  Lemma items_go_wf t_i l : (forall i o, t_i i = Some o -> owf o = true) ->
    forall acc o, forallb wf_fjv acc = true ->
    (fix go (l : list item) (acc : list fjv) : option (option fjv) :=
          match l with
          | [] => Some (Some (FArr (rev acc)))
          | x :: r => match t_i x with
                      | Some None => go r acc
                      | Some (Some t) => go r (t :: acc)
                      | None => None
                      end
          end) l acc = Some o -> owf o = true.
  Proof.
    intros Hi. induction l as [|i r IH]; intros acc o Ha H.
    - inversion H. cbn [owf]. rewrite wf_FArr, forallb_forall. intros x Hx. apply in_rev in Hx.
      rewrite forallb_forall in Ha. apply Ha, Hx.
    - cbv beta iota fix in H. destruct (t_i i) as [[t|]|] eqn:Et; [| |discriminate].
      + apply (IH (t :: acc) _); [|exact H]. simpl. rewrite Ha, andb_true_r. exact (Hi _ _ Et).
      + apply (IH acc _ Ha H).
  Qed.

  Theorem tree_item_wf : forall fuel i o, tree_item jw_tables fuel i = Some o -> owf o = true.
  Proof.
    induction fuel as [|f IH]; intros i o H; [discriminate|].
    destruct i as [|k|p s|p k fs|p [l|]|p [l|]]; cbn [tree_item] in H.
    - inversion H. reflexivity.
    - inversion H. reflexivity.
    - destruct (is_nil (IIri p s)); inversion H; [reflexivity|apply t_quoted_wf].
    - exact (struct_wf _ (run_table_wf _ IH 6) _ _ _ H).
    - destruct l as [|x [|y l]].
      + inversion H. reflexivity.
      + exact (IH _ _ H).
      + exact (items_go_wf _ (x :: y :: l) IH [] o eq_refl H).
    - inversion H. reflexivity.
    - destruct p; (destruct l as [|s l]; inversion H; [reflexivity|]; cbn [owf]; rewrite wf_FArr, forallb_forall;
      intros x Hx; destruct Hx as [<-|Hx]; [cbn [wf_fjv]; apply escape_quote_raw_ok|];
      apply in_map_iff in Hx; destruct Hx as [s0 [<- _]]; cbn [wf_fjv]; apply escape_quote_raw_ok).
    - destruct p; inversion H; reflexivity.
  Qed.

  Corollary tree_of_wf i v : tree_of jw_tables i = Some (Some v) -> wf_fjv v = true.
  Proof. intros H. exact (tree_item_wf _ _ _ H). Qed.

  (* layer (b), assembled: the parser model reads what the encoder model writes *)
  Theorem parse_marshal i v : tree_of jw_tables i = Some (Some v) -> fdepth v <= 300 ->
    exists b, marshal_json jw_tables i = Some b /\ fj_parse b = Ok v.
  Proof.
    intros Ht Hd. exists (fprint v). split.
    - rewrite marshal_json_tree, Ht. reflexivity.
    - apply parse_doc_fprint; [exact Hd|exact (tree_of_wf _ _ Ht)].
  Qed.
End ItemsWf.
