From AP.Model Require Import Prelude Bytes Vocab Json Text JsonDec JsonCodec TextUnm.
From AP.Proofs Require Import ParseTotalP.

Lemma dec_total b r : dec b = Some r -> (exists i, r = Ok i) \/ r = Err.
Proof.
  unfold dec, unmarshal_json. destruct (fj_parse_total b) as [[v Hv]|He].
  - rewrite Hv. destruct (unmarshal_to_item _ _ _ _ _ _ _ v) as [i|]; [|discriminate].
    intros H; inversion H; subst. left. eexists; reflexivity.
  - rewrite He. intros H; inversion H; subst. right; reflexivity.
Qed.

Lemma text_unmarshal_total d : is_panic (nlv_unmarshal_text d) = false /\ is_panic (content_unmarshal d) = false.
Proof.
  split.
  - unfold nlv_unmarshal_text. destruct d as [|c r]; [reflexivity|].
    destruct (Byte.eqb c dquote); [|reflexivity].
    destruct (Nat.ltb (length (c :: r)) 2 || negb (last_is_quote (c :: r))); reflexivity.
  - unfold content_unmarshal. destruct d as [|c r]; [reflexivity|].
    destruct (Nat.ltb 2 (length (c :: r))); [|reflexivity].
    destruct (Byte.eqb c dquote && last_is_quote (c :: r)); reflexivity.
Qed.
