(* C05, "the encoded bytes no longer change", from the FIRST re-encoding on (builder b42):
        wf x  ->  tree_of (norm x) = tree_of x        hence        enc (norm x) = enc x
   for every write table (no condition on the tables at all), every layout without a repeated field.
   The encoder's tree interpreter (Model/JsonTree.v, proved equal to the executable encoder in Proofs/C01TreeP.v)
   looks at a field list only through getf; what the normal form changes in a well-formed value - value / pointer form,
   field order, the tag of a lone text, nanoseconds and zone of an instant, a one-element list in an item position -
   is invisible to every writer and every guard.  Two inductions on the size of the item: the fuel of the tree
   interpreter does not matter beyond the size (for well-formed items), then the invariance. *)
From AP.Model Require Import Prelude Bytes Vocab Pred Url IriEq Nlv Json Text Equal Coll Dispatch Layout JsonTables JsonLeaf
     JsonEnc JsonTree JsonCheck JsonDec JsonNorm JsonRoundCheck.
From AP.Proofs Require Import NlvP TextP C01TreeP C01FlatP C01ItemP C01FieldP C01LeafP C01RoundP C01NormP C05FixP.
Local Open Scope nat_scope.

Section Cong.
  Variable jw : list (bytes * bool * list wstmt).

  (* a statement list sees the field list through path_get and the guards only *)
  Lemma stmts_cong (T T' : item -> option (option fjv))
        (R R' : bytes -> list (fid * fval) -> option (list (bytes * fjv) * bool)) fs fs' :
    (forall path w via term, t_value T R w via term (path_get path fs) = t_value T' R' w via term (path_get path fs')) ->
    (forall b gs, eval_guards fs b gs = eval_guards fs' b gs) ->
    (forall fn, R fn fs = R' fn fs') ->
    forall stmts st, t_stmts T R stmts fs st = t_stmts T' R' stmts fs' st.
  Proof.
    intros H1 H2 H3. induction stmts as [|s rest IH]; intro st; [reflexivity|].
    destruct st as [ms ne]. destruct s as [term writer path via guards acc pos|on fn acc pos|src pos]; cbn [t_stmts].
    - rewrite <- H2. destruct (eval_guards fs [x30] (filter (fun g => match g with GValNonEmpty => false | _ => true end) guards)) as [[|]|];
        [|apply IH|reflexivity].
      rewrite <- H1. destruct (t_value T R writer via term (path_get path fs)) as [[[term' o] r]|]; [|reflexivity].
      rewrite <- H2. destruct (eval_guards fs (guard_bytes o) guards) as [[|]|]; [|apply IH|reflexivity].
      destruct (apply_acc acc r ne); [apply IH|reflexivity].
    - destruct fn as [|c fn']; [apply IH|]. rewrite <- H3.
      destruct (R (c :: fn') fs) as [[ms' r]|]; [|reflexivity]. destruct (apply_acc acc r ne); [apply IH|reflexivity].
    - reflexivity.
  Qed.

  Lemma run_table_cong (T T' : item -> option (option fjv)) fs fs' :
    (forall d path w via term, t_value T (t_run_table jw d T) w via term (path_get path fs)
                               = t_value T' (t_run_table jw d T') w via term (path_get path fs')) ->
    (forall b gs, eval_guards fs b gs = eval_guards fs' b gs) ->
    forall d name, t_run_table jw d T name fs = t_run_table jw d T' name fs'.
  Proof.
    intros H1 H2. induction d as [|d IH]; intro name; [reflexivity|]. cbn [t_run_table].
    destruct (jw_table jw name) as [[init stmts]|]; [|reflexivity].
    apply stmts_cong; [apply H1|exact H2|intro fn; apply IH].
  Qed.
End Cong.

(* ------------------------------------------------------------------ lookups in an endpoints list in struct order *)
Lemma efind_eiso l f : (forall q, In q l -> in_eorder (fst q) = true) -> efind f (endpoints_in_struct_order l) = efind f l.
Proof.
  intros H. rewrite eiso_unfold, (filter_nil _ l) by (intros q Hq; rewrite (H q Hq); reflexivity). rewrite app_nil_r, efind_picked.
  destruct (existsb (fid_beq f) endpoints_struct_order) eqn:E; [reflexivity|].
  symmetry. apply efind_none. intros q Hq Hf. specialize (H q Hq). unfold in_eorder in H. rewrite Hf, E in H. discriminate.
Qed.

(* a struct value given to a writer: only JSONWriteProp looks inside it *)
Lemma t_value_struct_cong T T' R R' w via term v v' :
  match v, v' with
  | FSource mt c, FSource mt' c' =>
      t_struct R (B "Source_MarshalJSON") (source_fields mt c) = t_struct R' (B "Source_MarshalJSON") (source_fields mt' c')
  | FEndpoints (Some e), FEndpoints (Some e') =>
      t_struct R (B "Endpoints_MarshalJSON") (endpoints_fields e) = t_struct R' (B "Endpoints_MarshalJSON") (endpoints_fields e')
  | FPubKey a b c, FPubKey a' b' c' =>
      t_struct R (B "PublicKey_MarshalJSON") (pubkey_fields a b c) = t_struct R' (B "PublicKey_MarshalJSON") (pubkey_fields a' b' c')
  | _, _ => False
  end ->
  t_value T R w via term (Some v) = t_value T' R' w via term (Some v').
Proof.
  intros H. unfold t_value.
  destruct v as [ | | | | | | | | | |mt c|[e|]|a b c]; try destruct H;
    destruct v' as [ | | | | | | | | | |mt' c'|[e'|]|a' b' c']; try destruct H;
    repeat (match goal with |- context [if bytes_eqb w ?x then _ else _] => destruct (bytes_eqb w x) end; try reflexivity);
    rewrite H; reflexivity.
Qed.

Section Inv.
  Variable jw : list (bytes * bool * list wstmt).
  Variable layout_of : kind -> list fdecl.
  Variable registry load_switch : bytes -> option kind.
  Variable activity_types actor_types link_types : list bytes.
  Hypothesis Hlayout : forall k, NoDup (map fd_fid (layout_of k)).

  Notation tr := (tree_item jw).
  Notation wf := (wf_item layout_of registry load_switch activity_types actor_types link_types).
  Notation wfv := (wf_fval layout_of registry load_switch activity_types actor_types link_types).
  Notation nrm := (norm_item layout_of).
  Notation nrmv := (norm_fval layout_of).

  (* a field value of a well-formed object, or an unset field *)
  Definition wfo (o : option fval) : Prop := match o with None => True | Some v => exists ty, wfv ty v = true end.

  (* the loops of the tree interpreter over a list, given two item interpreters that agree on the members *)
  Lemma go_arr_ext (A A' : item -> option (option fjv)) (l l' : list item) :
    Forall2 (fun x x' => A x = A' x') l l' -> forall acc,
    (fix go (l : list item) (acc : list fjv) : option (option fjv) :=
       match l with
       | [] => Some (Some (FArr (rev acc)))
       | x :: r => match A x with Some None => go r acc | Some (Some t) => go r (t :: acc) | None => None end
       end) l acc
    = (fix go (l : list item) (acc : list fjv) : option (option fjv) :=
         match l with
         | [] => Some (Some (FArr (rev acc)))
         | x :: r => match A' x with Some None => go r acc | Some (Some t) => go r (t :: acc) | None => None end
         end) l' acc.
  Proof.
    induction 1 as [|x x' l l' E _ IH]; intro acc; [reflexivity|]. rewrite E.
    destruct (A' x') as [[t|]|]; [apply IH|apply IH|reflexivity].
  Qed.

  Lemma go_coll_ext (A A' : item -> option (option fjv)) term (l l' : list item) :
    Forall2 (fun x x' => A x = A' x') l l' -> forall acc,
    (fix go (l : list item) (acc : list fjv) : option (bytes * option fjv * bool) :=
       match l with
       | [] => Some (term, Some (FArr (rev acc)), true)
       | i :: r => match A i with Some None => go r acc | Some (Some t) => go r (t :: acc) | None => None end
       end) l acc
    = (fix go (l : list item) (acc : list fjv) : option (bytes * option fjv * bool) :=
         match l with
         | [] => Some (term, Some (FArr (rev acc)), true)
         | i :: r => match A' i with Some None => go r acc | Some (Some t) => go r (t :: acc) | None => None end
         end) l' acc.
  Proof.
    induction 1 as [|x x' l l' E _ IH]; intro acc; [reflexivity|]. rewrite E.
    destruct (A' x') as [[t|]|]; [apply IH|apply IH|reflexivity].
  Qed.

  (* a list in an item position: tree_item (S f) on a list runs tree_item f on the members *)
  Lemma tree_list_ext f f' p p' (l l' : list item) :
    Forall2 (fun x x' => tr f x = tr f' x') l l' ->
    tr (S f) (IItems p (Some l)) = tr (S f') (IItems p' (Some l')).
  Proof.
    intro H. destruct H as [|x x' l l' E H]; [reflexivity|].
    destruct H as [|y y' l l' E2 H]; [exact E|].
    cbn [tree_item]. apply (go_arr_ext (tr f) (tr f') (x :: y :: l) (x' :: y' :: l')).
    constructor; [exact E|]. constructor; [exact E2|exact H].
  Qed.

  Lemma forall2_map_l {A B} (R : B -> A -> Prop) (h : A -> B) l : (forall x, In x l -> R (h x) x) -> Forall2 R (map h l) l.
  Proof. induction l as [|x r IH]; intro H; [constructor|]. constructor; [apply H; left; reflexivity|apply IH; intros y Hy; apply H; right; exact Hy]. Qed.
  Lemma forall2_same {A} (R : A -> A -> Prop) l : (forall x, In x l -> R x x) -> Forall2 R l l.
  Proof. induction l as [|x r IH]; intro H; [constructor|]. constructor; [apply H; left; reflexivity|apply IH; intros y Hy; apply H; right; exact Hy]. Qed.

  (* ---- what the guards see ---- *)
  Lemma guards_same fs fs' : (forall f, wfo (getf f fs)) -> (forall f, getf f fs' = option_map nrmv (getf f fs)) ->
    forall b gs, eval_guards fs b gs = eval_guards fs' b gs.
  Proof.
    intros Hw Hg b gs. induction gs as [|g r IH]; [reflexivity|]. cbn [eval_guards].
    assert (E : eval_guard fs b g = eval_guard fs' b g).
    { destruct g as [f|f|f|f|f| |src]; cbn [eval_guard]; try rewrite (Hg f); try reflexivity.
      - (* x.F != nil *)
        specialize (Hw f). destruct (getf f fs) as [v|]; [|reflexivity]. destruct Hw as [ty Hv]. cbn [option_map].
        destruct v as [i|[l|]|l|s|t|d|u|z|bb|m|mt c|[[|p0 e0]|]|a0 b0 c0]; destruct ty; try discriminate Hv; try reflexivity; try (rewrite norm_endpoints; reflexivity).
        + rewrite wfv_item in Hv.
          pose proof (wf_norm layout_of registry load_switch activity_types actor_types link_types Hlayout i Hv) as Hn.
          change (nrmv (FItem i)) with (FItem (nrm i)). cbn [g_ne_nil].
          destruct i; try discriminate Hv; destruct (nrm _); try discriminate Hn; reflexivity.
        + destruct l as [l|]; [|discriminate Hv]. destruct l as [|[r0 v0] [|e2 l']]; reflexivity.
      - (* len(x.F) > 0 *)
        specialize (Hw f). destruct (getf f fs) as [v|]; [|reflexivity]. destruct Hw as [ty Hv]. cbn [option_map].
        destruct v as [i|[l|]|l|s|t|d|u|z|bb|m|mt c|[[|p0 e0]|]|a0 b0 c0]; destruct ty; try discriminate Hv; try reflexivity; try (rewrite norm_endpoints; reflexivity).
        + destruct l as [|x r0]; [discriminate Hv|]. rewrite (nrmv_items layout_of (x :: r0)). reflexivity.
        + destruct l as [l|]; [|discriminate Hv]. destruct l as [|[r0 v0] [|e2 l']]; reflexivity.
      - (* !x.F.IsZero() *)
        specialize (Hw f). destruct (getf f fs) as [v|]; [|reflexivity]. destruct Hw as [ty Hv]. cbn [option_map].
        destruct v as [i|[l|]|l|s|t|d|u|z|bb|m|mt c|[[|p0 e0]|]|a0 b0 c0]; destruct ty; try discriminate Hv; try reflexivity; try (rewrite norm_endpoints; reflexivity).
        + rewrite wfv_time in Hv. unfold time_ok in Hv. rewrite !andb_true_iff in Hv. destruct Hv as [_ Hz].
          change (nrmv (FTime t)) with (FTime (norm_time t)). cbn [g_not_zero_time]. unfold vtime_is_zero, norm_time. cbn [vsecs vnanos].
          apply negb_true_iff in Hz. rewrite Hz. reflexivity.
      - (* x.F != 0 *)
        specialize (Hw f). destruct (getf f fs) as [v|]; [|reflexivity]. destruct Hw as [ty Hv]. cbn [option_map].
        destruct v as [i|[l|]|l|s|t|d|u|z|bb|m|mt c|[[|p0 e0]|]|a0 b0 c0]; destruct ty; try discriminate Hv; try reflexivity; try (rewrite norm_endpoints; reflexivity).
      - (* x.F > 0 *)
        specialize (Hw f). destruct (getf f fs) as [v|]; [|reflexivity]. destruct Hw as [ty Hv]. cbn [option_map].
        destruct v as [i|[l|]|l|s|t|d|u|z|bb|m|mt c|[[|p0 e0]|]|a0 b0 c0]; destruct ty; try discriminate Hv; try reflexivity; try (rewrite norm_endpoints; reflexivity).
      - (* the PublicKey guard *)
        destruct (bytes_eqb src (pubkey_guard_src)); [|reflexivity].
        rewrite (Hg F_PublicKey). specialize (Hw F_PublicKey). destruct (getf F_PublicKey fs) as [v|]; [|reflexivity].
        destruct Hw as [ty Hv]. cbn [option_map].
        destruct v as [i|[l|]|l|s|t|d|u|z|bb|m|mt c|[[|p0 e0]|]|a0 b0 c0]; destruct ty; try discriminate Hv; try reflexivity; try (rewrite norm_endpoints; reflexivity). }
    rewrite E. destruct (eval_guard fs' b g) as [[|]|]; [exact IH|reflexivity|reflexivity].
  Qed.

  Lemma wfv_endpoints_facts e : wfv TEndpoints (FEndpoints (Some e)) = true ->
    e <> [] /\ (forall q, In q e -> in_eorder (fst q) = true) /\ forall q, In q e -> wf (snd q) = true.
  Proof.
    intro Hv. destruct e as [|p0 e0]; [discriminate Hv|]. cbn [wf_fval] in Hv. rewrite !andb_true_iff in Hv. destruct Hv as [[_ Hord] Hmem].
    split; [discriminate|]. split.
    - rewrite forallb_forall in Hord. exact Hord.
    - exact (wf_endpoints_members layout_of registry load_switch activity_types actor_types link_types (p0 :: e0) Hmem).
  Qed.
  Lemma wfv_endpoints_members e : wfv TEndpoints (FEndpoints (Some e)) = true -> forall q, In q e -> wf (snd q) = true.
  Proof. intro Hv. exact (proj2 (proj2 (wfv_endpoints_facts e Hv))). Qed.

  (* ---- what a writer sees of one field value ---- *)
  (* the two uses: the same value under two fuels (mode false), the normal form against the value (mode true) *)
  Section Value.
    Variables f f' : nat.     (* the fuels of the two member interpreters: tree_item (S f) / tree_item (S f') *)
    Variable mode : bool.
    Definition hm (i : item) : item := if mode then nrm i else i.
    Definition hvm (v : fval) : fval := if mode then nrmv v else v.
    Notation h := hm.
    Notation hv := hvm.

    Lemma hv_item i : hv (FItem i) = FItem (h i).
    Proof. unfold hvm, hm. destruct mode; reflexivity. Qed.
    Lemma hv_items l : hv (FItems (Some l)) = FItems (Some (map h l)).
    Proof. unfold hvm, hm. destruct mode; [apply (nrmv_items layout_of)|rewrite map_id; reflexivity]. Qed.
    Lemma hv_nlv l : hv (FNlv l) = FNlv (if mode then norm_nlv l else l).
    Proof. unfold hvm. destruct mode; reflexivity. Qed.
    Lemma hv_time t : exists t', hv (FTime t) = FTime t' /\ vsecs t' = vsecs t.
    Proof. unfold hvm. destruct mode; [exists (norm_time t)|exists t]; split; reflexivity. Qed.
    Lemma hv_source mt c : hv (FSource mt c) = FSource mt (if mode then norm_nlv c else c).
    Proof. unfold hvm. destruct mode; reflexivity. Qed.
    Lemma hv_endpoints e : hv (FEndpoints (Some e))
      = FEndpoints (Some (if mode then endpoints_in_struct_order (map (fun p => (fst p, nrm (snd p))) e) else e)).
    Proof. unfold hvm. destruct mode; [apply norm_endpoints|reflexivity]. Qed.
    Lemma hv_other v : match v with FItem _ | FItems (Some _) | FNlv _ | FTime _ | FSource _ _ | FEndpoints (Some _) => True
                                    | _ => hv v = v end.
    Proof. unfold hvm. destruct mode; destruct v as [i|[l|]|l|s|t|d|u|z|bb|m|mt c|[e|]|a0 b0 c0]; try exact I; reflexivity. Qed.

    Lemma nlv_single_same l : text_ok l = true -> t_nlv (match norm_nlv (Some l) with Some l' => l' | None => [] end) = t_nlv l
      /\ Nat.ltb 1 (length (match norm_nlv (Some l) with Some l' => l' | None => [] end)) = Nat.ltb 1 (length l).
    Proof.
      intros Hv. destruct l as [|[r0 v0] [|e2 l']]; try (split; reflexivity).
      cbn [norm_nlv]. unfold text_ok in Hv. rewrite !andb_true_iff in Hv. destruct Hv as [[_ He] _].
      cbn [forallb] in He. rewrite andb_true_r in He. unfold ok_entryb in He. cbn [fst snd] in He.
      rewrite !andb_true_iff in He. destruct He as [_ Hne]. destruct v0; [discriminate Hne|]. split; reflexivity.
    Qed.

    Lemma value_same_plain v ty (R R' : bytes -> list (fid * fval) -> option (list (bytes * fjv) * bool)) w via term :
      leafless ty = true -> wfv ty v = true ->
      (forall i, ty = TItem -> v = FItem i -> tr (S f) (h i) = tr (S f') i) ->
      (forall l, ty = TItems -> v = FItems (Some l) ->
         Forall2 (fun x x' => tr (S f) x = tr (S f') x') (map h l) l /\ Forall2 (fun x x' => tr f x = tr f' x') (map h l) l) ->
      t_value (tr (S f)) R w via term (Some (hv v)) = t_value (tr (S f')) R' w via term (Some v).
    Proof.
      intros Hll Hv Hi Hl.
      destruct v as [i|[l|]|l|s|t|d|u|z|bb|m|mt c|e|a0 b0 c0]; destruct ty; try discriminate Hv; try discriminate Hll.
      - (* item *) rewrite hv_item. unfold t_value. rewrite (Hi i eq_refl eq_refl). reflexivity.
      - (* list *)
        rewrite hv_items. destruct (Hl l eq_refl eq_refl) as [H1 H2]. unfold t_value.
        rewrite (tree_list_ext f f' false false (map h l) l H2).
        destruct l as [|x r]; [discriminate Hv|]. cbn [map].
        rewrite (go_coll_ext (tr (S f)) (tr (S f')) term (h x :: map h r) (x :: r) H1 []). reflexivity.
      - (* text *)
        destruct l as [l|]; [|discriminate Hv]. rewrite hv_nlv. destruct mode; [|reflexivity].
        rewrite wfv_nlv in Hv. destruct l as [|[r0 v0] [|e2 l']]; try reflexivity.
        cbn [norm_nlv]. unfold text_ok in Hv. rewrite !andb_true_iff in Hv. destruct Hv as [[_ He] _].
        cbn [forallb] in He. rewrite andb_true_r in He. unfold ok_entryb in He. cbn [fst snd] in He.
        rewrite !andb_true_iff in He. destruct He as [_ Hne]. destruct v0; [discriminate Hne|]. reflexivity.
      - (* string *) pose proof (hv_other (Vocab.FStr s)) as E. cbn in E. rewrite E. reflexivity.
      - (* time *) destruct (hv_time t) as [t' [E Es]]. rewrite E. unfold t_value, time_writable. rewrite Es. reflexivity.
      - pose proof (hv_other (FDur d)) as E. cbn in E. rewrite E. reflexivity.
      - pose proof (hv_other (FUint u)) as E. cbn in E. rewrite E. reflexivity.
      - pose proof (hv_other (FInt z)) as E. cbn in E. rewrite E. reflexivity.
      - pose proof (hv_other (FBool bb)) as E. cbn in E. rewrite E. reflexivity.
      - pose proof (hv_other (FFloat m)) as E. cbn in E. rewrite E. reflexivity.
    Qed.

    (* the parts of a leaf struct are plain values: one more use of the congruence of the table interpreter *)
    Lemma parts_same ifs ifs' d name :
      (forall g0, match getf g0 ifs' with
                  | Some v' => exists ty, leafless ty = true /\ wfv ty v' = true /\ getf g0 ifs = Some (hv v') /\
                                 (forall i, ty = TItem -> v' = FItem i -> tr (S f) (h i) = tr (S f') i) /\ ty <> TItems
                  | None => getf g0 ifs = None
                  end) ->
      (forall b gs, eval_guards ifs b gs = eval_guards ifs' b gs) ->
      t_struct (t_run_table jw d (tr (S f))) name ifs = t_struct (t_run_table jw d (tr (S f'))) name ifs'.
    Proof.
      intros Hp Hg. unfold t_struct. rewrite (run_table_cong jw (tr (S f)) (tr (S f')) ifs ifs'); [reflexivity| |exact Hg].
      intros d0 path w via term.
      assert (P1 : forall g0, t_value (tr (S f)) (t_run_table jw d0 (tr (S f))) w via term (getf g0 ifs)
                              = t_value (tr (S f')) (t_run_table jw d0 (tr (S f'))) w via term (getf g0 ifs')).
      { intros g0. specialize (Hp g0). destruct (getf g0 ifs') as [v'|].
        - destruct Hp as [ty [Hll [Hv [-> [Hi Hnl]]]]]. apply (value_same_plain v' ty); try assumption. intros l Ety. congruence.
        - rewrite Hp. reflexivity. }
      destruct path as [|g0 [|g1 [|x r]]]; try reflexivity; cbn [path_get]; [apply P1|].
      (* a path of two names: the parts hold no struct *)
      pose proof (Hp g0) as H0. destruct (getf g0 ifs') as [v'|].
      - destruct H0 as [ty [Hll [Hv [-> _]]]].
        destruct v' as [i|[l|]|l|s|t|dd|u|z|bb|m|mt c|[e|]|a0 b0 c0]; destruct ty; try discriminate Hv; try discriminate Hll.
        + rewrite hv_item. reflexivity.
        + rewrite hv_items. reflexivity.
        + rewrite hv_nlv. reflexivity.
        + pose proof (hv_other (Vocab.FStr s)) as E. cbn in E. rewrite E. reflexivity.
        + destruct (hv_time t) as [t' [E _]]. rewrite E. reflexivity.
        + pose proof (hv_other (FDur dd)) as E. cbn in E. rewrite E. reflexivity.
        + pose proof (hv_other (FUint u)) as E. cbn in E. rewrite E. reflexivity.
        + pose proof (hv_other (FInt z)) as E. cbn in E. rewrite E. reflexivity.
        + pose proof (hv_other (FBool bb)) as E. cbn in E. rewrite E. reflexivity.
        + pose proof (hv_other (FFloat m)) as E. cbn in E. rewrite E. reflexivity.
      - rewrite H0. reflexivity.
    Qed.

    (* the guards of a leaf table on the parts of the value and of its image *)
    Lemma parts_guards ifs ifs' : (forall g0, wfo (getf g0 ifs')) -> (forall g0, getf g0 ifs = option_map hv (getf g0 ifs')) ->
      (mode = false -> ifs = ifs') -> forall b gs, eval_guards ifs b gs = eval_guards ifs' b gs.
    Proof.
      intros Hw Hg Hid b gs. destruct mode eqn:Em.
      - symmetry. apply guards_same; [exact Hw|]. intros g0. rewrite Hg. unfold hvm. rewrite Em. reflexivity.
      - rewrite (Hid eq_refl). reflexivity.
    Qed.

    Lemma value_same v ty d w via term :
      wfv ty v = true ->
      (forall i, ty = TItem -> v = FItem i -> tr (S f) (h i) = tr (S f') i) ->
      (forall l, ty = TItems -> v = FItems (Some l) ->
         Forall2 (fun x x' => tr (S f) x = tr (S f') x') (map h l) l /\ Forall2 (fun x x' => tr f x = tr f' x') (map h l) l) ->
      (forall e, ty = TEndpoints -> v = FEndpoints (Some e) -> forall q, In q e -> tr (S f) (h (snd q)) = tr (S f') (snd q)) ->
      t_value (tr (S f)) (t_run_table jw d (tr (S f))) w via term (Some (hv v))
      = t_value (tr (S f')) (t_run_table jw d (tr (S f'))) w via term (Some v).
    Proof.
      intros Hv Hi Hl He. destruct (leafless ty) eqn:Hll; [exact (value_same_plain v ty _ _ w via term Hll Hv Hi Hl)|].
      destruct ty; try discriminate Hll.
      - (* source *)
        destruct v as [ | | | | | | | | | |mt c| | ]; try discriminate Hv. cbn [wf_fval] in Hv.
        rewrite !andb_true_iff, negb_true_iff in Hv. destruct Hv as [[Hmt Hc] Hnz].
        rewrite hv_source. apply t_value_struct_cong.
        set (c' := if mode then norm_nlv c else c).
        assert (Hgetf : forall g0, getf g0 (source_fields mt c') = option_map hv (getf g0 (source_fields mt c))).
        { intros g0. rewrite !getf_source. destruct (fid_beq g0 F_Content).
          - unfold c'. destruct c as [l|]; [|destruct mode; reflexivity]. cbn [option_map]. rewrite hv_nlv.
            destruct mode; [|reflexivity]. destruct l as [|[r0 v0] [|e2 l']]; reflexivity.
          - destruct (fid_beq g0 F_MediaType); [|reflexivity]. destruct mt; [reflexivity|]. cbn [option_map].
            pose proof (hv_other (Vocab.FStr (b :: mt))) as E. cbn in E. rewrite E. reflexivity. }
        assert (Hparts : forall g0, wfo (getf g0 (source_fields mt c))).
        { intros g0. unfold wfo. destruct (getf g0 (source_fields mt c)) as [v'|] eqn:Eg; [|exact I].
          destruct (getf_source_inv g0 mt c v' Eg) as [[_ [-> Hc1]]|[_ [-> Hm1]]].
          - destruct c as [l|]; [|congruence]. exists TNlv. exact Hc.
          - destruct mt; [congruence|]. exists TString. exact Hmt. }
        apply parts_same.
        + intros g0. specialize (Hgetf g0). destruct (getf g0 (source_fields mt c)) as [v'|] eqn:Eg; [|exact Hgetf].
          destruct (getf_source_inv g0 mt c v' Eg) as [[_ [-> Hc1]]|[_ [-> Hm1]]].
          * destruct c as [l|]; [|congruence]. exists TNlv. split; [reflexivity|]. split; [exact Hc|]. split; [exact Hgetf|]. split; [discriminate|discriminate].
          * destruct mt; [congruence|]. exists TString. split; [reflexivity|]. split; [exact Hmt|]. split; [exact Hgetf|]. split; [discriminate|discriminate].
        + apply parts_guards; [exact Hparts|exact Hgetf|]. intros Em. unfold c'. rewrite Em. reflexivity.
      - (* endpoints *)
        destruct v as [ | | | | | | | | | | |[e|]| ]; try discriminate Hv.
        destruct (wfv_endpoints_facts e Hv) as [Hene [Hord Hwm]].
        rewrite hv_endpoints. apply t_value_struct_cong.
        set (e' := if mode then endpoints_in_struct_order (map (fun p => (fst p, nrm (snd p))) e) else e).
        assert (Hfind : forall g0, efind g0 e' = option_map (fun p => (fst p, h (snd p))) (efind g0 e)).
        { intros g0. unfold e', hm. destruct mode.
          - rewrite efind_eiso, efind_map; [reflexivity|]. intros q Hq. apply in_map_iff in Hq. destruct Hq as [q0 [<- Hq0]]. cbn [fst].
            exact (Hord q0 Hq0).
          - destruct (efind g0 e) as [[? ?]|]; reflexivity. }
        assert (Hgetf : forall g0, getf g0 (endpoints_fields e') = option_map hv (getf g0 (endpoints_fields e))).
        { intros g0. rewrite !getf_endpoints, Hfind. destruct (efind g0 e) as [q|]; [|reflexivity]. cbn [option_map snd]. rewrite hv_item. reflexivity. }
        assert (Hparts : forall g0, wfo (getf g0 (endpoints_fields e))).
        { intros g0. unfold wfo. rewrite getf_endpoints. destruct (efind g0 e) as [q|] eqn:Eq; [|exact I]. cbn [option_map].
          exists TItem. exact (Hwm q (proj1 (efind_some _ _ _ Eq))). }
        apply parts_same.
        + intros g0. pose proof (Hgetf g0) as Hg0. rewrite (getf_endpoints g0 e) in Hg0 |- *.
          destruct (efind g0 e) as [q|] eqn:Eq; cbn [option_map] in Hg0 |- *; [|exact Hg0].
          destruct (efind_some _ _ _ Eq) as [Hq _].
          exists TItem. split; [reflexivity|]. split; [exact (Hwm q Hq)|]. split; [exact Hg0|]. split; [|discriminate].
          intros i _ Ei. inversion Ei; subst i. exact (He e eq_refl eq_refl q Hq).
        + apply parts_guards; [exact Hparts|exact Hgetf|]. intros Em. unfold e'. rewrite Em. reflexivity.
      - (* public key *)
        destruct v as [ | | | | | | | | | | | |a0 b0 c0]; try discriminate Hv. cbn [wf_fval] in Hv.
        rewrite !andb_true_iff, negb_true_iff in Hv. destruct Hv as [[[Hid How] Hpem] Hnz].
        pose proof (hv_other (FPubKey a0 b0 c0)) as E. cbn in E. rewrite E. apply t_value_struct_cong.
        assert (Hparts : forall g0 v', getf g0 (pubkey_fields a0 b0 c0) = Some v' -> wfv TString v' = true /\ hv v' = v').
        { intros g0 v' Eg. destruct (getf_pubkey_inv g0 a0 b0 c0 v' Eg) as [[_ [-> Hn]]|[[_ [-> Hn]]|[_ [-> Hn]]]];
            (split; [|pose proof (hv_other (Vocab.FStr a0)) as E1; pose proof (hv_other (Vocab.FStr b0)) as E2; pose proof (hv_other (Vocab.FStr c0)) as E3;
                      cbn in E1, E2, E3; assumption]); cbn [wf_fval].
          - destruct a0; [congruence|exact Hid].
          - destruct b0; [congruence|exact How].
          - destruct c0; [congruence|exact Hpem]. }
        apply parts_same.
        + intros g0. destruct (getf g0 (pubkey_fields a0 b0 c0)) as [v'|] eqn:Eg; [|reflexivity].
          destruct (Hparts g0 v' Eg) as [H1 H2]. exists TString. split; [reflexivity|]. split; [exact H1|]. split; [rewrite H2; reflexivity|].
          split; [discriminate|discriminate].
        + intros b gs. reflexivity.
    Qed.
  End Value.

  (* ---- field lists of a well-formed object ---- *)
  Lemma wf_obj_fields p k fs : wf (IObj p k fs) = true ->
    forall f v, In (f, v) fs -> exists d, decl_of layout_of k f = Some d /\ wfv (fd_type d) v = true.
  Proof.
    intro Hw. cbn [wf_item] in Hw. rewrite !andb_true_iff in Hw. destruct Hw as [_ Hfields].
    exact (wf_fields layout_of registry load_switch activity_types actor_types link_types k fs Hfields).
  Qed.

  Lemma wf_obj_wfo p k fs : wf (IObj p k fs) = true -> forall f, wfo (getf f fs).
  Proof.
    intros Hw f. unfold wfo. destruct (getf f fs) as [v|] eqn:E; [|exact I].
    destruct (wf_obj_fields p k fs Hw f v (getf_in _ _ _ E)) as [d [_ Hv]]. eauto.
  Qed.

  (* a part of a well-formed leaf struct is a well-formed string / text *)
  Lemma struct_part_wfo ty v g0 : wfv ty v = true ->
    wfo (match v with
         | FPubKey id o p => getf g0 (pubkey_fields id o p)
         | FSource mt c => getf g0 (source_fields mt c)
         | _ => None
         end).
  Proof.
    intro Hv. unfold wfo. destruct v as [i|l|l|s|t|d|u|z|bb|m|mt c|e|a0 b0 c0]; try exact I.
    - destruct (getf g0 (source_fields mt c)) as [v'|] eqn:Eg; [|exact I]. destruct ty; try discriminate Hv.
      cbn [wf_fval] in Hv. rewrite !andb_true_iff in Hv. destruct Hv as [[Hmt Hc] _].
      destruct (getf_source_inv g0 mt c v' Eg) as [[_ [-> Hc1]]|[_ [-> Hm1]]].
      + destruct c as [l|]; [|congruence]. exists TNlv. exact Hc.
      + destruct mt; [congruence|]. exists TString. exact Hmt.
    - destruct (getf g0 (pubkey_fields a0 b0 c0)) as [v'|] eqn:Eg; [|exact I]. destruct ty; try discriminate Hv.
      cbn [wf_fval] in Hv. rewrite !andb_true_iff in Hv. destruct Hv as [[[Hid How] Hpem] _]. exists TString.
      destruct (getf_pubkey_inv g0 a0 b0 c0 v' Eg) as [[_ [-> Hn]]|[[_ [-> Hn]]|[_ [-> Hn]]]]; cbn [wf_fval].
      + destruct a0; [congruence|exact Hid].
      + destruct b0; [congruence|exact How].
      + destruct c0; [congruence|exact Hpem].
  Qed.

  Lemma path_get_wfo fs : (forall f, wfo (getf f fs)) -> forall path, wfo (path_get path fs).
  Proof.
    intros H path. destruct path as [|f [|g [|x r]]]; try exact I; cbn [path_get]; [apply H|].
    specialize (H f). destruct (getf f fs) as [v|]; [|exact I]. destruct H as [ty Hv].
    pose proof (struct_part_wfo ty v g Hv) as P. destruct v; try exact I; exact P.
  Qed.

  (* the fields of the normal form, looked up *)
  Lemma norm_getf p k fs : wf (IObj p k fs) = true ->
    forall f, getf f (canon_fields layout_of k (norm_fields layout_of fs)) = option_map nrmv (getf f fs).
  Proof.
    intros Hw f. destruct (getf f fs) as [v|] eqn:Eg; cbn [option_map].
    - destruct (wf_obj_fields p k fs Hw f v (getf_in _ _ _ Eg)) as [d [Hd Hv]].
      destruct (fval_step layout_of registry load_switch activity_types actor_types link_types Hlayout (fval_size v)
                  (wf_norm_n layout_of registry load_switch activity_types actor_types link_types Hlayout (fval_size v))
                  (fd_type d) v (le_n _) Hv) as [_ [Hz _]].
      apply (canon_complete layout_of Hlayout); [| |exact Hz].
      + unfold decl_of in Hd. apply find_some in Hd. destruct Hd as [Hin Hf]. apply fid_beq_eq in Hf. rewrite <- Hf. apply in_map. exact Hin.
      + unfold norm_fields. rewrite getf_map, Eg. reflexivity.
    - destruct (getf f (canon_fields layout_of k (norm_fields layout_of fs))) as [w|] eqn:Eg'; [|reflexivity]. exfalso.
      destruct (canon_in layout_of k _ f w (getf_in _ _ _ Eg')) as [_ [Hg _]].
      unfold norm_fields in Hg. rewrite getf_map, Eg in Hg. discriminate Hg.
  Qed.

  Lemma path_get_norm p k fs : wf (IObj p k fs) = true ->
    forall path, path_get path (canon_fields layout_of k (norm_fields layout_of fs)) = option_map nrmv (path_get path fs).
  Proof.
    intros Hw path. destruct path as [|f [|g [|x r]]]; try reflexivity; cbn [path_get]; [apply (norm_getf p k fs Hw)|].
    rewrite (norm_getf p k fs Hw f). pose proof (wf_obj_wfo p k fs Hw f) as H. destruct (getf f fs) as [v|]; [|reflexivity].
    destruct H as [ty Hv]. destruct v as [i|[l|]|l|s|t|d|u|z|bb|m|mt c|[e|]|a0 b0 c0]; destruct ty; try discriminate Hv; try reflexivity.
    - (* a part of a source *)
      cbn [option_map]. change (nrmv (FSource mt c)) with (FSource mt (norm_nlv c)). cbv iota. rewrite !getf_source.
      cbn [wf_fval] in Hv. rewrite !andb_true_iff in Hv. destruct Hv as [[_ Hc] _].
      destruct (fid_beq g F_Content).
      + destruct c as [l|]; [|reflexivity]. cbn [option_map]. destruct l as [|[r0 v0] [|e2 l']]; reflexivity.
      + destruct (fid_beq g F_MediaType); [|reflexivity]. destruct mt; reflexivity.
    - (* a part of a public key *)
      cbn [option_map]. change (nrmv (FPubKey a0 b0 c0)) with (FPubKey a0 b0 c0).
      destruct (getf g (pubkey_fields a0 b0 c0)) as [v'|] eqn:Eg; [|reflexivity].
      destruct (getf_pubkey_inv g a0 b0 c0 v' Eg) as [[_ [-> _]]|[[_ [-> _]]|[_ [-> _]]]]; reflexivity.
  Qed.

  Lemma wfv_items_elems l : wfv TItems (FItems (Some l)) = true -> forall x, In x l -> is_elem x = true /\ wf x = true.
  Proof.
    intro Hv. destruct l as [|x r]; [discriminate Hv|]. rewrite wfv_items in Hv. apply andb_true_iff in Hv. destruct Hv as [Hg _].
    exact (wf_list_elems layout_of registry load_switch activity_types actor_types link_types (x :: r) Hg).
  Qed.

  (* sizes *)
  Lemma size_field_lt p k (fs : list (fid * fval)) f v : getf f fs = Some v -> fval_size v < item_size (IObj p k fs).
  Proof. intro E. pose proof (size_in_fields fs f v (getf_in _ _ _ E)). cbn [item_size]. lia. Qed.

  Lemma size_path_lt p k fs path v : wf (IObj p k fs) = true -> path_get path fs = Some v -> fval_size v < item_size (IObj p k fs).
  Proof.
    intros Hw Ep. destruct path as [|f0 [|g0 [|x0 r0]]]; try discriminate Ep; cbn [path_get] in Ep.
    - exact (size_field_lt p k fs f0 v Ep).
    - destruct (getf f0 fs) as [v0|] eqn:E0; [|discriminate Ep]. pose proof (size_field_lt p k fs f0 v0 E0) as S0.
      destruct v0 as [i|l|l|s|t|d|u|z|bb|m|mt c|e|a0 b0 c0]; try discriminate Ep.
      + destruct (getf_source_inv g0 mt c v Ep) as [[_ [-> _]]|[_ [-> _]]]; cbn [fval_size] in *; lia.
      + destruct (getf_pubkey_inv g0 a0 b0 c0 v Ep) as [[_ [-> _]]|[[_ [-> _]]|[_ [-> _]]]]; cbn [fval_size] in *; lia.
  Qed.

  (* ------------------------------------------------------------------ the fuel beyond the size does not matter *)
  Theorem tree_fuel_n : forall n x f f', item_size x <= n -> wf x = true -> item_size x < f -> item_size x < f' -> tr f x = tr f' x.
  Proof.
    induction n as [|n IH]; intros x f f' Hs Hw Hf Hf'.
    - destruct x as [| | | | p [l|]| ]; simpl in Hs; lia.
    - destruct f as [|g]; [lia|]. destruct f' as [|g']; [lia|].
      destruct x as [|k|p s|p k fs|p [l|]|p l];
        [discriminate Hw|discriminate Hw|reflexivity| | |discriminate Hw|discriminate Hw].
      + (* object *)
        cbn [tree_item]. unfold t_struct.
        rewrite (run_table_cong jw (tr g) (tr g') fs fs); [reflexivity| |reflexivity].
        intros d path w via term.
        pose proof (path_get_wfo fs (wf_obj_wfo p k fs Hw) path) as Ho.
        destruct (path_get path fs) as [v|] eqn:Ep; [|reflexivity]. destruct Ho as [ty Hv].
        pose proof (size_path_lt p k fs path v Hw Ep) as Hsz.
        destruct g as [|g0]; [lia|]. destruct g' as [|g0']; [lia|].
        apply (value_same g0 g0' false v ty d w via term Hv).
        * intros i Ety Ev. subst ty v. cbn [fval_size] in Hsz. rewrite wfv_item in Hv. unfold hm. apply IH; [lia|exact Hv|lia|lia].
        * intros l Ety Ev. subst ty v. unfold hm. rewrite map_id.
          split; apply forall2_same; intros x Hx; pose proof (size_fitems_lt l x Hx) as Q;
            (apply IH; [lia|exact (proj2 (wfv_items_elems l Hv x Hx))|lia|lia]).
        * intros e Ety Ev q Hq. subst ty v. unfold hm. pose proof (size_endpoints_in e q Hq) as Q.
          apply IH; [lia|exact (wfv_endpoints_members e Hv q Hq)|lia|lia].
      + (* list *)
        destruct l as [|x r]; [discriminate Hw|]. rewrite wf_items in Hw. apply andb_true_iff in Hw. destruct Hw as [Hg _].
        pose proof (wf_list_elems layout_of registry load_switch activity_types actor_types link_types (x :: r) Hg) as Hel.
        apply tree_list_ext. apply forall2_same. intros z Hz.
        pose proof (size_items_in p (x :: r) z Hz) as Q. apply IH; try lia. exact (proj2 (Hel z Hz)).
  Qed.

  (* ------------------------------------------------------------------ the normal form writes the same tree *)
  Theorem tree_norm_n : forall n x f, item_size x <= n -> wf x = true -> item_size x < f -> tr f (nrm x) = tr f x.
  Proof.
    induction n as [|n IH]; intros x f Hs Hw Hf.
    - destruct x as [| | | | p [l|]| ]; simpl in Hs; lia.
    - destruct f as [|g]; [lia|].
      destruct x as [|k|p s|p k fs|p [l|]|p l]; try discriminate Hw.
      + (* IRI *) reflexivity.
      + (* object *)
        rewrite (norm_obj layout_of p k fs). cbn [tree_item]. unfold t_struct.
        rewrite (run_table_cong jw (tr g) (tr g) (canon_fields layout_of k (norm_fields layout_of fs)) fs); [reflexivity| |].
        * intros d path w via term. rewrite (path_get_norm p k fs Hw path).
          pose proof (path_get_wfo fs (wf_obj_wfo p k fs Hw) path) as Ho.
          destruct (path_get path fs) as [v|] eqn:Ep; [|reflexivity]. destruct Ho as [ty Hv]. cbn [option_map].
          pose proof (size_path_lt p k fs path v Hw Ep) as Hsz.
          destruct g as [|g0]; [lia|].
          apply (value_same g0 g0 true v ty d w via term Hv).
          -- intros i Ety Ev. subst ty v. cbn [fval_size] in Hsz. rewrite wfv_item in Hv. unfold hm. apply IH; [lia|exact Hv|lia].
          -- intros l Ety Ev. subst ty v. unfold hm.
             split; apply forall2_map_l; intros x Hx; pose proof (size_fitems_lt l x Hx) as Q;
               (apply IH; [lia|exact (proj2 (wfv_items_elems l Hv x Hx))|lia]).
          -- intros e Ety Ev q Hq. subst ty v. unfold hm. pose proof (size_endpoints_in e q Hq) as Q.
             apply IH; [lia|exact (wfv_endpoints_members e Hv q Hq)|lia].
        * intros b gs. symmetry. apply guards_same; [exact (wf_obj_wfo p k fs Hw)|exact (norm_getf p k fs Hw)].
      + (* list *)
        destruct l as [|x [|y r]]; [discriminate Hw| |].
        * (* one element: the element itself; tree_item on the list runs the element with one unit of fuel less *)
          change (nrm (IItems p (Some [x]))) with (nrm x).
          rewrite wf_items in Hw. unfold wf_go in Hw. rewrite !andb_true_iff in Hw. destruct Hw as [[[_ Hwx] _] _].
          assert (Hsx : S (item_size x) <= item_size (IItems p (Some [x]))) by (cbn [item_size]; lia).
          rewrite (IH x (S g) ltac:(lia) Hwx ltac:(lia)).
          change (tr (S g) (IItems p (Some [x]))) with (tr g x).
          apply (tree_fuel_n (item_size x) x (S g) g (le_n _) Hwx); lia.
        * rewrite (norm_many layout_of p x y r).
          rewrite wf_items in Hw. apply andb_true_iff in Hw. destruct Hw as [Hg _].
          pose proof (wf_list_elems layout_of registry load_switch activity_types actor_types link_types (x :: y :: r) Hg) as Hel.
          apply tree_list_ext. apply forall2_map_l. intros z Hz.
          pose proof (size_items_in p (x :: y :: r) z Hz) as Q. apply IH; [lia|exact (proj2 (Hel z Hz))|lia].
  Qed.

  (* the tree MarshalJSON writes: the same for a well-formed value and for its normal form *)
  Theorem tree_of_norm x : wf x = true -> tree_of jw (nrm x) = tree_of jw x.
  Proof.
    intro Hw. unfold tree_of.
    pose proof (wf_norm layout_of registry load_switch activity_types actor_types link_types Hlayout x Hw) as Hw'.
    set (F := S (Nat.max (item_size (nrm x)) (item_size x))).
    rewrite (tree_fuel_n (item_size (nrm x)) (nrm x) (S (item_size (nrm x))) F (le_n _) Hw') by (unfold F; lia).
    rewrite (tree_norm_n (item_size x) x F (le_n _) Hw) by (unfold F; lia).
    apply (tree_fuel_n (item_size x) x F (S (item_size x)) (le_n _) Hw); unfold F; lia.
  Qed.

  (* ... hence the same bytes *)
  Theorem marshal_norm x : wf x = true -> marshal_json jw (nrm x) = marshal_json jw x.
  Proof. intro Hw. rewrite !marshal_json_tree, (tree_of_norm x Hw). reflexivity. Qed.
End Inv.

(* ------------------------------------------------------------------ the fixpoint clause with the bytes *)
Section FixBytes.
  Variable jw_tables : list (bytes * bool * list wstmt).
  Variable jr_tables : list (bytes * list rstmt).
  Variable layout_of : kind -> list fdecl.
  Variable registry load_switch : bytes -> option kind.
  Variable activity_types actor_types link_types : list bytes.
  Hypothesis Htables : kinds_ok jw_tables jr_tables layout_of = true.
  Hypothesis Hterms : C01TreeWfP.terms_raw_ok jw_tables = true.
  Hypothesis Hlayout : forall k, NoDup (map fd_fid (layout_of k)).

  Notation wf := (wf_item layout_of registry load_switch activity_types actor_types link_types).
  Notation nrm := (norm_item layout_of).
  Notation enc := (marshal_json jw_tables).
  Notation dec := (unmarshal_json jr_tables layout_of registry load_switch activity_types actor_types link_types).
  Notation rnd := (round jw_tables jr_tables layout_of registry load_switch activity_types actor_types link_types).
  Notation rnds := (rounds jw_tables jr_tables layout_of registry load_switch activity_types actor_types link_types).

  (* encode, decode, encode: the second encoding is the first *)
  Theorem one_round_bytes x : wf x = true -> ddepth x <= 149 ->
    exists b, enc x = Some b /\ dec b = Some (Ok (nrm x)) /\ enc (nrm x) = Some b.
  Proof.
    intros Hw Hd.
    destruct (json_roundtrip_depth jw_tables jr_tables layout_of registry load_switch activity_types actor_types link_types
                Htables x Hterms Hw Hd) as [b [E [_ D]]].
    exists b. split; [exact E|]. split; [exact D|].
    rewrite (marshal_norm jw_tables layout_of registry load_switch activity_types actor_types link_types Hlayout x Hw). exact E.
  Qed.

  (* any number of rounds, the first included: the same bytes, the normal form *)
  Theorem rounds_all x : wf x = true -> ddepth x <= 149 ->
    exists b, b <> [] /\ enc x = Some b /\ forall n, rnds n x = Some (b, nrm x).
  Proof.
    intros Hw Hd.
    destruct (json_roundtrip_depth jw_tables jr_tables layout_of registry load_switch activity_types actor_types link_types
                Htables x Hterms Hw Hd) as [b [E [Hne D]]].
    assert (E2 : enc (nrm x) = Some b)
      by (rewrite (marshal_norm jw_tables layout_of registry load_switch activity_types actor_types link_types Hlayout x Hw); exact E).
    assert (D2 : dec b = Some (Ok (nrm (nrm x)))) by (rewrite (norm_idem layout_of Hlayout); exact D).
    assert (R1 : rnd x = Some (b, nrm x)) by (unfold round; rewrite E, D; reflexivity).
    assert (R2 : rnd (nrm x) = Some (b, nrm x)) by (unfold round; rewrite E2, D; reflexivity).
    exists b. split; [exact Hne|]. split; [exact E|]. intro n.
    destruct n as [|n]; [exact R1|]. cbn [rounds]. rewrite R1.
    induction n as [|n IH]; [exact R2|]. cbn [rounds]. rewrite R2. exact IH.
  Qed.
End FixBytes.
