(* C05, "the encoded bytes no longer change", from the FIRST re-encoding on (builder b42):
        wf x  ->  tree_of (norm x) = tree_of x        hence        enc (norm x) = enc x
   for every write table (no condition on the tables at all), every layout without a repeated field.
   The encoder's tree interpreter (Model/JsonTree.v, proved equal to the executable encoder in Proofs/C01TreeP.v)
   looks at a field list only through getf; what the normal form changes in a well-formed value - value / pointer form,
   field order, the tag of a lone text, nanoseconds and zone of an instant, a one-element list in an item position -
   is invisible to every writer and every guard.  Two inductions on the size of the item: the fuel of the tree
   interpreter does not matter beyond the size (for well-formed items), then the invariance. *)
From AP.Model Require Import Prelude Bytes Vocab Pred Url IriEq Nlv Json Text Equal Coll Dispatch Layout JsonTables JsonLeaf
     JsonEnc JsonTree JsonCheck JsonDec JsonNorm JsonRoundCheck.
From AP.Proofs Require Import NlvP TextP C01TreeP C01FlatP C01ItemP C01FieldP C01RoundP C01NormP C05FixP.
Local Open Scope nat_scope.

Section Cong.
  Variable jw : list (bytes * bool * list wstmt).

  (* a statement list sees the field list through path_get and the guards only *)
  Lemma stmts_cong (T T' : item -> option (option fjv))
        (R R' : bytes -> list (fid * fval) -> option (list (bytes * fjv) * bool)) fs fs' :
    (forall path w via term, t_value T R w via term (path_get path fs) = t_value T' R' w via term (path_get path fs')) ->
    (forall b gs, eval_guards fs b gs = eval_guards fs' b gs) ->
    (forall fn, R fn fs = R' fn fs') ->
    forall stmts st, t_stmts T R stmts fs st = t_stmts T' R' stmts fs' st.
  Proof.
    intros H1 H2 H3. induction stmts as [|s rest IH]; intro st; [reflexivity|].
    destruct st as [ms ne]. destruct s as [term writer path via guards acc pos|on fn acc pos|src pos]; cbn [t_stmts].
    - rewrite <- H2. destruct (eval_guards fs [x30] (filter (fun g => match g with GValNonEmpty => false | _ => true end) guards)) as [[|]|];
        [|apply IH|reflexivity].
      rewrite <- H1. destruct (t_value T R writer via term (path_get path fs)) as [[[term' o] r]|]; [|reflexivity].
      rewrite <- H2. destruct (eval_guards fs (guard_bytes o) guards) as [[|]|]; [|apply IH|reflexivity].
      destruct (apply_acc acc r ne); [apply IH|reflexivity].
    - destruct fn as [|c fn']; [apply IH|]. rewrite <- H3.
      destruct (R (c :: fn') fs) as [[ms' r]|]; [|reflexivity]. destruct (apply_acc acc r ne); [apply IH|reflexivity].
    - reflexivity.
  Qed.

  Lemma run_table_cong (T T' : item -> option (option fjv)) fs fs' :
    (forall R R' path w via term, t_value T R w via term (path_get path fs) = t_value T' R' w via term (path_get path fs')) ->
    (forall b gs, eval_guards fs b gs = eval_guards fs' b gs) ->
    forall d name, t_run_table jw d T name fs = t_run_table jw d T' name fs'.
  Proof.
    intros H1 H2. induction d as [|d IH]; intro name; [reflexivity|]. cbn [t_run_table].
    destruct (jw_table jw name) as [[init stmts]|]; [|reflexivity].
    apply stmts_cong; [apply H1|exact H2|intro fn; apply IH].
  Qed.
End Cong.

(* ------------------------------------------------------------------ values without leaf structs *)
Definition plain_v (v : fval) : bool :=
  match v with FEndpoints _ | FPubKey _ _ _ | FSource _ _ => false | _ => true end.
Definition plain_o (o : option fval) : bool := match o with Some v => plain_v v | None => true end.

(* on such a value a writer never runs a callee table *)
Lemma t_value_run_indep T R R' w via term o : plain_o o = true ->
  t_value T R w via term o = t_value T R' w via term o.
Proof. intro H. destruct o as [v|]; [destruct v; try discriminate H|]; reflexivity. Qed.

Section Inv.
  Variable jw : list (bytes * bool * list wstmt).
  Variable layout_of : kind -> list fdecl.
  Variable registry load_switch : bytes -> option kind.
  Variable activity_types actor_types link_types : list bytes.
  Hypothesis Hlayout : forall k, NoDup (map fd_fid (layout_of k)).

  Notation tr := (tree_item jw).
  Notation wf := (wf_item layout_of registry load_switch activity_types actor_types link_types).
  Notation wfv := (wf_fval layout_of registry load_switch activity_types actor_types link_types).
  Notation nrm := (norm_item layout_of).
  Notation nrmv := (norm_fval layout_of).

  (* a field value of a well-formed object, or an unset field *)
  Definition wfo (o : option fval) : Prop := match o with None => True | Some v => exists ty, wfv ty v = true end.

  Lemma wfv_plain ty v : wfv ty v = true -> plain_v v = true.
  Proof. destruct ty, v; try discriminate; reflexivity. Qed.

  (* the loops of the tree interpreter over a list, given two item interpreters that agree on the members *)
  Lemma go_arr_ext (A A' : item -> option (option fjv)) (l l' : list item) :
    Forall2 (fun x x' => A x = A' x') l l' -> forall acc,
    (fix go (l : list item) (acc : list fjv) : option (option fjv) :=
       match l with
       | [] => Some (Some (FArr (rev acc)))
       | x :: r => match A x with Some None => go r acc | Some (Some t) => go r (t :: acc) | None => None end
       end) l acc
    = (fix go (l : list item) (acc : list fjv) : option (option fjv) :=
         match l with
         | [] => Some (Some (FArr (rev acc)))
         | x :: r => match A' x with Some None => go r acc | Some (Some t) => go r (t :: acc) | None => None end
         end) l' acc.
  Proof.
    induction 1 as [|x x' l l' E _ IH]; intro acc; [reflexivity|]. rewrite E.
    destruct (A' x') as [[t|]|]; [apply IH|apply IH|reflexivity].
  Qed.

  Lemma go_coll_ext (A A' : item -> option (option fjv)) term (l l' : list item) :
    Forall2 (fun x x' => A x = A' x') l l' -> forall acc,
    (fix go (l : list item) (acc : list fjv) : option (bytes * option fjv * bool) :=
       match l with
       | [] => Some (term, Some (FArr (rev acc)), true)
       | i :: r => match A i with Some None => go r acc | Some (Some t) => go r (t :: acc) | None => None end
       end) l acc
    = (fix go (l : list item) (acc : list fjv) : option (bytes * option fjv * bool) :=
         match l with
         | [] => Some (term, Some (FArr (rev acc)), true)
         | i :: r => match A' i with Some None => go r acc | Some (Some t) => go r (t :: acc) | None => None end
         end) l' acc.
  Proof.
    induction 1 as [|x x' l l' E _ IH]; intro acc; [reflexivity|]. rewrite E.
    destruct (A' x') as [[t|]|]; [apply IH|apply IH|reflexivity].
  Qed.

  (* a list in an item position: tree_item (S f) on a list runs tree_item f on the members *)
  Lemma tree_list_ext f f' p p' (l l' : list item) :
    Forall2 (fun x x' => tr f x = tr f' x') l l' ->
    tr (S f) (IItems p (Some l)) = tr (S f') (IItems p' (Some l')).
  Proof.
    intro H. destruct H as [|x x' l l' E H]; [reflexivity|].
    destruct H as [|y y' l l' E2 H]; [exact E|].
    cbn [tree_item]. apply (go_arr_ext (tr f) (tr f') (x :: y :: l) (x' :: y' :: l')).
    constructor; [exact E|]. constructor; [exact E2|exact H].
  Qed.

  Lemma forall2_map_l {A B} (R : B -> A -> Prop) (h : A -> B) l : (forall x, In x l -> R (h x) x) -> Forall2 R (map h l) l.
  Proof. induction l as [|x r IH]; intro H; [constructor|]. constructor; [apply H; left; reflexivity|apply IH; intros y Hy; apply H; right; exact Hy]. Qed.
  Lemma forall2_same {A} (R : A -> A -> Prop) l : (forall x, In x l -> R x x) -> Forall2 R l l.
  Proof. induction l as [|x r IH]; intro H; [constructor|]. constructor; [apply H; left; reflexivity|apply IH; intros y Hy; apply H; right; exact Hy]. Qed.

  (* ---- what the guards see ---- *)
  Lemma guards_same fs fs' : (forall f, wfo (getf f fs)) -> (forall f, getf f fs' = option_map nrmv (getf f fs)) ->
    forall b gs, eval_guards fs b gs = eval_guards fs' b gs.
  Proof.
    intros Hw Hg b gs. induction gs as [|g r IH]; [reflexivity|]. cbn [eval_guards].
    assert (E : eval_guard fs b g = eval_guard fs' b g).
    { destruct g as [f|f|f|f|f| |src]; cbn [eval_guard]; try rewrite (Hg f); try reflexivity.
      - (* x.F != nil *)
        specialize (Hw f). destruct (getf f fs) as [v|]; [|reflexivity]. destruct Hw as [ty Hv]. cbn [option_map].
        destruct v as [i|[l|]|l|s|t|d|u|z|bb|m|mt c|e|a0 b0 c0]; destruct ty; try discriminate Hv; try reflexivity.
        + rewrite wfv_item in Hv.
          pose proof (wf_norm layout_of registry load_switch activity_types actor_types link_types Hlayout i Hv) as Hn.
          change (nrmv (FItem i)) with (FItem (nrm i)). cbn [g_ne_nil].
          destruct i; try discriminate Hv; destruct (nrm _); try discriminate Hn; reflexivity.
        + destruct l as [l|]; [|discriminate Hv]. destruct l as [|[r0 v0] [|e2 l']]; reflexivity.
      - (* len(x.F) > 0 *)
        specialize (Hw f). destruct (getf f fs) as [v|]; [|reflexivity]. destruct Hw as [ty Hv]. cbn [option_map].
        destruct v as [i|[l|]|l|s|t|d|u|z|bb|m|mt c|e|a0 b0 c0]; destruct ty; try discriminate Hv; try reflexivity.
        + destruct l as [|x r0]; [discriminate Hv|]. rewrite (nrmv_items layout_of (x :: r0)). reflexivity.
        + destruct l as [l|]; [|discriminate Hv]. destruct l as [|[r0 v0] [|e2 l']]; reflexivity.
      - (* !x.F.IsZero() *)
        specialize (Hw f). destruct (getf f fs) as [v|]; [|reflexivity]. destruct Hw as [ty Hv]. cbn [option_map].
        destruct v as [i|[l|]|l|s|t|d|u|z|bb|m|mt c|e|a0 b0 c0]; destruct ty; try discriminate Hv; try reflexivity.
        rewrite wfv_time in Hv. unfold time_ok in Hv. rewrite !andb_true_iff in Hv. destruct Hv as [_ Hz].
          change (nrmv (FTime t)) with (FTime (norm_time t)). cbn [g_not_zero_time]. unfold vtime_is_zero, norm_time. cbn [vsecs vnanos].
          apply negb_true_iff in Hz. rewrite Hz. reflexivity.
      - (* x.F != 0 *)
        specialize (Hw f). destruct (getf f fs) as [v|]; [|reflexivity]. destruct Hw as [ty Hv]. cbn [option_map].
        destruct v as [i|[l|]|l|s|t|d|u|z|bb|m|mt c|e|a0 b0 c0]; destruct ty; try discriminate Hv; reflexivity.
      - (* x.F > 0 *)
        specialize (Hw f). destruct (getf f fs) as [v|]; [|reflexivity]. destruct Hw as [ty Hv]. cbn [option_map].
        destruct v as [i|[l|]|l|s|t|d|u|z|bb|m|mt c|e|a0 b0 c0]; destruct ty; try discriminate Hv; reflexivity.
      - (* the PublicKey guard *)
        destruct (bytes_eqb src (pubkey_guard_src)); [|reflexivity].
        rewrite (Hg F_PublicKey). specialize (Hw F_PublicKey). destruct (getf F_PublicKey fs) as [v|]; [|reflexivity].
        destruct Hw as [ty Hv]. cbn [option_map].
        destruct v as [i|[l|]|l|s|t|d|u|z|bb|m|mt c|e|a0 b0 c0]; destruct ty; try discriminate Hv; reflexivity. }
    rewrite E. destruct (eval_guard fs' b g) as [[|]|]; [exact IH|reflexivity|reflexivity].
  Qed.

  (* ---- what a writer sees of one field value ---- *)
  Section Value.
    Variables f f' : nat.     (* the fuels of the two member interpreters: tree_item (S f) / tree_item (S f') *)
    Variable h : item -> item.       (* identity (fuel lemma) or the normal form *)
    Variable hv : fval -> fval.
    Hypothesis hv_item : forall i, hv (FItem i) = FItem (h i).
    Hypothesis hv_items : forall l, hv (FItems (Some l)) = FItems (Some (map h l)).
    Hypothesis hv_nlv : forall l, hv (FNlv (Some l)) = FNlv (norm_nlv (Some l)) \/ hv (FNlv (Some l)) = FNlv (Some l).
    Hypothesis hv_time : forall t, exists t', hv (FTime t) = FTime t' /\ vsecs t' = vsecs t.
    Hypothesis hv_other : forall v, match v with FItem _ | FItems (Some _) | FNlv (Some _) | FTime _ => True | _ => hv v = v end.

    Lemma value_same v ty (R R' : bytes -> list (fid * fval) -> option (list (bytes * fjv) * bool)) w via term :
      wfv ty v = true ->
      (forall i, ty = TItem -> v = FItem i -> tr (S f) (h i) = tr (S f') i) ->
      (forall l, ty = TItems -> v = FItems (Some l) ->
         Forall2 (fun x x' => tr (S f) x = tr (S f') x') (map h l) l /\ Forall2 (fun x x' => tr f x = tr f' x') (map h l) l) ->
      t_value (tr (S f)) R w via term (Some (hv v)) = t_value (tr (S f')) R' w via term (Some v).
    Proof.
      intros Hv Hi Hl.
      destruct v as [i|[l|]|l|s|t|d|u|z|bb|m|mt c|e|a0 b0 c0]; destruct ty; try discriminate Hv.
      - (* item *) rewrite hv_item. unfold t_value. rewrite (Hi i eq_refl eq_refl). reflexivity.
      - (* list *)
        rewrite hv_items. destruct (Hl l eq_refl eq_refl) as [H1 H2]. unfold t_value.
        rewrite (tree_list_ext f f' false false (map h l) l H2).
        destruct l as [|x r]; [discriminate Hv|]. cbn [map].
        rewrite (go_coll_ext (tr (S f)) (tr (S f')) term (h x :: map h r) (x :: r) H1 []). reflexivity.
      - (* text *)
        destruct l as [l|]; [|discriminate Hv]. destruct (hv_nlv l) as [E|E]; rewrite E; [|reflexivity].
        rewrite wfv_nlv in Hv. destruct l as [|[r0 v0] [|e2 l']]; try reflexivity.
        cbn [norm_nlv]. unfold text_ok in Hv. rewrite !andb_true_iff in Hv. destruct Hv as [[_ He] _].
        cbn [forallb] in He. rewrite andb_true_r in He. unfold ok_entryb in He. cbn [fst snd] in He.
        rewrite !andb_true_iff in He. destruct He as [_ Hne]. destruct v0; [discriminate Hne|]. reflexivity.
      - (* string *) pose proof (hv_other (Vocab.FStr s)) as E. cbn in E. rewrite E. reflexivity.
      - (* time *) destruct (hv_time t) as [t' [E Es]]. rewrite E. unfold t_value, time_writable. rewrite Es. reflexivity.
      - pose proof (hv_other (FDur d)) as E. cbn in E. rewrite E. reflexivity.
      - pose proof (hv_other (FUint u)) as E. cbn in E. rewrite E. reflexivity.
      - pose proof (hv_other (FInt z)) as E. cbn in E. rewrite E. reflexivity.
      - pose proof (hv_other (FBool bb)) as E. cbn in E. rewrite E. reflexivity.
      - pose proof (hv_other (FFloat m)) as E. cbn in E. rewrite E. reflexivity.
    Qed.
  End Value.

  (* ---- field lists of a well-formed object ---- *)
  Lemma wf_obj_fields p k fs : wf (IObj p k fs) = true ->
    forall f v, In (f, v) fs -> exists d, decl_of layout_of k f = Some d /\ wfv (fd_type d) v = true.
  Proof.
    intro Hw. cbn [wf_item] in Hw. rewrite !andb_true_iff in Hw. destruct Hw as [_ Hfields].
    exact (wf_fields layout_of registry load_switch activity_types actor_types link_types k fs Hfields).
  Qed.

  Lemma wf_obj_wfo p k fs : wf (IObj p k fs) = true -> forall f, wfo (getf f fs).
  Proof.
    intros Hw f. unfold wfo. destruct (getf f fs) as [v|] eqn:E; [|exact I].
    destruct (wf_obj_fields p k fs Hw f v (getf_in _ _ _ E)) as [d [_ Hv]]. eauto.
  Qed.

  Lemma path_get_wfo fs : (forall f, wfo (getf f fs)) -> forall path, wfo (path_get path fs).
  Proof.
    intros H path. destruct path as [|f [|g [|x r]]]; try exact I; cbn [path_get]; [apply H|].
    specialize (H f). destruct (getf f fs) as [v|]; [|exact I]. destruct H as [ty Hv].
    destruct v; destruct ty; try discriminate Hv; exact I.
  Qed.

  (* the fields of the normal form, looked up *)
  Lemma norm_getf p k fs : wf (IObj p k fs) = true ->
    forall f, getf f (canon_fields layout_of k (norm_fields layout_of fs)) = option_map nrmv (getf f fs).
  Proof.
    intros Hw f. destruct (getf f fs) as [v|] eqn:Eg; cbn [option_map].
    - destruct (wf_obj_fields p k fs Hw f v (getf_in _ _ _ Eg)) as [d [Hd Hv]].
      destruct (fval_step layout_of registry load_switch activity_types actor_types link_types Hlayout (fval_size v)
                  (wf_norm_n layout_of registry load_switch activity_types actor_types link_types Hlayout (fval_size v))
                  (fd_type d) v (le_n _) Hv) as [_ [Hz _]].
      apply (canon_complete layout_of Hlayout); [| |exact Hz].
      + unfold decl_of in Hd. apply find_some in Hd. destruct Hd as [Hin Hf]. apply fid_beq_eq in Hf. rewrite <- Hf. apply in_map. exact Hin.
      + unfold norm_fields. rewrite getf_map, Eg. reflexivity.
    - destruct (getf f (canon_fields layout_of k (norm_fields layout_of fs))) as [w|] eqn:Eg'; [|reflexivity]. exfalso.
      destruct (canon_in layout_of k _ f w (getf_in _ _ _ Eg')) as [_ [Hg _]].
      unfold norm_fields in Hg. rewrite getf_map, Eg in Hg. discriminate Hg.
  Qed.

  Lemma path_get_norm p k fs : wf (IObj p k fs) = true ->
    forall path, path_get path (canon_fields layout_of k (norm_fields layout_of fs)) = option_map nrmv (path_get path fs).
  Proof.
    intros Hw path. destruct path as [|f [|g [|x r]]]; try reflexivity; cbn [path_get]; [apply (norm_getf p k fs Hw)|].
    rewrite (norm_getf p k fs Hw f). pose proof (wf_obj_wfo p k fs Hw f) as H. destruct (getf f fs) as [v|]; [|reflexivity].
    destruct H as [ty Hv]. destruct v as [i|[l|]|l|s|t|d|u|z|bb|m|mt c|e|a0 b0 c0]; destruct ty; try discriminate Hv; reflexivity.
  Qed.

  Lemma wfv_items_elems l : wfv TItems (FItems (Some l)) = true -> forall x, In x l -> is_elem x = true /\ wf x = true.
  Proof.
    intro Hv. destruct l as [|x r]; [discriminate Hv|]. rewrite wfv_items in Hv. apply andb_true_iff in Hv. destruct Hv as [Hg _].
    exact (wf_list_elems layout_of registry load_switch activity_types actor_types link_types (x :: r) Hg).
  Qed.

  (* sizes *)
  Lemma size_field_lt p k (fs : list (fid * fval)) f v : getf f fs = Some v -> fval_size v < item_size (IObj p k fs).
  Proof. intro E. pose proof (size_in_fields fs f v (getf_in _ _ _ E)). cbn [item_size]. lia. Qed.

  (* ------------------------------------------------------------------ the fuel beyond the size does not matter *)
  Theorem tree_fuel_n : forall n x f f', item_size x <= n -> wf x = true -> item_size x < f -> item_size x < f' -> tr f x = tr f' x.
  Proof.
    induction n as [|n IH]; intros x f f' Hs Hw Hf Hf'.
    - destruct x as [| | | | p [l|]| ]; simpl in Hs; lia.
    - destruct f as [|g]; [lia|]. destruct f' as [|g']; [lia|].
      destruct x as [|k|p s|p k fs|p [l|]|p l];
        [discriminate Hw|discriminate Hw|reflexivity| | |discriminate Hw|discriminate Hw].
      + (* object *)
        cbn [tree_item]. unfold t_struct.
        rewrite (run_table_cong jw (tr g) (tr g') fs fs); [reflexivity| |reflexivity].
        intros R R' path w via term.
        pose proof (path_get_wfo fs (wf_obj_wfo p k fs Hw) path) as Ho.
        destruct (path_get path fs) as [v|] eqn:Ep; [|reflexivity]. destruct Ho as [ty Hv].
        assert (Hsz : fval_size v < item_size (IObj p k fs)).
        { destruct path as [|f0 [|g0 [|x0 r0]]]; try discriminate Ep; cbn [path_get] in Ep.
          - exact (size_field_lt p k fs f0 v Ep).
          - destruct (getf f0 fs) as [v0|] eqn:E0; [|discriminate Ep].
            pose proof (wf_obj_wfo p k fs Hw f0) as H0. rewrite E0 in H0. destruct H0 as [ty0 Hv0].
            destruct v0; destruct ty0; try discriminate Hv0; discriminate Ep. }
        destruct g as [|g0]; [lia|]. destruct g' as [|g0']; [lia|].
        rewrite <- (t_value_run_indep (tr (S g0')) R R' w via term (Some v)) by (cbn [plain_o]; exact (wfv_plain ty v Hv)).
        apply (value_same g0 g0' (fun x => x) (fun v => v)) with (ty := ty); try exact Hv.
        * reflexivity.
        * intro l. rewrite map_id. reflexivity.
        * intro l. right. reflexivity.
        * intro t. exists t. split; reflexivity.
        * intro v0. destruct v0 as [i|[l|]|[l|]|s|t|d|u|z|bb|m|mt c|e|a0 b0 c0]; try exact I; reflexivity.
        * intros i Ety Ev. subst ty v. cbn [fval_size] in Hsz. rewrite wfv_item in Hv. apply IH; [lia|exact Hv|lia|lia].
        * intros l Ety Ev. subst ty v. rewrite map_id.
          split; apply forall2_same; intros x Hx; pose proof (size_fitems_lt l x Hx) as Q;
            (apply IH; [lia|exact (proj2 (wfv_items_elems l Hv x Hx))|lia|lia]).
      + (* list *)
        destruct l as [|x r]; [discriminate Hw|]. rewrite wf_items in Hw. apply andb_true_iff in Hw. destruct Hw as [Hg _].
        pose proof (wf_list_elems layout_of registry load_switch activity_types actor_types link_types (x :: r) Hg) as Hel.
        apply tree_list_ext. apply forall2_same. intros z Hz.
        pose proof (size_items_in p (x :: r) z Hz) as Q. apply IH; try lia. exact (proj2 (Hel z Hz)).
  Qed.

  (* ------------------------------------------------------------------ the normal form writes the same tree *)
  Theorem tree_norm_n : forall n x f, item_size x <= n -> wf x = true -> item_size x < f -> tr f (nrm x) = tr f x.
  Proof.
    induction n as [|n IH]; intros x f Hs Hw Hf.
    - destruct x as [| | | | p [l|]| ]; simpl in Hs; lia.
    - destruct f as [|g]; [lia|].
      destruct x as [|k|p s|p k fs|p [l|]|p l]; try discriminate Hw.
      + (* IRI *) reflexivity.
      + (* object *)
        rewrite (norm_obj layout_of p k fs). cbn [tree_item]. unfold t_struct.
        rewrite (run_table_cong jw (tr g) (tr g) (canon_fields layout_of k (norm_fields layout_of fs)) fs); [reflexivity| |].
        * intros R R' path w via term. rewrite (path_get_norm p k fs Hw path).
          pose proof (path_get_wfo fs (wf_obj_wfo p k fs Hw) path) as Ho.
          destruct (path_get path fs) as [v|] eqn:Ep; [|reflexivity]. destruct Ho as [ty Hv]. cbn [option_map].
          assert (Hsz : fval_size v < item_size (IObj p k fs)).
          { destruct path as [|f0 [|g0 [|x0 r0]]]; try discriminate Ep; cbn [path_get] in Ep.
            - exact (size_field_lt p k fs f0 v Ep).
            - destruct (getf f0 fs) as [v0|] eqn:E0; [|discriminate Ep].
              pose proof (wf_obj_wfo p k fs Hw f0) as H0. rewrite E0 in H0. destruct H0 as [ty0 Hv0].
              destruct v0; destruct ty0; try discriminate Hv0; discriminate Ep. }
          destruct g as [|g0]; [lia|].
          rewrite <- (t_value_run_indep (tr (S g0)) R R' w via term (Some v)) by (cbn [plain_o]; exact (wfv_plain ty v Hv)).
          apply (value_same g0 g0 nrm nrmv) with (ty := ty); try exact Hv.
          -- reflexivity.
          -- intro l. apply (nrmv_items layout_of).
          -- intro l. left. reflexivity.
          -- intro t. exists (norm_time t). split; reflexivity.
          -- intro v0. destruct v0 as [i|[l|]|[l|]|s|t|d|u|z|bb|m|mt c|e|a0 b0 c0]; try exact I; reflexivity.
          -- intros i Ety Ev. subst ty v. cbn [fval_size] in Hsz. rewrite wfv_item in Hv. apply IH; [lia|exact Hv|lia].
          -- intros l Ety Ev. subst ty v.
             split; apply forall2_map_l; intros x Hx; pose proof (size_fitems_lt l x Hx) as Q;
               (apply IH; [lia|exact (proj2 (wfv_items_elems l Hv x Hx))|lia]).
        * intros b gs. symmetry. apply guards_same; [exact (wf_obj_wfo p k fs Hw)|exact (norm_getf p k fs Hw)].
      + (* list *)
        destruct l as [|x [|y r]]; [discriminate Hw| |].
        * (* one element: the element itself; tree_item on the list runs the element with one unit of fuel less *)
          change (nrm (IItems p (Some [x]))) with (nrm x).
          rewrite wf_items in Hw. unfold wf_go in Hw. rewrite !andb_true_iff in Hw. destruct Hw as [[[_ Hwx] _] _].
          assert (Hsx : S (item_size x) <= item_size (IItems p (Some [x]))) by (cbn [item_size]; lia).
          rewrite (IH x (S g) ltac:(lia) Hwx ltac:(lia)).
          change (tr (S g) (IItems p (Some [x]))) with (tr g x).
          apply (tree_fuel_n (item_size x) x (S g) g (le_n _) Hwx); lia.
        * rewrite (norm_many layout_of p x y r).
          rewrite wf_items in Hw. apply andb_true_iff in Hw. destruct Hw as [Hg _].
          pose proof (wf_list_elems layout_of registry load_switch activity_types actor_types link_types (x :: y :: r) Hg) as Hel.
          apply tree_list_ext. apply forall2_map_l. intros z Hz.
          pose proof (size_items_in p (x :: y :: r) z Hz) as Q. apply IH; [lia|exact (proj2 (Hel z Hz))|lia].
  Qed.

  (* the tree MarshalJSON writes: the same for a well-formed value and for its normal form *)
  Theorem tree_of_norm x : wf x = true -> tree_of jw (nrm x) = tree_of jw x.
  Proof.
    intro Hw. unfold tree_of.
    pose proof (wf_norm layout_of registry load_switch activity_types actor_types link_types Hlayout x Hw) as Hw'.
    set (F := S (Nat.max (item_size (nrm x)) (item_size x))).
    rewrite (tree_fuel_n (item_size (nrm x)) (nrm x) (S (item_size (nrm x))) F (le_n _) Hw') by (unfold F; lia).
    rewrite (tree_norm_n (item_size x) x F (le_n _) Hw) by (unfold F; lia).
    apply (tree_fuel_n (item_size x) x F (S (item_size x)) (le_n _) Hw); unfold F; lia.
  Qed.

  (* ... hence the same bytes *)
  Theorem marshal_norm x : wf x = true -> marshal_json jw (nrm x) = marshal_json jw x.
  Proof. intro Hw. rewrite !marshal_json_tree, (tree_of_norm x Hw). reflexivity. Qed.
End Inv.

(* ------------------------------------------------------------------ the fixpoint clause with the bytes *)
Section FixBytes.
  Variable jw_tables : list (bytes * bool * list wstmt).
  Variable jr_tables : list (bytes * list rstmt).
  Variable layout_of : kind -> list fdecl.
  Variable registry load_switch : bytes -> option kind.
  Variable activity_types actor_types link_types : list bytes.
  Hypothesis Htables : kinds_ok jw_tables jr_tables layout_of = true.
  Hypothesis Hterms : C01TreeWfP.terms_raw_ok jw_tables = true.
  Hypothesis Hlayout : forall k, NoDup (map fd_fid (layout_of k)).

  Notation wf := (wf_item layout_of registry load_switch activity_types actor_types link_types).
  Notation nrm := (norm_item layout_of).
  Notation enc := (marshal_json jw_tables).
  Notation dec := (unmarshal_json jr_tables layout_of registry load_switch activity_types actor_types link_types).
  Notation rnd := (round jw_tables jr_tables layout_of registry load_switch activity_types actor_types link_types).
  Notation rnds := (rounds jw_tables jr_tables layout_of registry load_switch activity_types actor_types link_types).

  (* encode, decode, encode: the second encoding is the first *)
  Theorem one_round_bytes x : wf x = true -> ddepth x <= 64 ->
    exists b, enc x = Some b /\ dec b = Some (Ok (nrm x)) /\ enc (nrm x) = Some b.
  Proof.
    intros Hw Hd.
    destruct (json_roundtrip jw_tables jr_tables layout_of registry load_switch activity_types actor_types link_types
                Htables x Hterms Hw Hd) as [b [E [_ D]]].
    exists b. split; [exact E|]. split; [exact D|].
    rewrite (marshal_norm jw_tables layout_of registry load_switch activity_types actor_types link_types Hlayout x Hw). exact E.
  Qed.

  (* any number of rounds, the first included: the same bytes, the normal form *)
  Theorem rounds_all x : wf x = true -> ddepth x <= 64 ->
    exists b, b <> [] /\ enc x = Some b /\ forall n, rnds n x = Some (b, nrm x).
  Proof.
    intros Hw Hd.
    destruct (json_roundtrip jw_tables jr_tables layout_of registry load_switch activity_types actor_types link_types
                Htables x Hterms Hw Hd) as [b [E [Hne D]]].
    assert (E2 : enc (nrm x) = Some b)
      by (rewrite (marshal_norm jw_tables layout_of registry load_switch activity_types actor_types link_types Hlayout x Hw); exact E).
    assert (D2 : dec b = Some (Ok (nrm (nrm x)))) by (rewrite (norm_idem layout_of Hlayout); exact D).
    assert (R1 : rnd x = Some (b, nrm x)) by (unfold round; rewrite E, D; reflexivity).
    assert (R2 : rnd (nrm x) = Some (b, nrm x)) by (unfold round; rewrite E2, D; reflexivity).
    exists b. split; [exact Hne|]. split; [exact E|]. intro n.
    destruct n as [|n]; [exact R1|]. cbn [rounds]. rewrite R1.
    induction n as [|n IH]; [exact R2|]. cbn [rounds]. rewrite R2. exact IH.
  Qed.
End FixBytes.
