(* The fixpoint theorems of Proofs/C05FixP.v on the tables regenerated from the source: the table conditions are
   evaluated here by vm_compute, so a source change that breaks one of them stops this file. *)
From AP.Model Require Import Prelude Bytes Text WsDoc Vocab Pred Layout Json JsonLeaf JsonTables JsonEnc JsonTree JsonCheck JsonDec JsonCodec
     JsonNorm JsonRoundCheck DocEquiv.
From AP.Gen Require Import Layout TypeLists Switches JsonW JsonR.
From AP.Proofs Require Import NlvP TextP WsParseP DecEquivP DecInstP C01TreeWfP C01LeafP C01RoundP C01NormP C05FixP.
Local Open Scope nat_scope.

Lemma fix_round_tables : kinds_ok jw_tables jr_tables layout_of = true.
Proof. vm_compute. reflexivity. Qed.
Lemma fix_terms_closed : terms_raw_ok jw_tables = true.
Proof. vm_compute. reflexivity. Qed.
Lemma fix_layout_nodup : forall k, NoDup (map fd_fid (layout_of k)).
Proof. intros k. apply nodup_fid_NoDup. destruct k; vm_compute; reflexivity. Qed.

(* the class and the normal form of the round-trip theorem (Props/C01.v: wf_vocab, norm) *)
Definition wf_doc : item -> bool := wf_item layout_of registry load_switch tl_ActivityTypes tl_ActorTypes tl_LinkTypes.
Definition norm_doc : item -> item := norm_item layout_of.

Definition round_doc : item -> option (bytes * item) :=
  round jw_tables jr_tables layout_of registry load_switch tl_ActivityTypes tl_ActorTypes tl_LinkTypes.
Definition rounds_doc : nat -> item -> option (bytes * item) :=
  rounds jw_tables jr_tables layout_of registry load_switch tl_ActivityTypes tl_ActorTypes tl_LinkTypes.

Lemma wf_norm_inst x : wf_doc x = true -> wf_doc (norm_doc x) = true.
Proof. exact (wf_norm layout_of registry load_switch tl_ActivityTypes tl_ActorTypes tl_LinkTypes fix_layout_nodup x). Qed.
Lemma ddepth_norm_inst x : wf_doc x = true -> ddepth (norm_doc x) <= ddepth x.
Proof. exact (ddepth_norm layout_of registry load_switch tl_ActivityTypes tl_ActorTypes tl_LinkTypes fix_layout_nodup x). Qed.
Lemma norm_idem_inst x : norm_doc (norm_doc x) = norm_doc x.
Proof. exact (norm_idem layout_of fix_layout_nodup x). Qed.

Lemma norm_is_fixpoint_inst x : wf_doc x = true -> ddepth x <= 149 ->
  exists b, enc (norm_doc x) = Some b /\ b <> [] /\ dec b = Some (Ok (norm_doc x)).
Proof.
  exact (norm_is_fixpoint jw_tables jr_tables layout_of registry load_switch tl_ActivityTypes tl_ActorTypes tl_LinkTypes
           fix_round_tables fix_terms_closed fix_layout_nodup x).
Qed.

Lemma two_rounds_inst x : wf_doc x = true -> ddepth x <= 149 ->
  exists b1 b2, enc x = Some b1 /\ dec b1 = Some (Ok (norm_doc x)) /\
                enc (norm_doc x) = Some b2 /\ b2 <> [] /\ dec b2 = Some (Ok (norm_doc x)).
Proof.
  exact (two_rounds jw_tables jr_tables layout_of registry load_switch tl_ActivityTypes tl_ActorTypes tl_LinkTypes
           fix_round_tables fix_terms_closed fix_layout_nodup x).
Qed.

(* stated for a DECODED value: whatever document d it came from *)
Lemma decoded_fixpoint_inst d y : dec d = Some (Ok y) -> wf_doc y = true -> ddepth y <= 149 ->
  exists b1 y1 b2, enc y = Some b1 /\ dec b1 = Some (Ok y1) /\ y1 = norm_doc y /\ wf_doc y1 = true /\
                   enc y1 = Some b2 /\ dec b2 = Some (Ok y1).
Proof.
  intros _ Hw Hd. destruct (two_rounds_inst y Hw Hd) as [b1 [b2 [E1 [D1 [E2 [_ D2]]]]]].
  exists b1, (norm_doc y), b2. repeat split; try assumption. apply wf_norm_inst. exact Hw.
Qed.

(* a decoded value that is its own normal form: one round changes nothing at all *)
Lemma decoded_normal_fixpoint_inst d y : dec d = Some (Ok y) -> wf_doc y = true -> ddepth y <= 149 -> norm_doc y = y ->
  exists b, enc y = Some b /\ dec b = Some (Ok y).
Proof.
  intros _ Hw Hd E.
  destruct (normal_value_fixpoint jw_tables jr_tables layout_of registry load_switch tl_ActivityTypes tl_ActorTypes tl_LinkTypes
              fix_round_tables fix_terms_closed fix_layout_nodup y Hw Hd E) as [b [A [_ B]]].
  exists b. split; assumption.
Qed.

Lemma rounds_stable_inst x : wf_doc x = true -> ddepth x <= 149 ->
  exists b1 b2, rounds_doc 0 x = Some (b1, norm_doc x) /\ forall n, rounds_doc (S n) x = Some (b2, norm_doc x).
Proof.
  exact (rounds_stable jw_tables jr_tables layout_of registry load_switch tl_ActivityTypes tl_ActorTypes tl_LinkTypes
           fix_round_tables fix_terms_closed fix_layout_nodup x).
Qed.

(* ---- whole documents: everything equivalent to the written document ---- *)
Lemma written_tree_inst x : wf_doc x = true -> ddepth x <= 149 -> exists v, tree_of jw_tables x = Some (Some v).
Proof.
  exact (written_tree_exists jw_tables jr_tables layout_of registry load_switch tl_ActivityTypes tl_ActorTypes tl_LinkTypes
           fix_round_tables x).
Qed.

Lemma equivalent_document_reads_inst x v d : wf_doc x = true -> ddepth x <= 149 ->
  tree_of jw_tables x = Some (Some v) -> keys_clean d = true -> doc_equiv known text v d ->
  dec_tree d = Some (norm_doc x).
Proof.
  intros Hw Hd Ht Hc E.
  exact (proj2 (equivalent_document_reads jw_tables jr_tables layout_of registry load_switch tl_ActivityTypes tl_ActorTypes tl_LinkTypes
                  fix_round_tables key_roles_inst x v d Hw Hd Ht Hc E)).
Qed.

(* ... as bytes, with any white space *)
Lemma equivalent_document_bytes_inst x v pre t post : wf_doc x = true -> ddepth x <= 149 ->
  tree_of jw_tables x = Some (Some v) ->
  wf_ws pre = true -> wf_ws post = true -> wf_wt t = true -> wdepth t <= 300 ->
  keys_clean (strip t) = true -> doc_equiv known text v (strip t) ->
  dec (pre ++ wprint t ++ post) = Some (Ok (norm_doc x)).
Proof.
  intros Hw Hd Ht A1 A2 A3 A4 Hc E.
  rewrite (dec_of_parse _ _ (ws_parse pre t post A1 A2 A3 A4)).
  rewrite (equivalent_document_reads_inst x v (strip t) Hw Hd Ht Hc E). reflexivity.
Qed.

(* ---- the bytes are stable from the FIRST encoding on (Proofs/C05BytesP.v) ---- *)
From AP.Proofs Require Import C05BytesP.

Lemma enc_norm_inst x : wf_doc x = true -> enc (norm_doc x) = enc x.
Proof.
  exact (marshal_norm jw_tables layout_of registry load_switch tl_ActivityTypes tl_ActorTypes tl_LinkTypes fix_layout_nodup x).
Qed.

Lemma tree_norm_inst x : wf_doc x = true -> tree_of jw_tables (norm_doc x) = tree_of jw_tables x.
Proof.
  exact (tree_of_norm jw_tables layout_of registry load_switch tl_ActivityTypes tl_ActorTypes tl_LinkTypes fix_layout_nodup x).
Qed.

(* every round - the first included - writes the same bytes and reads the normal form *)
Lemma rounds_all_inst x : wf_doc x = true -> ddepth x <= 149 ->
  exists b, b <> [] /\ enc x = Some b /\ forall n, rounds_doc n x = Some (b, norm_doc x).
Proof.
  exact (rounds_all jw_tables jr_tables layout_of registry load_switch tl_ActivityTypes tl_ActorTypes tl_LinkTypes
           fix_round_tables fix_terms_closed fix_layout_nodup x).
Qed.

(* for a DECODED value of the class: encode -> b, decode -> its normal form, encode -> the SAME b *)
Lemma decoded_fixpoint_bytes_inst d y : dec d = Some (Ok y) -> wf_doc y = true -> ddepth y <= 149 ->
  exists b, enc y = Some b /\ dec b = Some (Ok (norm_doc y)) /\ enc (norm_doc y) = Some b /\ wf_doc (norm_doc y) = true.
Proof.
  intros _ Hw Hd.
  destruct (one_round_bytes jw_tables jr_tables layout_of registry load_switch tl_ActivityTypes tl_ActorTypes tl_LinkTypes
              fix_round_tables fix_terms_closed fix_layout_nodup y Hw Hd) as [b [E1 [D1 E2]]].
  exists b. split; [exact E1|]. split; [exact D1|]. split; [exact E2|apply wf_norm_inst; exact Hw].
Qed.
