(* C05, the fixpoint clause (builder b42).
   (1) CLOSURE: the class wf_item of the round-trip theorem (Model/JsonNorm.v) is closed under the normal form
       norm_item, and the normal form does not nest deeper.  For every layout without a repeated field; by strong
       induction on the size of the item.
   (2) from (1), idempotence of norm_item (Proofs/C01NormP.v) and the round-trip theorem (Proofs/C01RoundP.v):
       the value decoded from the encoding of a well-formed value is a FIXPOINT of encode-then-decode, and its
       encoding is a fixpoint of decode-then-encode.
   (3) composition with the document equivalence of Proofs/DecEquivP.v: every document equivalent to the one the
       encoder writes decodes to the normal form.
   Generic over the tables (conditions kinds_ok, terms_raw_ok, keys_roles_ok); instantiated at the end on the tables
   regenerated from the source, the conditions by vm_compute. *)
From AP.Model Require Import Prelude Bytes Vocab Pred Url IriEq Nlv Json Text Equal Coll Dispatch Layout JsonTables JsonLeaf
     JsonEnc JsonTree JsonCheck JsonDec JsonNorm JsonRoundCheck DocEquiv.
From AP.Proofs Require Import NlvP TextP C01TreeP C01ParseP C01TreeWfP C01FlatP C01ItemP C01FieldP C01LeafP C01RoundP C01NormP DecEquivP.
Local Open Scope nat_scope.

(* ------------------------------------------------------------------ members of an endpoints list put in struct order *)
Lemma eiso_in l p : In p (endpoints_in_struct_order l) -> In p l.
Proof.
  rewrite eiso_unfold. intros H. apply in_app_or in H. destruct H as [H|H].
  - apply in_flat_map in H. destruct H as [f [_ Hp]]. destruct (efind f l) as [q|] eqn:E; [|destruct Hp].
    destruct Hp as [<-|[]]. exact (proj1 (efind_some _ _ _ E)).
  - apply filter_In in H. exact (proj1 H).
Qed.

Lemma eiso_in_order l p : (forall q, In q l -> in_eorder (fst q) = true) -> In p (endpoints_in_struct_order l) -> in_eorder (fst p) = true.
Proof. intros H Hp. apply H. exact (eiso_in l p Hp). Qed.

Lemma efind_first l p : In p l -> exists q, efind (fst p) l = Some q.
Proof.
  unfold efind. induction l as [|x r IH]; intros H; [destruct H|]. cbn [find].
  destruct (fid_beq (fst x) (fst p)) eqn:E; [eexists; reflexivity|]. destruct H as [->|H]; [rewrite fid_beq_refl in E; discriminate|exact (IH H)].
Qed.

Lemma eiso_nonempty l p : In p l -> in_eorder (fst p) = true -> endpoints_in_struct_order l <> [].
Proof.
  intros Hin Hord. destruct (efind_first l p Hin) as [q Hq]. rewrite eiso_unfold.
  assert (In q (flat_map (fun f => otl (efind f l)) endpoints_struct_order)).
  { apply in_flat_map. exists (fst p). split; [|rewrite Hq; left; reflexivity].
    unfold in_eorder in Hord. apply existsb_exists in Hord. destruct Hord as [x [Hx Hxe]]. apply fid_beq_eq in Hxe. subst x. exact Hx. }
  intros C. apply app_eq_nil in C. destruct C as [C _]. rewrite C in H. destruct H.
Qed.

Lemma picked_nodup l : forall ord, NoDup ord -> nodup_fid_list (map fst (flat_map (fun f' => otl (efind f' l)) ord)) = true.
Proof.
  induction ord as [|f r IH]; intros Hnd; [reflexivity|]. inversion Hnd as [|? ? Hn Hnd']; subst. cbn [flat_map]. rewrite map_app.
  destruct (efind f l) as [q|] eqn:E; cbn [otl map app]; [|exact (IH Hnd')].
  cbn [nodup_fid_list]. rewrite (IH Hnd'), andb_true_r. apply negb_true_iff. apply not_true_is_false. intros C.
  apply existsb_exists in C. destruct C as [x [Hx Hxe]]. apply fid_beq_eq in Hxe. subst x.
  apply in_map_iff in Hx. destruct Hx as [q' [Hq' Hin']]. pose proof (picked_in_order l r q' Hin') as Ho.
  apply existsb_exists in Ho. destruct Ho as [y [Hy Hye]]. apply fid_beq_eq in Hye. subst y.
  rewrite Hq', (proj2 (efind_some _ _ _ E)) in Hy. exact (Hn Hy).
Qed.

Lemma eorder_nodup : NoDup endpoints_struct_order.
Proof. unfold endpoints_struct_order. repeat constructor; cbn [In]; intuition discriminate. Qed.

Lemma eiso_nodup l : (forall q, In q l -> in_eorder (fst q) = true) -> nodup_fid_list (map fst (endpoints_in_struct_order l)) = true.
Proof.
  intros H. rewrite eiso_unfold, (filter_nil _ l) by (intros q Hq; rewrite (H q Hq); reflexivity). rewrite app_nil_r.
  exact (picked_nodup l _ eorder_nodup).
Qed.

Section Closure.
  Variable layout_of : kind -> list fdecl.
  Variable registry load_switch : bytes -> option kind.
  Variable activity_types actor_types link_types : list bytes.
  Hypothesis Hlayout : forall k, NoDup (map fd_fid (layout_of k)).

  Notation wf := (wf_item layout_of registry load_switch activity_types actor_types link_types).
  Notation wfv := (wf_fval layout_of registry load_switch activity_types actor_types link_types).
  Notation nrm := (norm_item layout_of).
  Notation nrmv := (norm_fval layout_of).

  (* ---- the wf predicate's inner loops, as statements about members ---- *)
  Lemma wf_list_intro (l : list item) :
    (forall y, In y l -> is_elem y = true /\ wf y = true) ->
    (fix go (l : list item) : bool := match l with [] => true | y :: r => is_elem y && wf y && go r end) l = true.
  Proof.
    induction l as [|x r IH]; intro H; [reflexivity|]. destruct (H x (or_introl eq_refl)) as [H1 H2].
    rewrite H1, H2. cbn [andb]. apply IH. intros y Hy. apply H. right. exact Hy.
  Qed.

  Lemma wf_fields_intro k (fs : list (fid * fval)) :
    (forall f v, In (f, v) fs -> exists d, decl_of layout_of k f = Some d /\ wfv (fd_type d) v = true) ->
    (fix go (l : list (fid * fval)) : bool :=
       match l with
       | [] => true
       | (f, v) :: r => match decl_of layout_of k f with Some d => wfv (fd_type d) v | None => false end && go r
       end) fs = true.
  Proof.
    induction fs as [|[f0 v0] r IH]; intro H; [reflexivity|].
    destruct (H f0 v0 (or_introl eq_refl)) as [d [Hd Hw]]. rewrite Hd, Hw. cbn [andb].
    apply IH. intros f v Hin. apply H. right. exact Hin.
  Qed.

  Lemma ddepth_list_le (l : list item) n : (forall y, In y l -> ddepth y <= n) ->
    (fix go (l : list item) : nat := match l with [] => O | x :: r => Nat.max (ddepth x) (go r) end) l <= n.
  Proof.
    induction l as [|x r IH]; intro H; [lia|]. pose proof (H x (or_introl eq_refl)).
    assert ((fix go (l : list item) : nat := match l with [] => O | x :: r => Nat.max (ddepth x) (go r) end) r <= n)
      by (apply IH; intros y Hy; apply H; right; exact Hy). lia.
  Qed.

  Lemma fdepth_fields_le (fs : list (fid * fval)) n : (forall f v, In (f, v) fs -> fdepth_v v <= n) ->
    (fix go (l : list (fid * fval)) : nat := match l with [] => O | (_, v) :: r => Nat.max (fdepth_v v) (go r) end) fs <= n.
  Proof.
    induction fs as [|[f0 v0] r IH]; intro H; [lia|]. pose proof (H f0 v0 (or_introl eq_refl)).
    assert ((fix go (l : list (fid * fval)) : nat := match l with [] => O | (_, v) :: r => Nat.max (fdepth_v v) (go r) end) r <= n)
      by (apply IH; intros f v Hin; apply (H f v); right; exact Hin). lia.
  Qed.

  (* ---- fields put in struct order ---- *)
  Lemma canon_in k G f v : In (f, v) (canon_fields layout_of k G) ->
    In f (map fd_fid (layout_of k)) /\ getf f G = Some v /\ fval_is_zero v = false.
  Proof.
    unfold canon_fields. induction (layout_of k) as [|d r IH]; intro H; [destruct H|].
    cbn [flat_map] in H. apply in_app_or in H. destruct H as [H|H].
    - destruct (getf (fd_fid d) G) as [w|] eqn:Eg; [|destruct H]. destruct (fval_is_zero w) eqn:Ez; [destruct H|].
      destruct H as [E|[]]. inversion E; subst. split; [left; reflexivity|]. split; [exact Eg|exact Ez].
    - destruct (IH H) as [A B]. split; [right; exact A|exact B].
  Qed.

  Lemma canon_nodup k G : nodup_fids (canon_fields layout_of k G) = true.
  Proof.
    unfold canon_fields. pose proof (Hlayout k) as Hnd. induction (layout_of k) as [|d r IH]; [reflexivity|].
    cbn [map] in Hnd. inversion Hnd as [|? ? Hn Hnd']; subst. cbn [flat_map].
    destruct (getf (fd_fid d) G) as [w|]; [|exact (IH Hnd')]. destruct (fval_is_zero w); [exact (IH Hnd')|].
    cbn [app nodup_fids]. rewrite (IH Hnd'), andb_true_r. apply negb_true_iff. apply not_true_is_false. intro E.
    apply existsb_exists in E. destruct E as [[f v] [Hin Hf]]. cbn [fst] in Hf. apply fid_beq_eq in Hf. subst f.
    apply Hn. clear - Hin. induction r as [|d1 r IHr]; [destruct Hin|]. cbn [flat_map] in Hin. apply in_app_or in Hin.
    destruct Hin as [Hin|Hin].
    - destruct (getf (fd_fid d1) G) as [w|]; [|destruct Hin]. destruct (fval_is_zero w); [destruct Hin|].
      destruct Hin as [E|[]]. inversion E. left. reflexivity.
    - right. exact (IHr Hin).
  Qed.

  Lemma canon_complete k G f v : In f (map fd_fid (layout_of k)) -> getf f G = Some v -> fval_is_zero v = false ->
    getf f (canon_fields layout_of k G) = Some v.
  Proof. intros Hin Hg Hz. rewrite (getf_canon layout_of Hlayout k G f Hin), Hg, Hz. reflexivity. Qed.

  (* ---- a well-formed field value stays set and well-formed under the normal form, given that for its items ---- *)
  Lemma utf8_nilref : ok_entryb (NilRef, NilRef) = true.
  Proof. vm_compute. reflexivity. Qed.

  Lemma text_ok_norm l : text_ok l = true -> match norm_nlv (Some l) with Some l' => text_ok l' = true | None => False end.
  Proof.
    intro H. destruct l as [|[r v] [|e2 l']]; cbn [norm_nlv]; try exact H.
    unfold text_ok in H. rewrite !andb_true_iff in H. destruct H as [[_ He] _].
    cbn [forallb] in He. rewrite andb_true_r in He.
    unfold text_ok. cbn [length forallb nodup_tagsb existsb].
    unfold ok_entryb in *. cbn [fst snd] in *. rewrite !andb_true_iff in He. destruct He as [[[_ _] Hv1] Hv2].
    rewrite Hv1, Hv2. vm_compute. reflexivity.
  Qed.

  (* unfolding equations of the mutual predicate, with the predicate folded *)
  Definition wf_go (l : list item) : bool :=
    (fix go (l : list item) : bool := match l with [] => true | y :: r => is_elem y && wf y && go r end) l.
  Lemma wfv_item i : wfv TItem (FItem i) = wf i.
  Proof. reflexivity. Qed.
  Lemma wfv_items x r : wfv TItems (FItems (Some (x :: r))) = wf_go (x :: r) && distinct_items (map nrm (x :: r)).
  Proof. reflexivity. Qed.
  Lemma wf_items p x r : wf (IItems p (Some (x :: r))) = wf_go (x :: r) && distinct_items (map nrm (x :: r)).
  Proof. reflexivity. Qed.
  Lemma wfv_nlv l : wfv TNlv (FNlv (Some l)) = text_ok l.
  Proof. reflexivity. Qed.
  Lemma wfv_str s : wfv TString (Vocab.FStr s) = string_ok s.
  Proof. reflexivity. Qed.
  Lemma wfv_time t : wfv TTime (FTime t) = time_ok t.
  Proof. reflexivity. Qed.
  Lemma wfv_dur d : wfv TDur (FDur d) = dur_ok d.
  Proof. reflexivity. Qed.

  Lemma size_fitems_lt (l : list item) z : In z l -> item_size z < fval_size (FItems (Some l)).
  Proof.
    intros H. cbn [fval_size]. induction l as [|y r IH]; [destruct H|]. destruct H as [<-|H]; [lia|]. specialize (IH H). lia.
  Qed.

  Lemma wf_endpoints_intro Z : Z <> [] -> nodup_fid_list (map fst Z) = true -> (forall q, In q Z -> in_eorder (fst q) = true) ->
    (forall q, In q Z -> wf (snd q) = true) -> wfv TEndpoints (FEndpoints (Some Z)) = true.
  Proof.
    intros Hne Hnd Hord Hmem. destruct Z as [|[f1 i1] X]; [congruence|]. cbn [wf_fval]. rewrite Hnd. cbn [andb].
    apply andb_true_iff. split.
    - apply forallb_forall. intros q Hq. exact (Hord q Hq).
    - assert (G : forall X', (forall q, In q X' -> wf (snd q) = true) ->
                (fix go (l : list (fid * item)) : bool := match l with [] => true | (_, y) :: r => wf y && go r end) X' = true).
      { induction X' as [|[f2 i2] r1 IHr]; intros H; [reflexivity|]. pose proof (H (f2, i2) (or_introl eq_refl)) as H1. cbn [snd] in H1.
        rewrite H1. cbn [andb]. apply IHr. intros q Hq. apply H. right. exact Hq. }
      exact (G ((f1, i1) :: X) Hmem).
  Qed.

  Section Step.
    Variable n : nat.
    Hypothesis IH : forall x, item_size x <= n -> wf x = true ->
      wf (nrm x) = true /\ (is_elem x = true -> is_elem (nrm x) = true) /\ ddepth (nrm x) <= ddepth x.

    Lemma list_step (l : list item) : (forall z, In z l -> item_size z <= n) ->
      (forall y, In y l -> is_elem y = true /\ wf y = true) -> distinct_items (map nrm l) = true ->
      (forall y, In y (map nrm l) -> is_elem y = true /\ wf y = true) /\
      distinct_items (map nrm (map nrm l)) = true /\
      (forall m, (forall y, In y l -> ddepth y <= m) -> forall y, In y (map nrm l) -> ddepth y <= m).
    Proof.
      intros Hs Hw Hd. split; [|split].
      - intros y Hy. apply in_map_iff in Hy. destruct Hy as [z [<- Hz]]. destruct (Hw z Hz) as [He Hwz].
        destruct (IH z (Hs z Hz) Hwz) as [A [B _]]. split; [exact (B He)|exact A].
      - rewrite map_map. rewrite (map_ext _ nrm (fun z => norm_idem layout_of Hlayout z)). exact Hd.
      - intros m Hm y Hy. apply in_map_iff in Hy. destruct Hy as [z [<- Hz]]. destruct (Hw z Hz) as [_ Hwz].
        destruct (IH z (Hs z Hz) Hwz) as [_ [_ C]]. specialize (Hm z Hz). lia.
    Qed.

    Lemma fval_step ty v : fval_size v <= n -> wfv ty v = true ->
      wfv ty (nrmv v) = true /\ fval_is_zero (nrmv v) = false /\ fdepth_v (nrmv v) <= fdepth_v v.
    Proof.
      intros Hs Hw.
      destruct ty, v as [i|[l|]|l|s|t|d|u|z|b|m|mt c|e|a b c]; try discriminate Hw.
      - (* item *)
        rewrite wfv_item in Hw. change (nrmv (FItem i)) with (FItem (nrm i)). cbn [fval_size] in Hs.
        destruct (IH i Hs Hw) as [A [_ C]]. split; [rewrite wfv_item; exact A|]. split; [|exact C].
        cbn [fval_is_zero]. destruct (nrm i); try reflexivity. discriminate A.
      - (* list *)
        destruct l as [|x r]; [discriminate Hw|]. rewrite wfv_items in Hw. apply andb_true_iff in Hw. destruct Hw as [Hg Hd].
        pose proof (wf_list_elems layout_of registry load_switch activity_types actor_types link_types (x :: r) Hg) as Hel.
        rewrite (nrmv_items layout_of (x :: r)).
        assert (Hsz : forall z, In z (x :: r) -> item_size z <= n).
        { intros z Hz. pose proof (size_fitems_lt (x :: r) z Hz) as Q. lia. }
        destruct (list_step (x :: r) Hsz Hel Hd) as [A [B C]].
        split; [|split; [reflexivity|]].
        + cbn [map]. rewrite wfv_items. apply andb_true_iff. split; [apply (wf_list_intro (nrm x :: map nrm r)); exact A|exact B].
        + cbn [fdepth_v]. apply ddepth_list_le. apply (C _ (fun y Hy => ddepth_list_in (x :: r) y Hy)).
      - (* text *)
        destruct l as [l|]; [|discriminate Hw]. rewrite wfv_nlv in Hw. change (nrmv (FNlv (Some l))) with (FNlv (norm_nlv (Some l))).
        pose proof (text_ok_norm l Hw) as T. destruct (norm_nlv (Some l)) as [l'|]; [|destruct T].
        split; [rewrite wfv_nlv; exact T|]. split; [reflexivity|]. apply le_n.
      - (* string *) split; [exact Hw|]. split; [|apply le_n].
        rewrite wfv_str in Hw. unfold string_ok in Hw. destruct s; [discriminate Hw|reflexivity].
      - (* time *)
        change (nrmv (FTime t)) with (FTime (norm_time t)). split; [exact Hw|]. split; [|apply le_n].
        rewrite wfv_time in Hw. unfold time_ok in Hw. rewrite !andb_true_iff in Hw. destruct Hw as [_ Hz].
        cbn [fval_is_zero]. unfold vtime_is_zero, norm_time. cbn [vsecs vnanos]. apply negb_true_iff in Hz. rewrite Hz. reflexivity.
      - (* duration *) split; [exact Hw|]. split; [|apply le_n].
        rewrite wfv_dur in Hw. unfold dur_ok in Hw. rewrite !andb_true_iff in Hw. destruct Hw as [[_ Hz] _].
        cbn [fval_is_zero]. apply negb_true_iff in Hz. exact Hz.
      - (* uint *) split; [exact Hw|]. split; [|apply le_n].
        cbn [wf_fval] in Hw. apply andb_true_iff in Hw. destruct Hw as [Hz _]. cbn [fval_is_zero].
        apply N.ltb_lt in Hz. apply N.eqb_neq. lia.
      - (* int *) split; [exact Hw|]. split; [|apply le_n].
        cbn [wf_fval] in Hw. rewrite !andb_true_iff in Hw. destruct Hw as [[Hz _] _]. cbn [fval_is_zero].
        apply negb_true_iff in Hz. exact Hz.
      - (* bool *) split; [exact Hw|]. split; [|apply le_n]. cbn [wf_fval] in Hw. subst b. reflexivity.
      - (* float *) split; [exact Hw|]. split; [|apply le_n].
        cbn [wf_fval] in Hw. rewrite !andb_true_iff in Hw. destruct Hw as [Hz _]. cbn [fval_is_zero].
        apply negb_true_iff in Hz. exact Hz.
      - (* source *)
        change (nrmv (FSource mt c)) with (FSource mt (norm_nlv c)).
        cbn [wf_fval] in Hw. rewrite !andb_true_iff, negb_true_iff in Hw. destruct Hw as [[Hmt Hc] Hnz].
        assert (Hc' : match norm_nlv c with None => true | Some l => text_ok l end = true /\ (c <> None -> norm_nlv c <> None)).
        { destruct c as [l|]; [|split; [reflexivity|congruence]]. pose proof (text_ok_norm l Hc) as T.
          destruct (norm_nlv (Some l)) as [l'|]; [|destruct T]. split; [exact T|discriminate]. }
        destruct Hc' as [Hc1 Hc2].
        assert (Hz : fval_is_zero (FSource mt (norm_nlv c)) = false).
        { cbn [fval_is_zero] in Hnz |- *. destruct mt; [|reflexivity]. destruct c as [l|]; [|discriminate Hnz].
          destruct (norm_nlv (Some l)); [reflexivity|exfalso; apply Hc2; [discriminate|reflexivity]]. }
        split; [|split; [exact Hz|apply le_n]]. cbn [wf_fval]. rewrite Hmt, Hc1, Hz. reflexivity.
      - (* endpoints *)
        destruct e as [[|p0 e0]|]; try discriminate Hw. cbn [wf_fval] in Hw. rewrite !andb_true_iff in Hw. destruct Hw as [[Hndf Hord] Hmem].
        set (e := p0 :: e0) in *.
        pose proof (wf_endpoints_members layout_of registry load_switch activity_types actor_types link_types e Hmem) as Hwm.
        rewrite (norm_endpoints layout_of e).
        set (L := map (fun p => (fst p, nrm (snd p))) e).
        assert (HLord : forall q, In q L -> in_eorder (fst q) = true).
        { intros q Hq. apply in_map_iff in Hq. destruct Hq as [q0 [<- Hq0]]. cbn [fst]. rewrite forallb_forall in Hord. exact (Hord q0 Hq0). }
        assert (HLmem : forall q, In q L -> wf (snd q) = true /\ exists q0, In q0 e /\ ddepth (snd q) <= ddepth (snd q0)).
        { intros q Hq. apply in_map_iff in Hq. destruct Hq as [q0 [<- Hq0]]. cbn [snd].
          assert (Hsq : item_size (snd q0) <= n) by (pose proof (size_endpoints_in e q0 Hq0); lia).
          destruct (IH (snd q0) Hsq (Hwm q0 Hq0)) as [A [_ C]]. split; [exact A|]. exists q0. split; [exact Hq0|exact C]. }
        assert (HLne : endpoints_in_struct_order L <> []).
        { apply (eiso_nonempty L (fst p0, nrm (snd p0))); [left; reflexivity|]. cbn [fst]. rewrite forallb_forall in Hord. apply Hord. left. reflexivity. }
        split; [|split].
        + apply wf_endpoints_intro; [exact HLne|exact (eiso_nodup L HLord)| |].
          * intros q Hq. exact (eiso_in_order L q HLord Hq).
          * intros q Hq. exact (proj1 (HLmem q (eiso_in L q Hq))).
        + destruct (endpoints_in_struct_order L); [congruence|reflexivity].
        + cbn [fdepth_v]. apply le_n_S. apply ddepth_endpoints_le. intros q Hq.
          destruct (HLmem q (eiso_in L q Hq)) as [_ [q0 [Hq0 Hle]]]. pose proof (ddepth_endpoints_in e q0 Hq0). lia.
      - (* public key *) split; [exact Hw|]. split; [|apply le_n].
        cbn [wf_fval] in Hw. rewrite !andb_true_iff, negb_true_iff in Hw. destruct Hw as [_ Hnz]. cbn [fval_is_zero].
        cbn [fval_is_zero] in Hnz. destruct a, b, c; try reflexivity; discriminate Hnz.
    Qed.
  End Step.

  Theorem wf_norm_n : forall n x, item_size x <= n -> wf x = true ->
    wf (nrm x) = true /\ (is_elem x = true -> is_elem (nrm x) = true) /\ ddepth (nrm x) <= ddepth x.
  Proof.
    induction n as [|n IH]; intros x Hs Hw.
    - destruct x as [| | | | p [l|]| ]; simpl in Hs; lia.
    - destruct x as [|k|p s|p k fs|p [l|]|p l]; try discriminate Hw.
      + (* IRI *) split; [exact Hw|]. split; [reflexivity|]. apply le_n.
      + (* object *)
        pose proof Hw as Hw0. cbn [wf_item] in Hw0. rewrite !andb_true_iff in Hw0.
        destruct Hw0 as [[[[Hne Hnd] Hsel] Hnotempty] Hfields].
        pose proof (wf_fields layout_of registry load_switch activity_types actor_types link_types k fs Hfields) as Hfv.
        rewrite (norm_obj layout_of p k fs).
        set (G := norm_fields layout_of fs). set (fs' := canon_fields layout_of k G).
        (* every field of the original, after the normal form *)
        assert (Hstep : forall f v, In (f, v) fs -> exists d, decl_of layout_of k f = Some d /\
                  wfv (fd_type d) (nrmv v) = true /\ fval_is_zero (nrmv v) = false /\ fdepth_v (nrmv v) <= fdepth_v v).
        { intros f v Hin. destruct (Hfv f v Hin) as [d [Hd Hwv]]. exists d. split; [exact Hd|].
          apply (fval_step n IH (fd_type d) v); [|exact Hwv].
          pose proof (size_in_fields fs f v Hin) as Q. cbn [item_size] in Hs. lia. }
        assert (Hdecl_in : forall f d, decl_of layout_of k f = Some d -> In f (map fd_fid (layout_of k))).
        { intros f d Hd. unfold decl_of in Hd. apply find_some in Hd. destruct Hd as [Hin Hf]. apply fid_beq_eq in Hf.
          rewrite <- Hf. apply in_map. exact Hin. }
        (* looking a field up afterwards *)
        assert (Hget : forall f, getf f fs' = option_map nrmv (getf f fs)).
        { intro f. destruct (getf f fs) as [v|] eqn:Eg.
          - destruct (Hstep f v (getf_in _ _ _ Eg)) as [d [Hd [_ [Hz _]]]]. cbn [option_map].
            apply canon_complete; [exact (Hdecl_in f d Hd)| |exact Hz].
            unfold G, norm_fields. rewrite getf_map, Eg. reflexivity.
          - cbn [option_map]. destruct (getf f fs') as [w|] eqn:Eg'; [|reflexivity]. exfalso.
            destruct (canon_in k G f w (getf_in _ _ _ Eg')) as [_ [Hg _]].
            unfold G, norm_fields in Hg. rewrite getf_map, Eg in Hg. discriminate Hg. }
        assert (Hin' : forall f v', In (f, v') fs' -> exists v, In (f, v) fs /\ v' = nrmv v).
        { intros f v' Hin. destruct (canon_in k G f v' Hin) as [_ [Hg _]].
          unfold G, norm_fields in Hg. rewrite getf_map in Hg. destruct (getf f fs) as [v|] eqn:Eg; [|discriminate Hg].
          cbn [option_map] in Hg. inversion Hg. exists v. split; [exact (getf_in _ _ _ Eg)|reflexivity]. }
        split; [|split; [reflexivity|]].
        * cbn [wf_item]. rewrite !andb_true_iff. repeat split.
          -- (* not the empty field list *)
             destruct fs as [|[f0 v0] r]; [discriminate Hne|].
             assert (E0 : getf f0 fs' = Some (nrmv v0)) by (rewrite Hget; cbn [getf]; rewrite fid_beq_refl; reflexivity).
             destruct fs'; [discriminate E0|reflexivity].
          -- apply canon_nodup.
          -- unfold type_selects in Hsel |- *. unfold get_str in Hsel |- *. rewrite (Hget F_Type).
             destruct (getf F_Type fs) as [[i|[l|]|l|s|t|d|u|z|b|m|mt c|[e|]|a b c]|]; exact Hsel.
          -- unfold fs', G. rewrite <- (norm_obj layout_of p k fs), (norm_idem layout_of Hlayout). exact Hnotempty.
          -- apply wf_fields_intro. intros f v' Hin. destruct (Hin' f v' Hin) as [v [Hv ->]].
             destruct (Hstep f v Hv) as [d [Hd [Hwv _]]]. exists d. split; assumption.
        * cbn [ddepth]. apply le_n_S. apply fdepth_fields_le. intros f v' Hin. destruct (Hin' f v' Hin) as [v [Hv ->]].
          destruct (Hstep f v Hv) as [_ [_ [_ [_ Hd]]]].
          pose proof (fdepth_fields fs f v Hv). lia.
      + (* list *)
        destruct l as [|x [|y r]]; [discriminate Hw| |].
        * (* one element: the element *)
          change (nrm (IItems p (Some [x]))) with (nrm x).
          rewrite wf_items in Hw. unfold wf_go in Hw. rewrite !andb_true_iff in Hw. destruct Hw as [[[He Hwx] _] _].
          assert (Hsx : item_size x <= n) by (pose proof (size_items_in p [x] x (or_introl eq_refl)); lia).
          destruct (IH x Hsx Hwx) as [A [B C]]. split; [exact A|]. split; [discriminate|]. cbn [ddepth]. lia.
        * rewrite (norm_many layout_of p x y r).
          rewrite wf_items in Hw. apply andb_true_iff in Hw. destruct Hw as [Hg Hd].
          pose proof (wf_list_elems layout_of registry load_switch activity_types actor_types link_types (x :: y :: r) Hg) as Hel.
          assert (Hsz : forall z, In z (x :: y :: r) -> item_size z <= n).
          { intros z Hz. pose proof (size_items_in p (x :: y :: r) z Hz). lia. }
          destruct (list_step n IH (x :: y :: r) Hsz Hel Hd) as [A [B C]].
          split; [|split; [discriminate|]].
          -- cbn [map]. rewrite wf_items. apply andb_true_iff. split; [apply (wf_list_intro (nrm x :: nrm y :: map nrm r)); exact A|exact B].
          -- cbn [ddepth]. apply ddepth_list_le.
             apply (C _ (fun z Hz => ddepth_list_in (x :: y :: r) z Hz)).
  Qed.

  Theorem wf_norm x : wf x = true -> wf (nrm x) = true.
  Proof. intro H. exact (proj1 (wf_norm_n (item_size x) x (le_n _) H)). Qed.
  Theorem ddepth_norm x : wf x = true -> ddepth (nrm x) <= ddepth x.
  Proof. intro H. exact (proj2 (proj2 (wf_norm_n (item_size x) x (le_n _) H))). Qed.
End Closure.

(* ------------------------------------------------------------------ (2) the fixpoint, (3) equivalent documents *)
Section FixClause.
  Variable jw_tables : list (bytes * bool * list wstmt).
  Variable jr_tables : list (bytes * list rstmt).
  Variable layout_of : kind -> list fdecl.
  Variable registry load_switch : bytes -> option kind.
  Variable activity_types actor_types link_types : list bytes.
  Hypothesis Htables : kinds_ok jw_tables jr_tables layout_of = true.
  Hypothesis Hterms : terms_raw_ok jw_tables = true.
  Hypothesis Hlayout : forall k, NoDup (map fd_fid (layout_of k)).

  Notation wf := (wf_item layout_of registry load_switch activity_types actor_types link_types).
  Notation nrm := (norm_item layout_of).
  Notation enc := (marshal_json jw_tables).
  Notation dec := (unmarshal_json jr_tables layout_of registry load_switch activity_types actor_types link_types).
  Notation dtree := (unmarshal_to_item jr_tables layout_of registry load_switch activity_types actor_types link_types).

  (* the normal form of a well-formed value: encoding is defined, not empty, and decodes to the value itself *)
  Theorem norm_is_fixpoint x : wf x = true -> ddepth x <= 149 ->
    exists b, enc (nrm x) = Some b /\ b <> [] /\ dec b = Some (Ok (nrm x)).
  Proof.
    intros Hw Hd.
    pose proof (wf_norm layout_of registry load_switch activity_types actor_types link_types Hlayout x Hw) as Hw'.
    pose proof (ddepth_norm layout_of registry load_switch activity_types actor_types link_types Hlayout x Hw) as Hd'.
    destruct (json_roundtrip_depth jw_tables jr_tables layout_of registry load_switch activity_types actor_types link_types
                Htables (nrm x) Hterms Hw' ltac:(lia)) as [b [E [Hne D]]].
    rewrite (norm_idem layout_of Hlayout) in D. exists b. repeat split; assumption.
  Qed.

  (* a value in normal form already *)
  Theorem normal_value_fixpoint y : wf y = true -> ddepth y <= 149 -> nrm y = y ->
    exists b, enc y = Some b /\ b <> [] /\ dec b = Some (Ok y).
  Proof. intros Hw Hd E. rewrite <- E. apply norm_is_fixpoint; assumption. Qed.

  (* two rounds from any well-formed value: the first decoding gives the normal form; encoding THAT and decoding again
     gives the same value *)
  Theorem two_rounds x : wf x = true -> ddepth x <= 149 ->
    exists b1 b2, enc x = Some b1 /\ dec b1 = Some (Ok (nrm x)) /\
                  enc (nrm x) = Some b2 /\ b2 <> [] /\ dec b2 = Some (Ok (nrm x)).
  Proof.
    intros Hw Hd.
    destruct (json_roundtrip_depth jw_tables jr_tables layout_of registry load_switch activity_types actor_types link_types
                Htables x Hterms Hw Hd) as [b1 [E1 [_ D1]]].
    destruct (norm_is_fixpoint x Hw Hd) as [b2 [E2 [N2 D2]]].
    exists b1, b2. repeat split; assumption.
  Qed.

  (* any number of rounds: encode, decode, and again *)
  Definition round (v : item) : option (bytes * item) :=
    match enc v with
    | Some b => match dec b with Some (Ok y) => Some (b, y) | _ => None end
    | None => None
    end.
  Fixpoint rounds (n : nat) (v : item) : option (bytes * item) :=
    match n with
    | O => round v
    | S m => match round v with Some (_, y) => rounds m y | None => None end
    end.

  (* from the second round on, bytes and value no longer change *)
  Theorem rounds_stable x : wf x = true -> ddepth x <= 149 ->
    exists b1 b2, rounds 0 x = Some (b1, nrm x) /\ forall n, rounds (S n) x = Some (b2, nrm x).
  Proof.
    intros Hw Hd. destruct (two_rounds x Hw Hd) as [b1 [b2 [E1 [D1 [E2 [_ D2]]]]]].
    assert (R1 : round x = Some (b1, nrm x)) by (unfold round; rewrite E1, D1; reflexivity).
    assert (R2 : round (nrm x) = Some (b2, nrm x)) by (unfold round; rewrite E2, D2; reflexivity).
    exists b1, b2. split; [exact R1|]. intro n. cbn [rounds]. rewrite R1.
    induction n as [|n IH]; [exact R2|]. cbn [rounds]. rewrite R2. exact IH.
  Qed.

  (* ---- (3) every document equivalent to the written one ---- *)
  Hypothesis Hroles : keys_roles_ok jr_tables = true.

  Theorem equivalent_document_reads x v d : wf x = true -> ddepth x <= 149 ->
    tree_of jw_tables x = Some (Some v) -> keys_clean d = true ->
    doc_equiv (known_of jr_tables) (text_of jr_tables) v d ->
    keys_clean v = true /\ dtree d = Some (nrm x).
  Proof.
    intros Hw Hd Ht Hc E.
    destruct (tree_round_depth jw_tables jr_tables layout_of registry load_switch activity_types actor_types link_types
                Htables x _ Hw Hd Ht) as [v' [Ev [[Hcv _] Hu]]].
    inversion Ev; subst v'. split; [exact Hcv|].
    rewrite <- (unmarshal_to_item_equiv _ _ jr_tables layout_of registry load_switch activity_types actor_types link_types
                  (keys_roles_tables_ok jr_tables Hroles) v d Hcv Hc E).
    exact Hu.
  Qed.

  (* the encoder's tree is defined for every well-formed value (so the hypothesis above is not vacuous) *)
  Theorem written_tree_exists x : wf x = true -> ddepth x <= 149 -> exists v, tree_of jw_tables x = Some (Some v).
  Proof.
    intros Hw Hd.
    destruct (enc_defined jw_tables jr_tables layout_of registry load_switch activity_types actor_types link_types
                Htables (S (item_size x)) x Hw ltac:(lia)) as [o Et].
    fold (tree_of jw_tables x) in Et.
    destruct (tree_round_depth jw_tables jr_tables layout_of registry load_switch activity_types actor_types link_types
                Htables x o Hw Hd Et) as [v [-> _]].
    exists v. exact Et.
  Qed.
End FixClause.
