(* C11 on the serialised bytes: after Clean, the JSON object written for the value itself and for every
   object embedded by pointer along the walked properties, at any depth and through lists, has no member
   named bto or bcc.  Built on the assembly theorem of C02 (Proofs/JsonEncGP.v) and on the model-level
   theorem [no_private_strip] (Proofs/CleanP.v).  Generic in the write tables. *)
From AP.Model Require Import Prelude Bytes Vocab Pred Json JsonLeaf JsonTables Dispatch JsonEnc JsonCheck JsonGrammarCheck.
From AP.Model Require Clean.
From AP.Spec Require Import Rfc8259.
From AP.Proofs Require Import Rfc8259P JsonLeafGP JsonEncTraceP JsonEncGP.
From AP.Proofs Require CleanP.
Import Clean.    (* after JsonTables: strip, no_private, spec_clean ...; the wstep constructors are not used here *)

(* ---------------------------------------------------------------- the walk, as a relation on values *)
(* [on_walk y z]: z is y itself, or is reached from y through pointer-embedded non-link structs along the
   property's walked properties (audience, attachment, icon, image, context, generator, attributedTo,
   preview, tag; object, actor, target of an activity), through item values and lists *)
Inductive on_walk : item -> item -> Prop :=
| ow_here x : on_walk x x
| ow_field k fs f i z :
    is_link_kind k = false -> memf f (spec_clean k) = true -> In (f, FItem i) fs -> on_walk i z ->
    on_walk (IObj true k fs) z
| ow_field_list k fs f l i z :
    is_link_kind k = false -> memf f (spec_clean k) = true -> In (f, FItems (Some l)) fs -> In i l -> on_walk i z ->
    on_walk (IObj true k fs) z
| ow_list p l i z : In i l -> on_walk i z -> on_walk (IItems p (Some l)) z.

Lemma trunc_fields f : memf f spec_trunc = true -> f = F_Bto \/ f = F_BCC.
Proof. destruct f; intros H; try discriminate H; [left|right]; reflexivity. Qed.

Lemma clean_not_trunc k f : memf f (spec_clean k) = true -> memf f spec_trunc = false.
Proof.
  intros H. destruct (memf f spec_trunc) eqn:E; [|reflexivity]. exfalso.
  destruct (trunc_fields f E) as [-> | ->]; destruct k; discriminate H.
Qed.

Lemma no_private_fields k fs :
  (fix go (fs : list (fid * fval)) : bool :=
     match fs with
     | [] => true
     | (f, v) :: r =>
         (if memf f spec_trunc then negb (has_private v)
          else if memf f (spec_clean k) then no_private_fval v else true) && go r
     end) fs = true ->
  forall f v, In (f, v) fs ->
    (memf f spec_trunc = true -> has_private v = false) /\
    (memf f (spec_clean k) = true -> no_private_fval v = true).
Proof.
  induction fs as [|[g w] fs IH]; intros H f v Hin; [contradiction|].
  apply andb_true_iff in H. destruct H as [H1 H2]. destruct Hin as [E|Hin]; [|exact (IH H2 f v Hin)].
  inversion E; subst. split.
  - intros Ht. rewrite Ht in H1. apply negb_true_iff in H1. exact H1.
  - intros Hc. rewrite (clean_not_trunc k f Hc), Hc in H1. exact H1.
Qed.

Lemma no_private_obj k fs : is_link_kind k = false -> no_private (IObj true k fs) = true ->
  forall f v, In (f, v) fs ->
    (memf f spec_trunc = true -> has_private v = false) /\
    (memf f (spec_clean k) = true -> no_private_fval v = true).
Proof. intros L H. cbn [no_private] in H. rewrite L in H. cbn [orb] in H. exact (no_private_fields k fs H). Qed.

Lemma no_private_list l :
  (fix go (l : list item) : bool := match l with [] => true | x :: r => no_private x && go r end) l = true ->
  forall i, In i l -> no_private i = true.
Proof.
  induction l as [|x l IH]; intros H i Hin; [contradiction|]. apply andb_true_iff in H. destruct H as [H1 H2].
  destruct Hin as [<-|Hin]; [exact H1|exact (IH H2 i Hin)].
Qed.

Lemma no_private_on_walk y z : on_walk y z -> no_private y = true -> no_private z = true.
Proof.
  induction 1 as [x|k fs f i z L Hc Hin Hw IH|k fs f l i z L Hc Hin Hil Hw IH|p l i z Hil Hw IH]; intros H.
  - exact H.
  - apply IH. destruct (no_private_obj k fs L H f _ Hin) as [_ K]. exact (K Hc).
  - apply IH. destruct (no_private_obj k fs L H f _ Hin) as [_ K]. pose proof (K Hc) as K'.
    cbn [no_private_fval] in K'. exact (no_private_list l K' i Hil).
  - apply IH. cbn [no_private] in H. exact (no_private_list l H i Hil).
Qed.

Lemma idom_on_walk y z : on_walk y z -> idom y -> idom z.
Proof.
  induction 1 as [x|k fs f i z L Hc Hin Hw IH|k fs f l i z L Hc Hin Hil Hw IH|p l i z Hil Hw IH]; intros H.
  - exact H.
  - apply IH. exact (fdom_item i (idom_obj _ _ _ H f _ Hin)).
  - apply IH. pose proof (idom_items false l (fdom_items _ (idom_obj _ _ _ H f _ Hin))) as K.
    rewrite Forall_forall in K. exact (K i Hil).
  - apply IH. pose proof (idom_items p l H) as K. rewrite Forall_forall in K. exact (K i Hil).
Qed.

(* ---------------------------------------------------------------- the item-collection writer *)
Lemma write_value_ic enc rt w via term v n bb r :
  is_ic_writer w = true -> write_value enc rt w via term v = Some (n, bb, r) -> bb <> [] ->
  exists x l, v = Some (FItems (Some (x :: l))).
Proof.
  unfold is_ic_writer. intros Hw H Hne. apply bytes_eqb_true in Hw. subst w. unfold write_value in H.
  assert (bytes_eqb (B "JSONWriteItemCollectionProp") (B "JSONWriteItemProp") = false) as E1 by reflexivity.
  assert (bytes_eqb (B "JSONWriteItemCollectionProp") (B "JSONWriteItemCollectionProp") = true) as E2 by reflexivity.
  rewrite E1, E2 in H.
  destruct v as [[i|[[|x l]|]| | | | | | | | | | |]|]; try discriminate H;
    try (inversion H; subst; contradiction).
  exists x, l. reflexivity.
Qed.

Lemma getf_In2 f fs v : getf f fs = Some v -> In (f, v) fs.
Proof.
  induction fs as [|[g w] fs IH]; [discriminate|]. cbn [getf]. destruct (fid_beq f g) eqn:E.
  - intros H. inversion H; subst. apply CleanP.c_fid_beq_eq in E. subst g. left. reflexivity.
  - intros H. right. exact (IH H).
Qed.

Lemma Forall2_pick {A B} (R1 : bytes -> B -> Prop) (R2 : (bytes * A) -> B -> Prop) kvs es n :
  Forall2 R1 (map fst kvs) es -> Forall2 R2 kvs es -> In n (map fst kvs) ->
  exists kv e, In e es /\ fst kv = n /\ R1 n e /\ R2 kv e.
Proof.
  intros H1 H2. revert H1. induction H2 as [|kv e kvs es Hkv Hr IH]; intros H1 Hin; [contradiction|].
  cbn [map] in H1. inversion H1; subst. destruct Hin as [E|Hin].
  - exists kv, e. repeat split; [left; reflexivity|exact E|rewrite <- E; assumption|exact Hkv].
  - destruct (IH ltac:(assumption) Hin) as [kv' [e' [He [Hf [Hr1 Hr2]]]]].
    exists kv', e'. repeat split; [right; exact He|exact Hf|exact Hr1|exact Hr2].
Qed.

(* ---------------------------------------------------------------- one object *)
Section Obj.
  Variable T : list (bytes * bool * list wstmt).
  Hypothesis HT : grammar_tables_ok T = true.
  Hypothesis HP : private_tables_ok T = true.

  (* the only entry that can write a member called [name] is the item-collection writer on field [f], and
     that field holds no non-empty list: the object has no such member *)
  Lemma no_member name f (Hname : name = B "bto" /\ f = F_Bto \/ name = B "bcc" /\ f = F_BCC) :
    forall fuel p k fs b, idom (IObj p k fs) ->
      (forall v, getf f fs = Some v -> has_private v = false) ->
      enc_item T fuel (IObj p k fs) = Some b ->
      forall f0 kvs es es', Jvalue b (VObj kvs) ->
        flatten_w T 6 (marshal_table k) = Some es -> subseq es' es ->
        Forall2 (fun n e => In n (names_of e)) (map fst kvs) es' ->
        Forall2 (prov T (enc_item T f0) 6 fs) kvs es' ->
        ~ In name (map fst kvs).
  Proof.
    intros fuel p k fs b Hi Hpriv H f0 kvs es es' Hj F S1 Nm Pv Hin.
    destruct (Forall2_pick _ _ kvs es' name Nm Pv Hin) as [kv [e [He [Hf [Hn [[d0 [bb [r [Hlt [W Hne]]]]] _]]]]]].
    assert (exists init stmts, jw_table T (marshal_table k) = Some (init, stmts)) as [init [stmts J]].
    { rewrite flatten_w_S in F. destruct (jw_table T (marshal_table k)) as [[init stmts]|]; [|discriminate].
      exists init, stmts. reflexivity. }
    pose proof (every_flat_at T (forallb private_entry_ok) 6 _ init stmts es HP (le_n 6) J F) as Hall.
    rewrite forallb_forall in Hall. pose proof (Hall e (subseq_In _ _ _ S1 He)) as Hpe.
    unfold private_entry_ok in Hpe. rewrite forallb_forall in Hpe. pose proof (Hpe name Hn) as K.
    assert (is_ic_writer (wf_writer e) = true /\ path_is e f = true) as [Hic Hpath].
    { destruct Hname as [[-> ->]|[-> ->]].
      - assert (bytes_eqb (B "bto") (B "bto") = true) as E by reflexivity. rewrite E in K.
        apply andb_true_iff in K. exact K.
      - assert (bytes_eqb (B "bcc") (B "bto") = false) as E1 by reflexivity.
        assert (bytes_eqb (B "bcc") (B "bcc") = true) as E2 by reflexivity. rewrite E1, E2 in K.
        apply andb_true_iff in K. exact K. }
    rewrite Hf in W.
    destruct (write_value_ic _ _ _ _ _ _ _ _ _ Hic W Hne) as [x [l Hv]].
    unfold path_is in Hpath. destruct (wf_path e) as [|g [|g' pth]]; try discriminate Hpath.
    apply CleanP.c_fid_beq_eq in Hpath. subst g. cbn [path_get] in Hv.
    pose proof (Hpriv _ Hv) as Hc. discriminate Hc.
  Qed.

  Theorem obj_no_private_members : forall fuel p k fs b, idom (IObj p k fs) ->
    (forall v, getf F_Bto fs = Some v -> has_private v = false) ->
    (forall v, getf F_BCC fs = Some v -> has_private v = false) ->
    enc_item T fuel (IObj p k fs) = Some b ->
    b = [] \/ exists kvs, Jvalue b (VObj kvs) /\ jv_names_unique (VObj kvs) = true /\
                          ~ In (B "bto") (map fst kvs) /\ ~ In (B "bcc") (map fst kvs).
  Proof.
    intros fuel p k fs b Hi Hbto Hbcc H.
    destruct (enc_obj_full T HT fuel p k fs b Hi H) as [->|[f0 [kvs [es [es' [_ [Hj [Hu [F [S1 [Nm Pv]]]]]]]]]]]; [left; reflexivity|].
    right. exists kvs. repeat split; try assumption.
    - exact (no_member (B "bto") F_Bto (or_introl (conj eq_refl eq_refl)) fuel p k fs b Hi Hbto H f0 kvs es es' Hj F S1 Nm Pv).
    - exact (no_member (B "bcc") F_BCC (or_intror (conj eq_refl eq_refl)) fuel p k fs b Hi Hbcc H f0 kvs es es' Hj F S1 Nm Pv).
  Qed.

  (* after Clean: every pointer-embedded non-link struct on the walk, whatever encoder call writes it *)
  Theorem clean_bytes_walk : forall x z, idom (strip x) -> on_walk (strip x) z ->
    forall k fs, z = IObj true k fs -> is_link_kind k = false ->
    forall fuel b, enc_item T fuel z = Some b ->
    b = [] \/ exists kvs, Jvalue b (VObj kvs) /\ jv_names_unique (VObj kvs) = true /\
                          ~ In (B "bto") (map fst kvs) /\ ~ In (B "bcc") (map fst kvs).
  Proof.
    intros x z Hd Hw k fs -> L fuel b H.
    pose proof (no_private_on_walk _ _ Hw (CleanP.no_private_strip x)) as Hnp.
    pose proof (idom_on_walk _ _ Hw Hd) as Hi.
    apply (obj_no_private_members fuel true k fs b Hi); [| |exact H].
    - intros v Hv. destruct (no_private_obj k fs L Hnp F_Bto v (getf_In2 _ _ _ Hv)) as [K _]. apply K. reflexivity.
    - intros v Hv. destruct (no_private_obj k fs L Hnp F_BCC v (getf_In2 _ _ _ Hv)) as [K _]. apply K. reflexivity.
  Qed.
End Obj.

(* ---------------------------------------------------------------- Clean stays inside the domain of the encoder theorems *)
Lemma fval_all_trunc P v : fval_all P v = true -> fval_all P (trunc v) = true.
Proof. destruct v as [i|[l|]|c|s|t|d|n|z|b|m|mt c|e|a o pm]; intros H; try exact H. reflexivity. Qed.

Lemma item_all_entries P l :
  Forall (fun x => item_all P x = true -> item_all P (strip x) = true) l ->
  (fix go (l : list item) : bool := match l with [] => true | x :: r => item_all P x && go r end) l = true ->
  (fix go (l : list item) : bool := match l with [] => true | x :: r => item_all P x && go r end) (map CleanP.strip_entry l) = true.
Proof.
  induction 1 as [|x l Hx Hl IH]; intros H; [reflexivity|].
  apply andb_true_iff in H. destruct H as [H1 H2]. cbn [map]. apply andb_true_iff. split; [|exact (IH H2)].
  unfold CleanP.strip_entry. destruct (is_nil x); [reflexivity|exact (Hx H1)].
Qed.

Lemma item_all_strip P : forall x, item_all P x = true -> item_all P (strip x) = true.
Proof.
  apply (CleanP.item_ind2 (fun x => item_all P x = true -> item_all P (strip x) = true)
                          (fun v => fval_all P v = true -> fval_all P (strip_fval v) = true));
    try (intros; assumption).
  - (* struct *)
    intros p k fs F H. destruct p; [|exact H].
    destruct (is_link_kind k) eqn:L; [destruct k; try discriminate L; exact H|].
    rewrite (CleanP.strip_obj_ptr k fs L). cbn [item_all] in *.
    induction F as [|[f v] r Hv Hr IH]; [reflexivity|]. cbn [map fst snd].
    apply andb_true_iff in H. destruct H as [H1 H2]. apply andb_true_iff. split; [|exact (IH H2)].
    unfold strip_field. destruct (memf f spec_trunc); [apply fval_all_trunc; exact H1|].
    destruct (memf f (spec_clean k)); [exact (Hv H1)|exact H1].
  - (* list *)
    intros p l F H. rewrite CleanP.strip_items. cbn [item_all] in *. apply item_all_entries; assumption.
  - (* item value *)
    intros i IH H. exact (IH H).
  - (* list value *)
    intros l F H. rewrite CleanP.strip_fval_items. cbn [fval_all] in *. apply item_all_entries; assumption.
Qed.

Lemma idom_strip x : idom x -> idom (strip x).
Proof. apply item_all_strip. Qed.
