(* C11: the table condition evaluated on the walk tables regenerated from the source on this run. *)
From AP.Model Require Import Prelude Vocab Pred Clean CleanGen.
From AP.Proofs Require Import CleanP.

Lemma gen_walks_ok : walk_matches_spec gen_walk_tables = true.
Proof. vm_compute. reflexivity. Qed.

Lemma gen_refines x : clean_m x = Ok (strip x).
Proof. apply clean_refines_strip. exact gen_walks_ok. Qed.

Lemma gen_hidden x a : clean_m x = Ok a -> no_private a = true.
Proof. rewrite gen_refines. intro H. inversion H. apply no_private_strip. Qed.

Lemma pinned_walks_not_ok :
  walk_matches_spec pinned_walk_tables = false /\
  option_map (fun p => ce_kind (fst p)) (first_bad_walk pinned_walk_tables) = Some KIntransitive.
Proof. split; vm_compute; reflexivity. Qed.

Lemma pinned_leaks :
  exists x a, clean_item pinned_walk_tables x = Ok a /\ no_private a = false /\
              exists b, clean_m x = Ok b /\ no_private b = true.
Proof.
  exists c11_travel. eexists. split; [vm_compute; reflexivity|]. split; [vm_compute; reflexivity|].
  eexists. split; [vm_compute; reflexivity|]. vm_compute; reflexivity.
Qed.

Lemma deep_example :
  no_private c11_deep = false /\
  exists a, clean_m c11_deep = Ok a /\ no_private a = true /\
    (* off the walk and embedded by value: untouched, private recipients included *)
    (match a, c11_deep with
     | IObj _ _ fa, IObj _ _ fx =>
         getf F_InReplyTo fa = getf F_InReplyTo fx /\ getf F_Icon fa = getf F_Icon fx /\
         getf F_To fa = getf F_To fx /\ getf F_Bto fa = Some (FItems (Some []))
     | _, _ => False
     end).
Proof.
  split; [vm_compute; reflexivity|]. eexists. split; [vm_compute; reflexivity|].
  split; [vm_compute; reflexivity|]. vm_compute. repeat split; reflexivity.
Qed.
