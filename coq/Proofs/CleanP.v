(* Lemmas for C11: the walk interpreter of Model/Clean.v against the specification [strip]. *)
From AP.Model Require Import Prelude Vocab Pred Clean.

(* ------------------------------------------------------------------ induction over the value universe *)
Section ItemInd.
  Variables (P : item -> Prop) (Q : fval -> Prop).
  Hypotheses
    (HNil : P INil) (HTNil : forall k, P (ITNil k)) (HIri : forall p s, P (IIri p s))
    (HObj : forall p k fs, Forall (fun fv => Q (snd fv)) fs -> P (IObj p k fs))
    (HItemsN : forall p, P (IItems p None))
    (HItems : forall p l, Forall P l -> P (IItems p (Some l)))
    (HIris : forall p l, P (IIris p l))
    (QItem : forall i, P i -> Q (FItem i))
    (QItemsN : Q (FItems None))
    (QItems : forall l, Forall P l -> Q (FItems (Some l)))
    (QNlv : forall l, Q (FNlv l)) (QStr : forall s, Q (FStr s)) (QTime : forall t, Q (FTime t))
    (QDur : forall d, Q (FDur d)) (QUint : forall n, Q (FUint n)) (QInt : forall z, Q (FInt z))
    (QBool : forall b, Q (FBool b)) (QFloat : forall m, Q (FFloat m))
    (QSource : forall mt c, Q (FSource mt c)) (QEndp : forall e, Q (FEndpoints e))
    (QPub : forall a b c, Q (FPubKey a b c)).

  Fixpoint item_ind2 (i : item) : P i :=
    match i as i0 return P i0 with
    | INil => HNil
    | ITNil k => HTNil k
    | IIri p s => HIri p s
    | IObj p k fs =>
        HObj p k fs
          ((fix go (fs : list (fid * fval)) : Forall (fun fv => Q (snd fv)) fs :=
              match fs as fs0 return Forall (fun fv => Q (snd fv)) fs0 with
              | [] => Forall_nil _
              | fv :: r => Forall_cons fv (fval_ind2 (snd fv)) (go r)
              end) fs)
    | IItems p None => HItemsN p
    | IItems p (Some l) =>
        HItems p l
          ((fix go (l : list item) : Forall P l :=
              match l as l0 return Forall P l0 with
              | [] => Forall_nil _
              | x :: r => Forall_cons x (item_ind2 x) (go r)
              end) l)
    | IIris p l => HIris p l
    end
  with fval_ind2 (v : fval) : Q v :=
    match v as v0 return Q v0 with
    | FItem i => QItem i (item_ind2 i)
    | FItems None => QItemsN
    | FItems (Some l) =>
        QItems l
          ((fix go (l : list item) : Forall P l :=
              match l as l0 return Forall P l0 with
              | [] => Forall_nil _
              | x :: r => Forall_cons x (item_ind2 x) (go r)
              end) l)
    | FNlv l => QNlv l | FStr s => QStr s | FTime t => QTime t | FDur d => QDur d
    | FUint n => QUint n | FInt z => QInt z | FBool b => QBool b | FFloat m => QFloat m
    | FSource mt c => QSource mt c | FEndpoints e => QEndp e | FPubKey a b c => QPub a b c
    end.
End ItemInd.

(* ------------------------------------------------------------------ decidable equalities *)
Lemma c_fid_beq_eq a b : fid_beq a b = true -> a = b.
Proof. apply internal_fid_dec_bl. Qed.
Lemma c_kind_beq_eq a b : kind_beq a b = true -> a = b.
Proof. apply internal_kind_dec_bl. Qed.

Lemma list_beq_eq {A} (e : A -> A -> bool) :
  (forall a b, e a b = true -> a = b) -> forall l l', list_beq e l l' = true -> l = l'.
Proof.
  intros He l. induction l as [|a r IH]; intros [|b r'] H; simpl in H; try discriminate; [reflexivity|].
  apply andb_true_iff in H. destruct H as [H1 H2]. f_equal; [apply He; exact H1 | apply IH; exact H2].
Qed.

Lemma centry_beq_eq a b : centry_beq a b = true -> a = b.
Proof.
  destruct a as [k h t c], b as [k' h' t' c']. unfold centry_beq. simpl. intro H.
  repeat (apply andb_true_iff in H; destruct H as [H ?]).
  apply c_kind_beq_eq in H. apply Bool.eqb_prop in H2.
  apply (list_beq_eq fid_beq c_fid_beq_eq) in H1. apply (list_beq_eq fid_beq c_fid_beq_eq) in H0.
  subst. reflexivity.
Qed.

(* ------------------------------------------------------------------ refinement: tables that match the specification *)
Lemma clean_refines_strip W :
  walk_matches_spec W = true -> forall x, clean_item W x = Ok (strip x).
Proof.
  unfold walk_matches_spec, clean_item, strip. destruct (canon W) as [t|]; [|discriminate].
  intros H x. apply (list_beq_eq centry_beq centry_beq_eq) in H. subst t. reflexivity.
Qed.

(* ------------------------------------------------------------------ the specification table *)
Lemma spec_entry_of k : entry_of spec_tbl k = Some (spec_entry k).
Proof. destruct k; reflexivity. Qed.

Lemma strip_obj_ptr k fs :
  is_link_kind k = false ->
  strip (IObj true k fs) = IObj true k (map (fun fv => (fst fv, strip_field k (fst fv) (snd fv))) fs).
Proof.
  intro L. unfold strip. cbn [walk_item]. rewrite spec_entry_of. unfold spec_entry. rewrite L.
  cbn [ce_has ce_trunc ce_clean]. f_equal.
  induction fs as [|[f v] r IH]; [reflexivity|]. cbn [map fst snd]. rewrite <- IH.
  unfold strip_field, strip_fval. reflexivity.
Qed.

Lemma strip_link fs : strip (IObj true KLink fs) = IObj true KLink fs.
Proof. reflexivity. Qed.

Lemma strip_value k fs : strip (IObj false k fs) = IObj false k fs.
Proof. reflexivity. Qed.

Definition strip_entry (x : item) : item := if is_nil x then INil else strip x.

Lemma strip_items p l : strip (IItems p (Some l)) = IItems p (Some (map strip_entry l)).
Proof.
  unfold strip. cbn [walk_item]. apply f_equal. apply f_equal.
  induction l as [|x r IH]; [reflexivity|]. cbn [map]. rewrite <- IH. unfold strip_entry, strip. reflexivity.
Qed.

Lemma strip_fval_items l : strip_fval (FItems (Some l)) = FItems (Some (map strip_entry l)).
Proof.
  unfold strip_fval. cbn [walk_fval]. apply f_equal. apply f_equal.
  induction l as [|x r IH]; [reflexivity|]. cbn [map]. rewrite <- IH. unfold strip_entry, strip. reflexivity.
Qed.

Lemma strip_other i :
  match i with IObj true _ _ | IItems _ (Some _) => False | _ => True end -> strip i = i.
Proof. destruct i as [| | |[|] k fs|p [l|]|]; simpl; intro H; try contradiction; reflexivity. Qed.

(* ------------------------------------------------------------------ frame: one level, valid at every depth *)
Lemma getf_map_fields (h : fid -> fval -> fval) f fs :
  getf f (map (fun fv => (fst fv, h (fst fv) (snd fv))) fs) = option_map (h f) (getf f fs).
Proof.
  induction fs as [|[g v] r IH]; [reflexivity|]. cbn [map fst snd getf].
  destruct (fid_beq f g) eqn:E; [|exact IH].
  apply c_fid_beq_eq in E. subst g. reflexivity.
Qed.

Lemma frame_obj k fs :
  is_link_kind k = false ->
  exists fs', strip (IObj true k fs) = IObj true k fs' /\
    map fst fs' = map fst fs /\
    (forall f, getf f fs' = option_map (strip_field k f) (getf f fs)) /\
    (forall f, memf f spec_trunc = false -> memf f (spec_clean k) = false -> getf f fs' = getf f fs).
Proof.
  intro L. eexists. split; [apply strip_obj_ptr; exact L|]. split.
  - rewrite map_map. reflexivity.
  - split.
    + intro f. apply getf_map_fields.
    + intros f H1 H2. rewrite getf_map_fields. unfold strip_field. rewrite H1, H2.
      destruct (getf f fs); reflexivity.
Qed.

(* ------------------------------------------------------------------ no private recipients remain on the walk *)
Lemma has_private_trunc v : has_private (trunc v) = false.
Proof. destruct v as [| [l|] | | | | | | | | | | |]; reflexivity. Qed.

Lemma no_private_items_map l :
  Forall (fun x => no_private (strip x) = true) l ->
  (fix go (l : list item) : bool := match l with [] => true | x :: r => no_private x && go r end)
    (map strip_entry l) = true.
Proof.
  induction 1 as [|x r Hx Hr IH]; [reflexivity|]. cbn [map].
  unfold strip_entry at 1. destruct (is_nil x); [cbn [no_private andb]; exact IH|].
  rewrite Hx. exact IH.
Qed.

Lemma no_private_strip : forall x, no_private (strip x) = true.
Proof.
  apply (item_ind2 (fun x => no_private (strip x) = true)
                   (fun v => no_private_fval (strip_fval v) = true));
    try (intros; reflexivity).
  - (* struct *)
    intros p k fs F. destruct p; [|reflexivity].
    destruct (is_link_kind k) eqn:L.
    + destruct k; try discriminate. reflexivity.
    + rewrite (strip_obj_ptr k fs L). cbn [no_private]. rewrite L. cbn [orb].
      induction F as [|[f v] r Hv Hr IH]; [reflexivity|]. cbn [map fst snd].
      apply andb_true_iff. split; [|exact IH]. unfold strip_field.
      destruct (memf f spec_trunc); [rewrite has_private_trunc; reflexivity|].
      destruct (memf f (spec_clean k)); [exact Hv | reflexivity].
  - (* list *)
    intros p l F. rewrite strip_items. cbn [no_private]. apply no_private_items_map. exact F.
  - (* FItem *)
    intros i H. exact H.
  - (* FItems *)
    intros l F. rewrite strip_fval_items. cbn [no_private_fval]. apply no_private_items_map. exact F.
Qed.

(* a value without private recipients on the walk and without nil-like list entries is left alone *)
