(* path/filepath.Clean (Model/Url.path_clean) respects equality under iri.go equalFold as modelled in Model/Fold.v
   (sfold_eqb, the kernel of scanon; the same proofs go through for strings.EqualFold):
   "/" and "." are ASCII bytes that are not letters, so two strings with the same canonical form split into
   segments with the same canonical forms, the same segments are "", "." and "..", and the results have the
   same canonical form.  No condition on the strings (invalid UTF-8 included). *)
From AP.Model Require Import Prelude Bytes Url IriEq IriNf Vocab Pred CollIri Utf8 FoldTab Fold.
From AP.Proofs Require Import NlvP LowerP IriEqP SortP IriGenP IriNfP Utf8P FoldP.

Definition feq (x y : bytes) : Prop := scanon x = scanon y.

Lemma uc_app_ascii x c y : is_asciib c = true -> scanon (x ++ c :: y) = scanon x ++ canon (byteN c) :: scanon y.
Proof. apply (ucanon_app_ascii fold_tab strict_err). Qed.
Lemma uc_cons_ascii c y : is_asciib c = true -> scanon (c :: y) = canon (byteN c) :: scanon y.
Proof. apply (ucanon_cons_ascii fold_tab strict_err). Qed.
Lemma uc_app_valid x y : utf8_valid x = true -> scanon (x ++ y) = scanon x ++ scanon y.
Proof. apply (ucanon_app_valid fold_tab strict_err). Qed.
Lemma uc_app_sync x y : starts y -> scanon (x ++ y) = scanon x ++ scanon y.
Proof. apply (ucanon_app_sync fold_tab strict_err). Qed.
Lemma uc_nil s : scanon s = [] -> s = [].
Proof. apply (ucanon_nil fold_tab strict_err). Qed.
Lemma canon_delim_byte d x : is_delim d = true -> (canon x = byteN d <-> x = byteN d).
Proof. apply (canon_delim fold_tab fold_tab_is_ok). Qed.
Lemma canon_delim_self d : is_delim d = true -> canon (byteN d) = byteN d.
Proof. apply (canon_delim_fixed fold_tab fold_tab_is_ok). Qed.
Lemma uc_in_delim s c : is_delim c = true -> (In (byteN c) (scanon s) <-> In c s).
Proof. apply (ucanon_in_delim fold_tab fold_tab_is_ok strict_err strict_err_big). Qed.

(* the first rune of a string that begins with a non-ASCII byte is not an ASCII rune *)
Lemma runes_head_nonascii c r : is_asciib c = false -> exists x t, srunes (c :: r) = x :: t /\ (128 <= x)%N.
Proof.
  intros A. unfold srunes. rewrite runes_cons. assert (Err : (128 <= strict_err c)%N) by apply strict_err_big.
  destruct (lead_of c) as [| | |lo hi|lo hi] eqn:L.
  - apply lead_ascii_inv in L. congruence.
  - eauto.
  - destruct r as [|b1 r1]; [eauto|]. destruct (is_cont b1); [|eauto]. eexists _, _. split; [reflexivity|apply rune2_big; exact L].
  - destruct r as [|b1 [|b2 r2]]; eauto. destruct (is_cont b1 && in_rng lo hi b1 && is_cont b2) eqn:C; [|eauto].
    eexists _, _. split; [reflexivity|]. apply (rune3_big c b1 b2 lo hi L).
    apply andb_true_iff in C. destruct C as [C _]. apply andb_true_iff in C. tauto.
  - destruct r as [|b1 [|b2 [|b3 r3]]]; eauto. destruct (is_cont b1 && in_rng lo hi b1 && is_cont b2 && is_cont b3) eqn:C; [|eauto].
    eexists _, _. split; [reflexivity|]. apply (rune4_big c b1 b2 b3 lo hi L).
    apply andb_true_iff in C. destruct C as [C _]. apply andb_true_iff in C. destruct C as [C _]. apply andb_true_iff in C. tauto.
Qed.

Lemma canon_big_not_delim x d : (128 <= x)%N -> is_delim d = true -> canon x <> byteN d.
Proof.
  intros B D E. apply (canon_delim_byte d x D) in E. unfold is_delim, is_delim_n in D.
  rewrite !andb_true_iff, N.ltb_lt in D. lia.
Qed.

(* a string whose canonical form begins with a delimiter begins with that delimiter *)
Lemma scanon_head_delim d s T : is_delim d = true -> scanon s = byteN d :: T -> exists r, s = d :: r /\ scanon r = T.
Proof.
  intros D E. destruct s as [|c r]; [discriminate|].
  destruct (is_asciib c) eqn:A.
  - rewrite (uc_cons_ascii c r A) in E. inversion E as [[E1 E2]]. apply (proj1 (canon_delim_byte d (byteN c) D)) in E1.
    apply byteN_inj in E1. subst c. exists r. auto.
  - exfalso. destruct (runes_head_nonascii c r A) as [x [t [R B]]].
    unfold scanon, scanon_with in E. rewrite R in E. simpl in E. injection E as E1 _.
    exact (canon_big_not_delim x d B D E1).
Qed.

(* a string of delimiters is alone in its class *)
Lemma scanon_delims_eq t : forallb is_delim t = true -> forall s, scanon s = scanon t -> s = t.
Proof.
  induction t as [|d t IH]; intros Ht s E.
  - apply uc_nil. exact E.
  - simpl in Ht. apply andb_true_iff in Ht. destruct Ht as [Hd Ht].
    rewrite (uc_cons_ascii d t (delim_ascii d Hd)), (canon_delim_self d Hd) in E.
    destruct (scanon_head_delim d s _ Hd E) as [r [-> Er]]. f_equal. apply IH; assumption.
Qed.

Lemma feq_delims_eqb t s s' : forallb is_delim t = true -> feq s s' -> bytes_eqb s t = bytes_eqb s' t.
Proof.
  intros Ht E. unfold feq in E.
  destruct (bytes_eqb s t) eqn:E1, (bytes_eqb s' t) eqn:E2; try reflexivity.
  - apply bytes_eqb_eq in E1. subst s. symmetry in E. apply (scanon_delims_eq t Ht) in E. subst s'. rewrite bytes_eqb_refl in E2. discriminate.
  - apply bytes_eqb_eq in E2. subst s'. apply (scanon_delims_eq t Ht) in E. subst s. rewrite bytes_eqb_refl in E1. discriminate.
Qed.

(* ================================================================ unique reading along a set of runes *)
Definition stopsN (P : N -> bool) (r : list N) : Prop := match r with [] => True | c :: _ => P c = false end.

Lemma span_unique_N (P : N -> bool) x : forall y r r',
  forallb P x = true -> forallb P y = true -> stopsN P r -> stopsN P r' ->
  x ++ r = y ++ r' -> x = y /\ r = r'.
Proof.
  induction x as [|a x IH]; intros [|b y] r r' Hx Hy Hr Hr' E; simpl in *.
  - auto.
  - subst r. simpl in Hr. rewrite andb_true_iff in Hy. destruct Hy as [Hb _]. congruence.
  - subst r'. simpl in Hr'. rewrite andb_true_iff in Hx. destruct Hx as [Ha _]. congruence.
  - rewrite andb_true_iff in Hx, Hy. destruct Hx as [_ Hx], Hy as [_ Hy]. inversion E; subst.
    destruct (IH y r r' Hx Hy Hr Hr' H1) as [-> ->]. auto.
Qed.

Definition isnt (d : byte) (n : N) : bool := negb (n =? byteN d)%N.

Lemma notin_scanon d s : is_delim d = true -> notin d s = true -> forallb (isnt d) (scanon s) = true.
Proof.
  intros D H. apply forallb_forall. intros n Hn. unfold isnt. apply negb_true_iff, N.eqb_neq. intros ->.
  apply (uc_in_delim s d D) in Hn. unfold notin in H. rewrite forallb_forall in H. specialize (H d Hn).
  rewrite beqb_refl in H. discriminate.
Qed.

(* ================================================================ cutting at a delimiter *)
Lemma cut_byte_feq d s s' : is_delim d = true -> feq s s' ->
  feq (fst (cut_byte d s)) (fst (cut_byte d s')) /\
  match snd (cut_byte d s), snd (cut_byte d s') with
  | Some y, Some y' => feq y y'
  | None, None => True
  | _, _ => False
  end.
Proof.
  intros D E. unfold feq in *.
  destruct (cut_byte_spec d s) as [N1 S1]. destruct (cut_byte_spec d s') as [N2 S2].
  destruct (cut_byte d s) as [x o], (cut_byte d s') as [x' o']. cbn [fst snd] in *.
  rewrite S1, S2 in E. pose proof (delim_ascii d D) as A.
  assert (T : forall o, scanon (tail_of d o) = match o with Some y => byteN d :: scanon y | None => [] end).
  { intros [y|]; [|reflexivity]. simpl. rewrite (uc_cons_ascii d y A), (canon_delim_self d D). reflexivity. }
  assert (U : forall x o, scanon (x ++ tail_of d o) = scanon x ++ scanon (tail_of d o)).
  { intros z [y|]; [|simpl; rewrite !app_nil_r; reflexivity]. simpl. rewrite (uc_app_ascii z d y A), (uc_cons_ascii d y A). reflexivity. }
  rewrite !U, !T in E.
  apply (span_unique_N (isnt d)) in E; try (apply notin_scanon; assumption).
  - destruct E as [E1 E2]. split; [exact E1|]. destruct o, o'; try discriminate; [inversion E2; reflexivity|exact I].
  - destruct o; simpl; [unfold isnt; rewrite N.eqb_refl; reflexivity|exact I].
  - destruct o'; simpl; [unfold isnt; rewrite N.eqb_refl; reflexivity|exact I].
Qed.

(* ================================================================ splitting *)
Lemma split_byte_cut c s : split_byte c s =
  match cut_byte c s with (x, None) => [x] | (x, Some y) => x :: split_byte c y end.
Proof.
  induction s as [|a s IH]; [reflexivity|]. cbn [split_byte cut_byte].
  destruct (Byte.eqb a c) eqn:E.
  - destruct (split_byte c s) eqn:S; [|reflexivity]. exfalso. destruct (cut_byte c s) as [x [y|]]; discriminate.
  - destruct (cut_byte c s) as [x o]. rewrite IH. destruct o as [y|]; reflexivity.
Qed.

Lemma cut_byte_length c s y : snd (cut_byte c s) = Some y -> length y < length s.
Proof.
  revert y. induction s as [|a s IH]; intros y; simpl; [discriminate|].
  destruct (Byte.eqb a c); simpl; [intros H; inversion H; lia|].
  destruct (cut_byte c s) as [x o]. simpl in *. intros H. specialize (IH y H). lia.
Qed.

Lemma split_byte_feq_n d n : is_delim d = true -> forall s s', length s <= n -> feq s s' ->
  Forall2 feq (split_byte d s) (split_byte d s').
Proof.
  intros D. induction n as [|n IH]; intros s s' Hl E.
  - destruct s; [|simpl in Hl; lia]. symmetry in E. apply uc_nil in E. subst s'. constructor; [reflexivity|constructor].
  - rewrite (split_byte_cut d s), (split_byte_cut d s'). destruct (cut_byte_feq d s s' D E) as [E1 E2].
    pose proof (cut_byte_length d s) as Ls.
    destruct (cut_byte d s) as [x o], (cut_byte d s') as [x' o']. cbn [fst snd] in *.
    destruct o as [y|], o' as [y'|]; try contradiction.
    + constructor; [exact E1|]. apply IH; [specialize (Ls y eq_refl); lia|exact E2].
    + constructor; [exact E1|constructor].
Qed.

Lemma split_byte_feq d s s' : is_delim d = true -> feq s s' -> Forall2 feq (split_byte d s) (split_byte d s').
Proof. intros D. apply (split_byte_feq_n d (length s) D). lia. Qed.

(* ================================================================ Clean *)
Lemma feq_nil_iff s s' : feq s s' -> (s = [] <-> s' = []).
Proof. unfold feq. intros E. split; intros ->; [symmetry in E|]; apply uc_nil in E; exact E. Qed.

Lemma dot_delims : forallb is_delim (B ".") = true. Proof. reflexivity. Qed.
Lemma dotdot_delims : forallb is_delim (B "..") = true. Proof. reflexivity. Qed.
Lemma slash_delim : is_delim slash = true. Proof. reflexivity. Qed.

Lemma Forall2_rev {A B} (R : A -> B -> Prop) l l' : Forall2 R l l' -> Forall2 R (rev l) (rev l').
Proof.
  induction 1 as [|x y l l' H H2 IH]; [constructor|]. simpl. apply Forall2_app; [exact IH|constructor; [exact H|constructor]].
Qed.

Lemma clean_segs_feq rooted segs : forall segs' st st',
  Forall2 feq segs segs' -> Forall2 feq st st' ->
  Forall2 feq (clean_segs st rooted segs) (clean_segs st' rooted segs').
Proof.
  induction segs as [|seg r IH]; intros segs' st st' Hs Hst; inversion Hs as [|? seg' ? r' Hseg Hr]; subst.
  - simpl. apply Forall2_rev. exact Hst.
  - simpl. pose proof (feq_nil_iff seg seg' Hseg) as Nil.
    destruct seg as [|c0 seg0].
    + assert (seg' = []) as -> by (apply Nil; reflexivity). apply IH; assumption.
    + destruct seg' as [|c0' seg0']; [destruct Nil as [_ Nil]; specialize (Nil eq_refl); discriminate|].
      rewrite (feq_delims_eqb (B ".") _ _ dot_delims Hseg), (feq_delims_eqb (B "..") _ _ dotdot_delims Hseg).
      destruct (bytes_eqb (c0' :: seg0') (B ".")); [apply IH; assumption|].
      destruct (bytes_eqb (c0' :: seg0') (B "..")).
      * inversion Hst as [|top top' stk stk' Htop Hstk]; subst.
        -- destruct rooted; apply IH; try assumption; repeat constructor; assumption.
        -- rewrite (feq_delims_eqb (B "..") _ _ dotdot_delims Htop).
           destruct (bytes_eqb top' (B "..")); apply IH; try assumption. constructor; [exact Hseg|constructor; assumption].
      * apply IH; [assumption|constructor; assumption].
Qed.

Lemma join_with_feq l : forall l', Forall2 feq l l' -> feq (join_with [slash] l) (join_with [slash] l').
Proof.
  induction l as [|x l IH]; intros l' H; inversion H as [|? x' ? l2 Hx Hl]; subst; [reflexivity|].
  destruct l as [|y l]; inversion Hl as [|? y' ? l3 Hy Hl3]; subst; [exact Hx|].
  change (join_with [slash] (x :: y :: l)) with (x ++ slash :: join_with [slash] (y :: l)).
  change (join_with [slash] (x' :: y' :: l3)) with (x' ++ slash :: join_with [slash] (y' :: l3)).
  unfold feq. rewrite !(uc_app_ascii _ slash) by reflexivity. unfold feq in Hx. rewrite Hx. do 2 f_equal.
  apply IH. exact Hl.
Qed.

Lemma feq_head_slash p p' : feq p p' ->
  match p, p' with
  | c :: _, c' :: _ => Byte.eqb c slash = Byte.eqb c' slash
  | [], [] => True
  | _, _ => False
  end.
Proof.
  intros E. pose proof (feq_nil_iff p p' E) as Nil. destruct p as [|c r], p' as [|c' r']; try exact I.
  - destruct Nil as [Nil _]. specialize (Nil eq_refl). discriminate.
  - destruct Nil as [_ Nil]. specialize (Nil eq_refl). discriminate.
  - unfold feq in E. destruct (Byte.eqb c slash) eqn:E1, (Byte.eqb c' slash) eqn:E2; try reflexivity.
    + apply beqb_eq in E1. subst c. rewrite (uc_cons_ascii slash r eq_refl), (canon_delim_self slash slash_delim) in E.
      symmetry in E. destruct (scanon_head_delim slash _ _ slash_delim E) as [r0 [E0 _]]. inversion E0. subst c'.
      rewrite beqb_refl in E2. discriminate.
    + apply beqb_eq in E2. subst c'. rewrite (uc_cons_ascii slash r' eq_refl), (canon_delim_self slash slash_delim) in E.
      destruct (scanon_head_delim slash _ _ slash_delim E) as [r0 [E0 _]]. inversion E0. subst c.
      rewrite beqb_refl in E1. discriminate.
Qed.

Theorem path_clean_feq p p' : feq p p' -> feq (path_clean p) (path_clean p').
Proof.
  intros E. pose proof (feq_head_slash p p' E) as Hd. unfold path_clean.
  destruct p as [|c r], p' as [|c' r']; try contradiction; [reflexivity|]. rewrite <- Hd.
  pose proof (clean_segs_feq (Byte.eqb c slash) _ _ [] [] (split_byte_feq slash _ _ slash_delim E) (Forall2_nil _)) as S.
  destruct (Byte.eqb c slash).
  - unfold feq. rewrite !(uc_cons_ascii slash) by reflexivity. f_equal. apply join_with_feq. exact S.
  - remember (clean_segs [] false (split_byte slash (c :: r))) as l1 eqn:E1.
    remember (clean_segs [] false (split_byte slash (c' :: r'))) as l2 eqn:E2. clear E1 E2.
    destruct S as [|x y l l' Hx Hl]; [reflexivity|]. apply join_with_feq. constructor; assumption.
Qed.

Theorem clean_url_path_feq p p' : feq p p' -> feq (clean_url_path path_clean p) (clean_url_path path_clean p').
Proof.
  intros E. unfold clean_url_path. pose proof (feq_nil_iff p p' E) as Nil.
  destruct p as [|c r], p' as [|c' r'].
  - reflexivity.
  - destruct Nil as [Nil _]. specialize (Nil eq_refl). discriminate.
  - destruct Nil as [_ Nil]. specialize (Nil eq_refl). discriminate.
  - apply path_clean_feq. exact E.
Qed.
