(* One comparison block of a struct Equals method, read through the callee it names (Model/ItemsEqTab.v:
   guard_sem, comp_sem, raw_block_sem), is cmp_one of its classification (Model/Equal.v, Model/EqualsTab.v):
     raw_block_tie      for every block that classifies and every pair of callee names the model expects of its shapes
     callee_table_tie   for every callee table satisfying cmp_callees_ok and every entry of it
     callee_table_covers  every ECmp block of the Equals tables has its entry. *)
From AP.Model Require Import Prelude Bytes Vocab Pred IriEq Nlv Layout Equal TabEq EqualsTab Dispatch ItemsEqTab.
From AP.Proofs Require Import NlvP TabEqP.

Lemma N_pos_ltb n : (0 <? n)%N = negb (n =? 0)%N.
Proof. destruct n; reflexivity. Qed.

(* From here on generic in the IRI comparison (builder b47; see Proofs/EqualP.v) *)
Module CcGP.
Section IdRel.
  Variable ideq : bytes -> bytes -> bool -> bool.
  Local Notation cmp_one := (EqG.cmp_one ideq).
  Local Notation comp_sem := (ItB.comp_sem ideq).
  Local Notation raw_block_sem := (ItB.raw_block_sem ideq).

Section Block.
  Variable rec : item -> item -> outcome bool.

  Local Ltac names :=
    repeat match goal with
           | |- context [bytes_eqb ?a ?b] =>
               let r := eval vm_compute in (bytes_eqb a b) in
               match r with
               | true => change (bytes_eqb a b) with true
               | false => change (bytes_eqb a b) with false
               end
           end.

  Theorem raw_block_tie self r c ofs wfs :
    cmp_of_raw self r = Some c ->
    forall cal, expected_callee (rw_comp r) (rw_type r) = Some cal ->
    raw_block_sem rec (expected_guard_callee (rw_guard r)) cal r ofs wfs = Some (cmp_one cfg_fixed rec c ofs wfs).
  Proof.
    destruct r as [g gf cmp fo fw t]. unfold cmp_of_raw, raw_block_sem. cbn [rw_guard rw_gfield rw_comp rw_ofield rw_wfield rw_type].
    destruct (fid_beq gf fo) eqn:E1; [|discriminate]. destruct (fid_beq gf fw) eqn:E2; [|discriminate].
    apply internal_fid_dec_bl in E1. apply internal_fid_dec_bl in E2. subst fo fw. cbn [andb negb].
    destruct t; destruct g; destruct cmp; try discriminate;
      cbn [expected_callee expected_guard_callee guard_sem comp_sem as_item];
      intros Hc cal Hcal; inversion Hcal; subst cal; clear Hcal; names; cbv iota.
    all: repeat match type of Hc with
                | context [match ?x with _ => _ end] => destruct x; try discriminate Hc
                end.
    all: inversion Hc; subst c; cbn [cmp_one read_items c_url_isnil cfg_fixed]; try rewrite N_pos_ltb.
    all: match goal with
         | |- (if match view_items ?w with _ => _ end then _ else _) = _ => destruct (view_items w); reflexivity
         | |- (if match get_items ?f ?w with _ => _ end then _ else _) = _ => destruct (get_items f w); reflexivity
         | |- (if negb (is_nil ?x) then _ else _) = _ => destruct (is_nil x); reflexivity
         | |- (if match get_item ?f ?w with _ => _ end then _ else _) = _ => destruct (get_item f w); reflexivity
         | |- (if negb (length (nl_of ?x) =? 0) then _ else _) = _ => destruct (nl_of x); reflexivity
         | |- (if match get_nlv ?f ?w with _ => _ end then _ else _) = _ => destruct (get_nlv f w); reflexivity
         | |- (if negb (length (get_str ?f ?w) =? 0) then _ else _) = _ => destruct (get_str f w); reflexivity
         | |- (if negb ?x then _ else _) = _ => destruct x; reflexivity
         end.
  Qed.
End Block.

(* ---------------------------------------------------------------- the generated callee table *)
Lemma gotype_eqb_eq a b : gotype_eqb a b = true -> a = b.
Proof. destruct a, b; simpl; try discriminate; try reflexivity. intro H. apply bytes_eqb_true in H. subst. reflexivity. Qed.

Lemma rawcmp_beq_eq a b : rawcmp_beq a b = true -> a = b.
Proof.
  destruct a, b. unfold rawcmp_beq. simpl. intro H.
  repeat match goal with
         | H : (_ && _) = true |- _ => let H1 := fresh "H" in let H2 := fresh "H" in apply andb_prop in H; destruct H as [H1 H2]
         end.
  repeat match goal with
         | H : wguard_beq _ _ = true |- _ => apply internal_wguard_dec_bl in H
         | H : wcomp_beq _ _ = true |- _ => apply internal_wcomp_dec_bl in H
         | H : fid_beq _ _ = true |- _ => apply internal_fid_dec_bl in H
         | H : gotype_eqb _ _ = true |- _ => apply gotype_eqb_eq in H
         end.
  subst. reflexivity.
Qed.

Lemma lbeq2_map {A B} (e : A -> B -> bool) (f : B -> A) :
  (forall x y, e x y = true -> x = f y) -> forall a b, lbeq2 e a b = true -> a = map f b.
Proof.
  intros He a. induction a as [|x a IH]; intros [|y b] H; simpl in H; try discriminate; [reflexivity|].
  apply andb_prop in H. destruct H as [H1 H2]. simpl. f_equal; [apply He; exact H1|apply IH; exact H2].
Qed.

Section Table.
  Variable eqtbl : list eqfn.
  Variable cc : list cmp_callee.
  Hypothesis Hok : cmp_callees_ok eqtbl cc = true.

  (* every comparison block of the Equals tables has its entry, in order *)
  Theorem callee_table_covers : blocks_of eqtbl = map (fun e => (cc_self e, cc_raw e)) cc.
  Proof.
    unfold cmp_callees_ok in Hok. apply andb_prop in Hok. destruct Hok as [H _].
    apply (lbeq2_map _ (fun e => (cc_self e, cc_raw e))) in H; [exact H|].
    intros [k r] e Hx. cbn [fst snd] in Hx. apply andb_prop in Hx. destruct Hx as [Hk Hr].
    apply internal_kind_dec_bl in Hk. apply rawcmp_beq_eq in Hr. subst. reflexivity.
  Qed.

  (* every entry: the block, read through the callees go/types resolves its calls to, is the model's cmp_one of the
     block's classification - for all one-level-down comparisons and all field lists *)
  Theorem callee_table_tie : forall e, In e cc -> forall c, cmp_of_raw (cc_self e) (cc_raw e) = Some c ->
    forall rec ofs wfs,
    raw_block_sem rec (cc_guard_callee e) (cc_callee e) (cc_raw e) ofs wfs = Some (cmp_one cfg_fixed rec c ofs wfs).
  Proof.
    intros e He c Hc rec ofs wfs.
    unfold cmp_callees_ok in Hok. apply andb_prop in Hok. destruct Hok as [_ H].
    rewrite forallb_forall in H. specialize (H e He). unfold cc_entry_ok in H.
    apply andb_prop in H. destruct H as [Hg Hcal]. apply bytes_eqb_true in Hg.
    unfold obytes_eqb in Hcal. destruct (expected_callee (rw_comp (cc_raw e)) (rw_type (cc_raw e))) as [x|] eqn:Ex; [|discriminate].
    apply bytes_eqb_true in Hcal. subst x. rewrite Hg. apply (raw_block_tie rec (cc_self e)); assumption.
  Qed.
End Table.
End IdRel.
End CcGP.

Local Ltac inst L := first [ exact (L iri_eqb) | exact L ].
Definition raw_block_tie := ltac:(inst CcGP.raw_block_tie).
Definition gotype_eqb_eq := ltac:(inst CcGP.gotype_eqb_eq).
Definition rawcmp_beq_eq := ltac:(inst CcGP.rawcmp_beq_eq).
Notation lbeq2_map := CcGP.lbeq2_map.
Definition callee_table_covers := ltac:(inst CcGP.callee_table_covers).
Definition callee_table_tie := ltac:(inst CcGP.callee_table_tie).
