(* The six containers look at the IRI comparison only on the ids that occur in the pool and in the state (builder b56):
   two models of IRI.Equals that agree on a set [dom] of strings containing the empty string give the same run
   (c_run: final contents and the whole observable trace) for EVERY history, over every pool and initial state whose
   ids lie in [dom] (Model/IdsIn.v).  From the congruence of ItemsEqual (Proofs/EqualCongrP.v) and the invariant that
   Append / Remove only keep, drop or add members of the pool (IRI lists: their links). *)
From AP.Model Require Import Prelude Vocab Pred Url IriEq IriNf Nlv Equal Coll IdsIn.
From AP.Proofs Require Import NlvP IriEqP RecipP EqualCongrP.

Section Gen.
  Variable A : Type.
  Variables q1 q2 : A -> A -> bool.
  Variable P : A -> Prop.
  Hypothesis agree : forall a b, P a -> P b -> q1 a b = q2 a b.

  Lemma g_contains_congr l r : Forall P l -> P r -> g_contains A q1 l r = g_contains A q2 l r.
  Proof.
    intros Hl Hr. unfold g_contains. induction Hl as [|x t Hx _ IH]; [reflexivity|]. cbn [existsb].
    rewrite (agree x r Hx Hr), IH. reflexivity.
  Qed.
  Lemma g_append1_congr l ob : Forall P l -> P ob ->
    g_append1 A q1 l ob = g_append1 A q2 l ob /\ Forall P (g_append1 A q2 l ob).
  Proof.
    intros Hl Ho. unfold g_append1. rewrite (g_contains_congr l ob Hl Ho). split; [reflexivity|].
    destruct (g_contains A q2 l ob); [exact Hl|]. apply Forall_app. split; [exact Hl|constructor; [exact Ho|constructor]].
  Qed.
  Lemma g_append_congr obs : forall l, Forall P l -> Forall P obs ->
    g_append A q1 l obs = g_append A q2 l obs /\ Forall P (g_append A q2 l obs).
  Proof.
    unfold g_append. induction obs as [|ob r IH]; intros l Hl Ho; [split; [reflexivity|exact Hl]|].
    inversion Ho as [|? ? H1 H2]; subst. cbn [fold_left].
    destruct (g_append1_congr l ob Hl H1) as [E F]. rewrite E. apply IH; assumption.
  Qed.
  Lemma g_last_idx_congr l r : Forall P l -> P r -> g_last_idx A q1 l r = g_last_idx A q2 l r.
  Proof.
    intros Hl Hr. induction Hl as [|x t Hx _ IH]; [reflexivity|]. cbn [g_last_idx].
    rewrite IH, (agree x r Hx Hr). reflexivity.
  Qed.
  Lemma Forall_firstn n (l : list A) : Forall P l -> Forall P (firstn n l).
  Proof. intro H. rewrite <- (firstn_skipn n l) in H. apply Forall_app in H. tauto. Qed.
  Lemma Forall_skipn n (l : list A) : Forall P l -> Forall P (skipn n l).
  Proof. intro H. rewrite <- (firstn_skipn n l) in H. apply Forall_app in H. tauto. Qed.
  Lemma g_remove_congr l r : Forall P l -> P r ->
    g_remove A q1 l r = g_remove A q2 l r /\ Forall P (g_remove A q2 l r).
  Proof.
    intros Hl Hr. unfold g_remove. rewrite (g_last_idx_congr l r Hl Hr). split; [reflexivity|].
    destruct (g_last_idx A q2 l r) as [k|]; [|exact Hl].
    destruct (k <? length l - 1); [apply Forall_app; split|]; auto using Forall_firstn, Forall_skipn.
  Qed.
End Gen.

Section Dom.
  Variable dom : bytes -> bool.
  Hypothesis dom_nil : dom [] = true.
  Variables e1 e2 : bytes -> bytes -> bool -> bool.
  Hypothesis agree : forall a b cs, dom a = true -> dom b = true -> e1 a b cs = e2 a b cs.
  Notation ok := (fun x => ids_in dom x = true).
  Notation okb := (fun s => dom s = true).

  Lemma items_eqb_congr a b : ok a -> ok b -> CoG.items_eqb e1 a b = CoG.items_eqb e2 a b.
  Proof. intros Ha Hb. unfold CoG.items_eqb. rewrite (ieq_congr dom dom_nil e1 e2 agree a b Ha Hb). reflexivity. Qed.
  Lemma iri_member_congr a b : okb a -> okb b -> CoG.iri_member_eqb e1 a b = CoG.iri_member_eqb e2 a b.
  Proof. intros Ha Hb. unfold CoG.iri_member_eqb. apply agree; assumption. Qed.

  Lemma ic_contains_congr l r : Forall ok l -> ok r -> CoG.ic_contains e1 l r = CoG.ic_contains e2 l r.
  Proof. intros. unfold CoG.ic_contains. apply (g_contains_congr item _ _ ok items_eqb_congr); assumption. Qed.
  Lemma ic_append_congr l obs : Forall ok l -> Forall ok obs ->
    CoG.ic_append e1 l obs = CoG.ic_append e2 l obs /\ Forall ok (CoG.ic_append e2 l obs).
  Proof. intros. unfold CoG.ic_append. apply (g_append_congr item _ _ ok items_eqb_congr); assumption. Qed.
  Lemma ic_remove_congr l r : Forall ok l -> ok r ->
    CoG.ic_remove e1 l r = CoG.ic_remove e2 l r /\ Forall ok (CoG.ic_remove e2 l r).
  Proof.
    intros Hl Hr. unfold CoG.ic_remove. destruct l as [|x t]; [split; [reflexivity|constructor]|].
    destruct r; try (apply (g_remove_congr item _ _ ok items_eqb_congr); assumption). split; [reflexivity|exact Hl].
  Qed.

  Lemma iris_contains_item_congr l r : Forall okb l -> ok r ->
    CoG.iris_contains_item e1 l r = CoG.iris_contains_item e2 l r.
  Proof.
    intros Hl Hr. unfold CoG.iris_contains_item. destruct (is_nil r); [reflexivity|].
    apply (g_contains_congr bytes _ _ okb iri_member_congr); [exact Hl|]. apply (lnk_ok dom dom_nil). exact Hr.
  Qed.
  Lemma iris_append_congr obs : forall l, Forall okb l -> Forall ok obs ->
    CoG.iris_append e1 l obs = CoG.iris_append e2 l obs /\ Forall okb (CoG.iris_append e2 l obs).
  Proof.
    unfold CoG.iris_append. induction obs as [|ob r IH]; intros l Hl Ho; [split; [reflexivity|exact Hl]|].
    inversion Ho as [|? ? H1 H2]; subst. cbn [fold_left].
    assert (L : dom (lnk ob) = true) by (apply (lnk_ok dom dom_nil); exact H1).
    rewrite (iris_contains_item_congr l (IIri false (lnk ob)) Hl L).
    apply IH; [|exact H2]. destruct (is_nil ob); [exact Hl|].
    destruct (CoG.iris_contains_item e2 l (IIri false (lnk ob))); [exact Hl|].
    apply Forall_app. split; [exact Hl|constructor; [exact L|constructor]].
  Qed.

  Section Run.
    Variable pool : list item.
    Hypothesis pool_ok : Forall ok pool.

    Lemma pget_ok i : ok (CoG.pget pool i).
    Proof.
      unfold CoG.pget. destruct (nth_in_or_default i pool INil) as [H|H]; [|rewrite H; reflexivity].
      rewrite Forall_forall in pool_ok. apply pool_ok. exact H.
    Qed.
    Lemma map_lnk_ok st : Forall ok st -> Forall okb (map lnk st).
    Proof. intro H. induction H; constructor; [apply (lnk_ok dom dom_nil); assumption|assumption]. Qed.
    Lemma iris_collection_ok l : Forall okb l -> Forall ok (CoG.iris_collection l).
    Proof. intro H. unfold CoG.iris_collection. induction H; constructor; assumption. Qed.

    Lemma c_step_congr c st o : Forall ok st ->
      CoG.c_step e1 pool c st o = CoG.c_step e2 pool c st o /\ Forall ok (CoG.c_step e2 pool c st o).
    Proof.
      intro Hs. assert (P1 : forall i, Forall ok [CoG.pget pool i]) by (intro i; constructor; [apply pget_ok|constructor]).
      destruct o as [i|i|i].
      - destruct c; cbn [CoG.c_step]; try (apply ic_append_congr; [exact Hs|apply P1]).
        destruct (iris_append_congr [CoG.pget pool i] (map lnk st) (map_lnk_ok st Hs) (P1 i)) as [E F].
        rewrite E. split; [reflexivity|apply iris_collection_ok; exact F].
      - destruct c; cbn [CoG.c_step]; try (apply ic_remove_congr; [exact Hs|apply pget_ok]). split; [reflexivity|exact Hs].
      - destruct c; cbn [CoG.c_step]; split; try reflexivity; exact Hs.
    Qed.
    Lemma c_contains_congr c st i : Forall ok st -> CoG.c_contains e1 pool c st i = CoG.c_contains e2 pool c st i.
    Proof.
      intro Hs. destruct c; cbn [CoG.c_contains]; try (apply ic_contains_congr; [exact Hs|apply pget_ok]).
      apply iris_contains_item_congr; [apply map_lnk_ok; exact Hs|apply pget_ok].
    Qed.

    Theorem c_run_congr c ops : forall st, Forall ok st -> CoG.c_run e1 pool c st ops = CoG.c_run e2 pool c st ops.
    Proof.
      induction ops as [|o r IH]; intros st Hs; [reflexivity|]. cbn [CoG.c_run].
      destruct (c_step_congr c st o Hs) as [E F]. rewrite E, (IH _ F).
      destruct o; try reflexivity. rewrite (c_contains_congr c st i Hs). reflexivity.
    Qed.
  End Run.
End Dom.
