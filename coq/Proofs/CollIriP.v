(* Lemmas for C15 (collection IRIs <-> owners).  Model: Model/CollIri.v. *)
From AP.Model Require Import Prelude Bytes Url IriEq Vocab Pred CollIri.
From AP.Gen Require Import TypeLists.
From AP.Proofs Require Import NlvP IriEqP.

(* ================================================================ byte sweeps *)
Lemma in_all_bytes (b : byte) : In b all_bytes.
Proof.
  unfold all_bytes. apply in_map_iff. exists (Byte.to_N b). split.
  - unfold byte_of_N_total. rewrite Byte.of_to_N. reflexivity.
  - apply in_map_iff. exists (N.to_nat (Byte.to_N b)). split.
    + apply N2Nat.id.
    + apply in_seq. pose proof (Byte.to_N_bounded b). lia.
Qed.

Lemma byte_sweep (P : byte -> bool) : forallb P all_bytes = true -> forall b, P b = true.
Proof. intros H b. rewrite forallb_forall in H. apply H. apply in_all_bytes. Qed.

Lemma byte_eqb_eq (a b : byte) : Byte.eqb a b = true <-> a = b.
Proof. split; [apply Byte.byte_dec_bl | apply Byte.byte_dec_lb]. Qed.

Lemma byte_eqb_refl (a : byte) : Byte.eqb a a = true.
Proof. apply byte_eqb_eq. reflexivity. Qed.

Lemma byte_eqb_neq (a b : byte) : Byte.eqb a b = false <-> a <> b.
Proof.
  split.
  - intros H E. subst. rewrite byte_eqb_refl in H. discriminate.
  - intros H. destruct (Byte.eqb a b) eqn:E; [|reflexivity]. apply byte_eqb_eq in E. contradiction.
Qed.

(* "b is not c" as a boolean predicate over strings *)
Definition lacks (c : byte) (s : bytes) : bool := forallb (fun b => negb (Byte.eqb b c)) s.

Lemma lacks_app c a b : lacks c (a ++ b) = lacks c a && lacks c b.
Proof. apply forallb_app. Qed.

Lemma forallb_impl {A} (P Q : A -> bool) l :
  (forall x, P x = true -> Q x = true) -> forallb P l = true -> forallb Q l = true.
Proof.
  intros H. induction l as [|x r IH]; simpl; [reflexivity|].
  intros E. apply andb_true_iff in E. destruct E as [E1 E2]. rewrite (H _ E1), (IH E2). reflexivity.
Qed.

(* ================================================================ cut_byte, index *)
Lemma cut_byte_none c s : lacks c s = true -> cut_byte c s = (s, None).
Proof.
  induction s as [|x r IH]; simpl; [reflexivity|].
  intros H. apply andb_true_iff in H. destruct H as [H1 H2].
  destruct (Byte.eqb x c); [discriminate|]. rewrite (IH H2). reflexivity.
Qed.

Lemma cut_byte_app c a r : lacks c a = true -> cut_byte c (a ++ c :: r) = (a, Some r).
Proof.
  induction a as [|x a IH]; simpl.
  - intros _. rewrite byte_eqb_refl. reflexivity.
  - intros H. apply andb_true_iff in H. destruct H as [H1 H2].
    destruct (Byte.eqb x c); [discriminate|]. rewrite (IH H2). reflexivity.
Qed.

Lemma cut_byte_spec c s a o :
  cut_byte c s = (a, o) -> lacks c a = true /\ s = a ++ match o with Some r => c :: r | None => [] end.
Proof.
  revert a o. induction s as [|x r IH]; simpl; intros a o H.
  - inversion H; subst. split; reflexivity.
  - destruct (Byte.eqb x c) eqn:E.
    + inversion H; subst. apply byte_eqb_eq in E. subst. split; reflexivity.
    + destruct (cut_byte c r) as [a' o'] eqn:E2. inversion H; subst.
      destruct (IH _ _ eq_refl) as [H1 H2]. split.
      * simpl. rewrite E, H1. reflexivity.
      * simpl. f_equal. exact H2.
Qed.

Lemma index_from_scheme n sch rest :
  lacks colon sch = true -> index_from n (B "://") (sch ++ B "://" ++ rest) = Some (n + length sch).
Proof.
  revert n. induction sch as [|x r IH]; intros n H.
  - simpl. f_equal. lia.
  - simpl in H. apply andb_true_iff in H. destruct H as [H1 H2].
    change ((x :: r) ++ B "://" ++ rest) with (x :: (r ++ B "://" ++ rest)).
    unfold index_from; fold index_from.
    change (B "://") with (colon :: B "//").
    unfold is_prefix; fold is_prefix.
    replace (Byte.eqb colon x) with false.
    2:{ symmetry. apply byte_eqb_neq. intros E. subst. rewrite byte_eqb_refl in H1. discriminate. }
    cbn [andb]. change (colon :: B "//") with (B "://"). rewrite (IH (S n) H2). f_equal. simpl. lia.
Qed.

Lemma firstn_app_exact {A} (a b : list A) : firstn (length a) (a ++ b) = a.
Proof. induction a; simpl; [destruct b; reflexivity|]. f_equal. assumption. Qed.

Lemma skipn_app_exact {A} (a b : list A) : skipn (length a) (a ++ b) = b.
Proof. induction a; simpl; [reflexivity|]. assumption. Qed.

(* ================================================================ TrimRight *)
Definition dropc (c : byte) : bytes -> bytes :=
  fix drop (l : bytes) : bytes :=
    match l with
    | x :: r => if Byte.eqb x c then drop r else l
    | [] => []
    end.

Lemma trim_right_unfold c s : trim_right_byte c s = rev (dropc c (rev s)).
Proof. reflexivity. Qed.

Lemma dropc_prefix c l : exists k, l = repeat c k ++ dropc c l.
Proof.
  induction l as [|x r [k IH]].
  - exists 0. reflexivity.
  - simpl. destruct (Byte.eqb x c) eqn:E.
    + apply byte_eqb_eq in E. subst. exists (S k). simpl. f_equal. exact IH.
    + exists 0. reflexivity.
Qed.

Lemma dropc_stop c l1 x l2 : Byte.eqb x c = false -> dropc c (l1 ++ x :: l2) = dropc c l1 ++ x :: l2.
Proof.
  intros Hx. induction l1 as [|y r IH]; simpl.
  - rewrite Hx. reflexivity.
  - destruct (Byte.eqb y c); [exact IH | reflexivity].
Qed.

Lemma rev_repeat {A} (c : A) k : rev (repeat c k) = repeat c k.
Proof.
  induction k; simpl; [reflexivity|]. rewrite IHk. clear IHk.
  induction k; simpl; [reflexivity|]. f_equal. assumption.
Qed.

(* TrimRight removes a run of the byte at the end and nothing else *)
Lemma trim_right_suffix c s : exists k, s = trim_right_byte c s ++ repeat c k.
Proof.
  rewrite trim_right_unfold. destruct (dropc_prefix c (rev s)) as [k H]. exists k.
  rewrite <- (rev_involutive s) at 1. rewrite H at 1. rewrite rev_app_distr, rev_repeat. reflexivity.
Qed.

Lemma trim_right_snoc c s : trim_right_byte c (s ++ [c]) = trim_right_byte c s.
Proof.
  rewrite !trim_right_unfold, rev_app_distr. change (rev [c] ++ rev s) with (c :: rev s).
  unfold dropc at 1. rewrite byte_eqb_refl. reflexivity.
Qed.

Lemma trim_right_repeat c s k : trim_right_byte c (s ++ repeat c k) = trim_right_byte c s.
Proof.
  induction k; simpl; [rewrite app_nil_r; reflexivity|].
  replace (s ++ c :: repeat c k) with ((s ++ repeat c k) ++ [c]).
  - rewrite trim_right_snoc. exact IHk.
  - rewrite <- app_assoc. f_equal. clear. induction k; simpl; [reflexivity|]. f_equal. assumption.
Qed.

(* a prefix ending in another byte is never touched *)
Lemma trim_right_keep c a x r :
  Byte.eqb x c = false -> trim_right_byte c ((a ++ [x]) ++ r) = (a ++ [x]) ++ trim_right_byte c r.
Proof.
  intros Hx. rewrite !trim_right_unfold. rewrite !rev_app_distr. simpl.
  rewrite (dropc_stop c (rev r) x (rev a) Hx). rewrite rev_app_distr. simpl. rewrite rev_involutive.
  reflexivity.
Qed.

Lemma trim_right_head c x r : Byte.eqb x c = true -> exists t,
  trim_right_byte c (x :: r) = [] \/ trim_right_byte c (x :: r) = x :: t.
Proof.
  intros _. destruct (trim_right_suffix c (x :: r)) as [k H].
  destruct (trim_right_byte c (x :: r)) as [|y t] eqn:E.
  - exists []. left. reflexivity.
  - exists t. right. simpl in H. inversion H; subst. reflexivity.
Qed.

(* ================================================================ filepath.Split *)
Lemma path_split_noslash c : lacks slash c = true -> path_split c = ([], c).
Proof.
  induction c as [|x r IH]; simpl; [reflexivity|].
  intros H. apply andb_true_iff in H. destruct H as [H1 H2]. rewrite (IH H2). simpl.
  destruct (Byte.eqb x slash); [discriminate | reflexivity].
Qed.

Lemma path_split_app a c : lacks slash c = true -> path_split (a ++ slash :: c) = (a ++ [slash], c).
Proof.
  intros H. induction a as [|x r IH]; simpl.
  - rewrite (path_split_noslash c H). reflexivity.
  - rewrite IH. destruct (r ++ [slash]) eqn:E; [destruct r; discriminate|]. simpl. reflexivity.
Qed.

(* the directory part ends in "/" (or is empty), the file part has no "/" *)
Lemma path_split_spec p : forall d f, path_split p = (d, f) ->
  p = d ++ f /\ lacks slash f = true /\ (d = [] \/ exists d', d = d' ++ [slash]).
Proof.
  induction p as [|x r IH]; simpl; intros d f H.
  - inversion H; subst. repeat split. left. reflexivity.
  - destruct (path_split r) as [d0 f0] eqn:E. destruct (IH _ _ eq_refl) as [H1 [H2 H3]].
    destruct (nonempty d0 || Byte.eqb x slash) eqn:E2; inversion H; subst.
    + repeat split; [exact H2|]. right. destruct H3 as [H3|[d' H3]].
      * subst. simpl in E2. apply byte_eqb_eq in E2. subst. exists []. reflexivity.
      * subst. exists (x :: d'). reflexivity.
    + apply orb_false_iff in E2. destruct E2 as [E3 E4]. destruct d0; [|discriminate].
      repeat split; [|left; reflexivity]. simpl. rewrite E4. exact H2.
Qed.

(* ================================================================ percent-escapes *)
Lemma pct_go_app st a b da db :
  pct_go st a = Some da -> pct_go P0 b = Some db -> pct_go st (a ++ b) = Some (da ++ db).
Proof.
  revert st da. induction a as [|c r IH]; intros st da Ha Hb.
  - destruct st; simpl in Ha; try discriminate. inversion Ha; subst. exact Hb.
  - simpl in Ha |- *. destruct st.
    + destruct (Byte.eqb c pct).
      * apply IH; assumption.
      * destruct (pct_go P0 r) as [d|] eqn:E; [|discriminate]. inversion Ha; subst.
        rewrite (IH P0 d E Hb). reflexivity.
    + destruct (is_hex c); [|discriminate]. apply IH; assumption.
    + destruct (is_hex c); [|discriminate].
      destruct (pct_go P0 r) as [d|] eqn:E; [|discriminate]. inversion Ha; subst.
      rewrite (IH P0 d E Hb). reflexivity.
Qed.

Lemma pct_go_plain s : lacks pct s = true -> pct_go P0 s = Some s.
Proof.
  induction s as [|c r IH]; simpl; [reflexivity|].
  intros H. apply andb_true_iff in H. destruct H as [H1 H2].
  destruct (Byte.eqb c pct); [discriminate|]. rewrite (IH H2). reflexivity.
Qed.

Lemma slash_not_hex : is_hex slash = false. Proof. reflexivity. Qed.
Lemma slash_not_pct : Byte.eqb slash pct = false. Proof. reflexivity. Qed.

(* a decodable string followed by "/" decodes to the decoding followed by "/" - and only so *)
Lemma pct_go_snoc_slash st a x :
  pct_go st (a ++ [slash]) = Some x -> exists da, pct_go st a = Some da /\ x = da ++ [slash].
Proof.
  revert st x. induction a as [|c r IH]; intros st x H.
  - simpl in H. destruct st; simpl in H.
    + inversion H; subst. exists []. split; reflexivity.
    + discriminate.
    + discriminate.
  - simpl in H |- *. destruct st.
    + destruct (Byte.eqb c pct).
      * apply IH. exact H.
      * destruct (pct_go P0 (r ++ [slash])) as [d|] eqn:E; [|discriminate]. inversion H; subst.
        destruct (IH _ _ E) as [da [H1 H2]]. rewrite H1. exists (c :: da). split; [reflexivity|]. subst. reflexivity.
    + destruct (is_hex c); [|discriminate]. apply IH. exact H.
    + destruct (is_hex c); [|discriminate].
      destruct (pct_go P0 (r ++ [slash])) as [d|] eqn:E; [|discriminate]. inversion H; subst.
      destruct (IH _ _ E) as [da [H1 H2]]. rewrite H1. exists (unhex2 h c :: da). split; [reflexivity|]. subst. reflexivity.
Qed.

Lemma repeat_snoc {A} (c : A) k : repeat c (S k) = repeat c k ++ [c].
Proof. induction k; simpl; [reflexivity|]. f_equal. exact IHk. Qed.

Lemma pct_decode_slashes a k x :
  pct_decode (a ++ repeat slash k) = Some x -> exists da, pct_decode a = Some da /\ x = da ++ repeat slash k.
Proof.
  unfold pct_decode. revert x. induction k; intros x H.
  - simpl in H. rewrite app_nil_r in H. exists x. split; [exact H|]. simpl. rewrite app_nil_r. reflexivity.
  - rewrite repeat_snoc, app_assoc in H. apply pct_go_snoc_slash in H. destruct H as [d1 [H1 H2]].
    destruct (IHk _ H1) as [da [H3 H4]]. exists da. split; [exact H3|]. subst.
    rewrite repeat_snoc, app_assoc. reflexivity.
Qed.

Lemma pct_decode_app a b da db :
  pct_decode a = Some da -> pct_decode b = Some db -> pct_decode (a ++ b) = Some (da ++ db).
Proof. apply pct_go_app. Qed.

(* URL.String's escaping is undone by url.Parse's unescaping, for every byte string *)
Lemma escape_byte_roundtrip b : pct_go P0 (escape_byte b) = Some [b].
Proof.
  pose proof (byte_sweep (fun b => match pct_go P0 (escape_byte b) with
                                   | Some [b'] => Byte.eqb b' b
                                   | _ => false
                                   end)) as H.
  specialize (H ltac:(vm_compute; reflexivity) b). cbv beta in H.
  destruct (pct_go P0 (escape_byte b)) as [[|b' [|]]|]; try discriminate.
  apply byte_eqb_eq in H. subst. reflexivity.
Qed.

Lemma path_escape_roundtrip p : pct_decode (path_escape p) = Some p.
Proof.
  induction p as [|b r IH]; [reflexivity|].
  change (path_escape (b :: r)) with (escape_byte b ++ path_escape r).
  change (b :: r) with ([b] ++ r). apply pct_decode_app; [apply escape_byte_roundtrip | exact IH].
Qed.

Lemma escape_byte_chars b : forallb is_rawpath_char (escape_byte b) = true.
Proof.
  exact (byte_sweep (fun b => forallb is_rawpath_char (escape_byte b)) ltac:(vm_compute; reflexivity) b).
Qed.

Lemma path_escape_chars p : forallb is_rawpath_char (path_escape p) = true.
Proof.
  induction p as [|b r IH]; [reflexivity|].
  change (path_escape (b :: r)) with (escape_byte b ++ path_escape r).
  rewrite forallb_app, escape_byte_chars, IH. reflexivity.
Qed.

Lemma path_escape_rooted p : path_escape (slash :: p) = slash :: path_escape p.
Proof. reflexivity. Qed.

(* ================================================================ filepath.Clean ignores trailing slashes *)
Lemma split_byte_nonnil c s : split_byte c s <> [].
Proof.
  destruct s as [|x r]; simpl; [discriminate|].
  destruct (split_byte c r); [discriminate|]. destruct (Byte.eqb x c); discriminate.
Qed.

Lemma split_byte_snoc c p : split_byte c (p ++ [c]) = split_byte c p ++ [[]].
Proof.
  induction p as [|x r IH].
  - cbn [app split_byte]. rewrite byte_eqb_refl. reflexivity.
  - cbn [app split_byte]. rewrite IH. pose proof (split_byte_nonnil c r) as N.
    destruct (split_byte c r) as [|seg segs]; [contradiction|].
    cbn [app]. destruct (Byte.eqb x c); reflexivity.
Qed.

Lemma clean_segs_snoc_empty l : forall st rooted, clean_segs st rooted (l ++ [[]]) = clean_segs st rooted l.
Proof.
  induction l as [|seg r IH]; intros st rooted; [reflexivity|].
  cbn [app clean_segs]. destruct seg as [|b seg']; [apply IH|].
  destruct (bytes_eqb (b :: seg') (B ".")); [apply IH|].
  destruct (bytes_eqb (b :: seg') (B "..")); [|apply IH].
  destruct st as [|top st']; [destruct rooted; apply IH|].
  destruct (bytes_eqb top (B "..")); apply IH.
Qed.

Lemma path_clean_snoc_rooted p : path_clean (slash :: p ++ [slash]) = path_clean (slash :: p).
Proof.
  unfold path_clean. rewrite byte_eqb_refl.
  change (slash :: p ++ [slash]) with ((slash :: p) ++ [slash]).
  rewrite split_byte_snoc, clean_segs_snoc_empty. reflexivity.
Qed.

Lemma path_clean_rooted_slashes p k : path_clean (slash :: p ++ repeat slash k) = path_clean (slash :: p).
Proof.
  induction k; [simpl; rewrite app_nil_r; reflexivity|].
  rewrite repeat_snoc, app_assoc, path_clean_snoc_rooted. exact IHk.
Qed.

Definition rooted_or_empty (r : bytes) : bool := match r with [] => true | c :: _ => Byte.eqb c slash end.

Lemma clean_url_path_slashes d k : rooted_or_empty d = true ->
  clean_url_path path_clean (d ++ repeat slash k) = clean_url_path path_clean d.
Proof.
  intros H. destruct d as [|c d'].
  - destruct k; [reflexivity|]. unfold clean_url_path. cbn [app repeat].
    change (slash :: repeat slash k) with (slash :: [] ++ repeat slash k).
    apply path_clean_rooted_slashes.
  - simpl in H. apply byte_eqb_eq in H. subst. unfold clean_url_path. cbn [app].
    apply path_clean_rooted_slashes.
Qed.

Lemma paths_equal_slashes d k : rooted_or_empty d = true ->
  paths_equal path_clean (d ++ repeat slash k) d = true.
Proof. intros H. unfold paths_equal. rewrite (clean_url_path_slashes d k H). apply fold_eqb_refl. Qed.

(* ================================================================ the owner grammar *)
Definition owner_str (sch h r : bytes) : bytes := sch ++ B "://" ++ h ++ r.
Definition owner_ok (sch h r : bytes) : bool :=
  match sch with c0 :: _ => is_alpha c0 | [] => false end
  && forallb is_scheme_char sch && host_ok h && nonempty h
  && rooted_or_empty r && forallb is_rawpath_char r
  && match pct_decode r with Some d => forallb is_ascii d | None => false end.

Definition hostport_char (b : byte) : bool := is_host_char b || is_digit b || Byte.eqb b colon.
(* bytes that end no component early and raise no parse error *)
Definition inert (b : byte) : bool := negb (Byte.eqb b hash) && negb (Byte.eqb b qmark) && negb (is_ctl b).

Lemma scheme_char_facts b : is_scheme_char b = true ->
  inert b = true /\ negb (Byte.eqb b colon) = true /\ negb (Byte.eqb b slash) = true.
Proof.
  pose proof (byte_sweep (fun b => implb (is_scheme_char b)
     (inert b && negb (Byte.eqb b colon) && negb (Byte.eqb b slash))) ltac:(vm_compute; reflexivity) b) as H.
  cbv beta in H. intros E. rewrite E in H. simpl in H.
  apply andb_true_iff in H. destruct H as [H H3]. apply andb_true_iff in H. destruct H as [H1 H2]. auto.
Qed.

Lemma hostport_char_facts b : hostport_char b = true -> inert b = true /\ negb (Byte.eqb b slash) = true.
Proof.
  pose proof (byte_sweep (fun b => implb (hostport_char b)
     (inert b && negb (Byte.eqb b slash))) ltac:(vm_compute; reflexivity) b) as H.
  cbv beta in H. intros E. rewrite E in H. simpl in H.
  apply andb_true_iff in H. destruct H as [H1 H2]. auto.
Qed.

Lemma rawpath_char_facts b : is_rawpath_char b = true -> inert b = true.
Proof.
  pose proof (byte_sweep (fun b => implb (is_rawpath_char b) (inert b)) ltac:(vm_compute; reflexivity) b) as H.
  cbv beta in H. intros E. rewrite E in H. exact H.
Qed.

Lemma host_ok_chars h : host_ok h = true -> forallb hostport_char h = true.
Proof.
  unfold host_ok. destruct (cut_byte colon h) as [name port] eqn:E. intros H.
  apply andb_true_iff in H. destruct H as [H1 H2].
  destruct (cut_byte_spec _ _ _ _ E) as [_ Hs]. subst h. rewrite forallb_app. apply andb_true_iff. split.
  - eapply forallb_impl; [|exact H1]. intros x Hx. unfold hostport_char. rewrite Hx. reflexivity.
  - destruct port as [p|]; [|reflexivity]. cbn [forallb]. apply andb_true_iff. split.
    + unfold hostport_char. rewrite byte_eqb_refl. rewrite !orb_true_r. reflexivity.
    + eapply forallb_impl; [|exact H2]. intros x Hx. unfold hostport_char. rewrite Hx. rewrite orb_true_r. reflexivity.
Qed.

Lemma inert_lacks_hash s : forallb inert s = true -> lacks hash s = true.
Proof. apply forallb_impl. intros x H. unfold inert in H. apply andb_true_iff in H. destruct H as [H _]. apply andb_true_iff in H. tauto. Qed.
Lemma inert_lacks_qmark s : forallb inert s = true -> lacks qmark s = true.
Proof. apply forallb_impl. intros x H. unfold inert in H. apply andb_true_iff in H. destruct H as [H _]. apply andb_true_iff in H. tauto. Qed.
Lemma inert_no_ctl s : forallb inert s = true -> existsb is_ctl s = false.
Proof.
  induction s as [|x r IH]; simpl; [reflexivity|]. intros H. apply andb_true_iff in H. destruct H as [H1 H2].
  rewrite (IH H2). unfold inert in H1. apply andb_true_iff in H1. destruct H1 as [_ H1].
  destruct (is_ctl x); [discriminate|reflexivity].
Qed.

Lemma sep_inert : forallb inert (B "://") = true. Proof. reflexivity. Qed.

(* url.Parse on a member of the owner grammar: plain splitting, scheme lower-cased, path decoded *)
Lemma parse_owner sch h r d :
  owner_ok sch h r = true -> pct_decode r = Some d ->
  url_parse_x (owner_str sch h r) =
  XUrl {| x_scheme := lower sch; x_host := h; x_path := d; x_query := None; x_frag := [] |}.
Proof.
  unfold owner_ok. intros H Hd. rewrite Hd in H.
  repeat (apply andb_true_iff in H; let H' := fresh "K" in destruct H as [H H']).
  destruct sch as [|c0 sch']; [discriminate|].
  rename H into Ka.
  pose proof (host_ok_chars h K3) as Hh.
  assert (Is : forallb inert (c0 :: sch') = true).
  { eapply forallb_impl; [|exact K4]. intros x Hx. apply scheme_char_facts in Hx. tauto. }
  assert (Ih : forallb inert h = true).
  { eapply forallb_impl; [|exact Hh]. intros x Hx. apply hostport_char_facts in Hx. tauto. }
  assert (Ir : forallb inert r = true).
  { eapply forallb_impl; [|exact K0]. intros x Hx. apply rawpath_char_facts in Hx. tauto. }
  assert (Iall : forallb inert (owner_str (c0 :: sch') h r) = true).
  { unfold owner_str. rewrite !forallb_app, Is, Ih, Ir, sep_inert. reflexivity. }
  assert (Lc : lacks colon (c0 :: sch') = true).
  { eapply forallb_impl; [|exact K4]. intros x Hx. apply scheme_char_facts in Hx. tauto. }
  assert (Lh : lacks slash h = true).
  { eapply forallb_impl; [|exact Hh]. intros x Hx. apply hostport_char_facts in Hx. tauto. }
  unfold url_parse_x.
  change (owner_str (c0 :: sch') h r) with (c0 :: (sch' ++ B "://" ++ h ++ r)) at 1.
  cbv iota beta.
  change (c0 :: (sch' ++ B "://" ++ h ++ r)) with (owner_str (c0 :: sch') h r).
  rewrite (cut_byte_none hash _ (inert_lacks_hash _ Iall)).
  rewrite (inert_no_ctl _ Iall).
  assert (Ec : Byte.eqb c0 colon = false).
  { simpl in Lc. apply andb_true_iff in Lc. destruct Lc as [Lc _]. destruct (Byte.eqb c0 colon); [discriminate|reflexivity]. }
  rewrite Ec. cbv iota beta.
  rewrite (cut_byte_none qmark _ (inert_lacks_qmark _ Iall)). cbv iota beta.
  unfold index. unfold owner_str at 1. rewrite (index_from_scheme 0 (c0 :: sch') (h ++ r) Lc).
  cbv iota beta. rewrite Nat.add_0_l.
  unfold owner_str. rewrite firstn_app_exact.
  replace (skipn (length (c0 :: sch') + 3) ((c0 :: sch') ++ B "://" ++ h ++ r)) with (h ++ r).
  2:{ rewrite <- (skipn_app_exact ((c0 :: sch') ++ B "://") (h ++ r)) at 1. rewrite app_length. rewrite <- app_assoc. reflexivity. }
  assert (Ecut : exists pr, cut_byte slash (h ++ r) = (h, pr) /\ match pr with Some p => slash :: p | None => [] end = r).
  { destruct r as [|x r'].
    - exists None. rewrite app_nil_r. split; [apply cut_byte_none; exact Lh|reflexivity].
    - simpl in K1. apply byte_eqb_eq in K1. subst x. exists (Some r'). split; [apply cut_byte_app; exact Lh|reflexivity]. }
  destruct Ecut as [pr [E1 E2]]. rewrite E1. cbv iota beta. rewrite E2.
  rewrite Ka, K4, K3, K0, Hd, K. reflexivity.
Qed.

(* ================================================================ equivalence of two owners *)
Lemma owner_ok_parts sch h r : owner_ok sch h r = true ->
  (exists c0 t, sch = c0 :: t /\ is_alpha c0 = true) /\ forallb is_scheme_char sch = true /\
  host_ok h = true /\ nonempty h = true /\ rooted_or_empty r = true /\ forallb is_rawpath_char r = true /\
  exists d, pct_decode r = Some d /\ forallb is_ascii d = true.
Proof.
  unfold owner_ok. intros H.
  repeat (apply andb_true_iff in H; let H' := fresh "K" in destruct H as [H H']).
  destruct sch as [|c0 t]; [discriminate|].
  destruct (pct_decode r) as [d|]; [|discriminate].
  repeat split; eauto.
Qed.

Lemma owner_ok_intro sch h r d :
  (match sch with c0 :: _ => is_alpha c0 | [] => false end) = true -> forallb is_scheme_char sch = true ->
  host_ok h = true -> nonempty h = true -> rooted_or_empty r = true -> forallb is_rawpath_char r = true ->
  pct_decode r = Some d -> forallb is_ascii d = true -> owner_ok sch h r = true.
Proof. intros H1 H2 H3 H4 H5 H6 H7 H8. unfold owner_ok. rewrite H1, H2, H3, H4, H5, H6, H7, H8. reflexivity. Qed.

Lemma classify_owner sch h r d :
  owner_ok sch h r = true -> pct_decode r = Some d ->
  url_classify_x (owner_str sch h r) =
  UValid {| u_scheme := lower sch; u_host := h; u_path := d; u_query := []; u_frag := [] |}.
Proof.
  intros H Hd. unfold url_classify_x. rewrite (parse_owner sch h r d H Hd). cbn [x_scheme x_host x_path x_query x_frag].
  destruct (owner_ok_parts _ _ _ H) as [[c0 [t [E _]]] [_ [_ [Hh _]]]]. subst sch. rewrite Hh. reflexivity.
Qed.

Lemma lower_byte_idem b : lower_byte (lower_byte b) = lower_byte b.
Proof.
  pose proof (byte_sweep (fun b => Byte.eqb (lower_byte (lower_byte b)) (lower_byte b)) ltac:(vm_compute; reflexivity) b) as H.
  apply byte_eqb_eq in H. exact H.
Qed.
Lemma lower_idem s : lower (lower s) = lower s.
Proof. unfold lower. rewrite map_map. apply map_ext. intros. apply lower_byte_idem. Qed.

Lemma owners_equivalent s1 s2 h r1 r2 d1 d2 :
  owner_ok s1 h r1 = true -> owner_ok s2 h r2 = true ->
  pct_decode r1 = Some d1 -> pct_decode r2 = Some d2 ->
  fold_eqb s1 s2 = true -> paths_equal path_clean d1 d2 = true ->
  iri_eqx (owner_str s1 h r1) (owner_str s2 h r2) true = true.
Proof.
  intros O1 O2 D1 D2 Hs Hp. unfold iri_eqx, iri_equals_x, iri_equals.
  destruct (fold_eqb (strip_fragment _) (strip_fragment _)); [reflexivity|].
  unfold iris_equal. rewrite (classify_owner _ _ _ _ O1 D1), (classify_owner _ _ _ _ O2 D2).
  cbn [u_scheme u_host u_path u_query].
  replace (fold_eqb (lower s1) (lower s2)) with true.
  2:{ symmetry. apply fold_eqb_eq. rewrite !lower_idem. apply fold_eqb_eq. exact Hs. }
  rewrite fold_eqb_refl, Hp. reflexivity.
Qed.

(* ================================================================ the eight names *)
Definition name_ok (c : bytes) : bool :=
  lacks slash c && lacks pct c && forallb is_rawpath_char c && forallb is_ascii c
  && contains tl_ActivityPubCollections c && valid_collection c && fold_eqb c c.

Lemma names_ok c : In c tl_ActivityPubCollections -> name_ok c = true.
Proof.
  intros H. assert (A : forallb name_ok tl_ActivityPubCollections = true) by (vm_compute; reflexivity).
  rewrite forallb_forall in A. apply A. exact H.
Qed.

Lemma name_parts c : name_ok c = true ->
  lacks slash c = true /\ lacks pct c = true /\ forallb is_rawpath_char c = true /\ forallb is_ascii c = true
  /\ contains tl_ActivityPubCollections c = true /\ valid_collection c = true.
Proof.
  unfold name_ok. intros H.
  repeat (apply andb_true_iff in H; let H' := fresh "K" in destruct H as [H H']). repeat split; assumption.
Qed.

(* ================================================================ IRIf on an owner *)
Definition irif_sep (i : bytes) : bytes :=
  match last_byte i with Some b => if Byte.eqb b slash then [] else [slash] | None => [slash] end.
Lemma irif_unfold i t : irif i t = i ++ irif_sep i ++ t.
Proof. reflexivity. Qed.

Lemma last_byte_snoc a x : last_byte (a ++ [x]) = Some x.
Proof. unfold last_byte. rewrite rev_app_distr. reflexivity. Qed.

Lemma list_last_cases {A} (l : list A) : l = [] \/ exists l' x, l = l' ++ [x].
Proof.
  induction l as [|a r IH]; [left; reflexivity|]. right. destruct IH as [IH|[l' [x IH]]]; subst.
  - exists [], a. reflexivity.
  - exists (a :: l'), x. reflexivity.
Qed.

Lemma nonempty_last h : nonempty h = true -> exists h' x, h = h' ++ [x].
Proof. intros H. destruct (list_last_cases h) as [E|E]; [subst; discriminate|exact E]. Qed.

Lemma forallb_last {A} (P : A -> bool) l x : forallb P (l ++ [x]) = true -> P x = true.
Proof. rewrite forallb_app. simpl. intros H. apply andb_true_iff in H. destruct H as [_ H]. apply andb_true_iff in H. tauto. Qed.

(* the separator IRIf inserts is "" exactly when the raw path already ends in "/" *)
Lemma irif_sep_owner sch h r : owner_ok sch h r = true ->
  (irif_sep (owner_str sch h r) = [] /\ exists r0, r = r0 ++ [slash]) \/ irif_sep (owner_str sch h r) = [slash].
Proof.
  intros H. destruct (owner_ok_parts _ _ _ H) as [_ [_ [Hh [Hn _]]]].
  unfold irif_sep. destruct (list_last_cases r) as [E|[r0 [x E]]]; subst r.
  - right. destruct (nonempty_last h Hn) as [h' [x E]]. subst h. unfold owner_str.
    rewrite app_nil_r. rewrite !app_assoc. rewrite last_byte_snoc.
    pose proof (forallb_last _ _ _ (host_ok_chars _ Hh)) as Hx. apply hostport_char_facts in Hx.
    destruct Hx as [_ Hx]. destruct (Byte.eqb x slash); [discriminate|reflexivity].
  - unfold owner_str. rewrite !app_assoc. rewrite last_byte_snoc.
    destruct (Byte.eqb x slash) eqn:E; [|right; reflexivity].
    left. apply byte_eqb_eq in E. subst x. split; [reflexivity|]. exists r0. reflexivity.
Qed.

Lemma rooted_app a b : rooted_or_empty a = true -> a <> [] -> rooted_or_empty (a ++ b) = true.
Proof. destruct a; [contradiction|]. simpl. auto. Qed.

Lemma pct_decode_rooted r d : pct_decode r = Some d -> rooted_or_empty r = true -> rooted_or_empty d = true.
Proof.
  destruct r as [|x r']; simpl.
  - intros H _. inversion H. reflexivity.
  - intros H E. apply byte_eqb_eq in E. subst x. unfold pct_decode in H. simpl in H.
    destruct (pct_go P0 r'); [|discriminate]. inversion H. reflexivity.
Qed.

(* shape of a built collection IRI: an owner again, whose decoded path is D ++ c with D ending in "/" *)
Lemma irif_owner sch h r d c :
  owner_ok sch h r = true -> pct_decode r = Some d -> name_ok c = true ->
  exists j D', j <= 1 /\
    irif (owner_str sch h r) c = owner_str sch h (r ++ repeat slash j ++ c) /\
    irif (owner_str sch h r) c = (owner_str sch h r ++ repeat slash j) ++ c /\
    (exists X', owner_str sch h r ++ repeat slash j = X' ++ [slash]) /\
    d ++ repeat slash j = D' ++ [slash] /\
    owner_ok sch h (r ++ repeat slash j ++ c) = true /\
    pct_decode (r ++ repeat slash j ++ c) = Some ((D' ++ [slash]) ++ c).
Proof.
  intros H Hd Hc. destruct (name_parts _ Hc) as [C1 [C2 [C3 [C4 _]]]].
  destruct (owner_ok_parts _ _ _ H) as [[c0 [t [Es Ha]]] [Hs [Hh [Hn [Hr [Hch [d' [Hd' Hasc]]]]]]]].
  rewrite Hd in Hd'. inversion Hd'; subst d'. clear Hd'.
  assert (Dec : forall j, pct_decode (r ++ repeat slash j ++ c) = Some ((d ++ repeat slash j) ++ c)).
  { intros j. rewrite app_assoc. apply pct_decode_app; [|apply pct_go_plain; exact C2].
    apply pct_decode_app; [exact Hd|]. apply pct_go_plain. clear. induction j; [reflexivity|]. simpl. exact IHj. }
  assert (Ok' : forall j, rooted_or_empty (r ++ repeat slash j ++ c) = true ->
                          owner_ok sch h (r ++ repeat slash j ++ c) = true).
  { intros j Hroot. apply (owner_ok_intro sch h _ ((d ++ repeat slash j) ++ c)); try assumption.
    - subst sch. exact Ha.
    - rewrite !forallb_app, Hch, C3. replace (forallb is_rawpath_char (repeat slash j)) with true; [reflexivity|].
      clear. induction j; [reflexivity|]. simpl. exact IHj.
    - apply Dec.
    - rewrite !forallb_app, Hasc, C4. replace (forallb is_ascii (repeat slash j)) with true; [reflexivity|].
      clear. induction j; [reflexivity|]. simpl. exact IHj. }
  rewrite irif_unfold. destruct (irif_sep_owner _ _ _ H) as [[E [r0 Er]]|E]; rewrite E.
  - subst r. apply pct_go_snoc_slash in Hd. destruct Hd as [d0 [Hd0 Ed]]. subst d.
    exists 0, d0. cbn [repeat app]. rewrite !app_nil_r.
    assert (R : rooted_or_empty ((r0 ++ [slash]) ++ c) = true).
    { apply rooted_app; [exact Hr|]. destruct r0; discriminate. }
    repeat split.
    + lia.
    + unfold owner_str. rewrite <- !app_assoc. reflexivity.
    + exists (sch ++ B "://" ++ h ++ r0). unfold owner_str. rewrite <- !app_assoc. reflexivity.
    + specialize (Ok' 0). cbn [repeat app] in Ok'. apply Ok'. exact R.
    + specialize (Dec 0). cbn [repeat app] in Dec. rewrite app_nil_r in Dec. exact Dec.
  - exists 1, d. cbn [repeat].
    assert (R : rooted_or_empty (r ++ [slash] ++ c) = true).
    { destruct r; [reflexivity|]. exact Hr. }
    repeat split.
    + lia.
    + unfold owner_str. rewrite <- !app_assoc. reflexivity.
    + rewrite <- !app_assoc. reflexivity.
    + exists (owner_str sch h r). reflexivity.
    + apply (Ok' 1). exact R.
    + apply (Dec 1).
Qed.

(* ================================================================ Split after IRIf *)
Lemma lower_scheme_ok sch :
  (match sch with c0 :: _ => is_alpha c0 | [] => false end) = true -> forallb is_scheme_char sch = true ->
  (match lower sch with c0 :: _ => is_alpha c0 | [] => false end) = true /\ forallb is_scheme_char (lower sch) = true.
Proof.
  intros H1 H2. split.
  - destruct sch as [|c0 t]; [discriminate|]. simpl.
    pose proof (byte_sweep (fun b => implb (is_alpha b) (is_alpha (lower_byte b))) ltac:(vm_compute; reflexivity) c0) as S.
    cbv beta in S. rewrite H1 in S. exact S.
  - unfold lower. rewrite forallb_forall in H2. apply forallb_forall. intros x Hx. apply in_map_iff in Hx.
    destruct Hx as [y [E Hy]]. subst x. specialize (H2 y Hy).
    pose proof (byte_sweep (fun b => implb (is_scheme_char b) (is_scheme_char (lower_byte b))) ltac:(vm_compute; reflexivity) y) as S.
    cbv beta in S. rewrite H2 in S. exact S.
Qed.

Lemma url_string_owner sch h p : nonempty sch = true -> nonempty h = true -> rooted_or_empty p = true ->
  url_string_x {| x_scheme := sch; x_host := h; x_path := p; x_query := None; x_frag := [] |}
  = owner_str sch h (path_escape p).
Proof.
  intros Hs Hh Hp. unfold url_string_x, owner_str. cbn [x_scheme x_host x_path x_query x_frag].
  destruct sch as [|c0 t]; [discriminate|]. destruct h as [|h0 ht]; [discriminate|].
  cbn [nonempty orb andb]. rewrite !app_nil_r.
  assert (E : match path_escape p with
              | [] => []
              | c :: _ => if negb (Byte.eqb c slash) && true then [slash] else []
              end = []).
  { destruct p as [|x p']; [reflexivity|]. simpl in Hp. apply byte_eqb_eq in Hp. subst x. reflexivity. }
  rewrite E. cbn [app]. rewrite <- !app_assoc. reflexivity.
Qed.

Lemma rooted_trim s : rooted_or_empty s = true -> rooted_or_empty (trim_right_byte slash s) = true.
Proof.
  intros H. destruct (trim_right_suffix slash s) as [k E].
  destruct (trim_right_byte slash s) as [|x t]; [reflexivity|]. rewrite E in H. exact H.
Qed.

Lemma rooted_slashes d j : rooted_or_empty d = true -> rooted_or_empty (d ++ repeat slash j) = true.
Proof. destruct d; [destruct j; reflexivity|]. auto. Qed.

Lemma repeat_slash_ascii j : forallb is_ascii (repeat slash j) = true.
Proof. induction j; [reflexivity|]. simpl. exact IHj. Qed.

Lemma clean_trim s : rooted_or_empty s = true ->
  clean_url_path path_clean (trim_right_byte slash s) = clean_url_path path_clean s.
Proof.
  intros H. destruct (trim_right_suffix slash s) as [k E]. rewrite E at 2.
  symmetry. apply clean_url_path_slashes. apply rooted_trim. exact H.
Qed.

Lemma split_join sch h r c : owner_ok sch h r = true -> name_ok c = true ->
  exists o', split (irif (owner_str sch h r) c) = Some (o', c)
             /\ iri_eqx o' (owner_str sch h r) true = true.
Proof.
  intros H Hc. destruct (name_parts _ Hc) as [C1 [C2 [C3 [C4 [C5 C6]]]]].
  destruct (owner_ok_parts _ _ _ H) as [[c0 [t [Es Ha]]] [Hs [Hh [Hn [Hr [Hch [d [Hd Hasc]]]]]]]].
  destruct (irif_owner _ _ _ _ _ H Hd Hc) as [j [D' [Hj [E1 [E2 [_ [ED [Ok2 Dec2]]]]]]]].
  assert (Hal : (match sch with c0 :: _ => is_alpha c0 | [] => false end) = true) by (subst sch; exact Ha).
  destruct (lower_scheme_ok sch Hal Hs) as [L1 L2].
  assert (Rd : rooted_or_empty d = true) by (apply (pct_decode_rooted r d Hd Hr)).
  assert (RD : rooted_or_empty (D' ++ [slash]) = true) by (rewrite <- ED; apply rooted_slashes; exact Rd).
  unfold split, coll_split. rewrite E1, (parse_owner _ _ _ _ Ok2 Dec2). cbn [x_path].
  replace ((D' ++ [slash]) ++ c) with (D' ++ slash :: c) by (rewrite <- app_assoc; reflexivity).
  rewrite (path_split_app D' c C1).
  destruct (D' ++ [slash]) as [|y DD] eqn:EE; [destruct D'; discriminate|]. rewrite <- EE in *. rewrite C5.
  eexists. split; [reflexivity|].
  unfold with_path. cbn [x_scheme x_host x_path x_query x_frag].
  rewrite url_string_owner.
  2:{ subst sch. reflexivity. }
  2:{ exact Hn. }
  2:{ apply rooted_trim. exact RD. }
  apply (owners_equivalent (lower sch) sch h _ r (trim_right_byte slash (D' ++ [slash])) d).
  - apply (owner_ok_intro _ _ _ (trim_right_byte slash (D' ++ [slash]))); try assumption.
    + pose proof (rooted_trim _ RD) as RT. destruct (trim_right_byte slash (D' ++ [slash])) as [|x tt]; [reflexivity|].
      simpl in RT. apply byte_eqb_eq in RT. subst x. reflexivity.
    + apply path_escape_chars.
    + apply path_escape_roundtrip.
    + destruct (trim_right_suffix slash (D' ++ [slash])) as [k Ek].
      assert (A : forallb is_ascii (D' ++ [slash]) = true).
      { rewrite <- ED. rewrite forallb_app, Hasc, repeat_slash_ascii. reflexivity. }
      rewrite Ek, forallb_app in A. apply andb_true_iff in A. tauto.
  - exact H.
  - apply path_escape_roundtrip.
  - exact Hd.
  - apply fold_eqb_eq. apply lower_idem.
  - unfold paths_equal. rewrite (clean_trim _ RD). rewrite <- ED.
    rewrite (clean_url_path_slashes d j Rd). apply fold_eqb_refl.
Qed.

(* ================================================================ OfActor after IRIf *)
Lemma forallb_app_l {A} (P : A -> bool) a b : forallb P (a ++ b) = true -> forallb P a = true.
Proof. rewrite forallb_app. intros H. apply andb_true_iff in H. tauto. Qed.

Lemma trim_owner sch h r : owner_ok sch h r = true ->
  trim_right_byte slash (owner_str sch h r) = owner_str sch h (trim_right_byte slash r).
Proof.
  intros H. destruct (owner_ok_parts _ _ _ H) as [_ [_ [Hh [Hn _]]]].
  destruct (nonempty_last h Hn) as [h' [x E]]. subst h.
  pose proof (forallb_last _ _ _ (host_ok_chars _ Hh)) as Hx. apply hostport_char_facts in Hx. destruct Hx as [_ Hx].
  assert (Ex : Byte.eqb x slash = false) by (destruct (Byte.eqb x slash); [discriminate|reflexivity]).
  unfold owner_str.
  replace (sch ++ B "://" ++ (h' ++ [x]) ++ r) with (((sch ++ B "://" ++ h') ++ [x]) ++ r) by (rewrite <- !app_assoc; reflexivity).
  rewrite (trim_right_keep slash _ x r Ex). rewrite <- !app_assoc. reflexivity.
Qed.

Lemma owner_trim_ok sch h r d : owner_ok sch h r = true -> pct_decode r = Some d ->
  exists da k, owner_ok sch h (trim_right_byte slash r) = true /\ pct_decode (trim_right_byte slash r) = Some da
               /\ d = da ++ repeat slash k /\ rooted_or_empty da = true.
Proof.
  intros H Hd. destruct (owner_ok_parts _ _ _ H) as [[c0 [t [Es Ha]]] [Hs [Hh [Hn [Hr [Hch [d' [Hd' Hasc]]]]]]]].
  rewrite Hd in Hd'. inversion Hd'; subst d'. clear Hd'.
  destruct (trim_right_suffix slash r) as [k Ek].
  assert (Hd2 := Hd). rewrite Ek in Hd2. apply pct_decode_slashes in Hd2. destruct Hd2 as [da [Hda Ed]].
  exists da, k. pose proof (rooted_trim _ Hr) as RT.
  assert (Rda : rooted_or_empty da = true) by (apply (pct_decode_rooted _ _ Hda RT)).
  repeat split; try assumption.
  apply (owner_ok_intro _ _ _ da); try assumption.
  - subst sch. exact Ha.
  - rewrite Ek in Hch. apply forallb_app_l in Hch. exact Hch.
  - rewrite Ed in Hasc. apply forallb_app_l in Hasc. exact Hasc.
Qed.

Lemma of_actor_join sch h r c : owner_ok sch h r = true -> name_ok c = true ->
  exists o', of_actor c (irif (owner_str sch h r) c) = Ok o'
             /\ iri_eqx o' (owner_str sch h r) true = true.
Proof.
  intros H Hc. destruct (name_parts _ Hc) as [C1 _].
  destruct (owner_ok_parts _ _ _ H) as [_ [_ [_ [_ [Hr [_ [d [Hd _]]]]]]]].
  destruct (irif_owner _ _ _ _ _ H Hd Hc) as [j [D' [Hj [_ [E2 [[X' EX] _]]]]]].
  unfold of_actor. rewrite E2, EX.
  replace ((X' ++ [slash]) ++ c) with (X' ++ slash :: c) by (rewrite <- app_assoc; reflexivity).
  rewrite (path_split_app X' c C1). rewrite fold_eqb_refl. eexists. split; [reflexivity|].
  rewrite <- EX. rewrite trim_right_repeat. rewrite (trim_owner _ _ _ H).
  destruct (owner_trim_ok _ _ _ _ H Hd) as [da [k [Ok2 [Hda [Ed Rda]]]]].
  apply (owners_equivalent sch sch h _ r da d Ok2 H Hda Hd (fold_eqb_refl sch)).
  rewrite paths_equal_sym. rewrite Ed. apply paths_equal_slashes. exact Rda.
Qed.

(* ================================================================ ValidCollectionIRI *)
Lemma valid_join sch h r c : owner_ok sch h r = true -> name_ok c = true ->
  valid_collection_iri (irif (owner_str sch h r) c) = Some true.
Proof.
  intros H Hc. destruct (split_join _ _ _ _ H Hc) as [o' [E _]].
  unfold valid_collection_iri. rewrite E. destruct (name_parts _ Hc) as [_ [_ [_ [_ [_ C6]]]]]. rewrite C6. reflexivity.
Qed.

Lemma fold_nonempty f n : fold_eqb f n = true -> nonempty n = true -> nonempty f = true.
Proof. destruct f; [|reflexivity]. destruct n; [discriminate|]. unfold fold_eqb. simpl. discriminate. Qed.

Lemma contains_nonempty L f : forallb nonempty L = true -> contains L f = true -> nonempty f = true.
Proof.
  intros HL H. unfold contains in H. apply existsb_exists in H. destruct H as [n [Hn Hf]].
  rewrite forallb_forall in HL. apply (fold_nonempty f n Hf (HL n Hn)).
Qed.

Lemma contains_valid f : contains tl_ActivityPubCollections f = true -> valid_collection f = true.
Proof.
  intros H. unfold valid_collection, get_valid_collection, get_valid_activity_collection.
  destruct (contains tl_validActivityCollection f) eqn:A.
  - assert (N : nonempty f = true) by (apply (contains_nonempty _ f) in A; [exact A|reflexivity]).
    destruct f; [discriminate|reflexivity].
  - unfold get_valid_object_collection. unfold contains in H. apply existsb_exists in H. destruct H as [n [Hn Hf]].
    assert (In n tl_validActivityCollection \/ In n valid_object_collections) as [I|I].
    { assert (S : forallb (fun n => existsb (bytes_eqb n) tl_validActivityCollection
                                   || existsb (bytes_eqb n) valid_object_collections) tl_ActivityPubCollections = true)
        by (vm_compute; reflexivity).
      rewrite forallb_forall in S. specialize (S n Hn). apply orb_true_iff in S. destruct S as [S|S];
        apply existsb_exists in S; destruct S as [m [Hm Em]]; apply bytes_eqb_eq in Em; subst m; auto. }
    + exfalso. unfold contains in A. assert (existsb (fun n => fold_eqb f n) tl_validActivityCollection = true).
      { apply existsb_exists. exists n. split; assumption. }
      congruence.
    + destruct (find (fun n => fold_eqb f n) valid_object_collections) as [m|] eqn:F.
      * apply find_some in F. destruct F as [F _].
        assert (S : forallb nonempty valid_object_collections = true) by reflexivity.
        rewrite forallb_forall in S. exact (S m F).
      * exfalso. pose proof (find_none _ _ F n I) as Z. cbv beta in Z. congruence.
Qed.

(* ValidCollectionIRI on an owner: exactly when the last segment of the decoded path is a collection name *)
Lemma valid_owner sch h r d : owner_ok sch h r = true -> pct_decode r = Some d ->
  valid_collection_iri (owner_str sch h r) = Some (contains tl_ActivityPubCollections (snd (path_split d))).
Proof.
  intros H Hd. unfold valid_collection_iri, split, coll_split. rewrite (parse_owner _ _ _ _ H Hd). cbn [x_path].
  destruct (owner_ok_parts _ _ _ H) as [_ [_ [_ [_ [Hr _]]]]].
  pose proof (pct_decode_rooted _ _ Hd Hr) as Rd.
  destruct (path_split d) as [dir file] eqn:E. destruct (path_split_spec _ _ _ E) as [S1 [S2 S3]]. cbn [snd].
  destruct dir as [|y dir'].
  - simpl in S1. subst d. destruct file as [|x f']; [reflexivity|].
    simpl in Rd. apply byte_eqb_eq in Rd. subst x. simpl in S2. discriminate.
  - destruct (contains tl_ActivityPubCollections file) eqn:C.
    + rewrite (contains_valid _ C). reflexivity.
    + reflexivity.
Qed.

(* ================================================================ the collection helper *)
(* the struct property that holds collection c of an item of kind k, if the struct has one *)
Definition coll_field (c : bytes) (k : kind) : option fid :=
  match k with
  | KLink => None
  | KActor => match actor_field c with Some f => Some f | None => object_field c end
  | _ => object_field c
  end.

Lemma helper_of ptr k fs c f : In c tl_ActivityPubCollections -> coll_field c k = Some f ->
  coll_of c (IObj ptr k fs) =
  Some (match get_item f fs with INil => of_iri c (get_str F_ID fs) | e => e end).
Proof.
  intros Hc Hf. unfold tl_ActivityPubCollections in Hc. simpl in Hc.
  repeat (destruct Hc as [Hc|Hc]; [subst c|]); try contradiction;
    destruct k; simpl in Hf; try discriminate; inversion Hf; subst f; reflexivity.
Qed.

Lemma fold_nil_iri_length s : fold_eqb s nil_iri = true -> length s = 1.
Proof.
  intros H. apply fold_eqb_eq in H. apply (f_equal (@length byte)) in H. unfold lower in H.
  rewrite !map_length in H. exact H.
Qed.

Lemma is_nil_built X c : nonempty c = true -> is_nil (IIri false (X ++ slash :: c)) = false.
Proof.
  intros Hc. simpl. destruct (X ++ slash :: c) eqn:E; [destruct X; discriminate|]. rewrite <- E.
  destruct (fold_eqb (X ++ slash :: c) nil_iri) eqn:F; [|reflexivity].
  apply fold_nil_iri_length in F. rewrite app_length in F. simpl in F. destruct c; [discriminate|]. simpl in F. lia.
Qed.

Lemma add_path_name i c : In c tl_ActivityPubCollections -> add_path i c = trim_right_byte slash i ++ slash :: c.
Proof.
  intros Hc. unfold add_path. f_equal.
  assert (S : forallb (fun c => bytes_eqb (path_clean (fp_join [[slash]; fp_join [c]])) (slash :: c))
                tl_ActivityPubCollections = true) by (vm_compute; reflexivity).
  rewrite forallb_forall in S. apply bytes_eqb_eq. exact (S c Hc).
Qed.

Lemma name_nonempty c : In c tl_ActivityPubCollections -> nonempty c = true.
Proof.
  intros Hc. assert (S : forallb nonempty tl_ActivityPubCollections = true) by reflexivity.
  rewrite forallb_forall in S. exact (S c Hc).
Qed.

(* explicitly set and not nil-like: the helper yields it *)
Lemma helper_explicit ptr k fs c f : In c tl_ActivityPubCollections -> coll_field c k = Some f ->
  is_nil (get_item f fs) = false ->
  coll_of c (IObj ptr k fs) = Some (get_item f fs) /\ coll_iri c (IObj ptr k fs) = Some (link_of (get_item f fs)).
Proof.
  intros Hc Hf Hn. pose proof (helper_of ptr k fs c f Hc Hf) as E.
  assert (E' : coll_of c (IObj ptr k fs) = Some (get_item f fs)).
  { rewrite E. destruct (get_item f fs); try reflexivity. discriminate. }
  split; [exact E'|]. unfold coll_iri, coll_iri_with. rewrite E'.
  assert (K : k <> KLink) by (intros ->; discriminate).
  replace (is_nil (IObj ptr k fs)) with false by reflexivity.
  replace (is_object (IObj ptr k fs)) with true by (destruct k; try reflexivity; contradiction).
  rewrite Hn. reflexivity.
Qed.

(* not set, the object has an id: the helper builds id.AddPath(c) = TrimRight(id, "/") + "/" + c *)
Lemma helper_unset ptr k fs c f : In c tl_ActivityPubCollections -> coll_field c k = Some f ->
  get_item f fs = INil -> get_str F_ID fs <> [] ->
  coll_of c (IObj ptr k fs) = Some (IIri false (add_path (get_str F_ID fs) c))
  /\ coll_iri c (IObj ptr k fs) = Some (trim_right_byte slash (get_str F_ID fs) ++ slash :: c).
Proof.
  intros Hc Hf He Hid. pose proof (helper_of ptr k fs c f Hc Hf) as E. rewrite He in E.
  assert (E' : coll_of c (IObj ptr k fs) = Some (IIri false (add_path (get_str F_ID fs) c))).
  { rewrite E. unfold of_iri. destruct (get_str F_ID fs); [contradiction|reflexivity]. }
  split; [exact E'|]. unfold coll_iri, coll_iri_with. rewrite E'.
  assert (K : k <> KLink) by (intros ->; discriminate).
  replace (is_nil (IObj ptr k fs)) with false by reflexivity.
  replace (is_object (IObj ptr k fs)) with true by (destruct k; try reflexivity; contradiction).
  rewrite (add_path_name _ c Hc). rewrite (is_nil_built _ c (name_nonempty c Hc)). reflexivity.
Qed.

(* nil-like (no id and nothing set, or set to the empty IRI / "-" / a nil pointer): IRIf(id, c) *)
Lemma helper_nil_like ptr k fs c f : In c tl_ActivityPubCollections -> coll_field c k = Some f ->
  is_nil (get_item f fs) = true -> (get_item f fs <> INil \/ get_str F_ID fs = []) ->
  coll_iri c (IObj ptr k fs) = Some (irif (get_str F_ID fs) c).
Proof.
  intros Hc Hf Hn Hor. pose proof (helper_of ptr k fs c f Hc Hf) as E.
  assert (K : k <> KLink) by (intros ->; discriminate).
  unfold coll_iri, coll_iri_with. rewrite E.
  replace (is_nil (IObj ptr k fs)) with false by reflexivity.
  replace (is_object (IObj ptr k fs)) with true by (destruct k; try reflexivity; contradiction).
  destruct (get_item f fs) eqn:G.
  - destruct Hor as [Hor|Hor]; [contradiction|]. unfold link_of, get_link. rewrite Hor. reflexivity.
  - rewrite Hn. reflexivity.
  - rewrite Hn. reflexivity.
  - discriminate.
  - rewrite Hn. reflexivity.
  - rewrite Hn. reflexivity.
Qed.

(* an object that is not an actor has no inbox/outbox/liked/following/followers of its own *)
Lemma helper_not_applicable ptr k fs c : In c tl_OfActor -> k <> KActor -> k <> KLink ->
  coll_of c (IObj ptr k fs) = Some (of_iri c (get_str F_ID fs)).
Proof.
  intros Hc K1 K2. unfold tl_OfActor in Hc. simpl in Hc.
  repeat (destruct Hc as [Hc|Hc]; [subst c|]); try contradiction; destruct k; try contradiction; reflexivity.
Qed.

(* ================================================================ statements in the form used by Props/C15.v *)
Lemma names_are_the_eight c : In c tl_ActivityPubCollections <->
  In c [B "inbox"; B "outbox"; B "followers"; B "following"; B "liked"; B "likes"; B "shares"; B "replies"].
Proof. unfold tl_ActivityPubCollections. simpl. tauto. Qed.

Lemma iri_equals_x_refl s cs : iri_equals_x s s cs = Some true.
Proof. apply iri_equals_refl. Qed.

Lemma iri_equals_x_sym a b cs : iri_equals_x a b cs = iri_equals_x b a cs.
Proof.
  apply iri_equals_sym; [apply query_values_nodup | apply values_eq_sym | apply paths_equal_sym].
Qed.

Lemma iri_eqx_sym a b cs : iri_eqx a b cs = iri_eqx b a cs.
Proof. unfold iri_eqx. rewrite iri_equals_x_sym. reflexivity. Qed.

Lemma c15_owner_parses sch h r : owner_ok sch h r = true ->
  exists d, pct_decode r = Some d /\
    url_parse_x (owner_str sch h r) =
    XUrl {| x_scheme := lower sch; x_host := h; x_path := d; x_query := None; x_frag := [] |}.
Proof.
  intros H. destruct (owner_ok_parts _ _ _ H) as [_ [_ [_ [_ [_ [_ [d [Hd _]]]]]]]].
  exists d. split; [exact Hd|]. apply parse_owner; assumption.
Qed.

Lemma c15_split_join sch h r c : owner_ok sch h r = true -> In c tl_ActivityPubCollections ->
  exists o', split (irif (owner_str sch h r) c) = Some (o', c)
             /\ iri_eqx o' (owner_str sch h r) true = true /\ iri_eqx (owner_str sch h r) o' true = true.
Proof.
  intros H Hc. destruct (split_join _ _ _ _ H (names_ok c Hc)) as [o' [E1 E2]].
  exists o'. repeat split; [exact E1|exact E2|]. rewrite iri_eqx_sym. exact E2.
Qed.

Lemma c15_of_actor sch h r c : owner_ok sch h r = true -> In c tl_ActivityPubCollections ->
  exists o', of_actor c (irif (owner_str sch h r) c) = Ok o' /\ iri_eqx o' (owner_str sch h r) true = true.
Proof. intros H Hc. apply of_actor_join; [exact H|apply names_ok; exact Hc]. Qed.

Lemma c15_valid sch h r c : owner_ok sch h r = true -> In c tl_ActivityPubCollections ->
  valid_collection_iri (irif (owner_str sch h r) c) = Some true.
Proof. intros H Hc. apply valid_join; [exact H|apply names_ok; exact Hc]. Qed.

Lemma c15_not_valid sch h r d : owner_ok sch h r = true -> pct_decode r = Some d ->
  contains tl_ActivityPubCollections (snd (path_split d)) = false ->
  valid_collection_iri (owner_str sch h r) = Some false.
Proof. intros H Hd Hn. rewrite (valid_owner _ _ _ _ H Hd), Hn. reflexivity. Qed.

(* ================================================================ what the helper builds *)
Lemma dropc_head c l x t : dropc c l = x :: t -> Byte.eqb x c = false.
Proof.
  induction l as [|y r IH]; simpl; [discriminate|].
  destruct (Byte.eqb y c) eqn:E; [exact IH|]. intros H. inversion H; subst. exact E.
Qed.

Lemma trim_right_not_end c s r0 : trim_right_byte c s <> r0 ++ [c].
Proof.
  rewrite trim_right_unfold. intros H. apply (f_equal (@rev byte)) in H.
  rewrite rev_involutive, rev_app_distr in H. simpl in H. apply dropc_head in H.
  rewrite byte_eqb_refl in H. discriminate.
Qed.

Lemma built_is_irif sch h r c : owner_ok sch h r = true -> In c tl_ActivityPubCollections ->
  let o2 := owner_str sch h (trim_right_byte slash r) in
  trim_right_byte slash (owner_str sch h r) ++ slash :: c = irif o2 c
  /\ owner_ok sch h (trim_right_byte slash r) = true
  /\ iri_eqx o2 (owner_str sch h r) true = true.
Proof.
  intros H Hc o2. destruct (owner_ok_parts _ _ _ H) as [_ [_ [_ [_ [_ [_ [d [Hd _]]]]]]]].
  destruct (owner_trim_ok _ _ _ _ H Hd) as [da [k [Ok2 [Hda [Ed Rda]]]]].
  repeat split.
  - rewrite (trim_owner _ _ _ H). fold o2. rewrite irif_unfold.
    destruct (irif_sep_owner _ _ _ Ok2) as [[_ [r0 E]]|E].
    + exfalso. exact (trim_right_not_end slash r r0 E).
    + unfold o2. rewrite E. reflexivity.
  - exact Ok2.
  - apply (owners_equivalent sch sch h _ r da d Ok2 H Hda Hd (fold_eqb_refl sch)).
    rewrite paths_equal_sym. rewrite Ed. apply paths_equal_slashes. exact Rda.
Qed.

(* ================================================================ AddTo, then the helper *)
Lemma fid_beq_refl f : fid_beq f f = true.
Proof. apply internal_fid_dec_lb. reflexivity. Qed.

Lemma getf_replf f v fs : getf f (replf f v fs) = Some v.
Proof.
  induction fs as [|[g w] r IH]; simpl.
  - rewrite fid_beq_refl. reflexivity.
  - destruct (fid_beq f g) eqn:E; simpl.
    + rewrite fid_beq_refl. reflexivity.
    + rewrite E. exact IH.
Qed.

Lemma getf_replf_other f g v fs : fid_beq g f = false -> getf g (replf f v fs) = getf g fs.
Proof.
  intros H. induction fs as [|[g' w] r IH]; simpl.
  - rewrite H. reflexivity.
  - destruct (fid_beq f g') eqn:E; simpl.
    + apply internal_fid_dec_bl in E. subst g'. rewrite H. reflexivity.
    + destruct (fid_beq g g'); [reflexivity|exact IH].
Qed.

Lemma last_byte_some i b : last_byte i = Some b -> exists i0, i = i0 ++ [b].
Proof.
  unfold last_byte. destruct (rev i) as [|x l] eqn:E; [discriminate|]. intros H. inversion H; subst.
  exists (rev l). rewrite <- (rev_involutive i), E. reflexivity.
Qed.

Lemma irif_shape i c : exists X, irif i c = X ++ slash :: c.
Proof.
  unfold irif. destruct (last_byte i) as [b|] eqn:E.
  - destruct (Byte.eqb b slash) eqn:Eb.
    + apply byte_eqb_eq in Eb. subst b. apply last_byte_some in E. destruct E as [i0 E]. subst i.
      exists i0. rewrite <- app_assoc. reflexivity.
    + exists i. reflexivity.
  - exists i. reflexivity.
Qed.

Lemma add_to_then_helper k fs c f : In c tl_ActivityPubCollections -> coll_field c k = Some f ->
  is_nil (get_item f fs) = true ->
  exists x', add_to c (IObj true k fs) = Some (irif (get_str F_ID fs) c, true, x')
             /\ coll_iri c x' = Some (irif (get_str F_ID fs) c).
Proof.
  intros Hc Hf Hn.
  set (iri := irif (get_str F_ID fs) c).
  exists (IObj true k (replf f (FItem (IIri false iri)) fs)). split.
  - unfold tl_ActivityPubCollections in Hc. simpl in Hc.
    repeat (destruct Hc as [Hc|Hc]; [subst c|]); try contradiction;
      destruct k; simpl in Hf; try discriminate; inversion Hf; subst f;
      unfold add_to; cbn [is_nil]; cbv iota beta;
      match goal with |- context [contains tl_OfActor ?c] =>
        let b := eval vm_compute in (contains tl_OfActor c) in change (contains tl_OfActor c) with b end;
      cbv iota beta;
      try match goal with |- context [contains tl_OfObject ?c] =>
        let b := eval vm_compute in (contains tl_OfObject c) in change (contains tl_OfObject c) with b end;
      cbv iota beta; unfold add_to_field;
      match goal with |- context [actor_field ?c] =>
        let b := eval vm_compute in (actor_field c) in change (actor_field c) with b
      | |- context [object_field ?c] =>
        let b := eval vm_compute in (object_field c) in change (object_field c) with b end;
      cbv iota beta; rewrite Hn; reflexivity.
  - assert (Hid : get_str F_ID (replf f (FItem (IIri false iri)) fs) = get_str F_ID fs).
    { unfold get_str. rewrite getf_replf_other; [reflexivity|].
      unfold tl_ActivityPubCollections in Hc. simpl in Hc.
      repeat (destruct Hc as [Hc|Hc]; [subst c|]); try contradiction;
        destruct k; simpl in Hf; try discriminate; inversion Hf; reflexivity. }
    assert (G : get_item f (replf f (FItem (IIri false iri)) fs) = IIri false iri).
    { unfold get_item. rewrite getf_replf. reflexivity. }
    destruct (helper_explicit true k (replf f (FItem (IIri false iri)) fs) c f Hc Hf) as [_ E].
    + rewrite G. unfold iri. destruct (irif_shape (get_str F_ID fs) c) as [X EX]. rewrite EX.
      apply is_nil_built. apply name_nonempty. exact Hc.
    + rewrite E, G. reflexivity.
Qed.
