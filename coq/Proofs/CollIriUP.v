(* C15 on the wide grammar: owners whose raw path holds ANY byte but control bytes, "?" and "#" - bytes >= 0x80 (valid
   UTF-8 or not), spaces, quotes, every well-formed "%XX" escape whatever it decodes to - over the wide models of
   net/url (Model/UrlU.v) and strings.EqualFold (Model/Fold.v).  The ASCII carve-out of Proofs/CollIriP.v is gone:
   U+212A KELVIN SIGN folds onto "k" in the MODEL now, as it does in the code.
   Hosts are those of the plain grammar (ALPHA / DIGIT / "-" / "." with an optional port). *)
From AP.Model Require Import Prelude Bytes Url IriEq IriNf Vocab Pred CollIri Utf8 FoldTab Fold UrlU IriEqU CollIriU.
From AP.Gen Require Import TypeLists.
From AP.Proofs Require Import NlvP LowerP IriEqP SortP IriGenP IriNfP Utf8P FoldP DecodeUP CleanUP UrlUP QueryUP IriGenUP IriUP CollIriP NameEqP.

(* ================================================================ the owner grammar *)
Definition owner_ok_u (sch h r : bytes) : bool :=
  match sch with c0 :: _ => is_alpha c0 | [] => false end
  && forallb is_scheme_char sch && host_ok h && nonempty h
  && rooted_or_empty r && forallb inert r
  && match pct_decode r with Some _ => true | None => false end.

Lemma owner_ok_u_parts sch h r : owner_ok_u sch h r = true ->
  (exists c0 t, sch = c0 :: t /\ is_alpha c0 = true) /\ forallb is_scheme_char sch = true /\
  host_ok h = true /\ nonempty h = true /\ rooted_or_empty r = true /\ forallb inert r = true /\
  exists d, pct_decode r = Some d.
Proof.
  unfold owner_ok_u. intros H.
  repeat (apply andb_true_iff in H; let H' := fresh "K" in destruct H as [H H']).
  destruct sch as [|c0 t]; [discriminate|].
  destruct (pct_decode r) as [d|]; [|discriminate].
  repeat split; eauto.
Qed.

Lemma owner_ok_u_intro sch h r d :
  (match sch with c0 :: _ => is_alpha c0 | [] => false end) = true -> forallb is_scheme_char sch = true ->
  host_ok h = true -> nonempty h = true -> rooted_or_empty r = true -> forallb inert r = true ->
  pct_decode r = Some d -> owner_ok_u sch h r = true.
Proof. intros H1 H2 H3 H4 H5 H6 H7. unfold owner_ok_u. rewrite H1, H2, H3, H4, H5, H6, H7. reflexivity. Qed.

(* the owners of Proofs/CollIriP.v are among them *)
Lemma owner_ok_wide sch h r : owner_ok sch h r = true -> owner_ok_u sch h r = true.
Proof.
  intros H. destruct (owner_ok_parts _ _ _ H) as [[c0 [t [E Ha]]] [Hs [Hh [Hn [Hr [Hc [d [Hd _]]]]]]]].
  apply (owner_ok_u_intro sch h r d); try assumption; [subst sch; exact Ha|].
  eapply forallb_impl; [|exact Hc]. intros x Hx. apply rawpath_char_facts. exact Hx.
Qed.

(* ---- the host of the plain grammar, as parseHost sees it ---- *)
Lemma hostport_char_more b : hostport_char b = true ->
  Byte.eqb b pct = false /\ Byte.eqb b atsign = false /\ Byte.eqb b lbrack = false /\ host_noescape b = true.
Proof.
  pose proof (byte_sweep (fun b => implb (hostport_char b)
     (negb (Byte.eqb b pct) && negb (Byte.eqb b atsign) && negb (Byte.eqb b lbrack) && host_noescape b)) ltac:(vm_compute; reflexivity) b) as H.
  cbv beta in H. intros E. rewrite E in H. simpl in H. rewrite !andb_true_iff, !negb_true_iff in H. tauto.
Qed.

Lemma host_chars_bytes_ok h : forallb hostport_char h = true -> host_bytes_ok h = true.
Proof.
  induction h as [|c h IH]; [reflexivity|]. cbn [forallb]. rewrite andb_true_iff. intros [Hc Hh].
  destruct (hostport_char_more c Hc) as [P [_ [_ N]]]. cbn [host_bytes_ok]. rewrite P, N, orb_true_r, (IH Hh). reflexivity.
Qed.

Lemma forallb_rev {A} (P : A -> bool) l : forallb P (rev l) = forallb P l.
Proof. induction l as [|x l IH]; [reflexivity|]. simpl. rewrite forallb_app, IH. simpl. rewrite andb_true_r, andb_comm. reflexivity. Qed.

Lemma host_char_not_colon_all : forallb (fun b => implb (is_host_char b || is_digit b) (negb (Byte.eqb b colon))) all_bytes = true.
Proof. vm_compute. reflexivity. Qed.

Lemma host_ok_last_colon h : host_ok h = true -> last_colon_ok h = true.
Proof.
  unfold host_ok. destruct (cut_byte colon h) as [name port] eqn:E. intros H.
  apply andb_true_iff in H. destruct H as [H1 H2]. destruct (cut_byte_spec _ _ _ _ E) as [_ Hs]. subst h.
  assert (NC : forall l, forallb (fun b => is_host_char b || is_digit b) l = true -> lacks colon l = true).
  { intros l. apply forallb_impl. intros x Hx. pose proof (byte_sweep _ host_char_not_colon_all x) as S. cbv beta in S. rewrite Hx in S. exact S. }
  unfold last_colon_ok. destruct port as [p|].
  - rewrite rev_app_distr. cbn [rev]. rewrite <- app_assoc. cbn [app].
    rewrite (cut_byte_app colon (rev p) (rev name)).
    + rewrite forallb_rev. exact H2.
    + unfold lacks. rewrite forallb_rev. apply NC. eapply forallb_impl; [|exact H2]. intros x Hx. rewrite Hx, orb_true_r. reflexivity.
  - rewrite app_nil_r. rewrite (cut_byte_none colon (rev name)); [reflexivity|].
    unfold lacks. rewrite forallb_rev. apply NC. eapply forallb_impl; [|exact H1]. intros x Hx. rewrite Hx. reflexivity.
Qed.

Lemma host_ok_raw h : host_ok h = true -> rawhost_ok h = true /\ pct_decode h = Some h /\ host_escape h = h.
Proof.
  intros H. pose proof (host_ok_chars h H) as Hc. split; [|split].
  - unfold rawhost_ok. rewrite (host_ok_last_colon h H), (host_chars_bytes_ok h Hc), !andb_true_r.
    assert (existsb (fun b => Byte.eqb b atsign) h = false) as ->.
    { clear H. induction h as [|c h IH]; [reflexivity|]. cbn [forallb] in Hc. apply andb_true_iff in Hc. destruct Hc as [H1 H2].
      destruct (hostport_char_more c H1) as [_ [A _]]. simpl. rewrite A, (IH H2). reflexivity. }
    destruct h as [|c h']; [reflexivity|]. cbn [forallb] in Hc. apply andb_true_iff in Hc. destruct Hc as [H1 _].
    destruct (hostport_char_more c H1) as [_ [_ [B _]]]. simpl. rewrite beqb_sym, B. reflexivity.
  - apply pct_go_plain. eapply forallb_impl; [|exact Hc]. intros x Hx. destruct (hostport_char_more x Hx) as [P _]. rewrite P. reflexivity.
  - clear H. induction h as [|c h IH]; [reflexivity|]. cbn [forallb] in Hc. apply andb_true_iff in Hc. destruct Hc as [H1 H2].
    destruct (hostport_char_more c H1) as [_ [_ [_ N]]]. unfold host_escape. cbn [flat_map]. unfold esc_with at 1. rewrite N.
    fold (host_escape h). rewrite (IH H2). reflexivity.
Qed.

(* ---- url.Parse on an owner ---- *)
Definition rawpath_of (r d : bytes) : bytes := if bytes_eqb r (path_escape d) then [] else r.
Definition owner_url (sch h r d : bytes) : uurl :=
  {| uu_scheme := lower sch; uu_opaque := []; uu_user := None; uu_host := h; uu_path := d; uu_rawpath := rawpath_of r d;
     uu_query := None; uu_frag := []; uu_rawfrag := []; uu_omit := false |}.

Lemma parse_owner_u sch h r d :
  owner_ok_u sch h r = true -> pct_decode r = Some d -> url_parse_u (owner_str sch h r) = UUrl (owner_url sch h r d).
Proof.
  intros H Hd. destruct (owner_ok_u_parts _ _ _ H) as [[c0 [t [Es Ha]]] [Hs [Hh [Hn [Hr [Hi _]]]]]].
  pose proof (host_ok_chars h Hh) as Hc. destruct (host_ok_raw h Hh) as [Raw [Dh _]].
  assert (Is : forallb inert sch = true).
  { eapply forallb_impl; [|exact Hs]. intros x Hx. apply scheme_char_facts in Hx. tauto. }
  assert (Ih : forallb inert h = true).
  { eapply forallb_impl; [|exact Hc]. intros x Hx. apply hostport_char_facts in Hx. tauto. }
  assert (Iall : forallb inert (sch ++ B "://" ++ h ++ r ++ tail_of qmark None) = true).
  { cbn [tail_of]. rewrite app_nil_r, !forallb_app, Is, Ih, Hi, sep_inert. reflexivity. }
  pose proof (parse_u_struct sch h r None None h d Hs) as P. cbn [tail_of frag_fields] in P.
  unfold owner_str. rewrite !app_nil_r in P. unfold owner_url, rawpath_of. apply P.
  - subst sch. exact Ha.
  - cbn [tail_of] in Iall. rewrite app_nil_r in Iall. apply inert_no_ctl. exact Iall.
  - cbn [tail_of] in Iall. rewrite app_nil_r in Iall. apply inert_lacks_hash. exact Iall.
  - eapply forallb_impl; [|exact Hc]. intros x Hx. apply hostport_char_facts in Hx. tauto.
  - apply inert_lacks_qmark. rewrite forallb_app, Ih, Hi. reflexivity.
  - exact Raw.
  - exact Dh.
  - destruct r as [|x r']; [left; reflexivity|]. simpl in Hr. apply byte_eqb_eq in Hr. subst x. right. eauto.
  - exact Hd.
Qed.

Lemma classify_owner_u sch h r d :
  owner_ok_u sch h r = true -> pct_decode r = Some d ->
  url_classify_u (owner_str sch h r) =
  UValid {| u_scheme := lower sch; u_host := h; u_path := d; u_query := []; u_frag := [] |}.
Proof.
  intros H Hd. destruct (owner_ok_u_parts _ _ _ H) as [[c0 [t [Es _]]] [_ [_ [Hn _]]]].
  unfold url_classify_u. rewrite (parse_owner_u sch h r d H Hd).
  assert (owner_str sch h r <> []) as NE by (subst sch; discriminate).
  destruct (owner_str sch h r) eqn:E; [congruence|]. cbn [owner_url uu_scheme uu_host uu_path uu_query uu_frag].
  rewrite lower_nonempty. subst sch. cbn [nonempty]. rewrite Hn. reflexivity.
Qed.

(* ================================================================ equivalence of two owners *)
Lemma owners_equivalent_u s1 s2 h r1 r2 d1 d2 :
  owner_ok_u s1 h r1 = true -> owner_ok_u s2 h r2 = true ->
  pct_decode r1 = Some d1 -> pct_decode r2 = Some d2 ->
  fold_eqb s1 s2 = true -> clean_url_path path_clean d1 = clean_url_path path_clean d2 ->
  iri_equ (owner_str s1 h r1) (owner_str s2 h r2) true = true.
Proof.
  intros O1 O2 D1 D2 Hs Hp. unfold iri_equ, iri_equals_u. rewrite iri_equals_f_unfold.
  destruct (sfold_eqb _ _); [reflexivity|].
  unfold iris_equal_f. rewrite (classify_owner_u _ _ _ _ O1 D1), (classify_owner_u _ _ _ _ O2 D2).
  cbn [u_scheme u_host u_path u_query]. unfold paths_equal_f. rewrite Hp, !sfold_eqb_refl.
  destruct (owner_ok_u_parts _ _ _ O1) as [_ [A1 _]]. destruct (owner_ok_u_parts _ _ _ O2) as [_ [A2 _]].
  rewrite (sfold_eqb_ascii _ _ (lower_ascii _ (scheme_ascii _ A1)) (lower_ascii _ (scheme_ascii _ A2))).
  replace (fold_eqb (lower s1) (lower s2)) with true.
  2:{ symmetry. apply fold_eqb_eq. rewrite !lower_idem. apply fold_eqb_eq. exact Hs. }
  reflexivity.
Qed.

(* ================================================================ the eight names *)
Definition name_ok_u (c : bytes) : bool :=
  lacks slash c && lacks pct c && forallb inert c
  && contains_u tl_ActivityPubCollections c && valid_collection_u c.

Lemma names_ok_u c : In c tl_ActivityPubCollections -> name_ok_u c = true.
Proof.
  intros H. assert (A : forallb name_ok_u tl_ActivityPubCollections = true) by (vm_compute; reflexivity).
  rewrite forallb_forall in A. apply A. exact H.
Qed.

Lemma name_parts_u c : name_ok_u c = true ->
  lacks slash c = true /\ lacks pct c = true /\ forallb inert c = true
  /\ contains_u tl_ActivityPubCollections c = true /\ valid_collection_u c = true.
Proof.
  unfold name_ok_u. intros H.
  repeat (apply andb_true_iff in H; let H' := fresh "K" in destruct H as [H H']). repeat split; assumption.
Qed.

(* ================================================================ IRIf on an owner *)
Lemma irif_sep_owner_u sch h r : owner_ok_u sch h r = true ->
  (irif_sep (owner_str sch h r) = [] /\ exists r0, r = r0 ++ [slash]) \/ irif_sep (owner_str sch h r) = [slash].
Proof.
  intros H. destruct (owner_ok_u_parts _ _ _ H) as [_ [_ [Hh [Hn _]]]].
  unfold irif_sep. destruct (list_last_cases r) as [E|[r0 [x E]]]; subst r.
  - right. destruct (nonempty_last h Hn) as [h' [x E]]. subst h. unfold owner_str.
    rewrite app_nil_r. rewrite !app_assoc. rewrite last_byte_snoc.
    pose proof (forallb_last _ _ _ (host_ok_chars _ Hh)) as Hx. apply hostport_char_facts in Hx.
    destruct Hx as [_ Hx]. destruct (Byte.eqb x slash); [discriminate|reflexivity].
  - unfold owner_str. rewrite !app_assoc. rewrite last_byte_snoc.
    destruct (Byte.eqb x slash) eqn:E; [|right; reflexivity].
    left. apply byte_eqb_eq in E. subst x. split; [reflexivity|]. exists r0. reflexivity.
Qed.

Lemma repeat_slash_inert j : forallb inert (repeat slash j) = true.
Proof. induction j; [reflexivity|]. simpl. exact IHj. Qed.

Lemma irif_owner_u sch h r d c :
  owner_ok_u sch h r = true -> pct_decode r = Some d -> name_ok_u c = true ->
  exists j D', j <= 1 /\
    irif (owner_str sch h r) c = owner_str sch h (r ++ repeat slash j ++ c) /\
    irif (owner_str sch h r) c = (owner_str sch h r ++ repeat slash j) ++ c /\
    (exists X', owner_str sch h r ++ repeat slash j = X' ++ [slash]) /\
    d ++ repeat slash j = D' ++ [slash] /\
    owner_ok_u sch h (r ++ repeat slash j ++ c) = true /\
    pct_decode (r ++ repeat slash j ++ c) = Some ((D' ++ [slash]) ++ c).
Proof.
  intros H Hd Hc. destruct (name_parts_u _ Hc) as [C1 [C2 [C3 _]]].
  destruct (owner_ok_u_parts _ _ _ H) as [[c0 [t [Es Ha]]] [Hs [Hh [Hn [Hr [Hch _]]]]]].
  assert (Dec : forall j, pct_decode (r ++ repeat slash j ++ c) = Some ((d ++ repeat slash j) ++ c)).
  { intros j. rewrite app_assoc. apply pct_decode_app; [|apply pct_go_plain; exact C2].
    apply pct_decode_app; [exact Hd|]. apply pct_go_plain. clear. induction j; [reflexivity|]. simpl. exact IHj. }
  assert (Ok' : forall j, rooted_or_empty (r ++ repeat slash j ++ c) = true ->
                          owner_ok_u sch h (r ++ repeat slash j ++ c) = true).
  { intros j Hroot. apply (owner_ok_u_intro sch h _ ((d ++ repeat slash j) ++ c)); try assumption.
    - subst sch. exact Ha.
    - rewrite !forallb_app, Hch, C3, repeat_slash_inert. reflexivity.
    - apply Dec. }
  rewrite irif_unfold. destruct (irif_sep_owner_u _ _ _ H) as [[E [r0 Er]]|E]; rewrite E.
  - subst r. apply pct_go_snoc_slash in Hd. destruct Hd as [d0 [Hd0 Ed]]. subst d.
    exists 0, d0. cbn [repeat app]. rewrite !app_nil_r.
    assert (R : rooted_or_empty ((r0 ++ [slash]) ++ c) = true).
    { apply rooted_app; [exact Hr|]. destruct r0; discriminate. }
    repeat split.
    + lia.
    + unfold owner_str. rewrite <- !app_assoc. reflexivity.
    + exists (sch ++ B "://" ++ h ++ r0). unfold owner_str. rewrite <- !app_assoc. reflexivity.
    + specialize (Ok' 0). cbn [repeat app] in Ok'. apply Ok'. exact R.
    + specialize (Dec 0). cbn [repeat app] in Dec. rewrite app_nil_r in Dec. exact Dec.
  - exists 1, d. cbn [repeat].
    assert (R : rooted_or_empty (r ++ [slash] ++ c) = true).
    { destruct r; [reflexivity|]. exact Hr. }
    repeat split.
    + lia.
    + unfold owner_str. rewrite <- !app_assoc. reflexivity.
    + rewrite <- !app_assoc. reflexivity.
    + exists (owner_str sch h r). reflexivity.
    + apply (Ok' 1). exact R.
    + apply (Dec 1).
Qed.

(* ================================================================ URL.String after the path was replaced *)
Lemma path_escape_inert p : forallb inert (path_escape p) = true.
Proof.
  eapply forallb_impl; [|apply path_escape_chars]. intros x Hx. apply rawpath_char_facts. exact Hx.
Qed.

Lemma rooted_not_star p : rooted_or_empty p = true -> bytes_eqb p [star] = false.
Proof. destruct p as [|x p']; [reflexivity|]. simpl. intros H. apply byte_eqb_eq in H. subst x. reflexivity. Qed.

Lemma url_string_owner_u sch h r d p :
  nonempty sch = true -> host_ok h = true -> nonempty h = true -> rooted_or_empty p = true ->
  nonempty (rawpath_of r d) && opt_bytes_eqb (pct_decode (rawpath_of r d)) p = false ->
  url_string_u (with_path_u (owner_url sch h r d) p) = owner_str (lower sch) h (path_escape p).
Proof.
  intros Hs Hh Hn Hp Hne. destruct (host_ok_raw h Hh) as [_ [_ He]].
  unfold url_string_u, with_path_u, owner_url, owner_str, escaped_path.
  cbn [uu_scheme uu_opaque uu_host uu_path uu_rawpath uu_query uu_frag uu_rawfrag uu_omit].
  assert (nonempty (rawpath_of r d) && valid_enc path_noescape (rawpath_of r d)
          && opt_bytes_eqb (pct_decode (rawpath_of r d)) p = false) as ->.
  { apply andb_false_iff in Hne. destruct Hne as [-> | ->]; [reflexivity|apply andb_false_r]. }
  rewrite (rooted_not_star p Hp), He, Hn, lower_nonempty, Hs. cbn [nonempty orb andb negb app].
  assert (lower sch <> []) as NE by (destruct sch; [discriminate|discriminate]).
  destruct (lower sch) as [|c0 t] eqn:El; [congruence|]. cbn [nonempty andb negb].
  assert (E : match path_escape p with
              | [] => []
              | c :: _ => if negb (Byte.eqb c slash) && true then [slash] else []
              end = []).
  { destruct p as [|x p']; [reflexivity|]. simpl in Hp. apply byte_eqb_eq in Hp. subst x. reflexivity. }
  rewrite E. cbn [app]. rewrite !app_nil_r, <- !app_assoc. reflexivity.
Qed.

Lemma bytes_neq_length a b : length a <> length b -> bytes_eqb a b = false.
Proof. intros H. apply bytes_eqb_neq. intros E. subst. congruence. Qed.

Lemma trim_right_length c s : length (trim_right_byte c s) <= length s.
Proof. destruct (trim_right_suffix c s) as [k E]. rewrite E at 2. rewrite app_length. lia. Qed.

(* the raw path of the parsed built IRI never decodes to the path Split puts in its place (that one is shorter) *)
Lemma rawpath_not_new r d D' c : d = (D' ++ [slash]) ++ c -> pct_decode r = Some d ->
  nonempty (rawpath_of r d) && opt_bytes_eqb (pct_decode (rawpath_of r d)) (trim_right_byte slash (D' ++ [slash])) = false.
Proof.
  intros Ed Hd. unfold rawpath_of. destruct (bytes_eqb r (path_escape d)); [reflexivity|].
  rewrite Hd. cbn [opt_bytes_eqb]. apply andb_false_iff. right. apply bytes_neq_length.
  rewrite trim_right_snoc. pose proof (trim_right_length slash D') as L. rewrite Ed, !app_length. simpl. lia.
Qed.

(* ================================================================ Split after IRIf *)
Lemma split_join_u sch h r c : owner_ok_u sch h r = true -> name_ok_u c = true ->
  exists o', split_u (irif (owner_str sch h r) c) = Some (o', c)
             /\ iri_equ o' (owner_str sch h r) true = true.
Proof.
  intros H Hc. destruct (name_parts_u _ Hc) as [C1 [C2 [C3 [C5 C6]]]].
  destruct (owner_ok_u_parts _ _ _ H) as [[c0 [t [Es Ha]]] [Hs [Hh [Hn [Hr [Hch [d Hd]]]]]]].
  destruct (irif_owner_u _ _ _ _ _ H Hd Hc) as [j [D' [Hj [E1 [E2 [_ [ED [Ok2 Dec2]]]]]]]].
  assert (Hal : (match sch with c0 :: _ => is_alpha c0 | [] => false end) = true) by (subst sch; exact Ha).
  destruct (lower_scheme_ok sch Hal Hs) as [L1 L2].
  assert (Rd : rooted_or_empty d = true) by (apply (pct_decode_rooted r d Hd Hr)).
  assert (RD : rooted_or_empty (D' ++ [slash]) = true) by (rewrite <- ED; apply rooted_slashes; exact Rd).
  unfold split_u, coll_split_u, coll_split_with. rewrite E1.
  assert (owner_str sch h (r ++ repeat slash j ++ c) <> []) as NE by (subst sch; discriminate).
  destruct (owner_str sch h (r ++ repeat slash j ++ c)) eqn:EO; [congruence|]. rewrite <- EO. clear EO NE.
  rewrite (parse_owner_u _ _ _ _ Ok2 Dec2). cbn [owner_url uu_path].
  replace ((D' ++ [slash]) ++ c) with (D' ++ slash :: c) by (rewrite <- app_assoc; reflexivity).
  rewrite (path_split_app D' c C1).
  destruct (D' ++ [slash]) as [|y DD] eqn:EE; [destruct D'; discriminate|]. rewrite <- EE in *. rewrite C5.
  eexists. split; [reflexivity|].
  replace (D' ++ slash :: c) with ((D' ++ [slash]) ++ c) by (rewrite <- app_assoc; reflexivity).
  change {| uu_scheme := lower sch; uu_opaque := []; uu_user := None; uu_host := h; uu_path := (D' ++ [slash]) ++ c;
            uu_rawpath := rawpath_of (r ++ repeat slash j ++ c) ((D' ++ [slash]) ++ c);
            uu_query := None; uu_frag := []; uu_rawfrag := []; uu_omit := false |}
    with (owner_url sch h (r ++ repeat slash j ++ c) ((D' ++ [slash]) ++ c)).
  rewrite url_string_owner_u.
  2:{ subst sch. reflexivity. }
  2:{ exact Hh. }
  2:{ exact Hn. }
  2:{ apply rooted_trim. exact RD. }
  2:{ apply (rawpath_not_new _ _ D' c eq_refl Dec2). }
  apply (owners_equivalent_u (lower sch) sch h _ r (trim_right_byte slash (D' ++ [slash])) d).
  - apply (owner_ok_u_intro _ _ _ (trim_right_byte slash (D' ++ [slash]))); try assumption.
    + pose proof (rooted_trim _ RD) as RT. destruct (trim_right_byte slash (D' ++ [slash])) as [|x tt]; [reflexivity|].
      simpl in RT. apply byte_eqb_eq in RT. subst x. reflexivity.
    + apply path_escape_inert.
    + apply path_escape_roundtrip.
  - exact H.
  - apply path_escape_roundtrip.
  - exact Hd.
  - apply fold_eqb_eq. apply lower_idem.
  - rewrite (clean_trim _ RD). rewrite <- ED. apply (clean_url_path_slashes d j Rd).
Qed.

(* ================================================================ OfActor after IRIf *)
Lemma trim_owner_u sch h r : owner_ok_u sch h r = true ->
  trim_right_byte slash (owner_str sch h r) = owner_str sch h (trim_right_byte slash r).
Proof.
  intros H. destruct (owner_ok_u_parts _ _ _ H) as [_ [_ [Hh [Hn _]]]].
  destruct (nonempty_last h Hn) as [h' [x E]]. subst h.
  pose proof (forallb_last _ _ _ (host_ok_chars _ Hh)) as Hx. apply hostport_char_facts in Hx. destruct Hx as [_ Hx].
  assert (Ex : Byte.eqb x slash = false) by (destruct (Byte.eqb x slash); [discriminate|reflexivity]).
  unfold owner_str.
  replace (sch ++ B "://" ++ (h' ++ [x]) ++ r) with (((sch ++ B "://" ++ h') ++ [x]) ++ r) by (rewrite <- !app_assoc; reflexivity).
  rewrite (trim_right_keep slash _ x r Ex). rewrite <- !app_assoc. reflexivity.
Qed.

Lemma owner_trim_ok_u sch h r d : owner_ok_u sch h r = true -> pct_decode r = Some d ->
  exists da k, owner_ok_u sch h (trim_right_byte slash r) = true /\ pct_decode (trim_right_byte slash r) = Some da
               /\ d = da ++ repeat slash k /\ rooted_or_empty da = true.
Proof.
  intros H Hd. destruct (owner_ok_u_parts _ _ _ H) as [[c0 [t [Es Ha]]] [Hs [Hh [Hn [Hr [Hch _]]]]]].
  destruct (trim_right_suffix slash r) as [k Ek].
  assert (Hd2 := Hd). rewrite Ek in Hd2. apply pct_decode_slashes in Hd2. destruct Hd2 as [da [Hda Ed]].
  exists da, k. pose proof (rooted_trim _ Hr) as RT.
  assert (Rda : rooted_or_empty da = true) by (apply (pct_decode_rooted _ _ Hda RT)).
  repeat split; try assumption.
  apply (owner_ok_u_intro _ _ _ da); try assumption.
  - subst sch. exact Ha.
  - rewrite Ek in Hch. apply forallb_app_l in Hch. exact Hch.
Qed.

Lemma of_actor_join_u sch h r c : owner_ok_u sch h r = true -> name_ok_u c = true ->
  exists o', of_actor_u c (irif (owner_str sch h r) c) = Ok o'
             /\ iri_equ o' (owner_str sch h r) true = true.
Proof.
  intros H Hc. destruct (name_parts_u _ Hc) as [C1 _].
  destruct (owner_ok_u_parts _ _ _ H) as [_ [_ [_ [_ [Hr [_ [d Hd]]]]]]].
  destruct (irif_owner_u _ _ _ _ _ H Hd Hc) as [j [D' [Hj [_ [E2 [[X' EX] _]]]]]].
  unfold of_actor_u, of_actor_with. rewrite E2, EX.
  replace ((X' ++ [slash]) ++ c) with (X' ++ slash :: c) by (rewrite <- app_assoc; reflexivity).
  rewrite (path_split_app X' c C1). rewrite name_eqb_refl. eexists. split; [reflexivity|].
  rewrite <- EX. rewrite trim_right_repeat. rewrite (trim_owner_u _ _ _ H).
  destruct (owner_trim_ok_u _ _ _ _ H Hd) as [da [k [Ok2 [Hda [Ed Rda]]]]].
  apply (owners_equivalent_u sch sch h _ r da d Ok2 H Hda Hd (fold_eqb_refl sch)).
  rewrite Ed. symmetry. apply clean_url_path_slashes. exact Rda.
Qed.

(* ================================================================ ValidCollectionIRI *)
Lemma valid_join_u sch h r c : owner_ok_u sch h r = true -> name_ok_u c = true ->
  valid_collection_iri_u (irif (owner_str sch h r) c) = Some true.
Proof.
  intros H Hc. destruct (split_join_u _ _ _ _ H Hc) as [o' [E _]].
  unfold valid_collection_iri_u, valid_collection_iri_w. change (coll_split_with (contains_with name_eqb) tl_ActivityPubCollections) with split_u.
  rewrite E. destruct (name_parts_u _ Hc) as [_ [_ [_ [_ C6]]]]. unfold valid_collection_u in C6. rewrite C6. reflexivity.
Qed.

Lemma name_eqb_nonempty f n : name_eqb f n = true -> nonempty n = true -> nonempty f = true.
Proof.
  unfold name_eqb. rewrite andb_true_iff, Nat.eqb_eq. intros [L _] Hn. destruct f; [|reflexivity]. destruct n; [discriminate|discriminate].
Qed.

Lemma contains_u_nonempty L f : forallb nonempty L = true -> contains_u L f = true -> nonempty f = true.
Proof.
  intros HL H. unfold contains_u, contains_with in H. apply existsb_exists in H. destruct H as [n [Hn Hf]].
  rewrite forallb_forall in HL. apply (name_eqb_nonempty f n Hf (HL n Hn)).
Qed.

Lemma contains_u_valid f : contains_u tl_ActivityPubCollections f = true -> valid_collection_u f = true.
Proof.
  intros H. unfold valid_collection_u, valid_collection_w, get_valid_collection_w, get_valid_activity_collection_w.
  change (contains_with name_eqb) with contains_u. destruct (contains_u tl_validActivityCollection f) eqn:A.
  - assert (N : nonempty f = true) by (apply (contains_u_nonempty _ f) in A; [exact A|reflexivity]).
    destruct f; [discriminate|reflexivity].
  - unfold get_valid_object_collection_w. unfold contains_u, contains_with in H. apply existsb_exists in H. destruct H as [n [Hn Hf]].
    assert (In n tl_validActivityCollection \/ In n valid_object_collections) as [I|I].
    { assert (S : forallb (fun n => existsb (bytes_eqb n) tl_validActivityCollection
                                   || existsb (bytes_eqb n) valid_object_collections) tl_ActivityPubCollections = true)
        by (vm_compute; reflexivity).
      rewrite forallb_forall in S. specialize (S n Hn). apply orb_true_iff in S. destruct S as [S|S];
        apply existsb_exists in S; destruct S as [m [Hm Em]]; apply bytes_eqb_eq in Em; subst m; auto. }
    + exfalso. unfold contains_u, contains_with in A. assert (existsb (fun n => name_eqb f n) tl_validActivityCollection = true).
      { apply existsb_exists. exists n. split; assumption. }
      congruence.
    + destruct (find (fun n => name_eqb f n) valid_object_collections) as [m|] eqn:F.
      * apply find_some in F. destruct F as [F _].
        assert (S : forallb nonempty valid_object_collections = true) by reflexivity.
        rewrite forallb_forall in S. exact (S m F).
      * exfalso. pose proof (find_none _ _ F n I) as Z. cbv beta in Z. congruence.
Qed.

(* ValidCollectionIRI on an owner: exactly when the last segment of the decoded path is a collection name
   under strings.EqualFold (Unicode folding: "li\u212Aed" counts as "liked", as in the code) *)
Lemma valid_owner_u sch h r d : owner_ok_u sch h r = true -> pct_decode r = Some d ->
  valid_collection_iri_u (owner_str sch h r) = Some (contains_u tl_ActivityPubCollections (snd (path_split d))).
Proof.
  intros H Hd. unfold valid_collection_iri_u, valid_collection_iri_w, coll_split_with. change (contains_with name_eqb) with contains_u. change (valid_collection_w name_eqb) with valid_collection_u.
  destruct (owner_ok_u_parts _ _ _ H) as [[c0 [t [Es _]]] [_ [_ [_ [Hr _]]]]].
  assert (owner_str sch h r <> []) as NE by (subst sch; discriminate).
  destruct (owner_str sch h r) eqn:EO; [congruence|]. rewrite <- EO. clear EO NE.
  rewrite (parse_owner_u _ _ _ _ H Hd). cbn [owner_url uu_path].
  pose proof (pct_decode_rooted _ _ Hd Hr) as Rd.
  destruct (path_split d) as [dir file] eqn:E. destruct (path_split_spec _ _ _ E) as [S1 [S2 S3]]. cbn [snd].
  destruct dir as [|y dir'].
  - simpl in S1. subst d. destruct file as [|x f']; [reflexivity|].
    simpl in Rd. apply byte_eqb_eq in Rd. subst x. simpl in S2. discriminate.
  - destruct (contains_u tl_ActivityPubCollections file) eqn:C.
    + rewrite (contains_u_valid _ C). reflexivity.
    + reflexivity.
Qed.

(* ================================================================ statements in the form used by Props/C15.v *)
Lemma c15u_owner_parses sch h r : owner_ok_u sch h r = true ->
  exists d, pct_decode r = Some d /\ url_parse_u (owner_str sch h r) = UUrl (owner_url sch h r d).
Proof.
  intros H. destruct (owner_ok_u_parts _ _ _ H) as [_ [_ [_ [_ [_ [_ [d Hd]]]]]]].
  exists d. split; [exact Hd|]. apply parse_owner_u; assumption.
Qed.

Lemma c15u_split_join sch h r c : owner_ok_u sch h r = true -> In c tl_ActivityPubCollections ->
  exists o', split_u (irif (owner_str sch h r) c) = Some (o', c)
             /\ iri_equ o' (owner_str sch h r) true = true /\ iri_equ (owner_str sch h r) o' true = true.
Proof.
  intros H Hc. destruct (split_join_u _ _ _ _ H (names_ok_u c Hc)) as [o' [E1 E2]].
  exists o'. repeat split; [exact E1|exact E2|]. rewrite iri_equ_sym. exact E2.
Qed.

Lemma c15u_of_actor sch h r c : owner_ok_u sch h r = true -> In c tl_ActivityPubCollections ->
  exists o', of_actor_u c (irif (owner_str sch h r) c) = Ok o' /\ iri_equ o' (owner_str sch h r) true = true.
Proof. intros H Hc. apply of_actor_join_u; [exact H|apply names_ok_u; exact Hc]. Qed.

Lemma c15u_valid sch h r c : owner_ok_u sch h r = true -> In c tl_ActivityPubCollections ->
  valid_collection_iri_u (irif (owner_str sch h r) c) = Some true.
Proof. intros H Hc. apply valid_join_u; [exact H|apply names_ok_u; exact Hc]. Qed.

Lemma c15u_not_valid sch h r d : owner_ok_u sch h r = true -> pct_decode r = Some d ->
  contains_u tl_ActivityPubCollections (snd (path_split d)) = false ->
  valid_collection_iri_u (owner_str sch h r) = Some false.
Proof. intros H Hd Hn. rewrite (valid_owner_u _ _ _ _ H Hd), Hn. reflexivity. Qed.

Lemma built_is_irif_u sch h r c : owner_ok_u sch h r = true -> In c tl_ActivityPubCollections ->
  let o2 := owner_str sch h (trim_right_byte slash r) in
  trim_right_byte slash (owner_str sch h r) ++ slash :: c = irif o2 c
  /\ owner_ok_u sch h (trim_right_byte slash r) = true
  /\ iri_equ o2 (owner_str sch h r) true = true.
Proof.
  intros H Hc o2. destruct (owner_ok_u_parts _ _ _ H) as [_ [_ [_ [_ [_ [_ [d Hd]]]]]]].
  destruct (owner_trim_ok_u _ _ _ _ H Hd) as [da [k [Ok2 [Hda [Ed Rda]]]]].
  repeat split.
  - rewrite (trim_owner_u _ _ _ H). fold o2. rewrite irif_unfold.
    destruct (irif_sep_owner_u _ _ _ Ok2) as [[_ [r0 E]]|E].
    + exfalso. exact (trim_right_not_end slash r r0 E).
    + unfold o2. rewrite E. reflexivity.
  - exact Ok2.
  - apply (owners_equivalent_u sch sch h _ r da d Ok2 H Hda Hd (fold_eqb_refl sch)).
    rewrite Ed. symmetry. apply clean_url_path_slashes. exact Rda.
Qed.

(* the last segment of an owner is recognised exactly when it is an ASCII-case variant of one of the eight names: the
   repaired Contains is the ASCII one of Model/CollIri.v on these names *)
Lemma names_ascii : forallb (forallb is_asciib) tl_ActivityPubCollections = true.
Proof. vm_compute. reflexivity. Qed.

Lemma valid_owner_ascii sch h r d : owner_ok_u sch h r = true -> pct_decode r = Some d ->
  valid_collection_iri_u (owner_str sch h r) = Some (contains tl_ActivityPubCollections (snd (path_split d))).
Proof. intros H Hd. rewrite (valid_owner_u sch h r d H Hd), (contains_u_ascii _ _ names_ascii). reflexivity. Qed.

(* the pinned tree compared with strings.EqualFold alone: a segment spelled with U+212A KELVIN SIGN was a name *)
Lemma kelvin_owner_pinned :
  owner_ok_u (B "https") (B "example.com") (B "/users/li%E2%84%AAed") = true /\
  valid_collection_iri_u_pinned (B "https://example.com/users/li%E2%84%AAed") = Some true /\
  split_u_pinned (B "https://example.com/users/li%E2%84%AAed") = Some (B "https://example.com/users", hx "6c69e284aa6564") /\
  of_actor_u_pinned (B "likes") (B "https://example.com/users/like%C5%BF") = Err /\
  of_actor_u_pinned (B "likes") (hx "68747470733a2f2f6578616d706c652e636f6d2f75736572732f6c696b65c5bf") = Ok (B "https://example.com/users") /\
  (* the repaired tree on the same inputs *)
  valid_collection_iri_u (B "https://example.com/users/li%E2%84%AAed") = Some false /\
  split_u (B "https://example.com/users/li%E2%84%AAed") = Some (B "https://example.com/users", []) /\
  of_actor_u (B "likes") (hx "68747470733a2f2f6578616d706c652e636f6d2f75736572732f6c696b65c5bf") = Err /\
  valid_collection_iri_u (B "https://example.com/users/LiKeD") = Some true.
Proof. repeat split; vm_compute; reflexivity. Qed.
