(* C15 on EVERY owner url.Parse gives a scheme and a host and that holds no "?" and no "#": any authority
   url.parseAuthority accepts - userinfo (whatever url.validUserinfo takes, "%XX" escapes, several ":" and "@"),
   reg-names with raw or escaped bytes >= 0x80, IPv4, IP literals "[...]" with zone ("%25...") and optional or empty
   port.  The owner grammar [owner_ok_w sch au r] is shown to be exactly that domain ([owner_dom_w_struct]: every
   string of the domain reads that way), so that the theorems of Props/C15.v carry no grammar hypothesis.
   Split builds the owner from URL.String, which re-escapes userinfo (encodeUserPassword) and host (encodeHost); the
   re-escaped owner is EQUIVALENT to the original (IRI.Equals compares the decoded host, never the userinfo) whenever
   the printed host is read back as the same host [host_stable].  That holds for every host that is no IP literal,
   every IP literal without zone and every zone without a byte >= 0x80 (proved below); it FAILS for a zone holding a
   raw byte >= 0x80: URL.String prints "%C3%A4", url.Parse refuses such an escape in a zone ([zone_non_ascii_witness],
   replayed on the real code by harness/c15u.go).
   Models: Model/UrlU.v, Model/IriEqU.v, Model/CollIriU.v. *)
From AP.Model Require Import Prelude Bytes Url IriEq IriNf Vocab Pred CollIri Utf8 FoldTab Fold UrlU IriEqU CollIriU.
From AP.Gen Require Import TypeLists.
From AP.Proofs Require Import NlvP LowerP IriEqP SortP IriGenP IriNfP Utf8P FoldP DecodeUP CleanUP UrlUP QueryUP IriGenUP IriUP CollIriP NameEqP CollIriUP.

(* ================================================================ the owner grammar *)
(* the authority: whatever url.parseAuthority accepts, with a host that is not empty *)
Definition auth_ok (au : bytes) : bool :=
  match parse_authority au with Some (_, h) => nonempty h | None => false end.

Definition owner_ok_w (sch au r : bytes) : bool :=
  match sch with c0 :: _ => is_alpha c0 | [] => false end
  && forallb is_scheme_char sch
  && lacks slash au && forallb inert au && auth_ok au
  && rooted_or_empty r && forallb inert r
  && match pct_decode r with Some _ => true | None => false end.

Lemma owner_ok_w_parts sch au r : owner_ok_w sch au r = true ->
  (exists c0 t, sch = c0 :: t /\ is_alpha c0 = true) /\ forallb is_scheme_char sch = true /\
  lacks slash au = true /\ forallb inert au = true /\
  (exists user h, parse_authority au = Some (user, h) /\ nonempty h = true) /\
  rooted_or_empty r = true /\ forallb inert r = true /\ exists d, pct_decode r = Some d.
Proof.
  unfold owner_ok_w, auth_ok. intros H.
  repeat (apply andb_true_iff in H; let H' := fresh "K" in destruct H as [H H']).
  destruct sch as [|c0 t]; [discriminate|].
  destruct (pct_decode r) as [d|]; [|discriminate].
  destruct (parse_authority au) as [[user h]|]; [|discriminate].
  repeat split; eauto.
Qed.

Lemma owner_ok_w_intro sch au r user h d :
  (match sch with c0 :: _ => is_alpha c0 | [] => false end) = true -> forallb is_scheme_char sch = true ->
  lacks slash au = true -> forallb inert au = true -> parse_authority au = Some (user, h) -> nonempty h = true ->
  rooted_or_empty r = true -> forallb inert r = true -> pct_decode r = Some d -> owner_ok_w sch au r = true.
Proof.
  intros H1 H2 H3 H4 H5 H6 H7 H8 H9. unfold owner_ok_w, auth_ok. rewrite H1, H2, H3, H4, H5, H6, H7, H8, H9. reflexivity.
Qed.

(* the owners of Proofs/CollIriUP.v (plain hosts) are among them: the authority is the host *)
Lemma owner_ok_u_w sch h r : owner_ok_u sch h r = true -> owner_ok_w sch h r = true.
Proof.
  intros H. destruct (owner_ok_u_parts _ _ _ H) as [[c0 [t [Es Ha]]] [Hs [Hh [Hn [Hr [Hi [d Hd]]]]]]].
  pose proof (host_ok_chars h Hh) as Hc. destruct (host_ok_raw h Hh) as [Raw [Dh _]].
  destruct (rawhost_ok_parse h h Raw Dh) as [Nat PH].
  apply (owner_ok_w_intro sch h r None h d); try assumption.
  - subst sch. exact Ha.
  - eapply forallb_impl; [|exact Hc]. intros x Hx. apply hostport_char_facts in Hx. tauto.
  - eapply forallb_impl; [|exact Hc]. intros x Hx. apply hostport_char_facts in Hx. tauto.
  - apply parse_authority_plain; assumption.
Qed.

Lemma auth_last au user h : parse_authority au = Some (user, h) -> nonempty h = true -> lacks slash au = true ->
  exists au' x, au = au' ++ [x] /\ Byte.eqb x slash = false.
Proof.
  intros PA Hn Hs. destruct (list_last_cases au) as [E|[au' [x E]]].
  - subst au. vm_compute in PA. inversion PA; subst. discriminate.
  - exists au', x. split; [exact E|]. subst au. unfold lacks in Hs. rewrite forallb_app in Hs. apply andb_true_iff in Hs.
    destruct Hs as [_ Hs]. simpl in Hs. rewrite andb_true_r in Hs. apply negb_true_iff in Hs. exact Hs.
Qed.

(* ================================================================ url.Parse on an owner *)
Definition owner_url_w (sch : bytes) (user : uuser) (h r d : bytes) : uurl :=
  {| uu_scheme := lower sch; uu_opaque := []; uu_user := user; uu_host := h; uu_path := d; uu_rawpath := rawpath_of r d;
     uu_query := None; uu_frag := []; uu_rawfrag := []; uu_omit := false |}.

Lemma parse_owner_w sch au r user h d :
  owner_ok_w sch au r = true -> parse_authority au = Some (user, h) -> pct_decode r = Some d ->
  url_parse_u (owner_str sch au r) = UUrl (owner_url_w sch user h r d).
Proof.
  intros H PA Hd. destruct (owner_ok_w_parts _ _ _ H) as [[c0 [t [Es Ha]]] [Hs [Hsl [Hia [_ [Hr [Hi _]]]]]]].
  assert (Is : forallb inert sch = true).
  { eapply forallb_impl; [|exact Hs]. intros x Hx. apply scheme_char_facts in Hx. tauto. }
  assert (Iall : forallb inert (sch ++ B "://" ++ au ++ r) = true).
  { rewrite !forallb_app, Is, Hia, Hi, sep_inert. reflexivity. }
  pose proof (parse_u_auth sch au r None None user h d Hs) as P. cbn [tail_of frag_fields] in P.
  unfold owner_str. rewrite !app_nil_r in P. unfold owner_url_w, rawpath_of. apply P.
  - subst sch. exact Ha.
  - apply inert_no_ctl. exact Iall.
  - apply inert_lacks_hash. exact Iall.
  - exact Hsl.
  - apply inert_lacks_qmark. rewrite forallb_app, Hia, Hi. reflexivity.
  - exact PA.
  - destruct r as [|x r']; [left; reflexivity|]. simpl in Hr. apply byte_eqb_eq in Hr. subst x. right. eauto.
  - exact Hd.
Qed.

Lemma classify_owner_w sch au r user h d :
  owner_ok_w sch au r = true -> parse_authority au = Some (user, h) -> pct_decode r = Some d ->
  url_classify_u (owner_str sch au r) =
  UValid {| u_scheme := lower sch; u_host := h; u_path := d; u_query := []; u_frag := [] |}.
Proof.
  intros H PA Hd. destruct (owner_ok_w_parts _ _ _ H) as [[c0 [t [Es _]]] [_ [_ [_ [[user' [h' [PA' Hn]]] _]]]]].
  rewrite PA in PA'. inversion PA'; subst user' h'.
  unfold url_classify_u. rewrite (parse_owner_w sch au r user h d H PA Hd).
  assert (owner_str sch au r <> []) as NE by (subst sch; discriminate).
  destruct (owner_str sch au r) eqn:E; [congruence|]. cbn [owner_url_w uu_scheme uu_host uu_path uu_query uu_frag].
  rewrite lower_nonempty. subst sch. cbn [nonempty]. rewrite Hn. reflexivity.
Qed.

(* ================================================================ equivalence of two owners with the same DECODED host *)
Lemma owners_equivalent_w s1 s2 au1 au2 u1 u2 h r1 r2 d1 d2 :
  owner_ok_w s1 au1 r1 = true -> owner_ok_w s2 au2 r2 = true ->
  parse_authority au1 = Some (u1, h) -> parse_authority au2 = Some (u2, h) ->
  pct_decode r1 = Some d1 -> pct_decode r2 = Some d2 ->
  fold_eqb s1 s2 = true -> clean_url_path path_clean d1 = clean_url_path path_clean d2 ->
  iri_equ (owner_str s1 au1 r1) (owner_str s2 au2 r2) true = true.
Proof.
  intros O1 O2 P1 P2 D1 D2 Hs Hp. unfold iri_equ, iri_equals_u. rewrite iri_equals_f_unfold.
  destruct (sfold_eqb _ _); [reflexivity|].
  unfold iris_equal_f. rewrite (classify_owner_w _ _ _ _ _ _ O1 P1 D1), (classify_owner_w _ _ _ _ _ _ O2 P2 D2).
  cbn [u_scheme u_host u_path u_query]. unfold paths_equal_f. rewrite Hp, !sfold_eqb_refl.
  destruct (owner_ok_w_parts _ _ _ O1) as [_ [A1 _]]. destruct (owner_ok_w_parts _ _ _ O2) as [_ [A2 _]].
  rewrite (sfold_eqb_ascii _ _ (lower_ascii _ (scheme_ascii _ A1)) (lower_ascii _ (scheme_ascii _ A2))).
  replace (fold_eqb (lower s1) (lower s2)) with true.
  2:{ symmetry. apply fold_eqb_eq. rewrite !lower_idem. apply fold_eqb_eq. exact Hs. }
  reflexivity.
Qed.

(* ================================================================ IRIf on an owner *)
Lemma irif_sep_owner_w sch au r : owner_ok_w sch au r = true ->
  (irif_sep (owner_str sch au r) = [] /\ exists r0, r = r0 ++ [slash]) \/ irif_sep (owner_str sch au r) = [slash].
Proof.
  intros H. destruct (owner_ok_w_parts _ _ _ H) as [_ [_ [Hsl [_ [[user [h [PA Hn]]] _]]]]].
  unfold irif_sep. destruct (list_last_cases r) as [E|[r0 [x E]]]; subst r.
  - right. destruct (auth_last au user h PA Hn Hsl) as [au' [x [E Hx]]]. subst au. unfold owner_str.
    rewrite app_nil_r. rewrite !app_assoc. rewrite last_byte_snoc. rewrite Hx. reflexivity.
  - unfold owner_str. rewrite !app_assoc. rewrite last_byte_snoc.
    destruct (Byte.eqb x slash) eqn:E; [|right; reflexivity].
    left. apply byte_eqb_eq in E. subst x. split; [reflexivity|]. exists r0. reflexivity.
Qed.

Lemma irif_owner_w sch au r d c :
  owner_ok_w sch au r = true -> pct_decode r = Some d -> name_ok_u c = true ->
  exists j D', j <= 1 /\
    irif (owner_str sch au r) c = owner_str sch au (r ++ repeat slash j ++ c) /\
    irif (owner_str sch au r) c = (owner_str sch au r ++ repeat slash j) ++ c /\
    (exists X', owner_str sch au r ++ repeat slash j = X' ++ [slash]) /\
    d ++ repeat slash j = D' ++ [slash] /\
    owner_ok_w sch au (r ++ repeat slash j ++ c) = true /\
    pct_decode (r ++ repeat slash j ++ c) = Some ((D' ++ [slash]) ++ c).
Proof.
  intros H Hd Hc. destruct (name_parts_u _ Hc) as [C1 [C2 [C3 _]]].
  destruct (owner_ok_w_parts _ _ _ H) as [[c0 [t [Es Ha]]] [Hs [Hsl [Hia [[user [h [PA Hn]]] [Hr [Hch _]]]]]]].
  assert (Dec : forall j, pct_decode (r ++ repeat slash j ++ c) = Some ((d ++ repeat slash j) ++ c)).
  { intros j. rewrite app_assoc. apply pct_decode_app; [|apply pct_go_plain; exact C2].
    apply pct_decode_app; [exact Hd|]. apply pct_go_plain. clear. induction j; [reflexivity|]. simpl. exact IHj. }
  assert (Ok' : forall j, rooted_or_empty (r ++ repeat slash j ++ c) = true ->
                          owner_ok_w sch au (r ++ repeat slash j ++ c) = true).
  { intros j Hroot. apply (owner_ok_w_intro sch au _ user h ((d ++ repeat slash j) ++ c)); try assumption.
    - subst sch. exact Ha.
    - rewrite !forallb_app, Hch, C3, repeat_slash_inert. reflexivity.
    - apply Dec. }
  rewrite irif_unfold. destruct (irif_sep_owner_w _ _ _ H) as [[E [r0 Er]]|E]; rewrite E.
  - subst r. apply pct_go_snoc_slash in Hd. destruct Hd as [d0 [Hd0 Ed]]. subst d.
    exists 0, d0. cbn [repeat app]. rewrite !app_nil_r.
    assert (R : rooted_or_empty ((r0 ++ [slash]) ++ c) = true).
    { apply rooted_app; [exact Hr|]. destruct r0; discriminate. }
    repeat split.
    + lia.
    + unfold owner_str. rewrite <- !app_assoc. reflexivity.
    + exists (sch ++ B "://" ++ au ++ r0). unfold owner_str. rewrite <- !app_assoc. reflexivity.
    + specialize (Ok' 0). cbn [repeat app] in Ok'. apply Ok'. exact R.
    + specialize (Dec 0). cbn [repeat app] in Dec. rewrite app_nil_r in Dec. exact Dec.
  - exists 1, d. cbn [repeat].
    assert (R : rooted_or_empty (r ++ [slash] ++ c) = true).
    { destruct r; [reflexivity|]. exact Hr. }
    repeat split.
    + lia.
    + unfold owner_str. rewrite <- !app_assoc. reflexivity.
    + rewrite <- !app_assoc. reflexivity.
    + exists (owner_str sch au r). reflexivity.
    + apply (Ok' 1). exact R.
    + apply (Dec 1).
Qed.

(* ================================================================ what URL.String prints for userinfo and host *)
Definition auth_string (user : uuser) (h : bytes) : bytes :=
  (match user with Some up => userinfo_string up ++ [atsign] | None => [] end) ++ host_escape h.

Lemma flat_map_forallb {A C} (Q : C -> bool) (f : A -> list C) l :
  (forall a, forallb Q (f a) = true) -> forallb Q (flat_map f l) = true.
Proof. intros H. induction l as [|a l IH]; [reflexivity|]. simpl. rewrite forallb_app, H, IH. reflexivity. Qed.

(* bytes that end no component early: none of  # ? / @  and no control byte *)
Definition quiet (b : byte) : bool := inert b && negb (Byte.eqb b slash) && negb (Byte.eqb b atsign).
Definition uquiet (b : byte) : bool := quiet b && negb (Byte.eqb b colon) && userinfo_char b.

Lemma host_esc_quiet b : forallb quiet (esc_with host_noescape b) = true.
Proof. exact (byte_sweep (fun b => forallb quiet (esc_with host_noescape b)) ltac:(vm_compute; reflexivity) b). Qed.
Lemma user_esc_quiet b : forallb uquiet (esc_with user_noescape b) = true.
Proof. exact (byte_sweep (fun b => forallb uquiet (esc_with user_noescape b)) ltac:(vm_compute; reflexivity) b). Qed.

Lemma esc_byte_roundtrip_of (keep : byte -> bool) :
  forallb (fun b => match pct_go P0 (esc_with keep b) with Some [b'] => Byte.eqb b' b | _ => false end) all_bytes = true ->
  forall s, pct_decode (flat_map (esc_with keep) s) = Some s.
Proof.
  intros A s. induction s as [|b r IH]; [reflexivity|].
  cbn [flat_map]. change (b :: r) with ([b] ++ r). apply pct_decode_app; [|exact IH].
  pose proof (byte_sweep _ A b) as H. cbv beta in H. unfold pct_decode.
  destruct (pct_go P0 (esc_with keep b)) as [[|b' [|]]|]; try discriminate.
  apply byte_eqb_eq in H. subst. reflexivity.
Qed.

Lemma host_escape_roundtrip h : pct_decode (host_escape h) = Some h.
Proof. apply esc_byte_roundtrip_of. vm_compute. reflexivity. Qed.
Lemma user_escape_roundtrip x : pct_decode (user_escape x) = Some x.
Proof. apply esc_byte_roundtrip_of. vm_compute. reflexivity. Qed.

Lemma host_escape_quiet h : forallb quiet (host_escape h) = true.
Proof. apply flat_map_forallb. apply host_esc_quiet. Qed.
Lemma user_escape_uquiet x : forallb uquiet (user_escape x) = true.
Proof. apply flat_map_forallb. apply user_esc_quiet. Qed.

Lemma quiet_parts b : quiet b = true -> inert b = true /\ Byte.eqb b slash = false /\ Byte.eqb b atsign = false.
Proof. unfold quiet. rewrite !andb_true_iff, !negb_true_iff. tauto. Qed.
Lemma uquiet_parts b : uquiet b = true -> quiet b = true /\ Byte.eqb b colon = false /\ userinfo_char b = true.
Proof. unfold uquiet. rewrite !andb_true_iff, !negb_true_iff. tauto. Qed.

(* Userinfo.String is read back as the same userinfo *)
Lemma parse_userinfo_string up : parse_userinfo (userinfo_string up) = Some up.
Proof.
  destruct up as [n pw]. unfold parse_userinfo, userinfo_string. cbn [fst snd].
  assert (Un : forallb userinfo_char (user_escape n) = true).
  { eapply forallb_impl; [|apply user_escape_uquiet]. intros x Hx. apply uquiet_parts in Hx. tauto. }
  assert (Cn : lacks colon (user_escape n) = true).
  { eapply forallb_impl; [|apply (user_escape_uquiet n)]. intros x Hx. apply uquiet_parts in Hx. apply negb_true_iff. tauto. }
  destruct pw as [p|].
  - assert (Up : forallb userinfo_char (user_escape p) = true).
    { eapply forallb_impl; [|apply user_escape_uquiet]. intros x Hx. apply uquiet_parts in Hx. tauto. }
    rewrite forallb_app, Un. cbn [forallb]. rewrite Up. change (userinfo_char colon) with true. cbn [andb].
    rewrite (cut_byte_app colon _ _ Cn), !user_escape_roundtrip. reflexivity.
  - rewrite app_nil_r, Un, (cut_byte_none colon _ Cn), user_escape_roundtrip. reflexivity.
Qed.

(* the printed host is read back as the same host: what Split needs of URL.String and url.Parse together *)
Definition host_stable (h : bytes) : bool := opt_bytes_eqb (parse_host (host_escape h)) h.

Lemma host_stable_parse h : host_stable h = true -> parse_host (host_escape h) = Some h.
Proof.
  unfold host_stable, opt_bytes_eqb. destruct (parse_host (host_escape h)) as [x|]; [|discriminate].
  intros E. apply bytes_eqb_eq in E. subst. reflexivity.
Qed.

Lemma cut_last_app c a b : notin c b = true -> cut_last c (a ++ c :: b) = Some (a, b).
Proof.
  intros N. induction a as [|x r IH]; simpl.
  - rewrite (cut_last_none _ _ N), beqb_refl. reflexivity.
  - rewrite IH. reflexivity.
Qed.

Lemma auth_string_parse user h : host_stable h = true -> parse_authority (auth_string user h) = Some (user, h).
Proof.
  intros St. pose proof (host_stable_parse h St) as PH.
  assert (Nat : notin atsign (host_escape h) = true).
  { eapply forallb_impl; [|apply (host_escape_quiet h)]. intros x Hx. apply quiet_parts in Hx. apply negb_true_iff. tauto. }
  unfold auth_string. destruct user as [up|].
  - rewrite <- app_assoc. cbn [app]. unfold parse_authority. rewrite (cut_last_app atsign _ _ Nat), PH, parse_userinfo_string. reflexivity.
  - cbn [app]. apply parse_authority_plain; assumption.
Qed.

Definition calm (b : byte) : bool := inert b && negb (Byte.eqb b slash).
Lemma quiet_calm b : quiet b = true -> calm b = true.
Proof. intros H. apply quiet_parts in H. unfold calm. destruct H as [-> [-> _]]. reflexivity. Qed.

Lemma auth_string_calm user h : forallb calm (auth_string user h) = true.
Proof.
  assert (Q : forall x, forallb calm (user_escape x) = true).
  { intros x. eapply forallb_impl; [|apply user_escape_uquiet]. intros y Hy. apply uquiet_parts in Hy. apply quiet_calm. tauto. }
  assert (Hh : forallb calm (host_escape h) = true).
  { eapply forallb_impl; [|apply host_escape_quiet]. exact quiet_calm. }
  unfold auth_string. rewrite forallb_app, Hh, andb_true_r. destruct user as [[n pw]|]; [|reflexivity].
  unfold userinfo_string. cbn [fst snd]. rewrite !forallb_app.
  rewrite Q. destruct pw as [p|]; [|reflexivity]. cbn [forallb]. rewrite Q. reflexivity.
Qed.

Lemma auth_string_lacks_slash user h : lacks slash (auth_string user h) = true.
Proof. eapply forallb_impl; [|apply (auth_string_calm user h)]. intros x Hx. unfold calm in Hx. apply andb_true_iff in Hx. tauto. Qed.
Lemma auth_string_inert user h : forallb inert (auth_string user h) = true.
Proof. eapply forallb_impl; [|apply (auth_string_calm user h)]. intros x Hx. unfold calm in Hx. apply andb_true_iff in Hx. tauto. Qed.

(* ================================================================ URL.String after the path was replaced *)
Lemma url_string_owner_w sch user h r d p :
  nonempty sch = true -> nonempty h = true -> rooted_or_empty p = true ->
  nonempty (rawpath_of r d) && opt_bytes_eqb (pct_decode (rawpath_of r d)) p = false ->
  url_string_u (with_path_u (owner_url_w sch user h r d) p) = owner_str (lower sch) (auth_string user h) (path_escape p).
Proof.
  intros Hs Hn Hp Hne.
  unfold url_string_u, with_path_u, owner_url_w, owner_str, escaped_path, auth_string, has_user.
  cbn [uu_scheme uu_opaque uu_user uu_host uu_path uu_rawpath uu_query uu_frag uu_rawfrag uu_omit].
  assert (nonempty (rawpath_of r d) && valid_enc path_noescape (rawpath_of r d)
          && opt_bytes_eqb (pct_decode (rawpath_of r d)) p = false) as ->.
  { apply andb_false_iff in Hne. destruct Hne as [-> | ->]; [reflexivity|apply andb_false_r]. }
  rewrite (rooted_not_star p Hp), Hn, lower_nonempty, Hs. cbn [nonempty orb andb negb app].
  assert (lower sch <> []) as NE by (destruct sch; [discriminate|discriminate]).
  destruct (lower sch) as [|c0 t] eqn:El; [congruence|]. cbn [nonempty andb negb].
  assert (E : match path_escape p with
              | [] => []
              | c :: _ => if negb (Byte.eqb c slash) && true then [slash] else []
              end = []).
  { destruct p as [|x p']; [reflexivity|]. simpl in Hp. apply byte_eqb_eq in Hp. subst x. reflexivity. }
  rewrite E. cbn [app]. rewrite !app_nil_r, <- !app_assoc. reflexivity.
Qed.

(* ================================================================ Split after IRIf *)
Lemma split_join_w sch au r user h c :
  owner_ok_w sch au r = true -> parse_authority au = Some (user, h) -> host_stable h = true -> name_ok_u c = true ->
  exists o', split_u (irif (owner_str sch au r) c) = Some (o', c)
             /\ iri_equ o' (owner_str sch au r) true = true.
Proof.
  intros H PA St Hc. destruct (name_parts_u _ Hc) as [C1 [C2 [C3 [C5 C6]]]].
  destruct (owner_ok_w_parts _ _ _ H) as [[c0 [t [Es Ha]]] [Hs [Hsl [Hia [[user' [h' [PA' Hn]]] [Hr [Hch [d Hd]]]]]]]].
  rewrite PA in PA'. inversion PA'; subst user' h'. clear PA'.
  destruct (irif_owner_w _ _ _ _ _ H Hd Hc) as [j [D' [Hj [E1 [E2 [_ [ED [Ok2 Dec2]]]]]]]].
  assert (Hal : (match sch with c0 :: _ => is_alpha c0 | [] => false end) = true) by (subst sch; exact Ha).
  destruct (lower_scheme_ok sch Hal Hs) as [L1 L2].
  assert (Rd : rooted_or_empty d = true) by (apply (pct_decode_rooted r d Hd Hr)).
  assert (RD : rooted_or_empty (D' ++ [slash]) = true) by (rewrite <- ED; apply rooted_slashes; exact Rd).
  unfold split_u, coll_split_u, coll_split_with. rewrite E1.
  assert (owner_str sch au (r ++ repeat slash j ++ c) <> []) as NE by (subst sch; discriminate).
  destruct (owner_str sch au (r ++ repeat slash j ++ c)) eqn:EO; [congruence|]. rewrite <- EO. clear EO NE.
  rewrite (parse_owner_w _ _ _ _ _ _ Ok2 PA Dec2). cbn [owner_url_w uu_path].
  replace ((D' ++ [slash]) ++ c) with (D' ++ slash :: c) by (rewrite <- app_assoc; reflexivity).
  rewrite (path_split_app D' c C1).
  destruct (D' ++ [slash]) as [|y DD] eqn:EE; [destruct D'; discriminate|]. rewrite <- EE in *. rewrite C5.
  eexists. split; [reflexivity|].
  replace (D' ++ slash :: c) with ((D' ++ [slash]) ++ c) by (rewrite <- app_assoc; reflexivity).
  change {| uu_scheme := lower sch; uu_opaque := []; uu_user := user; uu_host := h; uu_path := (D' ++ [slash]) ++ c;
            uu_rawpath := rawpath_of (r ++ repeat slash j ++ c) ((D' ++ [slash]) ++ c);
            uu_query := None; uu_frag := []; uu_rawfrag := []; uu_omit := false |}
    with (owner_url_w sch user h (r ++ repeat slash j ++ c) ((D' ++ [slash]) ++ c)).
  rewrite url_string_owner_w.
  2:{ subst sch. reflexivity. }
  2:{ exact Hn. }
  2:{ apply rooted_trim. exact RD. }
  2:{ apply (rawpath_not_new _ _ D' c eq_refl Dec2). }
  apply (owners_equivalent_w (lower sch) sch (auth_string user h) au user user h _ r (trim_right_byte slash (D' ++ [slash])) d).
  - apply (owner_ok_w_intro _ _ _ user h (trim_right_byte slash (D' ++ [slash]))); try assumption.
    + apply auth_string_lacks_slash.
    + apply auth_string_inert.
    + apply auth_string_parse. exact St.
    + pose proof (rooted_trim _ RD) as RT. destruct (trim_right_byte slash (D' ++ [slash])) as [|x tt]; [reflexivity|].
      simpl in RT. apply byte_eqb_eq in RT. subst x. reflexivity.
    + apply path_escape_inert.
    + apply path_escape_roundtrip.
  - exact H.
  - apply auth_string_parse. exact St.
  - exact PA.
  - apply path_escape_roundtrip.
  - exact Hd.
  - apply fold_eqb_eq. apply lower_idem.
  - rewrite (clean_trim _ RD). rewrite <- ED. apply (clean_url_path_slashes d j Rd).
Qed.

(* ================================================================ OfActor after IRIf *)
Lemma trim_owner_w sch au r : owner_ok_w sch au r = true ->
  trim_right_byte slash (owner_str sch au r) = owner_str sch au (trim_right_byte slash r).
Proof.
  intros H. destruct (owner_ok_w_parts _ _ _ H) as [_ [_ [Hsl [_ [[user [h [PA Hn]]] _]]]]].
  destruct (auth_last au user h PA Hn Hsl) as [au' [x [E Ex]]]. subst au.
  unfold owner_str.
  replace (sch ++ B "://" ++ (au' ++ [x]) ++ r) with (((sch ++ B "://" ++ au') ++ [x]) ++ r) by (rewrite <- !app_assoc; reflexivity).
  rewrite (trim_right_keep slash _ x r Ex). rewrite <- !app_assoc. reflexivity.
Qed.

Lemma owner_trim_ok_w sch au r d : owner_ok_w sch au r = true -> pct_decode r = Some d ->
  exists da k, owner_ok_w sch au (trim_right_byte slash r) = true /\ pct_decode (trim_right_byte slash r) = Some da
               /\ d = da ++ repeat slash k /\ rooted_or_empty da = true.
Proof.
  intros H Hd. destruct (owner_ok_w_parts _ _ _ H) as [[c0 [t [Es Ha]]] [Hs [Hsl [Hia [[user [h [PA Hn]]] [Hr [Hch _]]]]]]].
  destruct (trim_right_suffix slash r) as [k Ek].
  assert (Hd2 := Hd). rewrite Ek in Hd2. apply pct_decode_slashes in Hd2. destruct Hd2 as [da [Hda Ed]].
  exists da, k. pose proof (rooted_trim _ Hr) as RT.
  assert (Rda : rooted_or_empty da = true) by (apply (pct_decode_rooted _ _ Hda RT)).
  repeat split; try assumption.
  apply (owner_ok_w_intro _ _ _ user h da); try assumption.
  - subst sch. exact Ha.
  - rewrite Ek in Hch. apply forallb_app_l in Hch. exact Hch.
Qed.

Lemma trimmed_equivalent_w sch au r : owner_ok_w sch au r = true ->
  owner_ok_w sch au (trim_right_byte slash r) = true /\
  iri_equ (owner_str sch au (trim_right_byte slash r)) (owner_str sch au r) true = true.
Proof.
  intros H. destruct (owner_ok_w_parts _ _ _ H) as [_ [_ [_ [_ [[user [h [PA Hn]]] [_ [_ [d Hd]]]]]]]].
  destruct (owner_trim_ok_w _ _ _ _ H Hd) as [da [k [Ok2 [Hda [Ed Rda]]]]]. split; [exact Ok2|].
  apply (owners_equivalent_w sch sch au au user user h _ r da d Ok2 H PA PA Hda Hd (fold_eqb_refl sch)).
  rewrite Ed. symmetry. apply clean_url_path_slashes. exact Rda.
Qed.

Lemma of_actor_join_w sch au r c : owner_ok_w sch au r = true -> name_ok_u c = true ->
  exists o', of_actor_u c (irif (owner_str sch au r) c) = Ok o'
             /\ iri_equ o' (owner_str sch au r) true = true.
Proof.
  intros H Hc. destruct (name_parts_u _ Hc) as [C1 _].
  destruct (owner_ok_w_parts _ _ _ H) as [_ [_ [_ [_ [_ [Hr [_ [d Hd]]]]]]]].
  destruct (irif_owner_w _ _ _ _ _ H Hd Hc) as [j [D' [Hj [_ [E2 [[X' EX] _]]]]]].
  unfold of_actor_u, of_actor_with. rewrite E2, EX.
  replace ((X' ++ [slash]) ++ c) with (X' ++ slash :: c) by (rewrite <- app_assoc; reflexivity).
  rewrite (path_split_app X' c C1). rewrite name_eqb_refl. eexists. split; [reflexivity|].
  rewrite <- EX. rewrite trim_right_repeat. rewrite (trim_owner_w _ _ _ H).
  apply trimmed_equivalent_w. exact H.
Qed.

(* ================================================================ ValidCollectionIRI *)
Lemma split_name_w sch au r c : owner_ok_w sch au r = true -> name_ok_u c = true ->
  exists o', split_u (irif (owner_str sch au r) c) = Some (o', c).
Proof.
  (* the name Split hands out does not depend on how URL.String prints the authority *)
  intros H Hc. destruct (name_parts_u _ Hc) as [C1 [C2 [C3 [C5 C6]]]].
  destruct (owner_ok_w_parts _ _ _ H) as [_ [_ [_ [_ [[user [h [PA Hn]]] [Hr [_ [d Hd]]]]]]]].
  destruct (irif_owner_w _ _ _ _ _ H Hd Hc) as [j [D' [Hj [E1 [E2 [_ [ED [Ok2 Dec2]]]]]]]].
  unfold split_u, coll_split_u, coll_split_with. rewrite E1.
  assert (owner_str sch au (r ++ repeat slash j ++ c) <> []) as NE.
  { destruct (owner_ok_w_parts _ _ _ H) as [[c0 [t [Es _]]] _]. subst sch. discriminate. }
  destruct (owner_str sch au (r ++ repeat slash j ++ c)) eqn:EO; [congruence|]. rewrite <- EO. clear EO NE.
  rewrite (parse_owner_w _ _ _ _ _ _ Ok2 PA Dec2). cbn [owner_url_w uu_path].
  replace ((D' ++ [slash]) ++ c) with (D' ++ slash :: c) by (rewrite <- app_assoc; reflexivity).
  rewrite (path_split_app D' c C1).
  destruct (D' ++ [slash]) as [|y DD] eqn:EE; [destruct D'; discriminate|]. rewrite C5.
  eexists. reflexivity.
Qed.

Lemma valid_join_w sch au r c : owner_ok_w sch au r = true -> name_ok_u c = true ->
  valid_collection_iri_u (irif (owner_str sch au r) c) = Some true.
Proof.
  intros H Hc. destruct (split_name_w _ _ _ _ H Hc) as [o' E].
  unfold valid_collection_iri_u, valid_collection_iri_w. change (coll_split_with (contains_with name_eqb) tl_ActivityPubCollections) with split_u.
  rewrite E. destruct (name_parts_u _ Hc) as [_ [_ [_ [_ C6]]]]. unfold valid_collection_u in C6. rewrite C6. reflexivity.
Qed.

Lemma valid_owner_w sch au r d : owner_ok_w sch au r = true -> pct_decode r = Some d ->
  valid_collection_iri_u (owner_str sch au r) = Some (contains_u tl_ActivityPubCollections (snd (path_split d))).
Proof.
  intros H Hd. unfold valid_collection_iri_u, valid_collection_iri_w, coll_split_with. change (contains_with name_eqb) with contains_u. change (valid_collection_w name_eqb) with valid_collection_u.
  destruct (owner_ok_w_parts _ _ _ H) as [[c0 [t [Es _]]] [_ [_ [_ [[user [h [PA Hn]]] [Hr _]]]]]].
  assert (owner_str sch au r <> []) as NE by (subst sch; discriminate).
  destruct (owner_str sch au r) eqn:EO; [congruence|]. rewrite <- EO. clear EO NE.
  rewrite (parse_owner_w _ _ _ _ _ _ H PA Hd). cbn [owner_url_w uu_path].
  pose proof (pct_decode_rooted _ _ Hd Hr) as Rd.
  destruct (path_split d) as [dir file] eqn:E. destruct (path_split_spec _ _ _ E) as [S1 [S2 S3]]. cbn [snd].
  destruct dir as [|y dir'].
  - simpl in S1. subst d. destruct file as [|x f']; [reflexivity|].
    simpl in Rd. apply byte_eqb_eq in Rd. subst x. simpl in S2. discriminate.
  - destruct (contains_u tl_ActivityPubCollections file) eqn:C.
    + rewrite (contains_u_valid _ C). reflexivity.
    + reflexivity.
Qed.

(* ================================================================ the grammar IS the domain of the property *)
(* "an absolute URL without query or fragment": url.Parse gives it a scheme and a host (what IRI.URL and validURL
   ask), the string holds no "?" and no "#" *)
Definition owner_dom_w (o : bytes) : bool :=
  lacks qmark o && lacks hash o && match url_classify_u o with UValid _ => true | _ => false end.
(* its host as URL.Host has it (decoded; brackets, zone and port included) *)
Definition owner_host_w (o : bytes) : bytes := match url_classify_u o with UValid u => u_host u | _ => [] end.
Definition owner_path_w (o : bytes) : bytes := match url_classify_u o with UValid u => u_path u | _ => [] end.

(* core_valid_struct of Proofs/UrlUP.v, keeping the authority whole *)
Lemma core_valid_auth via nofrag u0 :
  url_parse_core via nofrag = UUrl u0 -> nonempty (uu_scheme u0) = true -> nonempty (uu_host u0) = true ->
  exists sch au rp qo,
    nofrag = sch ++ B "://" ++ au ++ rp ++ tail_of qmark qo /\
    forallb is_scheme_char sch = true /\ match sch with c0 :: _ => is_alpha c0 = true | [] => False end /\
    notin slash au = true /\ (rp = [] \/ exists p, rp = slash :: p) /\
    parse_authority au = Some (uu_user u0, uu_host u0) /\ pct_decode rp = Some (uu_path u0) /\
    existsb is_ctl nofrag = false.
Proof.
  unfold url_parse_core. destruct (existsb is_ctl nofrag) eqn:Ctl; [discriminate|].
  destruct (via && negb (nonempty nofrag)); [discriminate|].
  destruct (bytes_eqb nofrag [star]); [intros H; inversion H; subst; discriminate|].
  destruct (get_scheme nofrag) as [|sch0 rest0] eqn:G; [discriminate|].
  destruct (IriNfP.cut_byte_spec qmark rest0) as [Nq Eq]. destruct (cut_byte qmark rest0) as [rest query]. cbn [fst snd] in Nq, Eq.
  rewrite lower_nonempty.
  destruct (nonempty sch0) eqn:Ns.
  2:{ intros H Hs Hh. exfalso. destruct sch0; [|discriminate]. unfold set_path in H.
      repeat match type of H with
             | (if ?c then _ else _) = _ => destruct c
             | (let '(_, _) := ?c in _) = _ => destruct c
             | match ?c with _ => _ end = _ => destruct c
             end; try discriminate; inversion H; subst u0; discriminate. }
  assert (Hne : sch0 <> []) by (destruct sch0; [discriminate|congruence]).
  destruct (get_scheme_spec _ _ _ G Hne) as [Es Hsch].
  destruct (is_prefix [slash] rest) eqn:R; cbn [negb andb orb].
  2:{ intros H _ Hh. inversion H; subst u0. discriminate. }
  destruct (is_prefix (B "//") rest) eqn:R2.
  2:{ intros H _ Hh. unfold set_path in H. destruct (pct_decode rest); [|discriminate]. inversion H; subst u0. discriminate. }
  destruct (IriNfP.cut_byte_spec slash (skipn 2 rest)) as [Nsl Esl].
  destruct (cut_byte slash (skipn 2 rest)) as [au pr]. cbn [fst snd] in Nsl, Esl.
  destruct (parse_authority au) as [[user h]|] eqn:PA; [|discriminate].
  unfold set_path. cbn [uu_scheme uu_opaque uu_user uu_host uu_query uu_frag uu_rawfrag uu_omit].
  match goal with |- context [pct_decode ?x] => destruct (pct_decode x) as [d|] eqn:PD end; [|discriminate].
  intros H _ _. inversion H; subst u0; clear H. cbn [uu_scheme uu_host uu_path uu_query uu_user].
  exists sch0, au, (tail_of slash pr), query.
  pose proof (is_prefix_2 _ _ _ R2) as Er. rewrite Esl in Er.
  split; [rewrite Es, Eq, Er; simpl; rewrite <- !app_assoc; reflexivity|].
  split; [exact Hsch|]. split; [exact (get_scheme_alpha _ _ _ G Hne)|]. split; [exact Nsl|].
  split; [destruct pr as [p0|]; [right; exists p0; reflexivity|left; reflexivity]|].
  split; [exact PA|]. split; [destruct pr; exact PD|]. reflexivity.
Qed.

Lemma lacks_no_tail c x o : lacks c (x ++ tail_of c o) = true -> o = None.
Proof.
  destruct o as [y|]; [|reflexivity]. rewrite lacks_app. cbn [tail_of]. unfold lacks at 2. cbn [forallb].
  rewrite byte_eqb_refl. cbn [negb andb]. rewrite andb_false_r. discriminate.
Qed.

Lemma inert_of s : lacks qmark s = true -> lacks hash s = true -> existsb is_ctl s = false -> forallb inert s = true.
Proof.
  induction s as [|x r IH]; [reflexivity|]. unfold lacks. cbn [forallb existsb].
  rewrite !andb_true_iff, orb_false_iff. intros [Q1 Q2] [H1 H2] [C1 C2].
  split; [|apply IH; assumption]. unfold inert. rewrite Q1, H1, C1. reflexivity.
Qed.

(* every owner of the domain reads  scheme "://" authority path  with the grammar's conditions *)
Lemma owner_dom_w_struct o : owner_dom_w o = true ->
  exists sch au r, o = owner_str sch au r /\ owner_ok_w sch au r = true.
Proof.
  unfold owner_dom_w. rewrite !andb_true_iff. intros [[Hq Hh] Hc].
  unfold url_classify_u in Hc. destruct o as [|c0 o0]; [discriminate|]. remember (c0 :: o0) as o eqn:Ho. clear Ho.
  unfold url_parse_u in Hc. rewrite (cut_byte_none hash o Hh) in Hc.
  destruct (url_parse_core false o) as [u0| |] eqn:PC; try discriminate.
  destruct (nonempty (uu_scheme u0)) eqn:N1; [|discriminate]. destruct (nonempty (uu_host u0)) eqn:N2; [|discriminate].
  destruct (core_valid_auth false o u0 PC N1 N2) as [sch [au [rp [qo [Eo [Hs [Ha [Nsl [Hroot [PA [Dp Ctl]]]]]]]]]]].
  assert (qo = None).
  { rewrite Eo in Hq. rewrite !app_assoc in Hq. apply lacks_no_tail in Hq. exact Hq. }
  subst qo. cbn [tail_of] in Eo. rewrite app_nil_r in Eo.
  exists sch, au, rp. split; [exact Eo|].
  pose proof (inert_of o Hq Hh Ctl) as I. rewrite Eo in I. rewrite !forallb_app in I.
  apply andb_true_iff in I. destruct I as [_ I]. apply andb_true_iff in I. destruct I as [_ I]. apply andb_true_iff in I. destruct I as [Ia Ir].
  apply (owner_ok_w_intro sch au rp (uu_user u0) (uu_host u0) (uu_path u0)); try assumption.
  - destruct sch as [|x t]; [destruct Ha|exact Ha].
  - destruct Hroot as [->|[p ->]]; [reflexivity|]. simpl. apply byte_eqb_refl.
Qed.

(* and conversely *)
Lemma owner_ok_w_dom sch au r : owner_ok_w sch au r = true -> owner_dom_w (owner_str sch au r) = true.
Proof.
  intros H. destruct (owner_ok_w_parts _ _ _ H) as [_ [Hs [_ [Hia [[user [h [PA _]]] [_ [Hi [d Hd]]]]]]]].
  assert (Is : forallb inert sch = true).
  { eapply forallb_impl; [|exact Hs]. intros x Hx. apply scheme_char_facts in Hx. tauto. }
  assert (Iall : forallb inert (owner_str sch au r) = true).
  { unfold owner_str. rewrite !forallb_app, Is, Hia, Hi, sep_inert. reflexivity. }
  unfold owner_dom_w. rewrite (inert_lacks_qmark _ Iall), (inert_lacks_hash _ Iall), (classify_owner_w _ _ _ _ _ _ H PA Hd). reflexivity.
Qed.

Lemma owner_host_w_str sch au r user h : owner_ok_w sch au r = true -> parse_authority au = Some (user, h) ->
  owner_host_w (owner_str sch au r) = h.
Proof.
  intros H PA. destruct (owner_ok_w_parts _ _ _ H) as [_ [_ [_ [_ [_ [_ [_ [d Hd]]]]]]]].
  unfold owner_host_w. rewrite (classify_owner_w _ _ _ _ _ _ H PA Hd). reflexivity.
Qed.

Lemma owner_path_w_str sch au r d : owner_ok_w sch au r = true -> pct_decode r = Some d ->
  owner_path_w (owner_str sch au r) = d.
Proof.
  intros H Hd. destruct (owner_ok_w_parts _ _ _ H) as [_ [_ [_ [_ [[user [h [PA _]]] _]]]]].
  unfold owner_path_w. rewrite (classify_owner_w _ _ _ _ _ _ H PA Hd). reflexivity.
Qed.

(* ================================================================ statements in the form used by Props/C15.v *)
Lemma c15w_split_join o c : owner_dom_w o = true -> host_stable (owner_host_w o) = true -> In c tl_ActivityPubCollections ->
  exists o', split_u (irif o c) = Some (o', c) /\ iri_equ o' o true = true /\ iri_equ o o' true = true.
Proof.
  intros Hd St Hc. destruct (owner_dom_w_struct o Hd) as [sch [au [r [E H]]]]. subst o.
  destruct (owner_ok_w_parts _ _ _ H) as [_ [_ [_ [_ [[user [h [PA _]]] _]]]]].
  rewrite (owner_host_w_str _ _ _ _ _ H PA) in St.
  destruct (split_join_w _ _ _ _ _ _ H PA St (names_ok_u c Hc)) as [o' [E1 E2]].
  exists o'. repeat split; [exact E1|exact E2|]. rewrite iri_equ_sym. exact E2.
Qed.

(* the collection name (and that the IRI is split at all) needs nothing of the host *)
Lemma c15w_split_name o c : owner_dom_w o = true -> In c tl_ActivityPubCollections ->
  exists o', split_u (irif o c) = Some (o', c).
Proof.
  intros Hd Hc. destruct (owner_dom_w_struct o Hd) as [sch [au [r [E H]]]]. subst o.
  apply split_name_w; [exact H|apply names_ok_u; exact Hc].
Qed.

Lemma c15w_of_actor o c : owner_dom_w o = true -> In c tl_ActivityPubCollections ->
  exists o', of_actor_u c (irif o c) = Ok o' /\ iri_equ o' o true = true.
Proof.
  intros Hd Hc. destruct (owner_dom_w_struct o Hd) as [sch [au [r [E H]]]]. subst o.
  apply of_actor_join_w; [exact H|apply names_ok_u; exact Hc].
Qed.

Lemma c15w_valid o c : owner_dom_w o = true -> In c tl_ActivityPubCollections ->
  valid_collection_iri_u (irif o c) = Some true.
Proof.
  intros Hd Hc. destruct (owner_dom_w_struct o Hd) as [sch [au [r [E H]]]]. subst o.
  apply valid_join_w; [exact H|apply names_ok_u; exact Hc].
Qed.

Lemma c15w_valid_owner o : owner_dom_w o = true ->
  valid_collection_iri_u o = Some (contains tl_ActivityPubCollections (snd (path_split (owner_path_w o)))).
Proof.
  intros Hd. destruct (owner_dom_w_struct o Hd) as [sch [au [r [E H]]]]. subst o.
  destruct (owner_ok_w_parts _ _ _ H) as [_ [_ [_ [_ [_ [_ [_ [d Hd']]]]]]]].
  rewrite (owner_path_w_str _ _ _ _ H Hd'), (valid_owner_w _ _ _ _ H Hd'), (contains_u_ascii _ _ names_ascii). reflexivity.
Qed.

Lemma c15w_not_valid o : owner_dom_w o = true ->
  contains tl_ActivityPubCollections (snd (path_split (owner_path_w o))) = false ->
  valid_collection_iri_u o = Some false.
Proof. intros Hd Hn. rewrite (c15w_valid_owner o Hd), Hn. reflexivity. Qed.

Lemma c15w_built_is_irif o c : owner_dom_w o = true -> In c tl_ActivityPubCollections ->
  let o2 := trim_right_byte slash o in
  o2 ++ slash :: c = irif o2 c /\ owner_dom_w o2 = true /\ iri_equ o2 o true = true.
Proof.
  intros Hd Hc o2. destruct (owner_dom_w_struct o Hd) as [sch [au [r [E H]]]]. subst o.
  destruct (trimmed_equivalent_w _ _ _ H) as [Ok2 Eq]. unfold o2. rewrite (trim_owner_w _ _ _ H).
  repeat split.
  - rewrite irif_unfold. destruct (irif_sep_owner_w _ _ _ Ok2) as [[_ [r0 E]]|E].
    + exfalso. exact (trim_right_not_end slash r r0 E).
    + rewrite E. reflexivity.
  - apply owner_ok_w_dom. exact Ok2.
  - exact Eq.
Qed.
