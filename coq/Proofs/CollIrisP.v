(* C13, the IRI list: refinement of an insertion-ordered set by IRIs.Append / IRIs.Contains (Model/Coll.v:
   iris_append, iris_contains_item, the CIRIs rows of c_step / c_contains / c_run) over ALL histories.
   The abstract machine is the one of the five item containers (s_mem / s_append of Proofs/CollP.v); the IRI
   list has no Remove, and Remove through its item-list view acts on the copy IRIs.Collection() returns, so an
   OpRemove step is the identity on both sides (si_step).  On histories without OpRemove the specification IS
   s_run (si_run_no_remove); on every history its final state is that of s_step over the history with the
   Remove calls left out (si_final_filter). *)
From AP.Model Require Import Prelude Vocab Pred IriEq Equal Coll.
From AP.Proofs Require Import NlvP IriEqP EqualP CollP.

(* ---- the specification: the same insertion-ordered set, Remove not offered ---- *)
Definition si_step (s : list nat) (o : cop) : list nat :=
  match o with OpAppend i => s_append s i | _ => s end.

Fixpoint si_run (s : list nat) (ops : list cop) : list nat * list (nat * option bool) :=
  match ops with
  | [] => (s, [])
  | o :: r =>
      let s' := si_step s o in
      let out := (length s', match o with OpContains i => Some (s_mem s i) | _ => None end) in
      let '(fin, outs) := si_run s' r in (fin, out :: outs)
  end.

Definition is_remove (o : cop) : bool := match o with OpRemove _ => true | _ => false end.

Lemma si_run_no_remove ops : forallb (fun o => negb (is_remove o)) ops = true ->
  forall s, si_run s ops = s_run s ops.
Proof.
  induction ops as [|o r IH]; intros H s; [reflexivity|].
  simpl in H. apply andb_true_iff in H. destruct H as [Ho Hr].
  simpl. assert (E : si_step s o = s_step s o) by (destruct o; try reflexivity; discriminate).
  rewrite E, (IH Hr). reflexivity.
Qed.

Lemma si_final ops : forall s, fst (si_run s ops) = fold_left si_step ops s.
Proof.
  induction ops as [|o r IH]; intro s; [reflexivity|].
  simpl. rewrite <- IH. destruct (si_run (si_step s o) r). reflexivity.
Qed.

Lemma si_final_filter ops : forall s,
  fold_left si_step ops s = fold_left s_step (filter (fun o => negb (is_remove o)) ops) s.
Proof.
  induction ops as [|o r IH]; intro s; [reflexivity|].
  destruct o as [i|i|i]; simpl; apply IH.
Qed.

Lemma si_trace_length ops : forall s, length (snd (si_run s ops)) = length ops.
Proof.
  induction ops as [|o r IH]; intro s; [reflexivity|].
  simpl. specialize (IH (si_step s o)). destruct (si_run (si_step s o) r). simpl in *. rewrite IH. reflexivity.
Qed.

Lemma wf_si_step n s o : wf n s -> op_idx o < n -> wf n (si_step s o).
Proof. intros Hw Ho. destruct o; simpl in *; [apply wf_append|exact Hw|exact Hw]; assumption. Qed.

(* ---- histories ---- *)
(* From here to the end of module CiGP every lemma is GENERIC in the IRI comparison (builder b47; see Proofs/EqualP.v and
   Proofs/CollP.v); after the module the same names are re-established for iri_eqb by instantiation. *)
Module CiGP.
Section IdRel.
  Variable ideq : bytes -> bytes -> bool -> bool.
  Hypothesis ideq_refl : forall s cs, ideq s s cs = true.
  Hypothesis ideq_sym : forall a b cs, ideq a b cs = ideq b a cs.
  Local Notation items_eqb := (CoG.items_eqb ideq).
  Local Notation iri_member_eqb := (CoG.iri_member_eqb ideq).
  Local Notation ic_contains := (CoG.ic_contains ideq).
  Local Notation ic_append := (CoG.ic_append ideq).
  Local Notation ic_remove := (CoG.ic_remove ideq).
  Local Notation iris_contains_item := (CoG.iris_contains_item ideq).
  Local Notation iris_append := (CoG.iris_append ideq).
  Local Notation c_step := (CoG.c_step ideq).
  Local Notation c_contains := (CoG.c_contains ideq).
  Local Notation c_run := (CoG.c_run ideq).
  Local Notation distinct_pool := (CoGP.distinct_pool ideq).

Section IrisRun.
  Variable pool : list item.
  Let n := length pool.
  Let getl (i : nat) : bytes := lnk (pget pool i).
  (* what the IRI list shows for pool member i: the IRI equal to its id *)
  Definition shown (i : nat) : item := IIri false (lnk (pget pool i)).

  (* the pool: no member is nil-like, no member has a nil-like link (empty or "-": IRIs.Contains answers false
     for those, so Append would add them again and again), and IRI.Equals(., ., false) tells the links of
     distinct members apart (it is reflexive on all strings: IriEqP.ideq_refl) *)
  Hypothesis pool_not_nil : forall i, i < n -> is_nil (pget pool i) = false.
  Hypothesis link_not_nil : forall i, i < n -> is_nil (IIri false (getl i)) = false.
  Hypothesis eq_links : forall i j, i < n -> j < n -> ideq (getl j) (getl i) false = Nat.eqb i j.

  Lemma member_eq : forall i j, i < n -> j < n -> iri_member_eqb (getl i) (getl j) = Nat.eqb i j.
  Proof. intros i j Hi Hj. unfold iri_member_eqb. apply eq_links; assumption. Qed.

  Lemma map_lnk_shown s : map lnk (map shown s) = map getl s.
  Proof. rewrite map_map. reflexivity. Qed.

  Lemma iris_contains_pool s i : Forall (fun j => j < n) s -> i < n ->
    iris_contains_item (map getl s) (pget pool i) = s_mem s i.
  Proof.
    intros Hs Hi. unfold iris_contains_item. rewrite (pool_not_nil i Hi).
    apply (contains_spec bytes iri_member_eqb getl n member_eq); assumption.
  Qed.

  Lemma iris_contains_link s i : Forall (fun j => j < n) s -> i < n ->
    iris_contains_item (map getl s) (IIri false (getl i)) = s_mem s i.
  Proof.
    intros Hs Hi. unfold iris_contains_item. rewrite (link_not_nil i Hi).
    change (lnk (IIri false (getl i))) with (getl i).
    apply (contains_spec bytes iri_member_eqb getl n member_eq); assumption.
  Qed.

  Lemma iris_append_pool s i : Forall (fun j => j < n) s -> i < n ->
    iris_append (map getl s) [pget pool i] = map getl (s_append s i).
  Proof.
    intros Hs Hi. unfold iris_append. cbn [fold_left]. rewrite (pool_not_nil i Hi).
    change (lnk (pget pool i)) with (getl i).
    rewrite (iris_contains_link s i Hs Hi). unfold s_append.
    destruct (s_mem s i); [reflexivity|]. rewrite map_app. reflexivity.
  Qed.

  Lemma iris_step_spec s o : Forall (fun j => j < n) s -> op_idx o < n ->
    c_step pool CIRIs (map shown s) o = map shown (si_step s o).
  Proof.
    intros Hs Ho. destruct o as [i|i|i]; simpl in Ho; try reflexivity.
    cbn [c_step si_step]. rewrite map_lnk_shown.
    change (pget pool i) with (pget pool i). rewrite (iris_append_pool s i Hs Ho).
    unfold iris_collection. rewrite map_map. reflexivity.
  Qed.

  Lemma iris_contains_spec_run s i : Forall (fun j => j < n) s -> i < n ->
    c_contains pool CIRIs (map shown s) i = s_mem s i.
  Proof.
    intros Hs Hi. cbn [c_contains]. rewrite map_lnk_shown. apply iris_contains_pool; assumption.
  Qed.

  Lemma c_run_cons c st o r :
    c_run pool c st (o :: r) =
    (fst (c_run pool c (c_step pool c st o) r),
     (length (c_step pool c st o), match o with OpContains i => Some (c_contains pool c st i) | _ => None end)
       :: snd (c_run pool c (c_step pool c st o) r)).
  Proof. cbn [c_run]. destruct (c_run pool c (c_step pool c st o) r). reflexivity. Qed.

  Lemma si_run_cons s o r :
    si_run s (o :: r) =
    (fst (si_run (si_step s o) r),
     (length (si_step s o), match o with OpContains i => Some (s_mem s i) | _ => None end)
       :: snd (si_run (si_step s o) r)).
  Proof. cbn [si_run]. destruct (si_run (si_step s o) r). reflexivity. Qed.

  Theorem refines_iris ops : Forall (fun o => op_idx o < n) ops ->
    forall s, wf n s ->
    c_run pool CIRIs (map shown s) ops = (map shown (fst (si_run s ops)), snd (si_run s ops)) /\
    wf n (fst (si_run s ops)) /\ fst (si_run s ops) = fold_left si_step ops s.
  Proof.
    intros Hops. induction Hops as [|o r Ho Hr IH]; intros s Hw.
    - simpl. auto.
    - rewrite c_run_cons, si_run_cons. cbn [fst snd fold_left]. destruct Hw as [Hnd Hlt].
      rewrite (iris_step_spec s o Hlt Ho).
      assert (Hw' : wf n (si_step s o)) by (apply wf_si_step; [split|]; assumption).
      destruct (IH (si_step s o) Hw') as [E1 [E2 E3]].
      rewrite E1. cbn [fst snd]. rewrite map_length.
      split; [|split; assumption].
      f_equal. f_equal. f_equal. destruct o; try reflexivity.
      f_equal. apply iris_contains_spec_run; assumption.
  Qed.
End IrisRun.

(* ---- a decidable pool condition, so that concrete pools are checked by vm_compute ---- *)
Definition iris_pool (pool : list item) : bool :=
  forallb (fun x => negb (is_nil x) && negb (is_nil (IIri false (lnk x)))) pool &&
  forallb (fun i => forallb (fun j =>
      Nat.eqb i j || negb (ideq (lnk (pget pool j)) (lnk (pget pool i)) false))
    (seq 0 (length pool))) (seq 0 (length pool)).

Lemma iris_pool_members pool : iris_pool pool = true ->
  forall i, i < length pool ->
  is_nil (pget pool i) = false /\ is_nil (IIri false (lnk (pget pool i))) = false.
Proof.
  intros H i Hi. unfold iris_pool in H. apply andb_true_iff in H. destruct H as [H _].
  rewrite forallb_forall in H. specialize (H (pget pool i) (nth_In _ _ Hi)).
  apply andb_true_iff in H. destruct H as [H1 H2].
  apply negb_true_iff in H1. apply negb_true_iff in H2. split; assumption.
Qed.

Lemma iris_pool_eq pool : iris_pool pool = true ->
  forall i j, i < length pool -> j < length pool ->
  ideq (lnk (pget pool j)) (lnk (pget pool i)) false = Nat.eqb i j.
Proof.
  intros H i j Hi Hj. unfold iris_pool in H. apply andb_true_iff in H. destruct H as [_ H].
  destruct (Nat.eqb i j) eqn:E.
  - apply Nat.eqb_eq in E. subst. apply ideq_refl.
  - rewrite forallb_forall in H. specialize (H i). rewrite in_seq in H.
    specialize (H (conj (Nat.le_0_l _) Hi)). rewrite forallb_forall in H. specialize (H j).
    rewrite in_seq in H. specialize (H (conj (Nat.le_0_l _) Hj)). rewrite E in H. simpl in H.
    apply negb_true_iff in H. exact H.
Qed.

Theorem refines_iris_pool pool ops :
  iris_pool pool = true -> Forall (fun o => op_idx o < length pool) ops ->
  c_run pool CIRIs [] ops = (map (shown pool) (fold_left si_step ops []), snd (si_run [] ops)) /\
  NoDup (fold_left si_step ops []).
Proof.
  intros Hp Hops.
  destruct (refines_iris pool
              (fun i Hi => proj1 (iris_pool_members pool Hp i Hi))
              (fun i Hi => proj2 (iris_pool_members pool Hp i Hi))
              (iris_pool_eq pool Hp) ops Hops []) as [E1 [[E2 _] E3]].
  { split; constructor. }
  simpl in E1. rewrite <- E3. split; [exact E1|exact E2].
Qed.

(* the pools of the item containers (distinct_pool: DESIGN Appendix A, "items of distinct identity") are pools
   for the IRI list as soon as every member has a link that is not nil-like (an id-less object has no place in
   a list of IRIs) *)
Lemma distinct_pool_iris pool :
  distinct_pool pool = true ->
  forallb (fun x => negb (is_nil (IIri false (lnk x)))) pool = true ->
  iris_pool pool = true.
Proof.
  intros Hd Hl. unfold iris_pool. apply andb_true_iff. split.
  - apply forallb_forall. intros x Hx. apply andb_true_iff. split.
    + unfold distinct_pool in Hd. apply andb_true_iff in Hd. destruct Hd as [H1 _].
      rewrite forallb_forall in H1. specialize (H1 x Hx).
      destruct x as [| | p s | p k fs | |]; try discriminate; [exact H1|reflexivity].
    + rewrite forallb_forall in Hl. apply Hl. exact Hx.
  - unfold distinct_pool in Hd. apply andb_true_iff in Hd. destruct Hd as [_ H2].
    apply forallb_forall. intros i Hi. apply forallb_forall. intros j Hj.
    rewrite forallb_forall in H2. specialize (H2 i Hi). rewrite forallb_forall in H2. specialize (H2 j Hj).
    destruct (Nat.eqb i j); [reflexivity|]. simpl in *.
    apply andb_true_iff in H2. destruct H2 as [F _]. rewrite ideq_sym. exact F.
Qed.

(* the sentences of the property on the append-only specification *)
End IdRel.
End CiGP.

Notation shown := CiGP.shown.
Notation iris_pool := (CiGP.iris_pool iri_eqb).
Definition member_eq := ltac:(inst_co CiGP.member_eq).
Definition map_lnk_shown := ltac:(inst_co CiGP.map_lnk_shown).
Definition iris_contains_pool := ltac:(inst_co CiGP.iris_contains_pool).
Definition iris_contains_link := ltac:(inst_co CiGP.iris_contains_link).
Definition iris_append_pool := ltac:(inst_co CiGP.iris_append_pool).
Definition iris_step_spec := ltac:(inst_co CiGP.iris_step_spec).
Definition iris_contains_spec_run := ltac:(inst_co CiGP.iris_contains_spec_run).
Definition c_run_cons := ltac:(inst_co CiGP.c_run_cons).
Definition si_run_cons := ltac:(inst_co CiGP.si_run_cons).
Definition refines_iris := ltac:(inst_co CiGP.refines_iris).
Definition iris_pool_members := ltac:(inst_co CiGP.iris_pool_members).
Definition iris_pool_eq := ltac:(inst_co CiGP.iris_pool_eq).
Definition refines_iris_pool := ltac:(inst_co CiGP.refines_iris_pool).
Definition distinct_pool_iris := ltac:(inst_co CiGP.distinct_pool_iris).

Lemma si_step_nodup n s o : wf n s -> op_idx o < n -> NoDup (si_step s o).
Proof. intros H Ho. exact (proj1 (wf_si_step n s o H Ho)). Qed.
