(* Refinement of an insertion-ordered set by the list functions of Model/Coll.v, over histories,
   parametric in the membership test; instantiation with the C09 model of ItemsEqual and with IRI.Equals. *)
From AP.Model Require Import Prelude Vocab Pred IriEq Equal Coll.
From AP.Proofs Require Import NlvP IriEqP EqualP.

(* ---- the specification: an insertion-ordered set of pool indices ---- *)
Definition s_mem (s : list nat) (i : nat) : bool := existsb (fun j => Nat.eqb j i) s.
Definition s_append (s : list nat) (i : nat) : list nat := if s_mem s i then s else s ++ [i].
Definition s_remove (s : list nat) (i : nat) : list nat := filter (fun j => negb (Nat.eqb j i)) s.
Definition s_step (s : list nat) (o : cop) : list nat :=
  match o with OpAppend i => s_append s i | OpRemove i => s_remove s i | OpContains _ => s end.
Definition op_idx (o : cop) : nat := match o with OpAppend i | OpRemove i | OpContains i => i end.

Lemma s_mem_in s i : s_mem s i = true <-> In i s.
Proof.
  unfold s_mem. rewrite existsb_exists. split.
  - intros [j [Hj E]]. apply Nat.eqb_eq in E. subst. exact Hj.
  - intro H. exists i. split; [exact H|apply Nat.eqb_refl].
Qed.

Section Refine.
  Variable A : Type.
  Variable eqA : A -> A -> bool.
  Variable get : nat -> A.
  Variable n : nat.
  (* reflexive on the pool, false on distinct pool members *)
  Hypothesis eq_pool : forall i j, i < n -> j < n -> eqA (get i) (get j) = Nat.eqb i j.

  Definition wf (s : list nat) : Prop := NoDup s /\ Forall (fun j => j < n) s.

  Lemma contains_spec s i : Forall (fun j => j < n) s -> i < n ->
    g_contains A eqA (map get s) (get i) = s_mem s i.
  Proof.
    intros Hs Hi. unfold g_contains, s_mem. induction s as [|j t IH]; [reflexivity|].
    inversion Hs; subst. simpl. rewrite eq_pool by assumption. rewrite IH by assumption. reflexivity.
  Qed.

  Lemma append1_spec s i : Forall (fun j => j < n) s -> i < n ->
    g_append1 A eqA (map get s) (get i) = map get (s_append s i).
  Proof.
    intros Hs Hi. unfold g_append1, s_append. rewrite contains_spec by assumption.
    destruct (s_mem s i); [reflexivity|]. rewrite map_app. reflexivity.
  Qed.

  Lemma last_idx_spec s i : wf s -> i < n ->
    match g_last_idx A eqA (map get s) (get i) with
    | None => s_remove s i = s
    | Some k => k < length s /\ In i s /\
                firstn k (map get s) ++ skipn (S k) (map get s) = map get (s_remove s i)
    end.
  Proof.
    intros [Hnd Hlt] Hi. induction s as [|j t IH]; [reflexivity|].
    inversion Hnd as [|? ? Hnotin Hnd']; subst. inversion Hlt as [|? ? Hj Hlt']; subst.
    specialize (IH Hnd' Hlt'). simpl g_last_idx. simpl map.
    destruct (g_last_idx A eqA (map get t) (get i)) as [k|].
    - destruct IH as [Hk [Hin E]].
      assert (Hne : (j =? i) = false) by (apply Nat.eqb_neq; intro; subst; contradiction).
      split; [simpl; lia|]. split; [right; exact Hin|].
      rewrite firstn_cons, skipn_cons. unfold s_remove. cbn [filter]. rewrite Hne. cbn [negb map].
      rewrite <- app_comm_cons. f_equal. exact E.
    - rewrite eq_pool by assumption. unfold s_remove in *. cbn [filter]. rewrite (Nat.eqb_sym j i).
      destruct (i =? j) eqn:E.
      + apply Nat.eqb_eq in E. subst. split; [simpl; lia|]. split; [left; reflexivity|].
        cbn [firstn app negb]. rewrite skipn_cons. cbn [skipn]. rewrite IH. reflexivity.
      + cbn [negb]. rewrite IH. reflexivity.
  Qed.

  Lemma remove_spec s i : wf s -> i < n ->
    g_remove A eqA (map get s) (get i) = map get (s_remove s i).
  Proof.
    intros Hw Hi. unfold g_remove. pose proof (last_idx_spec s i Hw Hi) as H.
    destruct (g_last_idx A eqA (map get s) (get i)) as [k|].
    - destruct H as [Hk [_ E]]. rewrite map_length.
      destruct (k <? length s - 1) eqn:L; [exact E|].
      apply Nat.ltb_ge in L. rewrite <- E.
      assert (Hs : skipn (S k) (map get s) = []).
      { apply skipn_all2. rewrite map_length. lia. }
      rewrite Hs, app_nil_r. reflexivity.
    - rewrite H. reflexivity.
  Qed.

  Lemma wf_append s i : wf s -> i < n -> wf (s_append s i).
  Proof.
    intros [Hnd Hlt] Hi. unfold s_append. destruct (s_mem s i) eqn:E; [split; assumption|].
    split.
    - assert (Hn : ~ In i s) by (intro H; apply s_mem_in in H; congruence).
      clear -Hnd Hn. induction s as [|a t IH]; simpl.
      + constructor; [intros []|constructor].
      + inversion Hnd; subst. constructor.
        * intro H. apply in_app_or in H. destruct H as [H|[H|[]]]; [contradiction|]. subst. apply Hn. left. reflexivity.
        * apply IH; [assumption|]. intro H. apply Hn. right. exact H.
    - apply Forall_app. split; [assumption|]. constructor; [assumption|constructor].
  Qed.

  Lemma wf_remove s i : wf s -> wf (s_remove s i).
  Proof.
    intros [Hnd Hlt]. unfold s_remove. split.
    - apply NoDup_filter. exact Hnd.
    - apply Forall_forall. intros x Hx. apply filter_In in Hx. destruct Hx as [Hx _].
      rewrite Forall_forall in Hlt. apply Hlt. exact Hx.
  Qed.

  Lemma wf_step s o : wf s -> op_idx o < n -> wf (s_step s o).
  Proof. intros Hw Ho. destruct o; simpl in *; [apply wf_append|apply wf_remove|]; assumption. Qed.
End Refine.

(* ---- the five sentences of the property, on the specification ---- *)
Lemma s_append_present s i : s_mem s i = true -> s_append s i = s.
Proof. unfold s_append. intros ->. reflexivity. Qed.

Lemma s_append_contained s i : s_mem (s_append s i) i = true.
Proof.
  unfold s_append. destruct (s_mem s i) eqn:E; [exact E|].
  apply s_mem_in. apply in_or_app. right. left. reflexivity.
Qed.

Lemma s_remove_absent s i : s_mem (s_remove s i) i = false.
Proof.
  destruct (s_mem (s_remove s i) i) eqn:E; [|reflexivity].
  apply s_mem_in in E. unfold s_remove in E. apply filter_In in E. destruct E as [_ E].
  rewrite Nat.eqb_refl in E. discriminate.
Qed.

Lemma s_remove_other s i j : i <> j -> s_mem (s_remove s i) j = s_mem s j.
Proof.
  intro H. destruct (s_mem s j) eqn:E.
  - apply s_mem_in. apply s_mem_in in E. unfold s_remove. apply filter_In. split; [exact E|].
    apply negb_true_iff. apply Nat.eqb_neq. congruence.
  - destruct (s_mem (s_remove s i) j) eqn:E2; [|reflexivity].
    apply s_mem_in in E2. unfold s_remove in E2. apply filter_In in E2. destruct E2 as [E2 _].
    apply s_mem_in in E2. congruence.
Qed.

Lemma s_append_other s i j : i <> j -> s_mem (s_append s i) j = s_mem s j.
Proof.
  intro H. unfold s_append. destruct (s_mem s i); [reflexivity|].
  unfold s_mem. rewrite existsb_app. simpl. replace (i =? j) with false by (symmetry; apply Nat.eqb_neq; exact H).
  rewrite !orb_false_r. reflexivity.
Qed.

(* members keep first-insertion order: every step keeps the relative order of the members that stay,
   and a new member goes to the end *)
Definition keeps_order (s s' : list nat) : Prop :=
  forall a b l1 l2 l3, s' = l1 ++ a :: l2 ++ b :: l3 -> In a s -> In b s ->
  exists m1 m2 m3, s = m1 ++ a :: m2 ++ b :: m3.

Lemma filter_split (f : nat -> bool) s a l1 r :
  filter f s = l1 ++ a :: r -> exists m1 m2, s = m1 ++ a :: m2 /\ filter f m1 = l1 /\ filter f m2 = r.
Proof.
  revert l1. induction s as [|x t IH]; intros l1 H; simpl in H.
  - destruct l1; discriminate.
  - destruct (f x) eqn:E.
    + destruct l1 as [|y l1]; simpl in H.
      * injection H as Hx Ht. subst. exists [], t. simpl. auto.
      * injection H as Hx Ht. subst y. destruct (IH l1 Ht) as [m1 [m2 [E1 [E2 E3]]]]. subst t.
        exists (x :: m1), m2. simpl. rewrite E, E2. auto.
    + destruct (IH l1 H) as [m1 [m2 [E1 [E2 E3]]]]. subst t. exists (x :: m1), m2. simpl. rewrite E. auto.
Qed.

Lemma s_step_keeps_order s o : NoDup s -> keeps_order s (s_step s o).
Proof.
  intros Hnd a b l1 l2 l3 E Ha Hb. destruct o as [i|i|i]; simpl in E.
  - unfold s_append in E. destruct (s_mem s i) eqn:M; [eauto|].
    (* s ++ [i] = l1 ++ a :: l2 ++ b :: l3 with b in s: the split lies inside s *)
    assert (Hni : ~ In i s) by (intro H; apply s_mem_in in H; congruence).
    assert (L : l3 <> []).
    { intro; subst. replace (l1 ++ a :: l2 ++ [b]) with ((l1 ++ a :: l2) ++ [b]) in E
        by (rewrite <- app_assoc; reflexivity).
      apply app_inj_tail in E. destruct E as [_ E]. subst. contradiction. }
    destruct (exists_last L) as [l3' [z Ez]]. subst l3.
    replace (l1 ++ a :: l2 ++ b :: l3' ++ [z]) with ((l1 ++ a :: l2 ++ b :: l3') ++ [z]) in E.
    + apply app_inj_tail in E. destruct E as [E _]. eauto.
    + rewrite <- !app_assoc. simpl. rewrite <- !app_assoc. reflexivity.
  - unfold s_remove in E. apply filter_split in E. destruct E as [m1 [m2 [E1 [_ E3]]]].
    apply filter_split in E3. destruct E3 as [m3 [m4 [E4 _]]]. subst. eauto.
  - eauto.
Qed.

(* From here to the end of module CoGP every lemma is GENERIC in the IRI comparison [ideq a b cs] = a.Equals(b, cs)
   (builder b47; see Proofs/EqualP.v): the definitions are those of module CoG of Model/Coll.v over module EqG of
   Model/Equal.v; reflexivity and symmetry of the comparison is all that is used.  After the module the same names
   are re-established for iri_eqb by instantiation; Proofs/CollUP.v instantiates with iri_equ. *)
Module CoGP.
Section IdRel.
  Variable ideq : bytes -> bytes -> bool -> bool.
  Hypothesis ideq_refl : forall s cs, ideq s s cs = true.
  Hypothesis ideq_sym : forall a b cs, ideq a b cs = ideq b a cs.
  Local Notation items_eqb := (CoG.items_eqb ideq).
  Local Notation iri_member_eqb := (CoG.iri_member_eqb ideq).
  Local Notation ic_contains := (CoG.ic_contains ideq).
  Local Notation ic_append := (CoG.ic_append ideq).
  Local Notation ic_remove := (CoG.ic_remove ideq).
  Local Notation iris_contains_item := (CoG.iris_contains_item ideq).
  Local Notation iris_append := (CoG.iris_append ideq).
  Local Notation c_step := (CoG.c_step ideq).
  Local Notation c_contains := (CoG.c_contains ideq).
  Local Notation c_run := (CoG.c_run ideq).
  Local Notation cmp_one := (EqG.cmp_one ideq).
  Local Notation all_cmp := (EqG.all_cmp ideq).
  Local Notation object_equals := (EqG.object_equals ideq).
  Local Notation equals_method := (EqG.equals_method ideq).
  Local Notation object_branch := (EqG.object_branch ideq).
  Local Notation items_equal_body := (EqG.items_equal_body ideq).
  Local Notation items_equal_c := (EqG.items_equal_c ideq).
  Local Notation items_equal := (EqG.items_equal ideq).
  Local Notation ieq := (EqGI.ieq ideq).
  Local Notation ieq_refl := (EqGP.ieq_refl ideq ideq_refl).
  Local Notation ieq_unfold := (EqGP.ieq_unfold ideq).
  Local Notation ieq_iris := (EqGP.ieq_iris ideq).
  Local Notation ieq_mism := (EqGP.ieq_mism ideq ideq_sym).

(* ---- histories ---- *)
Section Hist.
  Variable pool : list item.
  Let n := length pool.
  Let get := pget pool.
  (* the pool: ItemsEqual is reflexive on it and false between distinct members; no member is the untyped nil *)
  Hypothesis eq_pool : forall i j, i < n -> j < n -> items_eqb (get i) (get j) = Nat.eqb i j.
  Hypothesis pool_not_nil : forall i, i < n -> get i <> INil.

  Definition item_container (c : container) : Prop := c <> CIRIs.

  Lemma c_step_spec c s o : item_container c -> wf n s -> op_idx o < n ->
    c_step pool c (map get s) o = map get (s_step s o).
  Proof.
    intros Hc Hw Ho. destruct Hw as [Hnd Hlt].
    destruct o as [i|i|i]; simpl in Ho.
    - assert (E : c_step pool c (map get s) (OpAppend i) = ic_append (map get s) [get i])
        by (destruct c; try reflexivity; contradiction Hc; reflexivity).
      rewrite E. unfold ic_append, g_append. simpl.
      apply (append1_spec item items_eqb get n eq_pool); assumption.
    - assert (E : c_step pool c (map get s) (OpRemove i) = ic_remove (map get s) (get i))
        by (destruct c; try reflexivity; contradiction Hc; reflexivity).
      rewrite E. unfold ic_remove. destruct s as [|j t]; [reflexivity|]. simpl map at 1.
      pose proof (pool_not_nil i Ho) as Hn.
      assert (R : g_remove item items_eqb (map get (j :: t)) (get i) = map get (s_step (j :: t) (OpRemove i))).
      { apply (remove_spec item items_eqb get n eq_pool); [split; assumption|assumption]. }
      simpl map in R at 1. destruct (get i); try exact R. contradiction Hn. reflexivity.
    - destruct c; reflexivity.
  Qed.

  Lemma c_contains_spec c s i : item_container c -> wf n s -> i < n ->
    c_contains pool c (map get s) i = s_mem s i.
  Proof.
    intros Hc [Hnd Hlt] Hi.
    assert (E : c_contains pool c (map get s) i = ic_contains (map get s) (get i))
      by (destruct c; try reflexivity; contradiction Hc; reflexivity).
    rewrite E. apply (contains_spec item items_eqb get n eq_pool); assumption.
  Qed.

  (* the abstract trace of a history *)
  Fixpoint s_run (s : list nat) (ops : list cop) : list nat * list (nat * option bool) :=
    match ops with
    | [] => (s, [])
    | o :: r =>
        let s' := s_step s o in
        let out := (length s', match o with OpContains i => Some (s_mem s i) | _ => None end) in
        let '(fin, outs) := s_run s' r in (fin, out :: outs)
    end.

  Theorem refines c ops : item_container c -> Forall (fun o => op_idx o < n) ops ->
    forall s, wf n s ->
    c_run pool c (map get s) ops = (map get (fst (s_run s ops)), snd (s_run s ops)) /\
    wf n (fst (s_run s ops)) /\ fst (s_run s ops) = fold_left s_step ops s.
  Proof.
    intros Hc Hops. induction Hops as [|o r Ho Hr IH]; intros s Hw.
    - simpl. auto.
    - simpl. rewrite (c_step_spec c s o Hc Hw Ho).
      assert (Hw' : wf n (s_step s o)) by (apply wf_step; assumption).
      destruct (IH (s_step s o) Hw') as [E1 [E2 E3]].
      rewrite E1. destruct (s_run (s_step s o) r) as [fin outs] eqn:R. simpl in *.
      rewrite map_length.
      split; [|split; assumption].
      f_equal. f_equal. f_equal. destruct o; try reflexivity.
      f_equal. apply c_contains_spec; assumption.
  Qed.
End Hist.

(* ---- the same for an IRI list: Append and Contains over a pool of pairwise non-equivalent ids ---- *)
Section IrisHist.
  Variable ids : list bytes.
  Let n := length ids.
  Let get (i : nat) : bytes := nth i ids [].
  Hypothesis eq_ids : forall i j, i < n -> j < n -> ideq (get j) (get i) false = Nat.eqb i j.

  Lemma iris_append_spec s i : Forall (fun j => j < n) s -> i < n ->
    g_append1 bytes iri_member_eqb (map get s) (get i) = map get (s_append s i).
  Proof. apply (append1_spec bytes iri_member_eqb get n). intros; unfold iri_member_eqb; apply eq_ids; assumption. Qed.

  Lemma iris_contains_spec s i : Forall (fun j => j < n) s -> i < n ->
    g_contains bytes iri_member_eqb (map get s) (get i) = s_mem s i.
  Proof. apply (contains_spec bytes iri_member_eqb get n). intros; unfold iri_member_eqb; apply eq_ids; assumption. Qed.
End IrisHist.

(* ---- instantiation with the C09 model: IRIs, objects, actors, activities with pairwise
   non-equivalent ids ---- *)
Definition has_identity (x : item) : bool :=
  match x with
  | IIri _ s => negb (is_nil x)
  | IObj _ k fs => negb (kind_beq k KLink)
  | _ => false
  end.

Lemma items_eqb_refl x : items_eqb x x = true.
Proof. unfold items_eqb. rewrite ieq_refl. reflexivity. Qed.

Lemma ieq_obj_iri p k fs q a :
  k <> KLink -> is_nil (IIri q a) = false ->
  ieq (IObj p k fs) (IIri q a) = Ok (ideq (get_str F_ID fs) a false) /\
  ieq (IIri q a) (IObj p k fs) = Ok (ideq (get_str F_ID fs) a false).
Proof.
  intros Hk Hn.
  assert (E1 : ieq (IObj p k fs) (IIri q a) = Ok (ideq (get_str F_ID fs) a false)).
  { rewrite ieq_unfold. unfold items_equal_body. rewrite Hn. cbn [is_nil orb].
    unfold needs_swap. cbn [is_iri andb]. unfold typ at 1. cbn [get_type]. rewrite iri_not_object_type.
    reflexivity. }
  split; [exact E1|].
  rewrite ieq_unfold. unfold items_equal_body. rewrite Hn. cbn [is_nil orb].
  unfold needs_swap. cbn [is_iri andb negb]. exact E1.
Qed.

Lemma items_eqb_distinct x y :
  has_identity x = true -> has_identity y = true ->
  ideq (lnk x) (lnk y) false = false -> ideq (lnk x) (lnk y) true = false ->
  items_eqb x y = false.
Proof.
  intros Hx Hy F T. unfold items_eqb.
  destruct x as [| | p a | p k fs | |]; try discriminate; destruct y as [| | q b | q k' gs | |]; try discriminate.
  - simpl in Hx, Hy. apply negb_true_iff in Hx. apply negb_true_iff in Hy.
    rewrite ieq_iris by assumption. unfold lnk in F. simpl in F. rewrite F. reflexivity.
  - simpl in Hx, Hy. apply negb_true_iff in Hx. apply negb_true_iff in Hy.
    assert (Hk : k' <> KLink) by (intro; subst; discriminate).
    destruct (ieq_obj_iri q k' gs p a Hk Hx) as [_ E]. rewrite E.
    unfold lnk in F. simpl in F. rewrite ideq_sym. rewrite F. reflexivity.
  - simpl in Hx, Hy. apply negb_true_iff in Hx. apply negb_true_iff in Hy.
    assert (Hk : k <> KLink) by (intro; subst; discriminate).
    destruct (ieq_obj_iri p k fs q b Hk Hy) as [E _]. rewrite E.
    unfold lnk in F. simpl in F. rewrite F. reflexivity.
  - simpl in Hx, Hy. apply negb_true_iff in Hx. apply negb_true_iff in Hy.
    assert (Hk : k <> KLink) by (intro; subst; discriminate).
    assert (Hk' : k' <> KLink) by (intro; subst; discriminate).
    rewrite ieq_mism; auto. left. unfold lnk in T. simpl in T. exact T.
Qed.

(* a pool of items of distinct identity (DESIGN Appendix A): decidable, so concrete pools check by vm_compute *)
Definition distinct_pool (pool : list item) : bool :=
  forallb has_identity pool &&
  forallb (fun i => forallb (fun j =>
      Nat.eqb i j || (negb (ideq (lnk (pget pool i)) (lnk (pget pool j)) false) &&
                      negb (ideq (lnk (pget pool i)) (lnk (pget pool j)) true)))
    (seq 0 (length pool))) (seq 0 (length pool)).

Lemma distinct_pool_eq pool : distinct_pool pool = true ->
  forall i j, i < length pool -> j < length pool -> items_eqb (pget pool i) (pget pool j) = Nat.eqb i j.
Proof.
  intros H i j Hi Hj. unfold distinct_pool in H. apply andb_true_iff in H. destruct H as [H1 H2].
  destruct (Nat.eqb i j) eqn:E.
  - apply Nat.eqb_eq in E. subst. apply items_eqb_refl.
  - rewrite forallb_forall in H1. rewrite forallb_forall in H2.
    specialize (H2 i). rewrite in_seq in H2. specialize (H2 (conj (Nat.le_0_l _) Hi)).
    rewrite forallb_forall in H2. specialize (H2 j). rewrite in_seq in H2.
    specialize (H2 (conj (Nat.le_0_l _) Hj)). rewrite E in H2. simpl in H2.
    apply andb_true_iff in H2. destruct H2 as [F T].
    apply negb_true_iff in F. apply negb_true_iff in T.
    apply items_eqb_distinct; auto; apply H1; unfold pget; apply nth_In; assumption.
Qed.

Lemma distinct_pool_not_nil pool : distinct_pool pool = true ->
  forall i, i < length pool -> pget pool i <> INil.
Proof.
  intros H i Hi. unfold distinct_pool in H. apply andb_true_iff in H. destruct H as [H1 _].
  rewrite forallb_forall in H1. specialize (H1 (pget pool i) (nth_In _ _ Hi)).
  intro E. rewrite E in H1. discriminate.
Qed.

Theorem refines_items_equal pool c ops :
  distinct_pool pool = true -> c <> CIRIs -> Forall (fun o => op_idx o < length pool) ops ->
  c_run pool c [] ops = (map (pget pool) (fold_left s_step ops []), snd (s_run [] ops)) /\
  NoDup (fold_left s_step ops []).
Proof.
  intros Hp Hc Hops.
  destruct (refines pool (distinct_pool_eq pool Hp) (distinct_pool_not_nil pool Hp) c ops Hc Hops [])
    as [E1 [[E2 _] E3]].
  { split; constructor. }
  simpl in E1. rewrite <- E3. split; [exact E1|exact E2].
Qed.

End IdRel.
End CoGP.

Notation item_container := CoGP.item_container.
Notation s_run := CoGP.s_run.
Notation has_identity := CoGP.has_identity.
Notation distinct_pool := (CoGP.distinct_pool iri_eqb).
Ltac inst_co L :=
  first [ exact (L iri_eqb iri_eqb_refl iri_eqb_sym) | exact (L iri_eqb iri_eqb_refl) | exact (L iri_eqb iri_eqb_sym)
        | exact (L iri_eqb) | exact L ].
Definition c_step_spec := ltac:(inst_co CoGP.c_step_spec).
Definition c_contains_spec := ltac:(inst_co CoGP.c_contains_spec).
Definition refines := ltac:(inst_co CoGP.refines).
Definition iris_append_spec := ltac:(inst_co CoGP.iris_append_spec).
Definition iris_contains_spec := ltac:(inst_co CoGP.iris_contains_spec).
Definition items_eqb_refl := ltac:(inst_co CoGP.items_eqb_refl).
Definition ieq_obj_iri := ltac:(inst_co CoGP.ieq_obj_iri).
Definition items_eqb_distinct := ltac:(inst_co CoGP.items_eqb_distinct).
Definition distinct_pool_eq := ltac:(inst_co CoGP.distinct_pool_eq).
Definition distinct_pool_not_nil := ltac:(inst_co CoGP.distinct_pool_not_nil).
Definition refines_items_equal := ltac:(inst_co CoGP.refines_items_equal).

Lemma s_other_members s i j : i <> j ->
  s_mem (s_append s i) j = s_mem s j /\ s_mem (s_remove s i) j = s_mem s j.
Proof. intro H. exact (conj (s_append_other s i j H) (s_remove_other s i j H)). Qed.

Lemma s_step_nodup n s o : wf n s -> op_idx o < n -> NoDup (s_step s o).
Proof. intros H Ho. exact (proj1 (wf_step n s o H Ho)). Qed.
