(* Model/CollPath.v (typer.go CollectionPath.Of / IRI / AddTo on every item, through the conversion tables; tied to
   the code by Cases_C20_paths, C20's no-panic theorem is about it) and Model/CollIri.v (the same helpers on single
   items, hand-written; C15's helper theorems are about it) are ONE model on single structs of every kind but Link (Object and Actor - the
   two kinds the helper reads - and the eleven kinds it reads through the Object view), for every conversion table that satisfies the decidable condition [paths_tables_ok]:
   ToObject hands an Object its own pointer (or a copy) and every other kind a view through which ID, Likes, Shares and
   Replies are the struct's own; ToActor hands an Actor its own pointer (or a copy) and refuses every other kind. *)
From AP.Model Require Import Prelude Bytes Vocab Pred Layout Views Conv Url IriEq CollIri Recip OnTab CollPath.
From AP.Gen Require Import TypeLists.
From AP.Proofs Require Import NlvP ViewsP OnTabP CollPathP.

Fixpoint nodup_fids (l : list fid) : bool :=
  match l with [] => true | x :: r => negb (existsb (fid_beq x) r) && nodup_fids r end.
Lemma nodup_fids_NoDup l : nodup_fids l = true -> NoDup l.
Proof.
  induction l as [|x r IH]; intros H; [constructor|]. cbn [nodup_fids] in H. apply andb_true_iff in H. destruct H as [H1 H2].
  constructor; [|exact (IH H2)]. intros Hin. apply negb_true_iff in H1.
  assert (existsb (fid_beq x) r = true) by (apply existsb_exists; exists x; split; [exact Hin|apply fid_beq_refl]). congruence.
Qed.

(* the fields ofObject reads *)
Definition obj_fids : list fid := [F_ID; F_Likes; F_Shares; F_Replies].

Lemma of_object_ext t vf fs : (forall f, In f obj_fids -> getf f vf = getf f fs) -> of_object t vf = of_object t fs.
Proof.
  intros H. unfold of_object, explicit_of, get_str, get_item, object_field.
  rewrite (H F_ID) by (cbn; tauto).
  destruct (bytes_eqb t (B "likes")); [rewrite (H F_Likes) by (cbn; tauto); reflexivity|].
  destruct (bytes_eqb t (B "shares")); [rewrite (H F_Shares) by (cbn; tauto); reflexivity|].
  destruct (bytes_eqb t (B "replies")); [rewrite (H F_Replies) by (cbn; tauto); reflexivity|]. reflexivity.
Qed.

Lemma get_link_not_nil it : is_nil it = false -> get_link it = Ok (link_of it).
Proof. destruct it; cbn; try discriminate; reflexivity. Qed.

Section Eq.
  Variable layout_of : kind -> list fdecl.
  Variable sizeof_kind : kind -> nat.
  Variable refl : list (kind * kind).
  Variable ct : list (bytes * list conv_case * conv_action).
  Let conv := conv_of_tables layout_of sizeof_kind refl ct.
  Notation citem := (conv_item layout_of sizeof_kind refl).

  Definition tab_of (f : bytes) := find (fun t => bytes_eqb (fst (fst t)) f) ct.

  (* case T / case pointer-to-T: the pointer itself or a pointer to a copy *)
  Definition ident_case (tb : list conv_case) (k : kind) (p : bool) : bool :=
    match find_case tb (CK k, p) with
    | Some c => match cv_action c with AIdent | AAddrOfCopy => true | _ => false end
    | None => false
    end.
  (* a reinterpretation as Object whose view is backed, field names unique, the four fields in the view *)
  Definition cast_case (tb : list conv_case) (k : kind) (p : bool) : bool :=
    match find_case tb (CK k, p) with
    | Some c => match cv_action c with
                | ACast (CK KObject) | ACastOfCopy (CK KObject) =>
                    prefix_compatible layout_of sizeof_kind KObject k && nodup_fids (map fd_fid (layout_of KObject))
                    && forallb (fun f => existsb (fun d => fid_beq (fd_fid d) f) (layout_of KObject)) obj_fids
                | _ => false
                end
    | None => false
    end.
  (* no case, and the default clause answers with an error *)
  Definition refuses (tb : list conv_case) (df : conv_action) (src dst : kind) (p : bool) : bool :=
    match find_case tb (CK src, p) with
    | Some _ => false
    | None => match df with AReflect => negb (reflect_ok refl src dst) | ANoDefault => true | _ => false end
    end.

  Definition nonlink_kinds : list kind := filter (fun k => negb (kind_beq k KLink)) all_kinds.

  Definition obj_ok (tO : list conv_case) (k : kind) (p : bool) : bool :=
    if kind_beq k KObject then ident_case tO k p else cast_case tO k p.
  Definition act_ok (tA : list conv_case) (dA : conv_action) (k : kind) (p : bool) : bool :=
    if kind_beq k KActor then ident_case tA k p else refuses tA dA k KActor p.

  Definition paths_tables_ok : bool :=
    match tab_of n_ToObject, tab_of n_ToActor with
    | Some (_, tO, dO), Some (_, tA, dA) =>
        forallb (fun k => obj_ok tO k true && obj_ok tO k false && act_ok tA dA k true && act_ok tA dA k false) nonlink_kinds
    | _, _ => false
    end.
  (* the first kind for which the condition fails *)
  Definition paths_first_bad : option kind :=
    match tab_of n_ToObject, tab_of n_ToActor with
    | Some (_, tO, dO), Some (_, tA, dA) =>
        find (fun k => negb (obj_ok tO k true && obj_ok tO k false && act_ok tA dA k true && act_ok tA dA k false)) nonlink_kinds
    | _, _ => None
    end.

  Lemma leaf_conv targ f d nm tb df i : to_target f = Some d -> tab_of f = Some (nm, tb, df) ->
    leaf conv targ f [OvItem i] = conv_out d (citem tb df d i).
  Proof.
    intros H T. destruct (to_name_not_fixed f d H) as [E1 [E2 [E3 [E4 E5]]]].
    unfold leaf. rewrite E1, E2, E3, E4, E5, H. unfold conv, conv_of_tables. rewrite H. unfold tab_of in T. rewrite T. reflexivity.
  Qed.

  Lemma ident_view tb df d k p fs : ident_case tb k p = true ->
    exists al, citem tb df d (IObj p k fs) = CRView al (IObj true k fs).
  Proof.
    unfold ident_case, conv_item. cbn [shape_of]. destruct (find_case tb (CK k, p)) as [c|]; [|discriminate].
    destruct (cv_action c); try discriminate; intros _; eexists; reflexivity.
  Qed.

  Lemma ren_obj_fid f : In f obj_fids -> ren f = f.
  Proof. cbn. intros [<-|[<-|[<-|[<-|[]]]]]; reflexivity. Qed.

  Lemma cast_view tb df d k p fs : cast_case tb k p = true ->
    exists al vf, citem tb df d (IObj p k fs) = CRView al (IObj true KObject vf) /\
                  forall f, In f obj_fids -> getf f vf = getf f fs.
  Proof.
    unfold cast_case, conv_item. cbn [shape_of]. destruct (find_case tb (CK k, p)) as [c|]; [|discriminate].
    assert (K : prefix_compatible layout_of sizeof_kind KObject k && nodup_fids (map fd_fid (layout_of KObject))
                && forallb (fun f => existsb (fun d => fid_beq (fd_fid d) f) (layout_of KObject)) obj_fids = true ->
                exists vf, view_fields layout_of sizeof_kind KObject k fs = Some vf /\ forall f, In f obj_fids -> getf f vf = getf f fs).
    { rewrite !andb_true_iff. intros [[Hpc Hnd] Hin].
      destruct (view_faithful layout_of sizeof_kind KObject k fs Hpc (nodup_fids_NoDup _ Hnd)) as [out [Hv Hall]].
      exists out. split; [exact Hv|]. intros f Hf. rewrite forallb_forall in Hin. specialize (Hin f Hf).
      apply existsb_exists in Hin. destruct Hin as [d0 [Hd0 Ef]]. apply fid_beq_eq in Ef.
      destruct (Hall d0 Hd0) as [s [_ [Hs Hg]]]. rewrite Ef in *. rewrite (ren_obj_fid f Hf) in Hs.
      assert (fd_fid s = f) as Es by (destruct Hs; assumption). rewrite Es in Hg. exact Hg. }
    destruct (cv_action c) as [| |[dk|]|[dk|]| | | | | |]; try discriminate; destruct dk; try discriminate; intros H;
      destruct (K H) as [vf [Hv Hg]]; rewrite Hv; eexists; exists vf; (split; [reflexivity|exact Hg]).
  Qed.

  Lemma refuse_err tb df src dst p fs : refuses tb df src dst p = true -> citem tb df dst (IObj p src fs) = CRErr.
  Proof.
    unfold refuses, conv_item. cbn [shape_of]. destruct (find_case tb (CK src, p)); [discriminate|].
    destruct df; try discriminate; intros H; cbn [is_nil]; [|reflexivity].
    destruct p; [|reflexivity]. apply negb_true_iff in H. rewrite H. reflexivity.
  Qed.

  Hypothesis Hok : paths_tables_ok = true.

  Definition single (k : kind) : Prop := In k nonlink_kinds.

  Lemma single_not_link k : single k -> k <> KLink.
  Proof. unfold single, nonlink_kinds. rewrite filter_In. intros [_ H] ->. discriminate H. Qed.

  Lemma tables_parts : exists nO tO dO nA tA dA,
    tab_of n_ToObject = Some (nO, tO, dO) /\ tab_of n_ToActor = Some (nA, tA, dA) /\
    (forall k p, single k -> obj_ok tO k p = true) /\ (forall k p, single k -> act_ok tA dA k p = true).
  Proof.
    unfold paths_tables_ok in Hok. destruct (tab_of n_ToObject) as [[[nO tO] dO]|]; [|discriminate].
    destruct (tab_of n_ToActor) as [[[nA tA] dA]|]; [|discriminate].
    rewrite forallb_forall in Hok.
    exists nO, tO, dO, nA, tA, dA. split; [reflexivity|]. split; [reflexivity|].
    split; intros k p Hk; specialize (Hok k Hk); rewrite !andb_true_iff in Hok; destruct Hok as [[[H1 H2] H3] H4]; destruct p; assumption.
  Qed.

  (* ToObject on a struct that is no Link: a pointer to a struct whose four fields are the original's *)
  Lemma to_object_single targ p k fs : single k ->
    exists k' vf, leaf conv targ n_ToObject [OvItem (IObj p k fs)] = Ok [OvItem (IObj true k' vf); OvNil] /\
                  forall t, of_object t vf = of_object t fs.
  Proof.
    intros Hk. destruct tables_parts as [nO [tO [dO [nA [tA [dA [TO [TA [HO HA]]]]]]]]].
    rewrite (leaf_conv targ n_ToObject KObject nO tO dO _ eq_refl TO).
    pose proof (HO k p Hk) as H. unfold obj_ok in H. destruct (kind_beq k KObject) eqn:Ek.
    - destruct (ident_view tO dO KObject k p fs H) as [al E]. rewrite E. exists k, fs. split; reflexivity.
    - destruct (cast_view tO dO KObject k p fs H) as [al [vf [E Hg]]]. rewrite E. exists KObject, vf.
      split; [reflexivity|]. intros t. apply of_object_ext. exact Hg.
  Qed.

  Lemma after_object_single g t p k fs it1 : single k -> after_object conv g t (IObj p k fs) it1 = Ok (of_object t fs).
  Proof.
    intros Hk. unfold after_object, visit_struct. cbn [visit]. unfold visit_one.
    destruct (to_object_single (false, KObject) p k fs Hk) as [k' [vf [E Hof]]]. rewrite E. cbn. rewrite Hof. reflexivity.
  Qed.

  Lemma actor_branch_single t p k fs K : single k ->
    actor_branch conv t (IObj p k fs) K =
    if contains tl_OfActor t then (if kind_beq k KActor then Ok (of_actor_item t fs) else K) else K.
  Proof.
    intros Hk. unfold actor_branch. destruct (contains tl_OfActor t); [|reflexivity].
    destruct tables_parts as [nO [tO [dO [nA [tA [dA [TO [TA [HO HA]]]]]]]]].
    rewrite (leaf_conv (false, KObject) n_ToActor KActor nA tA dA _ eq_refl TA).
    pose proof (HA k p Hk) as H. unfold act_ok in H. destruct (kind_beq k KActor) eqn:Ek.
    - destruct (ident_view tA dA KActor k p fs H) as [al E]. rewrite E. reflexivity.
    - rewrite (refuse_err tA dA k KActor p fs H). reflexivity.
  Qed.

  Lemma kind_beq_true a b : kind_beq a b = true -> a = b.
  Proof. apply internal_kind_dec_bl. Qed.

  Lemma coll_of_single t p k fs : single k ->
    coll_of t (IObj p k fs) = Some (if contains tl_OfActor t then (if kind_beq k KActor then of_actor_item t fs else of_object t fs) else of_object t fs).
  Proof.
    intros Hk. pose proof (single_not_link k Hk) as NL. unfold coll_of. cbn [is_nil].
    destruct k; try congruence; cbn [kind_beq]; destruct (contains tl_OfActor t); reflexivity.
  Qed.

  (* CollectionPath.Of *)
  Theorem of_path_single g t p k fs : single k ->
    of_path conv g t (IObj p k fs) = match coll_of t (IObj p k fs) with Some it => Ok it | None => Err end.
  Proof.
    intros Hk. cbn [of_path]. unfold of_single. cbn [is_nil].
    rewrite (actor_branch_single _ _ _ _ _ Hk), (after_object_single _ _ _ _ _ _ Hk), (coll_of_single _ _ _ _ Hk).
    destruct (contains tl_OfActor t); [|reflexivity]. destruct (kind_beq k KActor); reflexivity.
  Qed.

  (* CollectionPath.IRI *)
  Theorem iri_path_single g t p k fs : single k ->
    iri_path conv g t (IObj p k fs) = match coll_iri t (IObj p k fs) with Some s => Ok s | None => Err end.
  Proof.
    intros Hk. pose proof (single_not_link k Hk) as NL. unfold iri_path, coll_iri, coll_iri_with. cbn [is_nil].
    assert (is_object (IObj p k fs) = true) as -> by (destruct k; try congruence; reflexivity).
    rewrite (of_path_single g t p k fs Hk), (coll_of_single _ _ _ _ Hk).
    set (it := if contains tl_OfActor t then (if kind_beq k KActor then of_actor_item t fs else of_object t fs) else of_object t fs).
    cbn [obind]. destruct (is_nil it) eqn:N; cbn [negb].
    - reflexivity.
    - rewrite (get_link_not_nil _ N). reflexivity.
  Qed.

  (* CollectionPath.AddTo *)
  Theorem add_to_path_single t p k fs : single k ->
    add_to_path conv t (IObj p k fs) = match add_to t (IObj p k fs) with Some r => Ok r | None => Err end.
  Proof.
    intros Hk. pose proof (single_not_link k Hk) as NL. unfold add_to_path. cbn [is_nil].
    assert (meth_is_object (IObj p k fs) = Ok true) as -> by (destruct k; try congruence; reflexivity). cbn [obind negb].
    destruct tables_parts as [nO [tO [dO [nA [tA [dA [TO [TA [HO HA]]]]]]]]].
    unfold handed. destruct (contains tl_OfActor t) eqn:CA.
    - rewrite (leaf_conv (false, KObject) n_ToActor KActor nA tA dA _ eq_refl TA).
      pose proof (HA k p Hk) as H. unfold act_ok in H. destruct (kind_beq k KActor) eqn:Ek.
      + apply kind_beq_true in Ek. subst k. destruct (ident_view tA dA KActor KActor p fs H) as [al E]. rewrite E. cbn. reflexivity.
      + rewrite (refuse_err tA dA k KActor p fs H). cbn. unfold add_to. cbn [is_nil]. rewrite CA.
        destruct k; try congruence; try discriminate Ek; reflexivity.
    - destruct (contains tl_OfObject t) eqn:CO.
      + destruct (to_object_single (false, KObject) p k fs Hk) as [k' [vf [E _]]]. rewrite E. cbn. reflexivity.
      + cbn [get_link obind]. unfold add_to. cbn [is_nil]. rewrite CA, CO. destruct k; try congruence; reflexivity.
  Qed.
End Eq.
