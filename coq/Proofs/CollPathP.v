(* Proofs for Model/CollPath.v: CollectionPath.Of / IRI / AddTo never panic, on any item - whatever its members,
   nested lists included - when the loop of OnObject passes over the members for which IsNil holds; for every
   conversion table read through Model/Conv.conv_item. *)
From AP.Model Require Import Prelude Bytes Vocab Pred Layout Views Conv Url IriEq CollIri Recip OnTab CollPath.
From AP.Gen Require Import TypeLists.
From AP.Proofs Require Import NlvP TabEqP OnTabP.
From Coq Require Import Lia.

(* on an item that is not nil a conversion does not panic either *)
Definition conv_no_panic (conv : bytes -> option (item -> conv_result)) : Prop :=
  forall f c i, conv f = Some c -> is_nil i = false -> c i <> CRPanic.

Lemma conv_item_no_panic layout_of sizeof_kind refl tblc dflt d i :
  is_nil i = false -> conv_item layout_of sizeof_kind refl tblc dflt d i <> CRPanic.
Proof.
  unfold conv_item. intro Hi.
  repeat match goal with
         | |- context [if is_nil i then _ else _] => rewrite Hi
         | |- context [match ?x with _ => _ end] => destruct x
         end; try discriminate; try discriminate Hi.
Qed.

Lemma conv_of_tables_no_panic layout_of sizeof_kind refl ct : conv_no_panic (conv_of_tables layout_of sizeof_kind refl ct).
Proof.
  intros f c i H Hi. unfold conv_of_tables in H.
  destruct (to_target f) as [d|]; [|discriminate]. destruct (find _ ct) as [t|]; [|discriminate].
  injection H as <-. apply conv_item_no_panic; exact Hi.
Qed.

Definition good (r : otrace * outcome (list oval)) : Prop := no_nil (fst r) /\ is_panic (snd r) = false.

Section NoPanic.
  Variable conv : bytes -> option (item -> conv_result).
  Variable targ : bool * kind.
  Variable cb : otrace -> oval -> bool.
  Hypothesis Hconv : conv_good conv.
  Hypothesis Hnp : conv_no_panic conv.

  (* a conversion of an item that is not nil: no panic, and the pointer it yields is not nil *)
  Lemma leaf_conv_ok tofn i : tofn_ok tofn -> is_nil i = false ->
    is_panic (leaf conv targ tofn [OvItem i]) = false /\
    (forall p, leaf conv targ tofn [OvItem i] = Ok [p; OvNil] -> arg_is_nil p = false).
  Proof.
    intros Ht Hi. destruct Ht as [->|[d Hd]].
    - change (leaf conv targ n_ToT [OvItem i]) with
        (if has_go_type targ i then Ok [OvAddr (OvItem i); OvNil] else Ok [OvNil; OvErr]).
      destruct (has_go_type targ i); split; try reflexivity; intros p Hp; try discriminate.
      injection Hp as <-. destruct i; try reflexivity; discriminate.
    - destruct (to_name_not_fixed tofn d Hd) as [E1 [E2 [E3 [E4 E5]]]].
      unfold leaf. rewrite E1, E2, E3, E4, E5, Hd.
      destruct (conv tofn) as [c|] eqn:C; [|split; [reflexivity | discriminate]].
      destruct (Hconv tofn c i C) as [G1 G2]. specialize (G1 Hi). pose proof (Hnp tofn c i C Hi) as G3.
      destruct (c i) eqn:R; simpl; split; try reflexivity; try (intros p Hp; discriminate);
        try (exfalso; apply G3; reflexivity); try (exfalso; apply (proj1 G1); reflexivity);
        try (exfalso; apply (proj2 G1); reflexivity).
      + intros p Hp. injection Hp as <-. destruct (G2 alias v eq_refl) as [k [fs ->]]. reflexivity.
      + intros p Hp. injection Hp as <-. reflexivity.
      + intros p Hp. injection Hp as <-. reflexivity.
  Qed.

  Lemma visit_one_good tofn i tr : tofn_ok tofn -> is_nil i = false -> no_nil tr -> good (visit_one conv targ cb tofn i tr).
  Proof.
    intros Ht Hi Htr. destruct (leaf_conv_ok tofn i Ht Hi) as [P L]. unfold visit_one, good.
    destruct (leaf conv targ tofn [OvItem i]) as [vs| |q|]; simpl; try (split; [exact Htr | reflexivity]); [|discriminate P].
    destruct vs as [|x [|y [|z r]]]; simpl; try (split; [exact Htr | reflexivity]); [|destruct y; split; try exact Htr; reflexivity].
    destruct y; simpl; try (split; [exact Htr | reflexivity]).
    split; [|reflexivity]. apply Forall_app; split; [exact Htr|]. constructor; [|constructor]. apply L; reflexivity.
  Qed.

  Lemma and_then_good (r : otrace * outcome (list oval)) k :
    good r -> (forall t, no_nil t -> good (k t)) -> good (and_then r k).
  Proof.
    intros [H1 H2] Hk. destruct r as [tr' [vs| |q|]]; simpl in *; try (split; [exact H1 | reflexivity]); [|discriminate H2].
    destruct vs as [|x [|y r']]; simpl; try (split; [exact H1 | reflexivity]);
      destruct x; simpl; try (split; [exact H1 | reflexivity]). apply Hk; exact H1.
  Qed.

  Lemma walk_with_good vis g l :
    (forall m t, In m l -> skips g m = false -> no_nil t -> good (vis m t)) ->
    forall tr, no_nil tr -> good (walk_with vis g l tr).
  Proof.
    intro Hv. induction l as [|m r IH]; intros tr Htr; simpl; [split; [exact Htr | reflexivity]|].
    destruct (skips g m) eqn:S.
    - apply IH; [|exact Htr]. intros x t Hx; apply Hv; right; exact Hx.
    - apply and_then_good.
      + apply Hv; [left; reflexivity | exact S | exact Htr].
      + intros t Ht. apply IH; [|exact Ht]. intros x t' Hx; apply Hv; right; exact Hx.
  Qed.

  (* a walk: no nil pointer handed over, no panic - for a list whatever its members, for a single item that is not nil *)
  Theorem visit_good tofn g top : tofn_ok tofn -> guard_skips_nil g = true ->
    forall n i, item_size i <= n -> is_nil i = false \/ is_item_collection i = true ->
    forall tr, no_nil tr -> good (visit conv targ cb tofn g top i tr).
  Proof.
    intros Ht Hg. induction n as [|n IH]; intros i Hs Hc tr Htr.
    - destruct i as [|k|p s|p k fs|p [l|]|p lo]; simpl in Hs; lia.
    - destruct i as [|k|p s|p k fs|p lo|p lo].
      + destruct Hc as [Hc|Hc]; discriminate Hc.
      + destruct Hc as [Hc|Hc]; discriminate Hc.
      + destruct Hc as [Hc|Hc]; [|discriminate Hc]. cbn [visit]. apply visit_one_good; assumption.
      + destruct Hc as [Hc|Hc]; [|discriminate Hc]. cbn [visit]. apply visit_one_good; assumption.
      + destruct lo as [l|]; [|split; [exact Htr | reflexivity]]. rewrite visit_items. apply walk_with_good; [|exact Htr].
        intros m t Hm Sk Hn. pose proof (skips_nil targ g m Hg Sk) as Nm.
        pose proof (size_member p l m Hm) as Hlt. apply IH; [lia | left; exact Nm | exact Hn].
      + cbn [visit]. rewrite walk_flat_with. apply walk_with_good; [|exact Htr].
        intros m t Hm Sk Hn. apply visit_one_good; [exact Ht | exact (skips_nil targ g m Hg Sk) | exact Hn].
  Qed.
End NoPanic.

Lemma no_nil_existsb tr : no_nil tr -> existsb arg_is_nil tr = false.
Proof.
  induction 1 as [|x l Hx _ IH]; [reflexivity|]. simpl. rewrite Hx, IH. reflexivity.
Qed.

Lemma last_opt_in {A} (l : list A) x : last_opt l = Some x -> In x l.
Proof.
  induction l as [|y r IH]; [discriminate|]. destruct r as [|z r']; simpl.
  - intro H; injection H as <-; left; reflexivity.
  - intro H. right. apply IH. exact H.
Qed.

Section Paths.
  Variable conv : bytes -> option (item -> conv_result).
  Variable g : loop_guard.
  Hypothesis Hconv : conv_good conv.
  Hypothesis Hnp : conv_no_panic conv.
  Hypothesis Hg : guard_skips_nil g = true.

  Lemma of_object_ptr_ok t p : arg_is_nil p = false -> is_panic (of_object_ptr t p) = false.
  Proof. destruct p as [[]| | | | | | | | | |]; simpl; try reflexivity; try discriminate; destruct ptr; reflexivity. Qed.
  Lemma of_actor_ptr_ok t p : arg_is_nil p = false -> is_panic (of_actor_ptr t p) = false.
  Proof. destruct p as [[]| | | | | | | | | |]; simpl; try reflexivity; try discriminate; destruct ptr; reflexivity. Qed.

  Lemma to_object_ok : tofn_ok n_ToObject. Proof. right; exists KObject; reflexivity. Qed.
  Lemma to_actor_ok : tofn_ok n_ToActor. Proof. right; exists KActor; reflexivity. Qed.

  Lemma after_object_ok t i it1 :
    is_nil i = false \/ is_item_collection i = true -> is_panic (after_object conv g t i it1) = false.
  Proof.
    intro Hi. unfold after_object, visit_struct.
    pose proof (visit_good conv (false, KObject) (fun _ _ => false) Hconv Hnp n_ToObject g true to_object_ok Hg
                  (item_size i) i (le_n _) Hi [] (Forall_nil _)) as [G1 G2].
    destruct (visit conv (false, KObject) (fun _ _ => false) n_ToObject g true i []) as [tr res]; simpl in G1, G2.
    assert (X : is_panic (if existsb arg_is_nil tr then Panic NilDeref
                          else match last_opt tr with Some p => of_object_ptr t p | None => Ok it1 end) = false).
    { rewrite (no_nil_existsb tr G1). destruct (last_opt tr) as [p|] eqn:L; [|reflexivity].
      apply of_object_ptr_ok. unfold no_nil in G1. rewrite Forall_forall in G1. apply G1. apply last_opt_in; exact L. }
    destruct res; try exact X; try reflexivity. discriminate G2.
  Qed.

  Lemma actor_branch_ok t i k : is_nil i = false -> is_panic k = false -> is_panic (actor_branch conv t i k) = false.
  Proof.
    intros Hi Hk. unfold actor_branch. destruct (contains _ t); [|exact Hk].
    destruct (leaf_conv_ok conv (false, KObject) Hconv Hnp n_ToActor i to_actor_ok Hi) as [P L].
    destruct (leaf conv (false, KObject) n_ToActor [OvItem i]) as [vs| |q|]; try reflexivity; [|discriminate P].
    destruct vs as [|x [|y [|z r]]]; try reflexivity; destruct y; try reflexivity; [|exact Hk].
    apply of_actor_ptr_ok. apply L; reflexivity.
  Qed.

  Lemma of_single_ok t i : is_item_collection i = false -> is_panic (of_single conv g t i) = false.
  Proof.
    intro Hc. unfold of_single. destruct (is_nil i) eqn:N; [reflexivity|].
    apply actor_branch_ok; [exact N|]. apply after_object_ok. left; exact N.
  Qed.

  Lemma obind_ok {A B} (o : outcome A) (f : A -> outcome B) :
    is_panic o = false -> (forall x, is_panic (f x) = false) -> is_panic (obind o f) = false.
  Proof. destruct o; simpl; intros H Hf; try reflexivity; [apply Hf | discriminate H]. Qed.

  (* Of *)
  Theorem of_path_ok t : forall n i, item_size i <= n -> is_panic (of_path conv g t i) = false.
  Proof.
    induction n as [|n IH]; intros i Hs.
    - destruct i as [|k|p s|p k fs|p [l|]|p lo]; simpl in Hs; lia.
    - destruct i as [|k|p s|p k fs|p lo|p lo]; try (apply of_single_ok; reflexivity).
      + destruct lo as [l|].
        * assert (Hm : forall m, In m l -> item_size m <= n) by (intros m Hm; pose proof (size_member p l m Hm); lia).
          assert (Go : is_panic ((fix go (l : list item) : outcome (list item) :=
                                    match l with
                                    | [] => Ok []
                                    | m :: r => obind (of_path conv g t m) (fun x => obind (go r) (fun xs => Ok (x :: xs)))
                                    end) l) = false).
          { clear Hs. induction l as [|m r IHl]; [reflexivity|].
            apply obind_ok; [apply IH; apply Hm; left; reflexivity|]. intro x.
            apply obind_ok; [apply IHl; intros y Hy; apply Hm; right; exact Hy|]. intro xs. reflexivity. }
          destruct p; cbn [of_path]; (apply obind_ok; [exact Go|]); intro xs;
            (apply actor_branch_ok; [reflexivity|]); apply after_object_ok; right; reflexivity.
        * destruct p; [|reflexivity]. cbn [of_path].
          apply actor_branch_ok; [reflexivity|]. apply after_object_ok. right; reflexivity.
      + cbn [of_path]. destruct (is_nil (IIris p lo)) eqn:N; [reflexivity|]. apply obind_ok.
        * induction (olst lo) as [|s r IHl]; [reflexivity|].
          apply obind_ok; [apply of_single_ok; reflexivity|]. intro x.
          apply obind_ok; [exact IHl|]. intro xs. reflexivity.
        * intro xs. apply actor_branch_ok; [exact N|]. apply after_object_ok. right; reflexivity.
  Qed.

  Lemma get_link_ok i : is_nil i = false -> is_panic (get_link i) = false.
  Proof. destruct i; simpl; try reflexivity; discriminate. Qed.

  (* IRI *)
  Theorem iri_path_ok t i : is_panic (iri_path conv g t i) = false.
  Proof.
    unfold iri_path. destruct (is_nil i) eqn:N; [reflexivity|].
    destruct (is_object i).
    - apply obind_ok; [apply (of_path_ok t (item_size i) i (le_n _))|]. intro it.
      destruct (is_nil it) eqn:Nit; simpl.
      + apply obind_ok; [apply get_link_ok; exact N | reflexivity].
      + apply get_link_ok; exact Nit.
    - apply obind_ok; [apply get_link_ok; exact N | reflexivity].
  Qed.

  (* AddTo *)
  Theorem add_to_path_ok t i : is_panic (add_to_path conv t i) = false.
  Proof.
    unfold add_to_path. destruct (is_nil i) eqn:N; [reflexivity|].
    apply obind_ok; [destruct i as [|k|p s|p k fs|p lo|p lo]; try reflexivity; try discriminate N; destruct k; reflexivity|]. intro o.
    destruct (negb o); [reflexivity|].
    assert (H : forall f, tofn_ok f ->
              is_panic (obind (handed conv f i) (fun h => match h with
                          | Some p => if arg_is_nil p then Panic NilDeref
                                      else match add_to t i with Some r => Ok r | None => Err end
                          | None => Ok ([], false, i) end)) = false).
    { intros f Hf. destruct (leaf_conv_ok conv (false, KObject) Hconv Hnp f i Hf N) as [P L].
      unfold handed. destruct (leaf conv (false, KObject) f [OvItem i]) as [vs| |q|]; try reflexivity; [|discriminate P].
      destruct vs as [|x [|y [|z r]]]; try reflexivity; destruct y; try reflexivity.
      simpl. rewrite (L x eq_refl). destruct (add_to t i); reflexivity. }
    destruct (contains tl_OfActor t); [apply H; exact to_actor_ok|].
    destruct (contains tl_OfObject t); [apply H; exact to_object_ok|].
    apply obind_ok; [apply get_link_ok; exact N | reflexivity].
  Qed.
End Paths.
